/-
C13 — State grids are well formed and refinement nests them.   Property theorems only.
Model: RpylibModel/Model/Grid.lean.  `Between mid` is the only thing assumed of the grid's cell-boundary
function; `amid` (every grid but the probability-step grid) satisfies it (`amid_between`).
-/
import RpylibModel.Model.Grid
import Mathlib.Tactic.Linarith
import Mathlib.Tactic.Ring
import Mathlib.Tactic.FieldSimp
import Mathlib.Algebra.Order.Field.Rat

set_option linter.dupNamespace false

namespace Rpylib.Grid

/-- the cell-boundary function puts its value strictly inside a non-degenerate gap -/
def Between (mid : Rat → Rat → Rat) : Prop := ∀ a b, a < b → a < mid a b ∧ mid a b < b

theorem amid_between : Between amid := by
  intro a b h; unfold amid; constructor <;> linarith

/-! ### one refinement -/

theorem refine_length (mid) (xs : List Rat) : (refine mid xs).length = 2 * xs.length - 1 := by
  induction xs with
  | nil => simp [refine]
  | cons x t ih =>
    cases t with
    | nil => simp [refine]
    | cons y r => simp only [refine, List.length_cons] at ih ⊢; omega

/-- every old state is kept, at twice its old index -/
theorem refine_even_old (mid) (xs : List Rat) (k : Nat) : (refine mid xs)[2 * k]? = xs[k]? := by
  induction xs generalizing k with
  | nil => simp [refine]
  | cons x t ih =>
    cases t with
    | nil => cases k <;> simp [refine]
    | cons y r =>
      cases k with
      | zero => simp [refine]
      | succ k =>
        have : 2 * (k + 1) = (2 * k) + 1 + 1 := by ring
        rw [this]; simp only [refine, List.getElem?_cons_succ]; exact ih k

/-- exactly the grid's own cell boundary of the old gap is inserted at the odd index -/
theorem refine_odd_is_mid (mid) (xs : List Rat) (k : Nat) (a b : Rat)
    (ha : xs[k]? = some a) (hb : xs[k + 1]? = some b) : (refine mid xs)[2 * k + 1]? = some (mid a b) := by
  induction xs generalizing k with
  | nil => simp at ha
  | cons x t ih =>
    cases t with
    | nil => simp at hb
    | cons y r =>
      cases k with
      | zero => simp at ha hb; subst ha; subst hb; simp [refine]
      | succ k =>
        have : 2 * (k + 1) + 1 = (2 * k + 1) + 1 + 1 := by ring
        rw [this]; simp only [refine, List.getElem?_cons_succ]
        exact ih k (by simpa using ha) (by simpa using hb)

theorem refine_odd_strictly_between (mid) (hm : Between mid) (xs : List Rat) (k : Nat) (a b : Rat) (hab : a < b)
    (ha : xs[k]? = some a) (hb : xs[k + 1]? = some b) :
    ∃ m, (refine mid xs)[2 * k + 1]? = some m ∧ a < m ∧ m < b :=
  ⟨mid a b, refine_odd_is_mid mid xs k a b ha hb, hm a b hab⟩

theorem refine_strictInc (mid) (hm : Between mid) (xs : List Rat) (h : StrictInc xs) : StrictInc (refine mid xs) := by
  induction xs with
  | nil => trivial
  | cons x t ih =>
    cases t with
    | nil => trivial
    | cons y r =>
      obtain ⟨hxy, hr⟩ := h
      have h2 := ih hr
      cases r with
      | nil => exact ⟨(hm x y hxy).1, (hm x y hxy).2, trivial⟩
      | cons z r' => exact ⟨(hm x y hxy).1, (hm x y hxy).2, h2⟩

theorem refine_head (mid) (xs : List Rat) : (refine mid xs).head? = xs.head? := by
  cases xs with
  | nil => rfl
  | cons x t => cases t <;> rfl

theorem refine_getLast (mid) (xs : List Rat) : (refine mid xs).getLast? = xs.getLast? := by
  induction xs with
  | nil => rfl
  | cons x t ih =>
    cases t with
    | nil => rfl
    | cons y r =>
      have : refine mid (x :: y :: r) = x :: mid x y :: refine mid (y :: r) := rfl
      rw [this]
      cases hr : refine mid (y :: r) with
      | nil => cases r <;> simp [refine] at hr
      | cons z zs =>
        rw [List.getLast?_cons_cons, List.getLast?_cons_cons, ← hr, ih, List.getLast?_cons_cons]

/-- the truncation bounds (first and last point of the axis) are unchanged -/
theorem refine_truncation (mid) (xs : List Rat) : truncation (refine mid xs) = truncation xs := by
  unfold truncation; rw [refine_head, refine_getLast]

/-! ### any number of refinements -/

theorem refineN_length (mid) (k : Nat) (xs : List Rat) (hne : xs ≠ []) :
    (refineN mid k xs).length = 2 ^ k * (xs.length - 1) + 1 := by
  induction k generalizing xs with
  | zero => cases xs with
    | nil => exact absurd rfl hne
    | cons x t => simp [refineN]
  | succ k ih =>
    have hne' : refine mid xs ≠ [] := by
      cases xs with
      | nil => exact absurd rfl hne
      | cons x t => cases t <;> simp [refine]
    have hl : 1 ≤ xs.length := by cases xs <;> simp_all
    rw [refineN, ih _ hne', refine_length, pow_succ]
    have : 2 * xs.length - 1 - 1 = 2 * (xs.length - 1) := by omega
    rw [this]; ring

/-- old states sit at `2^k` times their old index after k refinements -/
theorem refineN_old (mid) (k : Nat) (xs : List Rat) (i : Nat) : (refineN mid k xs)[2 ^ k * i]? = xs[i]? := by
  induction k generalizing xs i with
  | zero => simp [refineN]
  | succ k ih =>
    rw [refineN, pow_succ, mul_assoc, ih, refine_even_old]

theorem refineN_strictInc (mid) (hm : Between mid) (k : Nat) (xs : List Rat) (h : StrictInc xs) :
    StrictInc (refineN mid k xs) := by
  induction k generalizing xs with
  | zero => exact h
  | succ k ih => exact ih _ (refine_strictInc mid hm xs h)

theorem refineN_truncation (mid) (k : Nat) (xs : List Rat) : truncation (refineN mid k xs) = truncation xs := by
  induction k generalizing xs with
  | zero => rfl
  | succ k ih => rw [refineN, ih, refine_truncation]

/-! ### the grid object -/

/-- what C13 promises of a grid: every axis strictly increasing with `-h, 0, h` around the origin index -/
def WellFormed (g : Grid) : Prop :=
  0 < g.h ∧ 1 ≤ g.origin ∧ ∀ ax ∈ g.axes, StrictInc ax ∧
    ax[g.origin - 1]? = some (-g.h) ∧ ax[g.origin]? = some 0 ∧ ax[g.origin + 1]? = some g.h

/-- the cell boundary next to the origin is `±h/2` (true of `amid`; hard-coded in the probability-step grid) -/
def MidAtOrigin (mid : Rat → Rat → Rat) : Prop := ∀ h : Rat, mid (-h) 0 = -(h / 2) ∧ mid 0 h = h / 2

theorem amid_atOrigin : MidAtOrigin amid := by
  intro h; unfold amid; constructor <;> ring

theorem Grid.refine_h (mid) (g : Grid) : (g.refine mid).h = g.h / 2 := rfl
theorem Grid.refine_origin (mid) (g : Grid) : (g.refine mid).origin = 2 * g.origin := by
  simp [Grid.refine, Nat.mul_comm]

theorem Grid.refine_wellFormed (mid) (hm : Between mid) (ho : MidAtOrigin mid) (g : Grid) (hg : WellFormed g) :
    WellFormed (g.refine mid) := by
  obtain ⟨hh, ho1, hax⟩ := hg
  refine ⟨by simp only [Grid.refine]; linarith, by simp only [Grid.refine]; omega, ?_⟩
  intro ax' hax'
  simp only [Grid.refine, List.mem_map] at hax'
  obtain ⟨ax, hmem, rfl⟩ := hax'
  obtain ⟨hs, hl, hz, hr⟩ := hax ax hmem
  refine ⟨refine_strictInc mid hm ax hs, ?_, ?_, ?_⟩
  · have h1 : g.origin * 2 - 1 = 2 * (g.origin - 1) + 1 := by omega
    have hz' : ax[g.origin - 1 + 1]? = some 0 := by rw [Nat.sub_add_cancel ho1]; exact hz
    show (Rpylib.Grid.refine mid ax)[g.origin * 2 - 1]? = some (-(g.h / 2))
    rw [h1, refine_odd_is_mid mid ax _ _ _ hl hz', (ho g.h).1]
  · show (Rpylib.Grid.refine mid ax)[g.origin * 2]? = some 0
    rw [Nat.mul_comm, refine_even_old]; exact hz
  · show (Rpylib.Grid.refine mid ax)[g.origin * 2 + 1]? = some (g.h / 2)
    rw [Nat.mul_comm, refine_odd_is_mid mid ax _ _ _ hz hr, (ho g.h).2]

/-- the nesting invariant for any number of refinements -/
theorem Grid.refineN_wellFormed (mid) (hm : Between mid) (ho : MidAtOrigin mid) (k : Nat) (g : Grid)
    (hg : WellFormed g) : WellFormed (Grid.refineN mid k g) := by
  induction k generalizing g with
  | zero => exact hg
  | succ k ih => exact ih _ (Grid.refine_wellFormed mid hm ho g hg)

theorem Grid.refineN_h (mid) (k : Nat) (g : Grid) : (Grid.refineN mid k g).h = g.h / 2 ^ k := by
  induction k generalizing g with
  | zero => simp [Grid.refineN]
  | succ k ih => rw [Grid.refineN, ih, Grid.refine_h, pow_succ]; field_simp

theorem Grid.refineN_origin (mid) (k : Nat) (g : Grid) : (Grid.refineN mid k g).origin = 2 ^ k * g.origin := by
  induction k generalizing g with
  | zero => simp [Grid.refineN]
  | succ k ih => rw [Grid.refineN, ih, Grid.refine_origin, pow_succ]; ring

theorem Grid.refineN_axes (mid) (k : Nat) (g : Grid) :
    (Grid.refineN mid k g).axes = g.axes.map (Rpylib.Grid.refineN mid k) := by
  induction k generalizing g with
  | zero => simp [Grid.refineN, Rpylib.Grid.refineN]
  | succ k ih => rw [Grid.refineN, ih]; simp [Grid.refine, Rpylib.Grid.refineN, Function.comp_def]

/-- shared-axis storage (`[axis] * d`) and per-axis storage refine to equal axes -/
theorem Grid.refine_shared (mid) (ax : List Rat) (d : Nat) (h : Rat) (o : Nat) :
    (Grid.refine mid ⟨List.replicate d ax, h, o⟩).axes = List.replicate d (Rpylib.Grid.refine mid ax) := by
  simp [Grid.refine]

/-! ### constructors -/

/-- credit axis: with `l < a < -h < 0 < h < r` the 7-point axis is strictly increasing, has the origin at index 4
    with neighbours `∓h`, and the cell boundary between its 2nd and 3rd point is exactly the threshold `a`. -/
theorem creditAxis_wellFormed (l a h r : Rat) (hla : l < a) (hah : a < -h) (hh : 0 < h) (hr : h < r) :
    StrictInc (creditAxis l a h r false) ∧ (creditAxis l a h r false)[4]? = some 0 ∧
    (creditAxis l a h r false)[3]? = some (-h) ∧ (creditAxis l a h r false)[5]? = some h ∧
    amid (a - creditEps l a h) (a + creditEps l a h) = a ∧
    truncation (creditAxis l a h r false) = some (l, r) := by
  have e1 : rabs (l - a) = a - l := by unfold rabs; rw [if_pos (by linarith)]; ring
  have e2 : rabs (a + h) = -(a + h) := by unfold rabs; rw [if_pos (by linarith)]
  have he : 0 < creditEps l a h := by
    unfold creditEps; rw [e1, e2]; apply lt_min <;> linarith
  have he1 : creditEps l a h ≤ (a - l) / 2 := by unfold creditEps; rw [e1]; exact min_le_left _ _
  have he2 : creditEps l a h ≤ -(a + h) / 2 := by unfold creditEps; rw [e2]; exact min_le_right _ _
  refine ⟨?_, by simp [creditAxis], by simp [creditAxis], by simp [creditAxis], by unfold amid; ring,
    by simp [creditAxis, truncation]⟩
  simp only [creditAxis, Bool.false_eq_true, if_false, StrictInc, and_true]
  refine ⟨by linarith, by linarith, by linarith, by linarith, by linarith, by linarith⟩

/-- the symmetric 9-point axis additionally needs the mirrored block to fit below `r` -/
theorem creditAxis_sym_wellFormed (l a h r : Rat) (hla : l < a) (hah : a < -h) (hh : 0 < h)
    (hr : -a + creditEps l a h < r) :
    StrictInc (creditAxis l a h r true) ∧ (creditAxis l a h r true)[4]? = some 0 ∧
    amid (a - creditEps l a h) (a + creditEps l a h) = a := by
  have e1 : rabs (l - a) = a - l := by unfold rabs; rw [if_pos (by linarith)]; ring
  have e2 : rabs (a + h) = -(a + h) := by unfold rabs; rw [if_pos (by linarith)]
  have he : 0 < creditEps l a h := by
    unfold creditEps; rw [e1, e2]; apply lt_min <;> linarith
  have he1 : creditEps l a h ≤ (a - l) / 2 := by unfold creditEps; rw [e1]; exact min_le_left _ _
  have he2 : creditEps l a h ≤ -(a + h) / 2 := by unfold creditEps; rw [e2]; exact min_le_right _ _
  refine ⟨?_, by simp [creditAxis], by unfold amid; ring⟩
  simp only [creditAxis, if_true, StrictInc, and_true]
  refine ⟨by linarith, by linarith, by linarith, by linarith, by linarith, by linarith, by linarith, by linarith⟩

/-! ### non-vacuity -/

example : WellFormed ⟨[[-3, -1, 0, 1, 4]], 1, 2⟩ := by
  refine ⟨by norm_num, by norm_num, ?_⟩
  intro ax hax; simp at hax; subst hax
  refine ⟨by simp [StrictInc], by simp, by simp, by simp⟩

example : refine amid [-3, -1, 0, 1, 4] = [-3, -2, -1, -1/2, 0, 1/2, 1, 5/2, 4] := by
  simp [refine, amid]; norm_num

end Rpylib.Grid
