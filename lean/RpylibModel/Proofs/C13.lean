/-
C13 — State grids are well formed and refinement nests them.   Property theorems only.
Model: RpylibModel/Model/Grid.lean, RpylibModel/Model/GridCtor.lean (np.linspace, the root-searched uniform constructor).
`Between mid` is the only thing assumed of the grid's cell-boundary function; `amid` (every grid but the
probability-step grid) satisfies it (`amid_between`).  Helper lemmas: Proofs/Lemmas/C13Linspace.lean.
-/
import RpylibModel.Model.Grid
import RpylibModel.Model.GridCtor
import RpylibModel.Proofs.Lemmas.C13Linspace
import Mathlib.Tactic.Linarith
import Mathlib.Tactic.Ring
import Mathlib.Tactic.FieldSimp
import Mathlib.Algebra.Order.Field.Rat

set_option linter.dupNamespace false

namespace Rpylib.Grid

/-- the cell-boundary function puts its value strictly inside a non-degenerate gap -/
def Between (mid : Rat → Rat → Rat) : Prop := ∀ a b, a < b → a < mid a b ∧ mid a b < b

theorem amid_between : Between amid := by
  intro a b h; unfold amid; constructor <;> linarith

/-! ### one refinement -/

theorem refine_length (mid) (xs : List Rat) : (refine mid xs).length = 2 * xs.length - 1 := by
  induction xs with
  | nil => simp [refine]
  | cons x t ih =>
    cases t with
    | nil => simp [refine]
    | cons y r => simp only [refine, List.length_cons] at ih ⊢; omega

/-- every old state is kept, at twice its old index -/
theorem refine_even_old (mid) (xs : List Rat) (k : Nat) : (refine mid xs)[2 * k]? = xs[k]? := by
  induction xs generalizing k with
  | nil => simp [refine]
  | cons x t ih =>
    cases t with
    | nil => cases k <;> simp [refine]
    | cons y r =>
      cases k with
      | zero => simp [refine]
      | succ k =>
        have : 2 * (k + 1) = (2 * k) + 1 + 1 := by ring
        rw [this]; simp only [refine, List.getElem?_cons_succ]; exact ih k

/-- exactly the grid's own cell boundary of the old gap is inserted at the odd index -/
theorem refine_odd_is_mid (mid) (xs : List Rat) (k : Nat) (a b : Rat)
    (ha : xs[k]? = some a) (hb : xs[k + 1]? = some b) : (refine mid xs)[2 * k + 1]? = some (mid a b) := by
  induction xs generalizing k with
  | nil => simp at ha
  | cons x t ih =>
    cases t with
    | nil => simp at hb
    | cons y r =>
      cases k with
      | zero => simp at ha hb; subst ha; subst hb; simp [refine]
      | succ k =>
        have : 2 * (k + 1) + 1 = (2 * k + 1) + 1 + 1 := by ring
        rw [this]; simp only [refine, List.getElem?_cons_succ]
        exact ih k (by simpa using ha) (by simpa using hb)

theorem refine_odd_strictly_between (mid) (hm : Between mid) (xs : List Rat) (k : Nat) (a b : Rat) (hab : a < b)
    (ha : xs[k]? = some a) (hb : xs[k + 1]? = some b) :
    ∃ m, (refine mid xs)[2 * k + 1]? = some m ∧ a < m ∧ m < b :=
  ⟨mid a b, refine_odd_is_mid mid xs k a b ha hb, hm a b hab⟩

theorem refine_strictInc (mid) (hm : Between mid) (xs : List Rat) (h : StrictInc xs) : StrictInc (refine mid xs) := by
  induction xs with
  | nil => trivial
  | cons x t ih =>
    cases t with
    | nil => trivial
    | cons y r =>
      obtain ⟨hxy, hr⟩ := h
      have h2 := ih hr
      cases r with
      | nil => exact ⟨(hm x y hxy).1, (hm x y hxy).2, trivial⟩
      | cons z r' => exact ⟨(hm x y hxy).1, (hm x y hxy).2, h2⟩

theorem refine_head (mid) (xs : List Rat) : (refine mid xs).head? = xs.head? := by
  cases xs with
  | nil => rfl
  | cons x t => cases t <;> rfl

theorem refine_getLast (mid) (xs : List Rat) : (refine mid xs).getLast? = xs.getLast? := by
  induction xs with
  | nil => rfl
  | cons x t ih =>
    cases t with
    | nil => rfl
    | cons y r =>
      have : refine mid (x :: y :: r) = x :: mid x y :: refine mid (y :: r) := rfl
      rw [this]
      cases hr : refine mid (y :: r) with
      | nil => cases r <;> simp [refine] at hr
      | cons z zs =>
        rw [List.getLast?_cons_cons, List.getLast?_cons_cons, ← hr, ih, List.getLast?_cons_cons]

/-- the truncation bounds (first and last point of the axis) are unchanged -/
theorem refine_truncation (mid) (xs : List Rat) : truncation (refine mid xs) = truncation xs := by
  unfold truncation; rw [refine_head, refine_getLast]

/-! ### any number of refinements -/

theorem refineN_length (mid) (k : Nat) (xs : List Rat) (hne : xs ≠ []) :
    (refineN mid k xs).length = 2 ^ k * (xs.length - 1) + 1 := by
  induction k generalizing xs with
  | zero => cases xs with
    | nil => exact absurd rfl hne
    | cons x t => simp [refineN]
  | succ k ih =>
    have hne' : refine mid xs ≠ [] := by
      cases xs with
      | nil => exact absurd rfl hne
      | cons x t => cases t <;> simp [refine]
    have hl : 1 ≤ xs.length := by cases xs <;> simp_all
    rw [refineN, ih _ hne', refine_length, pow_succ]
    have : 2 * xs.length - 1 - 1 = 2 * (xs.length - 1) := by omega
    rw [this]; ring

/-- old states sit at `2^k` times their old index after k refinements -/
theorem refineN_old (mid) (k : Nat) (xs : List Rat) (i : Nat) : (refineN mid k xs)[2 ^ k * i]? = xs[i]? := by
  induction k generalizing xs i with
  | zero => simp [refineN]
  | succ k ih =>
    rw [refineN, pow_succ, mul_assoc, ih, refine_even_old]

theorem refineN_strictInc (mid) (hm : Between mid) (k : Nat) (xs : List Rat) (h : StrictInc xs) :
    StrictInc (refineN mid k xs) := by
  induction k generalizing xs with
  | zero => exact h
  | succ k ih => exact ih _ (refine_strictInc mid hm xs h)

theorem refineN_truncation (mid) (k : Nat) (xs : List Rat) : truncation (refineN mid k xs) = truncation xs := by
  induction k generalizing xs with
  | zero => rfl
  | succ k ih => rw [refineN, ih, refine_truncation]

/-! ### the grid object -/

/-- what C13 promises of a grid: every axis strictly increasing with `-h, 0, h` around the origin index -/
def WellFormed (g : Grid) : Prop :=
  0 < g.h ∧ 1 ≤ g.origin ∧ ∀ ax ∈ g.axes, StrictInc ax ∧
    ax[g.origin - 1]? = some (-g.h) ∧ ax[g.origin]? = some 0 ∧ ax[g.origin + 1]? = some g.h

/-- the cell boundary next to the origin is `±h/2` (true of `amid`; hard-coded in the probability-step grid) -/
def MidAtOrigin (mid : Rat → Rat → Rat) : Prop := ∀ h : Rat, mid (-h) 0 = -(h / 2) ∧ mid 0 h = h / 2

theorem amid_atOrigin : MidAtOrigin amid := by
  intro h; unfold amid; constructor <;> ring

theorem Grid.refine_h (mid) (g : Grid) : (g.refine mid).h = g.h / 2 := rfl
theorem Grid.refine_origin (mid) (g : Grid) : (g.refine mid).origin = 2 * g.origin := by
  simp [Grid.refine, Nat.mul_comm]

theorem Grid.refine_wellFormed (mid) (hm : Between mid) (ho : MidAtOrigin mid) (g : Grid) (hg : WellFormed g) :
    WellFormed (g.refine mid) := by
  obtain ⟨hh, ho1, hax⟩ := hg
  refine ⟨by simp only [Grid.refine]; linarith, by simp only [Grid.refine]; omega, ?_⟩
  intro ax' hax'
  simp only [Grid.refine, List.mem_map] at hax'
  obtain ⟨ax, hmem, rfl⟩ := hax'
  obtain ⟨hs, hl, hz, hr⟩ := hax ax hmem
  refine ⟨refine_strictInc mid hm ax hs, ?_, ?_, ?_⟩
  · have h1 : g.origin * 2 - 1 = 2 * (g.origin - 1) + 1 := by omega
    have hz' : ax[g.origin - 1 + 1]? = some 0 := by rw [Nat.sub_add_cancel ho1]; exact hz
    show (Rpylib.Grid.refine mid ax)[g.origin * 2 - 1]? = some (-(g.h / 2))
    rw [h1, refine_odd_is_mid mid ax _ _ _ hl hz', (ho g.h).1]
  · show (Rpylib.Grid.refine mid ax)[g.origin * 2]? = some 0
    rw [Nat.mul_comm, refine_even_old]; exact hz
  · show (Rpylib.Grid.refine mid ax)[g.origin * 2 + 1]? = some (g.h / 2)
    rw [Nat.mul_comm, refine_odd_is_mid mid ax _ _ _ hz hr, (ho g.h).2]

/-- the nesting invariant for any number of refinements -/
theorem Grid.refineN_wellFormed (mid) (hm : Between mid) (ho : MidAtOrigin mid) (k : Nat) (g : Grid)
    (hg : WellFormed g) : WellFormed (Grid.refineN mid k g) := by
  induction k generalizing g with
  | zero => exact hg
  | succ k ih => exact ih _ (Grid.refine_wellFormed mid hm ho g hg)

theorem Grid.refineN_h (mid) (k : Nat) (g : Grid) : (Grid.refineN mid k g).h = g.h / 2 ^ k := by
  induction k generalizing g with
  | zero => simp [Grid.refineN]
  | succ k ih => rw [Grid.refineN, ih, Grid.refine_h, pow_succ]; field_simp

theorem Grid.refineN_origin (mid) (k : Nat) (g : Grid) : (Grid.refineN mid k g).origin = 2 ^ k * g.origin := by
  induction k generalizing g with
  | zero => simp [Grid.refineN]
  | succ k ih => rw [Grid.refineN, ih, Grid.refine_origin, pow_succ]; ring

theorem Grid.refineN_axes (mid) (k : Nat) (g : Grid) :
    (Grid.refineN mid k g).axes = g.axes.map (Rpylib.Grid.refineN mid k) := by
  induction k generalizing g with
  | zero => simp [Grid.refineN, Rpylib.Grid.refineN]
  | succ k ih => rw [Grid.refineN, ih]; simp [Grid.refine, Rpylib.Grid.refineN, Function.comp_def]

/-- shared-axis storage (`[axis] * d`) and per-axis storage refine to equal axes -/
theorem Grid.refine_shared (mid) (ax : List Rat) (d : Nat) (h : Rat) (o : Nat) :
    (Grid.refine mid ⟨List.replicate d ax, h, o⟩).axes = List.replicate d (Rpylib.Grid.refine mid ax) := by
  simp [Grid.refine]

/-! ### constructors -/

/-- credit axis: with `l < a < -h < 0 < h < r` the 7-point axis is strictly increasing, has the origin at index 4
    with neighbours `∓h`, and the cell boundary between its 2nd and 3rd point is exactly the threshold `a`. -/
theorem creditAxis_wellFormed (l a h r : Rat) (hla : l < a) (hah : a < -h) (hh : 0 < h) (hr : h < r) :
    StrictInc (creditAxis l a h r false) ∧ (creditAxis l a h r false)[4]? = some 0 ∧
    (creditAxis l a h r false)[3]? = some (-h) ∧ (creditAxis l a h r false)[5]? = some h ∧
    amid (a - creditEps l a h) (a + creditEps l a h) = a ∧
    truncation (creditAxis l a h r false) = some (l, r) := by
  have e1 : rabs (l - a) = a - l := by unfold rabs; rw [if_pos (by linarith)]; ring
  have e2 : rabs (a + h) = -(a + h) := by unfold rabs; rw [if_pos (by linarith)]
  have he : 0 < creditEps l a h := by
    unfold creditEps; rw [e1, e2]; apply lt_min <;> linarith
  have he1 : creditEps l a h ≤ (a - l) / 2 := by unfold creditEps; rw [e1]; exact min_le_left _ _
  have he2 : creditEps l a h ≤ -(a + h) / 2 := by unfold creditEps; rw [e2]; exact min_le_right _ _
  refine ⟨?_, by simp [creditAxis], by simp [creditAxis], by simp [creditAxis], by unfold amid; ring,
    by simp [creditAxis, truncation]⟩
  simp only [creditAxis, Bool.false_eq_true, if_false, StrictInc, and_true]
  refine ⟨by linarith, by linarith, by linarith, by linarith, by linarith, by linarith⟩

/-- the symmetric 9-point axis additionally needs the mirrored block to fit below `r` -/
theorem creditAxis_sym_wellFormed (l a h r : Rat) (hla : l < a) (hah : a < -h) (hh : 0 < h)
    (hr : -a + creditEps l a h < r) :
    StrictInc (creditAxis l a h r true) ∧ (creditAxis l a h r true)[4]? = some 0 ∧
    amid (a - creditEps l a h) (a + creditEps l a h) = a := by
  have e1 : rabs (l - a) = a - l := by unfold rabs; rw [if_pos (by linarith)]; ring
  have e2 : rabs (a + h) = -(a + h) := by unfold rabs; rw [if_pos (by linarith)]
  have he : 0 < creditEps l a h := by
    unfold creditEps; rw [e1, e2]; apply lt_min <;> linarith
  have he1 : creditEps l a h ≤ (a - l) / 2 := by unfold creditEps; rw [e1]; exact min_le_left _ _
  have he2 : creditEps l a h ≤ -(a + h) / 2 := by unfold creditEps; rw [e2]; exact min_le_right _ _
  refine ⟨?_, by simp [creditAxis], by unfold amid; ring⟩
  simp only [creditAxis, if_true, StrictInc, and_true]
  refine ⟨by linarith, by linarith, by linarith, by linarith, by linarith, by linarith, by linarith, by linarith⟩

/-! ### np.linspace and the root-searched uniform constructor (spatial.py:148-164) -/

/-- `np.linspace(a, b, n)`: n points; first point `a` (n ≥ 1); last point `b` (n ≥ 2; for n = 1 the only point is `a`
    and `b` is ignored); interior points `a + k (b - a)/(n - 1)`; every point in `[a, b]`; strictly increasing. -/
theorem linspace_closed_form (a b : Rat) (n : Nat) :
    (linspace a b n).length = n ∧ (1 ≤ n → (linspace a b n)[0]? = some a) ∧
    (2 ≤ n → (linspace a b n)[n - 1]? = some b) ∧ (n = 1 → linspace a b n = [a]) ∧
    (∀ k, k + 1 < n → (linspace a b n)[k]? = some (a + (k : Rat) * ((b - a) / ((n - 1 : Nat) : Rat)))) ∧
    (a ≤ b → ∀ x ∈ linspace a b n, a ≤ x ∧ x ≤ b) ∧ (a < b → StrictInc (linspace a b n)) :=
  ⟨linspace_length a b n, linspace_head a b n, linspace_last a b n, fun h => by subst h; rfl,
    fun k hk => linspace_interior a b n k hk, fun hab x hx => linspace_mem_bounds a b hab n x hx,
    fun hab => linspace_strictInc a b hab n⟩

/-- assembling `left | 0 | right` with pivot `len(left)` (the pattern of every constructor) under explicit side
    conditions: both halves strictly increasing, the left one below and ending at `-h`, the right one above and
    starting at `h`. -/
theorem assemble_wellFormed (L R : List Rat) (h : Rat) (hh : 0 < h)
    (hLs : StrictInc L) (hLb : ∀ x ∈ L, x ≤ -h) (hLne : 1 ≤ L.length) (hLlast : L[L.length - 1]? = some (-h))
    (hRs : StrictInc R) (hRb : ∀ x ∈ R, h ≤ x) (hR0 : R[0]? = some h) :
    StrictInc (L ++ [0] ++ R) ∧ (L ++ [0] ++ R)[L.length - 1]? = some (-h) ∧
    (L ++ [0] ++ R)[L.length]? = some 0 ∧ (L ++ [0] ++ R)[L.length + 1]? = some h := by
  refine ⟨?_, ?_, ?_, ?_⟩
  · refine strictInc_append_of_lt _ _ (strictInc_append_of_lt L [0] hLs trivial ?_) hRs ?_
    · intro a ha b hb
      simp only [List.mem_singleton] at hb; subst hb
      have := hLb a ha; linarith
    · intro a ha b hb
      have hb' := hRb b hb
      rcases List.mem_append.mp ha with ha | ha
      · have := hLb a ha; linarith
      · simp only [List.mem_singleton] at ha; subst ha; linarith
  · rw [List.append_assoc, List.getElem?_append_left (by omega)]; exact hLlast
  · rw [List.append_assoc, List.getElem?_append_right (le_refl _)]; simp
  · rw [List.append_assoc, List.getElem?_append_right (by omega)]
    have : L.length + 1 - L.length = 1 := by omega
    rw [this]; simpa using hR0

theorem uniformAxisN_length (l r h : Rat) (nL nR : Nat) : (uniformAxisN l r h nL nR).length = nL + 1 + nR := by
  simp [uniformAxisN, linspace_length]; omega

/-- the recorded one-point / no-point sides, exactly: with `int(|l|/h) = 1` the left half is `[l]` (the neighbour of 0
    is the truncation bound, not `-h`), with `int(|l|/h) = 0` there is no left half at all and 0 is the first point;
    with `int(r/h) = 1` the right half is `[h]` (the axis ends at `h`, the bound `r` is dropped), with `int(r/h) = 0`
    the axis ends at 0. -/
theorem uniformAxisN_left_one (l r h : Rat) (nR : Nat) : uniformAxisN l r h 1 nR = l :: 0 :: linspace h r nR := rfl
theorem uniformAxisN_left_zero (l r h : Rat) (nR : Nat) : uniformAxisN l r h 0 nR = 0 :: linspace h r nR := rfl
theorem uniformAxisN_right_one (l r h : Rat) (nL : Nat) : uniformAxisN l r h nL 1 = linspace l (-h) nL ++ [0, h] := by
  simp [uniformAxisN, linspace]
theorem uniformAxisN_right_zero (l r h : Rat) (nL : Nat) : uniformAxisN l r h nL 0 = linspace l (-h) nL ++ [0] := by
  simp [uniformAxisN, linspace]

/-- the end points the grid reports as `truncations`, for every pair of counts -/
theorem uniformAxisN_truncation (l r h : Rat) (nL nR : Nat) :
    truncation (uniformAxisN l r h nL nR) =
      some (if nL = 0 then 0 else l, if nR = 0 then 0 else if nR = 1 then h else r) := by
  have hhead : (uniformAxisN l r h nL nR).head? = some (if nL = 0 then 0 else l) := by
    match nL with
    | 0 => rfl
    | 1 => rfl
    | n + 2 => simp [uniformAxisN, linspace, List.range_succ_eq_map]
  have hlast : (uniformAxisN l r h nL nR).getLast? = some (if nR = 0 then 0 else if nR = 1 then h else r) := by
    match nR with
    | 0 => simp [uniformAxisN, linspace]
    | 1 => simp [uniformAxisN, linspace]
    | n + 2 =>
      show (linspace l (-h) nL ++ [0] ++ (_ ++ [r])).getLast? = _
      rw [← List.append_assoc, List.getLast?_concat]; simp
  unfold truncation; rw [hhead, hlast]

/-- the axis for counts that make it well formed -/
theorem uniformAxisN_wellFormed (l r h : Rat) (nL nR : Nat) (hh : 0 < h)
    (hL : (nL = 1 ∧ l = -h) ∨ (2 ≤ nL ∧ l < -h)) (hR : nR = 1 ∨ (2 ≤ nR ∧ h < r)) :
    StrictInc (uniformAxisN l r h nL nR) ∧ (uniformAxisN l r h nL nR)[nL - 1]? = some (-h) ∧
    (uniformAxisN l r h nL nR)[nL]? = some 0 ∧ (uniformAxisN l r h nL nR)[nL + 1]? = some h := by
  have hlen := linspace_length l (-h) nL
  have hLfacts : StrictInc (linspace l (-h) nL) ∧ (∀ x ∈ linspace l (-h) nL, x ≤ -h) ∧ 1 ≤ nL ∧
      (linspace l (-h) nL)[nL - 1]? = some (-h) := by
    rcases hL with ⟨h1, h2⟩ | ⟨h1, h2⟩
    · subst h1; subst h2; refine ⟨trivial, ?_, le_refl _, rfl⟩
      intro x hx; simp [linspace] at hx; linarith
    · exact ⟨linspace_strictInc _ _ h2 _, fun x hx => (linspace_mem_bounds _ _ (le_of_lt h2) _ x hx).2, by omega,
        linspace_last _ _ _ h1⟩
  have hRfacts : StrictInc (linspace h r nR) ∧ (∀ x ∈ linspace h r nR, h ≤ x) ∧ (linspace h r nR)[0]? = some h := by
    rcases hR with h1 | ⟨h1, h2⟩
    · subst h1; refine ⟨trivial, ?_, rfl⟩
      intro x hx; simp [linspace] at hx; linarith
    · exact ⟨linspace_strictInc _ _ h2 _, fun x hx => (linspace_mem_bounds _ _ (le_of_lt h2) _ x hx).1,
        linspace_head _ _ _ (by omega)⟩
  obtain ⟨a1, a2, a3, a4⟩ := hLfacts
  obtain ⟨b1, b2, b3⟩ := hRfacts
  have := assemble_wellFormed (linspace l (-h) nL) (linspace h r nR) h hh a1 a2 (by rw [hlen]; exact a3)
    (by rw [hlen]; exact a4) b1 b2 b3
  rw [hlen] at this
  exact this

/-- what `uniformCtor` returns when it returns -/
theorem uniformCtor_eq_some (l r h : Rat) (dim : Nat) (g : Grid) (hg : uniformCtor l r h dim = some g) :
    h ≠ 0 ∧ 0 ≤ uniformCountL l h ∧ 0 ≤ uniformCountR r h ∧ uniformCountL l h + uniformCountR r h ≤ 100000000 ∧
    g = ⟨List.replicate dim (uniformAxisN l r h (uniformCountL l h).toNat (uniformCountR r h).toNat), h,
          (uniformCountL l h).toNat⟩ := by
  unfold uniformCtor at hg
  split_ifs at hg with h0 h1 h2
  · simp only [Option.some.injEq] at hg
    refine ⟨h0, by omega, by omega, by omega, hg.symm⟩

/-- the counts in terms of the bounds: `2 ≤ int(|l|/h)` with `l < 0` forces `h > 0` and `l ≤ -2h` -/
theorem uniformCountL_ge_two (l h : Rat) (hl : l < 0) (hL : 2 ≤ uniformCountL l h) : 0 < h ∧ l ≤ -(2 * h) := by
  have h2 : ((2 : Int) : Rat) ≤ rabs l / h := (le_pyInt_iff _ 2 (by norm_num)).mp hL
  have hr : rabs l = -l := by unfold rabs; rw [if_pos hl]
  rw [hr] at h2
  have hh : 0 < h := by
    by_contra hc
    have : -l / h ≤ 0 := div_nonpos_of_nonneg_of_nonpos (by linarith) (by linarith)
    have h2' : (2 : Rat) ≤ -l / h := by exact_mod_cast h2
    linarith
  have h2' : (2 : Rat) ≤ -l / h := by exact_mod_cast h2
  rw [le_div_iff₀ hh] at h2'
  exact ⟨hh, by linarith⟩

theorem uniformCountR_ge_two (r h : Rat) (hh : 0 < h) (hR : 2 ≤ uniformCountR r h) : 2 * h ≤ r := by
  have h2 : ((2 : Int) : Rat) ≤ r / h := (le_pyInt_iff _ 2 (by norm_num)).mp hR
  have h2' : (2 : Rat) ≤ r / h := by exact_mod_cast h2
  rw [le_div_iff₀ hh] at h2'
  exact h2'

/- Full-strength statement (FALSE of the code as it is, see `uniformCtor_wellFormed_full_false`):
     ∀ l r h dim g, uniformCtor l r h dim = some g → l < 0 → 0 < h → 0 < r →
        WellFormed g ∧ ∀ ax ∈ g.axes, truncation ax = some (l, r)
   i.e. "whenever the constructor returns, the grid is well formed and ends at the root-searched bounds".
   It fails exactly when `int(|l|/h) ≤ 1` or `int(r/h) ≤ 1` (known finding C13-uniform-one-point-side):
   `uniformCtor_wellFormed_iff`, `uniformCtor_truncation` give the exact characterisation. -/

/-- **regular case of the uniform constructor, for every (l, r, h, dim) it accepts**: with at least two points on each
    side (`int(|l|/h) ≥ 2`, `int(r/h) ≥ 2`; `l < 0` is what the root search over `[-100, -h/2]` returns) every axis is
    strictly increasing, the origin index is `int(|l|/h)` and holds 0 with neighbours `-h` and `+h`, the first point is
    `l`, the last point is `r`, and the axis has `int(|l|/h) + 1 + int(r/h)` points. -/
theorem uniformCtor_wellFormed_partial (l r h : Rat) (dim : Nat) (g : Grid) (hg : uniformCtor l r h dim = some g)
    (hl : l < 0) (hL : 2 ≤ uniformCountL l h) (hR : 2 ≤ uniformCountR r h) :
    WellFormed g ∧ g.h = h ∧ g.origin = (uniformCountL l h).toNat ∧ g.axes.length = dim ∧
    ∀ ax ∈ g.axes, truncation ax = some (l, r) ∧
      ax.length = (uniformCountL l h).toNat + 1 + (uniformCountR r h).toNat := by
  obtain ⟨_, _, _, _, rfl⟩ := uniformCtor_eq_some l r h dim g hg
  obtain ⟨hh, hl2⟩ := uniformCountL_ge_two l h hl hL
  have hr2 := uniformCountR_ge_two r h hh hR
  have hnL : 2 ≤ (uniformCountL l h).toNat := by omega
  have hnR : 2 ≤ (uniformCountR r h).toNat := by omega
  refine ⟨⟨hh, by show 1 ≤ (uniformCountL l h).toNat; omega, ?_⟩, rfl, rfl, by simp, ?_⟩
  · intro ax hax
    rw [List.eq_of_mem_replicate hax]
    exact uniformAxisN_wellFormed l r h _ _ hh (Or.inr ⟨hnL, by linarith⟩) (Or.inr ⟨hnR, by linarith⟩)
  · intro ax hax
    rw [List.eq_of_mem_replicate hax, uniformAxisN_truncation, uniformAxisN_length]
    refine ⟨?_, rfl⟩
    rw [if_neg (by omega), if_neg (by omega), if_neg (by omega)]

/-- **exact characterisation of when the returned grid is well formed** (h > 0, l < 0, at least one axis):
    iff the left side has at least two points, or exactly one point that happens to be `-h` itself, and the right side
    has at least one point.  (With exactly one right point the axis is well formed but ends at `h` instead of `r`:
    `uniformCtor_truncation`.) -/
theorem uniformCtor_wellFormed_iff (l r h : Rat) (dim : Nat) (g : Grid) (hg : uniformCtor l r h dim = some g)
    (hh : 0 < h) (hl : l < 0) (hd : 1 ≤ dim) :
    WellFormed g ↔ (2 ≤ uniformCountL l h ∨ (uniformCountL l h = 1 ∧ l = -h)) ∧ 1 ≤ uniformCountR r h := by
  obtain ⟨_, hL0, hR0, _, rfl⟩ := uniformCtor_eq_some l r h dim g hg
  have hmem : uniformAxisN l r h (uniformCountL l h).toNat (uniformCountR r h).toNat ∈
      List.replicate dim (uniformAxisN l r h (uniformCountL l h).toNat (uniformCountR r h).toNat) := by
    rw [List.mem_replicate]; exact ⟨by omega, rfl⟩
  constructor
  · rintro ⟨_, ho, hax⟩
    obtain ⟨_, hm, _, hp⟩ := hax _ hmem
    change 1 ≤ (uniformCountL l h).toNat at ho
    change (uniformAxisN l r h _ _)[(uniformCountL l h).toNat - 1]? = some (-h) at hm
    change (uniformAxisN l r h _ _)[(uniformCountL l h).toNat + 1]? = some h at hp
    constructor
    · by_cases h2 : 2 ≤ uniformCountL l h
      · exact Or.inl h2
      · have h1 : uniformCountL l h = 1 := by omega
        refine Or.inr ⟨h1, ?_⟩
        rw [h1] at hm
        have : (uniformAxisN l r h 1 (uniformCountR r h).toNat)[0]? = some l := rfl
        simp only [Int.toNat_one, Nat.sub_self] at hm
        rw [this] at hm
        exact Option.some.inj hm
    · have hlt : (uniformCountL l h).toNat + 1 < (uniformAxisN l r h (uniformCountL l h).toNat
          (uniformCountR r h).toNat).length := by
        by_contra hc
        rw [List.getElem?_eq_none (by omega)] at hp
        simp at hp
      rw [uniformAxisN_length] at hlt
      omega
  · rintro ⟨hL, hR⟩
    refine ⟨hh, by show 1 ≤ (uniformCountL l h).toNat; omega, ?_⟩
    intro ax hax
    rw [List.eq_of_mem_replicate hax]
    refine uniformAxisN_wellFormed l r h _ _ hh ?_ ?_
    · rcases hL with h2 | ⟨h1, h2⟩
      · obtain ⟨_, hl2⟩ := uniformCountL_ge_two l h hl h2
        exact Or.inr ⟨by omega, by linarith⟩
      · exact Or.inl ⟨by omega, h2⟩
    · by_cases h2 : 2 ≤ uniformCountR r h
      · have := uniformCountR_ge_two r h hh h2
        exact Or.inr ⟨by omega, by linarith⟩
      · exact Or.inl (by omega)

/-- **the end points of the returned axes, for every accepted input**: the first point is `l` unless the left side is
    empty (then 0), the last point is `r` only with at least two right points (`h` with one, 0 with none). -/
theorem uniformCtor_truncation (l r h : Rat) (dim : Nat) (g : Grid) (hg : uniformCtor l r h dim = some g) :
    ∀ ax ∈ g.axes, truncation ax =
      some (if uniformCountL l h = 0 then 0 else l,
            if uniformCountR r h = 0 then 0 else if uniformCountR r h = 1 then h else r) := by
  obtain ⟨_, hL0, hR0, _, rfl⟩ := uniformCtor_eq_some l r h dim g hg
  intro ax hax
  rw [List.eq_of_mem_replicate hax, uniformAxisN_truncation]
  have e1 : ((uniformCountL l h).toNat = 0) = (uniformCountL l h = 0) := by apply propext; omega
  have e2 : ((uniformCountR r h).toNat = 0) = (uniformCountR r h = 0) := by apply propext; omega
  have e3 : ((uniformCountR r h).toNat = 1) = (uniformCountR r h = 1) := by apply propext; omega
  simp only [e1, e2, e3]

/-- non-vacuity of the regular case: l = -3, r = 5/2, h = 1/2 (6 left points, 5 right points) -/
example : uniformCtor (-3) (5/2) (1/2) 2 =
    some ⟨[[-3, -5/2, -2, -3/2, -1, -1/2, 0, 1/2, 1, 3/2, 2, 5/2], [-3, -5/2, -2, -3/2, -1, -1/2, 0, 1/2, 1, 3/2, 2, 5/2]],
      1/2, 6⟩ := by decide +kernel
example : (2 : Int) ≤ uniformCountL (-3) (1/2) ∧ (2 : Int) ≤ uniformCountR (5/2) (1/2) := by decide +kernel
/-- non-dyadic step: linspace(-1, -1/4, 4) has step 1/4; linspace(1/4, 1, 4) -/
example : uniformCtor (-1) 1 (1/4) 1 = some ⟨[[-1, -3/4, -1/2, -1/4, 0, 1/4, 1/2, 3/4, 1]], 1/4, 4⟩ := by
  decide +kernel
example : linspace (-7/4) (-1/2) 3 = [-7/4, -9/8, -1/2] := by decide +kernel
/-- the constructor raises: more than 1e8 points; negative right count -/
example : uniformCtor (-1048576) 1 (1/256) 1 = none := by decide +kernel
example : uniformCtor (-3) (-1) (1/2) 1 = none := by decide +kernel

/-- negation witnesses of the full-strength statement (dyadic inputs, reproduced on the real constructor by the probe
    `c13.uniform.witness`): one left point `l = -3/2, h = 1`: the axis is `[-3/2, 0, 1, 5/2]`, the neighbour of 0 is
    `l`; no left point `l = -3/4, h = 1`: `[0, 1, 5/2]` with origin index 0; one right point `r = 3/2, h = 1`:
    `[-5/2, -1, 0, 1]`, the axis ends at `h`, not at `r`. -/
theorem uniformCtor_one_left_point : uniformCtor (-3/2) (5/2) 1 1 = some ⟨[[-3/2, 0, 1, 5/2]], 1, 1⟩ := by
  decide +kernel
theorem uniformCtor_no_left_point : uniformCtor (-3/4) (5/2) 1 1 = some ⟨[[0, 1, 5/2]], 1, 0⟩ := by
  decide +kernel
theorem uniformCtor_one_right_point : uniformCtor (-5/2) (3/2) 1 1 = some ⟨[[-5/2, -1, 0, 1]], 1, 2⟩ := by
  decide +kernel

theorem uniformCtor_wellFormed_full_false :
    ¬ ∀ (l r h : Rat) (dim : Nat) (g : Grid), uniformCtor l r h dim = some g → l < 0 → 0 < h → 0 < r →
        WellFormed g ∧ ∀ ax ∈ g.axes, truncation ax = some (l, r) := by
  intro hall
  have h1 := (hall (-3/2) (5/2) 1 1 _ uniformCtor_one_left_point (by norm_num) (by norm_num) (by norm_num)).1
  have h2 := (uniformCtor_wellFormed_iff (-3/2) (5/2) 1 1 _ uniformCtor_one_left_point (by norm_num) (by norm_num)
    (le_refl _)).mp h1
  have hc : uniformCountL (-3/2) 1 = 1 := by decide +kernel
  rcases h2.1 with h3 | ⟨_, h3⟩
  · omega
  · norm_num at h3

/-- the other promise fails as well: with one right point the grid is well formed but does not end at `r` -/
theorem uniformCtor_truncation_full_false :
    ¬ ∀ (l r h : Rat) (dim : Nat) (g : Grid), uniformCtor l r h dim = some g → l < 0 → 0 < h → 0 < r →
        WellFormed g → ∀ ax ∈ g.axes, truncation ax = some (l, r) := by
  intro hall
  have hw : WellFormed ⟨[[-5/2, -1, 0, 1]], 1, 2⟩ := by
    refine ⟨by norm_num, by norm_num, ?_⟩
    intro ax hax; simp at hax; subst hax
    refine ⟨by simp [StrictInc]; norm_num, by simp, by simp, by simp⟩
  have := hall (-5/2) (3/2) 1 1 _ uniformCtor_one_right_point (by norm_num) (by norm_num) (by norm_num) hw
    [-5/2, -1, 0, 1] (by simp)
  simp [truncation] at this
  norm_num at this

/-! ### the fixed-size uniform constructor (create_from_fixed_nb_of_points, spatial.py:166-186) -/

/-- `nb_of_points ≤ 1` gives the one-point grid `[0]` (no neighbours of 0: outside the property's reach) -/
theorem uniformFixedAxis_le_one (h : Rat) (nb : Nat) (hnb : nb ≤ 1) : uniformFixedAxis h nb = [0] := by
  have : nb / 2 = 0 := by omega
  simp [uniformFixedAxis, this]

/-- **for every h > 0, nb_of_points ≥ 2 and dimension** the grid is well formed: each axis strictly increasing with
    `2 (nb // 2) + 1` points (so an even `nb_of_points` gives `nb + 1` points), origin index `nb // 2` holding 0 with
    neighbours `∓h`. -/
theorem uniformFixed_wellFormed (h : Rat) (hh : 0 < h) (nb dim : Nat) (hnb : 2 ≤ nb) :
    WellFormed (uniformFixed h nb dim) ∧ (uniformFixed h nb dim).origin = nb / 2 ∧
    (uniformFixed h nb dim).axes.length = dim ∧ ∀ ax ∈ (uniformFixed h nb dim).axes, ax.length = 2 * (nb / 2) + 1 := by
  have hm : 1 ≤ nb / 2 := by omega
  generalize hmdef : nb / 2 = m at hm
  have hax : uniformFixedAxis h nb =
      (List.range m).map (fun i => -(((m - i : Nat) : Rat) * h)) ++ [0] ++
        (List.range m).map (fun i => ((i + 1 : Nat) : Rat) * h) := by
    simp [uniformFixedAxis, hmdef]
  have hLlen : ((List.range m).map (fun i => -(((m - i : Nat) : Rat) * h))).length = m := by simp
  have hwf := assemble_wellFormed ((List.range m).map (fun i => -(((m - i : Nat) : Rat) * h)))
    ((List.range m).map (fun i => ((i + 1 : Nat) : Rat) * h)) h hh
    (strictInc_map_range_lt _ m (by
      intro i j hij hj
      have : ((m - j : Nat) : Rat) < ((m - i : Nat) : Rat) := by exact_mod_cast (by omega : m - j < m - i)
      have := mul_lt_mul_of_pos_right this hh
      linarith))
    (by
      intro x hx
      simp only [List.mem_map, List.mem_range] at hx
      obtain ⟨i, hi, rfl⟩ := hx
      have : (1 : Rat) ≤ ((m - i : Nat) : Rat) := by exact_mod_cast (by omega : 1 ≤ m - i)
      have := mul_le_mul_of_nonneg_right this (le_of_lt hh)
      linarith)
    (by rw [hLlen]; exact hm)
    (by
      rw [hLlen]
      have h1 : m - 1 < m := by omega
      have h2 : m - (m - 1) = 1 := by omega
      simp [h1, h2])
    (strictInc_map_range _ (by
      intro i j hij
      have : ((i + 1 : Nat) : Rat) < ((j + 1 : Nat) : Rat) := by exact_mod_cast (by omega : i + 1 < j + 1)
      exact mul_lt_mul_of_pos_right this hh) m)
    (by
      intro x hx
      simp only [List.mem_map, List.mem_range] at hx
      obtain ⟨i, hi, rfl⟩ := hx
      have : (1 : Rat) ≤ ((i + 1 : Nat) : Rat) := by exact_mod_cast (by omega : 1 ≤ i + 1)
      have := mul_le_mul_of_nonneg_right this (le_of_lt hh)
      linarith)
    (by
      have h1 : 0 < m := by omega
      simp [h1])
  rw [hLlen, ← hax] at hwf
  refine ⟨⟨hh, by show 1 ≤ nb / 2; omega, ?_⟩, hmdef, by simp [uniformFixed], ?_⟩
  · intro ax hmem
    simp only [uniformFixed] at hmem
    rw [List.eq_of_mem_replicate hmem]
    show StrictInc _ ∧ (uniformFixedAxis h nb)[nb / 2 - 1]? = _ ∧ (uniformFixedAxis h nb)[nb / 2]? = _ ∧
      (uniformFixedAxis h nb)[nb / 2 + 1]? = _
    rw [hmdef]; exact hwf
  · intro ax hmem
    simp only [uniformFixed] at hmem
    rw [List.eq_of_mem_replicate hmem, hax]
    simp; omega

example : uniformFixed (1/2) 4 2 = ⟨[[-1, -1/2, 0, 1/2, 1], [-1, -1/2, 0, 1/2, 1]], 1/2, 2⟩ := by decide +kernel
example : uniformFixed (1/2) 3 1 = ⟨[[-1/2, 0, 1/2]], 1/2, 1⟩ := by decide +kernel

/-! ### non-vacuity -/

example : WellFormed ⟨[[-3, -1, 0, 1, 4]], 1, 2⟩ := by
  refine ⟨by norm_num, by norm_num, ?_⟩
  intro ax hax; simp at hax; subst hax
  refine ⟨by simp [StrictInc], by simp, by simp, by simp⟩

example : refine amid [-3, -1, 0, 1, 4] = [-3, -2, -1, -1/2, 0, 1/2, 1, 5/2, 4] := by
  simp [refine, amid]; norm_num

end Rpylib.Grid
