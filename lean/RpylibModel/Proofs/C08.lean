/-
C08 — Randomness discipline: seeded runs repeat; no two samples share random variates.
Property theorems about RpylibModel/Model/Rng.lean, for every list of passes (levels × passes of the multilevel engine, or
the single pass of the standard engine), every number of paths and every number of on-the-fly draws per path.
-/
import RpylibModel.Model.Rng
import Mathlib.Tactic.Linarith
import Mathlib.Data.List.Nodup
import Mathlib.Data.List.Range

namespace Rpylib.Rng

/-! ### helper lemmas -/

theorem pre_mono (fly : Nat → Nat) {i k : Nat} (h : i < k) : pre fly i + fly i ≤ pre fly k := by
  induction k with
  | zero => omega
  | succ k ih =>
    simp only [pre]
    rcases Nat.lt_succ_iff_lt_or_eq.mp h with h' | h'
    · have := ih h'; omega
    · subst h'; omega

private theorem mem_pathToks (src : Src) (base : Nat) (p : Pass) (i : Nat) (t : Tok) (hi : i < p.n)
    (h : t ∈ pathToks src base p i i) :
    t.src = src ∧ ((p.predraw = true ∧ (t.pos = base + i ∨ t.pos = base + p.rows + i)) ∨
      (∃ j, j < p.fly i ∧ t.pos = base + (if p.predraw then 2 * p.rows else 0) + pre p.fly i + j)) := by
  unfold pathToks at h
  rcases List.mem_append.mp h with h | h
  · by_cases hp : p.predraw = true
    · simp only [hp, if_true, List.mem_cons, List.not_mem_nil, or_false] at h
      rcases h with rfl | rfl
      · exact ⟨rfl, Or.inl ⟨hp, Or.inl rfl⟩⟩
      · exact ⟨rfl, Or.inl ⟨hp, Or.inr rfl⟩⟩
    · simp [hp] at h
  · obtain ⟨j, hj, rfl⟩ := List.mem_map.mp h
    exact ⟨rfl, Or.inr ⟨j, List.mem_range.mp hj, rfl⟩⟩

/-- tokens of a pass lie in `[base, base + size)` of the stream of `src` -/
theorem passToks_range (src : Src) (base : Nat) (p : Pass) (hok : p.ok) (t : Tok) (h : t ∈ passToks src base p) :
    t.src = src ∧ base ≤ t.pos ∧ t.pos < base + p.size := by
  unfold passToks at h
  obtain ⟨i, hi, ht⟩ := List.mem_flatMap.mp h
  have hi' := List.mem_range.mp hi
  obtain ⟨hs, hcase⟩ := mem_pathToks src base p i t hi' ht
  refine ⟨hs, ?_⟩
  unfold Pass.size
  rcases hcase with ⟨hp, h1 | h1⟩ | ⟨j, hj, h1⟩
  · have := hok hp; simp only [hp, if_true]; omega
  · have := hok hp; simp only [hp, if_true]; omega
  · have := pre_mono p.fly hi'
    split_ifs at h1 ⊢ <;> omega

private theorem pathToks_nodup (src : Src) (base : Nat) (p : Pass) (hok : p.ok) (i : Nat) (hi : i < p.n) :
    (pathToks src base p i i).Nodup := by
  unfold pathToks
  apply List.Nodup.append
  · split_ifs with hp
    · have := hok hp
      simp only [List.nodup_cons, List.mem_cons, List.not_mem_nil, or_false, not_false_eq_true, List.nodup_nil, and_true]
      intro h; injection h with _ h; omega
    · exact List.nodup_nil
  · apply List.Nodup.map_on _ (List.nodup_range)
    intro a _ b _ hab; injection hab with _ h; omega
  · intro t h1 h2
    obtain ⟨j, _, rfl⟩ := List.mem_map.mp h2
    split_ifs at h1 with hp
    · have := hok hp
      simp only [List.mem_cons, List.not_mem_nil, or_false] at h1
      rcases h1 with h1 | h1 <;> (injection h1 with _ h1; omega)
    · simp at h1

/-- **within one pass of a single process no variate is consumed twice** -/
theorem passToks_nodup (src : Src) (base : Nat) (p : Pass) (hok : p.ok) : (passToks src base p).Nodup := by
  unfold passToks
  rw [List.nodup_flatMap]
  refine ⟨fun i hi => pathToks_nodup src base p hok i (List.mem_range.mp hi), ?_⟩
  apply List.Nodup.pairwise_of_forall_ne (List.nodup_range)
  intro i hi k hk hne t h1 h2
  have hi' := List.mem_range.mp hi
  have hk' := List.mem_range.mp hk
  obtain ⟨_, c1⟩ := mem_pathToks src base p i t hi' h1
  obtain ⟨_, c2⟩ := mem_pathToks src base p k t hk' h2
  have hrows : p.predraw = true → p.n ≤ p.rows := hok
  rcases Nat.lt_or_gt_of_ne hne with hlt | hlt
  · have m1 := pre_mono p.fly hlt
    have m2 := pre_mono p.fly hk'
    rcases c1 with ⟨hp, a | a⟩ | ⟨j, hj, a⟩ <;> rcases c2 with ⟨hp', b | b⟩ | ⟨j', hj', b⟩ <;>
      (try have := hrows hp) <;> (try have := hrows hp') <;> (try split_ifs at a b) <;> omega
  · have m1 := pre_mono p.fly hlt
    have m2 := pre_mono p.fly hi'
    rcases c1 with ⟨hp, a | a⟩ | ⟨j, hj, a⟩ <;> rcases c2 with ⟨hp', b | b⟩ | ⟨j', hj', b⟩ <;>
      (try have := hrows hp) <;> (try have := hrows hp') <;> (try split_ifs at a b) <;> omega

theorem runToks_range (src : Src) (ps : List Pass) (hok : ∀ p ∈ ps, p.ok) (base : Nat) (t : Tok) (h : t ∈ runToks none src base ps) :
    t.src = src ∧ base ≤ t.pos := by
  induction ps generalizing base with
  | nil => simp [runToks] at h
  | cons p ps ih =>
    simp only [runToks] at h
    rcases List.mem_append.mp h with h | h
    · have := passToks_range src base p (hok p (by simp)) t h; exact ⟨this.1, this.2.1⟩
    · have := ih (fun q hq => hok q (by simp [hq])) (base + p.size) h; exact ⟨this.1, by omega⟩

/-- **single process, seeded once (or not at all): across all paths, passes and levels every variate — pre-drawn row or
    drawn on the fly — is consumed exactly once** -/
theorem tokens_disjoint_single_process (src : Src) (ps : List Pass) (hok : ∀ p ∈ ps, p.ok) (base : Nat) :
    (runToks none src base ps).Nodup := by
  induction ps generalizing base with
  | nil => simp [runToks]
  | cons p ps ih =>
    simp only [runToks]
    have hok' : ∀ q ∈ ps, q.ok := fun q hq => hok q (by simp [hq])
    apply List.Nodup.append (passToks_nodup src base p (hok p (by simp))) (ih hok' _)
    intro t h1 h2
    have a := passToks_range src base p (hok p (by simp)) t h1
    have b := runToks_range src ps hok' _ t h2
    omega

theorem engine_tokens_disjoint (seed : Option Nat) (ambient : Nat) (passes : List Pass) (hok : ∀ p ∈ passes, p.ok) :
    (engineToks seed ambient passes).Nodup := tokens_disjoint_single_process _ _ hok _

/-- **a seeded single-process run consumes the same variates whatever the generators did before**: the token list is a
    function of the seed and the run structure only (bit-for-bit repeatability given a deterministic generator) -/
theorem seeded_run_independent_of_ambient_state (s : Nat) (amb amb' : Nat) (passes : List Pass) :
    engineToks (some s) amb passes = engineToks (some s) amb' passes := rfl

/-- every variate of a seeded run comes from the seeded stream -/
theorem seeded_run_uses_only_the_seed (s amb : Nat) (passes : List Pass) (hok : ∀ p ∈ passes, p.ok) (t : Tok)
    (h : t ∈ engineToks (some s) amb passes) : t.src = .seeded s := (runToks_range _ _ hok _ t h).1

/-! ### negation witnesses for the pre-fix engines and the multi-process finding -/

def demoPass : Pass := ⟨2, 2, fun _ => 1, true⟩

/-- pre-fix standard engine: the pre-drawn variates come from the ambient state, so two seeded runs differ -/
theorem old_standard_depends_on_ambient : oldStandardToks 11 0 0 demoPass ≠ oldStandardToks 11 0 7 demoPass := by
  decide

/-- pre-fix multilevel engine (seed re-applied at every pass): the second pass replays the variates of the first -/
theorem old_reseed_duplicates : ¬ (runToks (some 11) (.seeded 11) 0 [demoPass, demoPass]).Nodup := by
  decide

/-- finding C08-multiprocess-copied-deques: two workers, two paths, fixed-date mode: both pop row 0 of their copy -/
theorem tokens_shared_multiprocess_counterexample : ¬ (multiToks (.seeded 11) demoPass [[0], [1]]).Nodup := by
  decide

/-- non-vacuity: a two-level history -/
example : (engineToks (some 3) 0 [⟨2, 2, fun i => i, true⟩, ⟨0, 3, fun _ => 2, false⟩]).length = 2 * 2 + 1 + 6 := by decide

end Rpylib.Rng

namespace Rpylib.Rng

/-! ### multi-process, jump-time mode (nothing is pre-drawn): every schedule is safe -/

private theorem go_range (src : Src) (p : Pass) (hp : p.predraw = false) (w : Nat) (paths : List Nat) :
    ∀ (k off : Nat) (t : Tok), t ∈ workerToks.go src p w k off paths → t.src = .ambient (w + 1) ∧ off ≤ t.pos := by
  induction paths with
  | nil => intro k off t h; simp [workerToks.go] at h
  | cons i rest ih =>
    intro k off t h
    simp only [workerToks.go, hp, Bool.false_eq_true, if_false, List.nil_append, List.mem_append, List.mem_map,
      List.mem_range] at h
    rcases h with ⟨j, _, rfl⟩ | h
    · exact ⟨rfl, by simp⟩
    · have := ih (k + 1) (off + p.fly i) t h
      exact ⟨this.1, by omega⟩

private theorem go_nodup (src : Src) (p : Pass) (hp : p.predraw = false) (w : Nat) (paths : List Nat) :
    ∀ (k off : Nat), (workerToks.go src p w k off paths).Nodup := by
  induction paths with
  | nil => intro k off; simp [workerToks.go]
  | cons i rest ih =>
    intro k off
    simp only [workerToks.go, hp, Bool.false_eq_true, if_false, List.nil_append]
    apply List.Nodup.append
    · apply List.Nodup.map_on _ List.nodup_range
      intro a _ b _ hab; injection hab with _ h; omega
    · exact ih _ _
    · intro t h1 h2
      obtain ⟨j, hj, rfl⟩ := List.mem_map.mp h1
      have hj' := List.mem_range.mp hj
      have := (go_range src p hp w rest (k + 1) (off + p.fly i) _ h2).2
      simp at this; omega

/-- **whatever the schedule** (any assignment of path indices to workers, any chunking, any number of workers): in
    jump-time mode, where every variate is drawn on the fly by the worker that simulates the path, no two samples share
    a variate — given that distinct workers are in distinct generator states (assumption on the per-worker seeding). -/
theorem tokens_disjoint_multiprocess_partial (src : Src) (p : Pass) (hp : p.predraw = false) (sched : List (List Nat)) :
    (multiToks src p sched).Nodup := by
  unfold multiToks
  rw [List.nodup_flatMap]
  refine ⟨fun w _ => go_nodup src p hp w _ 0 0, ?_⟩
  apply List.Nodup.pairwise_of_forall_ne List.nodup_range
  intro w _ w' _ hne t h1 h2
  have a := (go_range src p hp w _ 0 0 t h1).1
  have b := (go_range src p hp w' _ 0 0 t h2).1
  rw [a] at b; injection b with b; omega

end Rpylib.Rng
