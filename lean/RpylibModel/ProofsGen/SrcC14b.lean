/-
C14 — second source-derived tie.  `RpylibModel/Generated/SrcC14b.lean` is rewritten on every run by harness/srctie.py from the
text of rpylib/distribution/pairing.py and rpylib/numerical/numbers.py in /repo's current working tree (plug-in
harness/srcspec/C14.py, translator harness/py2lean.py).  The first tie (ProofsGen/SrcC14.lean) proves the 2-d pairings, the
ℕ ↔ ℤ folding and `PairingToZ1d.pair`; this file proves what the code builds on top of them:

  §1 `_integer_root`                 the float estimate is a parameter: for EVERY non-negative estimate the two correcting loops
                                     end at the exact integer root (= the model's `iroot`)
  §2 `Pairing.pairing / projection`  the base-class extension of ANY 2-d bijection (`pairing2d`, `projection2d` are function
                                     parameters) to every dimension ≥ 2: mutually inverse, non-negative, = `P2.pairN / projD`
  §3 `RosenbergStrong.pairing / projection` in every dimension ≥ 1 (= `rsPair / rsProj`, mutually inverse), with the translated
                                     `_integer_root` plugged in
  §4 `PairingToZd.pair / project`    over any ℕ^d bijection: every non-zero state of ℤ^d exactly once, index-of-state inverts
                                     state-of-index; instances: §2 over the four translated 2-d pairings of the first tie, §3
  §5 `PairingToZ1d._projection_with_switch_to_right / _left`   the stateful projections (`_switch`, `_kk` are state variables):
                                     asked in increasing order from a fresh object they return the model's `z1dProject`, which
                                     the translated `PairingToZ1d.pair` of the first tie inverts
  §6 `StatesManager.__init__` (bound) and the line loop of `Domain.compute_total_number_of_states_and_frontier`: the bound of the
                                     states enumeration is at least the index of every state inside the domain (fix 94bedf1)
  §7 `a_n`, `upper_bound_a_n`        the divisor summatory function as coded = the model's `aN` = Σ_{k ≤ n} ⌊n/k⌋; the bisection
                                     returns the exact inverse whenever the heuristic bracket contains it

Proofs unfold a translated definition once, into a *step lemma* in normal form (closed by normalising tactics, so that a
harmless rewrite of the Python text keeps them), and reason on the step lemmas only.
-/
import RpylibModel.Generated.SrcC14b
import RpylibModel.ProofsGen.SrcC14
import RpylibModel.Lemmas.SrcC14Lists
import RpylibModel.Lemmas.SrcC14RS
import RpylibModel.Lemmas.SrcC14Numbers
import RpylibModel.Proofs.Lemmas.C14Roots
import RpylibModel.Proofs.Lemmas.C14Fold
import RpylibModel.Proofs.C14
import RpylibModel.Proofs.Lemmas.C14Z1d

set_option linter.unusedTactic false
set_option linter.unreachableTactic false
set_option linter.unusedSimpArgs false
set_option linter.unnecessarySeqFocus false
set_option linter.unusedVariables false

namespace Rpylib.SrcTie.C14b
open Rpylib.Src.C14b Rpylib.Py Rpylib.Pairing

/-- closes a goal left by unfolding a translated definition at a concrete shape of its argument: the two sides agree
syntactically, or the branch condition contradicts the shape -/
macro "close_step" : tactic =>
  `(tactic| first | rfl | (exfalso; push_cast at *; omega) | (push_cast at *; omega) | simp_all)

/-! ## §1 `_integer_root` (pairing.py:24-31)

`est` stands for `floor(z ** (1 / n) + 1e-8)`, a float computation: nothing is assumed about it except `0 ≤ est`. -/

theorem pow_gt_pos {m z : Int} {k : Nat} (hk : 1 ≤ k) (hz : 0 ≤ z) (hm : 0 ≤ m) (h : z < m ^ k) : 1 ≤ m := by
  rcases lt_or_ge m 1 with h1 | h1
  · have : m = 0 := by omega
    subst this
    rw [zero_pow (by omega)] at h
    omega
  · exact h1

theorem le_self_pow_int {m : Int} {k : Nat} (hk : 1 ≤ k) (hm : 0 ≤ m) : m ≤ m ^ k := by
  rcases lt_or_ge m 1 with h1 | h1
  · have : m = 0 := by omega
    subst this
    rw [zero_pow (by omega)]
  · exact le_self_pow₀ h1 (by omega)

/-- first loop: invariant `0 ≤ m`, variant `m`; second loop: invariant `0 ≤ m ∧ m^k ≤ z`, variant `z - m` -/
theorem integer_root_spec (z est : Int) (k : Nat) (hz : 0 ≤ z) (hk : 1 ≤ k) (he : 0 ≤ est) :
    ∃ r, integer_root z k est = r ∧ 0 ≤ r ∧ r ^ k ≤ z ∧ z < (r + 1) ^ k := by
  simp only [integer_root, Int.toNat_natCast]
  generalize hw1 : whileLoop _ _ _ _ = w1
  obtain ⟨m1, rfl, hI1, hc1⟩ := whileLoop_elim hw1 (fun m => 0 ≤ m) (fun m => m.toNat) he (by omega) (by
    intro m hm hc
    simp only [decide_eq_true_eq, gt_iff_lt] at hc
    have := pow_gt_pos hk hz hm hc
    constructor <;> omega)
  simp only [decide_eq_false_iff_not, gt_iff_lt, not_lt] at hc1
  simp only []
  generalize hw2 : whileLoop _ _ _ _ = w2
  obtain ⟨m2, rfl, hI2, hc2⟩ := whileLoop_elim hw2 (fun m => 0 ≤ m ∧ m ^ k ≤ z) (fun m => (z - m).toNat) ⟨hI1, hc1⟩
    (by have := le_self_pow_int hk hI1; omega) (by
    intro m hm hc
    simp only [decide_eq_true_eq, ge_iff_le] at hc
    try rw [Int.add_comm 1 m] at hc
    try simp only [Int.add_comm 1 m]
    have h1 : m + 1 ≤ (m + 1) ^ k := le_self_pow_int hk (by omega)
    refine ⟨⟨by omega, hc⟩, ?_⟩
    omega)
  simp only [decide_eq_false_iff_not, not_le, ge_iff_le] at hc2
  try rw [Int.add_comm 1 m2] at hc2
  exact ⟨m2, rfl, hI2.1, hI2.2, hc2⟩

/-- (B) whatever the float estimate was, `_integer_root(z, n)` is the largest integer `m` with `m^n ≤ z` -/
theorem src_integer_root_exact (z n est : Int) (hz : 0 ≤ z) (hn : 1 ≤ n) (he : 0 ≤ est) :
    0 ≤ integer_root z n est ∧ (integer_root z n est) ^ n.toNat ≤ z ∧ z < (integer_root z n est + 1) ^ n.toNat := by
  obtain ⟨k, hk, rfl⟩ : ∃ k : Nat, 1 ≤ k ∧ n = k := ⟨n.toNat, by omega, by omega⟩
  obtain ⟨r, e, h⟩ := integer_root_spec z est k hz hk he
  rw [e, Int.toNat_natCast]
  exact h

/-- (A) = the model's `iroot` -/
theorem src_integer_root_eq_model (z k : Nat) (est : Int) (hk : 1 ≤ k) (he : 0 ≤ est) :
    integer_root z k est = ((iroot z k : Nat) : Int) := by
  obtain ⟨r, e, h0, h1, h2⟩ := integer_root_spec z est k (Int.natCast_nonneg z) hk he
  obtain ⟨m, rfl⟩ := Int.eq_ofNat_of_zero_le h0
  rw [e]
  have a1 : m ^ k ≤ z := by exact_mod_cast h1
  have a2 : z < (m + 1) ^ k := by exact_mod_cast h2
  rw [iroot_unique z k m hk a1 a2]

/-- the estimates the property names: exactly a perfect cube, one below it, far too large, zero -/
example : integer_root 64 3 3 = 4 ∧ integer_root 63 3 4 = 3 ∧ integer_root 10 2 100 = 3 ∧ integer_root 1000000 2 990 = 1000 := by
  decide

/-! ## §2 `Pairing.pairing`, `Pairing.projection` (pairing.py:37-49): the base-class extension to d coordinates -/

theorem pairing_fuel_two (f : Nat) (a b : Int) (p2 : Int → Int → Int) : Pairing_pairing_fuel (f + 1) [a, b] p2 = p2 a b := by
  simp only [Pairing_pairing_fuel, idx_zero_cons, idx_one_cons, List.length_cons, List.length_nil] <;> split_ifs <;> close_step

theorem pairing_fuel_snoc (f : Nat) (i : List Int) (l : Int) (p2 : Int → Int → Int) (hi : 2 ≤ i.length) :
    Pairing_pairing_fuel (f + 1) (i ++ [l]) p2 = p2 (Pairing_pairing_fuel f i p2) l := by
  simp only [Pairing_pairing_fuel, sliceTo_neg_one_snoc, idx_neg_one_snoc, List.length_append, List.length_cons,
    List.length_nil] <;> split_ifs <;> close_step

theorem pairing_fuel_eq_foldl (p2 : Int → Int → Int) (x y : Int) (rest : List Int) :
    ∀ f, rest.length + 1 ≤ f → Pairing_pairing_fuel f (x :: y :: rest) p2 = rest.foldl p2 (p2 x y) := by
  induction rest using snoc_induction with
  | hnil =>
    intro f hf
    obtain ⟨f', rfl⟩ : ∃ f', f = f' + 1 := ⟨f - 1, by omega⟩
    exact pairing_fuel_two f' x y p2
  | hsnoc r l ih =>
    intro f hf
    simp only [List.length_append, List.length_cons, List.length_nil] at hf
    obtain ⟨f', rfl⟩ : ∃ f', f = f' + 1 := ⟨f - 1, by omega⟩
    have e : x :: y :: (r ++ [l]) = (x :: y :: r) ++ [l] := by simp
    rw [e, pairing_fuel_snoc f' _ l p2 (by simp), ih f' (by omega), List.foldl_append]
    rfl

/-- `Pairing.pairing` folds `pairing2d` from the left over a tuple of at least two coordinates -/
theorem src_pairing_eq_foldl (p2 : Int → Int → Int) (x y : Int) (rest : List Int) :
    Pairing_pairing (x :: y :: rest) p2 = (y :: rest).foldl p2 x := by
  simp only [Pairing_pairing]
  exact pairing_fuel_eq_foldl p2 x y rest _ (by simp)

theorem projection_fuel_low (f : Nat) (z dim : Int) (pr2 : Int → List Int) (h : dim ≤ 2) :
    Pairing_projection_fuel (f + 1) z dim pr2 = pr2 z := by
  simp only [Pairing_projection_fuel] <;> split_ifs <;> close_step

theorem projection_fuel_high (f : Nat) (z dim : Int) (pr2 : Int → List Int) (h : 2 < dim) :
    Pairing_projection_fuel (f + 1) z dim pr2
      = pr2 (idx (Pairing_projection_fuel f z (dim - 1) pr2) 0) ++ sliceFrom (Pairing_projection_fuel f z (dim - 1) pr2) 1 := by
  simp only [Pairing_projection_fuel] <;> split_ifs <;> close_step

/-- the recursion of `Pairing.projection(z, k + 2)` in clean form: split the head of the `(k+1)`-dimensional result once more -/
def projRef (pr2 : Int → List Int) (z : Int) : Nat → List Int
  | 0 => pr2 z
  | k + 1 => pr2 (idx (projRef pr2 z k) 0) ++ sliceFrom (projRef pr2 z k) 1

theorem projection_fuel_eq_ref (pr2 : Int → List Int) (z : Int) :
    ∀ (k f : Nat), k + 1 ≤ f → Pairing_projection_fuel f z ((k : Int) + 2) pr2 = projRef pr2 z k := by
  intro k
  induction k with
  | zero =>
    intro f hf
    obtain ⟨f', rfl⟩ : ∃ f', f = f' + 1 := ⟨f - 1, by omega⟩
    exact projection_fuel_low f' z _ pr2 (by omega)
  | succ k ih =>
    intro f hf
    obtain ⟨f', rfl⟩ : ∃ f', f = f' + 1 := ⟨f - 1, by omega⟩
    rw [projection_fuel_high f' z _ pr2 (by omega)]
    have e : ((k + 1 : Nat) : Int) + 2 - 1 = (k : Int) + 2 := by omega
    rw [e, ih f' (by omega)]
    rfl

theorem src_projection_eq_ref (pr2 : Int → List Int) (z : Int) (k : Nat) :
    Pairing_projection z ((k : Int) + 2) pr2 = projRef pr2 z k := by
  simp only [Pairing_projection]
  exact projection_fuel_eq_ref pr2 z k _ (by omega)

/-- what the base class assumes about `pairing2d` / `projection2d` (the trusted interface of §2): a pair of mutually inverse
maps between ℕ² and ℕ, the projection returning a 2-tuple of non-negative integers -/
structure Bij2 (p2 : Int → Int → Int) (pr2 : Int → List Int) : Prop where
  pair_nonneg : ∀ x y, 0 ≤ x → 0 ≤ y → 0 ≤ p2 x y
  proj_pair : ∀ x y, 0 ≤ x → 0 ≤ y → pr2 (p2 x y) = [x, y]
  pair_proj : ∀ z, 0 ≤ z → ∃ a b, pr2 z = [a, b] ∧ 0 ≤ a ∧ 0 ≤ b ∧ p2 a b = z

/-- the same maps read on the naturals, as a `P2` of the hand-written model -/
def toP2 (p2 : Int → Int → Int) (pr2 : Int → List Int) : P2 :=
  ⟨fun x y => (p2 x y).toNat, fun z => ((idx (pr2 z) 0).toNat, (idx (pr2 z) 1).toNat)⟩

theorem toP2_pair {p2 : Int → Int → Int} {pr2 : Int → List Int} (h : Bij2 p2 pr2) (x y : Nat) :
    p2 x y = (((toP2 p2 pr2).pair x y : Nat) : Int) := by
  simp only [toP2]
  rw [Int.toNat_of_nonneg (h.pair_nonneg x y (Int.natCast_nonneg x) (Int.natCast_nonneg y))]

theorem toP2_proj {p2 : Int → Int → Int} {pr2 : Int → List Int} (h : Bij2 p2 pr2) (z : Nat) :
    pr2 z = [((((toP2 p2 pr2).proj z).1 : Nat) : Int), ((((toP2 p2 pr2).proj z).2 : Nat) : Int)] := by
  obtain ⟨a, b, e, ha, hb, _⟩ := h.pair_proj z (Int.natCast_nonneg z)
  simp only [toP2, e, idx_zero_cons, idx_one_cons, Int.toNat_of_nonneg ha, Int.toNat_of_nonneg hb]

theorem toP2_isBij {p2 : Int → Int → Int} {pr2 : Int → List Int} (h : Bij2 p2 pr2) : (toP2 p2 pr2).IsBij := by
  constructor
  · intro z
    obtain ⟨a, b, e, ha, hb, hz⟩ := h.pair_proj z (Int.natCast_nonneg z)
    simp only [toP2, e, idx_zero_cons, idx_one_cons, Int.toNat_of_nonneg ha, Int.toNat_of_nonneg hb, hz, Int.toNat_natCast]
  · intro x y
    have e := h.proj_pair x y (Int.natCast_nonneg x) (Int.natCast_nonneg y)
    have hn := h.pair_nonneg x y (Int.natCast_nonneg x) (Int.natCast_nonneg y)
    simp only [toP2, Int.toNat_of_nonneg hn, e, idx_zero_cons, idx_one_cons, Int.toNat_natCast]

/-! ### (A) source = model (`P2.pairN`, `P2.projD`) for a 2-d pairing that agrees with a `P2` on the naturals -/

theorem foldl_cast (P : P2) (p2 : Int → Int → Int) (h : ∀ x y : Nat, p2 x y = ((P.pair x y : Nat) : Int)) (l : List Nat) :
    ∀ x : Nat, (l.map (fun (n : Nat) => (n : Int))).foldl p2 x = ((l.foldl P.pair x : Nat) : Int) := by
  induction l with
  | nil => intro x; rfl
  | cons y t ih => intro x; simp only [List.map_cons, List.foldl_cons, h, ih]

/-- (A) `Pairing.pairing` of a tuple of `d ≥ 2` naturals is the model's `pairN` -/
theorem src_pairing_eq_model (P : P2) (p2 : Int → Int → Int) (h : ∀ x y : Nat, p2 x y = ((P.pair x y : Nat) : Int))
    (xs : List Nat) (hd : 2 ≤ xs.length) :
    Pairing_pairing (xs.map (fun (n : Nat) => (n : Int))) p2 = ((P.pairN xs : Nat) : Int) := by
  match xs, hd with
  | x :: y :: rest, _ =>
    simp only [List.map_cons, src_pairing_eq_foldl, P2.pairN]
    exact foldl_cast P p2 h (y :: rest) x

theorem projRef_cast (P : P2) (pr2 : Int → List Int)
    (h : ∀ z : Nat, pr2 z = [(((P.proj z).1 : Nat) : Int), (((P.proj z).2 : Nat) : Int)]) (z : Nat) :
    ∀ k : Nat, projRef pr2 z k = (P.projN z (k + 1)).map (fun (n : Nat) => (n : Int)) := by
  intro k
  induction k with
  | zero => simp only [projRef, h, P2.projN, List.map_cons, List.map_nil]
  | succ k ih =>
    have hl := P.projN_length z (k + 1)
    rw [projRef, ih]
    conv_rhs => rw [P2.projN]
    cases hq : P.projN z (k + 1) with
    | nil => rw [hq] at hl; simp at hl
    | cons p q => simp only [List.map_cons, idx_zero_cons, sliceFrom_one_cons, h, List.cons_append, List.nil_append]

/-- (A) `Pairing.projection(z, d)`, `d ≥ 2`, is the model's `projD` -/
theorem src_projection_eq_model (P : P2) (pr2 : Int → List Int)
    (h : ∀ z : Nat, pr2 z = [(((P.proj z).1 : Nat) : Int), (((P.proj z).2 : Nat) : Int)]) (z d : Nat) (hd : 2 ≤ d) :
    Pairing_projection z d pr2 = (P.projD z d).map (fun (n : Nat) => (n : Int)) := by
  obtain ⟨k, rfl⟩ : ∃ k, d = k + 2 := ⟨d - 2, by omega⟩
  have e : (((k + 2 : Nat)) : Int) = (k : Int) + 2 := by push_cast; ring
  rw [e, src_projection_eq_ref, projRef_cast P pr2 h]
  rfl

/-! ### (B) the property on the translated base class, for every 2-d bijection and every dimension -/

theorem natList_of_nonneg (v : List Int) (h : ∀ x ∈ v, 0 ≤ x) : (v.map Int.toNat).map (fun (n : Nat) => (n : Int)) = v := by
  induction v with
  | nil => rfl
  | cons x t ih =>
    simp only [List.map_cons, Int.toNat_of_nonneg (h x List.mem_cons_self)]
    rw [ih (fun y hy => h y (List.mem_cons_of_mem _ hy))]

/-- (B) `projection(pairing(v), len(v)) = v` for every tuple of `d ≥ 2` non-negative coordinates, and the index is ≥ 0 -/
theorem src_projection_pairing_nd {p2 : Int → Int → Int} {pr2 : Int → List Int} (h : Bij2 p2 pr2)
    (v : List Int) (hd : 2 ≤ v.length) (hv : ∀ x ∈ v, 0 ≤ x) :
    Pairing_projection (Pairing_pairing v p2) v.length pr2 = v ∧ 0 ≤ Pairing_pairing v p2 := by
  have hb := toP2_isBij h
  rw [← natList_of_nonneg v hv]
  have hl : 2 ≤ (v.map Int.toNat).length := by simpa using hd
  rw [src_pairing_eq_model _ p2 (toP2_pair h) _ hl]
  refine ⟨?_, Int.natCast_nonneg _⟩
  rw [List.length_map, src_projection_eq_model _ pr2 (toP2_proj h) _ _ hl]
  match hv' : v.map Int.toNat, hl with
  | x :: rest, _ =>
    have := (toP2 p2 pr2).projN_pairN hb rest x
    simp only [P2.projD, List.length_cons, Nat.add_sub_cancel, this]

/-- (B) `pairing(projection(z, d)) = z` for every index `z ≥ 0` and dimension `d ≥ 2`; the projection is a `d`-tuple of
non-negative integers -/
theorem src_pairing_projection_nd {p2 : Int → Int → Int} {pr2 : Int → List Int} (h : Bij2 p2 pr2)
    (z d : Int) (hz : 0 ≤ z) (hd : 2 ≤ d) :
    Pairing_pairing (Pairing_projection z d pr2) p2 = z ∧ ((Pairing_projection z d pr2).length : Int) = d
      ∧ ∀ x ∈ Pairing_projection z d pr2, 0 ≤ x := by
  have hb := toP2_isBij h
  obtain ⟨zn, rfl⟩ := Int.eq_ofNat_of_zero_le hz
  obtain ⟨dn, rfl⟩ := Int.eq_ofNat_of_zero_le (by omega : 0 ≤ d)
  have hd' : 2 ≤ dn := by omega
  rw [src_projection_eq_model _ pr2 (toP2_proj h) _ _ hd']
  have hlen : ((toP2 p2 pr2).projD zn dn).length = dn := by
    simp only [P2.projD]; rw [P2.projN_length]; omega
  refine ⟨?_, by rw [List.length_map, hlen], ?_⟩
  · rw [src_pairing_eq_model _ p2 (toP2_pair h) _ (by omega)]
    simp only [P2.projD]
    rw [(toP2 p2 pr2).pairN_projN hb]
  · intro x hx
    simp only [List.mem_map] at hx
    obtain ⟨n, _, rfl⟩ := hx
    exact Int.natCast_nonneg n

/-! ### the 2-d pairings of the first tie satisfy the interface (non-vacuity of `Bij2`, and the instances the library uses) -/

/-- a Python 2-tuple as the 2-element vector -/
def pairList (pr : Int → Int × Int) (z : Int) : List Int := [(pr z).1, (pr z).2]

theorem bij2_of_nat (p2 : Int → Int → Int) (pr : Int → Int × Int)
    (h1 : ∀ z : Nat, p2 (pr z).1 (pr z).2 = z) (h2 : ∀ x y : Nat, pr (p2 x y) = ((x : Int), (y : Int)))
    (h3 : ∀ z : Nat, 0 ≤ (pr z).1 ∧ 0 ≤ (pr z).2) (h4 : ∀ x y : Nat, 0 ≤ p2 x y) : Bij2 p2 (pairList pr) := by
  constructor
  · intro x y hx hy
    obtain ⟨xn, rfl⟩ := Int.eq_ofNat_of_zero_le hx
    obtain ⟨yn, rfl⟩ := Int.eq_ofNat_of_zero_le hy
    exact h4 xn yn
  · intro x y hx hy
    obtain ⟨xn, rfl⟩ := Int.eq_ofNat_of_zero_le hx
    obtain ⟨yn, rfl⟩ := Int.eq_ofNat_of_zero_le hy
    simp only [pairList, h2]
  · intro z hz
    obtain ⟨zn, rfl⟩ := Int.eq_ofNat_of_zero_le hz
    exact ⟨_, _, rfl, (h3 zn).1, (h3 zn).2, h1 zn⟩

theorem bij2_szudzik : Bij2 Rpylib.Src.C14.Szudzik_pairing2d (pairList Rpylib.Src.C14.Szudzik_projection2d) :=
  bij2_of_nat _ _ Rpylib.SrcTie.C14.src_szudzik_pair_proj Rpylib.SrcTie.C14.src_szudzik_proj_pair
    Rpylib.SrcTie.C14.src_szudzik_proj_nonneg
    (fun x y => by rw [Rpylib.SrcTie.C14.src_szudzik_pairing_eq_model]; exact Int.natCast_nonneg _)

theorem bij2_cantor : Bij2 Rpylib.Src.C14.Cantor_pairing2d (pairList Rpylib.Src.C14.Cantor_projection2d) :=
  bij2_of_nat _ _ Rpylib.SrcTie.C14.src_cantor_pair_proj Rpylib.SrcTie.C14.src_cantor_proj_pair
    Rpylib.SrcTie.C14.src_cantor_proj_nonneg
    (fun x y => by rw [Rpylib.SrcTie.C14.src_cantor_pairing_eq_model]; exact Int.natCast_nonneg _)

theorem bij2_rs2 : Bij2 Rpylib.Src.C14.RosenbergStrong_pairing2d (pairList Rpylib.Src.C14.RosenbergStrong_projection2d) :=
  bij2_of_nat _ _ Rpylib.SrcTie.C14.src_rs_pair_proj Rpylib.SrcTie.C14.src_rs_proj_pair
    Rpylib.SrcTie.C14.src_rs_proj_nonneg
    (fun x y => by rw [Rpylib.SrcTie.C14.src_rs_pairing_eq_model]; exact Int.natCast_nonneg _)

theorem bij2_pepis : Bij2 Rpylib.Src.C14.PepisKalmar_pairing2d (pairList Rpylib.Src.C14.PepisKalmar_projection2d) :=
  bij2_of_nat _ _ Rpylib.SrcTie.C14.src_pepis_pair_proj Rpylib.SrcTie.C14.src_pepis_proj_pair
    Rpylib.SrcTie.C14.src_pepis_proj_nonneg
    (fun x y => by rw [Rpylib.SrcTie.C14.src_pepis_pairing_eq_model]; exact Int.natCast_nonneg _)

/-- (B) instance: Szudzik's pairing through the base class, translated source end to end, every dimension ≥ 2 -/
theorem src_szudzik_nd (v : List Int) (hd : 2 ≤ v.length) (hv : ∀ x ∈ v, 0 ≤ x) :
    Pairing_projection (Pairing_pairing v Rpylib.Src.C14.Szudzik_pairing2d) v.length
      (pairList Rpylib.Src.C14.Szudzik_projection2d) = v :=
  (src_projection_pairing_nd bij2_szudzik v hd hv).1

theorem src_pepis_nd (v : List Int) (hd : 2 ≤ v.length) (hv : ∀ x ∈ v, 0 ≤ x) :
    Pairing_projection (Pairing_pairing v Rpylib.Src.C14.PepisKalmar_pairing2d) v.length
      (pairList Rpylib.Src.C14.PepisKalmar_projection2d) = v :=
  (src_projection_pairing_nd bij2_pepis v hd hv).1

/-- (A) instance: the translated Szudzik extension = the model's `szudzik.pairN` / `projD` -/
theorem src_szudzik_nd_eq_model (xs : List Nat) (z d : Nat) (hx : 2 ≤ xs.length) (hd : 2 ≤ d) :
    Pairing_pairing (xs.map (fun (n : Nat) => (n : Int))) Rpylib.Src.C14.Szudzik_pairing2d = ((szudzik.pairN xs : Nat) : Int)
    ∧ Pairing_projection z d (pairList Rpylib.Src.C14.Szudzik_projection2d)
        = (szudzik.projD z d).map (fun (n : Nat) => (n : Int)) :=
  ⟨src_pairing_eq_model szudzik _ Rpylib.SrcTie.C14.src_szudzik_pairing_eq_model xs hx,
   src_projection_eq_model szudzik _ (fun z => by
     simp only [pairList, Rpylib.SrcTie.C14.src_szudzik_projection_eq_model]; rfl) z d hd⟩

/-- concrete values through the translated source (checked against the running implementation: Szudzik().pairing((3,4,5,6))) -/
example : Pairing_pairing [3, 4, 5, 6] Rpylib.Src.C14.Szudzik_pairing2d = 148616
    ∧ Pairing_pairing [3, 4] Rpylib.Src.C14.Szudzik_pairing2d = 19 := by decide

/-! ## §4 `PairingToZd.pair / project / pairing / projection` (pairing.py:251-273): the signed states of ℤ^d

`n_pairing.pairing` / `n_pairing.projection` are function parameters `np`, `npr`; what is assumed about them is `NdBijZ`
(mutually inverse between ℕ and the d-tuples of naturals, zero tuple ↔ 0) — proved below for the translated base-class
extension (§2) and the translated Rosenberg–Strong functions (§3). -/

theorem src_zd_mapping_to_z_eq_model (n : Int) : mapping_to_z n = ((ofZ n : Nat) : Int) := by
  simp only [mapping_to_z, ofZ] <;> split_ifs <;> omega

theorem src_zd_projection_to_z_eq_model (z : Nat) : projection_to_z z = Pairing.toZ z := by
  simp only [projection_to_z, Pairing.toZ, Rpylib.SrcTie.C14.fdiv_two, Rpylib.SrcTie.C14.fmod_two,
    Rpylib.SrcTie.C14.natCast_ediv_two, Rpylib.SrcTie.C14.natCast_emod_two] <;> src_close

theorem map_mapping_to_z (v : List Int) :
    v.map (fun (t : Int) => mapping_to_z t) = (v.map ofZ).map (fun (n : Nat) => (n : Int)) := by
  induction v with
  | nil => rfl
  | cons x t ih => rw [List.map_cons, ih]; simp only [List.map_cons, src_zd_mapping_to_z_eq_model]

theorem map_projection_to_z (w : List Nat) :
    (w.map (fun (n : Nat) => (n : Int))).map (fun (t : Int) => projection_to_z t) = w.map Pairing.toZ := by
  induction w with
  | nil => rfl
  | cons x t ih => simp only [List.map_cons, src_zd_projection_to_z_eq_model, ih]

structure NdBijZ (np : List Int → Int) (npr : Int → Int → List Int) (d : Nat) : Prop where
  proj_len : ∀ z, 0 ≤ z → (npr z d).length = d ∧ ∀ x ∈ npr z d, 0 ≤ x
  pair_proj : ∀ z, 0 ≤ z → np (npr z d) = z
  proj_pair : ∀ xs : List Int, xs.length = d → (∀ x ∈ xs, 0 ≤ x) → npr (np xs) d = xs ∧ 0 ≤ np xs
  zero : np (List.replicate d 0) = 0

section Zd
variable {np : List Int → Int} {npr : Int → Int → List Int} {d : Nat}

/-- (B) `project(pair(v)) = v` for every state of ℤ^d, whatever `omit_zero` -/
theorem src_zd_project_pair (h : NdBijZ np npr d) (o : Int) (v : List Int) (hl : v.length = d) :
    PairingToZd_project (PairingToZd_pair v o np) d o npr = v := by
  have hnn : ∀ x ∈ (v.map ofZ).map (fun (n : Nat) => (n : Int)), 0 ≤ x := by
    intro x hx; simp only [List.mem_map] at hx; obtain ⟨n, _, rfl⟩ := hx; exact Int.natCast_nonneg n
  have e := (h.proj_pair ((v.map ofZ).map (fun (n : Nat) => (n : Int))) (by simp [hl]) hnn).1
  have key : ∀ t : Int, t = np ((v.map ofZ).map (fun (n : Nat) => (n : Int))) →
      List.map (fun (it : Int) => projection_to_z it) (npr t d) = v := by
    intro t ht; rw [ht, e, map_projection_to_z, map_toZ_ofZ]
  simp only [PairingToZd_project, PairingToZd_pair, PairingToZd_projection, PairingToZd_pairing, map_mapping_to_z]
  exact key _ (by ring)

/-- (B) `pair(project(i)) = i` for every index whose shifted value is a natural; `project(i)` is a `d`-tuple -/
theorem src_zd_pair_project (h : NdBijZ np npr d) (o i : Int) (hi : 0 ≤ i + o) :
    PairingToZd_pair (PairingToZd_project i d o npr) o np = i ∧ (PairingToZd_project i d o npr).length = d := by
  obtain ⟨hlen, hnn⟩ := h.proj_len (i + o) hi
  have e : npr (i + o) d = ((npr (i + o) d).map Int.toNat).map (fun (n : Nat) => (n : Int)) := (natList_of_nonneg _ hnn).symm
  constructor
  · simp only [PairingToZd_project, PairingToZd_pair, PairingToZd_projection, PairingToZd_pairing]
    rw [e, map_projection_to_z, map_mapping_to_z, map_ofZ_toZ, ← e, h.pair_proj _ hi]
    first | omega | ring1
  · simp only [PairingToZd_project, PairingToZd_projection, List.length_map, hlen]

theorem ofZ_list_zero (v : List Int) (h : v.map ofZ = List.replicate v.length 0) : v = List.replicate v.length 0 := by
  induction v with
  | nil => rfl
  | cons x t ih =>
    simp only [List.map_cons, List.length_cons, List.replicate_succ, List.cons.injEq] at h ⊢
    exact ⟨(ofZ_eq_zero x).mp h.1, ih h.2⟩

/-- (B) with `omit_zero`: exactly the non-zero states carry the indices `0, 1, 2, …` -/
theorem src_zd_nonzero (h : NdBijZ np npr d) (v : List Int) (hl : v.length = d) (hv : v ≠ List.replicate d 0) :
    0 ≤ PairingToZd_pair v 1 np := by
  have hnn : ∀ x ∈ (v.map ofZ).map (fun (n : Nat) => (n : Int)), 0 ≤ x := by
    intro x hx; simp only [List.mem_map] at hx; obtain ⟨n, _, rfl⟩ := hx; exact Int.natCast_nonneg n
  obtain ⟨e, h0⟩ := h.proj_pair ((v.map ofZ).map (fun (n : Nat) => (n : Int))) (by simp [hl]) hnn
  simp only [PairingToZd_pair, PairingToZd_pairing, map_mapping_to_z]
  rcases lt_or_ge 0 (np ((v.map ofZ).map (fun (n : Nat) => (n : Int)))) with hp | hp
  · omega
  · exfalso
    have hz : np ((v.map ofZ).map (fun (n : Nat) => (n : Int))) = 0 := by omega
    rw [hz] at e
    have e0 := (h.proj_pair (List.replicate d 0) (by simp) (by intro x hx; rw [List.eq_of_mem_replicate hx])).1
    rw [h.zero, e] at e0
    apply hv
    rw [← hl]
    apply ofZ_list_zero
    have : (List.replicate d (0 : Int)) = (List.replicate d (0 : Nat)).map (fun (n : Nat) => (n : Int)) := by simp
    rw [this] at e0
    rw [hl]
    exact (List.map_inj_right (fun a b (hab : ((a : Nat) : Int) = ((b : Nat) : Int)) => by exact_mod_cast hab)).mp e0

theorem src_zd_project_ne_zero (h : NdBijZ np npr d) (i : Int) (hi : 0 ≤ i) :
    PairingToZd_project i d 1 npr ≠ List.replicate d 0 := by
  intro hc
  have hp := (src_zd_pair_project h 1 i (by omega)).1
  rw [hc] at hp
  simp only [PairingToZd_pair, PairingToZd_pairing, map_mapping_to_z] at hp
  have : ((List.replicate d (0 : Int)).map ofZ).map (fun (n : Nat) => (n : Int)) = List.replicate d 0 := by
    rw [map_ofZ_zero]; simp
  rw [this, h.zero] at hp
  omega

/-- (A) = the model's `zdPair` / `zdProject` -/
theorem src_zd_eq_model (pairN : List Nat → Nat) (projD : Nat → Nat → List Nat)
    (h1 : ∀ ys : List Nat, np (ys.map (fun (n : Nat) => (n : Int))) = ((pairN ys : Nat) : Int))
    (h2 : ∀ z k : Nat, npr z k = (projD z k).map (fun (n : Nat) => (n : Int))) (o k i : Nat) (v : List Int) :
    PairingToZd_pair v o np = zdPair pairN o v ∧ PairingToZd_project i k o npr = zdProject projD o k i := by
  constructor
  · simp only [PairingToZd_pair, PairingToZd_pairing, map_mapping_to_z, h1, zdPair] <;> first | rfl | ring1 | omega
  · have e : ((i : Int) + (o : Int)) = (((i + o : Nat)) : Int) := by push_cast; rfl
    simp only [PairingToZd_project, PairingToZd_projection, zdProject, e, h2, map_projection_to_z]

end Zd

theorem foldl_zero (p2 : Int → Int → Int) (h0 : p2 0 0 = 0) (k : Nat) : (List.replicate k (0 : Int)).foldl p2 0 = 0 := by
  induction k with
  | zero => rfl
  | succ k ih => simp only [List.replicate_succ, List.foldl_cons, h0, ih]

/-- the translated base-class extension of a 2-d bijection with `pairing2d(0, 0) = 0` is such a bijection, `d ≥ 2` -/
theorem ndBijZ_of_bij2 {p2 : Int → Int → Int} {pr2 : Int → List Int} (h : Bij2 p2 pr2) (h0 : p2 0 0 = 0) (d : Nat) (hd : 2 ≤ d) :
    NdBijZ (fun v => Pairing_pairing v p2) (fun z k => Pairing_projection z k pr2) d := by
  refine ⟨fun z hz => ?_, fun z hz => ?_, fun xs hl hx => ?_, ?_⟩
  · obtain ⟨_, h2, h3⟩ := src_pairing_projection_nd h z d hz (by omega)
    exact ⟨by exact_mod_cast h2, h3⟩
  · exact (src_pairing_projection_nd h z d hz (by omega)).1
  · have := src_projection_pairing_nd h xs (by omega) hx
    rw [hl] at this
    exact this
  · obtain ⟨k, rfl⟩ : ∃ k, d = k + 2 := ⟨d - 2, by omega⟩
    show Pairing_pairing (List.replicate (k + 2) 0) p2 = 0
    rw [List.replicate_succ, List.replicate_succ, src_pairing_eq_foldl, ← List.replicate_succ]
    exact foldl_zero p2 h0 (k + 1)

/-- (B) instance, translated source end to end: ℤ^d through Szudzik's pairing, `omit_zero=True`, every `d ≥ 2` -/
theorem src_zd_szudzik (d : Nat) (hd : 2 ≤ d) (v : List Int) (hl : v.length = d) (hv : v ≠ List.replicate d 0) (i : Int) (hi : 0 ≤ i) :
    let np := fun v => Pairing_pairing v Rpylib.Src.C14.Szudzik_pairing2d
    let npr := fun z k => Pairing_projection z k (pairList Rpylib.Src.C14.Szudzik_projection2d)
    PairingToZd_project (PairingToZd_pair v 1 np) d 1 npr = v ∧ 0 ≤ PairingToZd_pair v 1 np
      ∧ PairingToZd_pair (PairingToZd_project i d 1 npr) 1 np = i ∧ PairingToZd_project i d 1 npr ≠ List.replicate d 0 := by
  have hb := ndBijZ_of_bij2 bij2_szudzik (by decide) d hd
  exact ⟨src_zd_project_pair hb 1 v hl, src_zd_nonzero hb v hl hv, (src_zd_pair_project hb 1 i (by omega)).1,
    src_zd_project_ne_zero hb i hi⟩

/-! ## §3 `RosenbergStrong.pairing`, `RosenbergStrong.projection` (pairing.py:82-103) in every dimension -/

/-- closes an equation of integer expressions whose exponents are `Int.toNat` of casts of naturals -/
macro "close_arith" : tactic =>
  `(tactic| first | rfl | (simp; done) | (simp; ring1) | (push_cast; ring1) | omega)

theorem rs_pairing_fuel_one (f : Nat) (a : Int) : RosenbergStrong_pairing_fuel (f + 1) [a] = a := by
  simp only [RosenbergStrong_pairing_fuel, idx_zero_cons, List.length_cons, List.length_nil] <;> split_ifs <;> close_step

theorem rs_pairing_fuel_snoc (f : Nat) (i : List Int) (l : Int) (hi : i ≠ []) :
    RosenbergStrong_pairing_fuel (f + 1) (i ++ [l])
      = RosenbergStrong_pairing_fuel f i + (lmax (i ++ [l])) ^ (i.length + 1)
        + (lmax (i ++ [l]) - l) * ((lmax (i ++ [l]) + 1) ^ i.length - (lmax (i ++ [l])) ^ i.length) := by
  have hlen : 1 ≤ i.length := List.length_pos_iff.mpr hi
  simp only [RosenbergStrong_pairing_fuel, sliceTo_neg_one_snoc, idx_neg_one_snoc, pyMax_eq_lmax, List.length_append,
    List.length_cons, List.length_nil]
  split_ifs with h
  all_goals first
    | close_arith
    | (exfalso; push_cast at *; omega)

/-- (A) `RosenbergStrong.pairing` on a non-empty tuple of naturals is the model's `rsPair` -/
theorem rs_pairing_fuel_eq_model (xs : List Nat) :
    xs ≠ [] → ∀ f, xs.length ≤ f →
      RosenbergStrong_pairing_fuel f (xs.map (fun (n : Nat) => (n : Int))) = ((rsPairR xs.reverse : Nat) : Int) := by
  induction xs using snoc_induction with
  | hnil => intro h; exact absurd rfl h
  | hsnoc i l ih =>
    intro _ f hf
    simp only [List.length_append, List.length_cons, List.length_nil] at hf
    obtain ⟨f', rfl⟩ : ∃ f', f = f' + 1 := ⟨f - 1, by omega⟩
    by_cases hi : i = []
    · subst hi
      simp only [List.nil_append, List.map_cons, List.map_nil, List.reverse_cons, List.reverse_nil]
      rw [rs_pairing_fuel_one]
      rfl
    · have hne : i.reverse ≠ [] := by simpa using hi
      have hmap : (i ++ [l]).map (fun (n : Nat) => (n : Int)) = i.map (fun (n : Nat) => (n : Int)) ++ [(l : Int)] := by simp
      rw [hmap, rs_pairing_fuel_snoc f' _ _ (by simpa using hi), ih hi f' (by omega), ← hmap, lmax_cast,
        List.reverse_append, List.reverse_cons, List.reverse_nil, List.nil_append, List.singleton_append,
        rsPairR_cons_cast l i.reverse hne, List.length_map, List.length_reverse]
      have hm : maxL (l :: i.reverse) = maxL (i ++ [l]) := by
        rw [maxL_cons, maxL_snoc, maxL_reverse]; omega
      rw [hm]

theorem src_rsnd_pairing_eq_model (xs : List Nat) (hx : xs ≠ []) :
    RosenbergStrong_pairing (xs.map (fun (n : Nat) => (n : Int))) = ((rsPair xs : Nat) : Int) := by
  simp only [RosenbergStrong_pairing, rsPair]
  exact rs_pairing_fuel_eq_model xs hx _ (by simp)

theorem rs_projection_fuel_one (f : Nat) (z : Int) (ir : Int → Int → Int) : RosenbergStrong_projection_fuel (f + 1) z 1 ir = [z] := by
  simp only [RosenbergStrong_projection_fuel] <;> split_ifs <;> close_step

/-- `Int.toNat` of anything that equals `d + 1` -/
theorem toNat_eq_succ (d : Nat) (t : Int) (h : t = (d : Int) + 1) : Int.toNat t = d + 1 := by omega

/-- one step of `RosenbergStrong.projection(z, d + 2)`: `m` the root, the last coordinate, the recursive call -/
theorem rs_projection_fuel_step (f d : Nat) (z m : Int) (ir : Int → Int → Int) (hm : ir z ((d : Int) + 2) = m) :
    RosenbergStrong_projection_fuel (f + 1) z ((d : Int) + 2) ir
      = RosenbergStrong_projection_fuel f
          (z - m * m ^ (d + 1)
            - (m - (m - Int.fdiv (imax 0 (z - m * m ^ (d + 1) - m ^ (d + 1))) ((m + 1) ^ (d + 1) - m ^ (d + 1))))
              * ((m + 1) ^ (d + 1) - m ^ (d + 1)))
          ((d : Int) + 1) ir
        ++ [m - Int.fdiv (imax 0 (z - m * m ^ (d + 1) - m ^ (d + 1))) ((m + 1) ^ (d + 1) - m ^ (d + 1))] := by
  have hcall : ∀ (z' t : Int), t = (d : Int) + 1 →
      RosenbergStrong_projection_fuel f z' t ir = RosenbergStrong_projection_fuel f z' ((d : Int) + 1) ir := by
    intro z' t ht; rw [ht]
  simp (disch := omega) only [RosenbergStrong_projection_fuel, hm, toNat_eq_succ d]
  split_ifs with h
  all_goals first
    | (exfalso; omega)
    | rfl
    | (rw [hcall _ _ (by omega)]; done)
    | (simp (disch := omega) only [hcall]; done)
    | (simp; done)
    | ((try simp (disch := omega) only [hcall]); simp only [imax_eq_max, max_comm _ (0 : Int)]; ring_nf; done)

/-- (A) `RosenbergStrong.projection(z, d)` is the model's `rsProj`, for any exact integer d-th root `ir` -/
theorem rs_projection_fuel_eq_model (ir : Int → Int → Int)
    (hroot : ∀ z k : Nat, 1 ≤ k → ir z k = ((iroot z k : Nat) : Int)) :
    ∀ (d : Nat), 1 ≤ d → ∀ (z f : Nat), d ≤ f →
      RosenbergStrong_projection_fuel f z d ir = ((rsProjR d z).map (fun (n : Nat) => (n : Int))).reverse := by
  intro d
  induction d with
  | zero => intro h; omega
  | succ e ih =>
    intro _ z f hf
    obtain ⟨f', rfl⟩ : ∃ f', f = f' + 1 := ⟨f - 1, by omega⟩
    cases e with
    | zero => exact rs_projection_fuel_one f' z ir
    | succ d =>
      have hdim : (((d + 1 + 1 : Nat)) : Int) = (d : Int) + 2 := by push_cast; ring
      have hr := hroot z (d + 2) (by omega)
      rw [hdim] at hr ⊢
      rw [rs_projection_fuel_step f' d z _ ir hr, rsProjR_succ2]
      obtain ⟨s1, s2⟩ := iroot_spec z (d + 2) (by omega)
      rw [show iroot z (d + 2) ^ (d + 2) = iroot z (d + 2) * iroot z (d + 2) ^ (d + 1) by rw [Nat.pow_succ, Nat.mul_comm]] at s1
      rw [show (iroot z (d + 2) + 1) ^ (d + 2) = (iroot z (d + 2) + 1) * (iroot z (d + 2) + 1) ^ (d + 1) by
        rw [Nat.pow_succ, Nat.mul_comm]] at s2
      generalize iroot z (d + 2) = m at *
      have hAB : m ^ (d + 1) < (m + 1) ^ (d + 1) := Nat.pow_lt_pow_left (by omega) (by omega)
      obtain ⟨c1, c2⟩ := rs_core_cast m (m ^ (d + 1)) ((m + 1) ^ (d + 1)) z hAB s1 s2
      push_cast at c1 c2
      have hd1 : ((d : Int) + 1) = ((d + 1 : Nat) : Int) := by push_cast; rfl
      simp only [List.map_cons, List.reverse_cons]
      rw [← c1] at c2
      rw [← c1, ← c2, hd1, ih (by omega) _ f' (by omega)]

theorem src_rsnd_projection_eq_model (ir : Int → Int → Int)
    (hroot : ∀ z k : Nat, 1 ≤ k → ir z k = ((iroot z k : Nat) : Int)) (z d : Nat) (hd : 1 ≤ d) :
    RosenbergStrong_projection z d ir = (rsProj z d).map (fun (n : Nat) => (n : Int)) := by
  simp only [RosenbergStrong_projection, rsProj, List.map_reverse]
  exact rs_projection_fuel_eq_model ir hroot d hd z _ (by omega)

/-- what §3 assumes about the d-th root used by `RosenbergStrong.projection`: it is exact on the naturals -/
def ExactRoot (ir : Int → Int → Int) : Prop := ∀ z k : Nat, 1 ≤ k → ir z k = ((iroot z k : Nat) : Int)

/-- the translated `_integer_root`, with ANY non-negative float estimate at every call, is such a root -/
theorem exactRoot_integer_root (est : Int → Int → Int) (he : ∀ z n, 0 ≤ est z n) :
    ExactRoot (fun z n => integer_root z n (est z n)) :=
  fun z k hk => src_integer_root_eq_model z k _ hk (he _ _)

/-- the translated Rosenberg–Strong functions are mutually inverse between ℕ and ℕ^d, zero tuple ↔ 0, for every `d ≥ 1` -/
theorem ndBijZ_rs {ir : Int → Int → Int} (hroot : ExactRoot ir) (d : Nat) (hd : 1 ≤ d) :
    NdBijZ RosenbergStrong_pairing (fun z k => RosenbergStrong_projection z k ir) d := by
  have hb := rs_ndBij d hd
  refine ⟨fun z hz => ?_, fun z hz => ?_, fun xs hl hx => ?_, ?_⟩
  · obtain ⟨zn, rfl⟩ := Int.eq_ofNat_of_zero_le hz
    show (RosenbergStrong_projection zn d ir).length = d ∧ ∀ x ∈ RosenbergStrong_projection zn d ir, 0 ≤ x
    rw [src_rsnd_projection_eq_model ir hroot zn d hd]
    refine ⟨by rw [List.length_map, hb.len], ?_⟩
    intro x hx
    simp only [List.mem_map] at hx
    obtain ⟨n, _, rfl⟩ := hx
    exact Int.natCast_nonneg n
  · obtain ⟨zn, rfl⟩ := Int.eq_ofNat_of_zero_le hz
    show RosenbergStrong_pairing (RosenbergStrong_projection zn d ir) = zn
    have hne : rsProj zn d ≠ [] := by
      intro hc; have := hb.len zn; rw [hc] at this; simp at this; omega
    rw [src_rsnd_projection_eq_model ir hroot zn d hd, src_rsnd_pairing_eq_model _ hne, hb.pair_proj]
  · show RosenbergStrong_projection (RosenbergStrong_pairing xs) d ir = xs ∧ 0 ≤ RosenbergStrong_pairing xs
    rw [← natList_of_nonneg xs hx]
    have hne : xs.map Int.toNat ≠ [] := by
      intro hc; have : (xs.map Int.toNat).length = d := by simp [hl]
      rw [hc] at this; simp at this; omega
    rw [src_rsnd_pairing_eq_model _ hne, src_rsnd_projection_eq_model ir hroot _ d hd, hb.proj_pair _ (by simp [hl])]
    exact ⟨rfl, Int.natCast_nonneg _⟩
  · have : (List.replicate d (0 : Int)) = (List.replicate d (0 : Nat)).map (fun (n : Nat) => (n : Int)) := by simp
    have hne : List.replicate d (0 : Nat) ≠ [] := by
      intro hc; have := congrArg List.length hc; simp at this; omega
    rw [this, src_rsnd_pairing_eq_model _ hne, hb.zero]
    rfl

/-- (B) `projection(pairing(v), len(v)) = v` for every non-empty tuple of non-negative coordinates; the index is ≥ 0 -/
theorem src_rs_projection_pairing {ir : Int → Int → Int} (hroot : ExactRoot ir) (v : List Int) (hne : v ≠ [])
    (hv : ∀ x ∈ v, 0 ≤ x) :
    RosenbergStrong_projection (RosenbergStrong_pairing v) v.length ir = v ∧ 0 ≤ RosenbergStrong_pairing v :=
  (ndBijZ_rs hroot v.length (List.length_pos_iff.mpr hne)).proj_pair v rfl hv

/-- (B) `pairing(projection(z, d)) = z` for every index `z ≥ 0` and dimension `d ≥ 1`; the projection is a `d`-tuple of
non-negative integers -/
theorem src_rs_pairing_projection {ir : Int → Int → Int} (hroot : ExactRoot ir) (z : Int) (d : Nat) (hz : 0 ≤ z) (hd : 1 ≤ d) :
    RosenbergStrong_pairing (RosenbergStrong_projection z d ir) = z ∧ (RosenbergStrong_projection z d ir).length = d
      ∧ ∀ x ∈ RosenbergStrong_projection z d ir, 0 ≤ x :=
  ⟨(ndBijZ_rs hroot d hd).pair_proj z hz, (ndBijZ_rs hroot d hd).proj_len z hz⟩

/-- (B) the same with the translated `_integer_root` plugged in: the whole Rosenberg–Strong code path, for every float
estimate the root function may start from -/
theorem src_rs_nd_with_integer_root (est : Int → Int → Int) (he : ∀ z n, 0 ≤ est z n) (v : List Int) (hne : v ≠ [])
    (hv : ∀ x ∈ v, 0 ≤ x) (z : Int) (d : Nat) (hz : 0 ≤ z) (hd : 1 ≤ d) :
    RosenbergStrong_projection (RosenbergStrong_pairing v) v.length (fun z n => integer_root z n (est z n)) = v
    ∧ RosenbergStrong_pairing (RosenbergStrong_projection z d (fun z n => integer_root z n (est z n))) = z :=
  ⟨(src_rs_projection_pairing (exactRoot_integer_root est he) v hne hv).1,
   (src_rs_pairing_projection (exactRoot_integer_root est he) z d hz hd).1⟩

/-- (B) ℤ^d through Rosenberg–Strong (the pairing the sampling factory uses), `omit_zero=True`, every `d ≥ 1` -/
theorem src_zd_rs {ir : Int → Int → Int} (hroot : ExactRoot ir) (d : Nat) (hd : 1 ≤ d) (v : List Int) (hl : v.length = d)
    (hv : v ≠ List.replicate d 0) (i : Int) (hi : 0 ≤ i) :
    let npr := fun z k => RosenbergStrong_projection z k ir
    PairingToZd_project (PairingToZd_pair v 1 RosenbergStrong_pairing) d 1 npr = v
      ∧ 0 ≤ PairingToZd_pair v 1 RosenbergStrong_pairing
      ∧ PairingToZd_pair (PairingToZd_project i d 1 npr) 1 RosenbergStrong_pairing = i
      ∧ PairingToZd_project i d 1 npr ≠ List.replicate d 0 := by
  have hb := ndBijZ_rs hroot d hd
  exact ⟨src_zd_project_pair hb 1 v hl, src_zd_nonzero hb v hl hv, (src_zd_pair_project hb 1 i (by omega)).1,
    src_zd_project_ne_zero hb i hi⟩

/-- concrete values through the translated source (checked against the running implementation) -/
example : RosenbergStrong_pairing [3, 4, 5, 6] = 1440 ∧ RosenbergStrong_pairing [7] = 7
    ∧ RosenbergStrong_projection 2134 4 (fun z n => integer_root z n 0) = [0, 6, 0, 2]
    ∧ PairingToZd_pair [-3, 4, 0] 1 RosenbergStrong_pairing = 502 := by decide

/-! ## §5 `PairingToZ1d._projection_with_switch_to_right / _left` (pairing.py:313-329): the stateful interval enumeration

`self._switch`, `self._kk` are state variables of the translated definitions (value, final `_switch`, final `_kk`).  The
`@cache` on `project` and the choice of the method in `__init__` are not translated: `srcZ1dRun` asks fresh indices only (so the
cache never answers) and picks the method by `|l| < r` / `r < |l|` as `__init__` does. -/

/-- one call `project(i)` (cache miss) on the translated methods: the state is (`_switch`, `_kk`) -/
def srcZ1dStep (L R o : Nat) (s : Bool × Int) (i : Nat) : Int × Bool × Int :=
  if L < R then PairingToZ1d_switch_to_right ((i : Int) + o) s.1 s.2 (-(L : Int))
  else if R < L then PairingToZ1d_switch_to_left ((i : Int) + o) s.1 s.2 (R : Int)
  else (projection_to_z ((i : Int) + o), s.1, s.2)

/-- a history of calls with distinct indices on one object -/
def srcZ1dRun (L R o : Nat) : Bool × Int → List Nat → List Int
  | _, [] => []
  | s, i :: is => (srcZ1dStep L R o s i).1 :: srcZ1dRun L R o (srcZ1dStep L R o s i).2 is

/-- what `_switch`, `_kk` hold after the calls `0 … a-1` -/
def SrcZ1dInv (L R o a : Nat) (s : Bool × Int) : Prop :=
  (L < R → s.1 = decide (2 * L + 2 < a + o) ∧ s.2 = ((a + o - (2 * L + 2) : Nat) : Int)) ∧
  (R < L → s.1 = decide (2 * R + 1 < a + o) ∧ s.2 = ((a + o - (2 * R + 1) : Nat) : Int))

theorem projection_to_z_add (a o : Nat) :
    projection_to_z ((a : Int) + o)
      = if (a + o) % 2 = 0 then -(((a + o) / 2 : Nat) : Int) else (((a + o) / 2 : Nat) : Int) + 1 := by
  have e : (a : Int) + o = ((a + o : Nat) : Int) := by push_cast; rfl
  rw [e, src_zd_projection_to_z_eq_model, toZ_eq]

theorem srcZ1dStep_inv (L R o a : Nat) (s : Bool × Int) (h : SrcZ1dInv L R o a s) :
    (srcZ1dStep L R o s a).1 = z1dProject L R o a ∧ SrcZ1dInv L R o (a + 1) (srcZ1dStep L R o s a).2 := by
  obtain ⟨sw, kk⟩ := s
  obtain ⟨hlt, hgt⟩ := h
  simp only [srcZ1dStep, z1dProject, SrcZ1dInv, toZ_eq]
  by_cases c1 : L < R
  · obtain ⟨hs, hk⟩ := hlt c1
    simp only at hs hk
    subst hs hk
    simp only [c1, if_true, PairingToZ1d_switch_to_right, projection_to_z_add, decide_eq_true_eq]
    split_ifs <;> simp <;> omega
  · by_cases c2 : R < L
    · obtain ⟨hs, hk⟩ := hgt c2
      simp only at hs hk
      subst hs hk
      simp only [c1, c2, if_true, if_false, PairingToZ1d_switch_to_left, projection_to_z_add, decide_eq_true_eq]
      split_ifs <;> simp <;> omega
    · simp [c1, c2, projection_to_z_add]

theorem srcZ1dRun_range' (L R o : Nat) (n : Nat) :
    ∀ (a : Nat) (s : Bool × Int), SrcZ1dInv L R o a s →
      srcZ1dRun L R o s (List.range' a n) = (List.range' a n).map (z1dProject L R o) := by
  induction n with
  | zero => intro a s _; rfl
  | succ n ih =>
    intro a s h
    obtain ⟨hv, hinv⟩ := srcZ1dStep_inv L R o a s h
    simp only [List.range'_succ, srcZ1dRun, List.map_cons]
    rw [ih (a + 1) _ hinv, hv]

/-- (B) a fresh object (`_switch = False`, `_kk = 0`) asked `project(0), …, project(n-1)` in this order returns the values of
the pure enumeration `z1dProject` — for every interval shape, with or without the origin -/
theorem src_z1d_increasing (L R o n : Nat) (ho : o ≤ 1) :
    srcZ1dRun L R o (false, 0) (List.range n) = (List.range n).map (z1dProject L R o) := by
  rw [List.range_eq_range']
  apply srcZ1dRun_range'
  refine ⟨fun _ => ⟨?_, ?_⟩, fun _ => ⟨?_, ?_⟩⟩ <;> simp <;> omega

/-- (B) …and the translated `PairingToZ1d.pair` of the first tie inverts it: every non-zero state of `[-L, R]` exactly once,
index-of-state ∘ state-of-index = id -/
theorem src_z1d_pair_inverts (L R n : Nat) (hL : 0 < L) (hR : 0 < R) (hn : n ≤ L + R) :
    (srcZ1dRun L R 1 (false, 0) (List.range n)).map (fun v => Rpylib.Src.C14.PairingToZ1d_pair v (-(L : Int)) R 1)
      = (List.range n).map (fun (i : Nat) => (i : Int))
    ∧ ∀ v ∈ srcZ1dRun L R 1 (false, 0) (List.range n), -(L : Int) ≤ v ∧ v ≤ R ∧ v ≠ 0 := by
  rw [src_z1d_increasing L R 1 n (by omega)]
  constructor
  · rw [List.map_map]
    apply List.map_congr_left
    intro i hi
    have hi' : i < L + R := by have := List.mem_range.mp hi; omega
    simp only [Function.comp]
    have := Rpylib.SrcTie.C14.src_z1d_pair_eq_model_all L R 1 (z1dProject L R 1 i)
    simp only [Nat.cast_one] at this
    rw [this, z1d_pair_project' L R i hL hR hi']
  · intro v hv
    simp only [List.mem_map, List.mem_range] at hv
    obtain ⟨i, hi, rfl⟩ := hv
    exact z1d_mem L R i hL hR (by omega)

/-- the negation witness of the model (`z1d_order_counterexample`) on the translated methods: asked `project(6)` before
`project(5)` on `[-2, 5]` the object answers 4 twice — the known finding C14-z1d-call-order is a fact of the source -/
example : srcZ1dRun 2 5 1 (false, 0) [6, 5] = [4, 4] ∧ srcZ1dRun 2 5 1 (false, 0) [5, 6] = [4, 5] := by decide

/-! ## §6 the bound of the states enumeration (pairing.py:459-479 and 508-510, /repo commit 94bedf1)

`Domain.compute_total_number_of_states_and_frontier`: the statements from `self.max_inside_index = 0` to the end of the loop over
the lines of the grid, as a function of everything they read (`lazy_indices_product(all_sizes)` is the list `index_tuples`,
`pairing.pair` and `state ↦ self.outside(self.grid[origin + state])` are function parameters, nothing assumed about them);
`StatesManager.__init__`: the statement that computes `max_frontier_indices`. -/

/-- (B) the bound is at least the domain's `max_inside_index` and every frontier index -/
theorem src_bound_ge (fs : List Int) (old mi : Int) :
    mi ≤ StatesManager_bound fs old mi ∧ ∀ i ∈ fs, i ≤ StatesManager_bound fs old mi := by
  simp only [StatesManager_bound, pyMax_eq_lmax, imax_eq_max]
  refine ⟨by omega, fun i hi => ?_⟩
  have := le_lmax fs i hi
  omega

/-- (B) `max_inside_index` is at least the index of every state of every line that is inside the domain -/
theorem src_lines_max_inside (fsi sizes : List Int) (olc l r old : Int) (tuples : List (List Int)) (pair : List Int → Int)
    (outside : List Int → Bool) (ks : List Int) (hks : ks ∈ tuples) (k : Int) (hk1 : l ≤ k) (hk2 : k < r)
    (hin : outside (ks.map (fun ki => ki - olc) ++ [k]) = false) :
    pair (ks.map (fun ki => ki - olc) ++ [k]) ≤ (Domain_frontier_lines fsi sizes olc l r old tuples pair outside).2 := by
  simp only [Domain_frontier_lines]
  refine (foldl_mono_inv _ (fun (st : Int × List Int) => st.1)
    (fun ks t => ∃ k, l ≤ k ∧ k < r ∧ outside (ks.map (fun ki => ki - olc) ++ [k]) = false
      ∧ t = pair (ks.map (fun ki => ki - olc) ++ [k])) ?_ tuples _).2 ks hks _ ⟨k, hk1, hk2, hin, rfl⟩
  intro st ks'
  generalize hw : List.foldl _ _ (Rpylib.Py.range l r) = inner
  rw [foldl_two_appends (fun st x => rfl)] at hw
  subst hw
  simp only [List.nil_append]
  split_ifs with hall
  all_goals first
    | (simp only [imax_eq_max, pyMax_eq_lmax]
       refine ⟨by omega, ?_⟩
       rintro t ⟨k', h1, h2, h3, rfl⟩
       have hmem := mem_unflagged (Rpylib.Py.range l r) (fun k => pair (ks'.map (fun ki => ki - olc) ++ [k]))
         (fun k => outside (ks'.map (fun ki => ki - olc) ++ [k])) k' ((mem_pyRange l r k').mpr ⟨h1, h2⟩) h3
       have hle := le_lmax _ _ hmem
       omega)
    | (refine ⟨le_refl _, ?_⟩
       rintro t ⟨k', h1, h2, h3, rfl⟩
       exfalso
       simp only [Bool.not_eq_true, List.all_eq_true, List.mem_map, not_not] at hall
       have := hall _ ⟨k', (mem_pyRange l r k').mpr ⟨h1, h2⟩, rfl⟩
       simp_all)

/-- (B) fix 94bedf1 stays proved on the source: the bound that `StatesManager` computes from the frontier list and
`max_inside_index` of these very statements is at least the index of every state inside the domain — the enumeration cannot
signal exhaustion before an admissible state (the model's `code_bound_exceeds_box`, here for any boundary and any pairing) -/
theorem src_enumeration_bound_covers_inside (fsi sizes : List Int) (olc l r old old' : Int) (tuples : List (List Int))
    (pair : List Int → Int) (outside : List Int → Bool) (ks : List Int) (hks : ks ∈ tuples) (k : Int) (hk1 : l ≤ k) (hk2 : k < r)
    (hin : outside (ks.map (fun ki => ki - olc) ++ [k]) = false) :
    pair (ks.map (fun ki => ki - olc) ++ [k])
      ≤ StatesManager_bound (Domain_frontier_lines fsi sizes olc l r old tuples pair outside).1 old'
          (Domain_frontier_lines fsi sizes olc l r old tuples pair outside).2 :=
  le_trans (src_lines_max_inside fsi sizes olc l r old tuples pair outside ks hks k hk1 hk2 hin) (src_bound_ge _ _ _).1

/-- the 3-point line grid of the probe (checked against the running implementation): frontier indices and `max_inside_index` -/
example : Domain_frontier_lines [] [3] 1 (-1) 2 0 [[0], [1], [2]]
    (fun v => PairingToZd_pair v 1 RosenbergStrong_pairing) (fun _ => false) = ([1, 4, 0, 3, 6, 5], 7) := by decide

/-! ## §7 `a_n`, `upper_bound_a_n` (numbers.py:18-28, 52-82): the divisor summatory function and its inverse

`sqrt_x` stands for `floor(sqrt(n))` (a float square root): the theorems take it to be the exact integer square root.
In `upper_bound_a_n` the three calls of `inv_guess_a` (a Halley iteration on floats) are the parameters `n_low_bound`, `n_guess`,
`n_high_bound`, `a_n` is a function parameter: the theorem says that the branching and the bisection return the exact inverse
whenever the bracket handed to the bisection contains it (whether the heuristic bracket always does is compared, not proved:
NOT_PROVED in harness/props/c14.py). -/

/-- (A) `a_n(n)` as coded, with the exact square root, is the model's `aN` -/
theorem src_a_n_eq_model (n : Nat) : a_n n (Nat.sqrt n) = ((aN n : Nat) : Int) := by
  rw [aN_cast]
  have hs : ∀ (F : Int → Int) (b : Int), (∀ k : Int, F k = Int.fdiv (n : Int) k) → b = ((Nat.sqrt n : Nat) : Int) + 1 →
      List.sum ((range 1 b).map F) = ((sumDiv n (Nat.sqrt n) : Nat) : Int) := by
    intro F b hF hb; rw [hb]; exact sum_fdiv_range n F hF _
  simp (disch := first | omega | (intro k; rfl)) only [a_n, hs] <;> first | rfl | ring1

/-- (B) …hence the divisor summatory function `Σ_{k ≤ n} ⌊n/k⌋` (A006218), not merely the half-sum formula -/
theorem src_a_n_is_divisor_summatory (n : Nat) :
    a_n n (Nat.sqrt n) = ((∑ k ∈ Finset.Icc 1 n, n / k : Nat) : Int) := by
  rw [src_a_n_eq_model, aN_eq_sum]

example : a_n 100 10 = 482 := by decide

/-- (B) the bisection of `upper_bound_a_n`: for a strictly increasing `a` with `a 0 = 0`, non-negative guesses, and a bracket that
contains the answer on the side the code chooses, the result `r` is THE index with `a (r - 1) ≤ z < a r` -/
theorem src_upper_bound_exact (a : Int → Int) (ha0 : a 0 = 0) (hmono : ∀ i j, 0 ≤ i → i < j → a i < a j)
    (z nl ng nh : Int) (δ : Rat) (hz : 0 ≤ z) (hnl : 0 ≤ nl) (hng : 0 ≤ ng) (hnh : 0 ≤ nh)
    (hlow : z < a ng → a nl ≤ z) (hhigh : a ng < z → z < a nh) :
    1 ≤ upper_bound_a_n z nl ng nh δ a ∧ a (upper_bound_a_n z nl ng nh δ a - 1) ≤ z ∧ z < a (upper_bound_a_n z nl ng nh δ a) := by
  suffices h : ∃ r, upper_bound_a_n z nl ng nh δ a = r ∧ 1 ≤ r ∧ a (r - 1) ≤ z ∧ z < a r by
    obtain ⟨r, e, h⟩ := h; rw [e]; exact h
  -- the loop, for any way `mid` of choosing a point strictly between `start` and `end` (state = (end, increment, start))
  have bisect : ∀ (s0 e0 : Int) (w : Option (Int × Int × Int)) (cond : Int × Int × Int → Bool) (body : Int × Int × Int → Int × Int × Int)
      (mid : Int × Int × Int → Int) (fuel : Nat), whileLoop cond body fuel (e0, e0 - s0, s0) = w →
      (∀ st, cond st = decide (st.2.1 > 1)) →
      (∀ st, body st = if a (mid st) > z then (mid st, mid st - st.2.2, st.2.2) else (st.1, st.1 - mid st, mid st)) →
      (∀ st, st.2.1 = st.1 - st.2.2 → st.2.1 > 1 → st.2.2 < mid st ∧ mid st < st.1) →
      0 ≤ s0 → 0 ≤ e0 → a s0 ≤ z → z < a e0 → (e0 - s0).toNat ≤ fuel →
      ∃ st, w = some st ∧ 0 ≤ st.2.2 ∧ a st.2.2 ≤ z ∧ z < a (st.2.2 + 1) := by
    intro s0 e0 w cond body mid fuel hw hcond hbody hmid hs0 he0 h1 h2 hf
    have hlt0 : s0 < e0 := by
      by_contra hcon
      rcases lt_or_eq_of_le (not_lt.mp hcon) with c | c
      · have := hmono e0 s0 he0 c; omega
      · rw [c] at h2; omega
    obtain ⟨st, e, hI, hc⟩ := whileLoop_elim hw
      (fun st => 0 ≤ st.2.2 ∧ a st.2.2 ≤ z ∧ z < a st.1 ∧ st.2.1 = st.1 - st.2.2 ∧ st.2.2 < st.1)
      (fun st => (st.1 - st.2.2).toNat) ⟨hs0, h1, h2, rfl, hlt0⟩ hf (by
        rintro ⟨e, i, s⟩ ⟨i1, i2, i3, i4, i5⟩ hc
        simp only at i1 i2 i3 i4 i5
        rw [hcond] at hc
        simp only [decide_eq_true_eq, gt_iff_lt] at hc
        obtain ⟨m1, m2⟩ := hmid (e, i, s) i4 hc
        simp only at m1 m2
        rw [hbody]
        simp only
        generalize mid (e, i, s) = m at *
        split_ifs with hm
        · exact ⟨⟨i1, i2, hm, rfl, by simp only; omega⟩, by simp only; omega⟩
        · exact ⟨⟨by simp only; omega, by simp only; omega, i3, rfl, by simp only; omega⟩, by simp only; omega⟩)
    obtain ⟨e', i', s'⟩ := st
    obtain ⟨i1, i2, i3, i4, i5⟩ := hI
    simp only at i1 i2 i3 i4 i5
    rw [hcond] at hc
    simp only [decide_eq_false_iff_not, gt_iff_lt, not_lt] at hc
    have : e' = s' + 1 := by omega
    exact ⟨_, e, i1, i2, by rw [← this]; exact i3⟩
  simp only [upper_bound_a_n]
  split_ifs with h0 h1 h2
  · subst h0
    exact ⟨1, rfl, le_refl _, by simp [ha0], by have := hmono 0 1 (le_refl _) (by decide); omega⟩
  · exact ⟨_, rfl, by omega, by simp only [add_sub_cancel_right]; omega, by have := hmono ng (ng + 1) hng (by omega); omega⟩
  · generalize hw : whileLoop _ _ _ _ = w
    obtain ⟨st, rfl, i1, i2, i3⟩ := bisect nl ng w _ _ _ _ hw (fun st => rfl) (fun st => rfl)
      (fun st e1 e2 => by simp only [Rpylib.SrcTie.C14.fdiv_two] at * <;> omega)
      hnl hng (hlow h2) h2 (by omega)
    exact ⟨_, rfl, by simp only; omega, by simp only [add_sub_cancel_right]; exact i2, i3⟩
  · generalize hw : whileLoop _ _ _ _ = w
    have h3 : a ng < z := by omega
    obtain ⟨st, rfl, i1, i2, i3⟩ := bisect ng nh w _ _ _ _ hw (fun st => rfl) (fun st => rfl)
      (fun st e1 e2 => by simp only [Rpylib.SrcTie.C14.fdiv_two] at * <;> omega)
      hng hnh (by omega) (hhigh h3) (by omega)
    exact ⟨_, rfl, by simp only; omega, by simp only [add_sub_cancel_right]; exact i2, i3⟩

/-- the translated `a_n` with the exact integer square root, as the function handed to the bisection -/
def aSrc (n : Int) : Int := a_n n (isqrt n)

theorem aSrc_eq (n : Nat) : aSrc n = ((aN n : Nat) : Int) := by
  simp only [aSrc, Rpylib.SrcTie.C14.isqrt_natCast]
  exact src_a_n_eq_model n

/-- (A) the translated bisection over the translated `a_n` returns the model's `upperBound z` (the exact inverse of the divisor
summatory function) for every `z`, whenever the guesses bracket it on the side the code chooses -/
theorem src_upper_bound_eq_model (z nl ng nh : Nat) (δ : Rat) (hlow : z < aN ng → aN nl ≤ z) (hhigh : aN ng < z → z < aN nh) :
    upper_bound_a_n z nl ng nh δ aSrc = ((upperBound z : Nat) : Int) := by
  have hmono : ∀ i j : Int, 0 ≤ i → i < j → aSrc i < aSrc j := by
    intro i j hi hij
    obtain ⟨a, rfl⟩ := Int.eq_ofNat_of_zero_le hi
    obtain ⟨b, rfl⟩ := Int.eq_ofNat_of_zero_le (by omega : 0 ≤ j)
    rw [aSrc_eq, aSrc_eq]
    exact_mod_cast aN_strictMono (by omega : a < b)
  have h0 : aSrc 0 = 0 := by have := aSrc_eq 0; rw [aN_zero] at this; exact_mod_cast this
  obtain ⟨r1, r2, r3⟩ := src_upper_bound_exact aSrc h0 hmono z nl ng nh δ (Int.natCast_nonneg _) (Int.natCast_nonneg _)
    (Int.natCast_nonneg _) (Int.natCast_nonneg _)
    (by rw [aSrc_eq, aSrc_eq]; intro h; exact_mod_cast hlow (by exact_mod_cast h))
    (by rw [aSrc_eq, aSrc_eq]; intro h; exact_mod_cast hhigh (by exact_mod_cast h))
  generalize upper_bound_a_n z nl ng nh δ aSrc = r at *
  obtain ⟨rn, rfl⟩ := Int.eq_ofNat_of_zero_le (by omega : 0 ≤ r)
  have e : ((rn : Int) - 1) = ((rn - 1 : Nat) : Int) := by omega
  rw [e, aSrc_eq] at r2
  rw [aSrc_eq] at r3
  rw [upperBound_unique z rn (by omega) (by exact_mod_cast r2) (by exact_mod_cast r3)]

theorem aN_val (n s v : Nat) (h1 : s * s ≤ n) (h2 : n < (s + 1) * (s + 1)) (hv : 2 * sumDiv n s - s ^ 2 = v) : aN n = v := by
  unfold aN; rw [sqrt_of_sandwich n s h1 h2]; exact hv

/-- the hypotheses are satisfiable and the value is the implementation's (upper_bound_a_n(50) = 17 with guesses 10, 17, 30) -/
example : upper_bound_a_n 50 10 17 30 0 aSrc = 17 := by
  have a10 : aN 10 = 27 := aN_val 10 3 27 (by decide) (by decide) (by decide)
  have a16 : aN 16 = 50 := aN_val 16 4 50 (by decide) (by decide) (by decide)
  have a17 : aN 17 = 52 := aN_val 17 4 52 (by decide) (by decide) (by decide)
  have h := src_upper_bound_eq_model 50 10 17 30 0 (by intro _; omega) (by intro h; omega)
  rw [upperBound_unique 50 17 (by decide) (by show aN 16 ≤ 50; omega) (by omega)] at h
  exact_mod_cast h

end Rpylib.SrcTie.C14b
