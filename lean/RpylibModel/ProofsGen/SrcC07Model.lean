/-
C07 — source-derived tie, alignment part.  The definitions translated from /repo's current working tree
(RpylibModel/Generated/SrcC07.lean, rewritten on every run) are EQUAL to the hand-written model of Model/Stats.lean (index
functions `Nat → Rat`, `sumTo`), so the theorems of Proofs/C07.lean about the model are theorems about the translated source.
This file demands more than the property does (the exact guard threshold of the one-control coefficient, the shape of the
path loop, the representation of the coefficient kernel); when it stops checking while ProofsGen/SrcC07.lean still does, the
run records "alignment lost" and explores with the boosted budget — the behavioural correspondence decides.

  source                                         model
  `mean`                                         `Stats.mean n (column c)`
  `mc_stddev`² (root certificates)               `Stats.stderrSq n (column c)`
  `Statistic.add` ∘ `discount` ∘ `__call__`      `Stats.stdRows` (payoff dimension 1)
  `helper_compute_coefficients`                  `Stats.adjustK` with the kernel's coefficient vector; one control:
                                                 `Stats.adjust (Stats.bStar …)` away from the rounding window of the guard literal
  loop of `compute_coefficients`                 `Stats.adjustVecRow` for every model kernel that returns the source's coefficients
-/
import RpylibModel.ProofsGen.SrcC07

set_option linter.unusedSimpArgs false
set_option linter.unusedVariables false
set_option linter.unreachableTactic false
set_option linter.unusedTactic false
set_option linter.unnecessarySeqFocus false

namespace Rpylib.SrcTie.C07
open Rpylib.Src.C07 Rpylib.Stats

variable (sims : List (List Rat)) (d : Nat) (sqrt : Rat → Rat)

theorem src_mean_eq_model (hn : sims ≠ []) (hr : Rect sims d) (c : Nat) (hc : c < d) :
    (mean sims).getD c 0 = Rpylib.Stats.mean sims.length (fun i => ent sims i c) := by
  simp only [Rpylib.Src.C07.mean]
  exact meanAxis0_getD sims d hn hr c hc

theorem src_mc_stddev_eq_model (hr : Rect sims d) (h2 : 2 ≤ sims.length) (c : Nat) (hc : c < d)
    (hcert : sqrt (varU sims.length (fun i => ent sims i c)) * sqrt (varU sims.length (fun i => ent sims i c))
              = varU sims.length (fun i => ent sims i c))
    (hcertn : sqrt (sims.length : Rat) * sqrt (sims.length : Rat) = (sims.length : Rat)) :
    (mc_stddev sims sqrt).getD c 0 ^ 2 = stderrSq sims.length (fun i => ent sims i c) := by
  have hpos : (sims.length : Rat) ≠ 0 := by
    have : (2 : Rat) ≤ sims.length := by exact_mod_cast h2
    linarith
  unfold stderrSq
  rw [← src_mc_stddev_sq sims d sqrt hr h2 c hc hcert hcertn]
  field_simp

/-- payoff dimension 1: the array after the path loop is the model's `stdRows` -/
theorem src_path_loop_eq_model (a0 : List (List Rat)) (u : Nat → Rat) (payoff : Rat → List Rat)
    (hd : ∀ i, (payoff (u i)).length = 1) (df notional : Rat) (cv : Nat → List (List Rat)) :
    ((List.range a0.length).foldl
        (fun a (i : Nat) => Statistic_add (i : Int) (MCPath_discount df (Product_call (u i) notional payoff) (cv i)).1 a) a0).map
        (fun r => r[0]?)
      = stdRows a0.length df notional (fun i => (payoff (u i)).getD 0 0) := by
  rw [src_add_each_path_once (fun i => (MCPath_discount df (Product_call (u i) notional payoff) (cv i)).1) a0, each_path_once,
    List.map_map]
  apply List.map_congr_left; intro i _
  have h0 : 0 < (payoff (u i)).length := by rw [hd i]; omega
  simp only [Function.comp_apply, src_discount, src_product_call, List.getElem?_map, List.getD_eq_getElem?_getD,
    List.getElem?_eq_getElem h0, Option.map_some, Option.getD_some]

variable (pinv : List (List Rat) → Rat → Bool → List (List Rat)) (raises : Bool) (x : List (List Rat)) (y prices : List Rat)

/-- the adjusted sample in the model's form: `adjustK` with the kernel's coefficient vector -/
theorem src_helper_eq_model_adjustK (hx : x ≠ []) (hk : 0 < prices.length) (hr : Rect x prices.length) (hy : y.length = x.length) :
    ∃ b : List Rat, ControlVariates_helper_compute_coefficients x y prices pinv raises
      = (List.range x.length).map (adjustK prices.length (at1 b) (at1 prices) (fun j i => ent x i j) (at1 y)) := by
  obtain ⟨b, hb, _⟩ := src_helper_form pinv raises x y prices hx hk hr hy
  exact ⟨b, hb⟩

/-- **one control = the model's `bStar`** (no LinAlgError): equal to `adjust (bStar …)` whenever the variance of the control is
    not in the window between the float literal `1e-12` of the source and the model's exact `10⁻¹²` -/
theorem src_helper_eq_model_one_control (hx : x ≠ []) (hp : prices.length = 1) (hr : Rect x 1) (hy : y.length = x.length)
    (hwin : ¬ ((4951760157141521 : Rat) / 4951760157141521099596496896 ≤ varB x.length (fun i => ent x i 0)
              ∧ varB x.length (fun i => ent x i 0) < 1 / 1000000000000)) :
    ∃ rc herm, pinv [[Rpylib.Py.var (col x 0) 0]] rc herm = [[1 / Rpylib.Py.var (col x 0) 0]] →
      ControlVariates_helper_compute_coefficients x y prices pinv false
        = (List.range x.length).map
            (adjust (bStar x.length (fun i => ent x i 0) (at1 y)) (at1 prices 0) (fun i => ent x i 0) (at1 y)) := by
  have hk : 0 < prices.length := by omega
  have hr' : Rect x prices.length := by rw [hp]; exact hr
  have hv : Rpylib.Py.var (col x 0) 0 = varB x.length (fun i => ent x i 0) := by rw [pyVar_zero, col_length, at1_col_fun]
  have hc : Rpylib.Py.cov (col x 0) y 0 = covB x.length (fun i => ent x i 0) (at1 y) := by
    rw [pyCov_zero (col x 0) y x.length (col_length x 0) hy, at1_col_fun]
  have hv0 : 0 ≤ varB x.length (fun i => ent x i 0) := varB_nonneg _ _
  have hadj : ∀ β : Rat, adjusted [β] x y prices
      = (List.range x.length).map (adjust β (at1 prices 0) (fun i => ent x i 0) (at1 y)) := by
    intro β
    unfold adjusted
    apply List.map_congr_left; intro i _
    unfold adjustK adjust
    rw [hp, sumTo_succ, sumTo_zero]; simp [at1]
  have hX : Rpylib.Py.covMatrix (Rpylib.Py.transpose x) 0 = [[Rpylib.Py.var (col x 0) 0]] := sigmaX_one x 0 hx hr
  have hXY : List.map (fun c => Rpylib.Py.cov c y 0) (Rpylib.Py.transpose x) = [Rpylib.Py.cov (col x 0) y 0] := sigmaXY_one x y 0 hx hr
  simp only [Rpylib.Src.C07.ControlVariates_helper_compute_coefficients, sigma_x_eq, sigma_xy_eq, hX, hXY, Bool.false_eq_true,
    if_false]
  simp only [List.map_cons, List.map_nil, List.flatten_cons, List.flatten_nil, List.append_nil, Rpylib.Py.rminList,
    List.foldl_nil]
  split_ifs with hg
  · -- the source falls back to b = 0; so does the model
    refine ⟨0, true, fun _ => ?_⟩
    first
      | rw [sub_vecMat_eq _ x y prices hx hk hr' hy, adjusted_zero _ x y prices (at1_zeros _) hy]
      | rw [sub_matVec_eq _ x y prices hr' hy, adjusted_zero _ x y prices (at1_zeros _) hy]
    have hb : bStar x.length (fun i => ent x i 0) (at1 y) = 0 := by
      unfold bStar
      rw [if_pos]
      rw [hv] at hg
      have h1 : Rpylib.Py.rabs (varB x.length (fun i => ent x i 0)) = varB x.length (fun i => ent x i 0) := by
        unfold Rpylib.Py.rabs; rw [if_neg (not_lt.mpr hv0)]
      have h2 : Rpylib.Stats.rabs (varB x.length (fun i => ent x i 0)) = varB x.length (fun i => ent x i 0) := by
        unfold Rpylib.Stats.rabs; rw [if_neg (not_lt.mpr hv0)]
      rw [h1] at hg
      rw [h2]; unfold Rpylib.Stats.guard
      have : (4951760157141521 : Rat) / 4951760157141521099596496896 < 1 / 1000000000000 := by norm_num
      linarith
    rw [hb, ← hadj 0, adjusted_zero [0] x y prices (by intro j; cases j <;> simp [at1]) hy]
  · apply Exists.intro; apply Exists.intro; intro hpinv
    first
      | rw [hpinv, sub_vecMat_eq _ x y prices hx hk hr' hy]
      | rw [hpinv, sub_matVec_eq _ x y prices hr' hy]
    have hb : bStar x.length (fun i => ent x i 0) (at1 y)
        = 1 / Rpylib.Py.var (col x 0) 0 * Rpylib.Py.cov (col x 0) y 0 := by
      unfold bStar
      rw [if_neg, hv, hc]
      · ring
      · rw [hv] at hg
        have h1 : Rpylib.Py.rabs (varB x.length (fun i => ent x i 0)) = varB x.length (fun i => ent x i 0) := by
          unfold Rpylib.Py.rabs; rw [if_neg (not_lt.mpr hv0)]
        have h2 : Rpylib.Stats.rabs (varB x.length (fun i => ent x i 0)) = varB x.length (fun i => ent x i 0) := by
          unfold Rpylib.Stats.rabs; rw [if_neg (not_lt.mpr hv0)]
        rw [h1] at hg
        rw [h2]; unfold Rpylib.Stats.guard
        intro hlt
        exact hwin ⟨not_lt.mp hg, hlt⟩
    rw [hb, ← hadj]
    apply adjusted_congr
    intro j
    cases j <;> simp [at1, Rpylib.Py.matVec, Rpylib.Py.dot]

/-- **the loop over the payoff components = the model's `adjustVecRow`** (scalar prices), for every model kernel `ker` that
    returns, for each component, the coefficient vector the source's kernel computes from that component's columns -/
theorem src_loop_eq_model_adjustVecRow (X : List (List (List Rat))) (Y : List (List Rat)) (k : Nat)
    (hX : X ≠ []) (hk : 0 < k) (hd : 0 < d)
    (hXs : ∀ Xi ∈ X, Xi.length = k ∧ Rect Xi d) (hY : Y.length = X.length) (hYr : Rect Y d) (hp : prices.length = k) :
    ∃ bs : Nat → List Rat, ∀ ker : Kernel,
      (∀ c, c < d → ∀ j, j < k → ker X.length (fun j i => ent (slab X c) i j) (fun i => ent Y i c) j = at1 (bs c) j) →
      ∀ c, c < d → col (ControlVariates_compute_coefficients_scalar_prices X Y prices pinv raises) c
          = adjustVecRow k ker (fun j _ => at1 prices j) (fun j c i => ent (slab X c) i j) (fun c i => ent Y i c) X.length c := by
  have hslab : ∀ c, slab X c ≠ [] := by intro c h; apply hX; simpa [slab] using h
  have hsr : ∀ c, Rect (slab X c) prices.length := fun c => by rw [hp]; exact slab_rect X k c (fun Xi h => (hXs Xi h).1)
  have hform := fun c => src_helper_form pinv raises (slab X c) (col Y c) prices (hslab c) (by omega) (hsr c)
    (by rw [col_length, slab_length, hY])
  have aux : ∀ (c : Nat) (hc : c < d) (b : List Rat) (ker : Kernel),
      ControlVariates_helper_compute_coefficients (slab X c) (col Y c) prices pinv raises = adjusted b (slab X c) (col Y c) prices →
      (∀ j, j < k → ker X.length (fun j i => ent (slab X c) i j) (fun i => ent Y i c) j = at1 b j) →
      col (ControlVariates_compute_coefficients_scalar_prices X Y prices pinv raises) c
          = adjustVecRow k ker (fun j _ => at1 prices j) (fun j c i => ent (slab X c) i j) (fun c i => ent Y i c) X.length c := by
    intro c hc b ker hb hker
    rw [src_compute_coefficients_scalar_prices d pinv raises prices X Y k hX hk hd hXs hY hYr hp,
      col_table (fun i c => at1 (ControlVariates_helper_compute_coefficients (slab X c) (col Y c) prices pinv raises) i) _ d c hc]
    have hlen := src_helper_length pinv raises (slab X c) (col Y c) prices (hslab c) (by omega) (hsr c)
      (by rw [col_length, slab_length, hY])
    rw [slab_length] at hlen
    have hcol : (List.range X.length).map (fun i => at1 (ControlVariates_helper_compute_coefficients (slab X c) (col Y c) prices pinv raises) i)
        = ControlVariates_helper_compute_coefficients (slab X c) (col Y c) prices pinv raises := by
      conv_rhs => rw [list_eq_map_at1 (ControlVariates_helper_compute_coefficients (slab X c) (col Y c) prices pinv raises), hlen]
    rw [hcol, hb, adjustVecRow_eq]
    unfold adjusted adjustVec
    rw [slab_length, hp, at1_col_fun]
    apply List.map_congr_left; intro i _
    exact congrFun (adjustK_congr_coef k _ _ _ _ _ (fun j hj => (hker j hj).symm)) i
  exact ⟨fun c => Classical.choose (hform c), fun ker hker c hc =>
    aux c hc _ ker (Classical.choose_spec (hform c)).1 (hker c hc)⟩

end Rpylib.SrcTie.C07
