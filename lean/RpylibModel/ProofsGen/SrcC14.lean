/-
C14 — source-derived tie.  `RpylibModel/Generated/SrcC14.lean` is rewritten on every run by harness/srctie.py from the
text of rpylib/distribution/pairing.py in /repo's current working tree (translator: harness/py2lean.py).

Part 1 (`*_cast`): the hand-written model (Model/Pairing.lean, over `Nat`, truncated subtraction) read in `Int` — this is
where the non-negativity of every subtraction of the code is shown; these statements only mention the model.
Part A: translated source = model on the naturals.  The proofs unfold the translated definitions and finish with normalising
tactics (`push_cast`, `ring`, `linarith`, `omega`, `split_ifs`), so that a harmless rewrite of the Python text
(`x**2` ↔ `x*x`, operands of `+` swapped, `max(x, y)` ↔ `max(y, x)`, a renamed local) does not break them.
Part B: the statements of the property directly on the translated source (Part A + the model's theorems).
-/
import RpylibModel.Generated.SrcC14
import RpylibModel.Proofs.Lemmas.C14Fold

set_option linter.unusedTactic false
set_option linter.unreachableTactic false
set_option linter.unusedSimpArgs false
set_option linter.unnecessarySeqFocus false

namespace Rpylib.SrcTie.C14
open Rpylib.Src.C14 Rpylib.Py Rpylib.Pairing

/-! ### Python built-ins on the naturals -/

theorem isqrt_eq {a : Int} {n : Nat} (h : a = (n : Int)) : isqrt a = ((Nat.sqrt n : Nat) : Int) := by
  subst h; simp [isqrt]

theorem isqrt_natCast (n : Nat) : isqrt (n : Int) = ((Nat.sqrt n : Nat) : Int) := isqrt_eq rfl

theorem fdiv_two (a : Int) : Int.fdiv a 2 = a / 2 := Int.fdiv_eq_ediv_of_nonneg a (by decide)

theorem fmod_two (a : Int) : Int.fmod a 2 = a % 2 := Int.fmod_eq_emod_of_nonneg a (by decide)

private theorem sq_succ (m : Nat) : (m + 1) * (m + 1) = m * m + 2 * m + 1 := by ring

private theorem tri (s : Nat) : ∃ t, s * s + s = 2 * t := by
  induction s with
  | zero => exact ⟨0, rfl⟩
  | succ n ih =>
    obtain ⟨t, ht⟩ := ih
    exact ⟨t + n + 1, by rw [sq_succ]; omega⟩

/-! ### Part 1: the model read in `Int` (statements about the model only) -/

theorem cantorPair_cast (x y : Nat) :
    ((cantorPair x y : Nat) : Int) = (((x : Int) + y) ^ 2 + 3 * x + y) / 2 := by
  unfold cantorPair; push_cast; rfl

/-- both truncated subtractions of `cantorProj` are exact -/
theorem cantorProj_cast (z : Nat) :
    (((cantorProj z).1 : Nat) : Int)
        = (z : Int) - ((((Nat.sqrt (1 + 8 * z) : Nat) : Int) - 1) / 2) * ((((Nat.sqrt (1 + 8 * z) : Nat) : Int) - 1) / 2 + 1) / 2
    ∧ (((cantorProj z).2 : Nat) : Int)
        = ((((Nat.sqrt (1 + 8 * z) : Nat) : Int) - 1) / 2) * ((((Nat.sqrt (1 + 8 * z) : Nat) : Int) - 1) / 2 + 3) / 2 - z := by
  unfold cantorProj
  have h1 := Nat.sqrt_le (1 + 8 * z)
  have h2 := Nat.lt_succ_sqrt (1 + 8 * z)
  have h0 : 1 ≤ Nat.sqrt (1 + 8 * z) := Nat.le_sqrt.mpr (by omega)
  generalize Nat.sqrt (1 + 8 * z) = r at *
  have hW : ((r : Int) - 1) / 2 = (((r - 1) / 2 : Nat) : Int) := by omega
  rw [hW]
  generalize (r - 1) / 2 = w at *
  have hw : 2 * w + 1 ≤ r ∧ r ≤ 2 * w + 2 := by
    have : ((r : Int) - 1) / 2 = w := hW
    omega
  obtain ⟨t, ht⟩ := tri w
  have lo : (2 * w + 1) * (2 * w + 1) ≤ r * r := Nat.mul_le_mul (by omega) (by omega)
  have hi : (r + 1) * (r + 1) ≤ (2 * w + 3) * (2 * w + 3) := Nat.mul_le_mul (by omega) (by omega)
  have e1 : (2 * w + 1) * (2 * w + 1) = 8 * t + 1 := by
    have : (2 * w + 1) * (2 * w + 1) = 4 * (w * w + w) + 1 := by ring
    rw [this, ht]; ring
  have e3 : (2 * w + 3) * (2 * w + 3) = 8 * t + 8 * w + 9 := by
    have : (2 * w + 3) * (2 * w + 3) = 4 * (w * w + w) + 8 * w + 9 := by ring
    rw [this, ht]; ring
  rw [Nat.succ_eq_add_one] at h2
  have b1 : t ≤ z := by omega
  have b2 : z ≤ t + w := by omega
  have a1 : w * (w + 1) / 2 = t := by rw [Nat.mul_add]; omega
  have a2 : w * (w + 3) / 2 = t + w := by rw [Nat.mul_add]; omega
  have c1 : (w : Int) * ((w : Int) + 1) / 2 = t := by rw [← a1]; push_cast; rfl
  have c2 : (w : Int) * ((w : Int) + 3) / 2 = (t : Int) + w := by
    have : (w : Int) * ((w : Int) + 3) / 2 = ((w * (w + 3) / 2 : Nat) : Int) := by push_cast; rfl
    rw [this, a2]; push_cast; rfl
  dsimp only
  rw [a1, a2, c1, c2]
  constructor <;> omega

theorem rs2Pair_cast (x y : Nat) :
    ((rs2Pair x y : Nat) : Int)
      = if x < y then (y : Int) * (y + 1) + x - y else (x : Int) * (x + 1) + x - y := by
  unfold rs2Pair
  split
  · next h =>
    have hmax : max x y = y := by omega
    have hle : y ≤ y * (y + 1) + x := by rw [Nat.mul_add]; omega
    rw [hmax, Nat.cast_sub hle]; push_cast; rfl
  · next h =>
    have hmax : max x y = x := by omega
    have hle : y ≤ x * (x + 1) + x := by rw [Nat.mul_add]; omega
    rw [hmax, Nat.cast_sub hle]; push_cast; rfl

private theorem sqrt_facts (z : Nat) :
    ((Nat.sqrt z : Nat) : Int) ^ 2 ≤ z ∧ (z : Int) - ((Nat.sqrt z : Nat) : Int) ^ 2 ≤ 2 * ((Nat.sqrt z : Nat) : Int)
      ∧ ((z - Nat.sqrt z ^ 2 : Nat) : Int) = (z : Int) - ((Nat.sqrt z : Nat) : Int) ^ 2 := by
  have h1 := Nat.sqrt_le z
  have h2 := Nat.lt_succ_sqrt z
  generalize Nat.sqrt z = m at *
  rw [Nat.succ_eq_add_one, sq_succ] at h2
  have e : m ^ 2 = m * m := Nat.pow_two m
  have e' : (m : Int) ^ 2 = ((m * m : Nat) : Int) := by push_cast; ring
  rw [e, e']
  omega

theorem rs2Proj_cast (z : Nat) :
    ((((rs2Proj z).1 : Nat) : Int), (((rs2Proj z).2 : Nat) : Int))
      = if (z : Int) - ((Nat.sqrt z : Nat) : Int) ^ 2 < ((Nat.sqrt z : Nat) : Int)
        then ((z : Int) - ((Nat.sqrt z : Nat) : Int) ^ 2, ((Nat.sqrt z : Nat) : Int))
        else (((Nat.sqrt z : Nat) : Int), 2 * ((Nat.sqrt z : Nat) : Int) - ((z : Int) - ((Nat.sqrt z : Nat) : Int) ^ 2)) := by
  obtain ⟨f1, f2, f3⟩ := sqrt_facts z
  unfold rs2Proj
  dsimp only
  generalize Nat.sqrt z = m at *
  generalize z - m ^ 2 = z1 at *
  by_cases h : z1 < m
  · have h' : (z : Int) - (m : Int) ^ 2 < m := by omega
    simp only [h, h', if_true, f3]
  · have h' : ¬ ((z : Int) - (m : Int) ^ 2 < m) := by omega
    simp only [h, h', if_false]
    congr 1
    omega

theorem szudzikPair_cast (x y : Nat) :
    ((szudzikPair x y : Nat) : Int) = if x ≥ y then (x : Int) ^ 2 + x + y else (x : Int) + (y : Int) ^ 2 := by
  unfold szudzikPair
  split <;> push_cast <;> rfl

theorem szudzikProj_cast (z : Nat) :
    ((((szudzikProj z).1 : Nat) : Int), (((szudzikProj z).2 : Nat) : Int))
      = if (z : Int) - ((Nat.sqrt z : Nat) : Int) ^ 2 < ((Nat.sqrt z : Nat) : Int)
        then ((z : Int) - ((Nat.sqrt z : Nat) : Int) ^ 2, ((Nat.sqrt z : Nat) : Int))
        else (((Nat.sqrt z : Nat) : Int), ((z : Int) - ((Nat.sqrt z : Nat) : Int) ^ 2) - ((Nat.sqrt z : Nat) : Int)) := by
  obtain ⟨f1, f2, f3⟩ := sqrt_facts z
  unfold szudzikProj
  dsimp only
  generalize Nat.sqrt z = m at *
  generalize z - m ^ 2 = z1 at *
  by_cases h : z1 < m
  · have h' : (z : Int) - (m : Int) ^ 2 < m := by omega
    simp only [h, h', if_true, f3]
  · have h' : ¬ ((z : Int) - (m : Int) ^ 2 < m) := by omega
    simp only [h, h', if_false]
    congr 1
    omega

theorem pepisPair_cast (x y : Nat) :
    ((pepisPair x y : Nat) : Int) = (2 : Int) ^ y * (2 * x + 1) - 1 := by
  unfold pepisPair
  have hp : 1 ≤ 2 ^ y * (2 * x + 1) := Nat.mul_pos (Nat.two_pow_pos y) (by omega)
  rw [Nat.cast_sub hp]; push_cast; rfl

theorem natCast_ediv_two (z : Nat) : (z : Int) / 2 = ((z / 2 : Nat) : Int) := by omega

theorem natCast_emod_two (z : Nat) : (z : Int) % 2 = ((z % 2 : Nat) : Int) := by omega

/-! ### Part A: translated source = model on the naturals -/

/-- closes an equation of integers (or of pairs of integers) whose two sides agree as ring expressions, possibly below
`/ 2`, or whose hypotheses (the branch conditions) are contradictory -/
macro "int_close" : tactic =>
  `(tactic| first | rfl | contradiction | ring1 | (ring_nf; done) | omega | linarith)

macro "src_close" : tactic =>
  `(tactic| first | int_close | (refine Prod.ext ?_ ?_ <;> (try dsimp only) <;> int_close))

/-- `a = ↑n` for an integer expression `a` built from casts of naturals -/
macro "cast_ring" : tactic => `(tactic| (push_cast <;> ring1))

theorem src_cantor_pairing_eq_model (x y : Nat) : Cantor_pairing2d x y = ((cantorPair x y : Nat) : Int) := by
  rw [cantorPair_cast]
  simp only [Cantor_pairing2d, fdiv_two] <;> src_close

theorem src_cantor_projection_eq_model (z : Nat) :
    Cantor_projection2d z = ((((cantorProj z).1 : Nat) : Int), (((cantorProj z).2 : Nat) : Int)) := by
  obtain ⟨h1, h2⟩ := cantorProj_cast z
  rw [h1, h2]
  simp (disch := cast_ring) only [Cantor_projection2d, fdiv_two, isqrt_eq (n := 1 + 8 * z)] <;> src_close

theorem src_rs_pairing_eq_model (x y : Nat) : RosenbergStrong_pairing2d x y = ((rs2Pair x y : Nat) : Int) := by
  rw [rs2Pair_cast]
  -- the tie `x = y` apart: there `max(x, y)` and `max(y, x)` pick different (equal) operands
  rcases Nat.lt_trichotomy x y with h | rfl | h <;>
    simp only [RosenbergStrong_pairing2d, imax] <;> split_ifs <;> src_close

theorem src_rs_projection_eq_model (z : Nat) :
    RosenbergStrong_projection2d z = ((((rs2Proj z).1 : Nat) : Int), (((rs2Proj z).2 : Nat) : Int)) := by
  rw [rs2Proj_cast]
  simp only [RosenbergStrong_projection2d, isqrt_natCast] <;> split_ifs <;> src_close

theorem src_szudzik_pairing_eq_model (x y : Nat) : Szudzik_pairing2d x y = ((szudzikPair x y : Nat) : Int) := by
  rw [szudzikPair_cast]
  simp only [Szudzik_pairing2d] <;> split_ifs <;> src_close

theorem src_szudzik_projection_eq_model (z : Nat) :
    Szudzik_projection2d z = ((((szudzikProj z).1 : Nat) : Int), (((szudzikProj z).2 : Nat) : Int)) := by
  rw [szudzikProj_cast]
  simp only [Szudzik_projection2d, isqrt_natCast] <;> split_ifs <;> src_close

/-- any fuel above `z` suffices (the recursion halves `z`, and only when `z` is odd) -/
theorem src_pepis_aux_k_fuel (fuel : Nat) :
    ∀ z : Nat, z < fuel → PepisKalmar_aux_k_fuel fuel z = ((pepisK z : Nat) : Int) := by
  induction fuel with
  | zero => intro z h; omega
  | succ f ih =>
    intro z h
    rw [pepisK]
    rcases Nat.mod_two_eq_zero_or_one z with hz | hz
    · simp only [PepisKalmar_aux_k_fuel, fdiv_two, fmod_two, natCast_ediv_two, natCast_emod_two, hz,
        Nat.cast_zero, Nat.cast_one] <;> split_ifs <;> int_close
    · have hq := ih (z / 2) (by omega)
      simp only [PepisKalmar_aux_k_fuel, fdiv_two, fmod_two, natCast_ediv_two, natCast_emod_two, hz, hq,
        Nat.cast_zero, Nat.cast_one] <;> split_ifs <;> int_close

theorem src_pepis_aux_j_fuel (fuel : Nat) :
    ∀ z : Nat, z < fuel → PepisKalmar_aux_j_fuel fuel z = ((pepisJ z : Nat) : Int) := by
  induction fuel with
  | zero => intro z h; omega
  | succ f ih =>
    intro z h
    rw [pepisJ]
    rcases Nat.mod_two_eq_zero_or_one z with hz | hz
    · simp only [PepisKalmar_aux_j_fuel, fdiv_two, fmod_two, natCast_ediv_two, natCast_emod_two, hz,
        Nat.cast_zero, Nat.cast_one] <;> split_ifs <;> int_close
    · have hq := ih (z / 2) (by omega)
      simp only [PepisKalmar_aux_j_fuel, fdiv_two, fmod_two, natCast_ediv_two, natCast_emod_two, hz, hq,
        Nat.cast_zero, Nat.cast_one] <;> split_ifs <;> int_close

theorem src_pepis_aux_k_eq_model (z : Nat) : PepisKalmar_aux_k z = ((pepisK z : Nat) : Int) := by
  simp only [PepisKalmar_aux_k]
  exact src_pepis_aux_k_fuel _ z (by omega)

theorem src_pepis_aux_j_eq_model (z : Nat) : PepisKalmar_aux_j z = ((pepisJ z : Nat) : Int) := by
  simp only [PepisKalmar_aux_j]
  exact src_pepis_aux_j_fuel _ z (by omega)

theorem src_pepis_pairing_eq_model (x y : Nat) : PepisKalmar_pairing2d x y = ((pepisPair x y : Nat) : Int) := by
  rw [pepisPair_cast]
  simp only [PepisKalmar_pairing2d, Int.toNat_natCast] <;> src_close

theorem src_pepis_projection_eq_model (z : Nat) :
    PepisKalmar_projection2d z = ((((pepisProj z).1 : Nat) : Int), (((pepisProj z).2 : Nat) : Int)) := by
  unfold pepisProj
  rcases Nat.mod_two_eq_zero_or_one z with hz | hz
  · simp only [PepisKalmar_projection2d, fdiv_two, fmod_two, natCast_ediv_two, natCast_emod_two, hz,
      Nat.cast_zero, Nat.cast_one] <;> split_ifs <;> src_close
  · simp only [PepisKalmar_projection2d, fdiv_two, fmod_two, natCast_ediv_two, natCast_emod_two, hz,
      src_pepis_aux_k_eq_model, src_pepis_aux_j_eq_model, Nat.cast_zero, Nat.cast_one] <;> split_ifs <;> src_close

theorem src_mapping_to_z_eq_model (n : Int) : mapping_to_z n = ((ofZ n : Nat) : Int) := by
  simp only [mapping_to_z, ofZ] <;> split_ifs <;> omega

theorem src_projection_to_z_eq_model (z : Nat) : projection_to_z z = toZ z := by
  simp only [projection_to_z, toZ, fdiv_two, fmod_two, natCast_ediv_two, natCast_emod_two] <;> src_close

/-- `PairingToZ1d.pair` on `[-L, R]` (`self.left = -L`, `self.right = R`, `_omitting_zero = o`): equal to the model's
`z1dPair` at every integer (the model needs no restriction on `x`, `L`, `R`, `o`) -/
theorem src_z1d_pair_eq_model_all (L R o : Nat) (x : Int) :
    PairingToZ1d_pair x (-(L : Int)) R o = z1dPair L R o x := by
  simp only [PairingToZ1d_pair, z1dPair, mapping_to_z, ofZ, iabs, imin] <;> split_ifs <;> omega

/-- the same on the domain of the property: `0 < L`, `0 < R`, `-L ≤ x ≤ R`, `o ∈ {0, 1}` -/
theorem src_z1d_pair_eq_model (L R o : Nat) (x : Int) (_hL : 0 < L) (_hR : 0 < R) (_ho : o ≤ 1)
    (_h1 : -(L : Int) ≤ x) (_h2 : x ≤ R) :
    PairingToZ1d_pair x (-(L : Int)) R o = z1dPair L R o x := src_z1d_pair_eq_model_all L R o x

/-! ### Part B: the property statements on the translated source -/

theorem src_cantor_pair_proj (z : Nat) :
    Cantor_pairing2d (Cantor_projection2d z).1 (Cantor_projection2d z).2 = z := by
  rw [src_cantor_projection_eq_model, src_cantor_pairing_eq_model, cantor_pair_proj]

theorem src_cantor_proj_pair (x y : Nat) : Cantor_projection2d (Cantor_pairing2d x y) = ((x : Int), (y : Int)) := by
  rw [src_cantor_pairing_eq_model, src_cantor_projection_eq_model, cantor_proj_pair]

theorem src_cantor_proj_nonneg (z : Nat) : 0 ≤ (Cantor_projection2d z).1 ∧ 0 ≤ (Cantor_projection2d z).2 := by
  rw [src_cantor_projection_eq_model]
  exact ⟨Int.natCast_nonneg _, Int.natCast_nonneg _⟩

theorem src_rs_pair_proj (z : Nat) :
    RosenbergStrong_pairing2d (RosenbergStrong_projection2d z).1 (RosenbergStrong_projection2d z).2 = z := by
  rw [src_rs_projection_eq_model, src_rs_pairing_eq_model, rs2_pair_proj]

theorem src_rs_proj_pair (x y : Nat) :
    RosenbergStrong_projection2d (RosenbergStrong_pairing2d x y) = ((x : Int), (y : Int)) := by
  rw [src_rs_pairing_eq_model, src_rs_projection_eq_model, rs2_proj_pair]

theorem src_rs_proj_nonneg (z : Nat) :
    0 ≤ (RosenbergStrong_projection2d z).1 ∧ 0 ≤ (RosenbergStrong_projection2d z).2 := by
  rw [src_rs_projection_eq_model]
  exact ⟨Int.natCast_nonneg _, Int.natCast_nonneg _⟩

theorem src_szudzik_pair_proj (z : Nat) :
    Szudzik_pairing2d (Szudzik_projection2d z).1 (Szudzik_projection2d z).2 = z := by
  rw [src_szudzik_projection_eq_model, src_szudzik_pairing_eq_model, szudzik_pair_proj]

theorem src_szudzik_proj_pair (x y : Nat) : Szudzik_projection2d (Szudzik_pairing2d x y) = ((x : Int), (y : Int)) := by
  rw [src_szudzik_pairing_eq_model, src_szudzik_projection_eq_model, szudzik_proj_pair]

theorem src_szudzik_proj_nonneg (z : Nat) : 0 ≤ (Szudzik_projection2d z).1 ∧ 0 ≤ (Szudzik_projection2d z).2 := by
  rw [src_szudzik_projection_eq_model]
  exact ⟨Int.natCast_nonneg _, Int.natCast_nonneg _⟩

theorem src_pepis_pair_proj (z : Nat) :
    PepisKalmar_pairing2d (PepisKalmar_projection2d z).1 (PepisKalmar_projection2d z).2 = z := by
  rw [src_pepis_projection_eq_model, src_pepis_pairing_eq_model, pepis_pair_proj]

theorem src_pepis_proj_pair (x y : Nat) :
    PepisKalmar_projection2d (PepisKalmar_pairing2d x y) = ((x : Int), (y : Int)) := by
  rw [src_pepis_pairing_eq_model, src_pepis_projection_eq_model, pepis_proj_pair]

theorem src_pepis_proj_nonneg (z : Nat) :
    0 ≤ (PepisKalmar_projection2d z).1 ∧ 0 ≤ (PepisKalmar_projection2d z).2 := by
  rw [src_pepis_projection_eq_model]
  exact ⟨Int.natCast_nonneg _, Int.natCast_nonneg _⟩

theorem src_fold_roundtrip :
    (∀ n : Int, projection_to_z (mapping_to_z n) = n) ∧ (∀ z : Nat, mapping_to_z (projection_to_z z) = z) := by
  constructor
  · intro n
    rw [src_mapping_to_z_eq_model, src_projection_to_z_eq_model, toZ_ofZ']
  · intro z
    rw [src_projection_to_z_eq_model, src_mapping_to_z_eq_model, ofZ_toZ']

/-- non-vacuity: concrete values through the translated source -/
example : Cantor_pairing2d 3 4 = 31 ∧ RosenbergStrong_pairing2d 3 4 = 19 ∧ Szudzik_pairing2d 3 4 = 19
    ∧ PepisKalmar_pairing2d 3 4 = 111 ∧ PepisKalmar_projection2d 111 = (3, 4)
    ∧ mapping_to_z (-3) = 6 ∧ projection_to_z 6 = -3 ∧ PairingToZ1d_pair 4 (-2) 5 1 = 5 := by decide

example : Cantor_projection2d 31 = (3, 4) ∧ RosenbergStrong_projection2d 19 = (3, 4) ∧ Szudzik_projection2d 19 = (3, 4) := by
  have h1 := src_cantor_proj_pair 3 4
  have h2 := src_rs_proj_pair 3 4
  have h3 := src_szudzik_proj_pair 3 4
  rw [show Cantor_pairing2d ((3 : Nat) : Int) ((4 : Nat) : Int) = 31 by decide] at h1
  rw [show RosenbergStrong_pairing2d ((3 : Nat) : Int) ((4 : Nat) : Int) = 19 by decide] at h2
  rw [show Szudzik_pairing2d ((3 : Nat) : Int) ((4 : Nat) : Int) = 19 by decide] at h3
  exact ⟨h1, h2, h3⟩

end Rpylib.SrcTie.C14
