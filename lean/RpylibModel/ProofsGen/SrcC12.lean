/-
C12 — source-derived tie for the rectangle mass of a copula model.  `RpylibModel/Generated/SrcC12.lean` is rewritten on every
run from the text of `volume`, `LevyCopulaModel._mass_1d`, `_mass_2d`, `_mass_3d`, `_mass_nd`
(rpylib/model/levycopulamodel.py) in /repo's current working tree.  The collaborators are function parameters,
universally quantified:
  `mti  : List Int → List Rat → Rat`   `self.margin_tail_integral(indices, x)`
  `mti1 : Int → Rat → Rat`             `self.marginal_tail_integral(i, x)`
  `f    : List Rat → Rat`              the function handed to `volume`
  `pinf ninf : Rat`                    `np.inf`, `-np.inf` in `_mass_nd` (two abstract points; §4)
  `sfi  : List Int`                    `self._full_indices`.

Obligations on the translated source
 (A) source = model:  `volume` is the model's inclusion-exclusion sum `Rpylib.Copula.volume` in EVERY dimension
     (`src_volume_eq_model`, induction on the dimension over `itertools.product([0,1], repeat=n)`);  `_mass_1d`, `_mass_2d`,
     `_mass_3d` are the model's `mass1d`, `mass2d`, `mass3d` on every rectangle that does not contain the origin (the
     rectangles the property speaks about; the origin boxes are in the alignment file ProofsGen/SrcC12Model.lean);
     `_mass_nd` is the model's general recursion `massNd` in EVERY dimension, for every index list without repetition and
     every rectangle, origin boxes included (`src_massNd_eq_model`, induction on the list of coordinates).
 (B) the property's statements on the translated definitions:
     * `volume`: peels one coordinate at a time, is additive when the rectangle is split along ANY coordinate in EVERY
       dimension, gives 0 to an empty side, is linear, is the product of the increments for a product function; d = 1, 2, 3
       written out;
     * fast paths = general formula: on rectangles without a straddling side `_mass_2d = +volume`, `_mass_3d = −volume`,
       `_mass_1d = −volume` of the tail integral (`eps * volume`, levycopulamodel.py:193-196); on every sign pattern
       `_mass_2d`, `_mass_3d` = the general recursion `massNd`;
     * additivity under a split of any side at `c ≠ 0` (d = 2, 3);
     * margins: a coordinate over the whole line gives the mass of the sub-family of the others; the straddling
       corrections are exactly the masses the general recursion prescribes (sub-family mass minus the two half-infinite
       rectangles);
     * non-negativity from the 2- and 3-increasing property of the copula, and with C11's theorems for the Clayton copula
       with nothing left assumed of the copula;
     * `indices=None` is the full index set; sub-families of size 1 / 2 are dispatched to the lower-dimensional paths;
     * `_mass_nd`, every dimension: additive under a split of any side at `c ≠ 0`, a coordinate over the whole line can be
       erased, an empty side gives 0; and source against source: `_mass_2d`, `_mass_3d` = `_mass_nd` on every sign pattern.
 Only `src_volume_eq_spec`, `src_mass{1,2,3}d_eq_model`, the orthant / default-index / sub-family lemmas and `nd_step_base`,
 `nd_step_rec` look at the generated terms; they normalise (`simp`, case analysis on the atoms `a_k < 0`, `0 < b_k`,
 `ring1`, congruence lemmas quantified over the written form of a comprehension) instead of matching syntax.
-/
import RpylibModel.Generated.SrcC12
import RpylibModel.Model.CopulaMass
import RpylibModel.Proofs.Lemmas.C12Nd
import RpylibModel.Proofs.C12
import Mathlib.Tactic.Linarith
import Mathlib.Tactic.Ring
import Mathlib.Algebra.Order.Field.Rat

set_option linter.unusedSimpArgs false
set_option linter.unusedVariables false
set_option linter.unusedTactic false
set_option linter.unnecessarySeqFocus false
set_option linter.unreachableTactic false

namespace Rpylib.SrcTie.C12
open Rpylib.Src.C12 Rpylib.Py

/-! ## 1. Lists: folds as sums, `itertools.product([0, 1], repeat=n)`, corner selection -/

/-- a loop `res += g(x)` is a sum, whatever the algebraic form of the update -/
theorem foldl_add_eq_of_mem {α : Type} (body : Rat → α → Rat) (g : α → Rat) (l : List α)
    (h : ∀ st, ∀ x ∈ l, body st x = st + g x) (init : Rat) :
    List.foldl body init l = init + (l.map g).sum := by
  induction l generalizing init with
  | nil => simp
  | cons x xs ih =>
    simp only [List.foldl_cons, List.map_cons, List.sum_cons]
    rw [h init x (List.mem_cons_self ..), ih (fun st y hy => h st y (List.mem_cons_of_mem _ hy))]
    ring

theorem sum_map_neg {α : Type} (g : α → Rat) (l : List α) : (l.map (fun x => -(g x))).sum = -(l.map g).sum := by
  induction l with
  | nil => simp
  | cons x xs ih => simp only [List.map_cons, List.sum_cons, ih]; ring

theorem product01_succ (n : Nat) :
    product [(0 : Int), 1] (n + 1) =
      (product [(0 : Int), 1] n).map (fun p => 0 :: p) ++ (product [(0 : Int), 1] n).map (fun p => 1 :: p) := by
  simp [product]

theorem product01_bits (n : Nat) : ∀ p ∈ product [(0 : Int), 1] n, (∀ q ∈ p, q = 0 ∨ q = 1) ∧ p.length = n := by
  induction n with
  | zero => intro p hp; simp [product] at hp; subst hp; simp
  | succ n ih =>
    intro p hp
    rw [product01_succ] at hp
    simp only [List.mem_append, List.mem_map] at hp
    rcases hp with ⟨p', hp', rfl⟩ | ⟨p', hp', rfl⟩
    · obtain ⟨h1, h2⟩ := ih p' hp'
      exact ⟨by intro q hq; simp at hq; rcases hq with rfl | hq; exact Or.inl rfl; exact h1 q hq, by simp [h2]⟩
    · obtain ⟨h1, h2⟩ := ih p' hp'
      exact ⟨by intro q hq; simp at hq; rcases hq with rfl | hq; exact Or.inr rfl; exact h1 q hq, by simp [h2]⟩

/-- the corner of `[a, b]` selected by the bits `p`: `a_i` where `p_i = 0`, `b_i` where `p_i = 1` (as long as all three lists last) -/
def sel : List Int → List Rat → List Rat → List Rat
  | p :: ps, a :: as, b :: bs => (if p = 0 then a else b) :: sel ps as bs
  | _, _, _ => []

/-- any way of writing "`a_i` if the bit is 0, `b_i` if it is 1" over `zip(p, a, b)` is `sel` -/
theorem map_zip_eq_sel (h : Int × Rat × Rat → Rat) (h0 : ∀ x y, h (0, x, y) = x) (h1 : ∀ x y, h (1, x, y) = y) :
    ∀ (p : List Int) (a b : List Rat), (∀ q ∈ p, q = 0 ∨ q = 1) → List.map h (List.zip p (List.zip a b)) = sel p a b
  | [], _, _, _ => by simp [sel]
  | _ :: _, [], _, _ => by simp [sel]
  | _ :: _, _ :: _, [], _ => by simp [sel]
  | p :: ps, a :: as, b :: bs, hp => by
    have ih := map_zip_eq_sel h h0 h1 ps as bs (fun q hq => hp q (List.mem_cons_of_mem _ hq))
    simp only [List.zip_cons_cons, List.map_cons, sel, ih]
    rcases hp p (List.mem_cons_self ..) with rfl | rfl
    · simp [h0]
    · simp [h1]

/-- the sign `(-1)^(n - Σp)` of a corner -/
def sgn (n s : Int) : Rat := if (n - s) % 2 = 0 then 1 else -1

theorem sgn_succ_zero (n s : Int) : sgn (n + 1) (0 + s) = - sgn n s := by
  unfold sgn; split_ifs <;> first | omega | simp
theorem sgn_succ_one (n s : Int) : sgn (n + 1) (1 + s) = sgn n s := by
  unfold sgn; split_ifs <;> first | omega | simp

/-- the inclusion-exclusion sum written on the bit vectors -/
def volSpec (f : List Rat → Rat) (a b : List Rat) : Rat :=
  ((product [(0 : Int), 1] a.length).map (fun p => sgn a.length p.sum * f (sel p a b))).sum

theorem volSpec_nil (f : List Rat → Rat) : volSpec f [] [] = f [] := by
  simp [volSpec, product, sel, sgn]

theorem volSpec_cons (f : List Rat → Rat) (x y : Rat) (xs ys : List Rat) :
    volSpec f (x :: xs) (y :: ys) = volSpec (fun t => f (y :: t)) xs ys - volSpec (fun t => f (x :: t)) xs ys := by
  unfold volSpec
  simp only [List.length_cons, product01_succ, List.map_append, List.map_map, List.sum_append, Function.comp_def,
    List.sum_cons, sel, if_true, one_ne_zero, if_false, Nat.cast_add, Nat.cast_one, sgn_succ_zero, sgn_succ_one]
  simp only [neg_mul, sum_map_neg]
  ring

/-! ## 2. `volume` (levycopulamodel.py:24-44) -/

theorem fmod_two (z : Int) : Int.fmod z 2 = z % 2 := Int.fmod_eq_emod_of_nonneg z (by decide)

/-- the translated loop is the inclusion-exclusion sum over the bit vectors -/
theorem src_volume_eq_spec (f : List Rat → Rat) (a b : List Rat) : volume f a b = volSpec f a b := by
  unfold volume volSpec
  simp only [Int.toNat_natCast]
  rw [foldl_add_eq_of_mem _ (fun p => sgn a.length p.sum * f (sel p a b))]
  · simp
  · intro st p hp
    obtain ⟨hbits, hlen⟩ := product01_bits _ p hp
    try dsimp only
    rw [map_zip_eq_sel _ (by intros; simp) (by intros; simp) p a b hbits]
    simp only [sgn, fmod_two]
    split_ifs <;> first | omega | (push_cast; ring1)

theorem volSpec_eq_model : ∀ (a b : List Rat) (f : List Rat → Rat), a.length = b.length →
    volSpec f a b = Rpylib.Copula.volume f a b
  | [], [], f, _ => by rw [volSpec_nil, Rpylib.CopulaMass.volume_nil]
  | [], _ :: _, _, h => by simp at h
  | _ :: _, [], _, h => by simp at h
  | x :: xs, y :: ys, f, h => by
    have hl : xs.length = ys.length := by simpa using h
    rw [volSpec_cons, Rpylib.CopulaMass.volume_cons, volSpec_eq_model xs ys _ hl, volSpec_eq_model xs ys _ hl]

/-- **(A) `volume` = the model's inclusion-exclusion sum, every dimension** (`Rpylib.Copula.volume`, the corner sum the
    general mass formula `massNd` of the hand-written model is built on) -/
theorem src_volume_eq_model (f : List Rat → Rat) (a b : List Rat) (h : a.length = b.length) :
    volume f a b = Rpylib.Copula.volume f a b := by
  rw [src_volume_eq_spec, volSpec_eq_model a b f h]

example : ([-1, 2, 1/2] : List Rat).length = ([3, 5, 7/2] : List Rat).length := rfl

/-! ### (B) what C12 needs of `volume`, on the translated definition, every dimension -/

/-- dimension 0: the value of the function -/
theorem src_volume_nil (f : List Rat → Rat) : volume f [] [] = f [] := by
  rw [src_volume_eq_spec, volSpec_nil]

/-- one coordinate peels off as "upper end minus lower end" (no hypothesis on the lengths) -/
theorem src_volume_cons (f : List Rat → Rat) (x y : Rat) (xs ys : List Rat) :
    volume f (x :: xs) (y :: ys) = volume (fun t => f (y :: t)) xs ys - volume (fun t => f (x :: t)) xs ys := by
  simp only [src_volume_eq_spec, volSpec_cons]

/-- **additivity of the corner sum when the rectangle is split along ANY coordinate, every dimension**:
    coordinate `k = pa.length` is split at `c` (no order condition: the identity is algebraic) -/
theorem src_volume_additive_split (f : List Rat → Rat) (lo c hi : Rat) :
    ∀ (pa pb sa sb : List Rat), pa.length = pb.length →
      volume f (pa ++ lo :: sa) (pb ++ hi :: sb) =
        volume f (pa ++ lo :: sa) (pb ++ c :: sb) + volume f (pa ++ c :: sa) (pb ++ hi :: sb) := by
  intro pa
  induction pa generalizing f with
  | nil =>
    intro pb sa sb h
    have : pb = [] := List.length_eq_zero_iff.mp (by simpa using h.symm)
    subst this
    simp only [List.nil_append, src_volume_cons]; ring
  | cons x pa ih =>
    intro pb sa sb h
    cases pb with
    | nil => simp at h
    | cons y pb =>
      have hl : pa.length = pb.length := by simpa using h
      simp only [List.cons_append, src_volume_cons]
      rw [ih (fun t => f (y :: t)) pb sa sb hl, ih (fun t => f (x :: t)) pb sa sb hl]; ring

/-- an empty side gives volume 0, every dimension, any coordinate -/
theorem src_volume_empty_side (f : List Rat → Rat) (c : Rat) (pa pb sa sb : List Rat) (h : pa.length = pb.length) :
    volume f (pa ++ c :: sa) (pb ++ c :: sb) = 0 := by
  have := src_volume_additive_split f c c c pa pb sa sb h
  linarith

/-- a function that does not depend on coordinate `k` has volume 0 (what makes the tail integrals' vanishing at
    ±∞ remove the half-infinite corner terms) — stated for the first coordinate -/
theorem src_volume_const_first (f : List Rat → Rat) (x y : Rat) (xs ys : List Rat) (h : ∀ t, f (x :: t) = f (y :: t)) :
    volume f (x :: xs) (y :: ys) = 0 := by
  rw [src_volume_cons]
  have : (fun t => f (x :: t)) = fun t => f (y :: t) := funext h
  rw [this]; ring

/-- d = 1, 2, 3 written out: the signed corner sums of the fast paths -/
theorem src_volume_1d (f : List Rat → Rat) (a b : Rat) : volume f [a] [b] = f [b] - f [a] := by
  simp only [src_volume_cons, src_volume_nil]

theorem src_volume_2d (f : List Rat → Rat) (a1 a2 b1 b2 : Rat) :
    volume f [a1, a2] [b1, b2] = f [b1, b2] - f [b1, a2] - f [a1, b2] + f [a1, a2] := by
  simp only [src_volume_cons, src_volume_nil]; ring

theorem src_volume_3d (f : List Rat → Rat) (a1 a2 a3 b1 b2 b3 : Rat) :
    volume f [a1, a2, a3] [b1, b2, b3] =
      f [b1, b2, b3] - f [a1, b2, b3] - f [b1, a2, b3] - f [b1, b2, a3]
        + f [a1, a2, b3] + f [a1, b2, a3] + f [b1, a2, a3] - f [a1, a2, a3] := by
  simp only [src_volume_cons, src_volume_nil]; ring

/-- the corner sum is linear in the function -/
theorem src_volume_smul (c : Rat) (f : List Rat → Rat) (a b : List Rat) :
    volume (fun t => c * f t) a b = c * volume f a b := by
  simp only [src_volume_eq_spec, volSpec]
  generalize product [(0 : Int), 1] a.length = l
  induction l with
  | nil => simp
  | cons p l ih => simp only [List.map_cons, List.sum_cons, ih]; ring

/-- a product function `t ↦ Π_i g_{k+i}(t_i)` and the product of its one-dimensional increments over a rectangle -/
def prodAt (g : Nat → Rat → Rat) (k : Nat) : List Rat → Rat
  | [] => 1
  | v :: t => g k v * prodAt g (k + 1) t
def prodIncr (g : Nat → Rat → Rat) (k : Nat) : List Rat → List Rat → Rat
  | x :: xs, y :: ys => (g k y - g k x) * prodIncr g (k + 1) xs ys
  | _, _ => 1

/-- the corner sum of a product function is the product of the one-dimensional increments, every dimension: `volume`
    computes the mass of a rectangle under a product measure from its distribution function -/
theorem src_volume_product (g : Nat → Rat → Rat) :
    ∀ (a b : List Rat) (k : Nat), a.length = b.length → volume (prodAt g k) a b = prodIncr g k a b
  | [], [], k, _ => by simp [src_volume_nil, prodAt, prodIncr]
  | [], _ :: _, _, h => by simp at h
  | _ :: _, [], _, h => by simp at h
  | x :: xs, y :: ys, k, h => by
    have hl : xs.length = ys.length := by simpa using h
    rw [src_volume_cons]
    simp only [prodAt, prodIncr, src_volume_smul]
    rw [src_volume_product g xs ys (k + 1) hl]
    ring

/-! ## 3. `_mass_1d`, `_mass_2d`, `_mass_3d` (levycopulamodel.py:198-274) -/

section mass
open Rpylib.CopulaMass

theorem idx0 {α : Type} [Inhabited α] (x : α) (xs : List α) : idx (x :: xs) 0 = x := by simp [idx]
theorem idx1 {α : Type} [Inhabited α] (x y : α) (xs : List α) : idx (x :: y :: xs) 1 = y := by simp [idx]
theorem idx2 {α : Type} [Inhabited α] (x y z : α) (xs : List α) : idx (x :: y :: z :: xs) 2 = z := by simp [idx]

/-- the tail-integral family the hand-written model is run on, made of the two collaborators of the translated code:
    `margin_tail_integral(indices, x)` and, on one-element index sets, `marginal_tail_integral(i, x)` (what
    `margin_tail_integral` itself returns there, levycopulamodel.py:305-307) -/
def tailOf (mti : List Int → List Rat → Rat) (mti1 : Int → Rat → Rat) : Tail Rat Rat :=
  fun I x => match I, x with
    | [i], [v] => mti1 (i : Int) v
    | _, _ => mti (I.map (fun (i : Nat) => (i : Int))) x

variable (mti : List Int → List Rat → Rat) (mti1 : Int → Rat → Rat)

theorem src_mass1d_eq_model (i : Nat) (a b : Rat) :
    LevyCopulaModel_mass_1d a b i mti1 = mass1d (tailOf mti mti1) i a b := by
  simp only [LevyCopulaModel_mass_1d, mass1d, tailOf, src_volume_1d]
  try ring1

theorem src_mass2d_eq_model (i1 i2 : Nat) (a1 a2 b1 b2 : Rat) (h : ¬ ((a1 < 0 ∧ 0 < b1) ∧ (a2 < 0 ∧ 0 < b2))) :
    LevyCopulaModel_mass_2d [a1, a2] [b1, b2] [(i1 : Int), (i2 : Int)] false mti mti1 =
      mass2d (tailOf mti mti1) 0 [i1, i2] [a1, a2] [b1, b2] := by
  by_cases h1 : a1 < 0 <;> by_cases h2 : 0 < b1 <;> by_cases h3 : a2 < 0 <;> by_cases h4 : 0 < b2 <;>
  first
  | (exfalso; apply h; constructor <;> constructor <;> assumption)
  | (simp [LevyCopulaModel_mass_2d, LevyCopulaModel_mass_1d, mass2d, mass1d, straddle, tailOf, idx0, idx1, h1, h2, h3, h4,
       src_volume_1d, src_volume_2d]
     try ring1)

theorem src_mass3d_eq_model (i1 i2 i3 : Nat) (a1 a2 a3 b1 b2 b3 : Rat)
    (h : ¬ ((a1 < 0 ∧ 0 < b1) ∧ (a2 < 0 ∧ 0 < b2) ∧ (a3 < 0 ∧ 0 < b3))) :
    LevyCopulaModel_mass_3d [a1, a2, a3] [b1, b2, b3] [(i1 : Int), (i2 : Int), (i3 : Int)] false mti mti1 =
      mass3d (tailOf mti mti1) 0 [i1, i2, i3] [a1, a2, a3] [b1, b2, b3] := by
  by_cases h1 : a1 < 0 <;> by_cases h2 : 0 < b1 <;> by_cases h3 : a2 < 0 <;> by_cases h4 : 0 < b2 <;>
  by_cases h5 : a3 < 0 <;> by_cases h6 : 0 < b3 <;>
  first
  | (exfalso; apply h; refine ⟨⟨?_, ?_⟩, ⟨?_, ?_⟩, ⟨?_, ?_⟩⟩ <;> assumption)
  | (simp [LevyCopulaModel_mass_3d, LevyCopulaModel_mass_2d, LevyCopulaModel_mass_1d, mass3d, mass2d, mass1d, cross,
       straddle, tailOf, idx0, idx1, idx2, h1, h2, h3, h4, h5, h6, src_volume_1d, src_volume_2d, src_volume_3d]
     try ring1)

/-! ### (B) what C12 says, on the translated fast paths.
  `Str a b` — the side `(a, b]` straddles 0;  `N`, `P` — any two points at which every tail integral vanishes
  (`VanishAtInf`): they stand for −∞, +∞ (the code passes `-np.inf`, `np.inf` to the very same functions; only the sign of a
  coordinate is ever inspected). -/

def Str (a b : Rat) : Prop := a < 0 ∧ 0 < b

theorem straddle_iff_Str (a b : Rat) : straddle (0 : Rat) a b = true ↔ Str a b := by simp [straddle, Str]
theorem straddle_false_iff (a b : Rat) : straddle (0 : Rat) a b = false ↔ ¬ Str a b := by
  rw [← straddle_iff_Str]; simp

/-- `_mass_1d` is the general formula `eps * volume` in dimension 1 (`eps = -1`) -/
theorem src_mass1d_eq_neg_volume (i : Int) (a b : Rat) :
    LevyCopulaModel_mass_1d a b i mti1 = -(volume (fun x => mti1 i (idx x 0)) [a] [b]) := by
  simp only [src_volume_1d, LevyCopulaModel_mass_1d, idx0]
  try ring1

/-- **fast path = general formula, no straddling side, d = 2**: `_mass_2d` is `+ volume` of the tail integral -/
theorem src_mass2d_orthant_eq_volume (I : List Int) (i1 i2 : Int) (hI : I = [i1, i2]) (a1 a2 b1 b2 : Rat)
    (s1 : ¬ Str a1 b1) (s2 : ¬ Str a2 b2) :
    LevyCopulaModel_mass_2d [a1, a2] [b1, b2] I false mti mti1 = volume (mti I) [a1, a2] [b1, b2] := by
  subst hI
  have s1' : ¬ (a1 < 0 ∧ 0 < b1) := s1
  have s2' : ¬ (a2 < 0 ∧ 0 < b2) := s2
  simp [src_volume_2d, LevyCopulaModel_mass_2d, LevyCopulaModel_mass_1d, idx0, idx1, s1', s2']
  try ring1

/-- **fast path = general formula, no straddling side, d = 3**: `_mass_3d` is `− volume` of the tail integral -/
theorem src_mass3d_orthant_eq_neg_volume (I : List Int) (i1 i2 i3 : Int) (hI : I = [i1, i2, i3])
    (a1 a2 a3 b1 b2 b3 : Rat) (s1 : ¬ Str a1 b1) (s2 : ¬ Str a2 b2) (s3 : ¬ Str a3 b3) :
    LevyCopulaModel_mass_3d [a1, a2, a3] [b1, b2, b3] I false mti mti1 = -(volume (mti I) [a1, a2, a3] [b1, b2, b3]) := by
  subst hI
  have s1' : ¬ (a1 < 0 ∧ 0 < b1) := s1
  have s2' : ¬ (a2 < 0 ∧ 0 < b2) := s2
  have s3' : ¬ (a3 < 0 ∧ 0 < b3) := s3
  simp [src_volume_3d, LevyCopulaModel_mass_3d, LevyCopulaModel_mass_2d, LevyCopulaModel_mass_1d, idx0, idx1, idx2,
    s1', s2', s3']
  try ring1

/-- `indices=None` is the full index set -/
theorem src_mass2d_default_indices (a b : List Rat) (J : List Int) :
    LevyCopulaModel_mass_2d a b J true mti mti1 = LevyCopulaModel_mass_2d a b [0, 1] false mti mti1 := by
  simp [LevyCopulaModel_mass_2d, idx0, idx1]

theorem src_mass3d_default_indices (a b : List Rat) (J : List Int) :
    LevyCopulaModel_mass_3d a b J true mti mti1 = LevyCopulaModel_mass_3d a b [0, 1, 2] false mti mti1 := by
  simp [LevyCopulaModel_mass_3d, idx0, idx1, idx2]

/-- sub-families: on an index set of size 1 / 2 the fast paths are the lower-dimensional fast paths -/
theorem src_mass2d_sub1 (i : Int) (a b : Rat) :
    LevyCopulaModel_mass_2d [a] [b] [i] false mti mti1 = LevyCopulaModel_mass_1d a b i mti1 := by
  simp [LevyCopulaModel_mass_2d, idx0]

theorem src_mass3d_sub2 (i j : Int) (a b : List Rat) :
    LevyCopulaModel_mass_3d a b [i, j] false mti mti1 = LevyCopulaModel_mass_2d a b [i, j] false mti mti1 := by
  simp [LevyCopulaModel_mass_3d]

theorem src_mass3d_sub1 (i : Int) (a b : Rat) :
    LevyCopulaModel_mass_3d [a] [b] [i] false mti mti1 = LevyCopulaModel_mass_1d a b i mti1 := by
  simp [LevyCopulaModel_mass_3d, LevyCopulaModel_mass_2d, idx0]

section general
variable (N P : Rat) (H : VanishAtInf (tailOf mti mti1) N P)
include H

/-- **fast path = general formula, d = 2, every sign pattern** (each side on the negative side, on the positive side or
    straddling; the rectangle does not contain the origin): `_mass_2d` equals the general recursion on straddling
    coordinates (`massNd` = `_mass_nd` of the hand-written model, built on the corner sum that `src_volume_eq_model`
    identifies with the translated `volume`) -/
theorem src_mass2d_fast_eq_general (i1 i2 : Nat) (a1 a2 b1 b2 : Rat) (h : ¬ (Str a1 b1 ∧ Str a2 b2)) :
    LevyCopulaModel_mass_2d [a1, a2] [b1, b2] [(i1 : Int), (i2 : Int)] false mti mti1 =
      massNd (tailOf mti mti1) 0 N P [i1, i2] [a1, a2] [b1, b2] := by
  rw [src_mass2d_eq_model mti mti1 i1 i2 a1 a2 b1 b2 h]
  exact (fast2d_eq_general _ 0 N P H i1 i2 a1 a2 b1 b2 (by simpa only [straddle_iff_Str] using h)).symm

/-- **fast path = general formula, d = 3, every sign pattern** (all 26 patterns of a rectangle not containing the origin) -/
theorem src_mass3d_fast_eq_general (i1 i2 i3 : Nat) (a1 a2 a3 b1 b2 b3 : Rat) (h : ¬ (Str a1 b1 ∧ Str a2 b2 ∧ Str a3 b3)) :
    LevyCopulaModel_mass_3d [a1, a2, a3] [b1, b2, b3] [(i1 : Int), (i2 : Int), (i3 : Int)] false mti mti1 =
      massNd (tailOf mti mti1) 0 N P [i1, i2, i3] [a1, a2, a3] [b1, b2, b3] := by
  rw [src_mass3d_eq_model mti mti1 i1 i2 i3 a1 a2 a3 b1 b2 b3 h]
  exact (fast3d_eq_general _ 0 N P H i1 i2 i3 a1 a2 a3 b1 b2 b3 (by simpa only [straddle_iff_Str] using h)).symm

end general

/-! #### additivity when the rectangle is split along a coordinate (split point ≠ 0; rectangle without the origin) -/

theorem Str_mono_left {a c b : Rat} (hcb : c < b) (s : Str a c) : Str a b := ⟨s.1, lt_trans s.2 hcb⟩
theorem Str_mono_right {a c b : Rat} (hac : a < c) (s : Str c b) : Str a b := ⟨lt_trans hac s.1, s.2⟩

theorem src_mass2d_additive_split1 (i1 i2 : Nat) (a1 a2 b1 b2 c : Rat) (hac : a1 < c) (hcb : c < b1) (hc : c ≠ 0)
    (h : ¬ (Str a1 b1 ∧ Str a2 b2)) :
    LevyCopulaModel_mass_2d [a1, a2] [b1, b2] [(i1 : Int), (i2 : Int)] false mti mti1 =
      LevyCopulaModel_mass_2d [a1, a2] [c, b2] [(i1 : Int), (i2 : Int)] false mti mti1 +
        LevyCopulaModel_mass_2d [c, a2] [b1, b2] [(i1 : Int), (i2 : Int)] false mti mti1 := by
  rw [src_mass2d_eq_model mti mti1 _ _ _ _ _ _ h,
    src_mass2d_eq_model mti mti1 _ _ _ _ _ _ (fun s => h ⟨Str_mono_left hcb s.1, s.2⟩),
    src_mass2d_eq_model mti mti1 _ _ _ _ _ _ (fun s => h ⟨Str_mono_right hac s.1, s.2⟩)]
  exact mass2d_additive_split1 _ 0 i1 i2 a1 a2 b1 b2 c hac hcb hc (by simpa only [straddle_iff_Str] using h)

theorem src_mass2d_additive_split2 (i1 i2 : Nat) (a1 a2 b1 b2 c : Rat) (hac : a2 < c) (hcb : c < b2) (hc : c ≠ 0)
    (h : ¬ (Str a1 b1 ∧ Str a2 b2)) :
    LevyCopulaModel_mass_2d [a1, a2] [b1, b2] [(i1 : Int), (i2 : Int)] false mti mti1 =
      LevyCopulaModel_mass_2d [a1, a2] [b1, c] [(i1 : Int), (i2 : Int)] false mti mti1 +
        LevyCopulaModel_mass_2d [a1, c] [b1, b2] [(i1 : Int), (i2 : Int)] false mti mti1 := by
  rw [src_mass2d_eq_model mti mti1 _ _ _ _ _ _ h,
    src_mass2d_eq_model mti mti1 _ _ _ _ _ _ (fun s => h ⟨s.1, Str_mono_left hcb s.2⟩),
    src_mass2d_eq_model mti mti1 _ _ _ _ _ _ (fun s => h ⟨s.1, Str_mono_right hac s.2⟩)]
  exact mass2d_additive_split2 _ 0 i1 i2 a1 a2 b1 b2 c hac hcb hc (by simpa only [straddle_iff_Str] using h)

theorem src_mass3d_additive_split1 (i1 i2 i3 : Nat) (a1 a2 a3 b1 b2 b3 c : Rat) (hac : a1 < c) (hcb : c < b1) (hc : c ≠ 0)
    (h : ¬ (Str a1 b1 ∧ Str a2 b2 ∧ Str a3 b3)) :
    LevyCopulaModel_mass_3d [a1, a2, a3] [b1, b2, b3] [(i1 : Int), (i2 : Int), (i3 : Int)] false mti mti1 =
      LevyCopulaModel_mass_3d [a1, a2, a3] [c, b2, b3] [(i1 : Int), (i2 : Int), (i3 : Int)] false mti mti1 +
        LevyCopulaModel_mass_3d [c, a2, a3] [b1, b2, b3] [(i1 : Int), (i2 : Int), (i3 : Int)] false mti mti1 := by
  rw [src_mass3d_eq_model mti mti1 _ _ _ _ _ _ _ _ _ h,
    src_mass3d_eq_model mti mti1 _ _ _ _ _ _ _ _ _ (fun s => h ⟨Str_mono_left hcb s.1, s.2⟩),
    src_mass3d_eq_model mti mti1 _ _ _ _ _ _ _ _ _ (fun s => h ⟨Str_mono_right hac s.1, s.2⟩)]
  exact mass3d_additive_split1 _ 0 i1 i2 i3 a1 a2 a3 b1 b2 b3 c hac hcb hc (by simpa only [straddle_iff_Str] using h)

theorem src_mass3d_additive_split2 (i1 i2 i3 : Nat) (a1 a2 a3 b1 b2 b3 c : Rat) (hac : a2 < c) (hcb : c < b2) (hc : c ≠ 0)
    (h : ¬ (Str a1 b1 ∧ Str a2 b2 ∧ Str a3 b3)) :
    LevyCopulaModel_mass_3d [a1, a2, a3] [b1, b2, b3] [(i1 : Int), (i2 : Int), (i3 : Int)] false mti mti1 =
      LevyCopulaModel_mass_3d [a1, a2, a3] [b1, c, b3] [(i1 : Int), (i2 : Int), (i3 : Int)] false mti mti1 +
        LevyCopulaModel_mass_3d [a1, c, a3] [b1, b2, b3] [(i1 : Int), (i2 : Int), (i3 : Int)] false mti mti1 := by
  rw [src_mass3d_eq_model mti mti1 _ _ _ _ _ _ _ _ _ h,
    src_mass3d_eq_model mti mti1 _ _ _ _ _ _ _ _ _ (fun s => h ⟨s.1, Str_mono_left hcb s.2.1, s.2.2⟩),
    src_mass3d_eq_model mti mti1 _ _ _ _ _ _ _ _ _ (fun s => h ⟨s.1, Str_mono_right hac s.2.1, s.2.2⟩)]
  exact mass3d_additive_split2 _ 0 i1 i2 i3 a1 a2 a3 b1 b2 b3 c hac hcb hc (by simpa only [straddle_iff_Str] using h)

theorem src_mass3d_additive_split3 (i1 i2 i3 : Nat) (a1 a2 a3 b1 b2 b3 c : Rat) (hac : a3 < c) (hcb : c < b3) (hc : c ≠ 0)
    (h : ¬ (Str a1 b1 ∧ Str a2 b2 ∧ Str a3 b3)) :
    LevyCopulaModel_mass_3d [a1, a2, a3] [b1, b2, b3] [(i1 : Int), (i2 : Int), (i3 : Int)] false mti mti1 =
      LevyCopulaModel_mass_3d [a1, a2, a3] [b1, b2, c] [(i1 : Int), (i2 : Int), (i3 : Int)] false mti mti1 +
        LevyCopulaModel_mass_3d [a1, a2, c] [b1, b2, b3] [(i1 : Int), (i2 : Int), (i3 : Int)] false mti mti1 := by
  rw [src_mass3d_eq_model mti mti1 _ _ _ _ _ _ _ _ _ h,
    src_mass3d_eq_model mti mti1 _ _ _ _ _ _ _ _ _ (fun s => h ⟨s.1, s.2.1, Str_mono_left hcb s.2.2⟩),
    src_mass3d_eq_model mti mti1 _ _ _ _ _ _ _ _ _ (fun s => h ⟨s.1, s.2.1, Str_mono_right hac s.2.2⟩)]
  exact mass3d_additive_split3 _ 0 i1 i2 i3 a1 a2 a3 b1 b2 b3 c hac hcb hc (by simpa only [straddle_iff_Str] using h)

/-! #### margins: the other coordinates over the whole line `(N, P]` -/

section margins
variable (N P : Rat) (H : VanishAtInf (tailOf mti mti1) N P) (hN : N < 0) (hP : 0 < P)
include H hN hP

/-- d = 2: first coordinate over the whole line ⇒ the marginal mass of the second -/
theorem src_mass2d_whole_line1 (i1 i2 : Nat) (a2 b2 : Rat) (s2 : ¬ Str a2 b2) :
    LevyCopulaModel_mass_2d [N, a2] [P, b2] [(i1 : Int), (i2 : Int)] false mti mti1 = LevyCopulaModel_mass_1d a2 b2 i2 mti1 := by
  rw [src_mass2d_eq_model mti mti1 _ _ _ _ _ _ (fun s => s2 s.2), src_mass1d_eq_model mti]
  exact mass2d_whole_line1 _ 0 N P H hN hP i1 i2 a2 b2 ((straddle_false_iff _ _).mpr s2)

/-- d = 2: second coordinate over the whole line ⇒ the marginal mass of the first -/
theorem src_mass2d_whole_line2 (i1 i2 : Nat) (a1 b1 : Rat) (s1 : ¬ Str a1 b1) :
    LevyCopulaModel_mass_2d [a1, N] [b1, P] [(i1 : Int), (i2 : Int)] false mti mti1 = LevyCopulaModel_mass_1d a1 b1 i1 mti1 := by
  rw [src_mass2d_eq_model mti mti1 _ _ _ _ _ _ (fun s => s1 s.1), src_mass1d_eq_model mti]
  exact mass2d_whole_line2 _ 0 N P H hN hP i1 i2 a1 b1

/-- d = 3: one coordinate over the whole line ⇒ the mass of the sub-family of the other two (`_mass_2d` on the I-margin) -/
theorem src_mass3d_whole_line1 (i1 i2 i3 : Nat) (a2 a3 b2 b3 : Rat) (h : ¬ (Str a2 b2 ∧ Str a3 b3)) :
    LevyCopulaModel_mass_3d [N, a2, a3] [P, b2, b3] [(i1 : Int), (i2 : Int), (i3 : Int)] false mti mti1 =
      LevyCopulaModel_mass_2d [a2, a3] [b2, b3] [(i2 : Int), (i3 : Int)] false mti mti1 := by
  rw [src_mass3d_eq_model mti mti1 _ _ _ _ _ _ _ _ _ (fun s => h s.2), src_mass2d_eq_model mti mti1 _ _ _ _ _ _ h]
  exact mass3d_whole_line1 _ 0 N P H hN hP i1 i2 i3 a2 a3 b2 b3

theorem src_mass3d_whole_line2 (i1 i2 i3 : Nat) (a1 a3 b1 b3 : Rat) (h : ¬ (Str a1 b1 ∧ Str a3 b3)) :
    LevyCopulaModel_mass_3d [a1, N, a3] [b1, P, b3] [(i1 : Int), (i2 : Int), (i3 : Int)] false mti mti1 =
      LevyCopulaModel_mass_2d [a1, a3] [b1, b3] [(i1 : Int), (i3 : Int)] false mti mti1 := by
  rw [src_mass3d_eq_model mti mti1 _ _ _ _ _ _ _ _ _ (fun s => h ⟨s.1, s.2.2⟩), src_mass2d_eq_model mti mti1 _ _ _ _ _ _ h]
  exact mass3d_whole_line2 _ 0 N P H hN hP i1 i2 i3 a1 a3 b1 b3 (by simpa only [straddle_iff_Str] using h)

theorem src_mass3d_whole_line3 (i1 i2 i3 : Nat) (a1 a2 b1 b2 : Rat) (h : ¬ (Str a1 b1 ∧ Str a2 b2)) :
    LevyCopulaModel_mass_3d [a1, a2, N] [b1, b2, P] [(i1 : Int), (i2 : Int), (i3 : Int)] false mti mti1 =
      LevyCopulaModel_mass_2d [a1, a2] [b1, b2] [(i1 : Int), (i2 : Int)] false mti mti1 := by
  rw [src_mass3d_eq_model mti mti1 _ _ _ _ _ _ _ _ _ (fun s => h ⟨s.1, s.2.1⟩), src_mass2d_eq_model mti mti1 _ _ _ _ _ _ h]
  exact mass3d_whole_line3 _ 0 N P H hN hP i1 i2 i3 a1 a2 b1 b2 (by simpa only [straddle_iff_Str] using h)

/-- d = 3: two coordinates over the whole line ⇒ the one-dimensional marginal mass of the third -/
theorem src_mass3d_whole_plane (i1 i2 i3 : Nat) (a3 b3 : Rat) (s3 : ¬ Str a3 b3) :
    LevyCopulaModel_mass_3d [N, N, a3] [P, P, b3] [(i1 : Int), (i2 : Int), (i3 : Int)] false mti mti1 =
      LevyCopulaModel_mass_1d a3 b3 i3 mti1 := by
  rw [src_mass3d_whole_line1 mti mti1 N P H hN hP i1 i2 i3 N a3 P b3 (fun s => s3 s.2),
    src_mass2d_whole_line1 mti mti1 N P H hN hP i2 i3 a3 b3 s3]

/-- **the straddling correction, d = 2**: a rectangle whose first side straddles 0 has the mass the general recursion
    prescribes — the marginal mass of the other coordinate (what the whole line `(N, P]` carries) minus the two
    half-infinite rectangles `(b1, P]`, `(N, a1]` on its sides -/
theorem src_mass2d_straddle1 (i1 i2 : Nat) (a1 a2 b1 b2 : Rat) (s1 : Str a1 b1) (s2 : ¬ Str a2 b2) (hNa : N < a1) (hbP : b1 < P) :
    LevyCopulaModel_mass_2d [a1, a2] [b1, b2] [(i1 : Int), (i2 : Int)] false mti mti1 =
      LevyCopulaModel_mass_1d a2 b2 i2 mti1
        - LevyCopulaModel_mass_2d [b1, a2] [P, b2] [(i1 : Int), (i2 : Int)] false mti mti1
        - LevyCopulaModel_mass_2d [N, a2] [a1, b2] [(i1 : Int), (i2 : Int)] false mti mti1 := by
  have no : ∀ x y, ¬ (Str x y ∧ Str a2 b2) := fun x y s => s2 s.2
  have e1 := src_mass2d_whole_line1 mti mti1 N P H hN hP i1 i2 a2 b2 s2
  have e2 := src_mass2d_additive_split1 mti mti1 i1 i2 N a2 P b2 a1 hNa (lt_trans s1.2 hbP |> lt_trans s1.1) (ne_of_lt s1.1) (no _ _)
  have e3 := src_mass2d_additive_split1 mti mti1 i1 i2 a1 a2 P b2 b1 (lt_trans s1.1 s1.2) hbP (ne_of_gt s1.2) (no _ _)
  linarith

theorem src_mass2d_straddle2 (i1 i2 : Nat) (a1 a2 b1 b2 : Rat) (s1 : ¬ Str a1 b1) (s2 : Str a2 b2) (hNa : N < a2) (hbP : b2 < P) :
    LevyCopulaModel_mass_2d [a1, a2] [b1, b2] [(i1 : Int), (i2 : Int)] false mti mti1 =
      LevyCopulaModel_mass_1d a1 b1 i1 mti1
        - LevyCopulaModel_mass_2d [a1, b2] [b1, P] [(i1 : Int), (i2 : Int)] false mti mti1
        - LevyCopulaModel_mass_2d [a1, N] [b1, a2] [(i1 : Int), (i2 : Int)] false mti mti1 := by
  have no : ∀ x y, ¬ (Str a1 b1 ∧ Str x y) := fun x y s => s1 s.1
  have e1 := src_mass2d_whole_line2 mti mti1 N P H hN hP i1 i2 a1 b1 s1
  have e2 := src_mass2d_additive_split2 mti mti1 i1 i2 a1 N b1 P a2 hNa (lt_trans s2.2 hbP |> lt_trans s2.1) (ne_of_lt s2.1) (no _ _)
  have e3 := src_mass2d_additive_split2 mti mti1 i1 i2 a1 a2 b1 P b2 (lt_trans s2.1 s2.2) hbP (ne_of_gt s2.2) (no _ _)
  linarith

/-- **the straddling correction, d = 3** (first coordinate; the other two not both straddling): mass of the sub-family
    `{2, 3}` minus the two half-infinite boxes -/
theorem src_mass3d_straddle1 (i1 i2 i3 : Nat) (a1 a2 a3 b1 b2 b3 : Rat) (s1 : Str a1 b1) (h : ¬ (Str a2 b2 ∧ Str a3 b3))
    (hNa : N < a1) (hbP : b1 < P) :
    LevyCopulaModel_mass_3d [a1, a2, a3] [b1, b2, b3] [(i1 : Int), (i2 : Int), (i3 : Int)] false mti mti1 =
      LevyCopulaModel_mass_2d [a2, a3] [b2, b3] [(i2 : Int), (i3 : Int)] false mti mti1
        - LevyCopulaModel_mass_3d [b1, a2, a3] [P, b2, b3] [(i1 : Int), (i2 : Int), (i3 : Int)] false mti mti1
        - LevyCopulaModel_mass_3d [N, a2, a3] [a1, b2, b3] [(i1 : Int), (i2 : Int), (i3 : Int)] false mti mti1 := by
  have no : ∀ x y, ¬ (Str x y ∧ Str a2 b2 ∧ Str a3 b3) := fun x y s => h s.2
  have e1 := src_mass3d_whole_line1 mti mti1 N P H hN hP i1 i2 i3 a2 a3 b2 b3 h
  have e2 := src_mass3d_additive_split1 mti mti1 i1 i2 i3 N a2 a3 P b2 b3 a1 hNa (lt_trans s1.2 hbP |> lt_trans s1.1) (ne_of_lt s1.1) (no _ _)
  have e3 := src_mass3d_additive_split1 mti mti1 i1 i2 i3 a1 a2 a3 P b2 b3 b1 (lt_trans s1.1 s1.2) hbP (ne_of_gt s1.2) (no _ _)
  linarith

theorem src_mass3d_straddle2 (i1 i2 i3 : Nat) (a1 a2 a3 b1 b2 b3 : Rat) (s2 : Str a2 b2) (h : ¬ (Str a1 b1 ∧ Str a3 b3))
    (hNa : N < a2) (hbP : b2 < P) :
    LevyCopulaModel_mass_3d [a1, a2, a3] [b1, b2, b3] [(i1 : Int), (i2 : Int), (i3 : Int)] false mti mti1 =
      LevyCopulaModel_mass_2d [a1, a3] [b1, b3] [(i1 : Int), (i3 : Int)] false mti mti1
        - LevyCopulaModel_mass_3d [a1, b2, a3] [b1, P, b3] [(i1 : Int), (i2 : Int), (i3 : Int)] false mti mti1
        - LevyCopulaModel_mass_3d [a1, N, a3] [b1, a2, b3] [(i1 : Int), (i2 : Int), (i3 : Int)] false mti mti1 := by
  have no : ∀ x y, ¬ (Str a1 b1 ∧ Str x y ∧ Str a3 b3) := fun x y s => h ⟨s.1, s.2.2⟩
  have e1 := src_mass3d_whole_line2 mti mti1 N P H hN hP i1 i2 i3 a1 a3 b1 b3 h
  have e2 := src_mass3d_additive_split2 mti mti1 i1 i2 i3 a1 N a3 b1 P b3 a2 hNa (lt_trans s2.2 hbP |> lt_trans s2.1) (ne_of_lt s2.1) (no _ _)
  have e3 := src_mass3d_additive_split2 mti mti1 i1 i2 i3 a1 a2 a3 b1 P b3 b2 (lt_trans s2.1 s2.2) hbP (ne_of_gt s2.2) (no _ _)
  linarith

theorem src_mass3d_straddle3 (i1 i2 i3 : Nat) (a1 a2 a3 b1 b2 b3 : Rat) (s3 : Str a3 b3) (h : ¬ (Str a1 b1 ∧ Str a2 b2))
    (hNa : N < a3) (hbP : b3 < P) :
    LevyCopulaModel_mass_3d [a1, a2, a3] [b1, b2, b3] [(i1 : Int), (i2 : Int), (i3 : Int)] false mti mti1 =
      LevyCopulaModel_mass_2d [a1, a2] [b1, b2] [(i1 : Int), (i2 : Int)] false mti mti1
        - LevyCopulaModel_mass_3d [a1, a2, b3] [b1, b2, P] [(i1 : Int), (i2 : Int), (i3 : Int)] false mti mti1
        - LevyCopulaModel_mass_3d [a1, a2, N] [b1, b2, a3] [(i1 : Int), (i2 : Int), (i3 : Int)] false mti mti1 := by
  have no : ∀ x y, ¬ (Str a1 b1 ∧ Str a2 b2 ∧ Str x y) := fun x y s => h ⟨s.1, s.2.1⟩
  have e1 := src_mass3d_whole_line3 mti mti1 N P H hN hP i1 i2 i3 a1 a2 b1 b2 h
  have e2 := src_mass3d_additive_split3 mti mti1 i1 i2 i3 a1 a2 N b1 b2 P a3 hNa (lt_trans s3.2 hbP |> lt_trans s3.1) (ne_of_lt s3.1) (no _ _)
  have e3 := src_mass3d_additive_split3 mti mti1 i1 i2 i3 a1 a2 a3 b1 b2 P b3 (lt_trans s3.1 s3.2) hbP (ne_of_gt s3.2) (no _ _)
  linarith

end margins

/-! #### non-negativity (rectangles that do not contain the origin) -/

section nonneg
open Rpylib.Copula
variable {Y : Type} [LE Y]

/-- **d = 2**: the translated `_mass_2d` is ≥ 0 when the tail integrals are those of a 2-increasing `F` (on boxes having
    a side with `fin` end points — what C11 proves), the one-index tail integrals are its margins, and along every
    non-straddling side the marginal tail integral decreases between `fin` values -/
theorem src_mass2d_nonneg (fin : Y → Prop) (F : Y → Y → Rat) (hF : TwoIncreasingAdm fin F) (bot top : Y)
    (hbot : ∀ y, bot ≤ y) (htop : ∀ y, y ≤ top) (u1 u2 : Rat → Y) (i1 i2 : Nat)
    (hU : ∀ x1 x2, mti [(i1 : Int), (i2 : Int)] [x1, x2] = F (u1 x1) (u2 x2))
    (hU1 : ∀ x, mti1 i1 x = F (u1 x) top - F (u1 x) bot) (hU2 : ∀ x, mti1 i2 x = F top (u2 x) - F bot (u2 x))
    (a1 a2 b1 b2 : Rat) (m1 : ¬ Str a1 b1 → u1 b1 ≤ u1 a1 ∧ fin (u1 b1) ∧ fin (u1 a1))
    (m2 : ¬ Str a2 b2 → u2 b2 ≤ u2 a2 ∧ fin (u2 b2) ∧ fin (u2 a2)) (h : ¬ (Str a1 b1 ∧ Str a2 b2)) :
    0 ≤ LevyCopulaModel_mass_2d [a1, a2] [b1, b2] [(i1 : Int), (i2 : Int)] false mti mti1 := by
  rw [src_mass2d_eq_model mti mti1 _ _ _ _ _ _ h]
  exact mass2d_nonneg_adm (tailOf mti mti1) 0 fin F hF bot top hbot htop u1 u2 i1 i2 (fun x1 x2 => hU x1 x2)
    (fun x => hU1 x) (fun x => hU2 x) a1 a2 b1 b2 (fun s => m1 ((straddle_false_iff _ _).mp s))
    (fun s => m2 ((straddle_false_iff _ _).mp s)) (by simpa only [straddle_iff_Str] using h)

/-- **d = 3, all 26 sign patterns**: the translated `_mass_3d` is ≥ 0 when the tail-integral family is that of a
    3-increasing `F` (`Family3`: sub-families are the I-margins of `F`) -/
theorem src_mass3d_nonneg (fin : Y → Prop) (F : Y → Y → Y → Rat) (hF : ThreeIncreasingAdm fin F) (bot top : Y)
    (hbot : ∀ y, bot ≤ y) (htop : ∀ y, y ≤ top) (u1 u2 u3 : Rat → Y) (i1 i2 i3 : Nat)
    (hU : Family3 (tailOf mti mti1) F bot top u1 u2 u3 i1 i2 i3) (a1 a2 a3 b1 b2 b3 : Rat)
    (m1 : ¬ Str a1 b1 → SideOK fin u1 a1 b1) (m2 : ¬ Str a2 b2 → SideOK fin u2 a2 b2)
    (m3 : ¬ Str a3 b3 → SideOK fin u3 a3 b3) (h : ¬ (Str a1 b1 ∧ Str a2 b2 ∧ Str a3 b3)) :
    0 ≤ LevyCopulaModel_mass_3d [a1, a2, a3] [b1, b2, b3] [(i1 : Int), (i2 : Int), (i3 : Int)] false mti mti1 := by
  rw [src_mass3d_eq_model mti mti1 _ _ _ _ _ _ _ _ _ h]
  exact mass3d_nonneg_adm (tailOf mti mti1) 0 fin F hF bot top hbot htop u1 u2 u3 i1 i2 i3 hU a1 a2 a3 b1 b2 b3
    (fun s => m1 ((straddle_false_iff _ _).mp s)) (fun s => m2 ((straddle_false_iff _ _).mp s))
    (fun s => m3 ((straddle_false_iff _ _).mp s)) (by simpa only [straddle_iff_Str] using h)

/-- **d = 3 Clayton model, nothing assumed of the copula** (generator pair with `ClaytonGen`, `Slope3`: θ = 1 over ℚ is
    `gen1`; η ∈ [0, 1]): when `margin_tail_integral` returns what it is specified to return — `F(u_1,u_2,u_3)`, the
    I-margins of `F` on two indices — and `marginal_tail_integral` the `u_k`, decreasing along non-straddling sides, the
    translated `_mass_3d` of every rectangle without the origin is ≥ 0 -/
theorem src_clayton_mass3d_nonneg {G : Gen Rat} (hG : ClaytonGen G) (h3 : Slope3 G.psi) (eta : Rat) (h0 : 0 ≤ eta)
    (h1 : eta ≤ 1) (u1 u2 u3 : Rat → Rat)
    (hU123 : ∀ x1 x2 x3, mti [0, 1, 2] [x1, x2, x3] = claytonOf G (1 / 2) eta [.fin (u1 x1), .fin (u2 x2), .fin (u3 x3)])
    (hU12 : ∀ x1 x2, mti [0, 1] [x1, x2] = margin (claytonOf G (1 / 2) eta) [0, 1] 3 [.fin (u1 x1), .fin (u2 x2)])
    (hU13 : ∀ x1 x3, mti [0, 2] [x1, x3] = margin (claytonOf G (1 / 2) eta) [0, 2] 3 [.fin (u1 x1), .fin (u3 x3)])
    (hU23 : ∀ x2 x3, mti [1, 2] [x2, x3] = margin (claytonOf G (1 / 2) eta) [1, 2] 3 [.fin (u2 x2), .fin (u3 x3)])
    (hU1 : ∀ x, mti1 0 x = u1 x) (hU2 : ∀ x, mti1 1 x = u2 x) (hU3 : ∀ x, mti1 2 x = u3 x)
    (a1 a2 a3 b1 b2 b3 : Rat) (m1 : ¬ Str a1 b1 → u1 b1 ≤ u1 a1) (m2 : ¬ Str a2 b2 → u2 b2 ≤ u2 a2)
    (m3 : ¬ Str a3 b3 → u3 b3 ≤ u3 a3) (h : ¬ (Str a1 b1 ∧ Str a2 b2 ∧ Str a3 b3)) :
    0 ≤ LevyCopulaModel_mass_3d [a1, a2, a3] [b1, b2, b3] [0, 1, 2] false mti mti1 := by
  have e := src_mass3d_eq_model mti mti1 0 1 2 a1 a2 a3 b1 b2 b3 h
  simp only [Nat.cast_zero, Nat.cast_one, Nat.cast_ofNat] at e
  rw [e]
  exact clayton_mass3d_nonneg hG h3 eta h0 h1 (tailOf mti mti1) 0 u1 u2 u3 (fun x1 x2 x3 => hU123 x1 x2 x3)
    (fun x1 x2 => hU12 x1 x2) (fun x1 x3 => hU13 x1 x3) (fun x2 x3 => hU23 x2 x3) (fun x => hU1 x) (fun x => hU2 x)
    (fun x => hU3 x) a1 a2 a3 b1 b2 b3 (fun s => m1 ((straddle_false_iff _ _).mp s))
    (fun s => m2 ((straddle_false_iff _ _).mp s)) (fun s => m3 ((straddle_false_iff _ _).mp s))
    (by simpa only [straddle_iff_Str] using h)

/-- d = 2 Clayton model, likewise -/
theorem src_clayton_mass2d_nonneg {G : Gen Rat} (hG : ClaytonGen G) (eta : Rat) (h0 : 0 ≤ eta) (h1 : eta ≤ 1)
    (u1 u2 : Rat → Rat) (hU12 : ∀ x1 x2, mti [0, 1] [x1, x2] = claytonOf G 1 eta [.fin (u1 x1), .fin (u2 x2)])
    (hU1 : ∀ x, mti1 0 x = u1 x) (hU2 : ∀ x, mti1 1 x = u2 x) (a1 a2 b1 b2 : Rat)
    (m1 : ¬ Str a1 b1 → u1 b1 ≤ u1 a1) (m2 : ¬ Str a2 b2 → u2 b2 ≤ u2 a2) (h : ¬ (Str a1 b1 ∧ Str a2 b2)) :
    0 ≤ LevyCopulaModel_mass_2d [a1, a2] [b1, b2] [0, 1] false mti mti1 := by
  have e := src_mass2d_eq_model mti mti1 0 1 a1 a2 b1 b2 h
  simp only [Nat.cast_zero, Nat.cast_one] at e
  rw [e]
  exact clayton_mass2d_nonneg hG eta h0 h1 (tailOf mti mti1) 0 u1 u2 (fun x1 x2 => hU12 x1 x2) (fun x => hU1 x)
    (fun x => hU2 x) a1 a2 b1 b2 (fun s => m1 ((straddle_false_iff _ _).mp s))
    (fun s => m2 ((straddle_false_iff _ _).mp s)) (by simpa only [straddle_iff_Str] using h)

end nonneg

/-! #### non-vacuity of the hypotheses -/

section examples
open Rpylib.Copula

/-- a family of tail integrals that vanish at the two "infinite" points −1000, 1000 -/
def exMti : List Int → List Rat → Rat := fun _ x => if (-1000 : Rat) ∈ x ∨ (1000 : Rat) ∈ x then 0 else (x.map (fun v => 1 / v)).sum
def exMti1 : Int → Rat → Rat := fun _ v => if v = -1000 ∨ v = 1000 then 0 else 1 / v

example : VanishAtInf (tailOf exMti exMti1) (-1000) 1000 := by
  intro I x h
  unfold tailOf
  split
  · rename_i i v
    simp only [List.mem_singleton] at h
    rcases h with h | h <;> simp [exMti1, ← h]
  · simp only [exMti]; rw [if_pos h]

example : (-1000 : Rat) < 0 ∧ (0 : Rat) < 1000 := by norm_num

/-- rectangles without the origin, with one and with two straddling sides -/
example : ¬ (Str (-1) 1 ∧ Str 1 2) := by unfold Str; norm_num
example : ¬ (Str (-1) 1 ∧ Str (-1) 2 ∧ Str 1 2) := by unfold Str; norm_num
example : Str (-1) 1 ∧ (-1000 : Rat) < -1 ∧ (1 : Rat) < 1000 := by unfold Str; norm_num

/-- the Clayton hypotheses are satisfiable: θ = 1, η = 1/2, 1-stable margins `u(x) = 1/x`, the collaborators behaving
    as `margin_tail_integral` / `marginal_tail_integral` are specified; a rectangle with two straddling sides -/
def exClaytonMti : List Int → List Rat → Rat := fun I x =>
  match I, x with
  | [0, 1, 2], [x1, x2, x3] => claytonOf gen1 (1 / 2) (1 / 2) [.fin (1 / x1), .fin (1 / x2), .fin (1 / x3)]
  | [0, 1], [x1, x2] => margin (claytonOf gen1 (1 / 2) (1 / 2)) [0, 1] 3 [.fin (1 / x1), .fin (1 / x2)]
  | [0, 2], [x1, x3] => margin (claytonOf gen1 (1 / 2) (1 / 2)) [0, 2] 3 [.fin (1 / x1), .fin (1 / x3)]
  | [1, 2], [x2, x3] => margin (claytonOf gen1 (1 / 2) (1 / 2)) [1, 2] 3 [.fin (1 / x2), .fin (1 / x3)]
  | _, _ => 0

example : 0 ≤ LevyCopulaModel_mass_3d [-1, -1, 1] [1, 2, 2] [0, 1, 2] false exClaytonMti (fun _ x => 1 / x) :=
  src_clayton_mass3d_nonneg exClaytonMti (fun _ x => 1 / x) gen1_clayton slope3_gen1 (1 / 2) (by norm_num) (by norm_num)
    (fun x => 1 / x) (fun x => 1 / x) (fun x => 1 / x) (fun _ _ _ => rfl) (fun _ _ => rfl) (fun _ _ => rfl)
    (fun _ _ => rfl) (fun _ => rfl) (fun _ => rfl) (fun _ => rfl) (-1) (-1) 1 1 2 2
    (by unfold Str; norm_num) (by unfold Str; norm_num) (by intro _; norm_num) (by unfold Str; norm_num)

end examples

end mass

/-! ## 4. `_mass_nd` (levycopulamodel.py:158-196): the general recursion on straddling coordinates, EVERY dimension

  `np.inf`, `-np.inf` are the parameters `pinf`, `ninf` of the translated definition; the alignment with the model's `massNd`
  assumes nothing of them.  The recursion of the source restarts its scan at the first coordinate in every call and finds the
  position of the straddling coordinate with `indices.index(j)`: this is the model's left-to-right scan `massGo` when the
  index list has no repetition (`Nodup`; with a repeated index the Python code modifies the wrong coordinate). -/

section nd
open Rpylib.CopulaMass

/-! lists addressed with Python's (Int) indices at the position where a prefix ends -/
section lists_nd
variable {α β : Type}

theorem idx_at [Inhabited α] (l1 : List β) (f : β → α) (x : α) (l2 : List α) :
    idx (l1.map f ++ x :: l2) ((l1.length : Nat) : Int) = x := by
  simp [idx]

theorem setAt_at (l1 : List β) (f : β → α) (x v : α) (l2 : List α) :
    setAt (l1.map f ++ x :: l2) ((l1.length : Nat) : Int) v = l1.map f ++ v :: l2 := by
  simp [setAt]

theorem popAt_at (l1 : List β) (f : β → α) (x : α) (l2 : List α) :
    popAt (l1.map f ++ x :: l2) ((l1.length : Nat) : Int) = l1.map f ++ l2 := by
  have h : ¬ ((l1.length : Int) < 0) := by omega
  simp only [popAt, h, if_false, Int.toNat_natCast]
  rw [List.eraseIdx_append_of_length_le (by simp)]
  simp

theorem indexOf_at [BEq α] [LawfulBEq α] (l1 : List β) (f : β → α) (x : α) (l2 : List α) (h : x ∉ l1.map f) :
    indexOf (l1.map f ++ x :: l2) x = ((l1.length : Nat) : Int) := by
  simp [indexOf, List.idxOf_append, h]

end lists_nd

/-! the rectangle as a list of triples (index, lower end, upper end), like the model's `zip3` -/
abbrev Trip := Nat × Rat × Rat
def fI (t : Trip) : Int := (t.1 : Int)
def fA (t : Trip) : Rat := t.2.1
def fB (t : Trip) : Rat := t.2.2
def strB (t : Trip) : Bool := decide (t.2.1 < 0 ∧ 0 < t.2.2)

theorem zip3_map (T : List Trip) :
    List.zip (T.map fI) (List.zip (T.map fA) (T.map fB)) = T.map (fun t => (fI t, fA t, fB t)) := by
  induction T with
  | nil => rfl
  | cons t T ih => simp [ih]

/-- any way of writing "the indices of the straddling coordinates, in order" over `zip(indices, a, b)` -/
theorem scan_eq (h : Int × Rat × Rat → Int) (c : Int × Rat × Rat → Bool) (hh : ∀ i x y, h (i, x, y) = i)
    (hc : ∀ i x y, c (i, x, y) = decide (x < 0 ∧ 0 < y)) (T : List Trip) :
    List.map h (List.filter c (List.zip (T.map fI) (List.zip (T.map fA) (T.map fB)))) = (T.filter strB).map fI := by
  rw [zip3_map, List.filter_map, List.map_map]
  have e1 : (c ∘ fun t : Trip => (fI t, fA t, fB t)) = strB := by
    funext t; simp [hc, strB, fA, fB]
  have e2 : (h ∘ fun t : Trip => (fI t, fA t, fB t)) = fI := by
    funext t; simp [hh]
  rw [e1, e2]

theorem filter_none (T : List Trip) (hT : ∀ t ∈ T, strB t = false) : T.filter strB = [] := by
  rw [List.filter_eq_nil_iff]
  intro t ht
  simp [hT t ht]

theorem filter_first (done rest : List Trip) (t : Trip) (hd : ∀ x ∈ done, strB x = false) (ht : strB t = true) :
    (done ++ t :: rest).filter strB = t :: rest.filter strB := by
  simp [List.filter_append, filter_none done hd, List.filter_cons, ht]

variable (sfi : List Int) (pinf ninf : Rat) (mti : List Int → List Rat → Rat)

/-- one evaluation step of `_mass_nd` on a rectangle without a straddling side: `eps * volume` -/
theorem nd_step_base (T : List Trip) (hT : ∀ t ∈ T, strB t = false) (f : Nat) :
    LevyCopulaModel_mass_nd_fuel (f + 1) (T.map fA) (T.map fB) (T.map fI) false sfi pinf ninf mti =
      (if T.length % 2 = 1 then -1 else 1) * Rpylib.Src.C12.volume (mti (T.map fI)) (T.map fA) (T.map fB) := by
  rw [LevyCopulaModel_mass_nd_fuel]
  simp only [Bool.false_eq_true, if_false]
  rw [scan_eq _ _ (by intros; first | rfl | simp) (by intros; first | rfl | simp [and_comm]), filter_none T hT]
  simp only [List.map_nil, List.isEmpty_nil, not_true_eq_false, if_false, fmod_two, List.length_map]
  split_ifs <;> first | omega | (push_cast; ring1)

/-- one evaluation step of `_mass_nd` at the first straddling coordinate `t` (position `done.length`): the sub-family
    without it, minus the rectangles with that side replaced by `(b, +inf)` and by `(-inf, a)` -/
theorem nd_step_rec (done rest : List Trip) (t : Trip) (hd : ∀ x ∈ done, strB x = false) (ht : strB t = true)
    (hnd : fI t ∉ done.map fI) (f : Nat) :
    LevyCopulaModel_mass_nd_fuel (f + 1) ((done ++ t :: rest).map fA) ((done ++ t :: rest).map fB)
        ((done ++ t :: rest).map fI) false sfi pinf ninf mti =
      LevyCopulaModel_mass_nd_fuel f ((done ++ rest).map fA) ((done ++ rest).map fB) ((done ++ rest).map fI) false sfi pinf ninf mti
        - LevyCopulaModel_mass_nd_fuel f ((done ++ (t.1, t.2.2, pinf) :: rest).map fA) ((done ++ (t.1, t.2.2, pinf) :: rest).map fB)
            ((done ++ (t.1, t.2.2, pinf) :: rest).map fI) false sfi pinf ninf mti
        - LevyCopulaModel_mass_nd_fuel f ((done ++ (t.1, ninf, t.2.1) :: rest).map fA) ((done ++ (t.1, ninf, t.2.1) :: rest).map fB)
            ((done ++ (t.1, ninf, t.2.1) :: rest).map fI) false sfi pinf ninf mti := by
  rw [LevyCopulaModel_mass_nd_fuel]
  simp only [Bool.false_eq_true, if_false]
  rw [scan_eq _ _ (by intros; first | rfl | simp) (by intros; first | rfl | simp [and_comm]), filter_first done rest t hd ht]
  simp only [List.map_cons, List.headD_cons, List.isEmpty_cons, Bool.false_eq_true, not_false_eq_true, if_true,
    List.map_append]
  rw [indexOf_at done fI (fI t) _ hnd]
  simp only [idx_at, setAt_at, popAt_at]
  first | rfl | (simp [fI, fA, fB]; try ring1)

/-- the tail-integral family the general recursion of the model is run on: `margin_tail_integral` alone -/
def tailNd (mti : List Int → List Rat → Rat) : Tail Rat Rat := fun I x => mti (I.map (fun (i : Nat) => (i : Int))) x

theorem tailNd_eq (mti : List Int → List Rat → Rat) (I : List Nat) :
    tailNd mti I = mti (I.map (fun (i : Nat) => (i : Int))) := rfl

theorem strB_eq_straddle (t : Trip) : strB t = straddle (0 : Rat) t.2.1 t.2.2 := by
  simp [strB, straddle, Bool.decide_and]

/-- **the translated general recursion is the model's `massGo`, every dimension**: scanning `done ++ rest` from the
    left, when no coordinate of `done` straddles -/
theorem nd_go (rest : List Trip) : ∀ (done : List Trip) (fuel : Nat), (∀ x ∈ done, strB x = false) →
    ((done ++ rest).map (·.1)).Nodup → (rest.filter strB).length < fuel →
    LevyCopulaModel_mass_nd_fuel fuel ((done ++ rest).map fA) ((done ++ rest).map fB) ((done ++ rest).map fI) false
        sfi pinf ninf mti = massGo (tailNd mti) 0 ninf pinf done rest := by
  induction rest with
  | nil =>
    intro done fuel hd hnd hf
    obtain ⟨f, rfl⟩ : ∃ f, fuel = f + 1 := ⟨fuel - 1, by omega⟩
    rw [List.append_nil, nd_step_base sfi pinf ninf mti done hd f, src_volume_eq_model _ _ _ (by simp)]
    simp only [massGo, signedVolume, tailNd_eq, List.length_map, List.map_map]
    have e : ((fun (i : Nat) => (i : Int)) ∘ fun (x : Trip) => x.1) = fI := rfl
    have eA : (fun (x : Trip) => x.2.1) = fA := rfl
    have eB : (fun (x : Trip) => x.2.2) = fB := rfl
    rw [e, eA, eB]
    split_ifs <;> ring
  | cons t rest ih =>
    intro done fuel hd hnd hf
    have hassoc : ∀ (x : Trip), done ++ x :: rest = (done ++ [x]) ++ rest := fun x => by simp
    by_cases ht : strB t = true
    · obtain ⟨f, rfl⟩ : ∃ f, fuel = f + 1 := ⟨fuel - 1, by simp [List.filter_cons, ht] at hf; omega⟩
      have hf' : (rest.filter strB).length < f := by simp [List.filter_cons, ht] at hf; omega
      have hnd' : ((done ++ rest).map (·.1)).Nodup := by
        simp only [List.map_append, List.map_cons] at hnd ⊢
        exact hnd.sublist (List.Sublist.append_left (List.sublist_cons_self _ _) _)
      have hmem : fI t ∉ done.map fI := by
        simp only [List.map_append, List.map_cons, List.nodup_append, List.nodup_cons] at hnd
        intro hin
        simp only [List.mem_map, fI] at hin
        obtain ⟨x, hx, hxe⟩ := hin
        have := hnd.2.2 x.1 (List.mem_map.mpr ⟨x, hx, rfl⟩) t.1 (by simp)
        exact this (by exact_mod_cast hxe)
      rw [nd_step_rec sfi pinf ninf mti done rest t hd ht hmem f]
      have hst : straddle (0 : Rat) t.2.1 t.2.2 = true := by rw [← strB_eq_straddle]; exact ht
      have hpos : (0 : Rat) < t.2.2 := by simp [strB] at ht; exact ht.2
      have hneg : t.2.1 < (0 : Rat) := by simp [strB] at ht; exact ht.1
      obtain ⟨i, a, b⟩ := t
      simp only [massGo, hst, if_true]
      rw [ih done f hd hnd' hf', hassoc, hassoc,
        ih (done ++ [(i, b, pinf)]) f (by
            intro x hx; simp only [List.mem_append, List.mem_singleton] at hx
            rcases hx with hx | rfl
            · exact hd x hx
            · simp [strB]; intro h; exact absurd hpos (not_lt.mpr (le_of_lt h))) (by simpa using hnd) hf',
        ih (done ++ [(i, ninf, a)]) f (by
            intro x hx; simp only [List.mem_append, List.mem_singleton] at hx
            rcases hx with hx | rfl
            · exact hd x hx
            · simp [strB]; intro _; exact le_of_lt hneg) (by simpa using hnd) hf']
    · have ht' : strB t = false := by simpa using ht
      have hst : straddle (0 : Rat) t.2.1 t.2.2 = false := by rw [← strB_eq_straddle]; exact ht'
      obtain ⟨i, a, b⟩ := t
      simp only [massGo, hst, Bool.false_eq_true, if_false]
      rw [hassoc]
      exact ih (done ++ [(i, a, b)]) fuel (by
          intro x hx; simp only [List.mem_append, List.mem_singleton] at hx
          rcases hx with hx | rfl
          · exact hd x hx
          · exact ht') (by simpa using hnd) (by simpa [List.filter_cons, ht'] using hf)

theorem zip3_maps : ∀ (I : List Nat) (a b : List Rat), I.length = a.length → a.length = b.length →
    (zip3 I a b).map fI = I.map (fun (i : Nat) => (i : Int)) ∧ (zip3 I a b).map fA = a ∧ (zip3 I a b).map fB = b ∧
      (zip3 I a b).map (·.1) = I ∧ (zip3 I a b).length = a.length
  | [], [], [], _, _ => by simp [zip3]
  | [], _ :: _, _, h, _ => by simp at h
  | _ :: _, [], _, h, _ => by simp at h
  | _, _ :: _, [], _, h => by simp at h
  | i :: I, x :: a, y :: b, h1, h2 => by
    obtain ⟨e1, e2, e3, e4, e5⟩ := zip3_maps I a b (by simpa using h1) (by simpa using h2)
    simp [zip3, e1, e2, e3, e4, e5, fI, fA, fB]

/-- **(A) `_mass_nd` = the model's general recursion `massNd`, every dimension, every index list without repetition**
    (`-np.inf`, `np.inf` enter as the two points `ninf`, `pinf` — nothing is assumed of them) -/
theorem src_massNd_eq_model (I : List Nat) (a b : List Rat) (hI : I.Nodup) (h1 : I.length = a.length)
    (h2 : a.length = b.length) :
    LevyCopulaModel_mass_nd a b (I.map (fun (i : Nat) => (i : Int))) false sfi pinf ninf mti =
      massNd (tailNd mti) 0 ninf pinf I a b := by
  obtain ⟨e1, e2, e3, e4, e5⟩ := zip3_maps I a b h1 h2
  have := nd_go sfi pinf ninf mti (zip3 I a b) [] (a.length + 1) (by simp) (by simpa [e4] using hI)
    (by have := List.length_filter_le strB (zip3 I a b); omega)
  simp only [List.nil_append, e1, e2, e3] at this
  exact this

/-- `indices=None` is the index list `self._full_indices` -/
theorem src_massNd_default_indices (a b : List Rat) (J : List Int) :
    LevyCopulaModel_mass_nd a b J true sfi pinf ninf mti = LevyCopulaModel_mass_nd a b sfi false sfi pinf ninf mti := by
  unfold LevyCopulaModel_mass_nd
  rw [LevyCopulaModel_mass_nd_fuel, LevyCopulaModel_mass_nd_fuel]
  simp


end nd

/-! ### (B) every dimension, on the translated general recursion: additivity, margins, empty sides; and the fast paths
    against the TRANSLATED general recursion (source against source) -/

section nd_props
open Rpylib.CopulaMass
variable (sfi : List Int) (pinf ninf : Rat) (mti : List Int → List Rat → Rat) (mti1 : Int → Rat → Rat)

/-- **any d**: `_mass_nd` is additive when side `k` is split at a point `c ≠ 0` — every sign pattern of the other
    coordinates, boxes containing the origin included -/
theorem src_massNd_additive_split (I : List Nat) (a b : List Rat) (hI : I.Nodup) (h1 : I.length = a.length)
    (h2 : a.length = b.length) (k i : Nat) (ak bk c : Rat) (hIk : I[k]? = some i) (ha : a[k]? = some ak)
    (hb : b[k]? = some bk) (hac : ak < c) (hcb : c < bk) (hc : c ≠ 0) :
    LevyCopulaModel_mass_nd a b (I.map (fun (i : Nat) => (i : Int))) false sfi pinf ninf mti =
      LevyCopulaModel_mass_nd a (b.set k c) (I.map (fun (i : Nat) => (i : Int))) false sfi pinf ninf mti +
        LevyCopulaModel_mass_nd (a.set k c) b (I.map (fun (i : Nat) => (i : Int))) false sfi pinf ninf mti := by
  rw [src_massNd_eq_model sfi pinf ninf mti I a b hI h1 h2,
    src_massNd_eq_model sfi pinf ninf mti I a (b.set k c) hI h1 (by simpa using h2),
    src_massNd_eq_model sfi pinf ninf mti I (a.set k c) b hI (by simpa using h1) (by simpa using h2)]
  exact massNd_additive_split _ 0 ninf pinf I a b k i ak bk c hIk ha hb hac hcb hc

/-- **any d**: a coordinate over the whole line `(ninf, pinf]` can be erased: the mass is the mass of the sub-family of
    the other coordinates (by iteration: all others over the whole line ⇒ the one-dimensional marginal mass) -/
theorem src_massNd_whole_line (hN : ninf < 0) (hP : 0 < pinf) (I : List Nat) (a b : List Rat) (hI : I.Nodup)
    (h1 : I.length = a.length) (h2 : a.length = b.length) (k i : Nat) (hIk : I[k]? = some i) (ha : a[k]? = some ninf)
    (hb : b[k]? = some pinf) :
    LevyCopulaModel_mass_nd a b (I.map (fun (i : Nat) => (i : Int))) false sfi pinf ninf mti =
      LevyCopulaModel_mass_nd (a.eraseIdx k) (b.eraseIdx k) ((I.eraseIdx k).map (fun (i : Nat) => (i : Int))) false sfi
        pinf ninf mti := by
  have hk : k < I.length := by
    rcases Nat.lt_or_ge k I.length with h | h
    · exact h
    · rw [List.getElem?_eq_none h] at hIk; exact absurd hIk (by simp)
  rw [src_massNd_eq_model sfi pinf ninf mti I a b hI h1 h2,
    src_massNd_eq_model sfi pinf ninf mti (I.eraseIdx k) (a.eraseIdx k) (b.eraseIdx k)
      (hI.sublist (List.eraseIdx_sublist ..))
      (by rw [List.length_eraseIdx, List.length_eraseIdx]; simp [hk, h1 ▸ hk, h1])
      (by rw [List.length_eraseIdx, List.length_eraseIdx]; simp [h2])]
  exact massNd_whole_line _ 0 ninf pinf hN hP I a b k i hIk ha hb

/-- **any d**: an empty side gives mass 0 (first coordinate) -/
theorem src_massNd_empty_side (i : Nat) (I : List Nat) (x : Rat) (a b : List Rat) (hI : (i :: I).Nodup)
    (h1 : I.length = a.length) (h2 : a.length = b.length) :
    LevyCopulaModel_mass_nd (x :: a) (x :: b) ((i :: I).map (fun (i : Nat) => (i : Int))) false sfi pinf ninf mti = 0 := by
  rw [src_massNd_eq_model sfi pinf ninf mti (i :: I) (x :: a) (x :: b) hI (by simp [h1]) (by simp [h2])]
  exact massNd_empty_side _ 0 ninf pinf i I x a b

/-- the two tail-integral families coincide when `margin_tail_integral` on a one-element index set is the marginal
    tail integral (levycopulamodel.py:305-307) -/
theorem tailOf_eq_tailNd (hc : ∀ (i : Int) (x : Rat), mti [i] [x] = mti1 i x) : tailOf mti mti1 = tailNd mti := by
  funext I x
  unfold tailOf tailNd
  split
  · rename_i i v; simp [hc]
  · rfl

/-- **fast path = the translated general recursion, d = 2, every sign pattern** of a rectangle without the origin -/
theorem src_mass2d_eq_massNd (hc : ∀ (i : Int) (x : Rat), mti [i] [x] = mti1 i x)
    (H : VanishAtInf (tailNd mti) ninf pinf) (i1 i2 : Nat) (hi : i1 ≠ i2) (a1 a2 b1 b2 : Rat) (h : ¬ (Str a1 b1 ∧ Str a2 b2)) :
    LevyCopulaModel_mass_2d [a1, a2] [b1, b2] [(i1 : Int), (i2 : Int)] false mti mti1 =
      LevyCopulaModel_mass_nd [a1, a2] [b1, b2] [(i1 : Int), (i2 : Int)] false sfi pinf ninf mti := by
  have e := src_massNd_eq_model sfi pinf ninf mti [i1, i2] [a1, a2] [b1, b2] (by simp [hi]) rfl rfl
  simp only [List.map_cons, List.map_nil] at e
  rw [e, ← tailOf_eq_tailNd mti mti1 hc]
  exact src_mass2d_fast_eq_general mti mti1 ninf pinf (by rw [tailOf_eq_tailNd mti mti1 hc]; exact H) i1 i2 a1 a2 b1 b2 h

/-- **fast path = the translated general recursion, d = 3, all 26 sign patterns** of a rectangle without the origin -/
theorem src_mass3d_eq_massNd (hc : ∀ (i : Int) (x : Rat), mti [i] [x] = mti1 i x)
    (H : VanishAtInf (tailNd mti) ninf pinf) (i1 i2 i3 : Nat) (h12 : i1 ≠ i2) (h13 : i1 ≠ i3) (h23 : i2 ≠ i3)
    (a1 a2 a3 b1 b2 b3 : Rat) (h : ¬ (Str a1 b1 ∧ Str a2 b2 ∧ Str a3 b3)) :
    LevyCopulaModel_mass_3d [a1, a2, a3] [b1, b2, b3] [(i1 : Int), (i2 : Int), (i3 : Int)] false mti mti1 =
      LevyCopulaModel_mass_nd [a1, a2, a3] [b1, b2, b3] [(i1 : Int), (i2 : Int), (i3 : Int)] false sfi pinf ninf mti := by
  have e := src_massNd_eq_model sfi pinf ninf mti [i1, i2, i3] [a1, a2, a3] [b1, b2, b3] (by simp [h12, h13, h23]) rfl rfl
  simp only [List.map_cons, List.map_nil] at e
  rw [e, ← tailOf_eq_tailNd mti mti1 hc]
  exact src_mass3d_fast_eq_general mti mti1 ninf pinf (by rw [tailOf_eq_tailNd mti mti1 hc]; exact H) i1 i2 i3
    a1 a2 a3 b1 b2 b3 h

/-- the general recursion on a one-element index set, side not straddling: `_mass_1d` -/
theorem src_massNd_1d (hc : ∀ (i : Int) (x : Rat), mti [i] [x] = mti1 i x) (i : Nat) (a b : Rat) (s : ¬ Str a b) :
    LevyCopulaModel_mass_nd [a] [b] [(i : Int)] false sfi pinf ninf mti = LevyCopulaModel_mass_1d a b i mti1 := by
  have e := src_massNd_eq_model sfi pinf ninf mti [i] [a] [b] (by simp) rfl rfl
  simp only [List.map_cons, List.map_nil] at e
  rw [e, src_mass1d_eq_model mti mti1, tailOf_eq_tailNd mti mti1 hc]
  exact general1d_eq _ 0 ninf pinf i a b ((straddle_false_iff _ _).mpr s)

/-- non-vacuity: index lists without repetition and lists of equal lengths; a d = 4 split -/
example : ([2, 0, 3, 1] : List Nat).Nodup ∧ ([2, 0, 3, 1] : List Nat).length = ([-1, 2, -3, 1/2] : List Rat).length := by
  decide
example (sfi : List Int) (pinf ninf : Rat) (mti : List Int → List Rat → Rat) :
    LevyCopulaModel_mass_nd [-1, -1, -5, 1] [1, 2, 3, 7] [2, 0, 3, 1] false sfi pinf ninf mti =
      LevyCopulaModel_mass_nd [-1, -1, -5, 1] [1, 1/2, 3, 7] [2, 0, 3, 1] false sfi pinf ninf mti +
        LevyCopulaModel_mass_nd [-1, 1/2, -5, 1] [1, 2, 3, 7] [2, 0, 3, 1] false sfi pinf ninf mti :=
  src_massNd_additive_split sfi pinf ninf mti [2, 0, 3, 1] [-1, -1, -5, 1] [1, 2, 3, 7] (by decide) rfl rfl 1 0 (-1) 2 (1/2)
    rfl rfl rfl (by norm_num) (by norm_num) (by norm_num)

end nd_props

/-! ## 5. The tail integrals: `tail_integrals` (levycopulamodel.py:317-329), `sign`, `interval_I` (numerical/tools.py) -/

section tails

theorem enumerate_eq (x : List Rat) :
    enumerate x = (List.range x.length).zipWith (fun (k : Nat) v => ((k : Int), v)) x := by
  simp only [enumerate, range, Int.sub_zero, Int.toNat_natCast, Int.zero_add]
  rw [List.zip_map_left, List.zip_eq_zipWith, List.map_zipWith]
  rfl

/-- the tail integral of the full family is the copula at the marginal tail integrals, the k-th one in slot k, every
    dimension -/
theorem src_tail_integrals (x : List Rat) (mti1 : Int → Rat → Rat) (cop : List Rat → Rat) :
    LevyCopulaModel_tail_integrals x mti1 cop = cop ((List.range x.length).zipWith (fun (k : Nat) v => mti1 k v) x) := by
  simp only [LevyCopulaModel_tail_integrals, enumerate_eq, List.map_zipWith]

theorem src_tail_integrals_2d (x1 x2 : Rat) (mti1 : Int → Rat → Rat) (cop : List Rat → Rat) :
    LevyCopulaModel_tail_integrals [x1, x2] mti1 cop = cop [mti1 0 x1, mti1 1 x2] := by
  rw [src_tail_integrals]; rfl

theorem src_tail_integrals_3d (x1 x2 x3 : Rat) (mti1 : Int → Rat → Rat) (cop : List Rat → Rat) :
    LevyCopulaModel_tail_integrals [x1, x2, x3] mti1 cop = cop [mti1 0 x1, mti1 1 x2, mti1 2 x3] := by
  rw [src_tail_integrals]; rfl

/-- away from 0 (at exactly 0 a two-sided tail integral has no single value: what the code returns there is recorded in
    the alignment file) `sign` is the sign and `interval_I` the half-line on the side of `x` -/
theorem src_sign_float_neg (x : Rat) (h : x < 0) : sign_float x = -1 := by
  unfold sign_float; split_ifs <;> first | rfl | (exfalso; linarith) | norm_num
theorem src_sign_float_pos (x : Rat) (h : 0 < x) : sign_float x = 1 := by
  unfold sign_float; split_ifs <;> first | rfl | (exfalso; linarith) | norm_num
theorem src_interval_I_neg (x pinf ninf : Rat) (h : x < 0) : interval_I x pinf ninf = (ninf, x) := by
  unfold interval_I; split_ifs <;> first | rfl | (exfalso; linarith)
theorem src_interval_I_pos (x pinf ninf : Rat) (h : 0 < x) : interval_I x pinf ninf = (x, pinf) := by
  unfold interval_I; split_ifs <;> first | rfl | (exfalso; linarith)

/-- `marginal_tail_integral(i, x) = sign(x) * nu_i.integrate(*interval_I(x))` (levycopulamodel.py:299, not translatable as a
    whole), composed from the translated `sign` and `interval_I`; `nu i lo hi` stands for `nu_i.integrate(lo, hi)` -/
def tailOfMeasure (nu : Int → Rat → Rat → Rat) (pinf ninf : Rat) : Int → Rat → Rat :=
  fun i x => sign_float x * nu i (interval_I x pinf ninf).1 (interval_I x pinf ninf).2

/-- **the mass the code assigns to an interval on one side of 0 is the marginal Lévy measure of that interval**, for every
    additive `integrate` (C09): `0 < a ≤ b` or `a ≤ b < 0` -/
theorem src_mass1d_is_marginal_measure (nu : Int → Rat → Rat → Rat) (pinf ninf : Rat) (i : Int)
    (hadd : ∀ x y z, x ≤ y → y ≤ z → nu i x z = nu i x y + nu i y z) (a b : Rat) (hab : a ≤ b) (hN : ninf ≤ a)
    (hP : b ≤ pinf) (h : 0 < a ∨ b < 0) :
    LevyCopulaModel_mass_1d a b i (tailOfMeasure nu pinf ninf) = nu i a b := by
  simp only [LevyCopulaModel_mass_1d, tailOfMeasure]
  rcases h with h | h
  · have hb : 0 < b := lt_of_lt_of_le h hab
    rw [src_sign_float_pos a h, src_sign_float_pos b hb, src_interval_I_pos a _ _ h, src_interval_I_pos b _ _ hb]
    have := hadd a b pinf hab hP
    simp only []
    linarith
  · have ha : a < 0 := lt_of_le_of_lt hab h
    rw [src_sign_float_neg a ha, src_sign_float_neg b h, src_interval_I_neg a _ _ ha, src_interval_I_neg b _ _ h]
    have := hadd ninf a b hN hab
    simp only []
    linarith

/-- **whole line in the other coordinate ⇒ the marginal Lévy measure** (d = 2, through the translated `_mass_2d`,
    `sign`, `interval_I`): the chain "sums to the corresponding marginal Lévy-measure mass" of C12 on the source -/
theorem src_mass2d_whole_line_is_marginal_measure (mti : List Int → List Rat → Rat) (nu : Int → Rat → Rat → Rat)
    (pinf ninf : Rat) (H : Rpylib.CopulaMass.VanishAtInf (tailOf mti (tailOfMeasure nu pinf ninf)) ninf pinf)
    (hN : ninf < 0) (hP : 0 < pinf) (i1 i2 : Nat)
    (hadd : ∀ x y z, x ≤ y → y ≤ z → nu i2 x z = nu i2 x y + nu i2 y z) (a b : Rat) (hab : a ≤ b) (hNa : ninf ≤ a)
    (hbP : b ≤ pinf) (h : 0 < a ∨ b < 0) :
    LevyCopulaModel_mass_2d [ninf, a] [pinf, b] [(i1 : Int), (i2 : Int)] false mti (tailOfMeasure nu pinf ninf) = nu i2 a b := by
  have s2 : ¬ Str a b := by
    rintro ⟨h1, h2⟩
    rcases h with h | h
    · exact absurd h1 (not_lt.mpr (le_of_lt h))
    · exact absurd h2 (not_lt.mpr (le_of_lt h))
  rw [src_mass2d_whole_line1 mti _ ninf pinf H hN hP i1 i2 a b s2]
  exact src_mass1d_is_marginal_measure nu pinf ninf i2 hadd a b hab hNa hbP h

/-- non-vacuity: Lebesgue measure restricted to (−1000, 1000) is additive; a positive-side interval -/
example : LevyCopulaModel_mass_1d (1/2) 3 0 (tailOfMeasure (fun _ lo hi => hi - lo) 1000 (-1000)) = 3 - 1/2 :=
  src_mass1d_is_marginal_measure (fun _ lo hi => hi - lo) 1000 (-1000) 0 (by intros; ring) (1/2) 3 (by norm_num)
    (by norm_num) (by norm_num) (Or.inl (by norm_num))

end tails

end Rpylib.SrcTie.C12
