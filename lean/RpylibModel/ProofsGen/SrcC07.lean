/-
C07 — source-derived tie for the estimators of the standard Monte-Carlo engine.  `RpylibModel/Generated/SrcC07.lean` is rewritten
on every run from the text of /repo's current working tree (list in harness/srcspec/C07.py):
  rpylib/montecarlo/statistic/tools.py      `mean`, `stddev`, `mc_stddev`        (the array paths × payoff components)
  rpylib/montecarlo/statistic/statistic.py  `Statistic.add`, `MCStatistics._get_payoff_statistics`
  rpylib/montecarlo/path.py                 `MCPath.discount`
  rpylib/product/product.py                 `Product.__call__`, `ControlVariates.helper_compute_coefficients`, the loop of
                                            `ControlVariates.compute_coefficients` (scalar prices / one price per component)
A 2-d numpy array is the list of its rows; `Rect m d`: every row has `d` entries; `ent m i j`, `col m c`, `at1 l i`: entries
(RpylibModel/Lemmas/SrcC07Lists.lean).  Collaborators are parameters, universally quantified:
  `sqrt`          `np.sqrt` (also the one inside `np.std`); assumed only: root certificates `sqrt v * sqrt v = v` at the values the
                  code takes the root of (an exact root satisfies them; ℚ has no total square root);
  `pinv`          `np.linalg.pinv(matrix, rcond, hermitian)`; assumed, where a statement needs it: at the arguments of the call
                  site its result solves the normal equations Σ_X b = Σ_XY (k controls), resp. is `[[1/v]]` for the 1×1 matrix
                  `[[v]]` (one control) — written `∃ rcond hermitian, (assumption at these arguments → conclusion)`: the
                  arguments are the ones the source passes, whatever literal that is;
  `pinv_raises`   "the try block raised LinAlgError" (then the code falls back to b = 0);
  `payoff`        the payoff of a product: underlying ↦ one value per payoff component.

Obligations (what C07 says about these functions; all sample sizes, payoff dimensions, numbers of controls):
 * price: `mean` is, per payoff component, the arithmetic mean over exactly the rows of the array; the rows written by
   `Statistic.add` at the iteration indices 0..n-1 are the n path values, each once, whatever the array held before; with
   `Product.__call__` and `MCPath.discount`: price = discount factor × notional × mean payoff (`src_price_textbook`); the
   sample reported is the adjusted one exactly when controls are configured and not switched off (`src_statistics_selection`);
 * error: `stddev`² · (n − 1) = Σ (x − mean)² per component (unbiased, n ≥ 2); `mc_stddev`² · n = that variance — the divisor is
   the number of paths, not the number of array entries (`src_mc_stddev_sq`, `src_mc_stddev_component`);
 * control variates: the adjusted sample is `Y − b·(X − prices)` for ONE coefficient vector computed from all rows
   (`src_helper_form`: b = 0 in the two fallback branches, else `pinv(Σ_X) Σ_XY` on the sample covariances — whatever divisor
   n − ddof the source uses, the coefficients do not depend on it); the fallback is taken only for a degenerate Σ_X (an entry
   below a threshold ≤ 10⁻¹¹) or a LinAlgError (`src_cv_regression_coefficient`); its mean is
   `mean Y − Σ b_j (mean X_j − price_j)`, = `mean Y` when the controls' sample means equal their prices, for every b
   (`src_cv_mean`, `src_cv_mean_identity`); its sample variance (biased and unbiased) never exceeds the raw one when the
   coefficients solve the normal equations (`src_cv_var_le_raw`, `src_cv_stderr_le_raw`); one control: b = cov/var (first-order
   condition) and b minimises the sample variance over all coefficients (`src_cv_one_control`);
 * components: the loop of `compute_coefficients` fills column c of the result with the kernel applied to column c of Y and
   to X[:, :, c] only, with the prices of that component, whatever the `np.empty_like` array contained
   (`src_compute_coefficients_scalar_prices`, `…_vector_prices`).
Equality with the hand-written model (`RpylibModel/Model/Stats.lean`) is in `SrcC07Model.lean` (alignment).
-/
import RpylibModel.Generated.SrcC07
import RpylibModel.Lemmas.SrcC07Lists
import RpylibModel.Proofs.C07
import Mathlib.Tactic.Linarith
import Mathlib.Tactic.Ring
import Mathlib.Tactic.FieldSimp
import Mathlib.Tactic.Positivity
import Mathlib.Algebra.Order.Field.Rat

set_option linter.unusedSimpArgs false
set_option linter.unusedVariables false
set_option linter.unreachableTactic false
set_option linter.unusedTactic false
set_option linter.unnecessarySeqFocus false

namespace Rpylib.SrcTie.C07
open Rpylib.Src.C07 Rpylib.Stats

/-! ## 1. price: the mean over the rows; each path stored once -/

variable (sims : List (List Rat)) (d : Nat)

theorem src_mean_length (hn : sims ≠ []) (hr : Rect sims d) : (mean sims).length = d := by
  simp only [Rpylib.Src.C07.mean]
  first | exact meanAxis0_length sims d hn hr | (rw [meanAxis0_length sims d hn hr])

/-- **`mean`, per payoff component: the sum of the component over the rows divided by the number of rows** -/
theorem src_mean_component (hn : sims ≠ []) (hr : Rect sims d) (c : Nat) (hc : c < d) :
    (mean sims).getD c 0 * (sims.length : Rat) = sumTo sims.length (fun i => ent sims i c) := by
  have hpos : (sims.length : Rat) ≠ 0 := by
    have : 0 < sims.length := List.length_pos_iff.mpr hn
    exact_mod_cast this.ne'
  simp only [Rpylib.Src.C07.mean]
  rw [meanAxis0_getD sims d hn hr c hc]
  unfold Rpylib.Stats.mean
  field_simp

/-! ## 2. error: unbiased standard deviation per component, divided by the root of the number of paths -/

variable (sqrt : Rat → Rat)

theorem src_stddev_length (hn : sims ≠ []) (hr : Rect sims d) (h1 : sims.length ≠ 1) : (stddev sims sqrt).length = d := by
  simp only [Rpylib.Src.C07.stddev]
  split_ifs with h <;> first
    | (exfalso; omega)
    | rw [List.length_map, varAxis0_length sims d hn hr]

/-- `stddev`, per payoff component: the root of the unbiased sample variance `Σ (x − mean)² / (n − 1)` of that component -/
theorem src_stddev_component (hn : sims ≠ []) (hr : Rect sims d) (h1 : sims.length ≠ 1) (c : Nat) (hc : c < d) :
    (stddev sims sqrt).getD c 0 = sqrt (varU sims.length (fun i => ent sims i c)) := by
  simp only [Rpylib.Src.C07.stddev]
  split_ifs with h <;> first
    | (exfalso; omega)
    | rw [getD_map_lt sqrt _ c (by rw [varAxis0_length sims d hn hr]; exact hc), varAxis0_one_getD sims d hn hr c hc]

/-- **`stddev`² · (n − 1) = Σ (x_i − mean)²** per component, for every sample size n ≥ 2 (root certificate at the variance) -/
theorem src_stddev_sq (hr : Rect sims d) (h2 : 2 ≤ sims.length) (c : Nat) (hc : c < d)
    (hcert : sqrt (varU sims.length (fun i => ent sims i c)) * sqrt (varU sims.length (fun i => ent sims i c))
              = varU sims.length (fun i => ent sims i c)) :
    (stddev sims sqrt).getD c 0 ^ 2 * ((sims.length : Rat) - 1)
      = sumTo sims.length (fun i => (ent sims i c - Rpylib.Stats.mean sims.length (fun i => ent sims i c))
                                      * (ent sims i c - Rpylib.Stats.mean sims.length (fun i => ent sims i c))) := by
  have hn : sims ≠ [] := by intro h; rw [h] at h2; simp at h2
  rw [src_stddev_component sims d sqrt hn hr (by omega) c hc, pow_two, hcert, varU_def]
  have : ((sims.length : Rat) - 1) ≠ 0 := by
    have : (2 : Rat) ≤ sims.length := by exact_mod_cast h2
    linarith
  field_simp

theorem src_mc_stddev_length (hn : sims ≠ []) (hr : Rect sims d) (h1 : sims.length ≠ 1) : (mc_stddev sims sqrt).length = d := by
  simp only [Rpylib.Src.C07.mc_stddev, List.length_map]
  exact src_stddev_length sims d sqrt hn hr h1

/-- `mc_stddev`, per payoff component: the unbiased standard deviation of the component divided by the root of the number of
    PATHS (rows) — not of the number of array entries, whatever the payoff dimension -/
theorem src_mc_stddev_component (hn : sims ≠ []) (hr : Rect sims d) (h1 : sims.length ≠ 1) (c : Nat) (hc : c < d) :
    (mc_stddev sims sqrt).getD c 0 = sqrt (varU sims.length (fun i => ent sims i c)) / sqrt (sims.length : Rat) := by
  simp only [Rpylib.Src.C07.mc_stddev]
  rw [getD_map_lt _ _ c (by rw [src_stddev_length sims d sqrt hn hr h1]; exact hc), src_stddev_component sims d sqrt hn hr h1 c hc]
  simp only [Int.cast_natCast]

/-- **`mc_stddev`² · n = unbiased sample variance** of the component, n = number of paths ≥ 2 (root certificates at the variance
    and at n) -/
theorem src_mc_stddev_sq (hr : Rect sims d) (h2 : 2 ≤ sims.length) (c : Nat) (hc : c < d)
    (hcert : sqrt (varU sims.length (fun i => ent sims i c)) * sqrt (varU sims.length (fun i => ent sims i c))
              = varU sims.length (fun i => ent sims i c))
    (hcertn : sqrt (sims.length : Rat) * sqrt (sims.length : Rat) = (sims.length : Rat)) :
    (mc_stddev sims sqrt).getD c 0 ^ 2 * (sims.length : Rat) = varU sims.length (fun i => ent sims i c) := by
  have hn : sims ≠ [] := by intro h; rw [h] at h2; simp at h2
  have hpos : (sims.length : Rat) ≠ 0 := by
    have : (2 : Rat) ≤ sims.length := by exact_mod_cast h2
    linarith
  have hs : sqrt (sims.length : Rat) ≠ 0 := by
    intro h0; rw [h0] at hcertn; apply hpos; rw [← hcertn]; ring
  rw [src_mc_stddev_component sims d sqrt hn hr (by omega) c hc, div_pow, pow_two, pow_two, hcert, hcertn]
  field_simp

/-- a square root on the values below (ℚ has no total one): the certificates are satisfiable -/
def sqrtDemo (x : Rat) : Rat := if x = 4 then 2 else if x = 16 then 4 else if x = 1 then 1 else 0

/-- non-vacuity: 4 paths, 2 components; unbiased variance 4 in both components, `mc_stddev` = 2 / 2 -/
example : Rect [[1, 6], [1, 2], [1, 2], [5, 2]] 2 ∧ mean [[1, 6], [1, 2], [1, 2], [5, 2]] = [2, 3]
    ∧ (∀ c, c < 2 → sqrtDemo (varU 4 (fun i => ent [[1, 6], [1, 2], [1, 2], [5, 2]] i c))
          * sqrtDemo (varU 4 (fun i => ent [[1, 6], [1, 2], [1, 2], [5, 2]] i c))
          = varU 4 (fun i => ent [[1, 6], [1, 2], [1, 2], [5, 2]] i c))
    ∧ sqrtDemo ((4 : Nat) : Rat) * sqrtDemo ((4 : Nat) : Rat) = ((4 : Nat) : Rat)
    ∧ stddev [[1, 6], [1, 2], [1, 2], [5, 2]] sqrtDemo = [2, 2]
    ∧ mc_stddev [[1, 6], [1, 2], [1, 2], [5, 2]] sqrtDemo = [1, 1] := by
  refine ⟨?_, ?_, ?_, ?_, ?_, ?_⟩
  · intro r hr; simp at hr; rcases hr with rfl | rfl | rfl | rfl <;> rfl
  · decide +kernel
  · intro c hc
    have : c = 0 ∨ c = 1 := by omega
    rcases this with rfl | rfl <;> decide +kernel
  all_goals decide +kernel

/-! ## 3. each path once; price = discount factor × notional × mean payoff -/

/-- `Statistic.add(simulation, variable)`: row `simulation` of the array becomes `variable`, nothing else changes -/
theorem src_add_row (i : Nat) (x : List Rat) (a : List (List Rat)) : Statistic_add (i : Int) x a = a.set i x := by
  simp only [Rpylib.Src.C07.Statistic_add, setAt_nat]

/-- **each path used once**: after `add` at the iteration indices 0 .. n-1 the array of n rows holds the value of path i in
    row i — nothing left of its previous content, nothing overwritten -/
theorem src_add_each_path_once (v : Nat → List Rat) (a0 : List (List Rat)) :
    (List.range a0.length).foldl (fun a (i : Nat) => Statistic_add (i : Int) (v i) a) a0 = (List.range a0.length).map v := by
  have h : (fun (a : List (List Rat)) (i : Nat) => Statistic_add (i : Int) (v i) a) = fun a i => a.set i (v i) := by
    funext a i; exact src_add_row i (v i) a
  rw [h, foldl_set_range v a0 a0.length (Nat.le_refl _)]
  simp

/-- `MCPath.discount(df)`: payoff and control payoffs are multiplied by the discount factor -/
theorem src_discount (df : Rat) (p : List Rat) (cv : List (List Rat)) :
    MCPath_discount df p cv = (p.map (fun v => df * v), cv.map (fun r => r.map (fun v => df * v))) := by
  simp only [Rpylib.Src.C07.MCPath_discount, Prod.mk.injEq] <;> constructor
  · apply List.map_congr_left; intro v _; ring1
  · apply List.map_congr_left; intro r _; apply List.map_congr_left; intro v _; ring1

/-- `Product.__call__`: notional × payoff, per component -/
theorem src_product_call (u notional : Rat) (payoff : Rat → List Rat) :
    Product_call u notional payoff = (payoff u).map (fun v => notional * v) := by
  simp only [Rpylib.Src.C07.Product_call] <;> (apply List.map_congr_left; intro v _; ring1)

/-- **price = discount factor × notional × arithmetic mean of the payoff over exactly the n simulated paths**, per payoff
    component: the array is filled by `add` at the iteration index with the discounted `Product.__call__` of path i's underlying
    `u i`, then `mean` is taken — whatever the array held before, whatever the control payoffs are -/
theorem src_price_textbook (a0 : List (List Rat)) (hn : a0 ≠ []) (u : Nat → Rat) (payoff : Rat → List Rat)
    (hd : ∀ i, (payoff (u i)).length = d) (df notional : Rat) (cv : Nat → List (List Rat)) (c : Nat) (hc : c < d) :
    (mean ((List.range a0.length).foldl
        (fun a (i : Nat) => Statistic_add (i : Int) (MCPath_discount df (Product_call (u i) notional payoff) (cv i)).1 a) a0)).getD c 0
      = df * (notional * Rpylib.Stats.mean a0.length (fun i => (payoff (u i)).getD c 0)) := by
  rw [src_add_each_path_once (fun i => (MCPath_discount df (Product_call (u i) notional payoff) (cv i)).1) a0]
  have hne : (List.range a0.length).map (fun i => (MCPath_discount df (Product_call (u i) notional payoff) (cv i)).1) ≠ [] := by
    have : 0 < a0.length := List.length_pos_iff.mpr hn
    intro h0
    have h1 := congrArg List.length h0
    simp only [List.length_map, List.length_range, List.length_nil] at h1
    omega
  have hrect : Rect ((List.range a0.length).map (fun i => (MCPath_discount df (Product_call (u i) notional payoff) (cv i)).1)) d := by
    intro r hr
    simp only [List.mem_map, List.mem_range] at hr
    obtain ⟨i, _, rfl⟩ := hr
    rw [src_discount, src_product_call]; simp [hd i]
  simp only [Rpylib.Src.C07.mean]
  rw [meanAxis0_getD _ d hne hrect c hc, List.length_map, List.length_range, ← price_is_df_notional_mean]
  apply mean_congr
  intro i hi
  simp only [ent, List.getD_eq_getElem?_getD, List.getElem?_map, List.getElem?_range hi, Option.map_some, Option.getD_some]
  rw [src_discount, src_product_call]
  have hcd : c < (payoff (u i)).length := by rw [hd i]; exact hc
  simp [List.getElem?_map, List.getElem?_eq_getElem hcd] <;> ring1

/-- non-vacuity: three paths with underlyings 0, 1, 2, a call struck at 1, notional 10, discount factor 1/2, an array that held
    7s before: price 1/2 · 10 · (0 + 0 + 1)/3 -/
example : mean ((List.range 3).foldl (fun a (i : Nat) => Statistic_add (i : Int)
      (MCPath_discount (1 / 2) (Product_call (i : Rat) 10 (fun s => [if s < 1 then 0 else s - 1])) []).1 a) [[7], [7], [7]])
    = [5 / 3] := by decide +kernel

/-- **which sample is reported**: the adjusted sample exactly when control variates are configured and not switched off by
    the caller, the raw sample otherwise (`price`, `mc_stddev`, `get_mean` all read the array selected here) -/
theorem src_statistics_selection (no_cv no_stats : Bool) (raw adjusted : List (List Rat)) :
    (no_cv = false → no_stats = false → MCStatistics_get_payoff_statistics no_cv raw adjusted no_stats = adjusted)
    ∧ (no_cv = true ∨ no_stats = true → MCStatistics_get_payoff_statistics no_cv raw adjusted no_stats = raw) := by
  cases no_cv <;> cases no_stats <;> simp [Rpylib.Src.C07.MCStatistics_get_payoff_statistics]

/-! ## 4. control variates: the regression kernel `helper_compute_coefficients` -/

variable (pinv : List (List Rat) → Rat → Bool → List (List Rat)) (raises : Bool) (x : List (List Rat)) (y prices : List Rat)

/-- **the adjusted sample is `Y − b·(X − prices)` for one coefficient vector b computed from all rows**: b = 0 in the fallback
    branches (LinAlgError, guard on the entries of Σ_X), otherwise `pinv(Σ_X, rcond, hermitian) Σ_XY` with the sample
    covariances Σ_X of the controls and Σ_XY of controls and payoff (numpy divisor n − ddof; the source: `bias=True`, ddof = 0).
    (x: paths × controls, at least one of each.) -/
theorem src_helper_form (hx : x ≠ []) (hk : 0 < prices.length) (hr : Rect x prices.length) (hy : y.length = x.length) :
    ∃ b : List Rat, ControlVariates_helper_compute_coefficients x y prices pinv raises = adjusted b x y prices
      ∧ ((∀ j, at1 b j = 0) ∨ ∃ rc herm ddof, b = Rpylib.Py.matVec (pinv (sigmaX x ddof) rc herm) (sigmaXY x y ddof)) := by
  simp only [Rpylib.Src.C07.ControlVariates_helper_compute_coefficients, sigma_x_eq, sigma_xy_eq]
  split_ifs <;> first
    | exact ⟨_, sub_vecMat_eq _ x y prices hx hk hr hy, Or.inl (at1_zeros _)⟩
    | exact ⟨_, sub_vecMat_eq _ x y prices hx hk hr hy, Or.inr ⟨_, _, _, rfl⟩⟩
    | exact ⟨_, sub_matVec_eq _ x y prices hr hy, Or.inl (at1_zeros _)⟩
    | exact ⟨_, sub_matVec_eq _ x y prices hr hy, Or.inr ⟨_, _, _, rfl⟩⟩

/-- the result has one entry per path -/
theorem src_helper_length (hx : x ≠ []) (hk : 0 < prices.length) (hr : Rect x prices.length) (hy : y.length = x.length) :
    (ControlVariates_helper_compute_coefficients x y prices pinv raises).length = x.length := by
  obtain ⟨b, hb, _⟩ := src_helper_form pinv raises x y prices hx hk hr hy
  rw [hb, adjusted_length]

/-- **mean of the adjusted sample = mean Y − Σ_j b_j (mean X_j − price_j)** (b the coefficient vector of `src_helper_form`) -/
theorem src_cv_mean (hx : x ≠ []) (hk : 0 < prices.length) (hr : Rect x prices.length) (hy : y.length = x.length) :
    ∃ b : List Rat, ControlVariates_helper_compute_coefficients x y prices pinv raises = adjusted b x y prices
      ∧ Rpylib.Py.mean (ControlVariates_helper_compute_coefficients x y prices pinv raises)
          = Rpylib.Py.mean y - sumTo prices.length (fun j => at1 b j * (Rpylib.Py.mean (col x j) - at1 prices j)) := by
  obtain ⟨b, hb, _⟩ := src_helper_form pinv raises x y prices hx hk hr hy
  exact ⟨b, hb, by rw [hb, mean_adjusted b x y prices hx hy]⟩

/-- **the adjusted price coincides with the raw mean when the controls' sample means equal their given prices** — for every
    `pinv`, in every branch, any number of controls -/
theorem src_cv_mean_identity (hx : x ≠ []) (hk : 0 < prices.length) (hr : Rect x prices.length) (hy : y.length = x.length)
    (hm : ∀ j, j < prices.length → Rpylib.Py.mean (col x j) = at1 prices j) :
    Rpylib.Py.mean (ControlVariates_helper_compute_coefficients x y prices pinv raises) = Rpylib.Py.mean y := by
  obtain ⟨b, _, hb⟩ := src_cv_mean pinv raises x y prices hx hk hr hy
  rw [hb]
  have : sumTo prices.length (fun j => at1 b j * (Rpylib.Py.mean (col x j) - at1 prices j)) = sumTo prices.length (fun _ => 0) := by
    apply sumTo_congr; intro j hj; rw [hm j hj]; ring
  rw [this, sumTo_const]; ring

/-- **the sample variance of the adjusted sample never exceeds the raw one** when the coefficients the pseudo-inverse delivers
    at the call's arguments solve the normal equations Σ_X b = Σ_XY (in the fallback branches: unconditionally).  `ddof` is the
    divisor convention of the covariances the source computes (n − ddof ≠ 0: otherwise numpy's covariances are not defined). -/
theorem src_cv_var_le_raw (hx : x ≠ []) (hk : 0 < prices.length) (hr : Rect x prices.length) (hy : y.length = x.length) :
    ∃ rc herm ddof, (x.length : Int) ≠ ddof →
      Rpylib.Py.matVec (sigmaX x ddof) (Rpylib.Py.matVec (pinv (sigmaX x ddof) rc herm) (sigmaXY x y ddof)) = sigmaXY x y ddof →
      Rpylib.Py.var (ControlVariates_helper_compute_coefficients x y prices pinv raises) 0 ≤ Rpylib.Py.var y 0 := by
  obtain ⟨b, hb, hcase⟩ := src_helper_form pinv raises x y prices hx hk hr hy
  rcases hcase with h0 | ⟨rc, herm, ddof, rfl⟩
  · refine ⟨0, true, 0, fun _ _ => ?_⟩
    rw [hb, adjusted_zero b x y prices h0 hy]
  · refine ⟨rc, herm, ddof, fun hdd hne => ?_⟩
    rw [hb]
    exact var_adjusted_le _ x y prices ddof hx hr hy hdd hne

/-- the same for the unbiased sample variance — the square of the reported Monte-Carlo error times n — for n ≥ 2 paths -/
theorem src_cv_stderr_le_raw (h2 : 2 ≤ x.length) (hk : 0 < prices.length) (hr : Rect x prices.length) (hy : y.length = x.length) :
    ∃ rc herm ddof, (x.length : Int) ≠ ddof →
      Rpylib.Py.matVec (sigmaX x ddof) (Rpylib.Py.matVec (pinv (sigmaX x ddof) rc herm) (sigmaXY x y ddof)) = sigmaXY x y ddof →
      Rpylib.Py.var (ControlVariates_helper_compute_coefficients x y prices pinv raises) 1 ≤ Rpylib.Py.var y 1 := by
  have hx : x ≠ [] := by intro h; rw [h] at h2; simp at h2
  obtain ⟨rc, herm, ddof, h⟩ := src_cv_var_le_raw pinv raises x y prices hx hk hr hy
  refine ⟨rc, herm, ddof, fun hdd hne => ?_⟩
  apply var_one_le_of_var_zero_le _ _ (by rw [src_helper_length pinv raises x y prices hx hk hr hy, hy]) (by omega) (h hdd hne)

/-- **one control**: the coefficient is 0 (fallback) or satisfies the first-order condition `b · var X = cov(X, Y)`
    (b = cov/var); a coefficient satisfying it MINIMISES the sample variance of `Y − β (X − price)` over all β; the adjusted
    variance never exceeds the raw one.  Assumed of the pseudo-inverse: `pinv [[v]] = [[1/v]]` at the call's arguments (v the
    sample variance of the control with the source's divisor n − ddof ≠ 0). -/
theorem src_cv_one_control (hx : x ≠ []) (hp : prices.length = 1) (hr : Rect x 1) (hy : y.length = x.length) :
    ∃ rc herm ddof, (x.length : Int) ≠ ddof →
      pinv [[Rpylib.Py.var (col x 0) ddof]] rc herm = [[1 / Rpylib.Py.var (col x 0) ddof]] →
      ∃ b : Rat, ControlVariates_helper_compute_coefficients x y prices pinv raises = adjusted [b] x y prices
        ∧ (b = 0 ∨ b * Rpylib.Py.var (col x 0) 0 = Rpylib.Py.cov (col x 0) y 0)
        ∧ (b * Rpylib.Py.var (col x 0) 0 = Rpylib.Py.cov (col x 0) y 0 →
            ∀ β, Rpylib.Py.var (adjusted [b] x y prices) 0 ≤ Rpylib.Py.var (adjusted [β] x y prices) 0)
        ∧ Rpylib.Py.var (ControlVariates_helper_compute_coefficients x y prices pinv raises) 0 ≤ Rpylib.Py.var y 0 := by
  have hk : 0 < prices.length := by omega
  have hr' : Rect x prices.length := by rw [hp]; exact hr
  have hv : 0 ≤ Rpylib.Py.var (col x 0) 0 := pyVar_zero_nonneg _
  have hmin : ∀ b0 : Rat, b0 * Rpylib.Py.var (col x 0) 0 = Rpylib.Py.cov (col x 0) y 0 →
      ∀ β, Rpylib.Py.var (adjusted [b0] x y prices) 0 ≤ Rpylib.Py.var (adjusted [β] x y prices) 0 := by
    intro b0 hfoc β
    rw [var_adjusted_one b0 x y prices hx hp hy, var_adjusted_one β x y prices hx hp hy, ← hfoc]
    nlinarith [mul_nonneg hv (mul_self_nonneg (β - b0))]
  have hzero : adjusted [0] x y prices = y := adjusted_zero [0] x y prices (by intro j; cases j <;> simp [at1]) hy
  obtain ⟨b, hb, hcase⟩ := src_helper_form pinv raises x y prices hx hk hr' hy
  rcases hcase with h0 | ⟨rc, herm, ddof, rfl⟩
  · have hy' : adjusted b x y prices = y := adjusted_zero b x y prices h0 hy
    refine ⟨0, true, 0, fun _ _ => ⟨0, by rw [hb, hy', hzero], Or.inl rfl, hmin 0, by rw [hb, hy']⟩⟩
  · refine ⟨rc, herm, ddof, fun hdd hpinv => ?_⟩
    rw [sigmaX_one x ddof hx hr, sigmaXY_one x y ddof hx hr, hpinv] at hb
    have hfoc := foc_one (col x 0) y ddof (by intro h; apply hx; simpa [col] using h) (by rw [col_length, hy])
      (by rw [col_length]; exact hdd)
    have hb' : ControlVariates_helper_compute_coefficients x y prices pinv raises
        = adjusted [1 / Rpylib.Py.var (col x 0) ddof * Rpylib.Py.cov (col x 0) y ddof] x y prices := by
      rw [hb]
      apply adjusted_congr
      intro j
      cases j <;> simp [at1, Rpylib.Py.matVec, Rpylib.Py.dot]
    refine ⟨_, hb', Or.inr hfoc, hmin _, ?_⟩
    rw [hb']
    have := hmin _ hfoc 0
    rwa [hzero] at this

/-- **b is the sample regression coefficient whenever Σ_X is not degenerate**: there is a threshold ε ≤ 10⁻¹¹ (the guard literal
    of the source) such that, without LinAlgError, if no entry of Σ_X is smaller than ε in absolute value the coefficient vector
    is `pinv(Σ_X) Σ_XY` — the fallback b = 0 is taken only for a degenerate Σ_X -/
theorem src_cv_regression_coefficient (hx : x ≠ []) (hk : 0 < prices.length) (hr : Rect x prices.length) (hy : y.length = x.length) :
    ∃ (ε rc : Rat) (herm : Bool) (ddof : Int), ε ≤ 1 / 100000000000 ∧
      (raises = false →
       ε ≤ Rpylib.Py.rminList (List.flatten ((sigmaX x ddof).map (fun r => r.map Rpylib.Py.rabs))) →
       ControlVariates_helper_compute_coefficients x y prices pinv raises
         = adjusted (Rpylib.Py.matVec (pinv (sigmaX x ddof) rc herm) (sigmaXY x y ddof)) x y prices) := by
  apply Exists.intro; apply Exists.intro; apply Exists.intro; apply Exists.intro
  refine ⟨?bound, ?main⟩
  case main =>
    intro hraises hε
    rw [hraises]
    simp only [Rpylib.Src.C07.ControlVariates_helper_compute_coefficients, sigma_x_eq, sigma_xy_eq, Bool.false_eq_true, if_false]
    split_ifs with hg <;> first
      | exact absurd (lt_of_le_of_lt hε hg) (lt_irrefl _)
      | exact sub_vecMat_eq _ x y prices hx hk hr hy
      | exact sub_matVec_eq _ x y prices hr hy
  case bound => norm_num

/-- non-vacuity of the kernel's hypotheses: 4 paths, one control X = (1, 2, 4, 7), price 3, payoff Y = (2, 3, 9, 11); with the
    exact inverse as `pinv` the coefficient is cov/var = 67/42 and the adjusted sample is what the real function returns -/
def pinvDemo1 (m : List (List Rat)) (_ : Rat) (_ : Bool) : List (List Rat) := [[1 / (m.getD 0 []).getD 0 0]]

example : Rect [[1], [2], [4], [7]] 1 ∧ Rpylib.Py.var (col [[1], [2], [4], [7]] 0) 0 = 21 / 4
    ∧ pinvDemo1 [[Rpylib.Py.var (col [[1], [2], [4], [7]] 0) 0]] 0 true = [[1 / Rpylib.Py.var (col [[1], [2], [4], [7]] 0) 0]]
    ∧ ControlVariates_helper_compute_coefficients [[1], [2], [4], [7]] [2, 3, 9, 11] [3] pinvDemo1 false
        = [109 / 21, 193 / 42, 311 / 42, 97 / 21]
    ∧ Rpylib.Py.matVec (sigmaX [[1], [2], [4], [7]] 0)
          (Rpylib.Py.matVec (pinvDemo1 (sigmaX [[1], [2], [4], [7]] 0) 0 true) (sigmaXY [[1], [2], [4], [7]] [2, 3, 9, 11] 0))
        = sigmaXY [[1], [2], [4], [7]] [2, 3, 9, 11] 0
    ∧ Rpylib.Py.var [109 / 21, 193 / 42, 311 / 42, 97 / 21] 0 < Rpylib.Py.var [2, 3, 9, 11] 0 := by
  refine ⟨?_, ?_, ?_, ?_, ?_, ?_⟩
  · intro r hr; simp at hr; rcases hr with rfl | rfl | rfl | rfl <;> rfl
  all_goals decide +kernel

/-! ## 5. one coefficient vector per payoff component: the loop of `compute_coefficients` -/

variable (X : List (List (List Rat))) (Y : List (List Rat)) (k : Nat)

/-- **scalar prices**: entry (i, c) of the adjusted array is entry i of the kernel applied to `X[:, :, c]` (`slab X c`), column c
    of `Y` and the prices — computed from component c only, over all paths; nothing of the `np.empty_like` array survives.
    Shapes: X is paths × controls × components (n × k × d, all ≥ 1), Y is n × d, one price per control. -/
theorem src_compute_coefficients_scalar_prices (hX : X ≠ []) (hk : 0 < k) (hd : 0 < d)
    (hXs : ∀ Xi ∈ X, Xi.length = k ∧ Rect Xi d) (hY : Y.length = X.length) (hYr : Rect Y d) (hp : prices.length = k) :
    ControlVariates_compute_coefficients_scalar_prices X Y prices pinv raises
      = (List.range X.length).map (fun i => (List.range d).map (fun c =>
          at1 (ControlVariates_helper_compute_coefficients (slab X c) (col Y c) prices pinv raises) i)) := by
  have hY0 : Y ≠ [] := by intro h; rw [h] at hY; exact hX (List.length_eq_zero_iff.mp hY.symm)
  have hXs' : ∀ Xi ∈ X, Xi ≠ [] ∧ Rect Xi d := fun Xi h => ⟨by intro h0; have := (hXs Xi h).1; rw [h0] at this; simp at this; omega, (hXs Xi h).2⟩
  have hslab : ∀ c, slab X c ≠ [] := by intro c h; apply hX; simpa [slab] using h
  have hsr : ∀ c, Rect (slab X c) prices.length := fun c => by rw [hp]; exact slab_rect X k c (fun Xi h => (hXs Xi h).1)
  simp only [Rpylib.Src.C07.ControlVariates_compute_coefficients_scalar_prices]
  rw [transpose3 X d hX hXs', transpose_rect Y d hY0 hYr, List.zip_map', enumerate_map_range, List.foldl_map]
  rw [foldl_range_congr _ (fun acc (c : Nat) => Rpylib.Py.setCol acc (c : Int)
      (ControlVariates_helper_compute_coefficients (slab X c) (col Y c) prices pinv raises)) d _
      (fun acc c hc => by simp only [transpose_transpose (slab X c) prices.length (hslab c) (by omega) (hsr c)])]
  rw [foldl_setCol_range _ _ d (emptyLike2_rect _ Y d hYr)
      (fun c hc => by rw [src_helper_length pinv raises _ _ prices (hslab c) (by omega) (hsr c) (by rw [col_length, slab_length, hY]),
                          emptyLike2_length, slab_length, hY]),
    emptyLike2_length, hY]

/-- **one price per control and component** (`prices[j][c]`): as above with the prices of component c, `col P c` -/
theorem src_compute_coefficients_vector_prices (P : List (List Rat)) (hX : X ≠ []) (hk : 0 < k) (hd : 0 < d)
    (hXs : ∀ Xi ∈ X, Xi.length = k ∧ Rect Xi d) (hY : Y.length = X.length) (hYr : Rect Y d) (hp : P.length = k) :
    ControlVariates_compute_coefficients_vector_prices X Y P pinv raises
      = (List.range X.length).map (fun i => (List.range d).map (fun c =>
          at1 (ControlVariates_helper_compute_coefficients (slab X c) (col Y c) (col P c) pinv raises) i)) := by
  have hY0 : Y ≠ [] := by intro h; rw [h] at hY; exact hX (List.length_eq_zero_iff.mp hY.symm)
  have hXs' : ∀ Xi ∈ X, Xi ≠ [] ∧ Rect Xi d := fun Xi h => ⟨by intro h0; have := (hXs Xi h).1; rw [h0] at this; simp at this; omega, (hXs Xi h).2⟩
  have hslab : ∀ c, slab X c ≠ [] := by intro c h; apply hX; simpa [slab] using h
  have hpl : ∀ c, (col P c).length = k := fun c => by rw [col_length, hp]
  have hsr : ∀ c, Rect (slab X c) (col P c).length := fun c => by rw [hpl c]; exact slab_rect X k c (fun Xi h => (hXs Xi h).1)
  have hcol : ∀ c : Nat, List.map (fun (e : List Rat) => Rpylib.Py.idx e (c : Int)) P = col P c := by
    intro c; unfold col; apply List.map_congr_left; intro e _; exact idx_nat e c
  simp only [Rpylib.Src.C07.ControlVariates_compute_coefficients_vector_prices]
  rw [transpose3 X d hX hXs', transpose_rect Y d hY0 hYr, List.zip_map', enumerate_map_range, List.foldl_map]
  rw [foldl_range_congr _ (fun acc (c : Nat) => Rpylib.Py.setCol acc (c : Int)
      (ControlVariates_helper_compute_coefficients (slab X c) (col Y c) (col P c) pinv raises)) d _
      (fun acc c hc => by simp only [hcol c, transpose_transpose (slab X c) (col P c).length (hslab c) (by rw [hpl c]; exact hk) (hsr c)])]
  rw [foldl_setCol_range _ _ d (emptyLike2_rect _ Y d hYr)
      (fun c hc => by rw [src_helper_length pinv raises _ _ (col P c) (hslab c) (by rw [hpl c]; exact hk) (hsr c)
                            (by rw [col_length, slab_length, hY]), emptyLike2_length, slab_length, hY]),
    emptyLike2_length, hY]

/-- non-vacuity: 4 paths, one control, 2 payoff components; the shape hypotheses hold and the two columns are adjusted with
    their own coefficients (what the real function returns on these arrays with the exact inverse) -/
example : ControlVariates_compute_coefficients_scalar_prices [[[1, 2]], [[2, 0]], [[4, 1]], [[7, 6]]]
      [[2, 1], [3, 5], [9, 2], [11, 4]] [3] pinvDemo1 false
    = [[109 / 21, 87 / 83], [193 / 42, 427 / 83], [311 / 42, 174 / 83], [97 / 21, 320 / 83]]
    ∧ ControlVariates_compute_coefficients_vector_prices [[[1, 2]], [[2, 0]], [[4, 1]], [[7, 6]]]
      [[2, 1], [3, 5], [9, 2], [11, 4]] [[3, 2]] pinvDemo1 false
    = [[109 / 21, 1], [193 / 42, 423 / 83], [311 / 42, 170 / 83], [97 / 21, 316 / 83]] := by
  have hXs : ∀ Xi ∈ ([[[1, 2]], [[2, 0]], [[4, 1]], [[7, 6]]] : List (List (List Rat))), Xi.length = 1 ∧ Rect Xi 2 := by
    intro Xi h; simp at h
    rcases h with rfl | rfl | rfl | rfl <;> exact ⟨rfl, fun r hr => by simp at hr; subst hr; rfl⟩
  have hYr : Rect ([[2, 1], [3, 5], [9, 2], [11, 4]] : List (List Rat)) 2 := by
    intro r hr; simp at hr; rcases hr with rfl | rfl | rfl | rfl <;> rfl
  constructor
  · rw [src_compute_coefficients_scalar_prices 2 pinvDemo1 false [3] _ _ 1 (by simp) (by omega) (by omega) hXs rfl hYr rfl]
    decide +kernel
  · rw [src_compute_coefficients_vector_prices 2 pinvDemo1 false _ _ 1 [[3, 2]] (by simp) (by omega) (by omega) hXs rfl hYr rfl]
    decide +kernel

end Rpylib.SrcTie.C07
