/-
C10 — source-derived tie, second set: cumulant classes, constructed triplets, cached parameters, pure-jump exponents at a real
argument and the drifts of the exponential models.  `RpylibModel/Generated/SrcC10b.lean` is rewritten on every run by
harness/srctie.py (plug-in harness/srcspec/C10.py, translator harness/py2lean.py) from the text, in /repo's current working tree, of

  mixed/hem.py                 `_HEMCumulant.cumulant1/2/4/6`, `_HEMLevyMeasure.integrate_against_x/_xx`, the constructor of `HEMModel`
                               up to `super().__init__(model_type, levy_triplet, cumulant)`, `HEMModel.levy_exponent_pure_jump` (real
                               argument), the cached `_xi` (`HEMParameters.__init__`, `.initialisation`), `ExponentialOfHEMModel._process_drift`
  mixed/merton.py              `_MertonCumulant.cumulant1/2/4/6`, the constructor of `MertonModel`, `levy_exponent_pure_jump`,
                               `ExponentialOfMertonModel._process_drift`
  purejump/variancegamma.py    `_VGCumulant.cumulant1/2/4`, `VGParameters.__init__` / `.initialisation` (c, lambda_p, lambda_m),
                               `_VGLevyMeasure.integrate_against_x/_xx`, the constructor of `VarianceGammaModel`
  purejump/cgmy.py             `_CGMYCumulant.cumulant1/2/4/6`, the constructor of `CGMYModel`, the closed-form (straddling) branch of
                               `_CGMYLevyMeasure.integrate_against_xx`
  mixed/blackscholes.py        `_BlackScholesCumulant.cumulant1 … 6`, the cached variance of `BlackScholesParameters`, the constructor of
                               `PureDiffusiveModel`, `BlackScholesModel.process_drift`
  exponentialoflevymodel.py    `ExponentialOfLevyModel.drift`, `omega` as the constructor sets it, the drift inside
                               `log_characteristic_function`

Collaborators are parameters of the translated definitions, universally quantified here: `np.exp`, `np.sqrt`, `scipy.special.gamma`,
`gammainc` and `**` with a real exponent are arbitrary functions `exp`, `sqrt`, `gamma`, `gammainc`, `rpow` (what a theorem needs of them is
a hypothesis: `exp 0 = 1`, `sqrt v * sqrt v = v` at the one argument used, `rpow x (-e) * rpow x e = 1`, …); the tests `a == -np.inf`,
`b == np.inf` are Booleans; `levy_model.levy_exponent(x=-1j).real` is the rational `psi_minus_i`; the constructor calls `LevyTriplet(a=, sigma=,
nu=, representation=)` and `_XCumulant(drift=, parameters=)` are the records (a, sigma, representation) and drift; the members of
`LevyRepresentation` are the codes ZERO = 0, CENTER = 1, ONEONE = 2, TILDE = 3.

What C10 says about these functions, proved on the translated source (B), with the equalities to the hand-written model
(Model/Triplet.lean) that the property pins down (A) — through them the theorems of Proofs/C10.lean over ℝ apply to the SOURCE:
  * the cumulants of HEM, Merton and Black–Scholes are the derivatives at 0 of s ↦ a s + σ²s²/2 + ∫ (e^{sx} − 1) ν(dx) times t;
  * cumulant 1 / 2 of HEM and VG are (drift + first moment) t / (σ² + second moment) t with the moments the measure class itself computes
    over the whole line (translated `integrate_against_x / _xx`); VG's 4th and CGMY's 2nd cumulant against the families' closed forms;
  * every cumulant is linear in t, the even ones are non-negative;
  * the constructors hand the SAME drift to the triplet and to the cumulant class, in the representation in which it makes
    cumulant1 = (drift in the CENTER representation) · t — the conversion being the translated `LevyTriplet.center_drift` of the first tie;
  * the pure-jump exponents at a real argument are the Lévy–Khintchine integrals; the cached `_xi` is κ(1)/λ;
  * martingale: drift() + ψ(−i) = r − d for ω as the constructor sets it; the direct-simulation drifts of HEM / Merton satisfy
    drift + σ²/2 + κ(1) = r − d and equal drift() + the constructed ZERO drift.
-/
import RpylibModel.Generated.SrcC10b
import RpylibModel.ProofsGen.SrcC10
import RpylibModel.Model.Triplet
import RpylibModel.Proofs.C10
import RpylibModel.Lemmas.SrcC10Vg
import Mathlib.Tactic.Ring
import Mathlib.Tactic.Linarith
import Mathlib.Tactic.FieldSimp
import Mathlib.Tactic.Positivity
import Mathlib.Algebra.Order.Field.Rat

set_option linter.unusedTactic false
set_option linter.unreachableTactic false
set_option linter.unusedSimpArgs false
set_option linter.unnecessarySeqFocus false
set_option linter.unusedVariables false

namespace Rpylib.SrcTie.C10b
open Rpylib.Src.C10b Rpylib.Triplet

/-- the other spellings of `u - v ≠ 0`, `u + v ≠ 0` (what `field_simp` has to discharge depends on how the source writes a denominator) -/
theorem sub_ne_variants {u v : ℚ} (h : u - v ≠ 0) : -v + u ≠ 0 ∧ v - u ≠ 0 ∧ -u + v ≠ 0 ∧ u ≠ v ∧ v ≠ u :=
  ⟨by rwa [neg_add_eq_sub], fun e => h (by linarith), fun e => h (by linarith), fun e => h (by linarith), fun e => h (by linarith)⟩
theorem add_ne_variants {u v : ℚ} (h : u + v ≠ 0) : v + u ≠ 0 := by rwa [add_comm]

/-- closes an identity of rational expressions after the translated definitions have been unfolded -/
macro "src_arith" : tactic =>
  `(tactic| first | trivial | rfl | ring1 | (field_simp; ring1) | (push_cast; ring1) | (ring_nf; done) | (field_simp; ring_nf; done))

/-! The cumulant methods, `levy_exponent_pure_jump` and `drift` are translated with *fixed binders* (every attribute the plug-in declares
for the class is a parameter, read or not), so that a rewrite which adds or drops a read does not change the signatures below.  The
implicit variables `sg_` (σ), `dr_` (drift), `sj_`, `nu_`, `c_`, `g_`, `m_`, `gam_`, `rpw_` stand for the attributes a method does not
read today: the statements hold for every value of them. -/

/-! ### the record a family constructor hands to `LevyModel.__init__` -/

/-- (model type, (a, sigma, representation code) of the triplet, drift handed to the cumulant class) -/
abbrev Ctor := Int × (Rat × Rat × Int) × Rat
def tripletA (m : Ctor) : Rat := m.2.1.1
def tripletSigma (m : Ctor) : Rat := m.2.1.2.1
def tripletRep (m : Ctor) : Int := m.2.1.2.2
def cumulantDrift (m : Ctor) : Rat := m.2.2

/-- the codes the plug-in gives to the members of `LevyRepresentation` -/
def repOf : Int → Rpylib.SrcTie.C10.Rep
  | 0 => .zero
  | 1 => .center
  | 2 => .oneone
  | _ => .tilde

/-- ψ(−i): `levy_exponent(x=-1j)` = i(−i)a − ((−i)σ)²/2 + κ(i(−i)) = a + σ²/2 + κ(1)  (levymodel.py `levy_exponent`; complex, not translated:
    this reading of it is the hand-written model's `psiMinusI`) -/
def psiAt (a sigma kappa1 : Rat) : Rat := a + sigma ^ 2 / 2 + kappa1

theorem psiAt_eq_model (a sigma kappa1 : Rat) : psiAt a sigma kappa1 = psiMinusI a sigma kappa1 := by
  simp only [psiAt, psiMinusI]; ring

/-! ## exponential models: the martingale correction -/

/-- **cf route**: with ω as the constructor sets it (−ψ(−i)), drift() + ψ(−i) = r − d — for every value of ψ(−i) -/
theorem src_cf_route_martingale (t x r d w psi : Rat) :
    ExponentialOfLevyModel_drift t x r d (ExponentialOfLevyModel_init_omega w psi) + psi = r - d := by
  simp only [ExponentialOfLevyModel_drift, ExponentialOfLevyModel_init_omega] <;> src_arith

/-- the drift inside `log_characteristic_function` is `drift()` -/
theorem src_cf_drift_is_drift (t x r d om : Rat) :
    ExponentialOfLevyModel_cf_drift r d om = ExponentialOfLevyModel_drift t x r d om := by
  simp only [ExponentialOfLevyModel_cf_drift, ExponentialOfLevyModel_drift] <;> src_arith

/-- hence E[S_T] = S_0 exp((r−d)T) in the cf route: the exponent of `log_characteristic_function(T, −i)` without the spot,
    T · (drift + ψ(−i)), is (r − d) T -/
theorem src_cf_route_forward (T r d w psi : Rat) :
    T * (ExponentialOfLevyModel_cf_drift r d (ExponentialOfLevyModel_init_omega w psi) + psi) = (r - d) * T := by
  simp only [ExponentialOfLevyModel_cf_drift, ExponentialOfLevyModel_init_omega] <;> src_arith

/-- (A) the model's `expDrift` / `omega` -/
theorem src_exp_drift_eq_model (t x r d om : Rat) : ExponentialOfLevyModel_drift t x r d om = expDrift r d om := by
  simp only [ExponentialOfLevyModel_drift, expDrift] <;> src_arith

theorem src_omega_eq_model (w a sigma kappa1 : Rat) :
    ExponentialOfLevyModel_init_omega w (psiAt a sigma kappa1) = omega a sigma kappa1 := by
  simp only [ExponentialOfLevyModel_init_omega, psiAt, omega, psiMinusI] <;> src_arith

/-- ω does not depend on the value the attribute had before the constructor ran -/
theorem src_omega_fresh (w w' psi : Rat) : ExponentialOfLevyModel_init_omega w psi = ExponentialOfLevyModel_init_omega w' psi := by
  simp only [ExponentialOfLevyModel_init_omega]

/-! ## HEM -/

/-! ### (A) the translated cumulants are the model's -/

theorem src_hem_cumulant1_eq_model {sg_ : ℚ} (t lam p eta1 eta2 drift : Rat) (n1 : eta1 ≠ 0) (n2 : eta2 ≠ 0) :
    HEMCumulant_cumulant1 t lam p eta1 eta2 sg_ drift = hemCumulant1 drift lam p eta1 eta2 t := by
  simp only [HEMCumulant_cumulant1, hemCumulant1] <;> src_arith

theorem src_hem_cumulant2_eq_model {dr_ : ℚ} (t lam p eta1 eta2 sigma : Rat) (n1 : eta1 ≠ 0) (n2 : eta2 ≠ 0) :
    HEMCumulant_cumulant2 t lam p eta1 eta2 sigma dr_ = hemCumulant2 sigma lam p eta1 eta2 t := by
  simp only [HEMCumulant_cumulant2, hemCumulant2, p2] <;> src_arith

theorem src_hem_cumulant4_eq_model {sg_ : ℚ} {dr_ : ℚ} (t lam p eta1 eta2 : Rat) (n1 : eta1 ≠ 0) (n2 : eta2 ≠ 0) :
    HEMCumulant_cumulant4 t lam p eta1 eta2 sg_ dr_ = hemCumulant4 lam p eta1 eta2 t := by
  simp only [HEMCumulant_cumulant4, hemCumulant4, p4] <;> src_arith

theorem src_hem_cumulant6_eq_model {sg_ : ℚ} {dr_ : ℚ} (t lam p eta1 eta2 : Rat) (n1 : eta1 ≠ 0) (n2 : eta2 ≠ 0) :
    HEMCumulant_cumulant6 t lam p eta1 eta2 sg_ dr_ = hemCumulant6 lam p eta1 eta2 t := by
  simp only [HEMCumulant_cumulant6, hemCumulant6, p6] <;> src_arith

/-! ### (B) the stated cumulants are the derivatives of the exponent at zero (ℝ; through Proofs/C10.lean) -/

open Real MeasureTheory Rpylib.Integrals in
/-- **the translated `_HEMCumulant.cumulant1/2/4/6` are t × the 1st / 2nd / 4th / 6th derivative at 0 of the Lévy–Khintchine cumulant
    generating exponent s ↦ a s + σ²s²/2 + ∫ (e^{sx} − 1) ν(dx) of the HEM density** (`a` = the drift handed to the cumulant class) -/
theorem src_hem_cumulants_are_derivatives {sg_ : ℚ} {dr_ : ℚ} (a sigma lam p eta1 eta2 t : ℚ) (h1 : 0 < eta1) (h2 : 0 < eta2) :
    ((HEMCumulant_cumulant1 t lam p eta1 eta2 sg_ a : ℚ) : ℝ) = iteratedDeriv 1 (hemCgfLK a sigma lam p eta1 eta2) 0 * t ∧
    ((HEMCumulant_cumulant2 t lam p eta1 eta2 sigma dr_ : ℚ) : ℝ) = iteratedDeriv 2 (hemCgfLK a sigma lam p eta1 eta2) 0 * t ∧
    ((HEMCumulant_cumulant4 t lam p eta1 eta2 sg_ dr_ : ℚ) : ℝ) = iteratedDeriv 4 (hemCgfLK a sigma lam p eta1 eta2) 0 * t ∧
    ((HEMCumulant_cumulant6 t lam p eta1 eta2 sg_ dr_ : ℚ) : ℝ) = iteratedDeriv 6 (hemCgfLK a sigma lam p eta1 eta2) 0 * t := by
  rw [src_hem_cumulant1_eq_model _ _ _ _ _ _ h1.ne' h2.ne', src_hem_cumulant2_eq_model _ _ _ _ _ _ h1.ne' h2.ne',
    src_hem_cumulant4_eq_model _ _ _ _ _ h1.ne' h2.ne', src_hem_cumulant6_eq_model _ _ _ _ _ h1.ne' h2.ne']
  exact ⟨hem_cumulant1_is_derivative a sigma lam p eta1 eta2 t h1 h2, hem_cumulant2_is_derivative a sigma lam p eta1 eta2 t h1 h2,
    hem_cumulant4_is_derivative a sigma lam p eta1 eta2 t h1 h2, hem_cumulant6_is_derivative a sigma lam p eta1 eta2 t h1 h2⟩

open Real MeasureTheory Rpylib.Integrals in
/-- … and the first two are drift + mean and σ² + second moment of the jump density -/
theorem src_hem_cumulant12_are_moments {sg_ : ℚ} {dr_ : ℚ} (a sigma lam p eta1 eta2 t : ℚ) (h1 : 0 < eta1) (h2 : 0 < eta2) :
    ((HEMCumulant_cumulant1 t lam p eta1 eta2 sg_ a : ℚ) : ℝ) = (a + ∫ x : ℝ, x ^ 1 * hemDensity lam p eta1 eta2 x) * t ∧
    ((HEMCumulant_cumulant2 t lam p eta1 eta2 sigma dr_ : ℚ) : ℝ) = ((sigma : ℝ) ^ 2 + ∫ x : ℝ, x ^ 2 * hemDensity lam p eta1 eta2 x) * t := by
  rw [src_hem_cumulant1_eq_model _ _ _ _ _ _ h1.ne' h2.ne', src_hem_cumulant2_eq_model _ _ _ _ _ _ h1.ne' h2.ne']
  exact hem_cumulant12_are_moments a sigma lam p eta1 eta2 t h1 h2

/-! ### (B) cumulant 1 / 2 against the moments the measure class itself computes over the whole line -/

/-- the translated `integrate_against_x(-inf, inf)`: λ (p/η₁ − (1−p)/η₂), for every `exp` with `exp 0 = 1` (the two end points are
    never read when the flags say they are infinite) -/
theorem src_hem_first_moment_whole_line (a b lam p eta1 eta2 : Rat) (exp : Rat → Rat) (ha : a < 0) (hb : 0 < b) (h0 : exp 0 = 1)
    (n1 : eta1 ≠ 0) (n2 : eta2 ≠ 0) :
    HEMLevyMeasure_integrate_against_x a b lam p eta1 eta2 true true exp = lam * (p / eta1 - (1 - p) / eta2) := by
  have e1 : ¬ b < a := by linarith
  have e2 : ¬ b ≤ 0 := by linarith
  have e3 : ¬ 0 ≤ a := by linarith
  have e4 : ¬ 0 < a := by linarith
  have e5 : ¬ b < 0 := by linarith
  simp [HEMLevyMeasure_integrate_against_x, HEMLevyMeasure_integrate_against_x_fuel, e1, e2, e3, e4, e5, ha, hb, ha.le, hb.le, h0]
    <;> src_arith

theorem src_hem_second_moment_whole_line (a b lam p eta1 eta2 : Rat) (exp : Rat → Rat) (ha : a < 0) (hb : 0 < b) (h0 : exp 0 = 1)
    (n1 : eta1 ≠ 0) (n2 : eta2 ≠ 0) :
    HEMLevyMeasure_integrate_against_xx a b lam p eta1 eta2 true true exp = 2 * lam * (p / eta1 ^ 2 + (1 - p) / eta2 ^ 2) := by
  have e1 : ¬ b < a := by linarith
  have e2 : ¬ b ≤ 0 := by linarith
  have e3 : ¬ 0 ≤ a := by linarith
  have e4 : ¬ 0 < a := by linarith
  have e5 : ¬ b < 0 := by linarith
  simp [HEMLevyMeasure_integrate_against_xx, HEMLevyMeasure_integrate_against_xx_fuel, e1, e2, e3, e4, e5, ha, hb, ha.le, hb.le, h0]
    <;> src_arith

/-- **cumulant1(t) = (drift + ∫ x ν(dx)) · t with the integral as `_HEMLevyMeasure.integrate_against_x(-inf, inf)` computes it** -/
theorem src_hem_cumulant1_is_drift_plus_mean {sg_ : ℚ} (t a b lam p eta1 eta2 drift : Rat) (exp : Rat → Rat) (ha : a < 0) (hb : 0 < b)
    (h0 : exp 0 = 1) (n1 : eta1 ≠ 0) (n2 : eta2 ≠ 0) :
    HEMCumulant_cumulant1 t lam p eta1 eta2 sg_ drift
      = (drift + HEMLevyMeasure_integrate_against_x a b lam p eta1 eta2 true true exp) * t := by
  rw [src_hem_first_moment_whole_line a b lam p eta1 eta2 exp ha hb h0 n1 n2]
  simp only [HEMCumulant_cumulant1] <;> src_arith

/-- **cumulant2(t) = (σ² + ∫ x² ν(dx)) · t with the integral as `_HEMLevyMeasure.integrate_against_xx(-inf, inf)` computes it** -/
theorem src_hem_cumulant2_is_variance {dr_ : ℚ} (t a b lam p eta1 eta2 sigma : Rat) (exp : Rat → Rat) (ha : a < 0) (hb : 0 < b)
    (h0 : exp 0 = 1) (n1 : eta1 ≠ 0) (n2 : eta2 ≠ 0) :
    HEMCumulant_cumulant2 t lam p eta1 eta2 sigma dr_
      = (sigma ^ 2 + HEMLevyMeasure_integrate_against_xx a b lam p eta1 eta2 true true exp) * t := by
  rw [src_hem_second_moment_whole_line a b lam p eta1 eta2 exp ha hb h0 n1 n2]
  simp only [HEMCumulant_cumulant2] <;> src_arith

/-- non-vacuity: default HEM parameters (λ = 3, p = 3/5, η₁ = 20, η₂ = 25), `exp` any function with value 1 at 0 -/
example : HEMLevyMeasure_integrate_against_x (-1) 1 3 (3/5) 20 25 true true (fun _ => 1) = 3 * ((3/5) / 20 - (1 - 3/5) / 25) :=
  src_hem_first_moment_whole_line (-1) 1 3 (3/5) 20 25 _ (by norm_num) (by norm_num) rfl (by norm_num) (by norm_num)

/-! ### (B) linear in t; even cumulants non-negative -/

theorem src_hem_cumulants_linear {sg_ : ℚ} {dr_ : ℚ} (s t lam p eta1 eta2 drift sigma : Rat) (n1 : eta1 ≠ 0) (n2 : eta2 ≠ 0) :
    HEMCumulant_cumulant1 (s * t) lam p eta1 eta2 sg_ drift = s * HEMCumulant_cumulant1 t lam p eta1 eta2 sg_ drift ∧
    HEMCumulant_cumulant2 (s * t) lam p eta1 eta2 sigma dr_ = s * HEMCumulant_cumulant2 t lam p eta1 eta2 sigma dr_ ∧
    HEMCumulant_cumulant4 (s * t) lam p eta1 eta2 sg_ dr_ = s * HEMCumulant_cumulant4 t lam p eta1 eta2 sg_ dr_ ∧
    HEMCumulant_cumulant6 (s * t) lam p eta1 eta2 sg_ dr_ = s * HEMCumulant_cumulant6 t lam p eta1 eta2 sg_ dr_ := by
  refine ⟨?_, ?_, ?_, ?_⟩ <;>
    simp only [HEMCumulant_cumulant1, HEMCumulant_cumulant2, HEMCumulant_cumulant4, HEMCumulant_cumulant6] <;> src_arith

theorem src_hem_even_cumulants_nonneg {sg_ : ℚ} {dr_ : ℚ} (t lam p eta1 eta2 sigma : Rat) (ht : 0 ≤ t) (hl : 0 ≤ lam) (hp0 : 0 ≤ p) (hp1 : p ≤ 1)
    (h1 : 0 < eta1) (h2 : 0 < eta2) :
    0 ≤ HEMCumulant_cumulant2 t lam p eta1 eta2 sigma dr_ ∧ 0 ≤ HEMCumulant_cumulant4 t lam p eta1 eta2 sg_ dr_ ∧
    0 ≤ HEMCumulant_cumulant6 t lam p eta1 eta2 sg_ dr_ := by
  have hq : 0 ≤ 1 - p := by linarith
  rw [src_hem_cumulant2_eq_model _ _ _ _ _ _ h1.ne' h2.ne', src_hem_cumulant4_eq_model _ _ _ _ _ h1.ne' h2.ne',
    src_hem_cumulant6_eq_model _ _ _ _ _ h1.ne' h2.ne']
  simp only [hemCumulant2, hemCumulant4, hemCumulant6, p2, p4, p6]
  generalize 1 - p = q at hq ⊢
  have hs : 0 ≤ sigma * sigma := mul_self_nonneg sigma
  generalize sigma * sigma = s2 at hs ⊢
  refine ⟨?_, ?_, ?_⟩ <;> positivity

/-! ### the constructor -/

/-- the constructor declares the ZERO representation, passes σ through, hands the SAME drift to the triplet and to the cumulants,
    and that drift is −λ(p/η₁ − (1−p)/η₂) -/
theorem src_hem_ctor (lam p eta1 eta2 sigma : Rat) (n1 : eta1 ≠ 0) (n2 : eta2 ≠ 0) :
    (tripletRep (HEMModel_init lam p eta1 eta2 sigma)) = 0 ∧ (tripletSigma (HEMModel_init lam p eta1 eta2 sigma)) = sigma ∧
    (cumulantDrift (HEMModel_init lam p eta1 eta2 sigma)) = (tripletA (HEMModel_init lam p eta1 eta2 sigma)) ∧
    (tripletA (HEMModel_init lam p eta1 eta2 sigma)) = hemTripletA lam p eta1 eta2 := by
  refine ⟨?_, ?_, ?_, ?_⟩ <;> simp only [HEMModel_init, tripletRep, tripletSigma, cumulantDrift, tripletA, hemTripletA] <;> src_arith

/-- **the triplet drift chosen by the constructor makes cumulant1 = (drift in the CENTER representation) · t**: the conversion is the
    translated `LevyTriplet.center_drift` of the first tie applied to the constructed (a, representation); `mid`, `left`, `right` are the
    three first-moment integrals it reads, which add up to the whole-line integral of the measure class (additivity of the measure) -/
theorem src_hem_ctor_cumulant1_is_center_drift {sg_ : ℚ} (t lam p eta1 eta2 sigma : Rat) (fv : Bool) (mid left right a b : Rat)
    (exp : Rat → Rat) (ha : a < 0) (hb : 0 < b) (h0 : exp 0 = 1)
    (n1 : eta1 ≠ 0) (n2 : eta2 ≠ 0)
    (hadd : mid + left + right = HEMLevyMeasure_integrate_against_x a b lam p eta1 eta2 true true exp) :
    HEMCumulant_cumulant1 t lam p eta1 eta2 sg_ (cumulantDrift (HEMModel_init lam p eta1 eta2 sigma))
      = Rpylib.SrcTie.C10.conv (tripletA (HEMModel_init lam p eta1 eta2 sigma)) fv mid left right
          (repOf (tripletRep (HEMModel_init lam p eta1 eta2 sigma))) .center * t := by
  obtain ⟨hr, -, hd, -⟩ := src_hem_ctor lam p eta1 eta2 sigma n1 n2
  rw [src_hem_cumulant1_is_drift_plus_mean t a b lam p eta1 eta2 _ exp ha hb h0 n1 n2, ← hadd, hr, hd,
    Rpylib.SrcTie.C10.src_conv_formula]
  simp only [repOf, Rpylib.SrcTie.C10.off] <;> src_arith

/-- … and that drift is the one that centres the process: cumulant1 = 0 -/
theorem src_hem_ctor_centred {sg_ : ℚ} (t lam p eta1 eta2 sigma : Rat) (n1 : eta1 ≠ 0) (n2 : eta2 ≠ 0) :
    HEMCumulant_cumulant1 t lam p eta1 eta2 sg_ (cumulantDrift (HEMModel_init lam p eta1 eta2 sigma)) = 0 := by
  simp only [HEMCumulant_cumulant1, HEMModel_init, cumulantDrift] <;> src_arith

/-! ### pure-jump exponent at a real argument, the cached `_xi`, the direct-simulation drift -/

theorem src_hem_kappa_eq_model (x lam p eta1 eta2 : Rat) (k1 : eta1 - x ≠ 0) (k2 : eta2 + x ≠ 0) :
    HEMModel_levy_exponent_pure_jump x lam p eta1 eta2 = hemKappa lam p eta1 eta2 x := by
  obtain ⟨k1a, k1b, k1c, -, -⟩ := sub_ne_variants k1
  have k2a := add_ne_variants k2
  simp only [HEMModel_levy_exponent_pure_jump, hemKappa] <;> src_arith

open Real MeasureTheory Rpylib.Integrals in
/-- **the translated `levy_exponent_pure_jump(s)` is the Lévy–Khintchine integral ∫ (e^{sx} − 1) ν(dx) of the HEM density** -/
theorem src_hem_kappa_is_LK_integral (lam p eta1 eta2 s : ℚ) (h1 : 0 < eta1) (h2 : 0 < eta2) (hs : -eta2 < s ∧ s < eta1) :
    ((HEMModel_levy_exponent_pure_jump s lam p eta1 eta2 : ℚ) : ℝ) = ∫ x : ℝ, (exp (s * x) - 1) * hemDensity lam p eta1 eta2 x := by
  rw [src_hem_kappa_eq_model _ _ _ _ _ (sub_pos.mpr hs.2).ne' (by linarith : (0 : ℚ) < eta2 + s).ne']
  exact hem_kappa_is_LK_integral lam p eta1 eta2 s h1 h2 hs

/-- the cached `_xi` is the same whether set by the constructor or by `initialisation()` (whatever it was before) … -/
theorem src_hem_xi_eq_model (p eta1 eta2 w w' : Rat) (x1 : eta1 - 1 ≠ 0) (x2 : eta2 + 1 ≠ 0) :
    HEMParameters_init_xi p eta1 eta2 w = hemXi p eta1 eta2 ∧ HEMParameters_initialisation w' p eta1 eta2 = hemXi p eta1 eta2 := by
  obtain ⟨x1a, x1b, x1c, -, -⟩ := sub_ne_variants x1
  have x2a := add_ne_variants x2
  constructor <;> simp only [HEMParameters_init_xi, HEMParameters_initialisation, hemXi] <;> src_arith

/-- … and λ · `_xi` is the pure-jump exponent at 1 -/
theorem src_hem_xi_is_kappa_one (lam p eta1 eta2 w : Rat) (x1 : eta1 - 1 ≠ 0) (x2 : eta2 + 1 ≠ 0) :
    lam * HEMParameters_init_xi p eta1 eta2 w = HEMModel_levy_exponent_pure_jump 1 lam p eta1 eta2 := by
  obtain ⟨x1a, x1b, x1c, -, -⟩ := sub_ne_variants x1
  have x2a := add_ne_variants x2
  simp only [HEMParameters_init_xi, HEMModel_levy_exponent_pure_jump] <;> src_arith

theorem src_hem_direct_drift_eq_model (r d w lam sigma p eta1 eta2 : Rat) :
    ExponentialOfHEMModel_init_process_drift r d w lam sigma (hemXi p eta1 eta2) = processDriftDirectHEM r d sigma lam p eta1 eta2 := by
  simp only [ExponentialOfHEMModel_init_process_drift, processDriftDirectHEM] <;> src_arith

/-- **direct route**: `_process_drift` + σ²/2 + κ(1) = r − d, with `_xi` as the parameter class caches it and κ the translated exponent -/
theorem src_hem_direct_route_martingale (r d w w' lam sigma p eta1 eta2 : Rat) (x1 : eta1 - 1 ≠ 0) (x2 : eta2 + 1 ≠ 0) :
    ExponentialOfHEMModel_init_process_drift r d w lam sigma (HEMParameters_init_xi p eta1 eta2 w') + sigma ^ 2 / 2
      + HEMModel_levy_exponent_pure_jump 1 lam p eta1 eta2 = r - d := by
  rw [← src_hem_xi_is_kappa_one lam p eta1 eta2 w' x1 x2]
  simp only [ExponentialOfHEMModel_init_process_drift] <;> src_arith

open Real MeasureTheory Rpylib.Integrals in
/-- … under the exact jump law: `_process_drift` + σ²/2 + ∫ (e^x − 1) ν(dx) = r − d -/
theorem src_hem_direct_route_martingale_integral (r d w w' lam sigma p eta1 eta2 : ℚ) (h1 : 1 < eta1) (h2 : 0 < eta2) :
    ((ExponentialOfHEMModel_init_process_drift r d w lam sigma (HEMParameters_init_xi p eta1 eta2 w') : ℚ) : ℝ)
      + (sigma : ℝ) * sigma / 2 + ∫ x : ℝ, (exp x - 1) * hemDensity lam p eta1 eta2 x = r - d := by
  rw [(src_hem_xi_eq_model p eta1 eta2 w' 0 (by linarith : (0 : ℚ) < eta1 - 1).ne' (by linarith : (0 : ℚ) < eta2 + 1).ne').1,
    src_hem_direct_drift_eq_model]
  exact direct_route_martingale_HEM_integral r d sigma lam p eta1 eta2 h1 h2

/-- **both routes simulate the same process**: the direct-simulation drift is drift() of the cf route plus the triplet drift the
    constructor declares in the ZERO representation (uncompensated compound-Poisson jumps are simulated) -/
theorem src_hem_direct_eq_cf_plus_zero_drift (t x r d w w' w'' lam sigma p eta1 eta2 : Rat) (n1 : eta1 ≠ 0) (n2 : eta2 ≠ 0) (x1 : eta1 - 1 ≠ 0) (x2 : eta2 + 1 ≠ 0) :
    ExponentialOfHEMModel_init_process_drift r d w lam sigma (HEMParameters_init_xi p eta1 eta2 w')
      = ExponentialOfLevyModel_drift t x r d (ExponentialOfLevyModel_init_omega w''
          (psiAt (tripletA (HEMModel_init lam p eta1 eta2 sigma)) sigma (HEMModel_levy_exponent_pure_jump 1 lam p eta1 eta2)))
        + (tripletA (HEMModel_init lam p eta1 eta2 sigma)) := by
  rw [← src_hem_xi_is_kappa_one lam p eta1 eta2 w' x1 x2]
  simp only [ExponentialOfHEMModel_init_process_drift, ExponentialOfLevyModel_drift, ExponentialOfLevyModel_init_omega, psiAt]
    <;> src_arith

/-! ## Merton -/

theorem src_merton_cumulant1_eq_model {sg_ : ℚ} {sj_ : ℚ} (t mu lam drift : Rat) :
    MertonCumulant_cumulant1 t mu sj_ lam sg_ drift = mertonCumulant1 drift lam mu t := by
  simp only [MertonCumulant_cumulant1, mertonCumulant1] <;> src_arith

theorem src_merton_cumulant2_eq_model {dr_ : ℚ} (t mu sj lam sigma : Rat) :
    MertonCumulant_cumulant2 t mu sj lam sigma dr_ = mertonCumulant2 sigma lam mu sj t := by
  simp only [MertonCumulant_cumulant2, mertonCumulant2, p2] <;> src_arith

theorem src_merton_cumulant4_eq_model {sg_ : ℚ} {dr_ : ℚ} (t mu sj lam : Rat) :
    MertonCumulant_cumulant4 t mu sj lam sg_ dr_ = mertonCumulant4 lam mu sj t := by
  simp only [MertonCumulant_cumulant4, mertonCumulant4, p2, p4] <;> src_arith

theorem src_merton_cumulant6_eq_model {sg_ : ℚ} {dr_ : ℚ} (t mu sj lam : Rat) :
    MertonCumulant_cumulant6 t mu sj lam sg_ dr_ = mertonCumulant6 lam mu sj t := by
  simp only [MertonCumulant_cumulant6, mertonCumulant6, p2, p4, p6] <;> src_arith

open Real MeasureTheory Rpylib.Integrals in
/-- **the translated `_MertonCumulant.cumulant1/2/4/6` are t × the derivatives at 0 of s ↦ a s + σ²s²/2 + ∫ (e^{sx} − 1) ν(dx) with the Gaussian
    jump density** -/
theorem src_merton_cumulants_are_derivatives {sg_ : ℚ} {dr_ : ℚ} {sj_ : ℚ} (a sigma lam mu sj t : ℚ) (hs : 0 < sj) :
    ((MertonCumulant_cumulant1 t mu sj_ lam sg_ a : ℚ) : ℝ) = iteratedDeriv 1 (mertonCgfLK a sigma lam mu sj) 0 * t ∧
    ((MertonCumulant_cumulant2 t mu sj lam sigma dr_ : ℚ) : ℝ) = iteratedDeriv 2 (mertonCgfLK a sigma lam mu sj) 0 * t ∧
    ((MertonCumulant_cumulant4 t mu sj lam sg_ dr_ : ℚ) : ℝ) = iteratedDeriv 4 (mertonCgfLK a sigma lam mu sj) 0 * t ∧
    ((MertonCumulant_cumulant6 t mu sj lam sg_ dr_ : ℚ) : ℝ) = iteratedDeriv 6 (mertonCgfLK a sigma lam mu sj) 0 * t := by
  rw [src_merton_cumulant1_eq_model, src_merton_cumulant2_eq_model, src_merton_cumulant4_eq_model, src_merton_cumulant6_eq_model]
  exact ⟨merton_cumulant1_is_derivative a sigma lam mu sj t hs, merton_cumulant2_is_derivative a sigma lam mu sj t hs,
    merton_cumulant4_is_derivative a sigma lam mu sj t hs, merton_cumulant6_is_derivative a sigma lam mu sj t hs⟩

theorem src_merton_cumulants_linear {sg_ : ℚ} {dr_ : ℚ} {sj_ : ℚ} (s t mu sj lam drift sigma : Rat) :
    MertonCumulant_cumulant1 (s * t) mu sj_ lam sg_ drift = s * MertonCumulant_cumulant1 t mu sj_ lam sg_ drift ∧
    MertonCumulant_cumulant2 (s * t) mu sj lam sigma dr_ = s * MertonCumulant_cumulant2 t mu sj lam sigma dr_ ∧
    MertonCumulant_cumulant4 (s * t) mu sj lam sg_ dr_ = s * MertonCumulant_cumulant4 t mu sj lam sg_ dr_ ∧
    MertonCumulant_cumulant6 (s * t) mu sj lam sg_ dr_ = s * MertonCumulant_cumulant6 t mu sj lam sg_ dr_ := by
  refine ⟨?_, ?_, ?_, ?_⟩ <;>
    simp only [MertonCumulant_cumulant1, MertonCumulant_cumulant2, MertonCumulant_cumulant4, MertonCumulant_cumulant6] <;> src_arith

theorem src_merton_even_cumulants_nonneg {sg_ : ℚ} {dr_ : ℚ} (t mu sj lam sigma : Rat) (ht : 0 ≤ t) (hl : 0 ≤ lam) :
    0 ≤ MertonCumulant_cumulant2 t mu sj lam sigma dr_ ∧ 0 ≤ MertonCumulant_cumulant4 t mu sj lam sg_ dr_ ∧
    0 ≤ MertonCumulant_cumulant6 t mu sj lam sg_ dr_ := by
  have e2 : MertonCumulant_cumulant2 t mu sj lam sigma dr_ = (sigma ^ 2 + lam * (mu ^ 2 + sj ^ 2)) * t := by
    simp only [MertonCumulant_cumulant2] <;> src_arith
  have e4 : MertonCumulant_cumulant4 t mu sj lam sg_ dr_ = lam * (mu ^ 4 + 3 * sj ^ 4 + 6 * mu ^ 2 * sj ^ 2) * t := by
    simp only [MertonCumulant_cumulant4] <;> src_arith
  have e6 : MertonCumulant_cumulant6 t mu sj lam sg_ dr_
      = lam * (mu ^ 6 + 15 * mu ^ 4 * sj ^ 2 + 45 * mu ^ 2 * sj ^ 4 + 15 * sj ^ 6) * t := by
    simp only [MertonCumulant_cumulant6] <;> src_arith
  rw [e2, e4, e6]
  refine ⟨?_, ?_, ?_⟩ <;> positivity

/-- the constructor: ZERO representation, σ passed through, the same drift −λ μ_J for the triplet and the cumulants -/
theorem src_merton_ctor (lam mu sigma : Rat) :
    (tripletRep (MertonModel_init lam mu sigma)) = 0 ∧ (tripletSigma (MertonModel_init lam mu sigma)) = sigma ∧
    (cumulantDrift (MertonModel_init lam mu sigma)) = (tripletA (MertonModel_init lam mu sigma)) ∧
    (tripletA (MertonModel_init lam mu sigma)) = mertonTripletA lam mu := by
  refine ⟨?_, ?_, ?_, ?_⟩ <;> simp only [MertonModel_init, tripletRep, tripletSigma, cumulantDrift, tripletA, mertonTripletA] <;> src_arith

/-- **cumulant1 = (drift in the CENTER representation) · t** for the constructed triplet; `mid + left + right` is the first moment λ μ_J of
    the compound-Poisson measure with Gaussian jumps (the measure class computes it with `erf`: not translated, closed form assumed) -/
theorem src_merton_ctor_cumulant1_is_center_drift {sg_ : ℚ} {sj_ : ℚ} (t lam mu sigma : Rat) (fv : Bool) (mid left right : Rat)
    (hadd : mid + left + right = lam * mu) :
    MertonCumulant_cumulant1 t mu sj_ lam sg_ (cumulantDrift (MertonModel_init lam mu sigma))
      = Rpylib.SrcTie.C10.conv (tripletA (MertonModel_init lam mu sigma)) fv mid left right
          (repOf (tripletRep (MertonModel_init lam mu sigma))) .center * t := by
  obtain ⟨hr, -, hd, -⟩ := src_merton_ctor lam mu sigma
  have e1 : ∀ dr, MertonCumulant_cumulant1 t mu sj_ lam sg_ dr = (dr + lam * mu) * t := by
    intro dr; simp only [MertonCumulant_cumulant1] <;> src_arith
  rw [e1, ← hadd, hr, hd, Rpylib.SrcTie.C10.src_conv_formula]
  simp only [repOf, Rpylib.SrcTie.C10.off] <;> src_arith

theorem src_merton_ctor_centred {sg_ : ℚ} {sj_ : ℚ} (t lam mu sigma : Rat) :
    MertonCumulant_cumulant1 t mu sj_ lam sg_ (cumulantDrift (MertonModel_init lam mu sigma)) = 0 := by
  simp only [MertonCumulant_cumulant1, MertonModel_init, cumulantDrift] <;> src_arith

/-- the pure-jump exponent at a real argument: λ (exp(arg) − 1) with the model's rational `mertonKappaArg`, for every `exp` -/
theorem src_merton_kappa_eq_model (x mu sj lam : Rat) (exp : Rat → Rat) :
    MertonModel_levy_exponent_pure_jump x mu sj lam exp = lam * (exp (mertonKappaArg mu sj x) - 1) := by
  simp only [MertonModel_levy_exponent_pure_jump, mertonKappaArg] <;> src_arith

open Real MeasureTheory Rpylib.Integrals in
/-- **the translated `levy_exponent_pure_jump(s)` is the Lévy–Khintchine integral of the Gaussian jump density**, whenever the value of
    `exp` at the one argument the source passes is the real exponential of it -/
theorem src_merton_kappa_is_LK_integral (lam mu sj s : ℚ) (exp : ℚ → ℚ) (hs : 0 < sj)
    (he : ((exp (mertonKappaArg mu sj s) : ℚ) : ℝ) = Real.exp ((mertonKappaArg mu sj s : ℚ) : ℝ)) :
    ((MertonModel_levy_exponent_pure_jump s mu sj lam exp : ℚ) : ℝ) = ∫ x : ℝ, (Real.exp (s * x) - 1) * mertonDensity lam mu sj x := by
  rw [src_merton_kappa_eq_model, ← merton_kappa_is_LK_integral lam mu sj s hs]
  push_cast
  rw [he]

/-- non-vacuity of `he`: μ_J = −1/2, σ_J = 1, s = 1 make the argument 0 -/
example : (((fun _ : ℚ => (1 : ℚ)) (mertonKappaArg (-1/2) 1 1) : ℚ) : ℝ) = Real.exp ((mertonKappaArg (-1/2) 1 1 : ℚ) : ℝ) := by
  have : mertonKappaArg (-1/2) 1 1 = 0 := by decide +kernel
  rw [this]; simp

theorem src_merton_direct_drift_eq_model (r d w lam mu sj sigma : Rat) (exp : Rat → Rat) :
    ExponentialOfMertonModel_init_process_drift r d w lam mu sj sigma exp
      = processDriftDirectMerton r d sigma lam (exp (mertonKappaArg mu sj 1)) := by
  simp only [ExponentialOfMertonModel_init_process_drift, processDriftDirectMerton, mertonKappaArg] <;> src_arith

/-- **direct route**: `_process_drift` + σ²/2 + κ(1) = r − d with κ the translated exponent — for every `exp` (both read it at the
    same argument μ_J + σ_J²/2) -/
theorem src_merton_direct_route_martingale (r d w lam mu sj sigma : Rat) (exp : Rat → Rat) :
    ExponentialOfMertonModel_init_process_drift r d w lam mu sj sigma exp + sigma ^ 2 / 2
      + MertonModel_levy_exponent_pure_jump 1 mu sj lam exp = r - d := by
  rw [src_merton_direct_drift_eq_model, src_merton_kappa_eq_model]
  simp only [processDriftDirectMerton]; ring

open Real MeasureTheory Rpylib.Integrals in
/-- … under the exact jump law -/
theorem src_merton_direct_route_martingale_integral (r d w lam mu sj sigma : ℚ) (exp : ℚ → ℚ) (hs : 0 < sj)
    (he : ((exp (mertonKappaArg mu sj 1) : ℚ) : ℝ) = Real.exp ((mertonKappaArg mu sj 1 : ℚ) : ℝ)) :
    ((ExponentialOfMertonModel_init_process_drift r d w lam mu sj sigma exp : ℚ) : ℝ) + (sigma : ℝ) ^ 2 / 2
      + ∫ x : ℝ, (Real.exp x - 1) * mertonDensity lam mu sj x = r - d := by
  have h := src_merton_kappa_is_LK_integral lam mu sj 1 exp hs he
  have h2 := src_merton_direct_route_martingale r d w lam mu sj sigma exp
  have h3 : ∫ x : ℝ, (Real.exp x - 1) * mertonDensity lam mu sj x
      = ∫ x : ℝ, (Real.exp (((1 : ℚ) : ℝ) * x) - 1) * mertonDensity lam mu sj x := by simp
  rw [h3, ← h]
  have h4 := congrArg (fun q : ℚ => (q : ℝ)) h2
  beta_reduce at h4
  push_cast at h4 ⊢
  linarith

/-- **both routes simulate the same process** (Merton) -/
theorem src_merton_direct_eq_cf_plus_zero_drift (t x r d w w'' lam mu sj sigma : Rat) (exp : Rat → Rat) :
    ExponentialOfMertonModel_init_process_drift r d w lam mu sj sigma exp
      = ExponentialOfLevyModel_drift t x r d (ExponentialOfLevyModel_init_omega w''
          (psiAt (tripletA (MertonModel_init lam mu sigma)) sigma (MertonModel_levy_exponent_pure_jump 1 mu sj lam exp)))
        + (tripletA (MertonModel_init lam mu sigma)) := by
  rw [src_merton_direct_drift_eq_model, src_merton_kappa_eq_model]
  simp only [processDriftDirectMerton, ExponentialOfLevyModel_drift, ExponentialOfLevyModel_init_omega, psiAt, MertonModel_init,
    tripletA] <;> src_arith

/-! ## Variance gamma -/

/-- c, λ₊, λ₋ of the tuple `VGParameters.__init__` leaves in (sigma, nu, theta, _c, _lambda_p, _lambda_m) -/
def vgC (P : Rat × Rat × Rat × Rat × Rat × Rat) : Rat := P.2.2.2.1
def vgLp (P : Rat × Rat × Rat × Rat × Rat × Rat) : Rat := P.2.2.2.2.1
def vgLm (P : Rat × Rat × Rat × Rat × Rat × Rat) : Rat := P.2.2.2.2.2

/-- the derived parameters as the constructor computes them (whatever the attributes held before), for every `sqrt`:
    c = 1/ν, λ₊ = (S − θ)/σ², λ₋ = (S + θ)/σ² with S = sqrt(θ² + 2σ²/ν); the three primary parameters are stored unchanged -/
theorem src_vg_params (sigma nu theta w1 w2 w3 w4 w5 w6 : Rat) (sqrt : Rat → Rat) (hsig : sigma ≠ 0) (hnu : nu ≠ 0) :
    (VGParameters_init sigma nu theta w1 w2 w3 w4 w5 w6 sqrt).1 = sigma ∧
    (VGParameters_init sigma nu theta w1 w2 w3 w4 w5 w6 sqrt).2.1 = nu ∧
    (VGParameters_init sigma nu theta w1 w2 w3 w4 w5 w6 sqrt).2.2.1 = theta ∧
    vgC (VGParameters_init sigma nu theta w1 w2 w3 w4 w5 w6 sqrt) = 1 / nu ∧
    vgLp (VGParameters_init sigma nu theta w1 w2 w3 w4 w5 w6 sqrt) = (sqrt (theta ^ 2 + 2 * sigma ^ 2 / nu) - theta) / sigma ^ 2 ∧
    vgLm (VGParameters_init sigma nu theta w1 w2 w3 w4 w5 w6 sqrt) = (sqrt (theta ^ 2 + 2 * sigma ^ 2 / nu) + theta) / sigma ^ 2 := by
  have hs2 : sigma ^ 2 ≠ 0 := pow_ne_zero 2 hsig
  have hs2' : sigma * sigma ≠ 0 := mul_ne_zero hsig hsig
  refine ⟨?_, ?_, ?_, ?_, ?_, ?_⟩ <;> simp only [VGParameters_init, vgC, vgLp, vgLm] <;> src_arith

/-- `initialisation()` recomputes the same three derived parameters from the stored primary ones -/
theorem src_vg_initialisation_eq_init (sigma nu theta w1 w2 w3 w4 w5 w6 v1 v2 v3 : Rat) (sqrt : Rat → Rat) (hsig : sigma ≠ 0) (hnu : nu ≠ 0) :
    (VGParameters_initialisation v1 v2 v3 sigma nu theta sqrt).1 = vgC (VGParameters_init sigma nu theta w1 w2 w3 w4 w5 w6 sqrt) ∧
    (VGParameters_initialisation v1 v2 v3 sigma nu theta sqrt).2.1 = vgLp (VGParameters_init sigma nu theta w1 w2 w3 w4 w5 w6 sqrt) ∧
    (VGParameters_initialisation v1 v2 v3 sigma nu theta sqrt).2.2 = vgLm (VGParameters_init sigma nu theta w1 w2 w3 w4 w5 w6 sqrt) := by
  have hs2 : sigma ^ 2 ≠ 0 := pow_ne_zero 2 hsig
  have hs2' : sigma * sigma ≠ 0 := mul_ne_zero hsig hsig
  refine ⟨?_, ?_, ?_⟩ <;> simp only [VGParameters_init, VGParameters_initialisation, vgC, vgLp, vgLm] <;> src_arith

/-- the translated `integrate_against_x(a, b)` for a < 0 < b: both one-sided closed forms, evaluated at 0 with `exp 0 = 1` -/
theorem src_vg_first_moment_straddle (a b c lm lp : Rat) (exp : Rat → Rat) (ha : a < 0) (hb : 0 < b) (h0 : exp 0 = 1) (hp : lp ≠ 0) (hm : lm ≠ 0) :
    VGLevyMeasure_integrate_against_x a b c lm lp exp
      = c * (1 - exp (-(lp * b))) / lp + c * (exp (lm * a) - 1) / lm := by
  have e3 : ¬ 0 ≤ a := by linarith
  have e4 : ¬ 0 < a := by linarith
  have e5 : ¬ b < 0 := by linarith
  simp [VGLevyMeasure_integrate_against_x, VGLevyMeasure_integrate_against_x_fuel, e3, e4, e5, ha, hb, ha.le, hb.le, h0]
    <;> src_arith

/-- … over the whole line (the end points are where `exp` of the two exponents vanishes): c (1/λ₊ − 1/λ₋) -/
theorem src_vg_first_moment_whole_line (a b c lm lp : Rat) (exp : Rat → Rat) (ha : a < 0) (hb : 0 < b) (h0 : exp 0 = 1)
    (hEa : exp (lm * a) = 0) (hEb : exp (-(lp * b)) = 0) (hp : lp ≠ 0) (hm : lm ≠ 0) :
    VGLevyMeasure_integrate_against_x a b c lm lp exp = c * (1 / lp - 1 / lm) := by
  rw [src_vg_first_moment_straddle a b c lm lp exp ha hb h0 hp hm, hEa, hEb]; ring

/-- the translated `integrate_against_xx(-inf, inf)`: c (1/λ₊² + 1/λ₋²) -/
theorem src_vg_second_moment_whole_line (a b c lm lp : Rat) (exp : Rat → Rat) (ha : a < 0) (hb : 0 < b) (h0 : exp 0 = 1) (hp : lp ≠ 0) (hm : lm ≠ 0) :
    VGLevyMeasure_integrate_against_xx a b c lm lp true true exp = c * (1 / lp ^ 2 + 1 / lm ^ 2) := by
  have e3 : ¬ 0 ≤ a := by linarith
  have e4 : ¬ 0 < a := by linarith
  have e5 : ¬ b < 0 := by linarith
  simp [VGLevyMeasure_integrate_against_xx, VGLevyMeasure_integrate_against_xx_fuel, e3, e4, e5, ha, hb, ha.le, hb.le, h0]
    <;> src_arith

/-- **cumulant1(t) = (drift + ∫ x ν(dx)) · t**, the integral as `_VGLevyMeasure.integrate_against_x` computes it over the whole line from
    the derived parameters `VGParameters.__init__` computes — for every `sqrt` whose value at θ² + 2σ²/ν squares to it -/
theorem src_vg_cumulant1_is_drift_plus_mean {sg_ : ℚ} {nu_ : ℚ} (t sigma nu theta drift w1 w2 w3 w4 w5 w6 a b : Rat) (sqrt exp : Rat → Rat)
    (hsig : sigma ≠ 0) (hnu : nu ≠ 0)
    (hS : sqrt (theta ^ 2 + 2 * sigma ^ 2 / nu) * sqrt (theta ^ 2 + 2 * sigma ^ 2 / nu) = theta ^ 2 + 2 * sigma ^ 2 / nu)
    (ha : a < 0) (hb : 0 < b) (h0 : exp 0 = 1)
    (hEa : exp (vgLm (VGParameters_init sigma nu theta w1 w2 w3 w4 w5 w6 sqrt) * a) = 0)
    (hEb : exp (-(vgLp (VGParameters_init sigma nu theta w1 w2 w3 w4 w5 w6 sqrt) * b)) = 0) :
    VGCumulant_cumulant1 t sg_ nu_ theta drift
      = (drift + VGLevyMeasure_integrate_against_x a b (vgC (VGParameters_init sigma nu theta w1 w2 w3 w4 w5 w6 sqrt))
          (vgLm (VGParameters_init sigma nu theta w1 w2 w3 w4 w5 w6 sqrt))
          (vgLp (VGParameters_init sigma nu theta w1 w2 w3 w4 w5 w6 sqrt)) exp) * t := by
  obtain ⟨-, -, -, hc, hp, hm⟩ := src_vg_params sigma nu theta w1 w2 w3 w4 w5 w6 sqrt hsig hnu
  obtain ⟨nlp, nlm, m1, -, -⟩ := Vg.moments sigma nu theta _ hsig hnu hS
  rw [src_vg_first_moment_whole_line a b _ _ _ exp ha hb h0 hEa hEb (by rw [hp]; exact nlp) (by rw [hm]; exact nlm), hc, hp, hm, m1]
  simp only [VGCumulant_cumulant1] <;> src_arith

/-- **cumulant2(t) = ∫ x² ν(dx) · t** (the triplet of VG has no diffusion part: σ is a parameter of the measure) -/
theorem src_vg_cumulant2_is_second_moment {dr_ : ℚ} (t sigma nu theta w1 w2 w3 w4 w5 w6 a b : Rat) (sqrt exp : Rat → Rat)
    (hsig : sigma ≠ 0) (hnu : nu ≠ 0)
    (hS : sqrt (theta ^ 2 + 2 * sigma ^ 2 / nu) * sqrt (theta ^ 2 + 2 * sigma ^ 2 / nu) = theta ^ 2 + 2 * sigma ^ 2 / nu)
    (ha : a < 0) (hb : 0 < b) (h0 : exp 0 = 1) :
    VGCumulant_cumulant2 t sigma nu theta dr_
      = VGLevyMeasure_integrate_against_xx a b (vgC (VGParameters_init sigma nu theta w1 w2 w3 w4 w5 w6 sqrt))
          (vgLm (VGParameters_init sigma nu theta w1 w2 w3 w4 w5 w6 sqrt))
          (vgLp (VGParameters_init sigma nu theta w1 w2 w3 w4 w5 w6 sqrt)) true true exp * t := by
  obtain ⟨-, -, -, hc, hp, hm⟩ := src_vg_params sigma nu theta w1 w2 w3 w4 w5 w6 sqrt hsig hnu
  obtain ⟨nlp, nlm, -, m2, -⟩ := Vg.moments sigma nu theta _ hsig hnu hS
  rw [src_vg_second_moment_whole_line a b _ _ _ exp ha hb h0 (by rw [hp]; exact nlp) (by rw [hm]; exact nlm), hc, hp, hm, m2]
  simp only [VGCumulant_cumulant2] <;> src_arith

/-- **cumulant4(t) = ∫ x⁴ ν(dx) · t** with the closed form 3! c (1/λ₊⁴ + 1/λ₋⁴) of the fourth moment of the density
    c e^{−λ₊x}/x, c e^{−λ₋|x|}/|x| and the derived parameters as `VGParameters.__init__` computes them -/
theorem src_vg_cumulant4_is_fourth_moment {dr_ : ℚ} (t sigma nu theta w1 w2 w3 w4 w5 w6 : Rat) (sqrt : Rat → Rat) (hsig : sigma ≠ 0) (hnu : nu ≠ 0)
    (hS : sqrt (theta ^ 2 + 2 * sigma ^ 2 / nu) * sqrt (theta ^ 2 + 2 * sigma ^ 2 / nu) = theta ^ 2 + 2 * sigma ^ 2 / nu) :
    VGCumulant_cumulant4 t sigma nu theta dr_
      = 6 * vgC (VGParameters_init sigma nu theta w1 w2 w3 w4 w5 w6 sqrt)
          * (1 / vgLp (VGParameters_init sigma nu theta w1 w2 w3 w4 w5 w6 sqrt) ^ 4
             + 1 / vgLm (VGParameters_init sigma nu theta w1 w2 w3 w4 w5 w6 sqrt) ^ 4) * t := by
  obtain ⟨-, -, -, hc, hp, hm⟩ := src_vg_params sigma nu theta w1 w2 w3 w4 w5 w6 sqrt hsig hnu
  obtain ⟨-, -, -, -, m4⟩ := Vg.moments sigma nu theta _ hsig hnu hS
  rw [hc, hp, hm, m4]
  simp only [VGCumulant_cumulant4] <;> src_arith

/-- non-vacuity of the hypotheses: σ = 1, ν = 2, θ = 0 (S = 1), `sqrt` the constant 1, `exp` = 1 at 0 and 0 elsewhere -/
example : (fun _ : Rat => (1 : Rat)) ((0 : Rat) ^ 2 + 2 * 1 ^ 2 / 2) * (fun _ : Rat => (1 : Rat)) ((0 : Rat) ^ 2 + 2 * 1 ^ 2 / 2)
    = (0 : Rat) ^ 2 + 2 * 1 ^ 2 / 2 := by norm_num
example : vgLp (VGParameters_init 1 2 0 0 0 0 0 0 0 (fun _ => 1)) = 1 ∧ vgLm (VGParameters_init 1 2 0 0 0 0 0 0 0 (fun _ => 1)) = 1 := by
  decide +kernel
example : (fun x : Rat => if x = 0 then (1 : Rat) else 0) (vgLm (VGParameters_init 1 2 0 0 0 0 0 0 0 (fun _ => 1)) * (-1)) = 0 := by
  decide +kernel

theorem src_vg_cumulants_linear {sg_ : ℚ} {dr_ : ℚ} {nu_ : ℚ} (s t sigma nu theta drift : Rat) :
    VGCumulant_cumulant1 (s * t) sg_ nu_ theta drift = s * VGCumulant_cumulant1 t sg_ nu_ theta drift ∧
    VGCumulant_cumulant2 (s * t) sigma nu theta dr_ = s * VGCumulant_cumulant2 t sigma nu theta dr_ ∧
    VGCumulant_cumulant4 (s * t) sigma nu theta dr_ = s * VGCumulant_cumulant4 t sigma nu theta dr_ := by
  refine ⟨?_, ?_, ?_⟩ <;> simp only [VGCumulant_cumulant1, VGCumulant_cumulant2, VGCumulant_cumulant4] <;> src_arith

theorem src_vg_even_cumulants_nonneg {dr_ : ℚ} (t sigma nu theta : Rat) (ht : 0 ≤ t) (hnu : 0 ≤ nu) :
    0 ≤ VGCumulant_cumulant2 t sigma nu theta dr_ ∧ 0 ≤ VGCumulant_cumulant4 t sigma nu theta dr_ := by
  have e2 : VGCumulant_cumulant2 t sigma nu theta dr_ = (sigma ^ 2 + nu * theta ^ 2) * t := by
    simp only [VGCumulant_cumulant2] <;> src_arith
  have e4 : VGCumulant_cumulant4 t sigma nu theta dr_
      = 3 * (sigma ^ 4 * nu + 2 * theta ^ 4 * nu ^ 3 + 4 * sigma ^ 2 * theta ^ 2 * nu ^ 2) * t := by
    simp only [VGCumulant_cumulant4] <;> src_arith
  rw [e2, e4]
  constructor <;> positivity

/-- the constructor: a = 0, σ = 0 in the ZERO representation, cumulant drift 0 = a -/
theorem src_vg_ctor :
    (tripletRep VarianceGammaModel_init) = 0 ∧ (tripletSigma VarianceGammaModel_init) = 0 ∧
    (cumulantDrift VarianceGammaModel_init) = (tripletA VarianceGammaModel_init) ∧ (tripletA VarianceGammaModel_init) = 0 := by
  refine ⟨?_, ?_, ?_, ?_⟩ <;> simp only [VarianceGammaModel_init, tripletRep, tripletSigma, cumulantDrift, tripletA] <;> src_arith

/-- **cumulant1 = (drift in the CENTER representation) · t** for the constructed triplet, with `mid + left + right` the whole-line first
    moment the measure class computes -/
theorem src_vg_ctor_cumulant1_is_center_drift {sg_ : ℚ} {nu_ : ℚ} (t sigma nu theta w1 w2 w3 w4 w5 w6 a b : Rat) (sqrt exp : Rat → Rat) (fv : Bool)
    (mid left right : Rat) (hsig : sigma ≠ 0) (hnu : nu ≠ 0)
    (hS : sqrt (theta ^ 2 + 2 * sigma ^ 2 / nu) * sqrt (theta ^ 2 + 2 * sigma ^ 2 / nu) = theta ^ 2 + 2 * sigma ^ 2 / nu)
    (ha : a < 0) (hb : 0 < b) (h0 : exp 0 = 1)
    (hEa : exp (vgLm (VGParameters_init sigma nu theta w1 w2 w3 w4 w5 w6 sqrt) * a) = 0)
    (hEb : exp (-(vgLp (VGParameters_init sigma nu theta w1 w2 w3 w4 w5 w6 sqrt) * b)) = 0)
    (hadd : mid + left + right
      = VGLevyMeasure_integrate_against_x a b (vgC (VGParameters_init sigma nu theta w1 w2 w3 w4 w5 w6 sqrt))
          (vgLm (VGParameters_init sigma nu theta w1 w2 w3 w4 w5 w6 sqrt))
          (vgLp (VGParameters_init sigma nu theta w1 w2 w3 w4 w5 w6 sqrt)) exp) :
    VGCumulant_cumulant1 t sg_ nu_ theta (cumulantDrift VarianceGammaModel_init)
      = Rpylib.SrcTie.C10.conv (tripletA VarianceGammaModel_init) fv mid left right
          (repOf (tripletRep VarianceGammaModel_init)) .center * t := by
  obtain ⟨hr, -, hd, -⟩ := src_vg_ctor
  rw [src_vg_cumulant1_is_drift_plus_mean t sigma nu theta _ w1 w2 w3 w4 w5 w6 a b sqrt exp hsig hnu hS ha hb h0 hEa hEb,
    ← hadd, hr, hd, Rpylib.SrcTie.C10.src_conv_formula]
  simp only [repOf, Rpylib.SrcTie.C10.off] <;> src_arith

/-! ## CGMY

`scipy.special.gamma`, `gammainc` (regularised lower incomplete gamma) and `**` with a real exponent are arbitrary functions. -/

/-- normal forms: c t Γ(n − y) (m^{y−n} + g^{y−n}) -/
theorem src_cgmy_cumulants_closed_form {dr_ : ℚ} (t c g m y : Rat) (gamma : Rat → Rat) (rpow : Rat → Rat → Rat) :
    CGMYCumulant_cumulant2 t c g m y dr_ gamma rpow = c * t * gamma (2 - y) * (rpow m (y - 2) + rpow g (y - 2)) ∧
    CGMYCumulant_cumulant4 t c g m y dr_ gamma rpow = c * t * gamma (4 - y) * (rpow m (y - 4) + rpow g (y - 4)) ∧
    CGMYCumulant_cumulant6 t c g m y dr_ gamma rpow = c * t * gamma (6 - y) * (rpow m (y - 6) + rpow g (y - 6)) := by
  refine ⟨?_, ?_, ?_⟩ <;> simp only [CGMYCumulant_cumulant2, CGMYCumulant_cumulant4, CGMYCumulant_cumulant6] <;> src_arith

theorem src_cgmy_cumulants_linear {dr_ : ℚ} {c_ : ℚ} {g_ : ℚ} {m_ : ℚ} {gam_ : ℚ → ℚ} {rpw_ : ℚ → ℚ → ℚ} (s t c g m y drift : Rat) (gamma : Rat → Rat) (rpow : Rat → Rat → Rat) :
    CGMYCumulant_cumulant1 (s * t) c_ g_ m_ y drift gam_ rpw_ = s * CGMYCumulant_cumulant1 t c_ g_ m_ y drift gam_ rpw_ ∧
    CGMYCumulant_cumulant2 (s * t) c g m y dr_ gamma rpow = s * CGMYCumulant_cumulant2 t c g m y dr_ gamma rpow ∧
    CGMYCumulant_cumulant4 (s * t) c g m y dr_ gamma rpow = s * CGMYCumulant_cumulant4 t c g m y dr_ gamma rpow ∧
    CGMYCumulant_cumulant6 (s * t) c g m y dr_ gamma rpow = s * CGMYCumulant_cumulant6 t c g m y dr_ gamma rpow := by
  obtain ⟨a2, a4, a6⟩ := src_cgmy_cumulants_closed_form t c g m y gamma rpow
  obtain ⟨b2, b4, b6⟩ := src_cgmy_cumulants_closed_form (s * t) c g m y gamma rpow
  refine ⟨?_, ?_, ?_, ?_⟩
  · simp only [CGMYCumulant_cumulant1] <;> (try split_ifs) <;> src_arith
  · rw [a2, b2]; ring
  · rw [a4, b4]; ring
  · rw [a6, b6]; ring

/-- cumulant1 is `drift · t` on every activity branch (the special case y = 1 returns the same) -/
theorem src_cgmy_cumulant1 {c_ : ℚ} {g_ : ℚ} {m_ : ℚ} {gam_ : ℚ → ℚ} {rpw_ : ℚ → ℚ → ℚ} (t y drift : Rat) : CGMYCumulant_cumulant1 t c_ g_ m_ y drift gam_ rpw_ = drift * t := by
  simp only [CGMYCumulant_cumulant1] <;> (try split_ifs) <;> src_arith

/-- the even cumulants are non-negative whenever Γ at 2 − y, 4 − y, 6 − y and the powers of the two bases are (c ≥ 0, t ≥ 0): true of
    the real Γ and powers for y < 2, g, m > 0 -/
theorem src_cgmy_even_cumulants_nonneg {dr_ : ℚ} (t c g m y : Rat) (gamma : Rat → Rat) (rpow : Rat → Rat → Rat) (ht : 0 ≤ t) (hc : 0 ≤ c)
    (hG2 : 0 ≤ gamma (2 - y)) (hG4 : 0 ≤ gamma (4 - y)) (hG6 : 0 ≤ gamma (6 - y))
    (hPm : ∀ e, 0 ≤ rpow m e) (hPg : ∀ e, 0 ≤ rpow g e) :
    0 ≤ CGMYCumulant_cumulant2 t c g m y dr_ gamma rpow ∧ 0 ≤ CGMYCumulant_cumulant4 t c g m y dr_ gamma rpow ∧
    0 ≤ CGMYCumulant_cumulant6 t c g m y dr_ gamma rpow := by
  obtain ⟨a2, a4, a6⟩ := src_cgmy_cumulants_closed_form t c g m y gamma rpow
  rw [a2, a4, a6]
  exact ⟨mul_nonneg (mul_nonneg (mul_nonneg hc ht) hG2) (add_nonneg (hPm _) (hPg _)),
    mul_nonneg (mul_nonneg (mul_nonneg hc ht) hG4) (add_nonneg (hPm _) (hPg _)),
    mul_nonneg (mul_nonneg (mul_nonneg hc ht) hG6) (add_nonneg (hPm _) (hPg _))⟩

/-- the closed-form branch of `integrate_against_xx(a, b)`, a < 0 < b, for tempered tails (g ≠ 0, m ≠ 0) -/
theorem src_cgmy_second_moment_straddle (a b c g m y : Rat) (gammainc : Rat → Rat → Rat) (gamma : Rat → Rat) (rpow : Rat → Rat → Rat)
    (hg : g ≠ 0) (hm : m ≠ 0) (nm : rpow m (2 - y) ≠ 0) (ng : rpow g (2 - y) ≠ 0) :
    CGMYLevyMeasure_integrate_against_xx_straddle a b c g m y gammainc gamma rpow
      = c * gamma (2 - y) * gammainc (2 - y) (m * b) / rpow m (2 - y)
        + c * gamma (2 - y) * gammainc (2 - y) (-(g * a)) / rpow g (2 - y) := by
  simp [CGMYLevyMeasure_integrate_against_xx_straddle, hg, hm] <;> src_arith

/-- **cumulant2(t) = ∫ x² ν(dx) · t with the integral as `_CGMYLevyMeasure.integrate_against_xx` computes it over the whole line**: the
    regularised incomplete gamma function is 1 at the two (infinite) end points, and x^{−e} x^{e} = 1 for the two bases -/
theorem src_cgmy_cumulant2_is_second_moment {dr_ : ℚ} (t a b c g m y : Rat) (gammainc : Rat → Rat → Rat) (gamma : Rat → Rat)
    (rpow : Rat → Rat → Rat) (hg : g ≠ 0) (hm : m ≠ 0)
    (hIb : gammainc (2 - y) (m * b) = 1) (hIa : gammainc (2 - y) (-(g * a)) = 1)
    (hPm : rpow m (y - 2) * rpow m (2 - y) = 1) (hPg : rpow g (y - 2) * rpow g (2 - y) = 1) :
    CGMYCumulant_cumulant2 t c g m y dr_ gamma rpow
      = CGMYLevyMeasure_integrate_against_xx_straddle a b c g m y gammainc gamma rpow * t := by
  have nm : rpow m (2 - y) ≠ 0 := fun h => by rw [h, mul_zero] at hPm; exact zero_ne_one hPm
  have ng : rpow g (2 - y) ≠ 0 := fun h => by rw [h, mul_zero] at hPg; exact zero_ne_one hPg
  have im : rpow m (y - 2) = 1 / rpow m (2 - y) := by field_simp; linarith
  have ig : rpow g (y - 2) = 1 / rpow g (2 - y) := by field_simp; linarith
  rw [(src_cgmy_cumulants_closed_form t c g m y gamma rpow).1, src_cgmy_second_moment_straddle a b c g m y gammainc gamma rpow hg hm nm ng,
    hIb, hIa, im, ig]
  ring

/-- non-vacuity: y = 1, m = 5 with `rpow x e = x^e` for the integer exponents ±1 (5⁻¹ · 5 = 1) -/
example : (fun (x e : Rat) => if e = 1 then x else 1 / x) 5 (1 - 2) * (fun (x e : Rat) => if e = 1 then x else 1 / x) 5 (2 - 1) = 1 := by
  norm_num

/-- the constructor: a = 0, σ = 0, cumulant drift 0 = a; CENTER is declared for y ≥ 0, ZERO for y < 0 -/
theorem src_cgmy_ctor (y : Rat) :
    (tripletRep (CGMYModel_init y)) = (if y < 0 then 0 else 1) ∧ (tripletSigma (CGMYModel_init y)) = 0 ∧
    (cumulantDrift (CGMYModel_init y)) = (tripletA (CGMYModel_init y)) ∧ (tripletA (CGMYModel_init y)) = 0 := by
  refine ⟨?_, ?_, ?_, ?_⟩ <;> simp only [CGMYModel_init, tripletRep, tripletSigma, cumulantDrift, tripletA] <;> split_ifs <;> src_arith

/-- **y ≥ 0: cumulant1 = (drift in the CENTER representation) · t** — the declared representation is CENTER, in which the drift is the mean.
    (For y < 0 the constructor declares ZERO with a = 0 while `levy_exponent_pure_jump` stays centred: the recorded finding of
    harness/props/c10.py, `known_branch`; nothing is claimed for that branch.) -/
theorem src_cgmy_ctor_cumulant1_is_center_drift {c_ : ℚ} {g_ : ℚ} {m_ : ℚ} {gam_ : ℚ → ℚ} {rpw_ : ℚ → ℚ → ℚ} (t y : Rat) (fv : Bool) (mid left right : Rat) (hy : 0 ≤ y) :
    CGMYCumulant_cumulant1 t c_ g_ m_ y (cumulantDrift (CGMYModel_init y)) gam_ rpw_
      = Rpylib.SrcTie.C10.conv (tripletA (CGMYModel_init y)) fv mid left right (repOf (tripletRep (CGMYModel_init y))) .center * t := by
  obtain ⟨hr, -, hd, -⟩ := src_cgmy_ctor y
  rw [src_cgmy_cumulant1, hr, hd, if_neg (not_lt.mpr hy), Rpylib.SrcTie.C10.src_conv_formula]
  simp only [repOf, Rpylib.SrcTie.C10.off] <;> src_arith

/-! ## Black–Scholes (pure diffusion: ν = 0) -/

/-- the cached variance is σ², set by the constructor and refreshed by `initialisation()` (whatever it held before) -/
theorem src_bs_variance (sigma w1 w2 w : Rat) :
    (BlackScholesParameters_init sigma w1 w2).1 = sigma ∧ (BlackScholesParameters_init sigma w1 w2).2 = sigma * sigma ∧
    BlackScholesParameters_initialisation w sigma = sigma * sigma := by
  refine ⟨?_, ?_, ?_⟩ <;> simp only [BlackScholesParameters_init, BlackScholesParameters_initialisation] <;> src_arith

/-- (A) cumulants 1, 2 are the model's (with the variance the parameter class caches), 3 … 6 vanish -/
theorem src_bs_cumulants_eq_model (t drift sigma w1 w2 v : Rat) :
    BlackScholesCumulant_cumulant1 t drift v = bsCumulant1 drift t ∧
    BlackScholesCumulant_cumulant2 t drift (BlackScholesParameters_init sigma w1 w2).2 = bsCumulant2 sigma t ∧
    BlackScholesCumulant_cumulant3 t drift v = 0 ∧ BlackScholesCumulant_cumulant4 t drift v = 0 ∧
    BlackScholesCumulant_cumulant5 t drift v = 0 ∧ BlackScholesCumulant_cumulant6 t drift v = 0 := by
  refine ⟨?_, ?_, ?_, ?_, ?_, ?_⟩ <;>
    simp only [BlackScholesCumulant_cumulant1, BlackScholesCumulant_cumulant2, BlackScholesCumulant_cumulant3,
      BlackScholesCumulant_cumulant4, BlackScholesCumulant_cumulant5, BlackScholesCumulant_cumulant6, BlackScholesParameters_init,
      bsCumulant1, bsCumulant2] <;> src_arith

open Real MeasureTheory in
/-- **the translated `_BlackScholesCumulant.cumulant1 … 6` are t × the derivatives at 0 of s ↦ a s + σ²s²/2 + ∫ (e^{sx} − 1) · 0 dx** -/
theorem src_bs_cumulants_are_derivatives (a sigma t w1 w2 v : ℚ) :
    iteratedDeriv 1 (fun s : ℝ => (a : ℝ) * s + (sigma : ℝ) ^ 2 * s ^ 2 / 2 + ∫ x : ℝ, (exp (s * x) - 1) * (0 : ℝ)) 0 * (t : ℝ)
      = ((BlackScholesCumulant_cumulant1 t a v : ℚ) : ℝ) ∧
    iteratedDeriv 2 (fun s : ℝ => (a : ℝ) * s + (sigma : ℝ) ^ 2 * s ^ 2 / 2 + ∫ x : ℝ, (exp (s * x) - 1) * (0 : ℝ)) 0 * (t : ℝ)
      = ((BlackScholesCumulant_cumulant2 t a (BlackScholesParameters_init sigma w1 w2).2 : ℚ) : ℝ) ∧
    iteratedDeriv 3 (fun s : ℝ => (a : ℝ) * s + (sigma : ℝ) ^ 2 * s ^ 2 / 2 + ∫ x : ℝ, (exp (s * x) - 1) * (0 : ℝ)) 0 * (t : ℝ)
      = ((BlackScholesCumulant_cumulant3 t a v : ℚ) : ℝ) ∧
    iteratedDeriv 4 (fun s : ℝ => (a : ℝ) * s + (sigma : ℝ) ^ 2 * s ^ 2 / 2 + ∫ x : ℝ, (exp (s * x) - 1) * (0 : ℝ)) 0 * (t : ℝ)
      = ((BlackScholesCumulant_cumulant4 t a v : ℚ) : ℝ) ∧
    iteratedDeriv 5 (fun s : ℝ => (a : ℝ) * s + (sigma : ℝ) ^ 2 * s ^ 2 / 2 + ∫ x : ℝ, (exp (s * x) - 1) * (0 : ℝ)) 0 * (t : ℝ)
      = ((BlackScholesCumulant_cumulant5 t a v : ℚ) : ℝ) ∧
    iteratedDeriv 6 (fun s : ℝ => (a : ℝ) * s + (sigma : ℝ) ^ 2 * s ^ 2 / 2 + ∫ x : ℝ, (exp (s * x) - 1) * (0 : ℝ)) 0 * (t : ℝ)
      = ((BlackScholesCumulant_cumulant6 t a v : ℚ) : ℝ) := by
  obtain ⟨e1, e2, e3, e4, e5, e6⟩ := src_bs_cumulants_eq_model t a sigma w1 w2 v
  rw [e1, e2, e3, e4, e5, e6]
  exact ⟨bs_cumulants_are_derivatives a sigma t 1, bs_cumulants_are_derivatives a sigma t 2,
    by simpa using bs_cumulants_are_derivatives a sigma t 3, by simpa using bs_cumulants_are_derivatives a sigma t 4,
    by simpa using bs_cumulants_are_derivatives a sigma t 5, by simpa using bs_cumulants_are_derivatives a sigma t 6⟩

/-- the constructor of the pure diffusion: ZERO representation, drift μ for the triplet AND the cumulants, the same σ for the triplet and
    for the parameter object of the cumulants -/
theorem src_bs_ctor (mu sigma : Rat) :
    (PureDiffusiveModel_init mu sigma).2.1.2.2 = 0 ∧ (PureDiffusiveModel_init mu sigma).2.1.2.1 = sigma ∧
    (PureDiffusiveModel_init mu sigma).2.1.1 = mu ∧ (PureDiffusiveModel_init mu sigma).2.2.1 = mu ∧
    (PureDiffusiveModel_init mu sigma).2.2.2 = sigma := by
  refine ⟨?_, ?_, ?_, ?_, ?_⟩ <;> simp only [PureDiffusiveModel_init] <;> src_arith

theorem src_bs_direct_drift_eq_model (r d sigma : Rat) :
    BlackScholesModel_process_drift r d sigma = processDriftDirectBS r d sigma := by
  simp only [BlackScholesModel_process_drift, processDriftDirectBS] <;> src_arith

/-- **direct route** (ν = 0, κ = 0): `process_drift()` + σ²/2 = r − d -/
theorem src_bs_direct_route_martingale (r d sigma : Rat) :
    BlackScholesModel_process_drift r d sigma + sigma ^ 2 / 2 + 0 = r - d := by
  simp only [BlackScholesModel_process_drift] <;> src_arith

/-- **both routes agree**: `BlackScholesModel` wraps `PureDiffusiveModel(mu=0, sigma)`; ψ(−i) = σ²/2, and drift() is the direct drift -/
theorem src_bs_direct_eq_cf (t x r d w sigma : Rat) :
    BlackScholesModel_process_drift r d sigma
      = ExponentialOfLevyModel_drift t x r d (ExponentialOfLevyModel_init_omega w (psiAt (PureDiffusiveModel_init 0 sigma).2.1.1 sigma 0))
        + (PureDiffusiveModel_init 0 sigma).2.1.1 := by
  simp only [BlackScholesModel_process_drift, ExponentialOfLevyModel_drift, ExponentialOfLevyModel_init_omega, psiAt,
    PureDiffusiveModel_init] <;> src_arith

end Rpylib.SrcTie.C10b
