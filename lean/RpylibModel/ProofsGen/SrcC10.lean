/-
C10 / C04 — source-derived tie for the conversion of the drift between Lévy–Khintchine representations.
`RpylibModel/Generated/SrcC10.lean` is rewritten on every run from the text of `LevyTriplet.canonical_drift / zero_drift /
center_drift / tilde_drift` (rpylib/model/levymodel/levymodel.py) in /repo's current working tree.  The measure's first-moment
integrals `integrate_against_x(-1,1)`, `(-inf,-1)`, `(1,inf)` and `jump_of_finite_variation()` are parameters (any measure), the
current representation is the one-hot tuple of the four enum tests.

Obligations proved here on the translated source: a conversion from representation `r` to `r'` adds `c r' - c r` to the drift,
with `c` the offset from the canonical drift — hence conversions are reversible and path-independent (the statement of C10; C04
uses the TILDE drift).
-/
import RpylibModel.Generated.SrcC10
import Mathlib.Tactic.Linarith
import Mathlib.Tactic.Ring
import Mathlib.Algebra.Order.Field.Rat

namespace Rpylib.SrcTie.C10
open Rpylib.Src.C10

inductive Rep | zero | center | oneone | tilde
  deriving DecidableEq, Repr

/-- the drift the translated source computes for target representation `r'` when the triplet currently is `(a, r)`:
    `_drift_mapping[r']()` of `set_representation` -/
def conv (a : Rat) (fv : Bool) (mid left right : Rat) (r r' : Rep) : Rat :=
  let c := decide (r = .center); let o := decide (r = .oneone); let t := decide (r = .tilde); let z := decide (r = .zero)
  match r' with
  | .oneone => LevyTriplet_canonical_drift a fv mid left right c o t z
  | .zero => LevyTriplet_zero_drift a fv mid left right c o t z
  | .center => LevyTriplet_center_drift a fv mid left right c o t z
  | .tilde => LevyTriplet_tilde_drift a fv mid left right c o t z

/-- offset of a representation's drift from the canonical (ONEONE) drift -/
def off (fv : Bool) (mid left right : Rat) : Rep → Rat
  | .oneone => 0
  | .zero => -mid
  | .center => left + right
  | .tilde => if fv then -mid else 0

/-- every one of the 16 conversions adds `off r' - off r` -/
theorem src_conv_formula (a : Rat) (fv : Bool) (mid left right : Rat) (r r' : Rep) :
    conv a fv mid left right r r' = a - off fv mid left right r + off fv mid left right r' := by
  cases r <;> cases r' <;> cases fv <;>
    simp [conv, off, LevyTriplet_canonical_drift, LevyTriplet_zero_drift, LevyTriplet_center_drift, LevyTriplet_tilde_drift] <;>
    ring

/-- converting there and back returns the drift -/
theorem src_conv_reversible (a : Rat) (fv : Bool) (mid left right : Rat) (r r' : Rep) :
    conv (conv a fv mid left right r r') fv mid left right r' r = a := by
  rw [src_conv_formula, src_conv_formula]; ring

/-- the result of two conversions is the result of the direct one -/
theorem src_conv_path_independent (a : Rat) (fv : Bool) (mid left right : Rat) (r r' r'' : Rep) :
    conv (conv a fv mid left right r r') fv mid left right r' r'' = conv a fv mid left right r r'' := by
  rw [src_conv_formula, src_conv_formula, src_conv_formula]; ring

/-- converting to the current representation changes nothing (`set_representation` does not even call the mapping then) -/
theorem src_conv_same (a : Rat) (fv : Bool) (mid left right : Rat) (r : Rep) :
    conv a fv mid left right r r = a := by
  rw [src_conv_formula]; ring

/-- non-vacuity: CENTER -> ZERO with tails 3/4 + 1/4 and unit integral 1/2 moves the drift by -(1/2) - 1 -/
example : conv 2 true (1/2) (3/4) (1/4) .center .zero = 2 - 1 - 1/2 := by
  rw [src_conv_formula]; simp [off]; norm_num

end Rpylib.SrcTie.C10
