/-
C17 — source-derived tie, second set: the path-dependent payoffs and the underlyings.

`RpylibModel/Generated/SrcC17b.lean` is rewritten on every run by harness/srctie.py (units: harness/srcspec/C17.py) from the text of
rpylib/product/payoff.py, underlying.py and product.py in /repo's current working tree.  The theorems below are about THOSE
definitions.  For each translated loop / reduction there is one *characterisation* (`src_*_char`: the translated definition
equals a small specification function of `RpylibModel/Lemmas/SrcC17Lists.lean`, proved through generic fold lemmas whose
hypotheses are discharged by normalisation, for several shapes of the loop state); the statements of the property are then
derived from the characterisation for every path length, every barrier / level / strike, every time grid:

  (B) butterfly = its call combination (the calls are the translated `Vanilla.evaluate` of the first tie), ≥ 0 for a convex
      middle strike; the barrier flag of a path is "some value lies strictly beyond the barrier" and does not depend on the flag
      left by earlier paths; knock-in + knock-out = vanilla for every path and barrier; the Asian value is the time-weighted
      average: constant integrand ↦ the constant, between the bounds of the integrand (of the path, for the inner `Spot`);
      a default time is the date after the first log-jump-ratio below the level, `inf` ("no default") when there is none;
      identity and log representation give the same value for the same spot path (Spot, LogSpot, NthSpot, Performances, Asian,
      DefaultTime, DefaultTimeNthUnderlying); the notional scales linearly.
      "A payoff is a pure function of the path" is trivial for translated definitions (they are functions of their arguments);
      its substantive part is that the stored flag is overwritten, not accumulated: `src_barrier_flag_pure_*`.
  (A) equal to the hand-written model (`Rpylib.Payoff.knocked`, `barrierEval`, `butterfly`, `asianRow`, `defaultTimeRow`,
      `terminals`), so the theorems of Proofs/C17.lean about the model are theorems about the translated source.

Parameters that stand for collaborators (the trusted part of this tie): `spot_value` = `self._spot.value` as a function of (times,
path prefix); `vanilla_evaluate` = `self.vanilla.evaluate`; `payoff` = `self.payoff`; `exp`, `log` = `np.exp`, `np.log` (what is
assumed of them is a hypothesis of each theorem, with an instance in the `example`s); `inf` = `np.inf`.
-/
import RpylibModel.Generated.SrcC17
import RpylibModel.Generated.SrcC17b
import RpylibModel.Lemmas.SrcC17Lists
import RpylibModel.Model.Payoff
import RpylibModel.Proofs.C17
import Mathlib.Tactic.Linarith
import Mathlib.Tactic.Ring
import Mathlib.Tactic.FieldSimp
import Mathlib.Tactic.IntervalCases
import Mathlib.Algebra.Order.Field.Rat

set_option linter.unusedTactic false
set_option linter.unreachableTactic false
set_option linter.unnecessarySeqFocus false

namespace Rpylib.SrcTie.C17b
open Rpylib.Src.C17b Rpylib.Py
open Rpylib.Src.C17 (Vanilla_evaluate)

/-! ### Butterfly -/

/-- the butterfly equals its call combination (calls = the translated `Vanilla.evaluate`), every underlying and strikes -/
theorem src_butterfly_eq_calls (u K1 K2 K3 : Rat) :
    Butterfly_evaluate u [K1, K2, K3]
      = Vanilla_evaluate u K1 1 - 2 * Vanilla_evaluate u K2 1 + Vanilla_evaluate u K3 1 := by
  simp [Butterfly_evaluate, Vanilla_evaluate, idx, rmax] <;> split_ifs <;> linarith

/-- non-negative when the middle strike is at or above the mid-point (the constructor only enforces K1 < K2 < K3; below the
mid-point the pay-off is negative for large underlyings: `Rpylib.Payoff.butterfly_negative_witness`) -/
theorem src_butterfly_nonneg (u K1 K2 K3 : Rat) (h12 : K1 < K2) (hm : K1 + K3 ≤ 2 * K2) :
    0 ≤ Butterfly_evaluate u [K1, K2, K3] := by
  simp [Butterfly_evaluate, idx, rmax] <;> split_ifs <;> linarith

/-- (A) the model's `butterfly` -/
theorem src_butterfly_eq_model (u K1 K2 K3 : Rat) :
    Butterfly_evaluate u [K1, K2, K3] = Rpylib.Payoff.butterfly u K1 K2 K3 := by
  simp [Butterfly_evaluate, Rpylib.Payoff.butterfly, Rpylib.Payoff.rmax, idx, rmax] <;> split_ifs <;> linarith

/-! ### Barrier: the knock flag of the path being processed -/

/-- the flag after `__barrier_event_down(_, path)`: some value of the path lies strictly below the barrier — whatever flag an
earlier path left behind (`f0`) -/
theorem src_barrier_down_iff (path : List Rat) (f0 : Bool) (B : Rat) :
    Barrier__barrier_event_down path f0 B = true ↔ ∃ v ∈ path, v < B := by
  dsimp only [Barrier__barrier_event_down]
  first
    | (rw [foldl_flag_iff (flag := Prod.fst) (inv := fun s : Bool × Bool => s.2 = true → s.1 = true) (p := fun v : Rat => v < B)]
       · simp
       · intro s x hs; split_ifs <;> simp_all
       · intro s x hs; split_ifs <;> simp_all
       · simp)
    | (rw [foldl_flag_iff (flag := Prod.snd) (inv := fun s : Bool × Bool => s.1 = true → s.2 = true) (p := fun v : Rat => v < B)]
       · simp
       · intro s x hs; split_ifs <;> simp_all
       · intro s x hs; split_ifs <;> simp_all
       · simp)
    | (rw [foldl_bool_iff (p := fun v : Rat => v < B)]
       · simp
       · intro s x; split_ifs <;> simp_all)
    | simp [List.any_eq_true]

theorem src_barrier_up_iff (path : List Rat) (f0 : Bool) (B : Rat) :
    Barrier__barrier_event_up path f0 B = true ↔ ∃ v ∈ path, B < v := by
  dsimp only [Barrier__barrier_event_up]
  first
    | (rw [foldl_flag_iff (flag := Prod.fst) (inv := fun s : Bool × Bool => s.2 = true → s.1 = true) (p := fun v : Rat => B < v)]
       · simp
       · intro s x hs; split_ifs <;> simp_all
       · intro s x hs; split_ifs <;> simp_all
       · simp)
    | (rw [foldl_flag_iff (flag := Prod.snd) (inv := fun s : Bool × Bool => s.1 = true → s.2 = true) (p := fun v : Rat => B < v)]
       · simp
       · intro s x hs; split_ifs <;> simp_all
       · intro s x hs; split_ifs <;> simp_all
       · simp)
    | (rw [foldl_bool_iff (p := fun v : Rat => B < v)]
       · simp
       · intro s x; split_ifs <;> simp_all)
    | simp [List.any_eq_true]

/-- the flag is a function of the path and the barrier only: no state leaks from the path processed before -/
theorem src_barrier_flag_pure_down (path : List Rat) (f0 f0' : Bool) (B : Rat) :
    Barrier__barrier_event_down path f0 B = Barrier__barrier_event_down path f0' B := by
  rw [Bool.eq_iff_iff, src_barrier_down_iff, src_barrier_down_iff]

theorem src_barrier_flag_pure_up (path : List Rat) (f0 f0' : Bool) (B : Rat) :
    Barrier__barrier_event_up path f0 B = Barrier__barrier_event_up path f0' B := by
  rw [Bool.eq_iff_iff, src_barrier_up_iff, src_barrier_up_iff]

/-- (A) the model's `knocked` -/
theorem src_barrier_eq_model (path : List Rat) (f0 : Bool) (B : Rat) :
    Barrier__barrier_event_down path f0 B = Rpylib.Payoff.knocked false B path
      ∧ Barrier__barrier_event_up path f0 B = Rpylib.Payoff.knocked true B path := by
  constructor
  · rw [Bool.eq_iff_iff, src_barrier_down_iff]; simp [Rpylib.Payoff.knocked, List.any_eq_true]
  · rw [Bool.eq_iff_iff, src_barrier_up_iff]; simp [Rpylib.Payoff.knocked, List.any_eq_true]

/-! ### Barrier: knock-in + knock-out = vanilla -/

/-- for the same flag, every inner payoff function -/
theorem src_ki_plus_ko_eq_vanilla (flag : Bool) (v : Rat → Rat) (u : Rat) :
    Barrier_evaluate_knockin u flag v + Barrier_evaluate_knockout u flag v = v u := by
  simp only [Barrier_evaluate_knockin, Barrier_evaluate_knockout]
  split_ifs <;> simp

/-- **for every path and barrier** (down barriers): a down-and-in and a down-and-out object that processed the same path —
whatever each of them had processed before — add up to the vanilla payoff (the translated `Vanilla.evaluate`) -/
theorem src_ki_plus_ko_path_down (path : List Rat) (f0 f0' : Bool) (B K : Rat) (cp : Int) (u : Rat) :
    Barrier_evaluate_knockin u (Barrier__barrier_event_down path f0 B) (fun x => Vanilla_evaluate x K cp)
      + Barrier_evaluate_knockout u (Barrier__barrier_event_down path f0' B) (fun x => Vanilla_evaluate x K cp)
      = Vanilla_evaluate u K cp := by
  rw [src_barrier_flag_pure_down path f0' f0 B]
  exact src_ki_plus_ko_eq_vanilla _ _ u

theorem src_ki_plus_ko_path_up (path : List Rat) (f0 f0' : Bool) (B K : Rat) (cp : Int) (u : Rat) :
    Barrier_evaluate_knockin u (Barrier__barrier_event_up path f0 B) (fun x => Vanilla_evaluate x K cp)
      + Barrier_evaluate_knockout u (Barrier__barrier_event_up path f0' B) (fun x => Vanilla_evaluate x K cp)
      = Vanilla_evaluate u K cp := by
  rw [src_barrier_flag_pure_up path f0' f0 B]
  exact src_ki_plus_ko_eq_vanilla _ _ u

/-- a knock-out pays the vanilla exactly on the paths that never cross, a knock-in on those that do -/
theorem src_knockout_down_cases (path : List Rat) (f0 : Bool) (B : Rat) (v : Rat → Rat) (u : Rat) :
    ((∀ x ∈ path, B ≤ x) → Barrier_evaluate_knockout u (Barrier__barrier_event_down path f0 B) v = v u
        ∧ Barrier_evaluate_knockin u (Barrier__barrier_event_down path f0 B) v = 0)
    ∧ ((∃ x ∈ path, x < B) → Barrier_evaluate_knockout u (Barrier__barrier_event_down path f0 B) v = 0
        ∧ Barrier_evaluate_knockin u (Barrier__barrier_event_down path f0 B) v = v u) := by
  constructor
  · intro h
    have : Barrier__barrier_event_down path f0 B = false := by
      rw [← Bool.not_eq_true, src_barrier_down_iff]; simp only [not_exists, not_and, not_lt]; exact h
    simp [Barrier_evaluate_knockout, Barrier_evaluate_knockin, this]
  · intro h
    have : Barrier__barrier_event_down path f0 B = true := (src_barrier_down_iff path f0 B).mpr h
    simp [Barrier_evaluate_knockout, Barrier_evaluate_knockin, this]

/-- (A) the model's `barrierEval` -/
theorem src_barrier_eval_eq_model (c : Bool) (K : Rat) (flag : Bool) (u : Rat) :
    Barrier_evaluate_knockin u flag (fun x => Rpylib.Payoff.vanilla c x K) = Rpylib.Payoff.barrierEval c K true flag u
      ∧ Barrier_evaluate_knockout u flag (fun x => Rpylib.Payoff.vanilla c x K) = Rpylib.Payoff.barrierEval c K false flag u := by
  cases flag <;> simp [Barrier_evaluate_knockin, Barrier_evaluate_knockout, Rpylib.Payoff.barrierEval]

/-! ### Asian: the time-weighted average -/

/-- side goals of the loop lemmas: the loop body does `last_t = t`, `res += val_k (t − last_t)` (any arrangement) -/
local macro "asian_side_enum" : tactic =>
  `(tactic| (intro s k t; refine ⟨?_, ?_⟩ <;> (try simp only []) <;> ring1))
local macro "asian_side_range" : tactic =>
  `(tactic| (intro s n hn; refine ⟨?_, ?_⟩ <;> (try simp only [idx_natCast]) <;> ring1))

/-- characterisation: `Asian.value` is `Σ_k S_k (t_k − t_{k−1}) / t_n` with `t_{−1} = 0`, `S_k` = what the inner spot returns
for the path up to `t_k` -/
theorem src_asian_char (times path : List Rat) (spot : List Rat → List Rat → Rat) :
    Asian_value times path spot
      = wsum (fun k => spot times (sliceTo path (k + 1))) 0 0 times / times.getLastD 0 := by
  dsimp only [Asian_value]
  first
    | (rw [foldl_enum_wsum_rs (lt := Prod.fst) (rs := Prod.snd) (val := fun k => spot times (sliceTo path (k + 1)))]
       · first
           | (rw [foldl_enum_wsum_lt (lt := Prod.fst) (rs := Prod.snd) (val := fun k => spot times (sliceTo path (k + 1)))]
              · simp
              · asian_side_enum)
           | simp [idx_neg_one_eq_getLastD]
       · asian_side_enum)
    | (rw [foldl_enum_wsum_rs (lt := Prod.snd) (rs := Prod.fst) (val := fun k => spot times (sliceTo path (k + 1)))]
       · first
           | (rw [foldl_enum_wsum_lt (lt := Prod.snd) (rs := Prod.fst) (val := fun k => spot times (sliceTo path (k + 1)))]
              · simp
              · asian_side_enum)
           | simp [idx_neg_one_eq_getLastD]
       · asian_side_enum)
    | (rw [foldl_range_wsum_rs (lt := Prod.fst) (rs := Prod.snd) (val := fun k => spot times (sliceTo path (k + 1)))]
       · first
           | (rw [foldl_range_wsum_lt (lt := Prod.fst) (rs := Prod.snd) (val := fun k => spot times (sliceTo path (k + 1)))]
              · simp
              · asian_side_range)
           | simp [idx_neg_one_eq_getLastD]
       · asian_side_range)
    | (rw [foldl_range_wsum_rs (lt := Prod.snd) (rs := Prod.fst) (val := fun k => spot times (sliceTo path (k + 1)))]
       · first
           | (rw [foldl_range_wsum_lt (lt := Prod.snd) (rs := Prod.fst) (val := fun k => spot times (sliceTo path (k + 1)))]
              · simp
              · asian_side_range)
           | simp [idx_neg_one_eq_getLastD]
       · asian_side_range)

/-- **the average of a constant is the constant**: when the inner spot returns `c` at every date -/
theorem src_asian_constant (times path : List Rat) (spot : List Rat → List Rat → Rat) (c : Rat)
    (hT : times.getLastD 0 ≠ 0) (h : ∀ n : Nat, n < times.length → spot times (sliceTo path ((n : Int) + 1)) = c) :
    Asian_value times path spot = c := by
  rw [src_asian_char, wsum_const _ c times 0 0 (by intro n hn; simpa using h n hn), sub_zero]
  field_simp

/-- **the average lies between the bounds of what is averaged**, for non-decreasing dates `0 ≤ t_0 ≤ … ≤ t_n`, `t_n > 0` -/
theorem src_asian_between (times path : List Rat) (spot : List Rat → List Rat → Rat) (lo hi : Rat)
    (hm : Mono 0 times) (hT : 0 < times.getLastD 0)
    (h : ∀ n : Nat, n < times.length → lo ≤ spot times (sliceTo path ((n : Int) + 1)) ∧ spot times (sliceTo path ((n : Int) + 1)) ≤ hi) :
    lo ≤ Asian_value times path spot ∧ Asian_value times path spot ≤ hi := by
  rw [src_asian_char]
  obtain ⟨h1, h2⟩ := wsum_bounds (fun k => spot times (sliceTo path (k + 1))) lo hi times 0 0 hm
    (by intro n hn; simpa using h n hn)
  simp only [sub_zero] at h1 h2
  exact ⟨(le_div_iff₀ hT).mpr h1, (div_le_iff₀ hT).mpr h2⟩

/-- … with the inner `Spot` of the identity representation (the translated `Spot.value`): **between the extremes of the path** -/
theorem src_asian_between_path (times path : List Rat) (lo hi : Rat) (hlen : times.length ≤ path.length)
    (hm : Mono 0 times) (hT : 0 < times.getLastD 0) (hlo : ∀ x ∈ path, lo ≤ x) (hhi : ∀ x ∈ path, x ≤ hi) :
    lo ≤ Asian_value times path (fun t p => Spot_value t p) ∧ Asian_value times path (fun t p => Spot_value t p) ≤ hi := by
  apply src_asian_between times path _ lo hi hm hT
  intro n hn
  have hk : n < path.length := by omega
  have hmem : path.getD n 0 ∈ path := by
    rw [List.getD_eq_getElem?_getD, List.getElem?_eq_getElem hk]; simp
  have e : Spot_value times (sliceTo path ((n : Int) + 1)) = path.getD n 0 := by
    simp only [Spot_value]
    first
      | exact idx_sliceTo_last path n hk
      | (rw [idx_neg_one_eq_getLastD]; rw [← idx_neg_one_eq_getLastD]; exact idx_sliceTo_last path n hk)
  rw [e]
  exact ⟨hlo _ hmem, hhi _ hmem⟩

/-- … and a constant path averages to the constant -/
theorem src_asian_constant_path (times path : List Rat) (c : Rat) (hlen : times.length ≤ path.length)
    (hT : times.getLastD 0 ≠ 0) (hc : ∀ x ∈ path, x = c) :
    Asian_value times path (fun t p => Spot_value t p) = c := by
  apply src_asian_constant times path _ c hT
  intro n hn
  have hk : n < path.length := by omega
  have hmem : path.getD n 0 ∈ path := by
    rw [List.getD_eq_getElem?_getD, List.getElem?_eq_getElem hk]; simp
  have e : Spot_value times (sliceTo path ((n : Int) + 1)) = path.getD n 0 := by
    simp only [Spot_value]
    exact idx_sliceTo_last path n hk
  rw [e]; exact hc _ hmem

/-- (A) the model's `asianRow` (identity representation, one row) -/
theorem src_asian_eq_model (times path : List Rat) (hlen : times.length ≤ path.length) (hne : times ≠ []) :
    Asian_value times path (fun t p => Spot_value t p) = Rpylib.Payoff.asianRow times path := by
  rw [src_asian_char, wsum_eq_sum]
  have hpos : 0 < times.length := List.length_pos_iff.mpr hne
  unfold Rpylib.Payoff.asianRow Rpylib.Payoff.asianIdx Rpylib.Payoff.sumTo
  have hn : times.length - 1 + 1 = times.length := by omega
  rw [hn]
  have hl : times.getLastD 0 = times.getD (times.length - 1) 0 := by
    rw [← idx_neg_one_eq_getLastD, idx_neg_one]
  rw [hl]
  congr 1
  have hs : ∀ l : List Rat, Rpylib.Payoff.listSum l = l.sum := by
    intro l; induction l with
    | nil => rfl
    | cons x t ih => simp [Rpylib.Payoff.listSum] at ih ⊢; rw [← ih]
  rw [hs]
  congr 1
  apply List.map_congr_left
  intro i hi
  have hi' : i < times.length := List.mem_range.mp hi
  have e : Spot_value times (sliceTo path ((0 : Int) + (i : Int) + 1)) = path.getD i 0 := by
    simp only [Spot_value, zero_add]
    exact idx_sliceTo_last path i (by omega)
  simp only [] at e ⊢
  rw [e]

/-- `Asian._value_log` is `Asian.value` of the exponentiated path (the inner spot unchanged) -/
theorem src_asian_value_log_eq (times x : List Rat) (spot : List Rat → List Rat → Rat) (exp : Rat → Rat) :
    Asian_value_log times x spot exp = Asian_value times (x.map exp) spot := by
  simp only [Asian_value_log]

/-- **identity and log representation agree**: `Asian.value` on the spot path `exp(x)` with the identity `Spot.value` inside =
`Asian.value` on the log path `x` with `Spot._value_log` inside (what `update(LOG)` binds) -/
theorem src_asian_rep_agree (times x : List Rat) (exp : Rat → Rat) (hx : x ≠ []) :
    Asian_value times (x.map exp) (fun t p => Spot_value t p) = Asian_value times x (fun t p => Spot_value_log t p exp) := by
  rw [src_asian_char, src_asian_char]
  congr 1
  apply wsum_congr
  intro n _
  simp only [Spot_value, Spot_value_log, zero_add, sliceTo_map]
  exact idx_neg_one_map exp _ (sliceTo_ne_nil x n hx)

/-! ### Spot, LogSpot, NthSpot, Performances: both representations -/

theorem src_spot_rep_agree (times x : List Rat) (exp : Rat → Rat) (hx : x ≠ []) :
    Spot_value times (x.map exp) = Spot_value_log times x exp := by
  simp only [Spot_value, Spot_value_log]
  exact idx_neg_one_map exp x hx

theorem src_logspot_rep_agree (times x : List Rat) (exp log : Rat → Rat) (hx : x ≠ []) (hle : ∀ y, log (exp y) = y) :
    LogSpot_value times (x.map exp) log = LogSpot_value_log times x := by
  simp only [LogSpot_value, LogSpot_value_log]
  rw [idx_neg_one_map exp x hx, hle]

theorem src_nthspot_rep_agree (times : List Rat) (rows : List (List Rat)) (i : Int) (exp : Rat → Rat)
    (hr : idx rows (i - 1) ≠ []) :
    NthSpot_value times (rows.map (List.map exp)) i = NthSpot_value_log times rows i exp := by
  simp only [NthSpot_value, NthSpot_value_log]
  rw [idx_map_rows, idx_neg_one_map exp _ hr]

theorem src_performances_rep_agree (times : List Rat) (rows : List (List Rat)) (spots : List Rat) (exp log : Rat → Rat)
    (hrows : ∀ r ∈ rows, r ≠ []) (hE : ∀ s ∈ spots, ∀ y, exp (y - log s) = exp y / s) :
    Performances_value times (rows.map (List.map exp)) spots = Performances_value_log times rows (spots.map log) exp := by
  simp only [Performances_value, Performances_value_log]
  rw [map_last_map_rows exp rows hrows]
  exact zipWith_div_exp exp log _ spots hE

theorem lastOf_eq_getLastD : ∀ r : List Rat, Rpylib.Payoff.lastOf r = r.getLastD 0
  | [] => rfl
  | [_] => rfl
  | x :: y :: s => by
    rw [Rpylib.Payoff.lastOf, lastOf_eq_getLastD (y :: s), List.getLastD_cons, List.getLastD_cons, List.getLastD_cons]

/-- (A) the terminal values are the model's `terminals`; `Performances.value` is their ratio to the initial spots -/
theorem src_performances_eq_model (times : List Rat) (rows : List (List Rat)) (spots : List Rat) :
    Performances_value times rows spots = List.zipWith (· / ·) (Rpylib.Payoff.terminals rows) spots := by
  simp only [Performances_value, Rpylib.Payoff.terminals]
  congr 1
  apply List.map_congr_left
  intro r _
  rw [idx_neg_one_eq_getLastD, lastOf_eq_getLastD]

/-! ### default times -/

/-- the branch "some ratio is below the level" of the translated default-time code: `h1` the index list is not empty (so the
`if` on its size — written `> 0`, `!= 0`, `>= 1` .. — takes the branch), `h2` / `h3` its minimum / head is the first position -/
local macro "dt_some_case" h1:ident h2:ident h3:ident m:ident : tactic =>
  `(tactic| (
    have h1' : (0 : Int) < ((List.length _ : Nat) : Int) := Int.natCast_pos.mpr $h1
    try dsimp only at h1' $h2:ident $h3:ident ⊢
    split_ifs with hc
    · rw [idx_eq_getD_succ (m := $m)]
      first
        | (rw [$h2:ident] <;> ring1)
        | (rw [$h3:ident] <;> ring1)
    · exfalso; omega))


/-- characterisation: the date after the first log-jump-ratio below the level, `inf` if there is none -/
theorem src_default_time_char (times jp : List Rat) (a inf : Rat) :
    DefaultTime_value_log times jp a inf
      = match firstSat (fun v => v < a) (diff jp) with
        | some k => times.getD (k + 1) 0
        | none => inf := by
  dsimp only [DefaultTime_value_log]
  rw [argwhere_eq (fun v : Rat => v < a)]
  swap
  · intro q; simp
  have hm := minFold_whereIdx (fun v : Rat => v < a) (diff jp)
  cases hf : firstSat (fun v : Rat => v < a) (diff jp) with
  | none =>
    rw [hf] at hm
    simp [hm]
  | some k =>
    rw [hf] at hm
    obtain ⟨h1, h2, h3⟩ := hm
    dt_some_case h1 h2 h3 k

theorem src_default_time_nth_char (times : List Rat) (jps : List (List Rat)) (a : Rat) (k0 : Int) (inf : Rat) :
    DefaultTimeNthUnderlying_value_log times jps a k0 inf = DefaultTime_value_log times (idx jps k0) a inf := by
  rw [src_default_time_char]
  dsimp only [DefaultTimeNthUnderlying_value_log]
  rw [argwhere_eq (fun v : Rat => v < a)]
  swap
  · intro q; simp
  have hm := minFold_whereIdx (fun v : Rat => v < a) (diff (idx jps k0))
  cases hf : firstSat (fun v : Rat => v < a) (diff (idx jps k0)) with
  | none =>
    rw [hf] at hm
    simp [hm]
  | some k =>
    rw [hf] at hm
    obtain ⟨h1, h2, h3⟩ := hm
    dt_some_case h1 h2 h3 k

/-- **the default time is the first date at which the jump ratio falls below the level** -/
theorem src_default_time_first_passage (times jp : List Rat) (a inf : Rat) (k : Nat) (hk : k + 1 < jp.length)
    (hit : jp.getD (k + 1) 0 - jp.getD k 0 < a) (hfirst : ∀ i, i < k → ¬ (jp.getD (i + 1) 0 - jp.getD i 0 < a)) :
    DefaultTime_value_log times jp a inf = times.getD (k + 1) 0 := by
  rw [src_default_time_char]
  have : firstSat (fun v => v < a) (diff jp) = some k := by
    rw [firstSat_some]
    refine ⟨by rw [diff_length]; omega, by rw [diff_getD jp k hk]; exact hit, fun i hi => ?_⟩
    rw [diff_getD jp i (by omega)]; exact hfirst i hi
  rw [this]

/-- … **and "no default" (`inf`) exactly when no ratio does** -/
theorem src_default_time_no_default (times jp : List Rat) (a inf : Rat)
    (h : ∀ i, i + 1 < jp.length → ¬ (jp.getD (i + 1) 0 - jp.getD i 0 < a)) :
    DefaultTime_value_log times jp a inf = inf := by
  rw [src_default_time_char]
  have : firstSat (fun v => v < a) (diff jp) = none := by
    rw [firstSat_none]
    intro i hi
    rw [diff_length] at hi
    rw [diff_getD jp i (by omega)]; exact h i (by omega)
  rw [this]

/-- conversely a finite value (one different from `inf`) is a first passage -/
theorem src_default_time_finite (times jp : List Rat) (a inf : Rat) (h : DefaultTime_value_log times jp a inf ≠ inf) :
    ∃ k, k + 1 < jp.length ∧ jp.getD (k + 1) 0 - jp.getD k 0 < a ∧ (∀ i, i < k → ¬ (jp.getD (i + 1) 0 - jp.getD i 0 < a))
      ∧ DefaultTime_value_log times jp a inf = times.getD (k + 1) 0 := by
  rw [src_default_time_char] at h ⊢
  cases hf : firstSat (fun v => v < a) (diff jp) with
  | none => rw [hf] at h; exact absurd rfl h
  | some k =>
    obtain ⟨h1, h2, h3⟩ := (firstSat_some _ _ _).mp hf
    rw [diff_length] at h1
    refine ⟨k, by omega, ?_, fun i hi => ?_, rfl⟩
    · rw [diff_getD jp k (by omega)] at h2; exact h2
    · have := h3 i hi; rw [diff_getD jp i (by omega)] at this; exact this

/-- the identity representation takes logarithms of the jump path first -/
theorem src_default_time_value_eq (times jp : List Rat) (a inf : Rat) (log : Rat → Rat) :
    DefaultTime_value times jp a inf log = DefaultTime_value_log times (jp.map log) a inf := by
  simp only [DefaultTime_value]

/-- **identity and log representation agree** on the same jump path -/
theorem src_default_time_rep_agree (times x : List Rat) (a inf : Rat) (exp log : Rat → Rat) (hle : ∀ y, log (exp y) = y) :
    DefaultTime_value times (x.map exp) a inf log = DefaultTime_value_log times x a inf := by
  rw [src_default_time_value_eq, List.map_map]
  have : (log ∘ exp) = id := by funext y; simp [hle]
  rw [this, List.map_id]

theorem src_default_time_nth_rep_agree (times : List Rat) (xs : List (List Rat)) (a : Rat) (k0 : Int) (inf : Rat)
    (exp log : Rat → Rat) (hle : ∀ y, log (exp y) = y) :
    DefaultTimeNthUnderlying_value times (xs.map (List.map exp)) a k0 inf log
      = DefaultTimeNthUnderlying_value_log times xs a k0 inf := by
  have e : List.map log (idx (xs.map (List.map exp)) k0) = idx xs k0 := by
    rw [idx_map_rows, List.map_map]
    have : (log ∘ exp) = id := by funext y; simp [hle]
    rw [this, List.map_id]
  dsimp only [DefaultTimeNthUnderlying_value, DefaultTimeNthUnderlying_value_log]
  rw [e]

/-- (A) the model's `defaultTimeRow` (`none` = `inf`) -/
theorem src_default_time_eq_model (times jp : List Rat) (a inf : Rat) :
    DefaultTime_value_log times jp a inf = (Rpylib.Payoff.defaultTimeRow a times jp).getD inf := by
  unfold Rpylib.Payoff.defaultTimeRow
  cases hm : Rpylib.Payoff.defaultTimeIdx a (jp.length - 1) (fun k => jp.getD k 0) (fun k => times.getD k 0) with
  | none =>
    rw [Rpylib.Payoff.default_time_infinite_iff] at hm
    rw [Option.getD_none]
    exact src_default_time_no_default times jp a inf (fun i hi => hm i (by omega))
  | some τ =>
    rw [Rpylib.Payoff.default_time_first_below] at hm
    obtain ⟨k, hk, h1, h2, rfl⟩ := hm
    rw [Option.getD_some]
    exact src_default_time_first_passage times jp a inf k (by omega) h1 h2

/-! ### the vector of default times, n-th to default -/

/-- the update one (row of log ratios, level) pair makes to its entry of the vector of default times -/
def dtEntry (times : List Rat) (x : List Rat × Rat) (d : Rat) : Rat :=
  match firstSat (fun v => v < x.2) x.1 with
  | some m => times.getD (m + 1) 0
  | none => d

theorem src_default_times_char (times : List Rat) (rows : List (List Rat)) (levels infs : List Rat) :
    DefaultTimes_value_log times rows levels infs
      = applyAt (dtEntry times) 0 (List.zip (rows.map diff) levels) infs := by
  dsimp only [DefaultTimes_value_log]
  rw [foldl_setAt_enum (h := dtEntry times) (j := 0)]
  intro acc k x hk
  rw [argwhere_eq (fun v : Rat => v < x.2)]
  swap
  · intro q; simp
  have hm := minFold_whereIdx (fun v : Rat => v < x.2) x.1
  have hset : ∀ v : Rat, setAt acc k v = acc.set (0 + k.toNat) v := by
    intro v
    have : ¬ k < 0 := by omega
    simp only [setAt, this, if_false, zero_add]
  unfold dtEntry
  cases hf : firstSat (fun v : Rat => v < x.2) x.1 with
  | none =>
    rw [hf] at hm
    simp only [hm]
    rw [set_getD_self]
    simp
  | some m =>
    rw [hf] at hm
    obtain ⟨h1, h2, h3⟩ := hm
    simp only [hset]
    dt_some_case h1 h2 h3 m

/-- every entry of the vector of default times is the individual first-passage time of its row (`DefaultTime._value_log`
with that row's level; the entry of `_default_times_inf` when there is no default) -/
theorem src_default_times_entry (times : List Rat) (rows : List (List Rat)) (levels infs : List Rat) (k : Nat)
    (h1 : k < rows.length) (h2 : k < levels.length) (h3 : k < infs.length) :
    (DefaultTimes_value_log times rows levels infs).getD k 0
      = DefaultTime_value_log times (rows.getD k []) (levels.getD k 0) (infs.getD k 0) := by
  rw [src_default_times_char, applyAt_getD (dtEntry times) ([], 0), src_default_time_char]
  have hz : k < (List.zip (rows.map diff) levels).length := by simp; omega
  have hc : 0 ≤ k ∧ k < 0 + (List.zip (rows.map diff) levels).length ∧ k < infs.length := ⟨by omega, by omega, h3⟩
  simp only [hc, and_self, if_true, Nat.sub_zero]
  have e : (List.zip (rows.map diff) levels).getD k ([], 0) = (diff (rows.getD k []), levels.getD k 0) := by
    simp only [List.getD_eq_getElem?_getD]
    rw [List.getElem?_eq_getElem (by simpa using hz)]
    simp [List.getElem?_eq_getElem h1, List.getElem?_eq_getElem h2]
  rw [e]
  rfl

theorem src_default_times_length (times : List Rat) (rows : List (List Rat)) (levels infs : List Rat) :
    (DefaultTimes_value_log times rows levels infs).length = infs.length := by
  rw [src_default_times_char, applyAt_length]

/-- **n-th-to-default times are non-decreasing in n**: whatever valid answer `np.argpartition` gives for `k` and for `k'` -/
theorem src_nth_default_monotone (times : List Rat) (rows : List (List Rat)) (levels infs : List Rat) (k k' : Nat)
    (argp : List Rat → Int → List Int) (hkk : k ≤ k') (hk' : k' < infs.length)
    (h : IsArgPartition (DefaultTimes_value_log times rows levels infs) k (argp (DefaultTimes_value_log times rows levels infs) k))
    (h' : IsArgPartition (DefaultTimes_value_log times rows levels infs) k' (argp (DefaultTimes_value_log times rows levels infs) k')) :
    NthDefaultTimes_value_log times rows levels infs k argp ≤ NthDefaultTimes_value_log times rows levels infs k' argp := by
  dsimp only [NthDefaultTimes_value_log]
  rw [sliceTo_eq_take_succ _ _ k, sliceTo_eq_take_succ _ _ k']
  · exact kth_max_mono _ _ _ k k' hkk (by rw [src_default_times_length]; exact hk') h h'
  all_goals ring1

/-- the hypothesis on `np.argpartition` is satisfiable: for `D = [3, 1, 2]`, `k = 1` the answer `[1, 2, 0]` is a valid one -/
example : IsArgPartition [3, 1, 2] 1 [1, 2, 0] := by
  refine ⟨by decide, ?_⟩
  intro a ha b hb
  simp only [List.take, List.drop, List.mem_cons, List.mem_nil_iff, or_false] at ha hb
  subst hb
  rcases ha with rfl | rfl <;> simp [idx] <;> norm_num

/-! ### notional -/

/-- **the notional scales linearly**, every payoff function -/
theorem src_notional_linear (u c n : Rat) (payoff : Rat → Rat) :
    Product_call u (c * n) payoff = c * Product_call u n payoff := by
  simp only [Product_call]; ring

theorem src_notional_additive (u n m : Rat) (payoff : Rat → Rat) :
    Product_call u (n + m) payoff = Product_call u n payoff + Product_call u m payoff := by
  simp only [Product_call]; ring

theorem src_notional_one (u : Rat) (payoff : Rat → Rat) : Product_call u 1 payoff = payoff u := by
  simp only [Product_call]; ring

/-! ### non-vacuity of the hypotheses, concrete values through the translated source -/

/-- a time grid `0 ≤ t_0 ≤ … ≤ t_n`, `t_n > 0` (the hypotheses of `src_asian_between*`), and a path of the same length -/
example : Mono 0 [0, 1 / 2, 1, 2] ∧ (0 : Rat) < ([0, 1 / 2, 1, 2] : List Rat).getLastD 0
    ∧ ([0, 1 / 2, 1, 2] : List Rat).length ≤ ([100, 110, 90, 120] : List Rat).length := by
  refine ⟨by norm_num [Mono], by norm_num, by simp⟩

/-- the hypotheses made of `exp` / `log` hold for the rational pair of the model (`ratExpLog`): `log ∘ exp = id`, and the
homomorphism property for the initial spots `[1]` -/
example : (∀ y, Rpylib.Payoff.ratExpLog.log (Rpylib.Payoff.ratExpLog.exp y) = y)
    ∧ (∀ s ∈ ([1] : List Rat), ∀ y, Rpylib.Payoff.ratExpLog.exp (y - Rpylib.Payoff.ratExpLog.log s)
        = Rpylib.Payoff.ratExpLog.exp y / s) := by
  refine ⟨Rpylib.Payoff.ratExpLog_inversePair.log_exp, ?_⟩
  intro s hs y
  simp only [List.mem_singleton] at hs
  subst hs
  simp [Rpylib.Payoff.ratExpLog]

/-- a first passage and a path without default (the hypotheses of `src_default_time_first_passage` / `_no_default`) -/
example : DefaultTime_value_log [0, 1, 2, 3, 4] [0, -1 / 10, -6 / 10, -7 / 10, -2] (-1 / 2) 999 = 4
    ∧ DefaultTime_value_log [0, 1, 2, 3, 4] [0, -1 / 10, -3 / 10, -7 / 10, -1] (-1 / 2) 999 = 999 := by
  constructor
  · rw [src_default_time_first_passage _ _ _ _ 3 (by simp) (by norm_num) (by intro i hi; interval_cases i <;> norm_num)]
    simp
  · apply src_default_time_no_default
    intro i hi
    have hi' : i < 4 := by simp at hi; omega
    interval_cases i <;> norm_num

example : Asian_value [0, 1 / 2, 1, 2] [100, 110, 90, 120] (fun t p => Spot_value t p) = 110 := by
  rw [src_asian_char]
  simp [wsum, Spot_value, sliceTo, idx]
  norm_num

example : Barrier__barrier_event_down [100, 95, 101, 80] true 90 = true
    ∧ Barrier__barrier_event_down [100, 95, 101, 91] true 90 = false := by
  constructor
  · rw [src_barrier_down_iff]; exact ⟨80, by simp, by norm_num⟩
  · rw [← Bool.not_eq_true, src_barrier_down_iff]; simp only [not_exists, not_and, not_lt]
    intro v hv; simp at hv; rcases hv with rfl | rfl | rfl | rfl <;> norm_num

end Rpylib.SrcTie.C17b
