/-
C02 — source-derived tie for the state samplers.  `RpylibModel/Generated/SrcC02.lean` is rewritten on every run from the text
of eight functions / views in /repo's current working tree (harness/srcspec/C02.py):

  alias.py                    `AliasMethod._draw_with_u`, `create_alias`
  binarysearchtree.py         `BinarySearchTree.sample_with_u`, `create_binary_search_tree`
  binarysearchtreeadapted.py  `BinarySearchTreeAdapted1D.sample_with_u`
  samplingfactory.py          `create_vec_jump_matrix`
  table.py                    `_sample_one`, `create_table` (a view: the statements that build the 256 slots and the residuals)

Tables (`q`, `J`, `bst`, the axis, the 256 slots), the callable `states`, the memoised `_compute_probability` and the 32
random bits are parameters of the translated definitions, universally quantified below.  `while` loops are translated with a
fuel (`Rpylib.Py.whileLoop`; fuel exhausted = the declared error value): every theorem about a loop shows, through the
invariant rule `whileLoop_cases` (an invariant and a decreasing measure), that the loop ends because its condition is false.

Obligations (statements of C02 on the translated source; the loop bodies enter the proofs only through normalised
`hcond` / `hbody` facts, the invariants live in RpylibModel/Lemmas/SrcC02*.lean and never mention the generated terms):
 * alias lookup: `u ∈ [0,1)` lies in column `x = ⌊K u⌋ ∈ [0, K)` and is sent to `x` below the cut-off `q[x]`, to `J[x]` from
   the cut-off on; it equals the model's `Alias.draw` (A);
 * alias construction: for EVERY probability vector (any length, zeros, ties) the three loops end, the tables have the right
   shape (`0 ≤ q ≤ 1`, `0 ≤ J < K`) and every state receives exactly its probability: Σ_columns mass sent to `k` = `p_k`
   (Walker/Vose invariant of Lemmas/C02AliasBuild, carried over to the list program);
 * construction + lookup together: the set of uniforms sent to `k` is an explicit list of half-open cells of total length
   `p_k`; the state is an index of `p`; a state of probability 0 is never returned;
 * binary-search-tree lookup: the leaf returned is the one reached from the root by the threshold comparisons, it is one of
   the `K+1` leaves, the state is `states(leaf − K − 1)`; it equals the model's `Bst.draw` (A);
 * binary-search-tree construction: the `while True … break` loop (explicit stack) ends within the fuel and gives every
   internal node of the implicit heap the running cumulative probability of the recursive in-order walk (simulation of the
   loop, seen as an abstract machine, by `Bst.walk`: Lemmas/SrcC02Bst.lean); construction + lookup: explicit cells of total
   length `p_k`, never a state of probability 0;
 * one-dimensional adapted bisection: the index lies on the side chosen by `u > proba_left`, never the origin, never outside
   the axis; for additive range probabilities it is the first index whose cumulated probability reaches the (residual)
   uniform — whatever the cut points of the bisection are;
 * factory jump vector: the origin gets probability exactly 0, every other state `q_k / λ`, and the vector sums to 1 when `λ`
   is the sum of the other rates;
 * table lookup: the low byte of the 32 random bits selects the slot; a non-negative slot is the state, `-1` falls through
   to the residual alias with `bits · cst`;
 * table construction: exactly 256 slots, `⌊256 p_k⌋` of them for state `k`, `Σθ` of them `-1`, residuals `θ_k ∈ [0,1)`, and
   `(#slots(k) + #slots(-1)·θ_k/Σθ)/256 = p_k` (= the model's `Table.slotsOf` / `Table.theta`).
-/
import RpylibModel.Generated.SrcC02
import RpylibModel.Lemmas.SrcC02Basic
import RpylibModel.Lemmas.SrcC02Alias
import RpylibModel.Lemmas.SrcC02Table
import RpylibModel.Lemmas.SrcC02Bst
import RpylibModel.Proofs.C02
import Mathlib.Tactic.Linarith
import Mathlib.Tactic.Ring
import Mathlib.Tactic.FieldSimp
import Mathlib.Algebra.Order.Field.Rat
import Mathlib.Algebra.Order.Floor.Defs

set_option linter.unusedTactic false
set_option linter.unreachableTactic false
set_option linter.unusedVariables false

namespace Rpylib.SrcTie.C02
open Rpylib.Src.C02 Rpylib.Py Rpylib.Alias

/-! ## alias lookup (`AliasMethod._draw_with_u`) -/

/-- **column and cut-off**: for `u ∈ [0,1)` and tables of any content, the column `x = ⌊K u⌋` lies in `[0, K)`, and with
    `v = K u − x ∈ [0,1)` the state is `x` for `v < q[x]` and the alias `J[x]` for `q[x] ≤ v` -/
theorem src_alias_draw_spec (u : Rat) (K : Int) (q : List Rat) (J : List Int) (hK : 0 < K) (h0 : 0 ≤ u) (h1 : u < 1) :
    ∃ x : Int, 0 ≤ x ∧ x < K ∧ (x : Rat) ≤ (K : Rat) * u ∧ (K : Rat) * u < (x : Rat) + 1 ∧
      ((K : Rat) * u - x < idx q x → AliasMethod_draw_with_u u K q J = x) ∧
      (idx q x ≤ (K : Rat) * u - x → AliasMethod_draw_with_u u K q J = idx J x) := by
  have hKq : (0 : Rat) < K := by exact_mod_cast hK
  have hku : 0 ≤ (K : Rat) * u := mul_nonneg hKq.le h0
  have hku1 : (K : Rat) * u < K := by nlinarith
  refine ⟨((K : Rat) * u).floor, Rat.le_floor_iff.mpr (by exact_mod_cast hku), ?_, Rat.floor_le _,
    (by have := Rat.lt_floor_add_one ((K : Rat) * u); push_cast at this; exact this), ?_, ?_⟩
  · exact Rat.floor_lt_iff.mpr hku1
  all_goals
    have hE : ∀ z : Rat, z = (K : Rat) * u → truncInt z = ((K : Rat) * u).floor := fun z hz => by
      rw [hz, truncInt_of_nonneg hku]
    simp only [AliasMethod_draw_with_u]
    generalize hz : truncInt _ = t
    have ht : t = ((K : Rat) * u).floor := by rw [← hz]; exact hE _ (by ring1)
    subst ht
    intro h'
    split_ifs with h <;> first | rfl | (exfalso; linarith)

/-- the state returned is a column index or an alias entry: inside `0..K-1` as soon as `J` maps into it -/
theorem src_alias_draw_in_range (u : Rat) (K : Int) (q : List Rat) (J : List Int) (hK : 0 < K) (h0 : 0 ≤ u) (h1 : u < 1)
    (hJ : ∀ x : Int, 0 ≤ x → x < K → 0 ≤ idx J x ∧ idx J x < K) :
    0 ≤ AliasMethod_draw_with_u u K q J ∧ AliasMethod_draw_with_u u K q J < K := by
  obtain ⟨x, hx0, hxK, _, _, ha, hb⟩ := src_alias_draw_spec u K q J hK h0 h1
  rcases lt_or_ge ((K : Rat) * u - x) (idx q x) with h | h
  · rw [ha h]; exact ⟨hx0, hxK⟩
  · rw [hb h]; exact hJ x hx0 hxK

/-- (A) the translated lookup is the model's `Alias.draw` on the same tables (read as index functions), for `u ∈ [0,1)` -/
theorem src_alias_draw_eq_model (u : Rat) (q : List Rat) (J : List Int) (hJ : ∀ x ∈ J, 0 ≤ x) (h0 : 0 ≤ u) :
    AliasMethod_draw_with_u u (q.length : Int) q J = ((Alias.draw (tablesOf q J) u : Nat) : Int) := by
  have hku : 0 ≤ ((q.length : Nat) : Rat) * u := mul_nonneg (Nat.cast_nonneg _) h0
  have hfl : (0 : Int) ≤ (((q.length : Nat) : Rat) * u).floor := Rat.le_floor_iff.mpr (by exact_mod_cast hku)
  have hJn : ∀ i : Nat, ((J.getD i 0).toNat : Int) = J.getD i 0 := by
    intro i
    apply Int.toNat_of_nonneg
    simp only [List.getD_eq_getElem?_getD]
    cases h : J[i]? with
    | none => simp
    | some v => simp only [Option.getD_some]; exact hJ v (List.mem_of_getElem? h)
  obtain ⟨n, hn⟩ : ∃ n : Nat, (((q.length : Nat) : Rat) * u).floor = (n : Int) := ⟨_, (Int.toNat_of_nonneg hfl).symm⟩
  have hcol : Alias.col (tablesOf q J) u = n := by
    show (((q.length : Nat) : Rat) * u).floor.toNat = n
    rw [hn]; rfl
  rw [Alias.draw_eq, hcol]
  have hE : ∀ z : Rat, z = ((q.length : Nat) : Rat) * u → truncInt z = (n : Int) := fun z hz => by
    rw [hz, truncInt_of_nonneg hku, hn]
  simp only [AliasMethod_draw_with_u, Int.cast_natCast]
  generalize hz : truncInt _ = t
  have ht : t = (n : Int) := by rw [← hz]; exact hE _ (by ring1)
  subst ht
  simp only [idx_nat_rat, idx_nat_int, Int.cast_natCast]
  by_cases hc : ((q.length : Nat) : Rat) * u - (n : Rat) < q.getD n 0
  · have hc' : ((tablesOf q J).K : Rat) * u - (n : Rat) < (tablesOf q J).q n := hc
    rw [if_pos hc']
    split_ifs with h <;> first | rfl | (exfalso; linarith)
  · have hc' : ¬ ((tablesOf q J).K : Rat) * u - (n : Rat) < (tablesOf q J).q n := hc
    rw [if_neg hc']
    split_ifs with h <;> first | exact (hJn n).symm | (exfalso; linarith)

/-! ## alias construction (`create_alias`) -/

/-- **the construction realises `p`**: for every probability vector `p` (`p ≥ 0`, `Σ p = 1`, any length) the classification
    loop, the main loop and the two clean-up loops of `create_alias` end within the fuel `len(p)`, the tables returned have
    length `len(p)`, the alias entries are indices of `p`, the cut-offs lie in `[0, 1]`, and the law induced by the tables —
    `(Σ_x [x = k]·q_x + [J_x = k]·(1 − q_x)) / K`, the sum over the columns of the mass sent to `k` — is `p_k` -/
theorem src_create_alias_law (p : List Rat) (hp : ∀ x ∈ p, 0 ≤ x) (hsum : p.sum = 1) :
    (create_alias p).1.length = p.length ∧ (create_alias p).2.length = p.length ∧
    (∀ x ∈ (create_alias p).1, 0 ≤ x ∧ x < p.length) ∧ (∀ x ∈ (create_alias p).2, 0 ≤ x ∧ x ≤ 1) ∧
    ∀ k, k < p.length → lawOfTables (tablesOf (create_alias p).2 (create_alias p).1) k = p.getD k 0 := by
  have hK : 0 < p.length := by
    rcases Nat.eq_zero_or_pos p.length with h | h
    · rw [List.length_eq_zero_iff.mp h] at hsum; simp at hsum
    · exact h
  simp only [create_alias]
  -- the scaled vector and the zero alias table
  generalize hQ : List.map _ p = Q
  have hQ' : Q.length = p.length ∧ ∀ i, qfun Q i = qfun p i * (p.length : Rat) := by
    subst hQ
    refine ⟨List.length_map _, fun i => ?_⟩
    simp only [qfun, List.getD_eq_getElem?_getD, List.getElem?_map]
    cases p[i]? with
    | none => simp
    | some v => simp only [Option.map_some, Option.getD_some]; push_cast; ring1
  generalize hJ : izeros _ = J
  have hJ' : J.length = p.length ∧ ∀ x ∈ J, x = 0 := by
    subst hJ; unfold izeros; simp
  -- the classification loop
  generalize hf : List.foldl _ _ _ = cl
  obtain ⟨c1, c2, c3, c4⟩ := classify_core p.length (fun l => qfun p l * (p.length : Rat)) (by
    intro s g n hn
    have hq : idx Q (n : Int) = qfun p n * (p.length : Rat) := by rw [idx_ofNat]; exact hQ'.2 n
    simp only [hq]
    constructor <;> intro h <;> split_ifs <;> first | rfl | (exfalso; linarith)) hf
  have h0 := init_core p hp hsum hQ' hJ' c1 c2 c3 c4
  -- the main loop
  generalize hw : whileLoop _ _ _ _ = r
  obtain ⟨q, j, s, g, rfl, hI, hend⟩ := main_core p.length (qfun p) hw
    (by intro q j s g; simp only [decide_eq_true_eq] <;> first | exact Iff.rfl | exact and_comm)
    (by
      intro gs great j q ss small h0g h0s hgl hsl hne
      simp only [idx_last_concat, popAt_last_concat, setAt_of_nonneg _ h0s]
      generalize hq' : setAt q _ _ = q'
      have hq'l : q'.length = q.length := by subst hq'; rw [setAt_of_nonneg _ h0g]; exact List.length_set
      have hq'f : qfun q' = upd (qfun q) great.toNat (qfun q great.toNat + qfun q small.toNat - 1) := by
        subst hq'
        rw [setAt_of_nonneg _ h0g, qfun_set _ _ _ hgl, idx_rat _ h0g, idx_rat _ h0s]
        congr 1 <;> (simp only [qfun] <;> ring1)
      have hc : idx q' great = qfun q' great.toNat := idx_rat _ h0g
      refine ⟨q', hq'l, hq'f, ?_, ?_⟩ <;>
      · intro h
        simp only [hc]
        split_ifs <;> first | rfl | (exfalso; linarith))
    h0
  simp only []
  -- the two clean-up loops
  have hnnG : ∀ x ∈ g, 0 ≤ x ∧ x.toNat < q.length := fun x hx =>
    ⟨hI.nnG x hx, by rw [hI.lq]; exact hI.inv.ltG _ (mem_stackOf hx)⟩
  have hnnS : ∀ x ∈ s, 0 ≤ x ∧ x.toNat < q.length := fun x hx =>
    ⟨hI.nnS x hx, by rw [hI.lq]; exact hI.inv.ltS _ (mem_stackOf hx)⟩
  generalize hw2 : whileLoop _ _ _ _ = r2
  obtain ⟨q1, rfl, hq1l, hq1⟩ := cleanup_core (fun st q => (q, st)) (fun st => st.2.length) (fun _ _ => rfl) p.length hw2
    (by intro st q; simp only [decide_eq_true_eq])
    (by intro st x q hx hxl; simp only [idx_last_concat, popAt_last_concat, setAt_of_nonneg _ hx])
    (by have := hI.len; omega) hnnG
  simp only []
  generalize hw3 : whileLoop _ _ _ _ = r3
  obtain ⟨q2, rfl, hq2l, hq2⟩ := cleanup_core (fun st q => (q, st)) (fun st => st.2.length) (fun _ _ => rfl) p.length hw3
    (by intro st q; simp only [decide_eq_true_eq])
    (by intro st x q hx hxl; simp only [idx_last_concat, popAt_last_concat, setAt_of_nonneg _ hx])
    (by have := hI.len; omega) (by rw [hq1l]; exact hnnS)
  simp only []
  obtain ⟨f1, f2, f3, f4, f5⟩ := final_core p.length hK (qfun p) hI hend ⟨hq1l, hq1⟩ ⟨hq2l, hq2⟩
  exact ⟨f1, f2, f3, f4, f5⟩

/-- **the alias sampler realises `p`** (translated construction + translated lookup): for every probability vector `p`
    (any length, zeros, ties) and the tables `(J, q) = create_alias(p)`: the lookup sends exactly the explicit half-open
    cells of `k` to `k` (for `u ∈ [0,1)`), their total length is `p_k`, the state returned is an index of `p`, and a state of
    probability zero is never returned -/
theorem src_alias_realises (p : List Rat) (hp : ∀ x ∈ p, 0 ≤ x) (hsum : p.sum = 1) (k : Nat) (hk : k < p.length) :
    Alias.lengthOf (Alias.cells (tablesOf (create_alias p).2 (create_alias p).1)) k = p.getD k 0 ∧
    ∀ u, 0 ≤ u → u < 1 →
      (AliasMethod_draw_with_u u (p.length : Int) (create_alias p).2 (create_alias p).1 = (k : Int) ↔
        ∃ c ∈ Alias.cells (tablesOf (create_alias p).2 (create_alias p).1), c.1 = k ∧ c.2.1 ≤ u ∧ u < c.2.2) ∧
      0 ≤ AliasMethod_draw_with_u u (p.length : Int) (create_alias p).2 (create_alias p).1 ∧
      AliasMethod_draw_with_u u (p.length : Int) (create_alias p).2 (create_alias p).1 < p.length ∧
      (p.getD k 0 = 0 → AliasMethod_draw_with_u u (p.length : Int) (create_alias p).2 (create_alias p).1 ≠ (k : Int)) := by
  obtain ⟨l1, l2, rJ, rq, law⟩ := src_create_alias_law p hp hsum
  have hK : 0 < (tablesOf (create_alias p).2 (create_alias p).1).K := by
    show 0 < (create_alias p).2.length; rw [l2]; omega
  have hlaw := law k hk
  refine ⟨by rw [Alias.law_of_cells, hlaw], ?_⟩
  intro u h0 h1
  have hA := src_alias_draw_eq_model u (create_alias p).2 (create_alias p).1 (fun x hx => (rJ x hx).1) h0
  rw [l2] at hA
  have hrange := src_alias_draw_in_range u (p.length : Int) (create_alias p).2 (create_alias p).1 (by exact_mod_cast (by omega : 0 < p.length)) h0 h1 (by
    intro x hx0 hxK
    have hxl : x.toNat < (create_alias p).1.length := by rw [l1]; omega
    rw [idx_int _ hx0, List.getD_eq_getElem?_getD, List.getElem?_eq_getElem hxl, Option.getD_some]
    exact rJ _ (List.getElem_mem hxl))
  refine ⟨?_, hrange.1, hrange.2, ?_⟩
  · rw [hA, Int.natCast_inj]
    exact Alias.draw_spec _ hK u h0 h1 k
  · intro hz
    rw [hA, Ne, Int.natCast_inj]
    exact Alias.zero_never _ hK k (by rw [hlaw, hz]) u h0 h1


/-! ## binary search tree lookup (`BinarySearchTree.sample_with_u`) -/

/-- nodes of the implicit heap reachable from the root by comparing `u` with the thresholds: left below the threshold,
    right from the threshold on (so that `u = 0` never reaches a leaf whose interval `[c, c)` is empty) -/
inductive Reach (bst : List Rat) (u : Rat) : Int → Prop
  | root : Reach bst u 1
  | left {p : Int} : Reach bst u p → u < idx bst (p - 1) → Reach bst u (2 * p)
  | right {p : Int} : Reach bst u p → idx bst (p - 1) ≤ u → Reach bst u (2 * p + 1)

theorem reach_left {bst : List Rat} {u : Rat} {p : Int} (h : Reach bst u p) (hu : u < idx bst (p - 1)) (z : Int)
    (hz : z = 2 * p) : Reach bst u z := hz ▸ Reach.left h hu
theorem reach_right {bst : List Rat} {u : Rat} {p : Int} (h : Reach bst u p) (hu : idx bst (p - 1) ≤ u) (z : Int)
    (hz : z = 2 * p + 1) : Reach bst u z := hz ▸ Reach.right h hu

theorem src_bst_sample_spec (u : Rat) (K : Int) (bst : List Rat) (states : Int → Int) (hK : 0 ≤ K) :
    ∃ leaf : Int, Reach bst u leaf ∧ K < leaf ∧ leaf ≤ 2 * K + 1 ∧
      BinarySearchTree_sample_with_u u K bst states = states (leaf - K - 1) := by
  simp only [BinarySearchTree_sample_with_u]
  generalize hw : whileLoop _ _ _ _ = r
  obtain ⟨s', rfl, ⟨hR, h1, h2⟩, hc⟩ := whileLoop_cases hw
    (fun p : Int => Reach bst u p ∧ 1 ≤ p ∧ p ≤ 2 * K + 1) (fun p : Int => (K + 1 - p).toNat)
    (by
      intro p ⟨hR, h1, h2⟩ hc
      simp only [decide_eq_true_eq] at hc
      split_ifs with h <;>
      first
      | exact ⟨⟨reach_left hR (by linarith) _ (by ring1), by omega, by omega⟩, by omega⟩
      | exact ⟨⟨reach_right hR (by linarith) _ (by ring1), by omega, by omega⟩, by omega⟩)
    ⟨Reach.root, le_refl _, by omega⟩ (by omega)
  simp only [decide_eq_false_iff_not, not_le] at hc
  exact ⟨s', hR, hc, h2, by first | rfl | (simp only []; congr 1; ring1)⟩

/-! ## binary search tree construction (`create_binary_search_tree`) and the sampler as a whole -/

theorem sliceTo_nat {α : Type} (xs : List α) (n : Nat) : sliceTo xs (n : Int) = xs.take n := by
  unfold sliceTo; simp

/-- **the thresholds are those of the in-order walk**: for a vector of `K + 1 ≥ 2` entries the loop of
    `create_binary_search_tree` ends within the fuel, returns `K + 1` entries, and every internal node of the implicit heap
    holds the running cumulative probability the recursive in-order walk `Bst.walk` assigns to it -/
theorem src_bst_build_agrees (p : List Rat) (K : Nat) (hK : 1 ≤ K) (hlen : p.length = K + 1) :
    (create_binary_search_tree p).length = K + 1 ∧
    ∀ e ∈ (Bst.walk K (qfun p) (K + 1) 1 0).1, (create_binary_search_tree p).getD (e.1 - 1) 0 = e.2 := by
  have hk : ((p.length : Nat) : Int) - 1 = (K : Int) := by omega
  simp only [create_binary_search_tree, hk, Int.cast_zero]
  generalize hB : zeros _ ++ p = B
  have hBl : LeavesOK K (qfun p) B := by
    subst hB
    refine ⟨by simp [zeros, hlen]; omega, fun i hi => ?_⟩
    simp [zeros, qfun, List.getD_eq_getElem?_getD, List.getElem?_append_right]
  rw [hlen]
  generalize hw : whileLoop _ _ _ _ = r
  obtain ⟨s', rfl, hs'⟩ := bst_build_core K hK (qfun p) B hBl hw
    (by
      intro B c ptr st
      simp only [decide_eq_true_eq]
      have e1 : (¬ ((st.length : Nat) : Int) ≠ 0) ↔ st = [] := by simp
      have e2 : (((st.length : Nat) : Int) = 0) ↔ st = [] := by simp
      have e3 : (st.length = 0) ↔ st = [] := by simp
      first
      | (rw [e1]; exact Iff.rfl)
      | (rw [e2]; exact Iff.rfl)
      | (rw [e3]; exact Iff.rfl)
      | (simp only [e1, e2, e3, gt_iff_lt, and_comm]))
    (by
      intro B c ptr st h1 hp
      dsimp only
      split_ifs with h <;> first
        | (exfalso; omega)
        | rfl
        | (refine Prod.ext ?_ (Prod.ext ?_ (Prod.ext ?_ ?_)) <;> simp only [] <;> first | rfl | ring1))
    (by
      intro B c ptr st t hp ht
      have e1 : idx B (ptr - 1) = B.getD (ptr.toNat - 1) 0 := by
        rw [idx_rat _ (by omega : (0 : Int) ≤ ptr - 1)]; congr 1; omega
      have e2 : ∀ v : Rat, setAt B (t - 1) v = B.set (t.toNat - 1) v := by
        intro v; rw [setAt_of_nonneg _ (by omega : (0 : Int) ≤ t - 1)]; congr 1; omega
      simp only [idx_last_concat, popAt_last_concat, e1, e2]
      split_ifs with h <;> first
        | (exfalso; omega)
        | rfl
        | (refine Prod.ext ?_ (Prod.ext ?_ (Prod.ext ?_ ?_)) <;> simp only [] <;> first | rfl | ring1 | (congr 1; ring1)))
  simp only []
  rw [show (K : Int) + 1 = ((K + 1 : Nat) : Int) by push_cast; ring, sliceTo_nat, hs']
  have htl := walk_keys_range K (qfun p) (K + 1) 1 0 (le_refl _)
  refine ⟨by rw [List.length_take, assign_length, hBl.1]; omega, ?_⟩
  intro e he
  have hk1 := htl e he
  rw [List.getD_eq_getElem?_getD, List.getElem?_take_of_lt (by omega), ← List.getD_eq_getElem?_getD]
  exact assign_get _ B (Bst.walk_pairwise K (qfun p) (K + 1) 1 0 (le_refl _))
    (fun e' he' => by have := htl e' he'; rw [hBl.1]; omega) e he

theorem bst_sim (K : Nat) (bstf : Nat → Rat) (u : Rat) {cond : Int → Bool} {body : Int → Int}
    (hcond : ∀ p : Nat, cond (p : Int) = true ↔ p ≤ K)
    (hbody : ∀ p : Nat, 1 ≤ p → body (p : Int) = ((if u < bstf p then 2 * p else 2 * p + 1 : Nat) : Int)) :
    ∀ (fuel p : Nat), 1 ≤ p → ∀ s', whileLoop cond body fuel (p : Int) = some s' →
      s' - (K : Int) - 1 = ((Bst.descend K bstf u fuel p : Nat) : Int) := by
  intro fuel
  induction fuel with
  | zero =>
    intro p hp s' h
    simp only [whileLoop] at h
    split_ifs at h with hc
    have hpK : ¬ p ≤ K := fun hle => hc ((hcond p).mpr hle)
    simp only [Option.some.injEq] at h
    subst h
    simp only [Bst.descend]; omega
  | succ n ih =>
    intro p hp s' h
    simp only [whileLoop] at h
    split_ifs at h with hc
    · have hpK : p ≤ K := (hcond p).mp hc
      rw [hbody p hp] at h
      simp only [Bst.descend, if_pos hpK]
      exact ih _ (by split_ifs <;> omega) s' h
    · have hpK : ¬ p ≤ K := fun hle => hc ((hcond p).mpr hle)
      simp only [Option.some.injEq] at h
      subst h
      simp only [Bst.descend, if_neg hpK]; omega

/-- (A) the translated lookup is `states (Bst.draw K bst u)` with the threshold table read as the model's node function -/
theorem src_bst_sample_eq_model (u : Rat) (K : Nat) (bst : List Rat) (states : Int → Int) :
    BinarySearchTree_sample_with_u u (K : Int) bst states =
      states ((Bst.draw K (fun ptr => bst.getD (ptr - 1) 0) u : Nat) : Int) := by
  simp only [BinarySearchTree_sample_with_u]
  generalize hw : whileLoop _ _ _ _ = r
  rw [Int.toNat_natCast] at hw
  cases r with
  | none =>
    exfalso
    obtain ⟨s', hs, _, _⟩ := whileLoop_cases hw (fun p : Int => 1 ≤ p) (fun p : Int => ((K : Int) + 1 - p).toNat)
      (by
        intro p h1 hc
        simp only [decide_eq_true_eq] at hc
        split_ifs <;> constructor <;> omega) (le_refl _) (by simp)
    cases hs
  | some s' =>
    have hsim := bst_sim K (fun ptr => bst.getD (ptr - 1) 0) u
      (by intro p; simp only [decide_eq_true_eq, Int.ofNat_le])
      (by
        intro p hp
        have e : idx bst ((p : Int) - 1) = bst.getD (p - 1) 0 := by
          rw [show (p : Int) - 1 = ((p - 1 : Nat) : Int) by omega, idx_nat_rat]
        simp only [e]
        split_ifs <;> first | (push_cast; ring1) | (exfalso; linarith))
      (K + 1) 1 (le_refl _) s' hw
    simp only []
    congr 1


/-- **the binary-search-tree sampler realises `p`** (translated construction + translated lookup): for every probability
    vector `p` with `K + 1 ≥ 2` entries and the thresholds `T = create_binary_search_tree(p)`: the explicit half-open cells
    of state `k` have total length `p_k`; for `u ∈ [0,1)` the lookup returns `states(j)` with `j ≤ K` the state whose cell
    contains `u`; a state of probability zero is never returned -/
theorem src_bst_realises (p : List Rat) (K : Nat) (hK : 1 ≤ K) (hlen : p.length = K + 1) (hp : ∀ x ∈ p, 0 ≤ x)
    (hsum : p.sum = 1) (k : Nat) (hk : k ≤ K) :
    Alias.lengthOf (Bst.cells K (fun ptr => (create_binary_search_tree p).getD (ptr - 1) 0)) k = p.getD k 0 ∧
    ∀ u, 0 ≤ u → u < 1 → ∃ j : Nat, j ≤ K ∧
      (∀ states : Int → Int, BinarySearchTree_sample_with_u u (K : Int) (create_binary_search_tree p) states = states (j : Int)) ∧
      (j = k ↔ ∃ c ∈ Bst.cells K (fun ptr => (create_binary_search_tree p).getD (ptr - 1) 0), c.1 = k ∧ c.2.1 ≤ u ∧ u < c.2.2) ∧
      (p.getD k 0 = 0 → j ≠ k) := by
  obtain ⟨_, hagree⟩ := src_bst_build_agrees p K hK hlen
  set Tf : Nat → Rat := fun ptr => (create_binary_search_tree p).getD (ptr - 1) 0 with hTf
  have hpf : ∀ i, i ≤ K → 0 ≤ qfun p i := fun i _ => qfun_nonneg p hp i
  have hs : ∑ i ∈ Finset.range (K + 1), qfun p i = 1 := by rw [← hlen, ← list_sum_eq_range]; exact hsum
  have hlaw : Alias.lengthOf (Bst.cells K Tf) k = qfun p k := by
    classical
    have hroot : ∀ i, (∃ j, (K + 1 + i) / 2 ^ j = 1) := fun i => Bst.anc_root _ (by omega)
    have htot : (Bst.walk K (qfun p) (K + 1) 1 0).2 = 1 := by
      rw [Bst.walk_snd K (qfun p) _ _ _ (Bst.Ok.root K), Bst.massOf_eq_sum K _ _ _ (Bst.Ok.root K), zero_add, ← hs]
      apply Finset.sum_congr rfl
      intro i _
      rw [if_pos (hroot i)]
      congr 1; omega
    have h := Bst.cells_of_walk K (qfun p) hpf Tf k (K + 1) 1 0 (Bst.Ok.root K) hagree
    rw [htot] at h
    unfold Bst.cells
    rw [h, Bst.massOf_eq_sum K _ _ _ (Bst.Ok.root K), Finset.sum_eq_single_of_mem k (by simp; omega)]
    · rw [if_pos (hroot k)]
      have e : K + 1 + k - K - 1 = k := by omega
      rw [e, if_pos rfl]
    · intro i _ hne
      rw [if_pos (hroot i)]
      have e : K + 1 + i - K - 1 = i := by omega
      rw [e, if_neg hne]
  refine ⟨hlaw, ?_⟩
  intro u h0 h1
  refine ⟨Bst.draw K Tf u, Bst.draw_le K Tf u, fun states => src_bst_sample_eq_model u K _ states,
    Bst.draw_spec K Tf u h0 h1 k, ?_⟩
  intro hz
  exact Bst.zero_never K Tf k (by rw [hlaw]; exact hz) u h0 h1


/-! ## one-dimensional adapted bisection (`BinarySearchTreeAdapted1D.sample_with_u`) -/

/-- probability of the index range `[l, r]` of the axis as the sampler asks for it: the memoised
    `_compute_probability(a, b)` at the arithmetic-midpoint cell boundaries hard-coded in the sampler -/
def rangeP (cp : Rat → Rat → Rat) (axis : List Rat) (l r : Int) : Rat :=
  cp ((idx axis (imax 0 (l - 1)) + idx axis l) / 2) ((idx axis r + idx axis (imin ((axis.length : Int) - 1) (r + 1))) / 2)

/-- cumulated probability of `[lo, k]` (`0` for `k < lo`) -/
def prefP (cp : Rat → Rat → Rat) (axis : List Rat) (lo k : Int) : Rat := if k < lo then 0 else rangeP cp axis lo k

/-- additivity of the range probabilities on `[lo, hi]` (the mass is a measure: C01/C09's subject) -/
def Additive (cp : Rat → Rat → Rat) (axis : List Rat) (lo hi : Int) : Prop :=
  ∀ l m r, lo ≤ l → l ≤ m → m < r → r ≤ hi → rangeP cp axis l r = rangeP cp axis l m + rangeP cp axis (m + 1) r

/-- the bisection loop started on `[lo, hi]` with the residual uniform `c0` ends on an index of `[lo, hi]`, and for additive
    range probabilities on the first index whose cumulated probability reaches `c0` (the last index if none does); nothing
    is assumed about the cut point `m` except `l ≤ m < h` -/
theorem bisect_core (cp : Rat → Rat → Rat) (axis : List Rat) (lo hi : Int) (c0 : Rat) (hle : lo ≤ hi)
    (hfuel : hi - lo ≤ axis.length)
    {cond : Int × Int × Rat → Bool} {body : Int × Int × Rat → Int × Int × Rat} {r : Option (Int × Int × Rat)}
    (hw : whileLoop cond body axis.length (lo, hi, c0) = r)
    (hcond : ∀ c l h, cond (l, h, c) = true ↔ l ≠ h)
    (hbody : ∀ c l h, l < h → ∃ m, l ≤ m ∧ m < h ∧
      (rangeP cp axis l m < c → body (l, h, c) = (m + 1, h, c - rangeP cp axis l m)) ∧
      (c ≤ rangeP cp axis l m → body (l, h, c) = (l, m, c))) :
    ∃ c k, r = some (k, k, c) ∧ lo ≤ k ∧ k ≤ hi ∧
      (Additive cp axis lo hi → (lo < k → prefP cp axis lo (k - 1) < c0) ∧ (k < hi → c0 ≤ prefP cp axis lo k)) := by
  obtain ⟨⟨l, h, c⟩, rfl, ⟨h1, h2, h3, h456⟩, hc⟩ := whileLoop_cases hw
    (fun s : Int × Int × Rat => lo ≤ s.1 ∧ s.1 ≤ s.2.1 ∧ s.2.1 ≤ hi ∧ (Additive cp axis lo hi →
      s.2.2 = c0 - prefP cp axis lo (s.1 - 1) ∧
      (lo < s.1 → prefP cp axis lo (s.1 - 1) < c0) ∧ (s.2.1 < hi → c0 ≤ prefP cp axis lo s.2.1)))
    (fun s => (s.2.1 - s.1).toNat)
    (by
      rintro ⟨l, h, c⟩ ⟨h1, h2, h3, h456⟩ hc
      simp only at h1 h2 h3 h456
      have hlh : l < h := lt_of_le_of_ne h2 ((hcond c l h).mp hc)
      obtain ⟨m, hm1, hm2, b1, b2⟩ := hbody c l h hlh
      have hS : Additive cp axis lo hi → prefP cp axis lo m = prefP cp axis lo (l - 1) + rangeP cp axis l m := by
        intro hadd
        unfold prefP
        rw [if_neg (by omega)]
        by_cases hl : lo < l
        · rw [if_neg (by omega), hadd lo (l - 1) m (le_refl _) (by omega) (by omega) (by omega)]
          congr 2; ring
        · have : l = lo := by omega
          subst this; rw [if_pos (by omega)]; ring
      by_cases hcp : rangeP cp axis l m < c
      · rw [b1 hcp]
        refine ⟨⟨by show lo ≤ m + 1; omega, by show m + 1 ≤ h; omega, h3, ?_⟩, by show (h - (m + 1)).toNat < (h - l).toNat; omega⟩
        intro hadd
        obtain ⟨h4, h5, h6⟩ := h456 hadd
        refine ⟨?_, ?_, h6⟩
        · show c - rangeP cp axis l m = c0 - prefP cp axis lo (m + 1 - 1)
          rw [show m + 1 - 1 = m by ring, hS hadd, h4]; ring
        · intro _
          show prefP cp axis lo (m + 1 - 1) < c0
          rw [show m + 1 - 1 = m by ring, hS hadd]; rw [h4] at hcp; linarith
      · rw [b2 (not_lt.mp hcp)]
        refine ⟨⟨h1, hm1, by show m ≤ hi; omega, ?_⟩, by show (m - l).toNat < (h - l).toNat; omega⟩
        intro hadd
        obtain ⟨h4, h5, h6⟩ := h456 hadd
        refine ⟨h4, h5, ?_⟩
        intro _
        show c0 ≤ prefP cp axis lo m
        rw [hS hadd]; rw [h4] at hcp; linarith)
    ⟨le_refl _, hle, le_refl _, fun _ => ⟨by simp [prefP], fun h => absurd h (lt_irrefl _), fun h => absurd h (lt_irrefl _)⟩⟩
    (by show (hi - lo).toNat ≤ axis.length; omega)
  simp only at h1 h2 h3 h456
  have hlk : l = h := by
    by_contra hne
    have := (hcond c l h).mpr hne
    rw [this] at hc; cases hc
  subst hlk
  exact ⟨c, l, rfl, h1, h3, fun hadd => ⟨(h456 hadd).2.1, (h456 hadd).2.2⟩⟩

-- the shared script: the generated loop satisfies the hypotheses of `bisect_core`
set_option hygiene false in
macro "adapted_loop" : tactic => `(tactic|
  (generalize hw : whileLoop _ _ _ _ = r
   obtain ⟨c, k, rfl, g1, g2, g3⟩ := bisect_core _ _ _ _ _ (by assumption) (by assumption) hw
     (by intro c l h; simp only [decide_eq_true_eq])
     (by
       intro c l h hlh
       simp only [Int.fdiv_eq_ediv_of_nonneg _ (show (0 : Int) ≤ 2 by norm_num)]
       generalize hm : (_ + _) / (2 : Int) = m
       refine ⟨m, by omega, by omega, ?_, ?_⟩ <;>
       · intro hc
         have hmin1 : imin h (m + 1) = m + 1 := by unfold imin; split_ifs <;> omega
         have hmin2 : imin (m + 1) h = m + 1 := by unfold imin; split_ifs <;> omega
         generalize hp : cp _ _ = pv
         have hpv : pv = rangeP cp axis l m := by rw [← hp]; unfold rangeP; congr 1 <;> ring1
         subst hpv
         split_ifs with h' <;> first | (exfalso; linarith) | (simp only [hmin1, hmin2]; try rfl))
   exact ⟨k, by first | rfl | (simp only []; ring1), g1, g2, g3⟩))

/-- right side (`u > _proba_left_axis`): the index returned lies on the right side `[R.1, R.2]`; for additive range
    probabilities it is the first index `k` with `u − pLeft ≤ P[R.1 .. k]` (the last index if there is none): state `k`
    receives the uniforms of an interval of length `P[k .. k]` -/
theorem src_adapted1d_right (u : Rat) (axis : List Rat) (L R : Int × Int) (pLeft : Rat) (o : Int) (cp : Rat → Rat → Rat)
    (hu : pLeft < u) (hle : R.1 ≤ R.2) (hfuel : R.2 - R.1 ≤ axis.length) :
    ∃ k, BinarySearchTreeAdapted1D_sample_with_u u axis L R pLeft o cp = k - o ∧ R.1 ≤ k ∧ k ≤ R.2 ∧
      (Additive cp axis R.1 R.2 →
        (R.1 < k → prefP cp axis R.1 (k - 1) < u - pLeft) ∧ (k < R.2 → u - pLeft ≤ prefP cp axis R.1 k)) := by
  simp only [BinarySearchTreeAdapted1D_sample_with_u]
  split_ifs with hside
  · adapted_loop
  · exact absurd hu hside

/-- left side (`u ≤ _proba_left_axis`): the same on `[L.1, L.2]` with the uniform itself -/
theorem src_adapted1d_left (u : Rat) (axis : List Rat) (L R : Int × Int) (pLeft : Rat) (o : Int) (cp : Rat → Rat → Rat)
    (hu : u ≤ pLeft) (hle : L.1 ≤ L.2) (hfuel : L.2 - L.1 ≤ axis.length) :
    ∃ k, BinarySearchTreeAdapted1D_sample_with_u u axis L R pLeft o cp = k - o ∧ L.1 ≤ k ∧ k ≤ L.2 ∧
      (Additive cp axis L.1 L.2 →
        (L.1 < k → prefP cp axis L.1 (k - 1) < u) ∧ (k < L.2 → u ≤ prefP cp axis L.1 k)) := by
  simp only [BinarySearchTreeAdapted1D_sample_with_u]
  split_ifs with hside
  · exact absurd hside (not_lt.mpr hu)
  · adapted_loop

/-- **never the origin, never outside the axis**: with the sides the constructor stores (`[0, o-1]` and `[o+1, n-1]`, origin
    strictly inside an axis of `n` points) the state increment returned is never `0` and `origin + increment` is an index of
    the axis — for every uniform and every probability function -/
theorem src_adapted1d_never_origin (u : Rat) (axis : List Rat) (pLeft : Rat) (o : Int) (cp : Rat → Rat → Rat)
    (ho : 0 < o) (hon : o + 1 ≤ (axis.length : Int) - 1) :
    BinarySearchTreeAdapted1D_sample_with_u u axis (0, o - 1) (o + 1, (axis.length : Int) - 1) pLeft o cp ≠ 0 ∧
    0 ≤ o + BinarySearchTreeAdapted1D_sample_with_u u axis (0, o - 1) (o + 1, (axis.length : Int) - 1) pLeft o cp ∧
    o + BinarySearchTreeAdapted1D_sample_with_u u axis (0, o - 1) (o + 1, (axis.length : Int) - 1) pLeft o cp < axis.length := by
  rcases lt_or_ge pLeft u with hu | hu
  · obtain ⟨k, e, h1, h2, _⟩ := src_adapted1d_right u axis (0, o - 1) (o + 1, (axis.length : Int) - 1) pLeft o cp hu
      (by show o + 1 ≤ (axis.length : Int) - 1; exact hon) (by show (axis.length : Int) - 1 - (o + 1) ≤ axis.length; omega)
    simp only at h1 h2
    rw [e]; omega
  · obtain ⟨k, e, h1, h2, _⟩ := src_adapted1d_left u axis (0, o - 1) (o + 1, (axis.length : Int) - 1) pLeft o cp hu
      (by show (0 : Int) ≤ o - 1; omega) (by show o - 1 - 0 ≤ (axis.length : Int); omega)
    simp only at h1 h2
    rw [e]; omega

/-- non-vacuity: 6 axis points, origin at index 2, mass = length / 8: the hypotheses hold and the draws are the expected ones -/
example : Additive (fun a b => (b - a) / 8) [-2, -1, 0, 1, 2, 3] 3 5 := by
  intro l m r h1 h2 h3 h4
  have hl : l = 3 ∨ l = 4 := by omega
  have hr : r = 4 ∨ r = 5 := by omega
  have hm : m = 3 ∨ m = 4 := by omega
  rcases hl with rfl | rfl <;> rcases hr with rfl | rfl <;> rcases hm with rfl | rfl <;>
    first | omega | (simp [rangeP, idx, imax, imin]; norm_num)
example : [1/100, 1/8, 3/16, 1/4, 3/8, 1/2, 3/4, 99/100].map (fun u =>
    BinarySearchTreeAdapted1D_sample_with_u u [-2, -1, 0, 1, 2, 3] (0, 1) (3, 5) (1/4) 2 (fun a b => (b - a) / 8))
    = [-2, -1, -1, -1, 1, 2, 3, 3] := by decide +kernel


/-! ## the factory's jump vector (`create_vec_jump_matrix`) -/

theorem src_vec_jump_length (q : List Rat) (lam : Rat) (o : Int) (ho : 0 ≤ o) :
    (create_vec_jump_matrix q lam o).length = q.length := by
  simp only [create_vec_jump_matrix, setAt_of_nonneg _ ho, List.length_set, List.length_map]

theorem src_vec_jump_origin (q : List Rat) (lam : Rat) (o : Int) (ho : 0 ≤ o) :
    idx (create_vec_jump_matrix q lam o) o = 0 := by
  simp only [create_vec_jump_matrix, setAt_of_nonneg _ ho, idx_of_nonneg _ ho]
  by_cases h : o.toNat < q.length
  · simp [List.getD_eq_getElem?_getD, h]
  · simp [List.getD_eq_getElem?_getD, h]; rfl

theorem src_vec_jump_other (q : List Rat) (lam : Rat) (o k : Int) (ho : 0 ≤ o) (hk : 0 ≤ k) (hne : k ≠ o) :
    idx (create_vec_jump_matrix q lam o) k = idx q k / lam := by
  have hne' : o.toNat ≠ k.toNat := by omega
  simp only [create_vec_jump_matrix, setAt_of_nonneg _ ho, idx_of_nonneg _ hk]
  simp only [List.getD_eq_getElem?_getD, List.getElem?_set_ne hne', List.getElem?_map]
  have hd : (default : Rat) = 0 := rfl
  cases q[k.toNat]? with
  | none => simp [hd]
  | some v => simp only [Option.map_some, Option.getD_some] <;> first | ring1 | field_simp


/-- the vector sums to `(Σ q − q_origin) / λ`: it is a probability vector exactly when the intensity is the sum of the
    rates of the other states -/
theorem src_vec_jump_sum (q : List Rat) (lam : Rat) (o : Int) (ho : 0 ≤ o) (hol : o.toNat < q.length) :
    (create_vec_jump_matrix q lam o).sum = (q.sum - idx q o) / lam := by
  rw [idx_rat _ ho]
  apply sum_of_pointwise q _ lam o.toNat hol (src_vec_jump_length q lam o ho)
  · have := src_vec_jump_origin q lam o ho
    rw [idx_rat _ ho] at this; exact this
  · intro k hk
    have := src_vec_jump_other q lam o (k : Int) ho (Int.natCast_nonneg k) (by omega)
    rw [idx_nat_rat, idx_nat_rat] at this; exact this

theorem src_vec_jump_is_probability (q : List Rat) (lam : Rat) (o : Int) (ho : 0 ≤ o) (hol : o.toNat < q.length)
    (hlam : lam = q.sum - idx q o) (hne : lam ≠ 0) : (create_vec_jump_matrix q lam o).sum = 1 := by
  rw [src_vec_jump_sum q lam o ho hol, ← hlam, div_self hne]

/-! ## table lookup (`_sample_one`) -/

theorem src_table_sample_spec (J : List Int) (cst : Rat) (states : Int → Int) (bits : Int) (alias_draw : Rat → Int) :
    0 ≤ bits % 256 ∧ bits % 256 < 256 ∧
    (0 ≤ idx J (bits % 256) → sample_one J cst states bits alias_draw = states (idx J (bits % 256))) ∧
    (idx J (bits % 256) < 0 → sample_one J cst states bits alias_draw = states (alias_draw ((bits : Rat) * cst))) := by
  have e : Int.fmod bits 256 = bits % 256 := Int.fmod_eq_emod_of_nonneg bits (by norm_num)
  refine ⟨Int.emod_nonneg _ (by norm_num), Int.emod_lt_of_pos _ (by norm_num), ?_, ?_⟩
  all_goals
    simp only [sample_one, e]
    intro h
    split_ifs with h' <;> first | rfl | (exfalso; omega) | (congr 2; ring1)


/-! ## table construction: slot layout and residuals (view of `create_table`) -/

/-- the view of `create_table` computes the model's slot layout and residuals -/
theorem src_create_table_slots_eq (p : List Rat) (hp : ∀ x ∈ p, 0 ≤ x) :
    (create_table_slots p).1 = Table.slotsOf p.length (qfun p) ∧
    (create_table_slots p).2.1.length = p.length ∧
    (∀ i, i < p.length → (create_table_slots p).2.1.getD i 0 = Table.theta (qfun p) i) ∧
    (create_table_slots p).2.2 = Table.thetaSum p.length (qfun p) := by
  simp only [create_table_slots]
  generalize hf1 : List.foldl _ _ (enumerate p) = r1
  obtain ⟨l1, l2, h12⟩ := residuals_core p hp (by
    intro ks th i x hx
    have hk : truncInt ((256 : Rat) * x) = ((256 : Rat) * x).floor := truncInt_of_nonneg (by linarith)
    simp only [setAt_of_nonneg _ (Int.natCast_nonneg i), Int.toNat_natCast]
    generalize hz : truncInt _ = t
    have ht : t = ((256 : Rat) * x).floor := by rw [← hz]; exact (congrArg truncInt (by ring1)).trans hk
    subst ht
    first | rfl | (congr 2; ring1) | (congr 3; ring1)) (by simp [izeros]) (by simp [zeros]) hf1
  generalize hf2 : List.foldl _ _ (range 0 _) = J
  have hJ := slots_core p.length (qfun p) (by
    intro J i hi
    have hk : idx r1.1 (i : Int) = (Table.mOf (qfun p) i : Int) := by rw [idx_nat_int]; exact (h12 i hi).1
    simp only [hk, Int.toNat_natCast, flatten_replicate_singleton]) hf2
  subst hJ
  refine ⟨padding_eq p.length (qfun p) _ rfl, l2, fun i hi => (h12 i hi).2, sum_thetas p _ l2 (fun i hi => (h12 i hi).2)⟩

/-- **the 256 slots and the residuals realise `p`**: for every probability vector `p` the view of `create_table` returns
    exactly 256 slots, state `k` owns `⌊256 p_k⌋` of them, the others (`-1`) are as many as the sum of the residuals
    `θ_k = 256 p_k − ⌊256 p_k⌋ ∈ [0, 1)`, and slots plus residual law give `p_k`:
    `(#slots(k) + #slots(-1) · θ_k / Σθ) / 256 = p_k` (when `Σθ > 0`; `create_table` raises otherwise: a known finding) -/
theorem src_create_table_law (p : List Rat) (hp : ∀ x ∈ p, 0 ≤ x) (hsum : p.sum = 1) :
    (create_table_slots p).1.length = 256 ∧
    ((Table.cnt (create_table_slots p).1 (-1) : Nat) : Rat) = (create_table_slots p).2.2 ∧
    (create_table_slots p).2.2 = (create_table_slots p).2.1.sum ∧
    (∀ k, k < p.length →
      Table.cnt (create_table_slots p).1 (k : Int) = ((256 : Rat) * p.getD k 0).floor.toNat ∧
      0 ≤ (create_table_slots p).2.1.getD k 0 ∧ (create_table_slots p).2.1.getD k 0 < 1 ∧
      (256 : Rat) * p.getD k 0 = (Table.cnt (create_table_slots p).1 (k : Int) : Rat) + (create_table_slots p).2.1.getD k 0 ∧
      (0 < (create_table_slots p).2.2 →
        ((Table.cnt (create_table_slots p).1 (k : Int) : Rat) + (Table.cnt (create_table_slots p).1 (-1) : Rat) *
          ((create_table_slots p).2.1.getD k 0 / (create_table_slots p).2.2)) / 256 = p.getD k 0)) := by
  obtain ⟨e1, e2, e3, e4⟩ := src_create_table_slots_eq p hp
  have hpf : ∀ i, i < p.length → 0 ≤ qfun p i := fun i _ => qfun_nonneg p hp i
  have hs : ∑ i ∈ Finset.range p.length, qfun p i = 1 := by rw [← list_sum_eq_range]; exact hsum
  have dummy : Alias.Tables := ⟨0, fun _ => 0, fun _ => 0⟩
  have hneg : ((Table.cnt (Table.slotsOf p.length (qfun p)) (-1) : Nat) : Rat) = Table.thetaSum p.length (qfun p) :=
    Table.slotCount_neg_prob p.length (qfun p) dummy hpf hs
  refine ⟨?_, ?_, ?_, ?_⟩
  · rw [e1, Table.slots_length, if_pos (Table.sum_m_le p.length (qfun p) hpf hs)]
  · rw [e1, e4]; exact hneg
  · rw [e4]; exact (sum_thetas p _ e2 e3).symm
  · intro k hk
    have hc : Table.cnt (Table.slotsOf p.length (qfun p)) (k : Int) = Table.mOf (qfun p) k :=
      Table.slotCount_state p.length (qfun p) dummy k hk
    have hb := Table.theta_bounds (qfun p) k (hpf k hk)
    have hth := Table.theta_eq (qfun p) k
    rw [e1, e3 k hk, hc, e4]
    refine ⟨rfl, hb.1, hb.2, by rw [hth]; show (256 : Rat) * qfun p k = _; ring, ?_⟩
    intro hpos
    rw [hneg, mul_div_cancel₀ _ (ne_of_gt hpos), hth]
    show ((Table.mOf (qfun p) k : Rat) + (256 * qfun p k - (Table.mOf (qfun p) k : Rat))) / 256 = qfun p k
    ring

/-- non-vacuity: p = (1/3, 2/3): 85 + 170 slots and one `-1`, residuals (1/3, 2/3) -/
example : (Table.cnt (create_table_slots [1/3, 2/3]).1 0, Table.cnt (create_table_slots [1/3, 2/3]).1 1,
    Table.cnt (create_table_slots [1/3, 2/3]).1 (-1), (create_table_slots [1/3, 2/3]).2) = (85, 170, 1, [1/3, 2/3], 1) := by
  decide +kernel


/-! ## non-vacuity -/

/-- the hypotheses of `src_create_alias_law` / `src_alias_realises` hold for a vector with a zero and a tie -/
example : (∀ x ∈ ([1/16, 3/16, 0, 1/2, 1/4] : List Rat), 0 ≤ x) ∧ ([1/16, 3/16, 0, 1/2, 1/4] : List Rat).sum = 1 := by
  constructor
  · intro x hx; simp at hx; rcases hx with rfl | rfl | rfl | rfl | rfl <;> norm_num
  · norm_num
/-- the hypotheses of `src_bst_build_agrees` / `src_bst_realises` hold for a 3-state vector (`K = 2`, tree not perfect), and
    those of `src_create_table_law` for (1/3, 2/3); the theorems apply -/
example := src_bst_realises [1/8, 1/2, 3/8] 2 (by norm_num) rfl
  (by intro x hx; simp at hx; rcases hx with rfl | rfl | rfl <;> norm_num) (by norm_num) 1 (by norm_num)
example := src_create_table_law [1/3, 2/3] (by intro x hx; simp at hx; rcases hx with rfl | rfl <;> norm_num) (by norm_num)
example := src_alias_realises [1/16, 3/16, 0, 1/2, 1/4]
  (by intro x hx; simp at hx; rcases hx with rfl | rfl | rfl | rfl | rfl <;> norm_num) (by norm_num) 2 (by norm_num)
/-- the lookups on concrete tables (values of the real functions, checked against /repo when the tie was written) -/
example : [0, 1/10, 1/4, 3/10, 1/2, 7/10, 99/100].map (fun u => AliasMethod_draw_with_u u 4 [1/2, 1, 1, 1/2] [1, 0, 0, 1])
    = [0, 0, 1, 1, 2, 2, 1] := by decide +kernel
example : [0, 1/10, 1/8, 1/4, 3/10, 5/8, 7/10, 7/8, 99/100].map
    (fun u => BinarySearchTree_sample_with_u u 3 [5/8, 1/8, 7/8, 0] (fun k => k - 2)) = [-2, -2, -1, -1, -1, 0, 0, 1, 1] := by
  decide +kernel
example : create_vec_jump_matrix [1, 2, 3, 4] 7 2 = [1/7, 2/7, 0, 4/7] := by decide +kernel
example : [0, 1, 255, 256, 511, 4294967295].map (fun i => sample_one ((List.replicate 100 0) ++ (List.replicate 100 1) ++
    List.replicate 56 (-1)) (1/4294967296) (fun k => k + 10) i (fun u => if u < 1/2 then 0 else 1)) = [10, 10, 10, 10, 10, 11] := by
  decide +kernel

end Rpylib.SrcTie.C02
