/-
C17 — source-derived tie.  `RpylibModel/Generated/SrcC17.lean` is rewritten on every run by harness/srctie.py from the
text of rpylib/product/payoff.py in /repo's current working tree (translator: harness/py2lean.py).  The theorems below are
about THOSE definitions: the static identities of the property statement, proved directly on the translated source, so they
do not depend on the hand-written model at all.  (Equality of the translated source with the hand-written model is
ProofsGen/SrcC17Model.lean.)
-/
import RpylibModel.Generated.SrcC17
import Mathlib.Tactic.Linarith
import Mathlib.Algebra.Order.Field.Rat

namespace Rpylib.SrcTie.C17
open Rpylib.Src.C17 Rpylib.Py

/-! ### the static identities of the statement, on the translated source -/

/-- call − put = forward, every strike and underlying -/
theorem src_call_put_parity (u K : Rat) :
    Vanilla_evaluate u K 1 - Vanilla_evaluate u K (-1) = Forward_evaluate u K := by
  simp only [Vanilla_evaluate, Forward_evaluate, rmax]
  split_ifs <;> push_cast at * <;> linarith

theorem src_vanilla_nonneg (u K : Rat) (cp : Int) : 0 ≤ Vanilla_evaluate u K cp := by
  simp only [Vanilla_evaluate, rmax]
  split_ifs <;> linarith

/-- the call spread equals its call combination (K1 < K2 is enforced by the constructor) -/
theorem src_callspread_eq_calls (u K1 K2 : Rat) (h : K1 < K2) :
    CallSpread_evaluate u K1 K2 = Vanilla_evaluate u K1 1 - Vanilla_evaluate u K2 1 := by
  simp only [CallSpread_evaluate, Vanilla_evaluate, rmax]
  split_ifs <;> push_cast at * <;> linarith

theorem src_callspread_nonneg (u K1 K2 : Rat) (h : K1 < K2) : 0 ≤ CallSpread_evaluate u K1 K2 := by
  simp only [CallSpread_evaluate, rmax]
  split_ifs <;> linarith

/-- digital call + digital put = 1 -/
theorem src_digital_sum_one (u K : Rat) : Digital_evaluate u K true + Digital_evaluate u K false = 1 := by
  simp only [Digital_evaluate]
  split_ifs <;> simp_all <;> norm_num

theorem src_digital_zero_one (isCall : Bool) (u K : Rat) :
    Digital_evaluate u K isCall = 0 ∨ Digital_evaluate u K isCall = 1 := by
  cases isCall <;> simp only [Digital_evaluate] <;> split_ifs <;> simp_all

/-- non-vacuity: concrete values through the translated source (K = 100, u = 103 / 97) -/
example : Vanilla_evaluate 103 100 1 = 3 ∧ Vanilla_evaluate 97 100 (-1) = 3 ∧ CallSpread_evaluate 103 100 102 = 2
    ∧ Digital_evaluate 103 100 true = 1 ∧ Digital_evaluate 103 100 false = 0 := by
  refine ⟨?_, ?_, ?_, ?_, ?_⟩ <;> simp [Vanilla_evaluate, CallSpread_evaluate, Digital_evaluate, rmax] <;> norm_num

end Rpylib.SrcTie.C17
