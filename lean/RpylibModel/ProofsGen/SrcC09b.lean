/-
C09 — second source-derived tie: `tools/integral.py`, variance gamma, Merton, CGMY.  `RpylibModel/Generated/SrcC09b.lean` is
rewritten on every run by harness/srctie.py from the text of /repo's current working tree (plug-in harness/srcspec/C09.py,
translator harness/py2lean.py):

  rpylib/tools/integral.py                          `_helper_sum_fact_xk`, `integral_xn_exp_minus_x`
  rpylib/model/levymodel/purejump/variancegamma.py  `_VGLevyMeasure.x_nu / integrate / integrate_against_x / _xx / _xn`
  rpylib/model/levymodel/mixed/merton.py            `_MertonLevyMeasure._helper_erf_aux / integrate / integrate_against_x / _xx`
  rpylib/model/levymodel/purejump/cgmy.py           `_CGMYLevyMeasure.__integrate_h_to_inf / __integrate_h_to_inf_for_xx /
                                                    __integrate_levy_measure_* / integrate / integrate_against_x` and the closed
                                                    form of `integrate_against_xx` for `a < 0 < b` (the rest is scipy `quad`)

What stands for the collaborators (all universally quantified — the trusted base of this tie is the translator plus the reading
of these parameters): `np.exp`, `np.sqrt`, `scipy.special.erf / exp1 / gamma` are function parameters `ℚ → ℚ`;
`scipy.special.gammaincc / gammainc` and the real power `x ** y` are `ℚ → ℚ → ℚ`; `np.pi` and `np.inf` (as a returned value) are
rational parameters; a test `a == -np.inf`, `b == np.inf`, … is a Bool parameter (the rational it flags is then any value that
passes the order comparisons the source makes), a test on the argument of a nested function a predicate parameter; the call
of `integral_xn_exp_minus_x` from variancegamma.py (another file) is a function parameter, instantiated here with the translated
definition.  Floats are read as exact rationals (rounding, overflow of `171!` as a float, … are not modelled) and
NUMPY'S FIXED-WIDTH INTEGERS ARE NOT MODELLED AT ALL: Python's `int` is `Int` (unbounded, `math.factorial` exact), whereas an
`np.arange` result has a type of its own that only float-producing operations accept (`np.power(<float>, ks)`,
`scipy.special.factorial(ks)`); an int64 running product (`np.cumprod`, `dtype=int`) is Untranslatable, never silently exact.

Structure: per family a few *normal-form* theorems unfold the generated term (closed by normalising tactics: `split_ifs`,
`linarith`, `ring_nf` inside the arguments of the special functions, `field_simp`); everything else is derived from the normal
forms.  (A) `*_eq_terms`: for every interpretation of the special functions the source computes `Σ c · f(e)` over exactly the
list of terms the hand-written model returns (Model/Integrals.lean, IntegralsSpecial.lean), whose real instance Proofs/C09.lean
proves equal to `∫ x^n · density` (`*_real_instance_is_integral`).  (B) C09's statements on the translated definitions themselves:
additivity over adjacent intervals, signs on half-lines / one side of zero, the integration-by-parts recurrence of the
`x^n e^{-αx}` primitive for every order, the two routes (`integrate_against_x/_xx` versus `integrate_against_xn`) agree.
-/
import RpylibModel.Generated.SrcC09b
import RpylibModel.Lemmas.SrcC09Sum
import RpylibModel.Model.IntegralsSpecial
import RpylibModel.Proofs.C09
import Mathlib.Tactic.Ring
import Mathlib.Tactic.Linarith
import Mathlib.Tactic.FieldSimp
import Mathlib.Tactic.Positivity
import Mathlib.Algebra.Order.Field.Rat

set_option linter.unusedTactic false
set_option linter.unreachableTactic false
set_option linter.unusedSimpArgs false
set_option linter.unnecessarySeqFocus false
set_option linter.unusedVariables false

namespace Rpylib.SrcTie.C09b
open Rpylib Rpylib.Integrals Rpylib.Src.C09b

/-! ### 1. `_helper_sum_fact_xk` -/

/-- (A) the translated helper is the model's `n! · Σ_{k ≤ n} |x|^k / k!` -/
theorem src_helper_sum_eq_model (n : ℕ) (x : ℚ) : helper_sum_fact_xk (n : ℤ) x = helperSum n x := by
  simp only [helper_sum_fact_xk, helperSum, zipWith_map_map_same, foldl_add_eq_sum, factorial_natCast, pyRabs_eq]
  first
  | (rw [sum_map_pyRange_eq_expPartial _ (Integrals.rabs x) n (by
          intro k hk
          simp only [factorial_natCast, Int.toNat_natCast, pyRabs_eq]
          first | rfl | (push_cast; ring1) | (have := fact_ne_zero_rat k; push_cast; field_simp))]
     first | rfl | (push_cast; ring1))

/-- (B) the polynomial starts at 1 … -/
theorem src_helper_sum_zero (x : ℚ) : helper_sum_fact_xk 0 x = 1 := by
  have h := src_helper_sum_eq_model 0 x
  simp only [Nat.cast_zero] at h
  rw [h, helperSum_zero]

/-- (B) … and obeys `H_{n+1}(x) = (n + 1) · H_n(x) + |x|^{n+1}` for every n: it is `n! Σ_{k ≤ n} |x|^k / k!` -/
theorem src_helper_sum_succ (n : ℕ) (x : ℚ) :
    helper_sum_fact_xk ((n : ℤ) + 1) x = ((n : ℚ) + 1) * helper_sum_fact_xk (n : ℤ) x + Integrals.rabs x ^ (n + 1) := by
  have h := src_helper_sum_eq_model (n + 1) x
  push_cast at h
  rw [h, src_helper_sum_eq_model n x, helperSum_succ]

/-- (B) it depends on `|x|` only -/
theorem src_helper_sum_even (n : ℕ) (x : ℚ) : helper_sum_fact_xk (n : ℤ) (-x) = helper_sum_fact_xk (n : ℤ) x := by
  rw [src_helper_sum_eq_model, src_helper_sum_eq_model]; simp only [helperSum, rabs_neg]

/-- (B) and is at least 1 -/
theorem src_helper_sum_pos (n : ℕ) (x : ℚ) : 1 ≤ helper_sum_fact_xk (n : ℤ) x := by
  rw [src_helper_sum_eq_model]; exact helperSum_pos n x

example : helper_sum_fact_xk 3 (-2) = 38 := by
  have := src_helper_sum_eq_model 3 (-2)
  simp only [Nat.cast_ofNat] at this
  rw [this]; simp [helperSum, expPartial, fact, Integrals.rabs]; norm_num

/-! ### 2. `integral_xn_exp_minus_x`

`np.exp` is the function parameter `exp`; `a == -np.inf`, `b == np.inf` are the Bool parameters `fa`, `fb` (the `Rat`-typed end
point a flag replaces is then any value that passes the comparisons the source makes: `a < 0` resp. `0 < b` / `0 ≤ a`).
Only the two normal-form theorems `src_xn_one_sided` and `src_xn_straddling` look at the generated term. -/

theorem toNat_succ (n : ℕ) : Int.toNat ((n : ℤ) + 1) = n + 1 := by omega

/-- the one-sided antiderivative at `u`, up to the sign: `H_n(uα) · exp(−|u|α) / α^{n+1}` with `H_n = _helper_sum_fact_xk` -/
def xnG (exp : ℚ → ℚ) (n : ℕ) (α u : ℚ) : ℚ := helperSum n (u * α) * exp (-(Integrals.rabs u * α)) / α ^ (n + 1)

/-- the sign of the half-line: `(-1) ** (n + 1) if a < 0 else 1` -/
def xnS (n : ℕ) (a : ℚ) : ℚ := if a < 0 then (-1) ^ (n + 1) else 1

/-- closes one branch left by `split_ifs` in the normal-form theorems -/
local macro "xn_branch" : tactic => `(tactic|
  first
  | contradiction
  | (exfalso; linarith)
  | (exfalso; simp_all; done)
  | (simp only [src_helper_sum_eq_model, xnG, xnS, pyRabs_eq, toNat_succ, if_true, if_false, *]
     push_cast
     first
     | ring1
     | (ring_nf; done)
     | (field_simp; ring_nf; done)
     | (simp only [src_helper_sum_eq_model, xnG, xnS, pyRabs_eq, toNat_succ, if_true, if_false, not_true, not_false_eq_true,
          Int.cast_ite, Int.cast_pow, Int.cast_neg, Int.cast_one, *] at *
        first | ring1 | (ring_nf; done) | (field_simp; ring_nf; done))))

/-- normal form on one side of zero (not `a < 0 < b`): `s·(G(a) − G(b))`, `−s·G(b)` from `−inf`, `s·G(a)` up to `+inf` -/
theorem src_xn_one_sided (n : ℕ) (a b α : ℚ) (fa fb : Bool) (exp : ℚ → ℚ) (hα : 0 < α) (h : ¬ (a < 0 ∧ 0 < b)) :
    integral_xn_exp_minus_x (n : ℤ) a b α fa fb exp
      = if fa = true then -(xnS n a * xnG exp n α b)
        else if fb = true then xnS n a * xnG exp n α a
        else xnS n a * (xnG exp n α a - xnG exp n α b) := by
  have hα' : ¬ α ≤ 0 := not_le.mpr hα
  simp only [integral_xn_exp_minus_x, integral_xn_exp_minus_x_fuel] <;>
  split_ifs <;> xn_branch

/-- normal form across zero: the sum of the two one-sided values, each with the flag of its own infinite end -/
theorem src_xn_straddling (n : ℕ) (a b α : ℚ) (fa fb : Bool) (exp : ℚ → ℚ) (hα : 0 < α) (ha : a < 0) (hb : 0 < b) :
    integral_xn_exp_minus_x (n : ℤ) a b α fa fb exp
      = integral_xn_exp_minus_x (n : ℤ) a 0 α fa false exp + integral_xn_exp_minus_x (n : ℤ) 0 b α false fb exp := by
  rw [src_xn_one_sided n a 0 α fa false exp hα (by intro h; exact lt_irrefl _ h.2),
      src_xn_one_sided n 0 b α false fb exp hα (by intro h; exact lt_irrefl _ h.1)]
  have hα' : ¬ α ≤ 0 := not_le.mpr hα
  have h00 : ¬ ((0 : ℚ) < 0) := lt_irrefl _
  simp only [integral_xn_exp_minus_x, integral_xn_exp_minus_x_fuel] <;>
  split_ifs <;> xn_branch

/-! #### (A) source = the model's list of terms, for every `exp` and every shape of extended end points -/

/-- the rational `a` and the flag `a == -np.inf` stand for the extended lower end point -/
def ReprA (ea : ExtRat) (a : ℚ) (fa : Bool) : Prop :=
  match ea with
  | .fin x => a = x ∧ fa = false
  | .negInf => a < 0 ∧ fa = true
  | .posInf => False

/-- the rational `b` and the flag `b == np.inf` stand for the extended upper end point -/
def ReprB (eb : ExtRat) (b : ℚ) (fb : Bool) : Prop :=
  match eb with
  | .fin x => b = x ∧ fb = false
  | .posInf => 0 < b ∧ fb = true
  | .negInf => False

theorem eval_xnHelper_with (exp : ℚ → ℚ) (n : ℕ) (α s u : ℚ) :
    (xnHelper helperSum n α s u).1 * exp (xnHelper helperSum n α s u).2 = s * xnG exp n α u := by
  simp only [xnHelper, xnG]; ring

theorem eval_neg_xnHelper_with (exp : ℚ → ℚ) (n : ℕ) (α s u : ℚ) :
    (negTerm (xnHelper helperSum n α s u)).1 * exp (negTerm (xnHelper helperSum n α s u)).2 = -(s * xnG exp n α u) := by
  simp only [xnHelper, xnG, negTerm]; ring

theorem xnSign_fin (n : ℕ) (a : ℚ) : xnSign n (.fin a) = xnS n a := by
  simp only [xnSign, xnS, ExtRat.lt, decide_eq_true_eq]

theorem xnSign_negInf (n : ℕ) : xnSign n .negInf = (-1) ^ (n + 1) := by simp [xnSign, ExtRat.lt]

/-- one-sided shapes -/
theorem src_xn_eq_oneSided (n : ℕ) (α : ℚ) (hα : 0 < α) (ea eb : ExtRat) (a b : ℚ) (fa fb : Bool) (exp : ℚ → ℚ) (ts : Terms)
    (hra : ReprA ea a fa) (hrb : ReprB eb b fb) (hns : ¬ (a < 0 ∧ 0 < b))
    (h : xnExpOneSided helperSum n α ea eb = some ts) :
    integral_xn_exp_minus_x (n : ℤ) a b α fa fb exp = evalTermsWith exp ts := by
  rw [src_xn_one_sided n a b α fa fb exp hα hns]
  cases ea <;> cases eb <;> simp only [ReprA, ReprB] at hra hrb <;> (try exact hra.elim) <;> (try exact hrb.elim) <;>
    simp only [xnExpOneSided, Option.some.injEq, reduceCtorEq] at h <;> subst h <;>
    obtain ⟨h1, h2⟩ := hra <;> obtain ⟨h3, h4⟩ := hrb <;>
    simp only [h2, h4, evalTermsWith_cons, evalTermsWith_nil, eval_xnHelper_with, eval_neg_xnHelper_with, xnSign_fin,
      xnSign_negInf, xnS, h1, h3, if_true, if_false, Bool.false_eq_true] <;>
    first | ring1 | (subst_vars; ring1) | (subst_vars; simp only [xnS, *, if_true]; ring1)

theorem reprA_lt_zero {ea : ExtRat} {a : ℚ} {fa : Bool} (h : ReprA ea a fa) : ExtRat.lt ea (.fin 0) = true ↔ a < 0 := by
  cases ea with
  | fin x => obtain ⟨rfl, _⟩ := h; simp [ExtRat.lt]
  | negInf => simp [ExtRat.lt, h.1]
  | posInf => exact h.elim

theorem reprB_zero_lt {eb : ExtRat} {b : ℚ} {fb : Bool} (h : ReprB eb b fb) : ExtRat.lt (.fin 0) eb = true ↔ 0 < b := by
  cases eb with
  | fin x => obtain ⟨rfl, _⟩ := h; simp [ExtRat.lt]
  | negInf => exact h.elim
  | posInf => simp [ExtRat.lt, h.1]

/-- (A) for every `exp`, every order `n`, every rate and every shape of end points — finite, `(−inf, b]`, `[a, inf)`, the whole
    line, on one side of zero or across it — the translated `integral_xn_exp_minus_x` is `Σ c · exp e` over the model's list
    `xnExpTerms` (whose real instance Proofs/C09.lean proves equal to `∫ x^n e^{−α|x|}`) -/
theorem src_xn_eq_terms (n : ℕ) (α : ℚ) (ea eb : ExtRat) (a b : ℚ) (fa fb : Bool) (exp : ℚ → ℚ) (ts : Terms)
    (hra : ReprA ea a fa) (hrb : ReprB eb b fb) (h : xnExpTerms n α ea eb = some ts) :
    integral_xn_exp_minus_x (n : ℤ) a b α fa fb exp = evalTermsWith exp ts := by
  have hα : 0 < α := by
    by_contra hc
    simp [xnExpTerms, xnExpTermsWith, not_lt.mp hc] at h
  simp only [xnExpTerms, xnExpTermsWith, not_le.mpr hα, if_false] at h
  by_cases hs : a < 0 ∧ 0 < b
  · have h1 := (reprA_lt_zero hra).mpr hs.1
    have h2 := (reprB_zero_lt hrb).mpr hs.2
    simp only [h1, h2, Bool.and_self, if_true] at h
    rw [src_xn_straddling n a b α fa fb exp hα hs.1 hs.2]
    cases ht1 : xnExpOneSided helperSum n α ea (.fin 0) with
    | none => simp [ht1] at h
    | some t1 =>
      cases ht2 : xnExpOneSided helperSum n α (.fin 0) eb with
      | none => simp [ht1, ht2] at h
      | some t2 =>
        simp only [ht1, ht2, Option.some.injEq] at h
        subst h
        rw [evalTermsWith_append,
          src_xn_eq_oneSided n α hα ea (.fin 0) a 0 fa false exp t1 hra ⟨rfl, rfl⟩ (fun hh => lt_irrefl _ hh.2) ht1,
          src_xn_eq_oneSided n α hα (.fin 0) eb 0 b false fb exp t2 ⟨rfl, rfl⟩ hrb (fun hh => lt_irrefl _ hh.1) ht2]
  · have hns : ¬ (ExtRat.lt ea (.fin 0) = true ∧ ExtRat.lt (.fin 0) eb = true) := by
      rw [reprA_lt_zero hra, reprB_zero_lt hrb]; exact hs
    have : (ExtRat.lt ea (.fin 0) && ExtRat.lt (.fin 0) eb) = false := by
      cases h1 : ExtRat.lt ea (.fin 0) <;> cases h2 : ExtRat.lt (.fin 0) eb <;> simp_all
    simp only [this, Bool.false_eq_true, if_false] at h
    exact src_xn_eq_oneSided n α hα ea eb a b fa fb exp ts hra hrb hs h

/-- the real instance: one list `ts`, the translated source is `Σ c · exp e` over it for every `exp` (end points represented as
    the source sees them), and `Σ c · Real.exp e` is the integral of `x^n e^{−α|x|}` over the interval the end points denote -/
theorem src_xn_real_instance_is_integral (n : ℕ) (α : ℚ) (hα : 0 < α) (ea eb : ExtRat) (hab : ELe ea eb) (hpr : Proper ea eb) :
    ∃ ts, xnExpTerms n α ea eb = some ts
      ∧ (∀ (exp : ℚ → ℚ) (a b : ℚ) (fa fb : Bool), ReprA ea a fa → ReprB eb b fb →
            integral_xn_exp_minus_x (n : ℤ) a b α fa fb exp = evalTermsWith exp ts)
      ∧ evalTerms ts = ∫ x in eSet ea eb, x ^ n * Real.exp (-((α : ℝ) * |x|)) := by
  obtain ⟨ts, hts, hint⟩ := xn_exp_correct_ext n α hα ea eb hab hpr
  exact ⟨ts, hts, fun exp a b fa fb hra hrb => src_xn_eq_terms n α ea eb a b fa fb exp ts hra hrb hts, hint⟩

/-! #### (B) what C09 says about `integral_xn_exp_minus_x`, directly on the translated definition, for every `exp` -/

/-- the tail `∫_u^∞ x^n e^{−αx} dx`, `u ≥ 0`, as the source computes it (`b` is any value: the flag `b == np.inf` is set) -/
def srcTail (exp : ℚ → ℚ) (n : ℕ) (α u b : ℚ) : ℚ := integral_xn_exp_minus_x (n : ℤ) u b α false true exp

theorem srcTail_eq (exp : ℚ → ℚ) (n : ℕ) (α u b : ℚ) (hα : 0 < α) (hu : 0 ≤ u) : srcTail exp n α u b = xnG exp n α u := by
  rw [srcTail, src_xn_one_sided n u b α false true exp hα (fun h => absurd h.1 (not_lt.mpr hu))]
  simp only [xnS, not_lt.mpr hu, if_false, if_true, Bool.false_eq_true, one_mul]

/-- order 0: `∫_u^∞ e^{−αx} dx = e^{−αu}/α` -/
theorem src_xn_tail_zero (exp : ℚ → ℚ) (α u b : ℚ) (hα : 0 < α) (hu : 0 ≤ u) :
    srcTail exp 0 α u b = exp (-(u * α)) / α := by
  rw [srcTail_eq exp 0 α u b hα hu]
  simp only [xnG, helperSum_zero, rabs_of_nonneg hu]; ring

/-- integration by parts, every order: `∫_u^∞ x^{n+1} e^{−αx} dx = u^{n+1} e^{−αu}/α + (n+1)/α · ∫_u^∞ x^n e^{−αx} dx`.
    Together with order 0 this determines the translated function on `[u, ∞)` for every `exp` (induction on n): the
    derivative identity of the primitive `F_n = −tail_n` in algebraic form -/
theorem src_xn_tail_succ (exp : ℚ → ℚ) (n : ℕ) (α u b : ℚ) (hα : 0 < α) (hu : 0 ≤ u) :
    srcTail exp (n + 1) α u b = u ^ (n + 1) * exp (-(u * α)) / α + ((n : ℚ) + 1) / α * srcTail exp n α u b := by
  rw [srcTail_eq exp (n + 1) α u b hα hu, srcTail_eq exp n α u b hα hu]
  simp only [xnG, helperSum_succ, rabs_of_nonneg hu, rabs_of_nonneg (mul_nonneg hu hα.le)]
  have : α ≠ 0 := hα.ne'
  field_simp
  ring

/-- the antiderivative whose differences the finite-interval values are: `F(u) = G(0) − G(u)` on `u ≥ 0`,
    `F(u) = (−1)^{n+1}(G(0) − G(u))` on `u < 0` -/
def xnF (exp : ℚ → ℚ) (n : ℕ) (α u : ℚ) : ℚ := xnS n u * (xnG exp n α 0 - xnG exp n α u)

/-- finite end points `a ≤ b` anywhere: the value is `F(b) − F(a)` -/
theorem src_xn_eq_F_diff (exp : ℚ → ℚ) (n : ℕ) (α a b : ℚ) (hα : 0 < α) (hab : a ≤ b) :
    integral_xn_exp_minus_x (n : ℤ) a b α false false exp = xnF exp n α b - xnF exp n α a := by
  by_cases hs : a < 0 ∧ 0 < b
  · rw [src_xn_straddling n a b α false false exp hα hs.1 hs.2,
      src_xn_one_sided n a 0 α false false exp hα (fun h => lt_irrefl _ h.2),
      src_xn_one_sided n 0 b α false false exp hα (fun h => lt_irrefl _ h.1)]
    simp only [xnF, xnS, hs.1, not_lt.mpr hs.2.le, lt_irrefl, if_true, if_false, Bool.false_eq_true]; ring
  · rw [src_xn_one_sided n a b α false false exp hα hs]
    simp only [Bool.false_eq_true, if_false, xnF]
    by_cases ha : a < 0
    · have hb : b ≤ 0 := not_lt.mp (fun h => hs ⟨ha, h⟩)
      rcases hb.lt_or_eq with hb | hb
      · simp only [xnS, ha, hb, if_true]; ring
      · subst hb; simp only [xnS, ha, lt_irrefl, if_true, if_false]; ring
    · have hb : ¬ b < 0 := fun h => ha (lt_of_le_of_lt hab h)
      simp only [xnS, ha, hb, if_false]; ring

/-- (B) additivity over adjacent intervals, every order, every position relative to zero -/
theorem src_xn_additive (exp : ℚ → ℚ) (n : ℕ) (α a b c : ℚ) (hα : 0 < α) (hab : a ≤ b) (hbc : b ≤ c) :
    integral_xn_exp_minus_x (n : ℤ) a c α false false exp
      = integral_xn_exp_minus_x (n : ℤ) a b α false false exp + integral_xn_exp_minus_x (n : ℤ) b c α false false exp := by
  rw [src_xn_eq_F_diff exp n α a c hα (hab.trans hbc), src_xn_eq_F_diff exp n α a b hα hab, src_xn_eq_F_diff exp n α b c hα hbc]
  ring

/-- (B) a finite interval on the positive side is the difference of the two tails -/
theorem src_xn_fin_eq_tails (exp : ℚ → ℚ) (n : ℕ) (α a b b' : ℚ) (hα : 0 < α) (ha : 0 ≤ a) (hb : 0 ≤ b) :
    integral_xn_exp_minus_x (n : ℤ) a b α false false exp = srcTail exp n α a b' - srcTail exp n α b b' := by
  rw [srcTail_eq exp n α a b' hα ha, srcTail_eq exp n α b b' hα hb,
    src_xn_one_sided n a b α false false exp hα (fun h => absurd h.1 (not_lt.mpr ha))]
  simp only [xnS, not_lt.mpr ha, if_false, Bool.false_eq_true, one_mul]

theorem xnG_neg (exp : ℚ → ℚ) (n : ℕ) (α u : ℚ) : xnG exp n α (-u) = xnG exp n α u := by
  simp only [xnG, helperSum, neg_mul, rabs_neg]

/-- (B) reflection `x ↦ −x`: on `a ≤ b ≤ 0` the value is `(−1)^n` times the value on `[−b, −a]` -/
theorem src_xn_reflect (exp : ℚ → ℚ) (n : ℕ) (α a b : ℚ) (hα : 0 < α) (hab : a ≤ b) (hb : b ≤ 0) :
    integral_xn_exp_minus_x (n : ℤ) a b α false false exp
      = (-1) ^ n * integral_xn_exp_minus_x (n : ℤ) (-b) (-a) α false false exp := by
  rw [src_xn_one_sided n a b α false false exp hα (fun h => absurd h.2 (not_lt.mpr hb)),
    src_xn_one_sided n (-b) (-a) α false false exp hα (fun h => absurd h.1 (not_lt.mpr (by linarith)))]
  simp only [Bool.false_eq_true, if_false, xnG_neg]
  have hnb : ¬ (-b < 0) := not_lt.mpr (by linarith)
  rcases (hab.trans hb).lt_or_eq with ha | ha
  · simp only [xnS, ha, hnb, if_true, if_false]; ring
  · subst ha
    have : b = 0 := le_antisymm hb hab
    subst this
    simp only [xnS, lt_irrefl, neg_zero, if_false]; ring

/-- (B) sign of the half-line `[u, ∞)`, `u ≥ 0`: non-negative for every order as soon as `exp ≥ 0` -/
theorem src_xn_tail_nonneg (exp : ℚ → ℚ) (hexp : ∀ x, 0 ≤ exp x) (n : ℕ) (α u b : ℚ) (hα : 0 < α) (hu : 0 ≤ u) :
    0 ≤ srcTail exp n α u b := by
  rw [srcTail_eq exp n α u b hα hu, xnG]
  have h1 := helperSum_pos n (u * α)
  have h2 := hexp (-(Integrals.rabs u * α))
  have h3 : 0 < α ^ (n + 1) := by positivity
  exact div_nonneg (mul_nonneg (by linarith) h2) h3.le

/-- (B) sign of the half-line `(−∞, b]`, `b ≤ 0`: the sign `(−1)^n` of `x^n` there (`a` is any negative value: the flag
    `a == -np.inf` is set) -/
theorem src_xn_left_tail_sign (exp : ℚ → ℚ) (hexp : ∀ x, 0 ≤ exp x) (n : ℕ) (α a b : ℚ) (hα : 0 < α) (ha : a < 0) (hb : b ≤ 0) :
    0 ≤ (-1) ^ n * integral_xn_exp_minus_x (n : ℤ) a b α true false exp := by
  rw [src_xn_one_sided n a b α true false exp hα (fun h => absurd h.2 (not_lt.mpr hb))]
  simp only [if_true, xnS, ha]
  have h1 := helperSum_pos n (b * α)
  have h2 := hexp (-(Integrals.rabs b * α))
  have h3 : 0 < α ^ (n + 1) := by positivity
  have h4 : 0 ≤ xnG exp n α b := div_nonneg (mul_nonneg (by linarith) h2) h3.le
  have h5 : (-1 : ℚ) ^ n * -((-1) ^ (n + 1) * xnG exp n α b) = ((-1) ^ n * (-1) ^ n) * xnG exp n α b := by ring
  rw [h5, ← mul_pow]; norm_num; exact h4

/-! non-vacuity: concrete values (checked against the Python function with `exp := fun _ => 1` replaced by hand) -/
example : ReprA .negInf (-5) true ∧ ReprB (.fin 2) 2 false := ⟨⟨by norm_num, rfl⟩, rfl, rfl⟩
example : xnExpTerms 1 2 (.fin (-1)) (.fin 3) = some [(3/4, -2), (-1/4, -0), (1/4, -0), (-7/4, -6)] := by
  simp [xnExpTerms, xnExpTermsWith, xnExpOneSided, xnHelper, xnSign, ExtRat.lt, negTerm, helperSum, expPartial, fact, Integrals.rabs]
  norm_num
example : integral_xn_exp_minus_x 1 (-1) 3 2 false false (fun x => x) = 9 := by
  rw [show (1 : ℤ) = ((1 : ℕ) : ℤ) from rfl,
    src_xn_eq_terms 1 2 (.fin (-1)) (.fin 3) (-1) 3 false false (fun x => x) [(3/4, -2), (-1/4, -0), (1/4, -0), (-7/4, -6)]
      ⟨rfl, rfl⟩ ⟨rfl, rfl⟩ (by
        simp [xnExpTerms, xnExpTermsWith, xnExpOneSided, xnHelper, xnSign, ExtRat.lt, negTerm, helperSum, expPartial, fact, Integrals.rabs]
        norm_num)]
  simp only [evalTermsWith_cons, evalTermsWith_nil]; norm_num

/-! ### 3. variance gamma (`_VGLevyMeasure`)

`spp.exp1` is the function parameter `exp1`; the four tests `a == ±np.inf`, `b == ±np.inf` are Bool parameters; the call of
`integral_xn_exp_minus_x` (another file) is the function parameter `ixn`, instantiated below with the translated definition. -/

/-- closes one branch left by `split_ifs` -/
local macro "vg_branch" : tactic => `(tactic|
  first
  | contradiction
  | (exfalso; linarith)
  | (exfalso; simp_all; done)
  | rfl
  | ring1
  | (ring_nf; done)
  | (field_simp; ring_nf; done)
  | (simp_all; done)
  | (simp_all; first | ring1 | (ring_nf; done) | (field_simp; ring_nf; done)))

/-! #### mass -/

/-- the rational `a` and the flags `a == -np.inf`, `a == np.inf` stand for the extended lower end point -/
def ReprA4 (ea : ExtRat) (a : ℚ) (faN faP : Bool) : Prop :=
  match ea with
  | .fin x => a = x ∧ faN = false ∧ faP = false
  | .negInf => faN = true ∧ faP = false
  | .posInf => faN = false ∧ faP = true

def ReprB4 (eb : ExtRat) (b : ℚ) (fbP fbN : Bool) : Prop :=
  match eb with
  | .fin x => b = x ∧ fbP = false ∧ fbN = false
  | .posInf => fbP = true ∧ fbN = false
  | .negInf => fbP = false ∧ fbN = true

/-- (A) for every `exp1` the translated `integrate` is `Σ c · exp1 z` over the model's list `vgMassTerms` (every shape of end
    points the model accepts; its real instance is `vg_mass_correct_ext`) -/
theorem src_vg_mass_eq_terms (c lm lp : ℚ) (ea eb : ExtRat) (a b : ℚ) (faN fbP faP fbN : Bool) (exp1 : ℚ → ℚ) (ts : Terms)
    (hra : ReprA4 ea a faN faP) (hrb : ReprB4 eb b fbP fbN) (h : vgMassTerms c lp lm ea eb = some ts) :
    VGLevyMeasure_integrate a b c lm lp faN fbP faP fbN exp1 = evalTermsWith exp1 ts := by
  cases ea <;> cases eb <;> simp only [ReprA4, ReprB4] at hra hrb <;>
    simp only [vgMassTerms, Option.some.injEq, reduceCtorEq] at h <;>
    (try (split_ifs at h <;> simp only [Option.some.injEq] at h)) <;> subst_vars <;>
    simp only [VGLevyMeasure_integrate, hra.1, hra.2, hrb.1, hrb.2, evalTermsWith_cons, evalTermsWith_nil, if_true, if_false,
      Bool.false_eq_true] <;>
    (try split_ifs) <;> vg_branch

/-- the mass of `[a, ∞)`, `a > 0` -/
def vgTail (exp1 : ℚ → ℚ) (c lm lp a b : ℚ) : ℚ := VGLevyMeasure_integrate a b c lm lp false true false false exp1

/-- (B) finite interval on the positive side = difference of the two tails -/
theorem src_vg_mass_pos_eq_tails (exp1 : ℚ → ℚ) (c lm lp a b b' : ℚ) (ha : 0 < a) (hb : 0 < b) :
    VGLevyMeasure_integrate a b c lm lp false false false false exp1 = vgTail exp1 c lm lp a b' - vgTail exp1 c lm lp b b' := by
  simp only [vgTail, VGLevyMeasure_integrate] <;>
  (try split_ifs) <;> vg_branch

/-- (B) additivity of the mass over adjacent intervals on the positive side (where the mass is finite) -/
theorem src_vg_mass_additive_pos (exp1 : ℚ → ℚ) (c lm lp a b d : ℚ) (ha : 0 < a) (hb : 0 < b) (hd : 0 < d) :
    VGLevyMeasure_integrate a d c lm lp false false false false exp1
      = VGLevyMeasure_integrate a b c lm lp false false false false exp1
        + VGLevyMeasure_integrate b d c lm lp false false false false exp1 := by
  rw [src_vg_mass_pos_eq_tails exp1 c lm lp a d 0 ha hd, src_vg_mass_pos_eq_tails exp1 c lm lp a b 0 ha hb,
    src_vg_mass_pos_eq_tails exp1 c lm lp b d 0 hb hd]
  ring

/-- (B) … and on the negative side -/
theorem src_vg_mass_additive_neg (exp1 : ℚ → ℚ) (c lm lp a b d : ℚ) (ha : a < 0) (hb : b < 0) (hd : d < 0) :
    VGLevyMeasure_integrate a d c lm lp false false false false exp1
      = VGLevyMeasure_integrate a b c lm lp false false false false exp1
        + VGLevyMeasure_integrate b d c lm lp false false false false exp1 := by
  have h1 : ¬ (0 < a) := by linarith
  have h2 : ¬ (0 < b) := by linarith
  have h3 : ¬ (0 < d) := by linarith
  simp only [VGLevyMeasure_integrate] <;>
  (try split_ifs) <;> vg_branch

/-- (B) the mass is non-negative: `c ≥ 0`, rates `> 0`, `exp1` decreasing on the positive half-line (as `E1` is) -/
theorem src_vg_mass_nonneg (exp1 : ℚ → ℚ) (hmono : ∀ x y, 0 < x → x ≤ y → exp1 y ≤ exp1 x) (c lm lp a b : ℚ)
    (hc : 0 ≤ c) (hlm : 0 < lm) (hlp : 0 < lp) (hab : a ≤ b) (hside : 0 < a ∨ b < 0) :
    0 ≤ VGLevyMeasure_integrate a b c lm lp false false false false exp1 := by
  rcases hside with ha | hb
  · have hb : 0 < b := lt_of_lt_of_le ha hab
    have key : 0 ≤ c * (exp1 (lp * a) - exp1 (lp * b)) :=
      mul_nonneg hc (sub_nonneg.mpr (hmono _ _ (mul_pos hlp ha) (mul_le_mul_of_nonneg_left hab hlp.le)))
    simp only [VGLevyMeasure_integrate]
    simp only [if_true, if_false, Bool.false_eq_true, ha, hb, and_self, and_false, false_and, not_true, not_false_eq_true]
    (try split_ifs) <;> first | (exfalso; linarith) | exact key | (convert key using 2 <;> ring_nf) | linarith
  · have ha : a < 0 := lt_of_le_of_lt hab hb
    have key : 0 ≤ c * (exp1 (-(lm * b)) - exp1 (-(lm * a))) :=
      mul_nonneg hc (sub_nonneg.mpr (hmono _ _ (by nlinarith) (by nlinarith)))
    have h1 : ¬ (0 < a) := by linarith
    have h2 : ¬ (0 < b) := by linarith
    simp only [VGLevyMeasure_integrate]
    simp only [if_true, if_false, Bool.false_eq_true, ha, hb, h1, h2, and_self, and_false, false_and, not_true, not_false_eq_true]
    (try split_ifs) <;> first | (exfalso; linarith) | exact key | (convert key using 2 <;> ring_nf) | linarith

/-- (B) the tails are non-negative as soon as `exp1 ≥ 0` on the positive half-line -/
theorem src_vg_mass_tail_nonneg (exp1 : ℚ → ℚ) (hpos : ∀ x, 0 < x → 0 ≤ exp1 x) (c lm lp a b : ℚ) (hc : 0 ≤ c) (hlp : 0 < lp) (ha : 0 < a) :
    0 ≤ vgTail exp1 c lm lp a b := by
  have key : 0 ≤ c * exp1 (lp * a) := mul_nonneg hc (hpos _ (mul_pos hlp ha))
  simp only [vgTail, VGLevyMeasure_integrate, if_true, if_false, Bool.false_eq_true] <;>
  (try split_ifs) <;> first | exact key | (convert key using 2 <;> ring_nf) | linarith

example : ∃ exp1 : ℚ → ℚ, (∀ x y, 0 < x → x ≤ y → exp1 y ≤ exp1 x) ∧ (∀ x, 0 < x → 0 ≤ exp1 x) :=
  ⟨fun x => 1 / x, fun x y hx hxy => one_div_le_one_div_of_le hx hxy, fun x hx => by positivity⟩

/-! #### `integrate_against_xn`: normal forms, then (A) and (B) -/

/-- `integral_xn_exp_minus_x` as `integrate_against_xn` calls it: the flag of an infinite end point travels with the value
    (`a' == -np.inf` holds exactly for the argument that is the caller's `a`) -/
def ixnInst (exp : ℚ → ℚ) (a : ℚ) (fa : Bool) (b : ℚ) (fb : Bool) : ℤ → ℚ → ℚ → ℚ → ℚ :=
  fun k a' b' α => integral_xn_exp_minus_x k a' b' α (fa && decide (a' = a)) (fb && decide (b' = b)) exp

/-- one side of zero, order `m + 1`: `−c · I_m(a, b; λ₋)` on `b ≤ 0`, `c · I_m(a, b; λ₊)` otherwise -/
theorem src_vg_xn_one_sided (m : ℕ) (a b c lm lp : ℚ) (fa fb faP fbN : Bool) (ixn : ℤ → ℚ → ℚ → ℚ → ℚ) (exp1 : ℚ → ℚ)
    (h : ¬ (a < 0 ∧ 0 < b)) :
    VGLevyMeasure_integrate_against_xn a b ((m : ℤ) + 1) c lm lp fa fb faP fbN ixn exp1
      = if b ≤ 0 then -c * ixn (m : ℤ) a b lm else c * ixn (m : ℤ) a b lp := by
  have hn : ¬ ((m : ℤ) + 1 = 0) := by omega
  have hm : (m : ℤ) + 1 - 1 = (m : ℤ) := by ring
  simp only [VGLevyMeasure_integrate_against_xn, VGLevyMeasure_integrate_against_xn_fuel, hn, if_false, hm] <;>
  (try split_ifs) <;> vg_branch

/-- across zero: the sum of the two one-sided values -/
theorem src_vg_xn_straddling (m : ℕ) (a b c lm lp : ℚ) (fa fb faP fbN : Bool) (ixn : ℤ → ℚ → ℚ → ℚ → ℚ) (exp1 : ℚ → ℚ)
    (ha : a < 0) (hb : 0 < b) :
    VGLevyMeasure_integrate_against_xn a b ((m : ℤ) + 1) c lm lp fa fb faP fbN ixn exp1
      = -c * ixn (m : ℤ) a 0 lm + c * ixn (m : ℤ) 0 b lp := by
  have hn : ¬ ((m : ℤ) + 1 = 0) := by omega
  have hm : (m : ℤ) + 1 - 1 = (m : ℤ) := by ring
  have h00 : ¬ ((0 : ℚ) < 0) := lt_irrefl _
  have hb' : ¬ (b ≤ 0) := not_le.mpr hb
  simp only [VGLevyMeasure_integrate_against_xn, VGLevyMeasure_integrate_against_xn_fuel, hn, if_false, hm] <;>
  (try split_ifs) <;> vg_branch

/-- order 0 is the mass -/
theorem src_vg_xn_zero (a b c lm lp : ℚ) (fa fb faP fbN : Bool) (ixn : ℤ → ℚ → ℚ → ℚ → ℚ) (exp1 : ℚ → ℚ) :
    VGLevyMeasure_integrate_against_xn a b 0 c lm lp fa fb faP fbN ixn exp1
      = VGLevyMeasure_integrate a b c lm lp fa fb faP fbN exp1 := by
  simp only [VGLevyMeasure_integrate_against_xn, VGLevyMeasure_integrate_against_xn_fuel] <;>
  (try split_ifs) <;> vg_branch

theorem reprB_le_zero {eb : ExtRat} {b : ℚ} {fb : Bool} (h : ReprB eb b fb) : ExtRat.le eb (.fin 0) = true ↔ b ≤ 0 := by
  cases eb with
  | fin x => obtain ⟨rfl, _⟩ := h; simp [ExtRat.le, ExtRat.lt]
  | negInf => exact h.elim
  | posInf => simp [ExtRat.le, ExtRat.lt, h.1]

/-- (A) for every `exp`, every order `n ≥ 1` and every shape of end points, the translated `integrate_against_xn` — with
    the translated `integral_xn_exp_minus_x` in the place of its callee — is `Σ c · exp e` over the model's list `vgXnTerms`
    (real instance: `vg_xn_correct_ext`) -/
theorem src_vg_xn_eq_terms (m : ℕ) (c lm lp : ℚ) (ea eb : ExtRat) (a b : ℚ) (fa fb : Bool) (exp exp1 : ℚ → ℚ) (ts : Terms)
    (hra : ReprA ea a fa) (hrb : ReprB eb b fb) (h : vgXnTerms c lp lm (m + 1) ea eb = some ts) :
    VGLevyMeasure_integrate_against_xn a b ((m : ℤ) + 1) c lm lp fa fb false false (ixnInst exp a fa b fb) exp1
      = evalTermsWith exp ts := by
  simp only [vgXnTerms, Nat.succ_ne_zero, if_false, Nat.add_sub_cancel] at h
  by_cases hs : a < 0 ∧ 0 < b
  · have h1 := (reprA_lt_zero hra).mpr hs.1
    have h2 := (reprB_zero_lt hrb).mpr hs.2
    simp only [h1, h2, Bool.and_self, if_true] at h
    rw [src_vg_xn_straddling m a b c lm lp fa fb false false _ exp1 hs.1 hs.2]
    cases ht1 : xnExpTerms m lm ea (.fin 0) with
    | none => simp [ht1] at h
    | some t1 =>
      cases ht2 : xnExpTerms m lp (.fin 0) eb with
      | none => simp [ht1, ht2] at h
      | some t2 =>
        simp only [ht1, ht2, Option.some.injEq] at h
        subst h
        have e1 : (fb && decide ((0 : ℚ) = b)) = false := by
          have : ¬ ((0 : ℚ) = b) := ne_of_lt hs.2
          simp [this]
        have e2 : (fa && decide ((0 : ℚ) = a)) = false := by
          have : ¬ ((0 : ℚ) = a) := fun hh => (ne_of_lt hs.1) hh.symm
          simp [this]
        simp only [ixnInst, decide_true, Bool.and_true, e1, e2]
        rw [evalTermsWith_append, evalTermsWith_scale, evalTermsWith_scale,
          src_xn_eq_terms m lm ea (.fin 0) a 0 fa false exp t1 hra ⟨rfl, rfl⟩ ht1,
          src_xn_eq_terms m lp (.fin 0) eb 0 b false fb exp t2 ⟨rfl, rfl⟩ hrb ht2]
  · have : (ExtRat.lt ea (.fin 0) && ExtRat.lt (.fin 0) eb) = false := by
      have hns : ¬ (ExtRat.lt ea (.fin 0) = true ∧ ExtRat.lt (.fin 0) eb = true) := by
        rw [reprA_lt_zero hra, reprB_zero_lt hrb]; exact hs
      cases h1 : ExtRat.lt ea (.fin 0) <;> cases h2 : ExtRat.lt (.fin 0) eb <;> simp_all
    simp only [this, Bool.false_eq_true, if_false] at h
    rw [src_vg_xn_one_sided m a b c lm lp fa fb false false _ exp1 hs]
    simp only [ixnInst, decide_true, Bool.and_true]
    by_cases hb : b ≤ 0
    · have hle := (reprB_le_zero hrb).mpr hb
      simp only [hle, if_true, hb] at h ⊢
      cases ht : xnExpTerms m lm ea eb with
      | none => simp [ht] at h
      | some t =>
        simp only [ht, Option.map_some, Option.some.injEq] at h
        subst h
        rw [evalTermsWith_scale, src_xn_eq_terms m lm ea eb a b fa fb exp t hra hrb ht]
    · have hle : ExtRat.le eb (.fin 0) = false := by
        cases hh : ExtRat.le eb (.fin 0)
        · rfl
        · exact absurd ((reprB_le_zero hrb).mp hh) hb
      simp only [hle, Bool.false_eq_true, if_false, hb] at h ⊢
      cases ht : xnExpTerms m lp ea eb with
      | none => simp [ht] at h
      | some t =>
        simp only [ht, Option.map_some, Option.some.injEq] at h
        subst h
        rw [evalTermsWith_scale, src_xn_eq_terms m lp ea eb a b fa fb exp t hra hrb ht]

/-- the real instance for every order `n = m + 1 ≥ 1` and every proper pair of extended end points -/
theorem src_vg_xn_real_instance_is_integral (m : ℕ) (c lp lm : ℚ) (hlp : 0 < lp) (hlm : 0 < lm) (ea eb : ExtRat)
    (hab : ELe ea eb) (hpr : Proper ea eb) :
    ∃ ts, vgXnTerms c lp lm (m + 1) ea eb = some ts
      ∧ (∀ (exp exp1 : ℚ → ℚ) (a b : ℚ) (fa fb : Bool), ReprA ea a fa → ReprB eb b fb →
            VGLevyMeasure_integrate_against_xn a b ((m : ℤ) + 1) c lm lp fa fb false false (ixnInst exp a fa b fb) exp1
              = evalTermsWith exp ts)
      ∧ evalTerms ts = ∫ x in eSet ea eb, x ^ (m + 1) * vgDensity c lp lm x := by
  obtain ⟨ts, hts, hint⟩ := vg_xn_correct_ext m c lp lm hlp hlm ea eb hab hpr
  exact ⟨ts, hts, fun exp exp1 a b fa fb hra hrb => src_vg_xn_eq_terms m c lm lp ea eb a b fa fb exp exp1 ts hra hrb hts, hint⟩

/-- the callee with finite end points -/
def ixnFin (exp : ℚ → ℚ) : ℤ → ℚ → ℚ → ℚ → ℚ := fun k a' b' α => integral_xn_exp_minus_x k a' b' α false false exp

theorem ixnInst_false (exp : ℚ → ℚ) (a b : ℚ) : ixnInst exp a false b false = ixnFin exp := by
  funext k a' b' α; simp only [ixnInst, ixnFin, Bool.false_and]

/-- the antiderivative whose differences the finite-interval values of `integrate_against_xn` are -/
def vgPhi (exp : ℚ → ℚ) (m : ℕ) (c lm lp u : ℚ) : ℚ := if u ≤ 0 then -c * xnF exp m lm u else c * xnF exp m lp u

theorem xnF_zero (exp : ℚ → ℚ) (n : ℕ) (α : ℚ) : xnF exp n α 0 = 0 := by simp [xnF]

theorem src_vg_xn_eq_Phi_diff (exp exp1 : ℚ → ℚ) (m : ℕ) (c lm lp a b : ℚ) (hlm : 0 < lm) (hlp : 0 < lp) (hab : a ≤ b) :
    VGLevyMeasure_integrate_against_xn a b ((m : ℤ) + 1) c lm lp false false false false (ixnFin exp) exp1
      = vgPhi exp m c lm lp b - vgPhi exp m c lm lp a := by
  by_cases hs : a < 0 ∧ 0 < b
  · rw [src_vg_xn_straddling m a b c lm lp false false false false _ exp1 hs.1 hs.2]
    simp only [ixnFin, vgPhi, hs.1.le, not_le.mpr hs.2, if_true, if_false]
    rw [src_xn_eq_F_diff exp m lm a 0 hlm hs.1.le, src_xn_eq_F_diff exp m lp 0 b hlp hs.2.le, xnF_zero, xnF_zero]; ring
  · rw [src_vg_xn_one_sided m a b c lm lp false false false false _ exp1 hs]
    simp only [ixnFin, vgPhi]
    by_cases hb : b ≤ 0
    · simp only [hb, hab.trans hb, if_true]
      rw [src_xn_eq_F_diff exp m lm a b hlm hab]; ring
    · have ha : 0 ≤ a := not_lt.mp (fun h => hs ⟨h, not_le.mp hb⟩)
      simp only [hb, if_false]
      rw [src_xn_eq_F_diff exp m lp a b hlp hab]
      rcases ha.lt_or_eq with ha | ha
      · simp only [not_le.mpr ha, if_false]; ring
      · subst ha; simp only [le_refl, if_true, xnF_zero]; ring

/-- (B) additivity of every moment `n ≥ 1` over adjacent intervals, wherever they lie -/
theorem src_vg_xn_additive (exp exp1 : ℚ → ℚ) (m : ℕ) (c lm lp a b d : ℚ) (hlm : 0 < lm) (hlp : 0 < lp) (hab : a ≤ b) (hbd : b ≤ d) :
    VGLevyMeasure_integrate_against_xn a d ((m : ℤ) + 1) c lm lp false false false false (ixnFin exp) exp1
      = VGLevyMeasure_integrate_against_xn a b ((m : ℤ) + 1) c lm lp false false false false (ixnFin exp) exp1
        + VGLevyMeasure_integrate_against_xn b d ((m : ℤ) + 1) c lm lp false false false false (ixnFin exp) exp1 := by
  rw [src_vg_xn_eq_Phi_diff exp exp1 m c lm lp a d hlm hlp (hab.trans hbd), src_vg_xn_eq_Phi_diff exp exp1 m c lm lp a b hlm hlp hab,
    src_vg_xn_eq_Phi_diff exp exp1 m c lm lp b d hlm hlp hbd]
  ring

/-- (B) signs on half-lines: on `[a, ∞)`, `a ≥ 0`, every moment is `≥ 0`; on `(−∞, b]`, `b ≤ 0`, it has the sign `(−1)^n` -/
theorem src_vg_xn_tail_signs (exp exp1 : ℚ → ℚ) (hexp : ∀ x, 0 ≤ exp x) (m : ℕ) (c lm lp a b : ℚ) (hc : 0 ≤ c) (hlm : 0 < lm) (hlp : 0 < lp) :
    (0 ≤ a → 0 < b →
      0 ≤ VGLevyMeasure_integrate_against_xn a b ((m : ℤ) + 1) c lm lp false true false false (ixnInst exp a false b true) exp1)
    ∧ (a < 0 → b ≤ 0 →
      0 ≤ (-1) ^ (m + 1) * VGLevyMeasure_integrate_against_xn a b ((m : ℤ) + 1) c lm lp true false false false (ixnInst exp a true b false) exp1) := by
  constructor
  · intro ha hb
    rw [src_vg_xn_one_sided m a b c lm lp false true false false _ exp1 (fun h => absurd h.1 (not_lt.mpr ha))]
    simp only [not_le.mpr hb, if_false, ixnInst, decide_true, Bool.and_true, Bool.false_and]
    exact mul_nonneg hc (src_xn_tail_nonneg exp hexp m lp a b hlp ha)
  · intro ha hb
    rw [src_vg_xn_one_sided m a b c lm lp true false false false _ exp1 (fun h => absurd h.2 (not_lt.mpr hb))]
    simp only [hb, if_true, ixnInst, decide_true, Bool.and_true, Bool.false_and]
    have h := src_xn_left_tail_sign exp hexp m lm a b hlm ha hb
    have e : (-1 : ℚ) ^ (m + 1) * (-c * integral_xn_exp_minus_x (m : ℤ) a b lm true false exp)
        = c * ((-1) ^ m * integral_xn_exp_minus_x (m : ℤ) a b lm true false exp) := by ring
    rw [e]; exact mul_nonneg hc h

/-! #### the two routes agree: `integrate_against_x = integrate_against_xn(·, 1)`, `integrate_against_xx = integrate_against_xn(·, 2)` -/

theorem helperSum_one (x : ℚ) : helperSum 1 x = 1 + Integrals.rabs x := by
  simp [helperSum, expPartial, fact]

/-- normal forms of the dedicated first-moment closed form (finite end points) -/
theorem src_vg_x_pos_side (exp : ℚ → ℚ) (c lm lp a b : ℚ) (ha : 0 ≤ a) :
    VGLevyMeasure_integrate_against_x a b c lm lp exp = c * (exp (-(a * lp)) - exp (-(b * lp))) / lp := by
  simp only [VGLevyMeasure_integrate_against_x, VGLevyMeasure_integrate_against_x_fuel] <;>
  (try split_ifs) <;> vg_branch

theorem src_vg_x_neg_side (exp : ℚ → ℚ) (c lm lp a b : ℚ) (ha : a < 0) (hb : b ≤ 0) :
    VGLevyMeasure_integrate_against_x a b c lm lp exp = c * (exp (a * lm) - exp (b * lm)) / lm := by
  have ha' : ¬ (0 ≤ a) := not_le.mpr ha
  have hb' : ¬ (0 < b) := not_lt.mpr hb
  simp only [VGLevyMeasure_integrate_against_x, VGLevyMeasure_integrate_against_x_fuel] <;>
  (try split_ifs) <;> vg_branch

theorem src_vg_x_straddling (exp : ℚ → ℚ) (c lm lp a b : ℚ) (ha : a < 0) (hb : 0 < b) :
    VGLevyMeasure_integrate_against_x a b c lm lp exp
      = VGLevyMeasure_integrate_against_x a 0 c lm lp exp + VGLevyMeasure_integrate_against_x 0 b c lm lp exp := by
  rw [src_vg_x_neg_side exp c lm lp a 0 ha le_rfl, src_vg_x_pos_side exp c lm lp 0 b le_rfl]
  have ha' : ¬ (0 ≤ a) := not_le.mpr ha
  have h00 : ¬ ((0 : ℚ) < 0) := lt_irrefl _
  simp only [VGLevyMeasure_integrate_against_x, VGLevyMeasure_integrate_against_x_fuel] <;>
  (try split_ifs) <;> vg_branch

/-- order-0 callee on one side of zero, finite end points -/
theorem src_xn0_one_sided (exp : ℚ → ℚ) (α a b : ℚ) (hα : 0 < α) (h : ¬ (a < 0 ∧ 0 < b)) :
    integral_xn_exp_minus_x 0 a b α false false exp
      = xnS 0 a * (exp (-(Integrals.rabs a * α)) / α - exp (-(Integrals.rabs b * α)) / α) := by
  have e := src_xn_one_sided 0 a b α false false exp hα h
  simp only [Nat.cast_zero] at e
  rw [e]; simp only [xnG, helperSum_zero, Bool.false_eq_true, if_false]; ring

/-- order-1 callee on one side of zero -/
theorem src_xn1_one_sided (exp : ℚ → ℚ) (α a b : ℚ) (fa fb : Bool) (hα : 0 < α) (h : ¬ (a < 0 ∧ 0 < b)) :
    integral_xn_exp_minus_x 1 a b α fa fb exp
      = if fa = true then -(xnS 1 a * ((1 + Integrals.rabs b * α) * exp (-(Integrals.rabs b * α)) / α ^ 2))
        else if fb = true then xnS 1 a * ((1 + Integrals.rabs a * α) * exp (-(Integrals.rabs a * α)) / α ^ 2)
        else xnS 1 a * ((1 + Integrals.rabs a * α) * exp (-(Integrals.rabs a * α)) / α ^ 2
                        - (1 + Integrals.rabs b * α) * exp (-(Integrals.rabs b * α)) / α ^ 2) := by
  have e := src_xn_one_sided 1 a b α fa fb exp hα h
  simp only [Nat.cast_one] at e
  rw [e]; simp only [xnG, helperSum_one, rabs_mul_of_pos _ hα]

/-- (B) first moment, finite `a ≤ b`: the dedicated closed form and the general-order route are the same function of `exp` -/
theorem src_vg_x_eq_xn1 (exp exp1 : ℚ → ℚ) (c lm lp a b : ℚ) (hlm : 0 < lm) (hlp : 0 < lp) (hab : a ≤ b) :
    VGLevyMeasure_integrate_against_x a b c lm lp exp
      = VGLevyMeasure_integrate_against_xn a b 1 c lm lp false false false false (ixnFin exp) exp1 := by
  have h1 : (1 : ℤ) = ((0 : ℕ) : ℤ) + 1 := by norm_num
  have r0 : Integrals.rabs 0 = 0 := rabs_of_nonneg le_rfl
  have hlm' : lm ≠ 0 := hlm.ne'
  have hlp' : lp ≠ 0 := hlp.ne'
  rw [h1]
  by_cases hs : a < 0 ∧ 0 < b
  · obtain ⟨ha, hb⟩ := hs
    rw [src_vg_xn_straddling 0 a b c lm lp false false false false _ exp1 ha hb, src_vg_x_straddling exp c lm lp a b ha hb,
      src_vg_x_neg_side exp c lm lp a 0 ha le_rfl, src_vg_x_pos_side exp c lm lp 0 b le_rfl]
    simp only [ixnFin, Nat.cast_zero]
    rw [src_xn0_one_sided exp lm a 0 hlm (fun h => lt_irrefl _ h.2), src_xn0_one_sided exp lp 0 b hlp (fun h => lt_irrefl _ h.1)]
    simp only [xnS, ha, lt_irrefl, if_true, if_false, rabs_of_nonpos ha.le, rabs_of_nonneg hb.le, r0]
    field_simp
    ring_nf
  · rw [src_vg_xn_one_sided 0 a b c lm lp false false false false _ exp1 hs]
    simp only [ixnFin, Nat.cast_zero]
    by_cases ha : a < 0
    · have hb : b ≤ 0 := not_lt.mp (fun h => hs ⟨ha, h⟩)
      rw [src_vg_x_neg_side exp c lm lp a b ha hb, src_xn0_one_sided exp lm a b hlm hs]
      simp only [xnS, ha, hb, if_true, rabs_of_nonpos ha.le, rabs_of_nonpos hb]
      field_simp
      ring_nf
    · have ha' : 0 ≤ a := not_lt.mp ha
      have hb' : 0 ≤ b := ha'.trans hab
      rw [src_vg_x_pos_side exp c lm lp a b ha']
      by_cases hb : b ≤ 0
      · have hb0 : b = 0 := le_antisymm hb hb'
        have ha0 : a = 0 := le_antisymm (hb0 ▸ hab) ha'
        subst ha0 hb0
        rw [src_xn0_one_sided exp lm 0 0 hlm hs]
        simp only [le_refl, if_true]; ring
      · rw [src_xn0_one_sided exp lp a b hlp hs]
        simp only [xnS, ha, hb, if_false, rabs_of_nonneg ha', rabs_of_nonneg hb']
        field_simp

/-- normal forms of the dedicated second-moment closed form -/
theorem src_vg_xx_pos_side (exp : ℚ → ℚ) (c lm lp a b : ℚ) (fa fb : Bool) (ha : 0 ≤ a) :
    VGLevyMeasure_integrate_against_xx a b c lm lp fa fb exp
      = if fb = true then c * (a + 1 / lp) * exp (-(a * lp)) / lp
        else c * ((a + 1 / lp) * exp (-(a * lp)) - (b + 1 / lp) * exp (-(b * lp))) / lp := by
  simp only [VGLevyMeasure_integrate_against_xx, VGLevyMeasure_integrate_against_xx_fuel] <;>
  (try split_ifs) <;> vg_branch

theorem src_vg_xx_neg_side (exp : ℚ → ℚ) (c lm lp a b : ℚ) (fa fb : Bool) (ha : a < 0) (hb : b ≤ 0) :
    VGLevyMeasure_integrate_against_xx a b c lm lp fa fb exp
      = if fa = true then -c * (b - 1 / lm) * exp (b * lm) / lm
        else -c * ((b - 1 / lm) * exp (b * lm) - (a - 1 / lm) * exp (a * lm)) / lm := by
  have ha' : ¬ (0 ≤ a) := not_le.mpr ha
  have hb' : ¬ (0 < b) := not_lt.mpr hb
  simp only [VGLevyMeasure_integrate_against_xx, VGLevyMeasure_integrate_against_xx_fuel] <;>
  (try split_ifs) <;> vg_branch

theorem src_vg_xx_straddling (exp : ℚ → ℚ) (c lm lp a b : ℚ) (fa fb : Bool) (ha : a < 0) (hb : 0 < b) :
    VGLevyMeasure_integrate_against_xx a b c lm lp fa fb exp
      = VGLevyMeasure_integrate_against_xx a 0 c lm lp fa false exp + VGLevyMeasure_integrate_against_xx 0 b c lm lp false fb exp := by
  rw [src_vg_xx_neg_side exp c lm lp a 0 fa false ha le_rfl, src_vg_xx_pos_side exp c lm lp 0 b false fb le_rfl]
  have ha' : ¬ (0 ≤ a) := not_le.mpr ha
  have h00 : ¬ ((0 : ℚ) < 0) := lt_irrefl _
  simp only [VGLevyMeasure_integrate_against_xx, VGLevyMeasure_integrate_against_xx_fuel] <;>
  (try split_ifs) <;> vg_branch

/-- (B) second moment, every shape of end points (`a ≤ b`; a set flag means the end point is beyond zero on its side): the
    dedicated closed form and the general-order route — with the translated `integral_xn_exp_minus_x` as callee — agree -/
theorem src_vg_xx_eq_xn2 (exp exp1 : ℚ → ℚ) (c lm lp a b : ℚ) (fa fb : Bool) (hlm : 0 < lm) (hlp : 0 < lp) (hab : a ≤ b)
    (hfa : fa = true → a < 0) (hfb : fb = true → 0 < b) :
    VGLevyMeasure_integrate_against_xx a b c lm lp fa fb exp
      = VGLevyMeasure_integrate_against_xn a b 2 c lm lp fa fb false false (ixnInst exp a fa b fb) exp1 := by
  have h2 : (2 : ℤ) = ((1 : ℕ) : ℤ) + 1 := by norm_num
  have r0 : Integrals.rabs 0 = 0 := rabs_of_nonneg le_rfl
  have hlm' : lm ≠ 0 := hlm.ne'
  have hlp' : lp ≠ 0 := hlp.ne'
  rw [h2]
  by_cases hs : a < 0 ∧ 0 < b
  · obtain ⟨ha, hb⟩ := hs
    have e1 : (fb && decide ((0 : ℚ) = b)) = false := by
      have : ¬ ((0 : ℚ) = b) := ne_of_lt hb
      simp [this]
    have e2 : (fa && decide ((0 : ℚ) = a)) = false := by
      have : ¬ ((0 : ℚ) = a) := fun hh => (ne_of_lt ha) hh.symm
      simp [this]
    rw [src_vg_xn_straddling 1 a b c lm lp fa fb false false _ exp1 ha hb, src_vg_xx_straddling exp c lm lp a b fa fb ha hb,
      src_vg_xx_neg_side exp c lm lp a 0 fa false ha le_rfl, src_vg_xx_pos_side exp c lm lp 0 b false fb le_rfl]
    simp only [ixnInst, Nat.cast_one, decide_true, Bool.and_true, e1, e2]
    rw [src_xn1_one_sided exp lm a 0 fa false hlm (fun h => lt_irrefl _ h.2),
      src_xn1_one_sided exp lp 0 b false fb hlp (fun h => lt_irrefl _ h.1)]
    simp only [xnS, ha, lt_irrefl, if_true, if_false, rabs_of_nonpos ha.le, rabs_of_nonneg hb.le, r0, Bool.false_eq_true]
    cases fa <;> cases fb <;> simp only [if_true, if_false, Bool.false_eq_true] <;> field_simp <;> ring_nf
  · rw [src_vg_xn_one_sided 1 a b c lm lp fa fb false false _ exp1 hs]
    simp only [ixnInst, Nat.cast_one, decide_true, Bool.and_true]
    by_cases ha : a < 0
    · have hb : b ≤ 0 := not_lt.mp (fun h => hs ⟨ha, h⟩)
      have hfb' : fb = false := by
        cases fb
        · rfl
        · exact absurd (hfb rfl) (not_lt.mpr hb)
      subst hfb'
      rw [src_vg_xx_neg_side exp c lm lp a b fa false ha hb, src_xn1_one_sided exp lm a b fa false hlm hs]
      simp only [xnS, ha, hb, if_true, rabs_of_nonpos ha.le, rabs_of_nonpos hb, Bool.false_eq_true, if_false]
      cases fa <;> simp only [if_true, if_false, Bool.false_eq_true] <;> field_simp <;> ring_nf
    · have ha' : 0 ≤ a := not_lt.mp ha
      have hb' : 0 ≤ b := ha'.trans hab
      have hfa' : fa = false := by
        cases fa
        · rfl
        · exact absurd (hfa rfl) ha
      subst hfa'
      rw [src_vg_xx_pos_side exp c lm lp a b false fb ha']
      by_cases hb : b ≤ 0
      · have hb0 : b = 0 := le_antisymm hb hb'
        have ha0 : a = 0 := le_antisymm (hb0 ▸ hab) ha'
        have hfb' : fb = false := by
          cases fb
          · rfl
          · exact absurd (hfb rfl) (not_lt.mpr hb)
        subst ha0 hb0 hfb'
        rw [src_xn1_one_sided exp lm 0 0 false false hlm hs]
        simp only [le_refl, if_true, Bool.false_eq_true, if_false]; ring
      · rw [src_xn1_one_sided exp lp a b false fb hlp hs]
        simp only [xnS, ha, hb, if_false, rabs_of_nonneg ha', rabs_of_nonneg hb', Bool.false_eq_true]
        cases fb <;> simp only [if_true, if_false, Bool.false_eq_true] <;> field_simp <;> ring_nf

/-- (B) additivity of the first moment over adjacent intervals -/
theorem src_vg_x_additive (exp : ℚ → ℚ) (c lm lp a b d : ℚ) (hlm : 0 < lm) (hlp : 0 < lp) (hab : a ≤ b) (hbd : b ≤ d) :
    VGLevyMeasure_integrate_against_x a d c lm lp exp
      = VGLevyMeasure_integrate_against_x a b c lm lp exp + VGLevyMeasure_integrate_against_x b d c lm lp exp := by
  rw [src_vg_x_eq_xn1 exp exp c lm lp a d hlm hlp (hab.trans hbd), src_vg_x_eq_xn1 exp exp c lm lp a b hlm hlp hab,
    src_vg_x_eq_xn1 exp exp c lm lp b d hlm hlp hbd]
  exact src_vg_xn_additive exp exp 0 c lm lp a b d hlm hlp hab hbd

/-- (B) additivity of the second moment over adjacent intervals -/
theorem src_vg_xx_additive (exp : ℚ → ℚ) (c lm lp a b d : ℚ) (hlm : 0 < lm) (hlp : 0 < lp) (hab : a ≤ b) (hbd : b ≤ d) :
    VGLevyMeasure_integrate_against_xx a d c lm lp false false exp
      = VGLevyMeasure_integrate_against_xx a b c lm lp false false exp
        + VGLevyMeasure_integrate_against_xx b d c lm lp false false exp := by
  have hf : ∀ x : ℚ, (false = true → x < 0) := fun _ h => by cases h
  have hg : ∀ x : ℚ, (false = true → 0 < x) := fun _ h => by cases h
  rw [src_vg_xx_eq_xn2 exp exp c lm lp a d false false hlm hlp (hab.trans hbd) (hf a) (hg d),
    src_vg_xx_eq_xn2 exp exp c lm lp a b false false hlm hlp hab (hf a) (hg b),
    src_vg_xx_eq_xn2 exp exp c lm lp b d false false hlm hlp hbd (hf b) (hg d)]
  simp only [ixnInst_false]
  exact src_vg_xn_additive exp exp 1 c lm lp a b d hlm hlp hab hbd

/-- (B) sign of the first moment on one side of zero: `≥ 0` on `[a, b] ⊂ [0, ∞)`, `≤ 0` on `[a, b] ⊂ (−∞, 0]`, for every
    non-decreasing `exp` -/
theorem src_vg_x_sign (exp : ℚ → ℚ) (hmono : ∀ x y, x ≤ y → exp x ≤ exp y) (c lm lp a b : ℚ) (hc : 0 ≤ c) (hlm : 0 < lm)
    (hlp : 0 < lp) (hab : a ≤ b) :
    (0 ≤ a → 0 ≤ VGLevyMeasure_integrate_against_x a b c lm lp exp)
    ∧ (b ≤ 0 → VGLevyMeasure_integrate_against_x a b c lm lp exp ≤ 0) := by
  constructor
  · intro ha
    rw [src_vg_x_pos_side exp c lm lp a b ha]
    have : exp (-(b * lp)) ≤ exp (-(a * lp)) := hmono _ _ (by nlinarith)
    exact div_nonneg (mul_nonneg hc (by linarith)) hlp.le
  · intro hb
    rcases (hab.trans hb).lt_or_eq with ha | ha
    · rw [src_vg_x_neg_side exp c lm lp a b ha hb]
      have : exp (a * lm) ≤ exp (b * lm) := hmono _ _ (by nlinarith)
      exact div_nonpos_of_nonpos_of_nonneg (mul_nonpos_of_nonneg_of_nonpos hc (by linarith)) hlm.le
    · have hb0 : b = 0 := le_antisymm hb (ha ▸ hab)
      subst ha hb0
      rw [src_vg_x_pos_side exp c lm lp 0 0 le_rfl]; simp

/-- (B) the second moment of a half-line is `≥ 0` as soon as `exp ≥ 0` (`[a, ∞)`, `a ≥ 0`, and `(−∞, b]`, `b ≤ 0`) -/
theorem src_vg_xx_tail_nonneg (exp : ℚ → ℚ) (hexp : ∀ x, 0 ≤ exp x) (c lm lp a b : ℚ) (hc : 0 ≤ c) (hlm : 0 < lm) (hlp : 0 < lp) :
    (0 ≤ a → 0 ≤ VGLevyMeasure_integrate_against_xx a b c lm lp false true exp)
    ∧ (a < 0 → b ≤ 0 → 0 ≤ VGLevyMeasure_integrate_against_xx a b c lm lp true false exp) := by
  constructor
  · intro ha
    rw [src_vg_xx_pos_side exp c lm lp a b false true ha]
    simp only [if_true]
    have := hexp (-(a * lp))
    positivity
  · intro ha hb
    rw [src_vg_xx_neg_side exp c lm lp a b true false ha hb]
    simp only [if_true]
    have h1 := hexp (b * lm)
    have h2 : 0 ≤ 1 / lm - b := by have : 0 < 1 / lm := by positivity
                                   linarith
    have e : -c * (b - 1 / lm) * exp (b * lm) / lm = c * (1 / lm - b) * exp (b * lm) / lm := by ring
    rw [e]; positivity

/-- the real instances of the two dedicated closed forms (finite `a ≤ b`): `Σ c · exp e` over the model's lists for n = 1, 2,
    whose `Real.exp` instances are the integrals of `x · density`, `x² · density` -/
theorem src_vg_x_xx_real_instance_is_integral (c lp lm a b : ℚ) (hlp : 0 < lp) (hlm : 0 < lm) (hab : a ≤ b) :
    (∃ ts, vgXnTerms c lp lm 1 (.fin a) (.fin b) = some ts
      ∧ (∀ exp : ℚ → ℚ, VGLevyMeasure_integrate_against_x a b c lm lp exp = evalTermsWith exp ts)
      ∧ evalTerms ts = ∫ x in (a : ℝ)..(b : ℝ), x ^ 1 * vgDensity c lp lm x)
    ∧ (∃ ts, vgXnTerms c lp lm 2 (.fin a) (.fin b) = some ts
      ∧ (∀ exp : ℚ → ℚ, VGLevyMeasure_integrate_against_xx a b c lm lp false false exp = evalTermsWith exp ts)
      ∧ evalTerms ts = ∫ x in (a : ℝ)..(b : ℝ), x ^ 2 * vgDensity c lp lm x) := by
  constructor
  · obtain ⟨ts, hts, hint⟩ := vg_xn_correct 0 c lp lm a b hlp hlm hab
    refine ⟨ts, hts, fun exp => ?_, hint⟩
    rw [src_vg_x_eq_xn1 exp exp c lm lp a b hlm hlp hab, ← ixnInst_false exp a b]
    have := src_vg_xn_eq_terms 0 c lm lp (.fin a) (.fin b) a b false false exp exp ts ⟨rfl, rfl⟩ ⟨rfl, rfl⟩ hts
    simpa using this
  · obtain ⟨ts, hts, hint⟩ := vg_xn_correct 1 c lp lm a b hlp hlm hab
    refine ⟨ts, hts, fun exp => ?_, hint⟩
    rw [src_vg_xx_eq_xn2 exp exp c lm lp a b false false hlm hlp hab (fun h => by cases h) (fun h => by cases h)]
    have := src_vg_xn_eq_terms 1 c lm lp (.fin a) (.fin b) a b false false exp exp ts ⟨rfl, rfl⟩ ⟨rfl, rfl⟩ hts
    simpa using this

/-- (B) `x_nu` (x times the density) has the sign of x, and vanishes at 0 -/
theorem src_vg_x_nu_sign (exp : ℚ → ℚ) (hexp : ∀ x, 0 ≤ exp x) (c lm lp x : ℚ) (hc : 0 ≤ c) :
    (x < 0 → VGLevyMeasure_x_nu x c lm lp exp ≤ 0) ∧ (0 < x → 0 ≤ VGLevyMeasure_x_nu x c lm lp exp)
      ∧ VGLevyMeasure_x_nu 0 c lm lp exp = 0 := by
  refine ⟨fun hx => ?_, fun hx => ?_, ?_⟩
  · have h := hexp (-lm * Rpylib.Py.rabs x)
    simp only [VGLevyMeasure_x_nu]
    (try split_ifs) <;> first | (exfalso; linarith) | nlinarith [hexp (-lm * Rpylib.Py.rabs x), hexp (-(lm * Rpylib.Py.rabs x))]
  · have hx' : ¬ (x < 0) := not_lt.mpr hx.le
    simp only [VGLevyMeasure_x_nu]
    (try split_ifs) <;> first | (exfalso; linarith) | exact mul_nonneg hc (hexp _) | nlinarith [hexp (-lp * x), hexp (-(lp * x))]
  · simp only [VGLevyMeasure_x_nu]
    (try split_ifs) <;> first | (exfalso; linarith) | rfl | simp

/-! non-vacuity -/
example : vgXnTerms 3 2 5 1 (.fin (-1)) (.fin 2) = some [(-3 * (-1 / 5), -5), (-3 * -(-1 / 5), -0), (3 * (1 / 2), -0), (3 * -(1 / 2), -4)] := by
  simp [vgXnTerms, xnExpTerms, xnExpTermsWith, xnExpOneSided, xnHelper, xnSign, ExtRat.lt, ExtRat.le, negTerm, helperSum, expPartial, fact,
    Integrals.rabs, scaleTerms]
  norm_num
example : VGLevyMeasure_integrate_against_x (-1) 2 3 5 2 (fun x => x) = 3 := by
  rw [src_vg_x_straddling _ _ _ _ _ _ (by norm_num) (by norm_num), src_vg_x_neg_side _ _ _ _ _ _ (by norm_num) le_rfl,
    src_vg_x_pos_side _ _ _ _ _ _ le_rfl]
  norm_num

/-! ### 4. Merton (`_MertonLevyMeasure`)

`scipy.special.erf`, `np.exp`, `np.sqrt` are function parameters, `np.pi` is the parameter `pi_`; the tests `x == np.inf`,
`x == -np.inf` on the argument of the nested `fun_aux` are the predicate parameters `isP`, `isN : ℚ → Bool`. -/

/-- `_helper_erf_aux(mu, sigma, u)` -/
def mErf (erf sqrt : ℚ → ℚ) (mu sigma u : ℚ) : ℚ := erf ((u - mu) / (sigma * sqrt 2))

/-- the Gaussian atom `σ/√(2π) · exp(−(u − μ)²/(2σ²))` -/
def mGauss (exp sqrt : ℚ → ℚ) (pi_ mu sigma u : ℚ) : ℚ := sigma / sqrt (2 * pi_) * exp (-(u - mu) ^ 2 / (2 * sigma ^ 2))

/-- closes one branch of a Merton normal form -/
local macro "merton_branch" : tactic => `(tactic|
  first
  | contradiction
  | (exfalso; simp_all; done)
  | rfl
  | ring1
  | (ring_nf; done)
  | (field_simp; ring_nf; done)
  | (simp_all; done)
  | (simp_all; first | ring1 | (ring_nf; done) | (field_simp; ring_nf; done)))

theorem src_merton_erf_aux (erf sqrt : ℚ → ℚ) (mu sigma u : ℚ) :
    MertonLevyMeasure_helper_erf_aux mu sigma u sqrt erf = mErf erf sqrt mu sigma u := by
  simp only [MertonLevyMeasure_helper_erf_aux, mErf] <;>
  first | rfl | (congr 1; ring1) | (congr 1; ring_nf; done) | (ring_nf; done)

/-- normal form of the mass -/
theorem src_merton_mass_nf (erf sqrt : ℚ → ℚ) (mu sigma lam a b : ℚ) :
    MertonLevyMeasure_integrate a b mu sigma lam sqrt erf
      = 1 / 2 * lam * (mErf erf sqrt mu sigma b - mErf erf sqrt mu sigma a) := by
  simp only [MertonLevyMeasure_integrate, src_merton_erf_aux] <;>
  (try split_ifs) <;> merton_branch

/-- normal form of the first moment -/
theorem src_merton_x_nf (erf sqrt exp : ℚ → ℚ) (pi_ mu sigma lam a b : ℚ) :
    MertonLevyMeasure_integrate_against_x a b mu sigma lam pi_ exp sqrt erf
      = lam * ((1 / 2 * mu * mErf erf sqrt mu sigma b - mGauss exp sqrt pi_ mu sigma b)
               - (1 / 2 * mu * mErf erf sqrt mu sigma a - mGauss exp sqrt pi_ mu sigma a)) := by
  simp only [MertonLevyMeasure_integrate_against_x, src_merton_erf_aux, mGauss] <;>
  (try split_ifs) <;> merton_branch

/-- `fun_aux` of the second moment: the Gaussian term is dropped where the argument is flagged infinite -/
def mAuxXX (erf sqrt exp : ℚ → ℚ) (isP isN : ℚ → Bool) (pi_ mu sigma u : ℚ) : ℚ :=
  1 / 2 * (mu ^ 2 + sigma ^ 2) * mErf erf sqrt mu sigma u
    - (if isP u = true ∨ isN u = true then 0 else (mu + u) * mGauss exp sqrt pi_ mu sigma u)

/-- normal form of the second moment -/
theorem src_merton_xx_nf (erf sqrt exp : ℚ → ℚ) (isP isN : ℚ → Bool) (pi_ mu sigma lam a b : ℚ) :
    MertonLevyMeasure_integrate_against_xx a b mu sigma lam pi_ isP isN exp sqrt erf
      = lam * (mAuxXX erf sqrt exp isP isN pi_ mu sigma b - mAuxXX erf sqrt exp isP isN pi_ mu sigma a) := by
  simp only [MertonLevyMeasure_integrate_against_xx, src_merton_erf_aux, mGauss, mAuxXX] <;>
  (try split_ifs) <;> merton_branch

/-! #### (A) source = the model's terms -/

/-- the value of the erf atom at an extended end point: `erf(±inf) = ±1` (scipy) -/
def mErfE (E : ℚ → ℚ) : ExtRat → ℚ
  | .fin u => E u
  | .posInf => 1
  | .negInf => -1

/-- value of the model's Merton terms for arbitrary atoms `E u` (the erf atom) and `Gs u` (the Gaussian atom) -/
def evalMertonWith (E Gs : ℚ → ℚ) (t : MertonTerms) : ℚ :=
  (t.erfT.map (fun p => p.1 * mErfE E p.2)).sum + (t.gaussT.map (fun p => p.1 * Gs p.2)).sum

/-- (A) mass and first moment, finite end points: for every `erf`, `exp`, `sqrt`, `pi_` the translated closed forms are the
    model's lists `mertonTerms 0`, `mertonTerms 1` evaluated with the atoms `erf((u − μ)/(σ·sqrt 2))` and
    `σ/sqrt(2·pi_)·exp(−(u − μ)²/(2σ²))` -/
theorem src_merton_mass_eq_terms (erf sqrt exp : ℚ → ℚ) (pi_ mu sigma lam a b : ℚ) (t : MertonTerms)
    (h : mertonTerms 0 lam mu sigma (.fin a) (.fin b) = some t) :
    MertonLevyMeasure_integrate a b mu sigma lam sqrt erf
      = evalMertonWith (mErf erf sqrt mu sigma) (mGauss exp sqrt pi_ mu sigma) t := by
  simp only [mertonTerms, Nat.zero_le, if_true, Option.some.injEq] at h
  subst h
  rw [src_merton_mass_nf]
  simp only [evalMertonWith, mertonErfCoef, mertonGauss, mErfE, List.map_cons, List.map_nil, List.sum_cons, List.sum_nil,
    List.append_nil]
  ring

theorem src_merton_x_eq_terms (erf sqrt exp : ℚ → ℚ) (pi_ mu sigma lam a b : ℚ) (t : MertonTerms)
    (h : mertonTerms 1 lam mu sigma (.fin a) (.fin b) = some t) :
    MertonLevyMeasure_integrate_against_x a b mu sigma lam pi_ exp sqrt erf
      = evalMertonWith (mErf erf sqrt mu sigma) (mGauss exp sqrt pi_ mu sigma) t := by
  simp only [mertonTerms, show (1 : ℕ) ≤ 2 by norm_num, if_true, Option.some.injEq] at h
  subst h
  rw [src_merton_x_nf]
  simp only [evalMertonWith, mertonErfCoef, mertonGauss, mErfE, List.map_cons, List.map_nil, List.sum_cons, List.sum_nil,
    List.cons_append, List.nil_append]
  ring

/-- the rational `u` stands for the extended end point: finite and not flagged, or flagged infinite with the erf atom
    evaluating to `±1` there (as `scipy.special.erf(±inf)` does) -/
def ReprM (e : ExtRat) (u : ℚ) (isP isN : ℚ → Bool) (E : ℚ → ℚ) : Prop :=
  match e with
  | .fin x => u = x ∧ isP u = false ∧ isN u = false
  | .posInf => isP u = true ∧ E u = 1
  | .negInf => isN u = true ∧ E u = -1

/-- (A) second moment, every shape of end points: the Gaussian term is dropped exactly at the infinite ones -/
theorem src_merton_xx_eq_terms (erf sqrt exp : ℚ → ℚ) (isP isN : ℚ → Bool) (pi_ mu sigma lam : ℚ) (ea eb : ExtRat) (a b : ℚ)
    (t : MertonTerms) (hra : ReprM ea a isP isN (mErf erf sqrt mu sigma)) (hrb : ReprM eb b isP isN (mErf erf sqrt mu sigma))
    (h : mertonTerms 2 lam mu sigma ea eb = some t) :
    MertonLevyMeasure_integrate_against_xx a b mu sigma lam pi_ isP isN exp sqrt erf
      = evalMertonWith (mErf erf sqrt mu sigma) (mGauss exp sqrt pi_ mu sigma) t := by
  simp only [mertonTerms, le_refl, if_true, Option.some.injEq] at h
  subst h
  rw [src_merton_xx_nf]
  have close : ∀ (ea eb : ExtRat), ReprM ea a isP isN (mErf erf sqrt mu sigma) → ReprM eb b isP isN (mErf erf sqrt mu sigma) →
      lam * (mAuxXX erf sqrt exp isP isN pi_ mu sigma b - mAuxXX erf sqrt exp isP isN pi_ mu sigma a)
        = evalMertonWith (mErf erf sqrt mu sigma) (mGauss exp sqrt pi_ mu sigma)
            ⟨[(mertonErfCoef 2 lam mu sigma, eb), (-mertonErfCoef 2 lam mu sigma, ea)],
             mertonGauss 2 lam mu 1 eb ++ mertonGauss 2 lam mu (-1) ea⟩ := by
    intro ea eb hra hrb
    cases ea with
    | fin x =>
      obtain ⟨rfl, ha1, ha2⟩ := hra
      cases eb with
      | fin y =>
        obtain ⟨rfl, hb1, hb2⟩ := hrb
        simp only [evalMertonWith, mertonErfCoef, mertonGauss, mErfE, mAuxXX, List.map_cons, List.map_nil, List.sum_cons, List.sum_nil,
          List.cons_append, List.nil_append, List.append_nil, ha1, ha2, hb1, hb2, Bool.false_eq_true, or_self, if_false]
        ring
      | posInf =>
        obtain ⟨hb1, hb2⟩ := hrb
        simp only [evalMertonWith, mertonErfCoef, mertonGauss, mErfE, mAuxXX, List.map_cons, List.map_nil, List.sum_cons, List.sum_nil,
          List.cons_append, List.nil_append, List.append_nil, ha1, ha2, hb1, hb2, Bool.false_eq_true, or_self, true_or, if_false, if_true]
        ring
      | negInf =>
        obtain ⟨hb1, hb2⟩ := hrb
        simp only [evalMertonWith, mertonErfCoef, mertonGauss, mErfE, mAuxXX, List.map_cons, List.map_nil, List.sum_cons, List.sum_nil,
          List.cons_append, List.nil_append, List.append_nil, ha1, ha2, hb1, hb2, Bool.false_eq_true, or_self, or_true, if_false, if_true]
        ring
    | posInf =>
      obtain ⟨ha1, ha2⟩ := hra
      cases eb with
      | fin y =>
        obtain ⟨rfl, hb1, hb2⟩ := hrb
        simp only [evalMertonWith, mertonErfCoef, mertonGauss, mErfE, mAuxXX, List.map_cons, List.map_nil, List.sum_cons, List.sum_nil,
          List.cons_append, List.nil_append, List.append_nil, ha1, ha2, hb1, hb2, Bool.false_eq_true, or_self, true_or, if_false, if_true]
        ring
      | posInf =>
        obtain ⟨hb1, hb2⟩ := hrb
        simp only [evalMertonWith, mertonErfCoef, mertonGauss, mErfE, mAuxXX, List.map_cons, List.map_nil, List.sum_cons, List.sum_nil,
          List.cons_append, List.nil_append, List.append_nil, ha1, ha2, hb1, hb2, Bool.false_eq_true, or_self, true_or, if_false, if_true]
        ring
      | negInf =>
        obtain ⟨hb1, hb2⟩ := hrb
        simp only [evalMertonWith, mertonErfCoef, mertonGauss, mErfE, mAuxXX, List.map_cons, List.map_nil, List.sum_cons, List.sum_nil,
          List.cons_append, List.nil_append, List.append_nil, ha1, ha2, hb1, hb2, Bool.false_eq_true, or_self, true_or, or_true, if_false, if_true]
        ring
    | negInf =>
      obtain ⟨ha1, ha2⟩ := hra
      cases eb with
      | fin y =>
        obtain ⟨rfl, hb1, hb2⟩ := hrb
        simp only [evalMertonWith, mertonErfCoef, mertonGauss, mErfE, mAuxXX, List.map_cons, List.map_nil, List.sum_cons, List.sum_nil,
          List.cons_append, List.nil_append, List.append_nil, ha1, ha2, hb1, hb2, Bool.false_eq_true, or_self, or_true, if_false, if_true]
        ring
      | posInf =>
        obtain ⟨hb1, hb2⟩ := hrb
        simp only [evalMertonWith, mertonErfCoef, mertonGauss, mErfE, mAuxXX, List.map_cons, List.map_nil, List.sum_cons, List.sum_nil,
          List.cons_append, List.nil_append, List.append_nil, ha1, ha2, hb1, hb2, Bool.false_eq_true, or_self, true_or, or_true, if_false, if_true]
        ring
      | negInf =>
        obtain ⟨hb1, hb2⟩ := hrb
        simp only [evalMertonWith, mertonErfCoef, mertonGauss, mErfE, mAuxXX, List.map_cons, List.map_nil, List.sum_cons, List.sum_nil,
          List.cons_append, List.nil_append, List.append_nil, ha1, ha2, hb1, hb2, Bool.false_eq_true, or_self, or_true, if_false, if_true]
        ring
  exact close ea eb hra hrb

/-- the real instance (finite `a ≤ b`, `σ > 0`): one term list per moment `k ≤ 2`; the translated source evaluates it with its
    abstract atoms; its value with the real `erf`, `exp`, `√`, `π` is the integral of `x^k · density` — for every function `erf`
    with `erf' x = 2/√π · e^{−x²}` and the limits `±1` at `±∞` -/
theorem src_merton_real_instance_is_integral (k : ℕ) (hk : k ≤ 2) (lam mu sigma a b : ℚ) (hs : 0 < sigma) (hab : a ≤ b) :
    ∃ t, mertonTerms k lam mu sigma (.fin a) (.fin b) = some t
      ∧ (∀ (erf sqrt exp : ℚ → ℚ) (pi_ : ℚ),
          (match k with
           | 0 => MertonLevyMeasure_integrate a b mu sigma lam sqrt erf
           | 1 => MertonLevyMeasure_integrate_against_x a b mu sigma lam pi_ exp sqrt erf
           | _ => MertonLevyMeasure_integrate_against_xx a b mu sigma lam pi_ (fun _ => false) (fun _ => false) exp sqrt erf)
            = evalMertonWith (mErf erf sqrt mu sigma) (mGauss exp sqrt pi_ mu sigma) t)
      ∧ (∀ erf : ℝ → ℝ, (∀ x, HasDerivAt erf (2 / √Real.pi * Real.exp (-x ^ 2)) x) →
          Filter.Tendsto erf Filter.atTop (nhds 1) → Filter.Tendsto erf Filter.atBot (nhds (-1)) →
          evalMerton erf mu sigma t = ∫ x in eSet (.fin a) (.fin b), x ^ k * mertonDensity lam mu sigma x) := by
  have hE : ELe (.fin a) (.fin b) := (ELe_fin a b).mpr hab
  have hP : Proper (.fin a) (.fin b) := ⟨by simp, by simp⟩
  have ht : ∃ t, mertonTerms k lam mu sigma (.fin a) (.fin b) = some t := by simp [mertonTerms, hk]
  obtain ⟨t, ht⟩ := ht
  refine ⟨t, ht, fun erf sqrt exp pi_ => ?_, fun erf herf hT hB => ?_⟩
  · interval_cases k
    · exact src_merton_mass_eq_terms erf sqrt exp pi_ mu sigma lam a b t ht
    · exact src_merton_x_eq_terms erf sqrt exp pi_ mu sigma lam a b t ht
    · exact src_merton_xx_eq_terms erf sqrt exp _ _ pi_ mu sigma lam (.fin a) (.fin b) a b t ⟨rfl, rfl, rfl⟩ ⟨rfl, rfl, rfl⟩ ht
  · obtain ⟨t', ht', hint⟩ := merton_correct_ext erf herf hT hB k hk lam mu sigma hs (.fin a) (.fin b) hE hP
    rw [ht] at ht'; cases ht'; exact hint

/-! #### (B) property statements for every `erf`, `exp`, `sqrt`, `pi_` (and every pair of predicates `isP`, `isN`) -/

/-- additivity over adjacent intervals — all three moments, any three points (the closed forms are differences of one function) -/
theorem src_merton_additive (erf sqrt exp : ℚ → ℚ) (isP isN : ℚ → Bool) (pi_ mu sigma lam a b d : ℚ) :
    MertonLevyMeasure_integrate a d mu sigma lam sqrt erf
        = MertonLevyMeasure_integrate a b mu sigma lam sqrt erf + MertonLevyMeasure_integrate b d mu sigma lam sqrt erf
    ∧ MertonLevyMeasure_integrate_against_x a d mu sigma lam pi_ exp sqrt erf
        = MertonLevyMeasure_integrate_against_x a b mu sigma lam pi_ exp sqrt erf
          + MertonLevyMeasure_integrate_against_x b d mu sigma lam pi_ exp sqrt erf
    ∧ MertonLevyMeasure_integrate_against_xx a d mu sigma lam pi_ isP isN exp sqrt erf
        = MertonLevyMeasure_integrate_against_xx a b mu sigma lam pi_ isP isN exp sqrt erf
          + MertonLevyMeasure_integrate_against_xx b d mu sigma lam pi_ isP isN exp sqrt erf := by
  simp only [src_merton_mass_nf, src_merton_x_nf, src_merton_xx_nf]
  refine ⟨by ring, by ring, by ring⟩

/-- the mass is non-negative on `a ≤ b` and at most the intensity: `erf` non-decreasing with values in `[−1, 1]`,
    `σ · sqrt 2 > 0`, intensity `≥ 0` -/
theorem src_merton_mass_bounds (erf sqrt : ℚ → ℚ) (hmono : ∀ x y, x ≤ y → erf x ≤ erf y) (hrange : ∀ x, -1 ≤ erf x ∧ erf x ≤ 1)
    (mu sigma lam a b : ℚ) (hl : 0 ≤ lam) (hs : 0 < sigma * sqrt 2) (hab : a ≤ b) :
    0 ≤ MertonLevyMeasure_integrate a b mu sigma lam sqrt erf ∧ MertonLevyMeasure_integrate a b mu sigma lam sqrt erf ≤ lam := by
  rw [src_merton_mass_nf]
  have h1 : mErf erf sqrt mu sigma a ≤ mErf erf sqrt mu sigma b :=
    hmono _ _ (div_le_div_of_nonneg_right (by linarith) hs.le)
  have h2 := (hrange ((b - mu) / (sigma * sqrt 2))).2
  have h3 := (hrange ((a - mu) / (sigma * sqrt 2))).1
  simp only [mErf] at h1 ⊢
  constructor <;> nlinarith

example : ∃ erf : ℚ → ℚ, (∀ x y, x ≤ y → erf x ≤ erf y) ∧ (∀ x, -1 ≤ erf x ∧ erf x ≤ 1) :=
  ⟨fun x => max (-1) (min x 1), fun x y h => max_le_max le_rfl (min_le_min h le_rfl),
    fun x => ⟨le_max_left _ _, max_le (by norm_num) (min_le_right _ _)⟩⟩

example : mertonTerms 1 3 (1/2) 2 (.fin (-1)) (.fin 4)
    = some ⟨[(3 * (1 / 2 * (1 / 2)), .fin 4), (-(3 * (1 / 2 * (1 / 2))), .fin (-1))], [(1 * -3, 4), (-1 * -3, -1)]⟩ := by
  simp [mertonTerms, mertonErfCoef, mertonGauss]

/-! ### 5. CGMY (`_CGMYLevyMeasure`)

`np.exp`, `scipy.special.exp1`, `scipy.special.gamma` are one-argument function parameters, `scipy.special.gammaincc`,
`scipy.special.gammainc` and the real power `x ** y` (`rpow`) two-argument ones; `np.inf` as a value is the parameter `pos_inf`. -/

/-- closes one branch left by `split_ifs` -/
local macro "cgmy_branch" : tactic => `(tactic|
  first
  | contradiction
  | (exfalso; linarith)
  | (exfalso; simp_all; done)
  | rfl
  | ring1
  | (ring_nf; done)
  | (field_simp; ring_nf; done)
  | (simp_all; done)
  | (simp_all; first | ring1 | (ring_nf; done) | (field_simp; ring_nf; done)))

/-! #### the two tail atoms -/

/-- `__integrate_h_to_inf`, the closed branch (`alpha < 1`, `alpha ≠ 0`) -/
def qTail0 (exp gamma : ℚ → ℚ) (gammaincc rpow : ℚ → ℚ → ℚ) (alpha u h : ℚ) : ℚ :=
  (exp (-(u * h)) * (1 + u * h / (1 - alpha)) - rpow (u * h) alpha * (gamma (2 - alpha) * gammaincc (2 - alpha) (u * h)) / (1 - alpha))
    / (alpha * rpow h alpha)

/-- `__integrate_h_to_inf(alpha, h, u)` for `alpha < 2` as the model reads it (`cgmyTailMass`): `exp1` for `alpha = 0`, one
    recursion step for `alpha ≥ 1`, the closed branch otherwise -/
def qTailMass (exp exp1 gamma : ℚ → ℚ) (gammaincc rpow : ℚ → ℚ → ℚ) (alpha u h : ℚ) : ℚ :=
  if alpha = 0 then exp1 (u * h)
  else if 1 ≤ alpha then
    exp (-(u * h)) / (alpha * rpow h alpha)
      - u / alpha * (if alpha - 1 = 0 then exp1 (u * h) else qTail0 exp gamma gammaincc rpow (alpha - 1) u h)
  else qTail0 exp gamma gammaincc rpow alpha u h

/-- `__integrate_h_to_inf_for_xx(alpha, h, u)` (`cgmyTailXAll`): `exp1` for `alpha = 1` -/
def qTailX (exp exp1 gamma : ℚ → ℚ) (gammaincc rpow : ℚ → ℚ → ℚ) (alpha u h : ℚ) : ℚ :=
  if alpha = 1 then exp1 (u * h)
  else (rpow h (1 - alpha) * exp (-(u * h)) - rpow u (alpha - 1) * (gamma (2 - alpha) * gammaincc (2 - alpha) (u * h))) / (alpha - 1)

/-- (A) the translated `__integrate_h_to_inf` is the model's tail atom on every branch `alpha < 2` of the activity index
    (the fuel 3 of the translation suffices: one recursion step) -/
theorem src_cgmy_tail_mass (exp exp1 gamma : ℚ → ℚ) (gammaincc rpow : ℚ → ℚ → ℚ) (alpha h u : ℚ) (hα : alpha < 2) :
    CGMYLevyMeasure__integrate_h_to_inf alpha h u gammaincc exp exp1 gamma rpow
      = qTailMass exp exp1 gamma gammaincc rpow alpha u h := by
  have h1 : ¬ (1 ≤ alpha - 1) := by linarith
  simp only [CGMYLevyMeasure__integrate_h_to_inf, CGMYLevyMeasure__integrate_h_to_inf_fuel, qTailMass, qTail0] <;>
  (try split_ifs) <;> cgmy_branch

/-- (A) the translated `__integrate_h_to_inf_for_xx` is the model's first-moment tail atom -/
theorem src_cgmy_tail_x (exp exp1 gamma : ℚ → ℚ) (gammaincc rpow : ℚ → ℚ → ℚ) (alpha h u : ℚ) :
    CGMYLevyMeasure__integrate_h_to_inf_for_xx alpha h u gammaincc exp exp1 gamma rpow
      = qTailX exp exp1 gamma gammaincc rpow alpha u h := by
  simp only [CGMYLevyMeasure__integrate_h_to_inf_for_xx, qTailX] <;>
  (try split_ifs) <;> cgmy_branch

/-! #### mass, first moment, straddling second moment: normal forms -/

/-- the mass tail atom as the source calls it: `T(h; rate) = __integrate_h_to_inf(alpha = y, h, u = rate)` -/
abbrev cgT (exp exp1 gamma : ℚ → ℚ) (gammaincc rpow : ℚ → ℚ → ℚ) (y rate h : ℚ) : ℚ :=
  CGMYLevyMeasure__integrate_h_to_inf y h rate gammaincc exp exp1 gamma rpow

/-- the first-moment tail atom: `Tx(h; rate) = __integrate_h_to_inf_for_xx(alpha = y, h, u = rate)` -/
abbrev cgTx (exp exp1 gamma : ℚ → ℚ) (gammaincc rpow : ℚ → ℚ → ℚ) (y rate h : ℚ) : ℚ :=
  CGMYLevyMeasure__integrate_h_to_inf_for_xx y h rate gammaincc exp exp1 gamma rpow

/-- normal form of the mass: the infinite-end cases first, then the two one-sided differences of tails, then (across or
    touching zero) `np.inf` for `y > 0` -/
theorem src_cgmy_mass_nf (exp exp1 gamma : ℚ → ℚ) (gammaincc rpow : ℚ → ℚ → ℚ) (c g m y pos_inf a b : ℚ) (faN fbP faP fbN : Bool) :
    CGMYLevyMeasure_integrate a b c g m y faN fbP faP fbN pos_inf gammaincc exp exp1 gamma rpow
      = if fbP = true then (if faP = true then 0 else c * cgT exp exp1 gamma gammaincc rpow y m a)
        else if faN = true then (if fbN = true then 0 else c * cgT exp exp1 gamma gammaincc rpow y g (-b))
        else if 0 ≤ a ∧ 0 < b then c * cgT exp exp1 gamma gammaincc rpow y m a - c * cgT exp exp1 gamma gammaincc rpow y m b
        else if a < 0 ∧ b ≤ 0 then c * cgT exp exp1 gamma gammaincc rpow y g (-b) - c * cgT exp exp1 gamma gammaincc rpow y g (-a)
        else if 0 < y then pos_inf
        else CGMYLevyMeasure__integrate_levy_measure_a_to_b a b c g m y pos_inf gammaincc exp exp1 gamma rpow := by
  simp only [CGMYLevyMeasure_integrate, CGMYLevyMeasure__integrate_levy_measure_a_to_b,
    CGMYLevyMeasure__integrate_levy_measure_a_to_b_fuel, CGMYLevyMeasure__integrate_levy_measure_a_to_inf,
    CGMYLevyMeasure__integrate_levy_measure_inf_to_b, cgT] <;>
  (try split_ifs) <;> cgmy_branch

/-- normal form of the first moment on one side of zero -/
theorem src_cgmy_x_one_sided (exp exp1 gamma : ℚ → ℚ) (gammaincc rpow : ℚ → ℚ → ℚ) (c g m y a b : ℚ) (fa fb : Bool)
    (h : ¬ (a < 0 ∧ 0 < b)) :
    CGMYLevyMeasure_integrate_against_x a b c g m y fa fb gammaincc exp exp1 gamma rpow
      = if 0 ≤ a then
          (if fb = true then c * cgTx exp exp1 gamma gammaincc rpow y m a
           else c * (cgTx exp exp1 gamma gammaincc rpow y m a - cgTx exp exp1 gamma gammaincc rpow y m b))
        else
          (if fa = true then -c * cgTx exp exp1 gamma gammaincc rpow y g (-b)
           else c * (cgTx exp exp1 gamma gammaincc rpow y g (-a) - cgTx exp exp1 gamma gammaincc rpow y g (-b))) := by
  have hb : ¬ (0 ≤ a) → b ≤ 0 := fun ha => not_lt.mp (fun hb => h ⟨not_le.mp ha, hb⟩)
  simp only [CGMYLevyMeasure_integrate_against_x, CGMYLevyMeasure_integrate_against_x_fuel, cgTx] <;>
  (try split_ifs) <;> first | (exfalso; linarith [hb ‹_›]) | cgmy_branch

/-- … and across zero: the sum of the two one-sided values -/
theorem src_cgmy_x_straddling (exp exp1 gamma : ℚ → ℚ) (gammaincc rpow : ℚ → ℚ → ℚ) (c g m y a b : ℚ) (fa fb : Bool)
    (ha : a < 0) (hb : 0 < b) :
    CGMYLevyMeasure_integrate_against_x a b c g m y fa fb gammaincc exp exp1 gamma rpow
      = CGMYLevyMeasure_integrate_against_x a 0 c g m y fa false gammaincc exp exp1 gamma rpow
        + CGMYLevyMeasure_integrate_against_x 0 b c g m y false fb gammaincc exp exp1 gamma rpow := by
  rw [src_cgmy_x_one_sided exp exp1 gamma gammaincc rpow c g m y a 0 fa false (fun h => lt_irrefl _ h.2),
    src_cgmy_x_one_sided exp exp1 gamma gammaincc rpow c g m y 0 b false fb (fun h => lt_irrefl _ h.1)]
  have ha' : ¬ (0 ≤ a) := not_le.mpr ha
  have hb' : ¬ (b ≤ 0) := not_le.mpr hb
  have h00 : ¬ ((0 : ℚ) < 0) := lt_irrefl _
  simp only [CGMYLevyMeasure_integrate_against_x, CGMYLevyMeasure_integrate_against_x_fuel, cgTx] <;>
  (try split_ifs) <;> cgmy_branch

/-- one side of the straddling second moment: `c·h^s/s` un-tempered, `c·Γ(s)·gammainc(s, rate·h)/rate^s` otherwise -/
def qXXSide (gamma : ℚ → ℚ) (gammainc rpow : ℚ → ℚ → ℚ) (c s rate h : ℚ) : ℚ :=
  if rate = 0 then c * rpow h s / s else c * gamma s * gammainc s (rate * h) / rpow rate s

/-- normal form of the straddling second moment (`a < 0 < b`) -/
theorem src_cgmy_xx_straddling_nf (gamma : ℚ → ℚ) (gammainc rpow : ℚ → ℚ → ℚ) (c g m y a b : ℚ) (ha : a < 0) :
    CGMYLevyMeasure_integrate_against_xx_straddling a b c g m y gammainc gamma rpow
      = qXXSide gamma gammainc rpow c (2 - y) m b + qXXSide gamma gammainc rpow c (2 - y) g (-a) := by
  have r : Rpylib.Py.rabs a = -a := rabs_of_nonpos ha.le
  simp only [CGMYLevyMeasure_integrate_against_xx_straddling, qXXSide, r] <;>
  (try split_ifs) <;> cgmy_branch

/-! #### (A) source = the model's terms -/

/-- value of a model atom for arbitrary interpretations of the four kinds of atoms -/
def cgAtomWith (tm tx : ℚ → ℚ → ℚ → ℚ) (lg : ℚ → ℚ → ExtRat → ℚ) (pw : ℚ → ℚ → ℚ) : CgmyAtom → ℚ
  | .tailMass al u h => tm al u h
  | .tailX al u h => tx al u h
  | .lowGam s r h => lg s r h
  | .pow s h => pw s h

def evalCgmyWith (tm tx : ℚ → ℚ → ℚ → ℚ) (lg : ℚ → ℚ → ExtRat → ℚ) (pw : ℚ → ℚ → ℚ) (t : CgmyTerms) : ℚ :=
  (t.map (fun p => p.1 * cgAtomWith tm tx lg pw p.2)).sum

/-- the atoms as the translated source computes them -/
def srcTm (exp exp1 gamma : ℚ → ℚ) (gammaincc rpow : ℚ → ℚ → ℚ) : ℚ → ℚ → ℚ → ℚ :=
  fun al u h => CGMYLevyMeasure__integrate_h_to_inf al h u gammaincc exp exp1 gamma rpow
def srcTx (exp exp1 gamma : ℚ → ℚ) (gammaincc rpow : ℚ → ℚ → ℚ) : ℚ → ℚ → ℚ → ℚ :=
  fun al u h => CGMYLevyMeasure__integrate_h_to_inf_for_xx al h u gammaincc exp exp1 gamma rpow
/-- `gamma(s)·gammainc(s, rate·h)/rate^s` at a finite `h` (the translated block has no infinite end points) -/
def srcLg (gamma : ℚ → ℚ) (gammainc rpow : ℚ → ℚ → ℚ) : ℚ → ℚ → ExtRat → ℚ
  | s, r, .fin h => gamma s * gammainc s (r * h) / rpow r s
  | _, _, _ => 0
def srcPw (rpow : ℚ → ℚ → ℚ) : ℚ → ℚ → ℚ := fun s h => rpow h s / s

/-- (A) mass: for every interpretation of the special functions the translated `integrate` is `Σ ±c · T` over the model's list
    `cgmyMassTerms` (intervals on one side of zero and away from it, infinite end points included) -/
theorem src_cgmy_mass_eq_terms (exp exp1 gamma : ℚ → ℚ) (gammaincc gammainc rpow : ℚ → ℚ → ℚ) (c g m y pos_inf : ℚ)
    (ea eb : ExtRat) (a b : ℚ) (faN fbP faP fbN : Bool) (ts : CgmyTerms)
    (hra : ReprA4 ea a faN faP) (hrb : ReprB4 eb b fbP fbN) (h : cgmyMassTerms c g m y ea eb = some ts) :
    CGMYLevyMeasure_integrate a b c g m y faN fbP faP fbN pos_inf gammaincc exp exp1 gamma rpow
      = evalCgmyWith (srcTm exp exp1 gamma gammaincc rpow) (srcTx exp exp1 gamma gammaincc rpow) (srcLg gamma gammainc rpow) (srcPw rpow) ts := by
  rw [src_cgmy_mass_nf]
  cases ea with
  | fin x =>
    obtain ⟨rfl, ha1, ha2⟩ := hra
    cases eb with
    | fin z =>
      obtain ⟨rfl, hb1, hb2⟩ := hrb
      simp only [cgmyMassTerms] at h
      split_ifs at h with h1 h2
      · cases h
        simp only [ha1, ha2, hb1, hb2, Bool.false_eq_true, if_false, h1.1.le, h1.2, and_self, if_true, evalCgmyWith, cgAtomWith,
          srcTm, cgT, List.map_cons, List.map_nil, List.sum_cons, List.sum_nil]
        ring
      · cases h
        have h3 : ¬ (0 ≤ a ∧ 0 < b) := fun hh => absurd hh.1 (not_le.mpr h2.1)
        simp only [ha1, ha2, hb1, hb2, Bool.false_eq_true, if_false, h3, h2.1, h2.2.le, and_self, if_true, evalCgmyWith, cgAtomWith,
          srcTm, cgT, List.map_cons, List.map_nil, List.sum_cons, List.sum_nil]
        ring
    | posInf =>
      obtain ⟨hb1, hb2⟩ := hrb
      simp only [cgmyMassTerms] at h
      split_ifs at h with h1
      cases h
      simp only [ha1, ha2, hb1, hb2, Bool.false_eq_true, if_false, if_true, evalCgmyWith, cgAtomWith,
        srcTm, cgT, List.map_cons, List.map_nil, List.sum_cons, List.sum_nil]
      ring
    | negInf => simp [cgmyMassTerms] at h
  | posInf =>
    obtain ⟨ha1, ha2⟩ := hra
    cases eb with
    | fin z => simp [cgmyMassTerms] at h
    | posInf =>
      obtain ⟨hb1, hb2⟩ := hrb
      simp only [cgmyMassTerms, Option.some.injEq] at h
      subst h
      simp only [ha1, ha2, hb1, hb2, if_true, evalCgmyWith, List.map_nil, List.sum_nil]
    | negInf => simp [cgmyMassTerms] at h
  | negInf =>
    obtain ⟨ha1, ha2⟩ := hra
    cases eb with
    | fin z =>
      obtain ⟨rfl, hb1, hb2⟩ := hrb
      simp only [cgmyMassTerms] at h
      split_ifs at h with h1
      cases h
      simp only [ha1, ha2, hb1, hb2, Bool.false_eq_true, if_false, if_true, evalCgmyWith, cgAtomWith,
        srcTm, cgT, List.map_cons, List.map_nil, List.sum_cons, List.sum_nil]
      ring
    | posInf => simp [cgmyMassTerms] at h
    | negInf =>
      obtain ⟨hb1, hb2⟩ := hrb
      simp only [cgmyMassTerms, Option.some.injEq] at h
      subst h
      simp only [ha1, ha2, hb1, hb2, Bool.false_eq_true, if_false, if_true, evalCgmyWith, List.map_nil, List.sum_nil]

/-- (A) first moment on one side of zero and away from it, infinite end points included -/
theorem src_cgmy_x_eq_terms (exp exp1 gamma : ℚ → ℚ) (gammaincc gammainc rpow : ℚ → ℚ → ℚ) (c g m y : ℚ)
    (ea eb : ExtRat) (a b : ℚ) (fa fb : Bool) (ts : CgmyTerms)
    (hra : ReprA ea a fa) (hrb : ReprB eb b fb) (h : cgmyXTerms c g m y ea eb = some ts) :
    CGMYLevyMeasure_integrate_against_x a b c g m y fa fb gammaincc exp exp1 gamma rpow
      = evalCgmyWith (srcTm exp exp1 gamma gammaincc rpow) (srcTx exp exp1 gamma gammaincc rpow) (srcLg gamma gammainc rpow) (srcPw rpow) ts := by
  cases ea with
  | fin x =>
    obtain ⟨rfl, ha1⟩ := hra
    cases eb with
    | fin z =>
      obtain ⟨rfl, hb1⟩ := hrb
      simp only [cgmyXTerms] at h
      split_ifs at h with h1 h2
      · cases h
        rw [src_cgmy_x_one_sided _ _ _ _ _ _ _ _ _ _ _ _ _ (fun hh => absurd hh.1 (not_lt.mpr h1.le))]
        simp only [ha1, hb1, h1.le, if_true, Bool.false_eq_true, if_false, evalCgmyWith, cgAtomWith, srcTx, cgTx, List.map_cons,
          List.map_nil, List.sum_cons, List.sum_nil]
        ring
      · cases h
        rw [src_cgmy_x_one_sided _ _ _ _ _ _ _ _ _ _ _ _ _ (fun hh => absurd hh.2 (not_lt.mpr h2.2.le))]
        simp only [ha1, hb1, not_le.mpr h2.1, if_true, Bool.false_eq_true, if_false, evalCgmyWith, cgAtomWith, srcTx, cgTx, List.map_cons,
          List.map_nil, List.sum_cons, List.sum_nil]
        ring
    | posInf =>
      obtain ⟨hb0, hb1⟩ := hrb
      simp only [cgmyXTerms] at h
      split_ifs at h with h1
      cases h
      rw [src_cgmy_x_one_sided _ _ _ _ _ _ _ _ _ _ _ _ _ (fun hh => absurd hh.1 (not_lt.mpr h1.le))]
      simp only [ha1, hb1, h1.le, if_true, evalCgmyWith, cgAtomWith, srcTx, cgTx, List.map_cons, List.map_nil, List.sum_cons, List.sum_nil]
      ring
    | negInf => exact hrb.elim
  | posInf => exact hra.elim
  | negInf =>
    obtain ⟨ha0, ha1⟩ := hra
    cases eb with
    | fin z =>
      obtain ⟨rfl, hb1⟩ := hrb
      simp only [cgmyXTerms] at h
      split_ifs at h with h1
      cases h
      rw [src_cgmy_x_one_sided _ _ _ _ _ _ _ _ _ _ _ _ _ (fun hh => absurd hh.2 (not_lt.mpr h1.le))]
      simp only [ha1, hb1, not_le.mpr ha0, if_true, if_false, evalCgmyWith, cgAtomWith, srcTx, cgTx, List.map_cons, List.map_nil,
        List.sum_cons, List.sum_nil]
      ring
    | posInf => simp [cgmyXTerms] at h
    | negInf => exact hrb.elim

/-- (A) second moment across zero (finite `a < 0 < b`; tempered and un-tempered sides) -/
theorem src_cgmy_xx_eq_terms (exp exp1 gamma : ℚ → ℚ) (gammaincc gammainc rpow : ℚ → ℚ → ℚ) (c g m y a b : ℚ) (ts : CgmyTerms)
    (ha : a < 0) (hb : 0 < b) (h : cgmyXXTerms c g m y (.fin a) (.fin b) = some ts) :
    CGMYLevyMeasure_integrate_against_xx_straddling a b c g m y gammainc gamma rpow
      = evalCgmyWith (srcTm exp exp1 gamma gammaincc rpow) (srcTx exp exp1 gamma gammaincc rpow) (srcLg gamma gammainc rpow) (srcPw rpow) ts := by
  rw [src_cgmy_xx_straddling_nf gamma gammainc rpow c g m y a b ha]
  simp only [cgmyXXTerms, ExtRat.lt, ha, hb, decide_true, Bool.and_self, if_true, ExtRat.neg, cgmyXXSide] at h
  by_cases hm : m = 0 <;> by_cases hg : g = 0 <;> simp only [hm, hg, if_true, if_false, Option.some.injEq] at h <;> subst h <;>
    simp only [qXXSide, evalCgmyWith, cgAtomWith, srcLg, srcPw, List.map_cons, List.map_nil, List.sum_cons, List.sum_nil, hm, hg,
      if_true, if_false] <;> ring

/-! #### (B) property statements for every interpretation of the special functions -/

/-- across zero (or touching it from one side only) with infinite activity `y > 0` the mass is `np.inf`: the integral is not
    finite there, the property makes no further claim -/
theorem src_cgmy_mass_across_zero_is_inf (exp exp1 gamma : ℚ → ℚ) (gammaincc rpow : ℚ → ℚ → ℚ) (c g m y pos_inf a b : ℚ)
    (ha : a < 0) (hb : 0 < b) (hy : 0 < y) :
    CGMYLevyMeasure_integrate a b c g m y false false false false pos_inf gammaincc exp exp1 gamma rpow = pos_inf := by
  rw [src_cgmy_mass_nf]
  have h1 : ¬ (0 ≤ a ∧ 0 < b) := fun h => absurd h.1 (not_le.mpr ha)
  have h2 : ¬ (a < 0 ∧ b ≤ 0) := fun h => absurd h.2 (not_le.mpr hb)
  simp only [Bool.false_eq_true, if_false, h1, h2, hy, if_true]

/-- additivity of the mass over adjacent intervals on the positive side, and its decomposition into tails -/
theorem src_cgmy_mass_additive_pos (exp exp1 gamma : ℚ → ℚ) (gammaincc rpow : ℚ → ℚ → ℚ) (c g m y pos_inf a b d b' : ℚ)
    (ha : 0 < a) (hb : 0 < b) (hd : 0 < d) :
    CGMYLevyMeasure_integrate a d c g m y false false false false pos_inf gammaincc exp exp1 gamma rpow
      = CGMYLevyMeasure_integrate a b c g m y false false false false pos_inf gammaincc exp exp1 gamma rpow
        + CGMYLevyMeasure_integrate b d c g m y false false false false pos_inf gammaincc exp exp1 gamma rpow
    ∧ CGMYLevyMeasure_integrate a b c g m y false false false false pos_inf gammaincc exp exp1 gamma rpow
      = CGMYLevyMeasure_integrate a b' c g m y false true false false pos_inf gammaincc exp exp1 gamma rpow
        - CGMYLevyMeasure_integrate b b' c g m y false true false false pos_inf gammaincc exp exp1 gamma rpow := by
  simp only [src_cgmy_mass_nf, Bool.false_eq_true, if_false, if_true, ha.le, hb.le, ha, hb, hd, and_self]
  constructor <;> first | trivial | rfl | ring1

/-- … and on the negative side -/
theorem src_cgmy_mass_additive_neg (exp exp1 gamma : ℚ → ℚ) (gammaincc rpow : ℚ → ℚ → ℚ) (c g m y pos_inf a b d a' : ℚ)
    (ha : a < 0) (hb : b < 0) (hd : d < 0) :
    CGMYLevyMeasure_integrate a d c g m y false false false false pos_inf gammaincc exp exp1 gamma rpow
      = CGMYLevyMeasure_integrate a b c g m y false false false false pos_inf gammaincc exp exp1 gamma rpow
        + CGMYLevyMeasure_integrate b d c g m y false false false false pos_inf gammaincc exp exp1 gamma rpow
    ∧ CGMYLevyMeasure_integrate a b c g m y false false false false pos_inf gammaincc exp exp1 gamma rpow
      = CGMYLevyMeasure_integrate a' b c g m y true false false false pos_inf gammaincc exp exp1 gamma rpow
        - CGMYLevyMeasure_integrate a' a c g m y true false false false pos_inf gammaincc exp exp1 gamma rpow := by
  have h1 : ¬ (0 ≤ a) := not_le.mpr ha
  have h2 : ¬ (0 ≤ b) := not_le.mpr hb
  simp only [src_cgmy_mass_nf, Bool.false_eq_true, if_false, if_true, h1, h2, false_and, ha, hb, hb.le, hd.le, and_self]
  constructor <;> first | trivial | rfl | ring1

/-- the antiderivative of the first moment: `c·(Tx(0; rate) − Tx(|u|; rate))`, rate `m` on `u ≥ 0`, `g` on `u < 0` -/
def cgPhiX (exp exp1 gamma : ℚ → ℚ) (gammaincc rpow : ℚ → ℚ → ℚ) (c g m y u : ℚ) : ℚ :=
  if 0 ≤ u then c * (cgTx exp exp1 gamma gammaincc rpow y m 0 - cgTx exp exp1 gamma gammaincc rpow y m u)
  else c * (cgTx exp exp1 gamma gammaincc rpow y g 0 - cgTx exp exp1 gamma gammaincc rpow y g (-u))

theorem src_cgmy_x_eq_Phi_diff (exp exp1 gamma : ℚ → ℚ) (gammaincc rpow : ℚ → ℚ → ℚ) (c g m y a b : ℚ) (hab : a ≤ b) :
    CGMYLevyMeasure_integrate_against_x a b c g m y false false gammaincc exp exp1 gamma rpow
      = cgPhiX exp exp1 gamma gammaincc rpow c g m y b - cgPhiX exp exp1 gamma gammaincc rpow c g m y a := by
  by_cases hs : a < 0 ∧ 0 < b
  · rw [src_cgmy_x_straddling _ _ _ _ _ _ _ _ _ _ _ _ _ hs.1 hs.2,
      src_cgmy_x_one_sided _ _ _ _ _ _ _ _ _ _ _ _ _ (fun h => lt_irrefl _ h.2),
      src_cgmy_x_one_sided _ _ _ _ _ _ _ _ _ _ _ _ _ (fun h => lt_irrefl _ h.1)]
    simp only [cgPhiX, not_le.mpr hs.1, hs.2.le, le_refl, if_true, if_false, Bool.false_eq_true, neg_zero]; ring
  · rw [src_cgmy_x_one_sided _ _ _ _ _ _ _ _ _ _ _ _ _ hs]
    by_cases ha : 0 ≤ a
    · simp only [cgPhiX, ha, ha.trans hab, if_true, Bool.false_eq_true, if_false]; ring
    · have hb : b ≤ 0 := not_lt.mp (fun h => hs ⟨not_le.mp ha, h⟩)
      rcases hb.lt_or_eq with hb | hb
      · simp only [cgPhiX, ha, not_le.mpr hb, if_false, Bool.false_eq_true]; ring
      · subst hb; simp only [cgPhiX, ha, le_refl, if_true, if_false, Bool.false_eq_true, neg_zero]; ring

/-- additivity of the first moment over adjacent intervals, wherever they lie -/
theorem src_cgmy_x_additive (exp exp1 gamma : ℚ → ℚ) (gammaincc rpow : ℚ → ℚ → ℚ) (c g m y a b d : ℚ) (hab : a ≤ b) (hbd : b ≤ d) :
    CGMYLevyMeasure_integrate_against_x a d c g m y false false gammaincc exp exp1 gamma rpow
      = CGMYLevyMeasure_integrate_against_x a b c g m y false false gammaincc exp exp1 gamma rpow
        + CGMYLevyMeasure_integrate_against_x b d c g m y false false gammaincc exp exp1 gamma rpow := by
  rw [src_cgmy_x_eq_Phi_diff _ _ _ _ _ _ _ _ _ _ _ (hab.trans hbd), src_cgmy_x_eq_Phi_diff _ _ _ _ _ _ _ _ _ _ _ hab,
    src_cgmy_x_eq_Phi_diff _ _ _ _ _ _ _ _ _ _ _ hbd]
  ring

/-- the straddling second moment splits at zero into a function of `b` plus a function of `−a`: additive in both end points -/
theorem src_cgmy_xx_straddling_additive (gamma : ℚ → ℚ) (gammainc rpow : ℚ → ℚ → ℚ) (c g m y a a' b b' : ℚ)
    (ha : a < 0) (ha' : a' < 0) :
    CGMYLevyMeasure_integrate_against_xx_straddling a b c g m y gammainc gamma rpow
      + CGMYLevyMeasure_integrate_against_xx_straddling a' b' c g m y gammainc gamma rpow
      = CGMYLevyMeasure_integrate_against_xx_straddling a b' c g m y gammainc gamma rpow
        + CGMYLevyMeasure_integrate_against_xx_straddling a' b c g m y gammainc gamma rpow := by
  simp only [src_cgmy_xx_straddling_nf _ _ _ _ _ _ _ _ _ ha, src_cgmy_xx_straddling_nf _ _ _ _ _ _ _ _ _ ha']
  ring

/-! #### the real instances (the analysis is Proofs/C09.lean's: derivative and limit hypotheses on `E1`, `Γ(2 − a, ·)`, `γ(s, ·)`) -/

open Filter Topology in
theorem src_cgmy_real_instance_is_integral (E1 : ℝ → ℝ) (Gam gl : ℝ → ℝ → ℝ) (GamC : ℝ → ℝ)
    (hE1 : ∀ x, 0 < x → HasDerivAt E1 (-Real.exp (-x) / x) x)
    (hG : ∀ a z, 0 < z → HasDerivAt (Gam a) (-(z ^ (1 - a) * Real.exp (-z))) z)
    (hE1lim : Tendsto E1 atTop (𝓝 0)) (hGlim : ∀ a, Tendsto (Gam a) atTop (𝓝 0))
    (c g m y : ℚ) (hc : 0 ≤ c) (hg : 0 < g) (hm : 0 < m) (hy : y < 2) (ea eb : ExtRat)
    (hab : ELe ea eb) (hpr : Proper ea eb) (hz : AwayFromZero ea eb) :
    (∃ ts, cgmyMassTerms c g m y ea eb = some ts
      ∧ (∀ (exp exp1 gamma : ℚ → ℚ) (gammaincc gammainc rpow : ℚ → ℚ → ℚ) (pos_inf a b : ℚ) (faN fbP faP fbN : Bool),
          ReprA4 ea a faN faP → ReprB4 eb b fbP fbN →
          CGMYLevyMeasure_integrate a b c g m y faN fbP faP fbN pos_inf gammaincc exp exp1 gamma rpow
            = evalCgmyWith (srcTm exp exp1 gamma gammaincc rpow) (srcTx exp exp1 gamma gammaincc rpow) (srcLg gamma gammainc rpow)
                (srcPw rpow) ts)
      ∧ evalCgmyTerms E1 Gam gl GamC ts = ∫ x in eSet ea eb, cgmyDensity c g m y x)
    ∧ (∃ ts, cgmyXTerms c g m y ea eb = some ts
      ∧ (∀ (exp exp1 gamma : ℚ → ℚ) (gammaincc gammainc rpow : ℚ → ℚ → ℚ) (a b : ℚ) (fa fb : Bool),
          ReprA ea a fa → ReprB eb b fb →
          CGMYLevyMeasure_integrate_against_x a b c g m y fa fb gammaincc exp exp1 gamma rpow
            = evalCgmyWith (srcTm exp exp1 gamma gammaincc rpow) (srcTx exp exp1 gamma gammaincc rpow) (srcLg gamma gammainc rpow)
                (srcPw rpow) ts)
      ∧ evalCgmyTerms E1 Gam gl GamC ts = ∫ x in eSet ea eb, x ^ 1 * cgmyDensity c g m y x) := by
  constructor
  · obtain ⟨ts, hts, hint⟩ := cgmy_mass_correct_ext E1 Gam gl GamC hE1 hG hE1lim hGlim c g m y hc hg hm hy ea eb hab hpr hz
    exact ⟨ts, hts, fun exp exp1 gamma gammaincc gammainc rpow pos_inf a b faN fbP faP fbN hra hrb =>
      src_cgmy_mass_eq_terms exp exp1 gamma gammaincc gammainc rpow c g m y pos_inf ea eb a b faN fbP faP fbN ts hra hrb hts, hint⟩
  · obtain ⟨ts, hts, hint⟩ := cgmy_x_correct_ext E1 Gam gl GamC hE1 hG hE1lim hGlim c g m y hc hg hm ea eb hab hpr hz
    exact ⟨ts, hts, fun exp exp1 gamma gammaincc gammainc rpow a b fa fb hra hrb =>
      src_cgmy_x_eq_terms exp exp1 gamma gammaincc gammainc rpow c g m y ea eb a b fa fb ts hra hrb hts, hint⟩

theorem src_cgmy_xx_real_instance_is_integral (E1 : ℝ → ℝ) (Gam gl : ℝ → ℝ → ℝ) (GamC : ℝ → ℝ)
    (hgl : ∀ s, 0 < s → ∀ z, 0 < z → HasDerivAt (gl s) (z ^ (s - 1) * Real.exp (-z)) z)
    (hgl0 : ∀ s, 0 < s → gl s 0 = 0) (hglc : ∀ s, 0 < s → ContinuousWithinAt (gl s) (Set.Ici 0) 0)
    (c g m y : ℚ) (hg : 0 ≤ g) (hm : 0 ≤ m) (hy : y < 2) (a b : ℚ) (ha : a < 0) (hb : 0 < b) :
    ∃ ts, cgmyXXTerms c g m y (.fin a) (.fin b) = some ts
      ∧ (∀ (exp exp1 gamma : ℚ → ℚ) (gammaincc gammainc rpow : ℚ → ℚ → ℚ),
          CGMYLevyMeasure_integrate_against_xx_straddling a b c g m y gammainc gamma rpow
            = evalCgmyWith (srcTm exp exp1 gamma gammaincc rpow) (srcTx exp exp1 gamma gammaincc rpow) (srcLg gamma gammainc rpow)
                (srcPw rpow) ts)
      ∧ evalCgmyTerms E1 Gam gl GamC ts = ∫ x in (a : ℝ)..(b : ℝ), x ^ 2 * cgmyDensity c g m y x := by
  obtain ⟨ts, hts, hint⟩ := cgmy_xx_correct E1 Gam gl GamC hgl hgl0 hglc c g m y hg hm hy a b ha hb
  exact ⟨ts, hts, fun exp exp1 gamma gammaincc gammainc rpow =>
    src_cgmy_xx_eq_terms exp exp1 gamma gammaincc gammainc rpow c g m y a b ts ha hb hts, hint⟩

/-! non-vacuity -/
example : ReprA4 (.fin 2) 2 false false ∧ ReprB4 .posInf 7 true false := ⟨⟨rfl, rfl, rfl⟩, rfl, rfl⟩
example : cgmyMassTerms 3 2 5 (1/2) (.fin 1) (.fin 4) = some [(3, .tailMass (1/2) 5 1), (-3, .tailMass (1/2) 5 4)] := by
  simp [cgmyMassTerms]
example : cgmyXXTerms 3 0 5 (1/2) (.fin (-1)) (.fin 4) = some [(3, .lowGam (3/2) 5 (.fin 4)), (3, .pow (3/2) 1)] := by
  simp [cgmyXXTerms, cgmyXXSide, ExtRat.lt, ExtRat.neg]; norm_num
example : qTailMass (fun _ => 1) (fun x => x) (fun _ => 1) (fun _ _ => 1) (fun x _ => x) (3/2) 2 3 = -2/3 := by
  simp [qTailMass, qTail0]; norm_num

/-! ### non-vacuity of the functional hypotheses used above (each is satisfied by a concrete rational function) -/

/-- `exp ≥ 0` and `exp` non-decreasing (`src_xn_tail_nonneg`, `src_xn_left_tail_sign`, `src_vg_x_sign`, `src_vg_xx_tail_nonneg`, …) -/
example : ∃ exp : ℚ → ℚ, (∀ x, 0 ≤ exp x) ∧ (∀ x y, x ≤ y → exp x ≤ exp y) :=
  ⟨fun x => max x 0, fun x => le_max_right _ _, fun x y h => max_le_max h le_rfl⟩

/-- the end-point representations: a finite point, `−inf` (any negative rational with its flag), `+inf` -/
example : ReprA (.fin (-3)) (-3) false ∧ ReprA .negInf (-1) true ∧ ReprB (.fin 2) 2 false ∧ ReprB .posInf 5 true :=
  ⟨⟨rfl, rfl⟩, ⟨by norm_num, rfl⟩, ⟨rfl, rfl⟩, ⟨by norm_num, rfl⟩⟩

/-- `ReprM`: an erf atom that evaluates to `1` at the rational standing for `+inf` -/
example : ReprM .posInf 9 (fun u => decide (u = 9)) (fun _ => false) (mErf (fun z => if z = 4 then 1 else 0) (fun _ => 1) 1 2) := by
  refine ⟨by simp, ?_⟩
  simp only [mErf]; norm_num

/-- the theorems instantiated on numbers: additivity of `integral_xn_exp_minus_x` with `exp := id` -/
example : integral_xn_exp_minus_x 2 (-1) 3 2 false false (fun x => x)
    = integral_xn_exp_minus_x 2 (-1) (1/2) 2 false false (fun x => x) + integral_xn_exp_minus_x 2 (1/2) 3 2 false false (fun x => x) :=
  src_xn_additive (fun x => x) 2 2 (-1) (1/2) 3 (by norm_num) (by norm_num) (by norm_num)

end Rpylib.SrcTie.C09b
