/-
C15 — alignment of the translated path builders (RpylibModel/Generated/SrcC15.lean) with the hand-written model
(RpylibModel/Model/Path.lean): "translated source = model", function by function.  This demands more than the property:
the model mirrors the code *faults included* (per-interval jump values at fixed dates, DESIGN §3.1 #17; the cap applied
before the maturity is appended, #18), and the equalities below are syntactic in places the property does not constrain.
Losing this file is recorded (`alignment lost`), never a violation.
-/
import RpylibModel.ProofsGen.SrcC15

set_option linter.unusedSimpArgs false
set_option linter.unusedVariables false

namespace Rpylib.SrcTie.C15
open Rpylib.Src.C15 Rpylib.Path

/-- a model path as the triple of the constructor's arguments -/
def ofPath (P : PathOut) : (List Rat) × (List Rat) × (List Rat) := (P.times, P.diff, P.jumps)

/-- diffusion = the model's `cumsum w` with `w` the scaled normals -/
theorem src_diffusion_eq_model (s z : List Rat) :
    simulate_diffusion_with_brownian_increments s z = cumsum (List.zipWith (· * ·) s z) := by
  simp only [simulate_diffusion_with_brownian_increments, pyCumsum_eq] <;>
  first
  | rfl
  | (congr 1; rw [List.zipWith_comm]; congr 1; funext a b; ring1)

/-- fixed dates, direct simulation = `fixedDatesCode` (the jump value of date k is the sum over interval k only) -/
theorem src_fixed_dates_eq_model (dates sq w : List Rat) (pop : List Int → List Int) (ji : List Int → Int → List Rat) :
    SimulationFixedTimes_simulate_one_path dates sq (fun _ => SimulationFixedTimes_simulate_jumps pop ji) (fun _ _ => cumsum w) triple
      = ofPath (fixedDatesCode dates ((enumI 0 (pop [0])).map (fun q => ji [0, q.1] q.2)) w) := by
  rw [src_fixed_dates_path]
  simp only [src_fixed_jumps_eval, triple, ofPath, fixedDatesCode, List.map_map, Function.comp_def]

/-- fixed dates, CTMC: `project` of the per-interval cumulative values = the jump component of `fixedDatesCtmc` -/
theorem src_project_eq_model (dates w : List Rat) (incs : List (List Rat)) :
    0 :: MCSimulationFixedTimes_project (incs.map cumsum) = (fixedDatesCtmc dates incs w).jumps := by
  simp only [src_project_eval, fixedDatesCtmc, List.map_map, Function.comp_def]

/-- jump-time mode: the assembled path = `assemble` -/
theorem src_jump_times_path_eq_model (T : Rat) (jt jv w : List Rat) (sqrt : Rat → Rat) :
    SimulationWithJumpTimes_simulate_one_path T (fun _ => (jt, jv)) (fun _ _ => cumsum w) triple sqrt = ofPath (assemble T jt jv w) := by
  rw [src_jump_times_path]
  simp only [triple, ofPath, assemble]

/-- maximum step (direct and CTMC dispatch) + assembly = `maxStepCode`: nothing is inserted without jumps, otherwise the
    closure is applied to the jump times only and 0 / the maturity are added afterwards -/
theorem src_max_step_eq_model (ε T : Rat) (jt jv w : List Rat) (sqrt : Rat → Rat) :
    SimulationWithJumpTimes_simulate_one_path T (fun _ => SimulationMaximumStep_simulate_jumps (jt, jv) (buildFiner ε T 0))
        (fun _ _ => cumsum w) triple sqrt = ofPath (maxStepCode ε T jt jv w) ∧
    SimulationWithJumpTimes_simulate_one_path T (fun _ => MCSimulationMaximumStep_simulate_jumps (jt, jv) (buildFiner ε T 0))
        (fun _ _ => cumsum w) triple sqrt = ofPath (maxStepCode ε T jt jv w) := by
  have hcast : (((jt.length : Nat) : Int) = 0) ↔ jt = [] := by
    constructor
    · intro h; exact List.length_eq_zero_iff.mp (by exact_mod_cast h)
    · intro h; simp [h]
  constructor
  all_goals
    simp only [SimulationMaximumStep_simulate_jumps, MCSimulationMaximumStep_simulate_jumps, maxStepCode, hcast]
    by_cases h : jt = []
    · subst h; rw [src_jump_times_path]; simp [triple, ofPath, assemble]
    · have h2 : jt.isEmpty = false := by cases jt <;> simp_all
      simp only [h, if_false, h2, Bool.false_eq_true]
      rw [show (buildFiner ε T (0 : Rat) jt jv) = ((buildFiner ε T (0 : Rat) jt jv).1, (buildFiner ε T (0 : Rat) jt jv).2) from rfl]
      rw [src_jump_times_path]
      simp only [triple, ofPath, assemble]

/-! ### the loop of `SimulationWithJumpTimes.simulate_jumps` = `jumpTimes`, `jumpValsDirect` -/

section scripted
variable (off : List Int → Rat → Int → List Rat) (nb : List Int → Rat → Int) (ji : List Int → Int → List Rat)

/-- the product dates of consecutive intervals starting at `s` -/
def datesOf : Rat → List Interval → List Rat
  | s, [] => [s]
  | s, I :: r => s :: datesOf I.b r

/-- consecutive intervals: each starts where the previous one ends -/
def Linked : Rat → List Interval → Prop
  | _, [] => True
  | s, I :: r => I.a = s ∧ Linked I.b r

/-- the samplers return the model's scripted variates: the offsets of interval k are `dt · u` for its sorted uniforms `u`,
    the j-th draw of one increment in interval k returns the j-th jump size -/
def Scripted : Nat → List Interval → Prop
  | _, [] => True
  | k, I :: r =>
      off [0, (k : Int)] (I.b - I.a) (nb [0, (k : Int)] (I.b - I.a)) = I.js.map (fun p => (I.b - I.a) * p.1) ∧
      (∀ j (hj : j < I.js.length), ji [0, (k : Int), (j : Int)] 1 = [(I.js[j]).2]) ∧ Scripted (k + 1) r

theorem datesOf_cons (s : Rat) (Is : List Interval) : ∃ t, datesOf s Is = s :: t := by
  cases Is <;> exact ⟨_, rfl⟩

theorem flatMap_enumI_eq_map {α β γ : Type} (g : Int → List γ) (v : β → γ) (l : List α) :
    ∀ (s : Nat) (m : List β), l.length = m.length → (∀ j (hj : j < m.length), g ((s + j : Nat) : Int) = [v m[j]]) →
      (enumI s l).flatMap (fun q => g q.1) = m.map v := by
  induction l with
  | nil => intro s m hl _; have : m = [] := List.length_eq_zero_iff.mp hl.symm; simp [enumI, this]
  | cons x r ih =>
    intro s m hl h
    match m, hl with
    | y :: t, hl =>
      simp only [enumI, List.flatMap_cons, List.map_cons]
      have h0 := h 0 (by simp)
      simp only [Nat.add_zero, List.getElem_cons_zero] at h0
      rw [h0, ih (s + 1) t (by simpa using hl)]
      · rfl
      · intro j hj
        have := h (j + 1) (by simpa using hj)
        simpa [Nat.add_assoc, Nat.add_comm 1 j] using this

theorem blocks_eq_model (Is : List Interval) : ∀ (s : Rat) (k : Nat), Linked s Is → Scripted off nb ji k Is →
    blocks (timesOf off nb) k (datesOf s Is) = jumpTimes Is ∧
    blocks (incsOf off nb ji) k (datesOf s Is) = Is.flatMap ivSizes := by
  induction Is with
  | nil => intro s k _ _; simp [datesOf, blocks, jumpTimes]
  | cons I r ih =>
    intro s k hl hs
    obtain ⟨ha, hl⟩ := hl
    obtain ⟨h1, h2, hs⟩ := hs
    obtain ⟨t, ht⟩ := datesOf_cons I.b r
    obtain ⟨e1, e2⟩ := ih I.b (k + 1) hl hs
    subst ha
    have htimes : timesOf off nb k I.b I.a = ivTimes I := by
      simp only [timesOf, offsetsOf, h1, ivTimes, List.map_map, Function.comp_def]
    have hincs : incsOf off nb ji k I.b I.a = ivSizes I := by
      simp only [incsOf, htimes, ivSizes]
      exact flatMap_enumI_eq_map (fun j => ji [0, (k : Int), j] 1) (fun p : Rat × Rat => p.2) (ivTimes I) 0 I.js
        (by simp [ivTimes]) (by intro j hj; simpa using h2 j hj)
    simp only [datesOf, ht, blocks, jumpTimes, List.flatMap_cons]
    rw [ht] at e1 e2
    rw [e1, e2, htimes, hincs]
    exact ⟨rfl, rfl⟩

/-- **the translated loop = the model**: on the product dates of linked intervals, with samplers that return the intervals'
    scripted variates, `simulate_jumps` returns the model's jump times and the model's (global) cumulative jump values -/
theorem src_jump_times_eq_model (Is : List Interval) (s : Rat) (hl : Linked s Is) (hs : Scripted off nb ji 0 Is) :
    SimulationWithJumpTimes_simulate_jumps (datesOf s Is) off nb ji = (jumpTimes Is, jumpValsDirect Is) := by
  rw [src_jump_times_eq_blocks]
  obtain ⟨e1, e2⟩ := blocks_eq_model off nb ji Is s 0 hl hs
  rw [e1, e2]; rfl

/-- hence the whole direct jump-time path is the model's `jumpTimesDirect` -/
theorem src_jump_times_direct_eq_model (T : Rat) (Is : List Interval) (w : List Rat) (sqrt : Rat → Rat)
    (hl : Linked 0 Is) (hs : Scripted off nb ji 0 Is) :
    SimulationWithJumpTimes_simulate_one_path T (fun _ => SimulationWithJumpTimes_simulate_jumps (datesOf 0 Is) off nb ji)
        (fun _ _ => cumsum w) triple sqrt = ofPath (jumpTimesDirect T Is w) := by
  rw [src_jump_times_eq_model off nb ji Is 0 hl hs, src_jump_times_path_eq_model]; rfl

end scripted

/-- non-vacuity of `Linked` / `Scripted`: two intervals [0, 1/2], [1/2, 1], one jump of size 2 in the middle of each -/
example : Linked 0 [⟨0, 1/2, [(1/2, 2)]⟩, ⟨1/2, 1, [(1/2, 2)]⟩] ∧
    Scripted (fun _ dt _ => [dt * (1/2)]) (fun _ _ => 1) (fun _ _ => [2]) 0 [⟨0, 1/2, [(1/2, 2)]⟩, ⟨1/2, 1, [(1/2, 2)]⟩] ∧
    datesOf 0 [⟨0, 1/2, [(1/2, 2)]⟩, ⟨1/2, 1, [(1/2, 2)]⟩] = [0, 1/2, 1] := by
  refine ⟨⟨rfl, rfl, trivial⟩, ⟨by simp, ?_, by simp, ?_, trivial⟩, rfl⟩ <;>
  · intro j hj
    have : j = 0 := by simpa using hj
    subst this; rfl

end Rpylib.SrcTie.C15
