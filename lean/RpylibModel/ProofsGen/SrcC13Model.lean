/-
C13 — alignment of the translated grid code with the hand-written model (Model/Grid.lean) at points the property does not
constrain: `middle` is the arithmetic mean `amid` (C13 only needs a point strictly inside the gap, ±h/2 next to the origin),
`left_point` / `right_point` are the model's clamped neighbours, the fixed-size constructor is the record `uniformFixed`,
one refinement is `Grid.refine`.  Losing this file is recorded ("alignment lost"), never a violation.
-/
import RpylibModel.ProofsGen.SrcC13

namespace Rpylib.SrcTie.C13
open Rpylib.Src.C13 Rpylib.Py Rpylib.Grid

theorem src_middle_float_eq_amid (a b : Rat) : CTMCGrid_middle_float a b = amid a b := by
  unfold CTMCGrid_middle_float amid; ring1

theorem src_middle_tuple_eq_amid (xs ys : List Rat) : CTMCGrid_middle_tuple xs ys = List.zipWith amid xs ys := by
  unfold CTMCGrid_middle_tuple
  rw [← List.map_uncurry_zip_eq_zipWith]
  apply List.map_congr_left; intro p _
  simp only [Function.uncurry, amid]; ring1

theorem src_left_point_eq_model (ax : List Rat) (rest : List (List Rat)) (c : Nat) :
    CTMCGrid_left_point (c : Int) (ax :: rest) = leftPoint ax c := (src_left_point_spec ax rest c).1

theorem src_right_point_eq_model (ax : List Rat) (rest : List (List Rat)) (c : Nat) (hc : c < ax.length) :
    CTMCGrid_right_point (c : Int) (ax :: rest) = rightPoint ax c := (src_right_point_spec ax rest c hc).1

theorem src_refine_eq_model (g : Grid) (mid : Rat → Rat → Rat) :
    asGrid (CTMCGrid_refine g.axes g.h (g.origin : Int) mid) = g.refine mid := src_refine_asGrid g mid

theorem src_fixed_eq_model_record (h : Rat) (nb dim : Nat) :
    (let r := CTMCUniformGrid_fixed h (nb : Int) (dim : Int); (⟨r.2.2, r.1, r.2.1.toNat⟩ : Grid)) = uniformFixed h nb dim := by
  simp only [src_fixed_eq_model, uniformFixed, Int.toNat_natCast]

/-- non-vacuity: an index inside the axis -/
example : CTMCGrid_right_point 1 [[-3, -1, 0, 1, 4]] = rightPoint [-3, -1, 0, 1, 4] 1 :=
  src_right_point_eq_model _ [] 1 (by decide)

end Rpylib.SrcTie.C13
