/-
C15 — source-derived tie for the assembly of simulated paths.  `RpylibModel/Generated/SrcC15.lean` is rewritten on every run
from the text of the path builders of /repo's current working tree (rpylib/process/levyprocess.py,
markovchain/markovchain.py, coupling/couplingmarkovchain.py; list and parameter declarations in harness/srcspec/C15.py).
Collaborators are parameters of the translated definitions, universally quantified here: the product dates, the maturity,
`build_finer_grid`, the constructor `StochasticJumpPath` (`mk_path`; read as the triple of its arguments: `triple`), `np.sqrt`,
the diffusion coefficients, the grid origin.  Everything that draws random numbers (`nb_jump_dt`,
`jump_times_from_nb_of_jumps`, `jump_increment`, `np.random.normal`, the pre-drawn Poisson deque, `self.simulate_jumps`,
`self.simulate_diffusion`, `coupling_state`) is a *variate stream*: a function of a tag [number of the call site of that
sampler, positions in the enclosing loops] (harness/py2lean.py, PyLite 4), so every dynamic call may return a different
value and a sampler called twice shows in the translation.  The content of an `np.empty` array is `Rpylib.Py.uninit` (opaque).

Obligations (what C15 says about these functions, for all inputs — all list lengths, all dates, all variates):
 * diffusion (`simulate_diffusion_with_brownian_increments`, the direct jump-time `simulate_diffusion`, the coupled fine /
   coarse `simulate_diffusion_with_coupling`): entry i is the running sum of scaled std-dev × normal over 0..i; consecutive
   entries differ by the (i+1)-th product only (disjoint variates); fine and coarse are built from the SAME vector of
   normals (one draw) and have the same length;
 * fixed dates (`SimulationFixedTimes.simulate_one_path`): the path is (product dates, 0 :: diffusion, 0 :: jumps): starts
   at zero, one value per date; `simulate_jumps` / `project`: one value per product interval, the value of the first date
   is the sum of the first interval's increments (its last cumulative value);
 * jump-time mode (`SimulationWithJumpTimes.simulate_one_path`): times = 0 :: jump times ++ [maturity], jumps = 0 :: values
   ++ [last value (0 without jumps)], the diffusion sampler receives √ of exactly the steps of the returned times; strictly
   increasing times ending at the maturity; `simulate_jumps`: the jump times of interval k are the interval's start plus its
   own offsets, in order; the value at the n-th jump time is the sum of the first n+1 drawn increments (ONE running sum
   over all product intervals; every increment drawn with its own tag); as many values as times; every jump time strictly
   inside its product interval, strictly increasing over the whole path (`src_jump_times_full_path` puts both together);
 * coupled states of a slice (`coupling_states_for_a_slice`): running sum of the coupled values from the grid origin, one
   value per fine state, whatever the `np.empty` array contained.
Proof scripts normalise (emptiness tests in any spelling, `x[-1]` / `x[len(x)-1]`, `np.concatenate` / `np.append` /
`np.insert`, operand order, renamed locals, the loop over `zip(times[1:], times)` or over positions) — tested by rewriting
the source (report of the builder; harness/srcspec/C15.py).
Statements that pin more than the property are in `SrcC15Model.lean` (alignment): the exact per-interval jump values of the
fixed-date simulators (C15's running-sum clause contradicts them for several dates — DESIGN §3.1 #17; `src_fixed_jumps_eval`
and `src_project_eval` below evaluate the translated code and are used only through their first-date corollaries) and the
maximum-step dispatch (the cap applied before the maturity is appended — #18).
-/
import RpylibModel.Generated.SrcC15
import RpylibModel.Lemmas.SrcC15Lists
import RpylibModel.Proofs.C15
import Mathlib.Tactic.Linarith
import Mathlib.Tactic.Ring
import Mathlib.Algebra.Order.Field.Rat

set_option linter.unusedSimpArgs false
set_option linter.unusedVariables false
set_option linter.unreachableTactic false
set_option linter.unusedTactic false

namespace Rpylib.SrcTie.C15
open Rpylib.Src.C15 Rpylib.Path

/-- the constructor `StochasticJumpPath(times, diffusion, jumps)` read as the triple of its arguments -/
def triple (t d j : List Rat) : (List Rat) × (List Rat) × (List Rat) := (t, d, j)

/-! ## 1. diffusion: cumulative sums of scaled normals -/

/-- `levyprocess.simulate_diffusion_with_brownian_increments`: entry i = Σ_{j ≤ i} stddev_j · z_j -/
theorem src_diffusion_running_sums (s z : List Rat) (h : s.length = z.length) (i : Nat) (hi : i < s.length) :
    (simulate_diffusion_with_brownian_increments s z)[i]?
      = some (sumL ((List.range (i + 1)).map (fun j => s.getD j 0 * z.getD j 0))) := by
  simp only [simulate_diffusion_with_brownian_increments, pyCumsum_eq]
  rw [cumsum_getElem?_range _ i (by simp [List.length_zipWith]; omega)]
  congr 1
  apply sumL_map_congr
  intro j _
  simp only [getD_zipWith_mul] <;> ring1

theorem src_diffusion_length (s z : List Rat) (h : s.length = z.length) :
    (simulate_diffusion_with_brownian_increments s z).length = s.length := by
  simp only [simulate_diffusion_with_brownian_increments, pyCumsum_eq, cumsum, cumsumFrom_length, List.length_zipWith]
  omega

/-- increments over disjoint steps are built from disjoint variates: entry i+1 − entry i = stddev_{i+1} · z_{i+1} -/
theorem src_diffusion_increment (s z : List Rat) (h : s.length = z.length) (i : Nat) (hi : i + 1 < s.length) :
    ∃ a b, (simulate_diffusion_with_brownian_increments s z)[i]? = some a ∧
      (simulate_diffusion_with_brownian_increments s z)[i + 1]? = some b ∧ b - a = s.getD (i + 1) 0 * z.getD (i + 1) 0 := by
  refine ⟨_, _, src_diffusion_running_sums s z h i (by omega), src_diffusion_running_sums s z h (i + 1) hi, ?_⟩
  rw [List.range_succ (n := i + 1), List.map_append, sumL_append]
  simp [sumL]

/-- `SimulationWithJumpTimes.simulate_diffusion`: entry i = Σ_{j ≤ i} √dt_j · σ · z_j, `z` the ONE vector of normals drawn
    (`np.random.normal(size=number of steps)`, tag [0]) -/
theorem src_jump_times_diffusion_running_sums (sq : List Rat) (σ : Rat) (normal : List Int → Int → List Rat)
    (h : (normal [0] (sq.length : Int)).length = sq.length) (i : Nat) (hi : i < sq.length) :
    (SimulationWithJumpTimes_simulate_diffusion sq σ normal)[i]?
      = some (sumL ((List.range (i + 1)).map (fun j => sq.getD j 0 * σ * (normal [0] (sq.length : Int)).getD j 0))) := by
  simp only [SimulationWithJumpTimes_simulate_diffusion, List.length_map]
  rw [src_diffusion_running_sums _ _ (by simpa using h.symm) i (by simpa using hi)]
  congr 1
  apply sumL_map_congr
  intro j _
  simp only [getD_map_mul_right, getD_map_mul_left] <;> ring1

/-- the coupled simulator: fine and coarse diffusion parts are running sums built from the *same* normals, with the
    fine / coarse coefficient, and have the same length -/
theorem src_coupled_diffusion_running_sums (sq : List Rat) (σf σc : Rat) (normal : List Int → Int → List Rat)
    (h : (normal [0] (sq.length : Int)).length = sq.length) (i : Nat) (hi : i < sq.length) :
    (CouplingSimulationWithJumpTimes_simulate_diffusion_with_coupling sq σf σc normal).1[i]?
        = some (sumL ((List.range (i + 1)).map (fun j => sq.getD j 0 * σf * (normal [0] (sq.length : Int)).getD j 0))) ∧
    (CouplingSimulationWithJumpTimes_simulate_diffusion_with_coupling sq σf σc normal).2[i]?
        = some (sumL ((List.range (i + 1)).map (fun j => sq.getD j 0 * σc * (normal [0] (sq.length : Int)).getD j 0))) := by
  simp only [CouplingSimulationWithJumpTimes_simulate_diffusion_with_coupling, pyCumsum_eq]
  constructor
  all_goals
    rw [cumsum_getElem?_range _ i (by simp [List.length_zipWith, h]; omega)]
    congr 1
    apply sumL_map_congr
    intro j _
    simp only [getD_zipWith_mul, getD_map_mul_right, getD_map_mul_left] <;> ring1

theorem src_coupled_diffusion_aligned (sq : List Rat) (σf σc : Rat) (normal : List Int → Int → List Rat)
    (h : (normal [0] (sq.length : Int)).length = sq.length) :
    (CouplingSimulationWithJumpTimes_simulate_diffusion_with_coupling sq σf σc normal).1.length = sq.length ∧
    (CouplingSimulationWithJumpTimes_simulate_diffusion_with_coupling sq σf σc normal).2.length = sq.length := by
  simp only [CouplingSimulationWithJumpTimes_simulate_diffusion_with_coupling, pyCumsum_eq, cumsum, cumsumFrom_length,
    List.length_zipWith, List.length_map, h]
  omega

/-- non-vacuity of the length hypotheses: two steps, two normals -/
example : (simulate_diffusion_with_brownian_increments [1/2, 1/4] [1, -2])[1]? = some 0 ∧
    ([1/2, 1/4] : List Rat).length = ([1, -2] : List Rat).length := by
  constructor
  · rw [src_diffusion_running_sums [1/2, 1/4] [1, -2] rfl 1 (by decide)]; norm_num [List.range, List.range.loop, sumL]
  · rfl

/-! ## 2. the assembled path: fixed product dates -/

/-- `SimulationFixedTimes.simulate_one_path`: the constructor receives the product dates unchanged, `0 ::` the diffusion
    values of the pre-computed √dt, `0 ::` the jump values; `simulate_jumps` and `simulate_diffusion` are each called once
    (tag [0]) -/
theorem src_fixed_dates_path (times sq : List Rat) (sj : List Int → List Rat) (sd : List Int → List Rat → List Rat)
    (mk : List Rat → List Rat → List Rat → (List Rat) × (List Rat) × (List Rat)) :
    SimulationFixedTimes_simulate_one_path times sq sj sd mk = mk times (0 :: sd [0] sq) (0 :: sj [0]) := by
  simp [SimulationFixedTimes_simulate_one_path, Rpylib.Py.insertAt]

/-- the path starts at zero (both components), its times are the product dates, and there is one jump value and one
    diffusion value per date when the samplers return one value per product interval -/
theorem src_fixed_dates_starts_at_zero (times sq : List Rat) (sj : List Int → List Rat) (sd : List Int → List Rat → List Rat) :
    let P := SimulationFixedTimes_simulate_one_path times sq sj sd triple
    P.1 = times ∧ P.2.1.head? = some 0 ∧ P.2.2.head? = some 0 ∧
      ((sj [0]).length + 1 = times.length → P.2.2.length = times.length) ∧
      ((sd [0] sq).length + 1 = times.length → P.2.1.length = times.length) := by
  simp only [src_fixed_dates_path, triple, List.head?_cons, true_and]
  constructor <;> intro h <;> simpa using h

/-! ## 3. the assembled path: jump-time mode -/

/-- `SimulationWithJumpTimes.simulate_one_path`: times `0 :: jump times ++ [maturity]`, jumps `0 :: values ++ [final]` with
    `final` the last jump value (0 without jumps), diffusion `0 ::` the sampler's values for the √ of the steps of exactly
    these times -/
theorem src_jump_times_path (T : Rat) (sj : List Int → (List Rat) × (List Rat)) (sd : List Int → List Rat → List Rat)
    (mk : List Rat → List Rat → List Rat → (List Rat) × (List Rat) × (List Rat)) (sqrt : Rat → Rat) :
    SimulationWithJumpTimes_simulate_one_path T sj sd mk sqrt
      = mk (0 :: ((sj [0]).1 ++ [T])) (0 :: sd [0] ((stepsOf (0 :: ((sj [0]).1 ++ [T]))).map sqrt))
          (0 :: ((sj [0]).2 ++ [lastD 0 (sj [0]).2])) := by
  simp only [SimulationWithJumpTimes_simulate_one_path, List.singleton_append, List.cons_append, List.nil_append, pyDiff_cons,
    stepsOf, Rpylib.Py.insertAt, Int.toNat_zero, List.take_zero, List.drop_zero]
  generalize (sj [0]).2 = jv
  -- the final value, however the emptiness test is written: 0 for no jump, else the last jump value
  by_cases hjv : jv = []
  · subst hjv; simp [lastD]
  · have hl : 0 < jv.length := List.length_pos_iff.mpr hjv
    have h1 : ((jv.length : Nat) : Int) ≠ 0 := by omega
    have h2 : (0 : Int) < ((jv.length : Nat) : Int) := by omega
    simp [h1, h2, hjv, hl, idx_neg_one 0 jv hjv]

/-- what C15 says about it: starts at zero at time 0, ends at the maturity, keeps every jump time and value, repeats the
    last value at the maturity, strictly increasing times when the jump times are strictly increasing inside (0, T);
    times and jump values have the same length -/
theorem src_jump_times_path_facts (T : Rat) (jt jv : List Rat) (sj : List Int → (List Rat) × (List Rat))
    (hsj : sj [0] = (jt, jv)) (sd : List Int → List Rat → List Rat) (sqrt : Rat → Rat) :
    let P := SimulationWithJumpTimes_simulate_one_path T sj sd triple sqrt
    P.1 = 0 :: (jt ++ [T]) ∧ P.2.2 = 0 :: (jv ++ [lastD 0 jv]) ∧
      P.2.1 = 0 :: sd [0] ((stepsOf P.1).map sqrt) ∧ lastD 0 P.1 = T ∧
      (jt.length = jv.length → P.1.length = P.2.2.length) ∧
      (0 < T → jt.Pairwise (· < ·) → (∀ x ∈ jt, 0 < x ∧ x < T) → StrictInc P.1) := by
  simp only [src_jump_times_path, hsj, triple, true_and]
  refine ⟨?_, ?_, ?_⟩
  · simp only [lastD]; exact lastD_append_singleton _ _ _
  · intro h; simp [h]
  · intro hT hp hin; exact strictInc_frame T jt hT hp hin

/-- non-vacuity: two jumps inside (0, 1) -/
example : (SimulationWithJumpTimes_simulate_one_path 1 (fun _ => ([1/4, 1/2], [3, 5])) (fun _ s => s) triple (fun x => x)).1 = [0, 1/4, 1/2, 1]
    ∧ (SimulationWithJumpTimes_simulate_one_path 1 (fun _ => ([1/4, 1/2], [3, 5])) (fun _ s => s) triple (fun x => x)).2.2 = [0, 3, 5, 5]
    ∧ ([1/4, 1/2] : List Rat).Pairwise (· < ·) ∧ (∀ x ∈ ([1/4, 1/2] : List Rat), 0 < x ∧ x < 1) := by
  refine ⟨by simp [src_jump_times_path, triple], by simp [src_jump_times_path, triple, lastD], by norm_num, ?_⟩
  intro x hx; simp only [List.mem_cons, List.not_mem_nil, or_false] at hx; rcases hx with rfl | rfl <;> norm_num

/-! ## 4. jump-time mode, direct simulation: the loop over the product intervals -/

section jumps
variable (off : List Int → Rat → Int → List Rat) (nb : List Int → Rat → Int) (ji : List Int → Int → List Rat)

/-- offsets of the jumps of the k-th product interval `[tm, tp]`: `jump_times_from_nb_of_jumps(dt, nb_jump_dt(dt))`, each
    sampler called with the tag of this interval -/
def offsetsOf (k : Nat) (tp tm : Rat) : List Rat := off [0, (k : Int)] (tp - tm) (nb [0, (k : Int)] (tp - tm))

/-- the jump times of the k-th interval: its start plus the offsets -/
def timesOf (k : Nat) (tp tm : Rat) : List Rat := (offsetsOf off nb k tp tm).map (fun x => tm + x)

/-- the increments of the k-th interval: one draw `jump_increment(n=1)` per jump time, the j-th with tag [0, k, j] -/
def incsOf (k : Nat) (tp tm : Rat) : List Rat :=
  (enumI 0 (timesOf off nb k tp tm)).flatMap (fun q => ji [0, (k : Int), q.1] 1)

/-- **`SimulationWithJumpTimes.simulate_jumps`**: the jump times are the concatenation over the product intervals of
    (start + offsets), the jump values are ONE cumulative sum over the concatenation of all drawn increments -/
theorem src_jump_times_eq_blocks (ts : List Rat) :
    SimulationWithJumpTimes_simulate_jumps ts off nb ji
      = (blocks (timesOf off nb) 0 ts, cumsum (blocks (incsOf off nb ji) 0 ts)) := by
  first
  | -- the loop over `enumerate(zip(times[1:], times))`
    simp only [SimulationWithJumpTimes_simulate_jumps, enumerate_eq, zip_sliceFrom_one, pyCumsum_eq]
    rw [foldl_pairs_append _
      (fun ix _ tp tm => (off [0, ix] (tp - tm) (nb [0, ix] (tp - tm))).map (fun x => tm + x))
      (fun ix _ tp tm => (enumI 0 ((off [0, ix] (tp - tm) (nb [0, ix] (tp - tm))).map (fun x => tm + x))).flatMap
        (fun q => ji [0, ix, q.1] 1))]
    · simp only [List.nil_append]; rfl
    · intro a b ix k tp tm
      simp only [List.flatMap_def, add_comm, neg_sub]
  | -- the same loop over the positions `range(len(times) - 1)` with `times[k]`, `times[k + 1]`
    simp only [SimulationWithJumpTimes_simulate_jumps, enumerate_eq, pyRange_len_sub_one, pyCumsum_eq]
    rw [foldl_range_append _
      (fun ix k => (off [0, ix] (Rpylib.Py.idx ts (k + 1) - Rpylib.Py.idx ts k)
          (nb [0, ix] (Rpylib.Py.idx ts (k + 1) - Rpylib.Py.idx ts k))).map (fun x => Rpylib.Py.idx ts k + x))
      (fun ix k => (enumI 0 ((off [0, ix] (Rpylib.Py.idx ts (k + 1) - Rpylib.Py.idx ts k)
          (nb [0, ix] (Rpylib.Py.idx ts (k + 1) - Rpylib.Py.idx ts k))).map (fun x => Rpylib.Py.idx ts k + x))).flatMap
        (fun q => ji [0, ix, q.1] 1))]
    · simp only [List.nil_append, blocks_eq_flatMap_range, Nat.zero_add, List.range_eq_range', idx_natCast, idx_natCast_succ,
        timesOf, offsetsOf, incsOf]
    · intro a b ix k
      simp only [List.flatMap_def, add_comm, neg_sub]

/-- running sums: the value at the n-th jump time is the sum of the first n+1 drawn increments, over all intervals -/
theorem src_jump_times_running_sums (ts : List Rat) (n : Nat) (hn : n < (blocks (incsOf off nb ji) 0 ts).length) :
    (SimulationWithJumpTimes_simulate_jumps ts off nb ji).2[n]?
      = some (sumL ((blocks (incsOf off nb ji) 0 ts).take (n + 1))) := by
  rw [src_jump_times_eq_blocks, cumsum, cumsumFrom_getElem?, if_pos hn]; simp

/-- one jump value per jump time, when every draw `jump_increment(n=1)` returns one value -/
theorem src_jump_times_lengths (ts : List Rat) (h1 : ∀ tag, (ji tag 1).length = 1) :
    (SimulationWithJumpTimes_simulate_jumps ts off nb ji).2.length
      = (SimulationWithJumpTimes_simulate_jumps ts off nb ji).1.length := by
  rw [src_jump_times_eq_blocks]
  simp only [cumsum, cumsumFrom_length]
  apply blocks_length_congr
  intro k tp tm
  exact length_flatMap_enumI_of_singletons _ 0 _ (fun q => h1 _)

/-- hypothesis on the offset sampler: sorted distinct offsets strictly inside (0, dt), for every interval -/
def OffsetsOk : Prop :=
  ∀ k tp tm, tm < tp → (offsetsOf off nb k tp tm).Pairwise (· < ·) ∧ ∀ x ∈ offsetsOf off nb k tp tm, 0 < x ∧ x < tp - tm

/-- every jump time lies strictly inside its product interval, the jump times increase strictly over the whole path and
    stay strictly between the first and the last product date -/
theorem src_jump_times_increasing (a : Rat) (r : List Rat) (hts : (a :: r).Pairwise (· < ·)) (hoff : OffsetsOk off nb) :
    (SimulationWithJumpTimes_simulate_jumps (a :: r) off nb ji).1.Pairwise (· < ·) ∧
      ∀ x ∈ (SimulationWithJumpTimes_simulate_jumps (a :: r) off nb ji).1, a < x ∧ x < lastD a r := by
  rw [src_jump_times_eq_blocks]
  refine (blocks_facts (timesOf off nb) ?_ r a 0 hts).2
  intro k tp tm hlt
  obtain ⟨hp, hin⟩ := hoff k tp tm hlt
  constructor
  · unfold timesOf
    rw [List.pairwise_map]
    exact hp.imp (fun {x y} hxy => by linarith)
  · intro x hx
    simp only [timesOf, List.mem_map] at hx
    obtain ⟨y, hy, rfl⟩ := hx
    have := hin y hy
    constructor <;> linarith

/-- **the whole path in jump-time mode** (`simulate_one_path` fed with `simulate_jumps`): for product dates
    `0 = t_0 < … < t_n = T` and sorted distinct offsets the returned times start at 0, increase strictly and end at the
    maturity; the jump component starts at 0, carries the running sum of all increments drawn so far at every jump time
    and repeats the last value at the maturity -/
theorem src_jump_times_full_path (T : Rat) (r : List Rat) (sd : List Int → List Rat → List Rat) (sqrt : Rat → Rat)
    (hts : ((0 : Rat) :: r).Pairwise (· < ·)) (hT : lastD 0 r = T) (hr : r ≠ []) (hoff : OffsetsOk off nb) :
    let P := SimulationWithJumpTimes_simulate_one_path T (fun _ => SimulationWithJumpTimes_simulate_jumps (0 :: r) off nb ji) sd triple sqrt
    StrictInc P.1 ∧ P.1.head? = some 0 ∧ lastD 0 P.1 = T ∧ P.2.2.head? = some 0 ∧
      (∀ n, n < (blocks (incsOf off nb ji) 0 (0 :: r)).length →
        P.2.2[n + 1]? = some (sumL ((blocks (incsOf off nb ji) 0 (0 :: r)).take (n + 1)))) := by
  intro P
  obtain ⟨hp, hin⟩ := src_jump_times_increasing off nb ji 0 r hts hoff
  have hpos : 0 < T := by
    cases r with
    | nil => exact absurd rfl hr
    | cons b t =>
      have h1 := (blocks_facts (fun _ _ _ => []) (by intro _ _ _ _; simp) t b 0 (List.pairwise_cons.mp hts).2).1
      have h2 : (0 : Rat) < b := (List.pairwise_cons.mp hts).1 b (by simp)
      simp only [lastD] at hT
      linarith
  have hfacts := src_jump_times_path_facts T (SimulationWithJumpTimes_simulate_jumps (0 :: r) off nb ji).1
    (SimulationWithJumpTimes_simulate_jumps (0 :: r) off nb ji).2
    (fun _ => SimulationWithJumpTimes_simulate_jumps (0 :: r) off nb ji) rfl sd sqrt
  obtain ⟨h1, h2, _, h4, _, h6⟩ := hfacts
  refine ⟨h6 hpos hp (by rw [← hT]; exact hin), by rw [show P.1 = _ from h1]; rfl, h4, by rw [show P.2.2 = _ from h2]; rfl, ?_⟩
  intro n hn
  rw [show P.2.2 = _ from h2, List.getElem?_cons_succ, List.getElem?_append_left, src_jump_times_running_sums off nb ji _ n hn]
  rw [src_jump_times_eq_blocks]; simpa [cumsum] using hn

end jumps

/-- non-vacuity of `OffsetsOk` and of the hypotheses of `src_jump_times_full_path`: two product intervals [0, 1/2], [1/2, 1],
    one jump in the middle of each -/
example : OffsetsOk (fun _ dt _ => [dt / 2]) (fun _ _ => 1) ∧ ((0 : Rat) :: [1/2, 1]).Pairwise (· < ·) ∧
    lastD (0 : Rat) [1/2, 1] = 1 ∧
    SimulationWithJumpTimes_simulate_jumps [0, 1/2, 1] (fun _ dt _ => [dt / 2]) (fun _ _ => 1) (fun _ _ => [2])
      = ([1/4, 3/4], [2, 4]) := by
  refine ⟨?_, by norm_num, by norm_num [lastD], ?_⟩
  · intro k tp tm h
    simp only [offsetsOf, List.pairwise_singleton, List.mem_singleton, forall_eq, true_and]
    constructor <;> linarith
  · rw [src_jump_times_eq_blocks]
    norm_num [blocks, timesOf, offsetsOf, incsOf, enumI, cumsum, cumsumFrom]

/-! ## 5. fixed product dates: jump values (what holds for every correct implementation; the exact per-interval values of
the code are in SrcC15Model.lean) -/

/-- the translated `SimulationFixedTimes.simulate_jumps`, evaluated: entry k = the sum of the increments drawn for interval k
    (tag [0, k], count `counts[k]`, `counts` = the one list popped from the pre-drawn Poisson deque) -/
theorem src_fixed_jumps_eval (pop : List Int → List Int) (ji : List Int → Int → List Rat) :
    SimulationFixedTimes_simulate_jumps pop ji = (enumI 0 (pop [0])).map (fun q => sumL (ji [0, q.1] q.2)) := by
  simp only [SimulationFixedTimes_simulate_jumps, enumerate_eq, List.map_map]
  apply List.map_congr_left
  intro q _
  simp only [Function.comp, listSum_eq]

/-- one jump value per product interval; the value at the first date is the sum of the first interval's increments -/
theorem src_fixed_jumps_first_date (pop : List Int → List Int) (ji : List Int → Int → List Rat) :
    (SimulationFixedTimes_simulate_jumps pop ji).length = (pop [0]).length ∧
      (SimulationFixedTimes_simulate_jumps pop ji)[0]? = (pop [0]).head?.map (fun n => sumL (ji [0, 0] n)) := by
  rw [src_fixed_jumps_eval]
  constructor
  · simp
  · cases pop [0] with
    | nil => rfl
    | cons n r => simp [enumI]

/-- the translated `MCSimulationFixedTimes.project`, evaluated: the last value of each slice, 0 for an empty slice -/
theorem src_project_eval (values : List (List Rat)) :
    MCSimulationFixedTimes_project values = values.map (fun sl => lastD 0 sl) := by
  simp only [MCSimulationFixedTimes_project, enumerate_eq, Rpylib.Py.zeros, Int.toNat_natCast]
  refine (foldl_cond_setAt _ (fun sl : List Rat => sl ≠ []) (fun sl => lastD 0 sl) ?_ values []).trans ?_
  · -- one step of the loop, however the emptiness test and the last element are written
    intro vals k x
    by_cases hx : x = []
    · subst hx; simp
    · have hpos : 0 < x.length := List.length_pos_iff.mpr hx
      have h1 : ((x.length : Nat) : Int) ≠ 0 := by omega
      have h2 : (0 : Int) < ((x.length : Nat) : Int) := by omega
      simp [hx, h1, h2, hpos, idx_neg_one 0 x hx, idx_length_sub_one 0 x hx]
  · simp only [List.nil_append]
    apply List.map_congr_left
    intro sl _
    by_cases h : sl = []
    · subst h; simp [lastD]
    · rw [if_pos h]

/-- one value per slice; the value at the first date is the last cumulative value of the first slice -/
theorem src_project_first_date (values : List (List Rat)) :
    (MCSimulationFixedTimes_project values).length = values.length ∧
      (MCSimulationFixedTimes_project values)[0]? = values.head?.map (fun sl => lastD 0 sl) := by
  rw [src_project_eval]
  constructor
  · simp
  · cases values <;> simp

/-! ## 6. coupled states of a slice: running sum from the grid origin -/

/-- `CouplingSimulation.coupling_states_for_a_slice`: the k-th value is origin + Σ_{j ≤ k} coupling_state(d_j) (each call
    with its own tag), one value per fine state, whatever the `np.empty` array contained (`Rpylib.Py.uninit`, opaque) -/
theorem src_coupled_slice_eval (ds : List Int) (origin : Rat) (cs : List Int → Int → Rat) :
    CouplingSimulation_coupling_states_for_a_slice ds origin cs
      = cumsumFrom origin ((enumI 0 ds).map (fun q => cs [0, q.1] q.2)) := by
  simp only [CouplingSimulation_coupling_states_for_a_slice, enumerate_eq]
  by_cases h : ds = []
  · subst h; simp [Rpylib.Py.zeros, enumI, cumsumFrom]
  · have hne : ((ds.length : Nat) : Int) ≠ 0 := by
      intro h0; exact h (List.length_eq_zero_iff.mp (by exact_mod_cast h0))
    rw [if_pos hne]
    refine (foldl_running_setAt _ (fun ix _ d => cs [0, ix] d) ?_ ds [] _ ?_ origin).trans ?_
    · intro cur vals ix k d; rfl
    · simp [Rpylib.Py.range, Rpylib.Py.zeros]
    · simp

theorem src_coupled_slice_running_sums (ds : List Int) (origin : Rat) (cs : List Int → Int → Rat)
    (i : Nat) (hi : i < ds.length) :
    (CouplingSimulation_coupling_states_for_a_slice ds origin cs).length = ds.length ∧
    (CouplingSimulation_coupling_states_for_a_slice ds origin cs)[i]?
      = some (origin + sumL (((enumI 0 ds).map (fun q => cs [0, q.1] q.2)).take (i + 1))) := by
  rw [src_coupled_slice_eval]
  constructor
  · simp
  · rw [cumsumFrom_getElem?, if_pos (by simpa using hi)]

end Rpylib.SrcTie.C15
