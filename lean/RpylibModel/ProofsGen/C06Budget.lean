/-
C06 — budget split of rmse²: behaviour-derived constants (Generated/C06.lean is rewritten by harness/props/c06.py from
measurements on the running implementation before every build), so this obligation is re-checked against what the
code does now.
-/
import RpylibModel.Generated.C06
import Mathlib.Tactic.NormNum

namespace Rpylib.Alloc

/-- squared bias tolerance accepted by the stopping test + variance share of the allocation ≤ 1 (in units of rmse²,
    up to the stated measurement slack of the generated constants) -/
theorem budget_le_one : Rpylib.Generated.C06.biasShare + Rpylib.Generated.C06.varShare ≤ 1 + Rpylib.Generated.C06.slack := by
  unfold Rpylib.Generated.C06.biasShare Rpylib.Generated.C06.varShare Rpylib.Generated.C06.slack
  norm_num

end Rpylib.Alloc
