/-
C16 — source-derived tie for the discount curves.  `RpylibModel/Generated/SrcC16.lean` is rewritten on every run from the text
of `LevyLiborModel.df` (rpylib/model/levydrivensde/levylibormodel.py), `LevyForwardModel.df` (…/levyforwardmodel.py) and
`LevyDrivenSDEModel.df`, `LevyDrivenSDEModel.drift`, `Constant.__call__` (…/levydrivensde.py) in /repo's current working tree.  `self.tenors` (the sorted tenor array) and
`self.x0` (the initial curve) are list parameters of the translated definitions, universally quantified below;
`np.searchsorted` is `Rpylib.Py.searchsorted` (number of leading elements `< t`).

Obligations on the translated source (both rate models, every curve, every number of tenors):
 (A) inside the domain of the Python function (`t` up to the last tenor — beyond it `x0[pos-1]` raises IndexError) the translated
     `df` is the hand-written model's `dfCurve?`;
 (B) what C16 says about discounting, on the translated definitions: `df(0) = 1`; `0 < df ≤ 1`; `df` is non-increasing; `df` is
     Lipschitz in time with the largest rate as constant — continuity, in particular through every tenor date; at the tenor `T_p`
     `df` is the reciprocal of the product of the simple-compounding factors `(1 + x_0 T_0) ∏_{k<p} (1 + x_k (T_{k+1} − T_k))`;
     just after it, on `(T_p, T_{p+1}]`, `df(t) = df(T_p) / (1 + x_p (t − T_p))` — the accumulated product is kept (the fix
     'df compounding', DESIGN §8.2: with `aux = …` instead of `aux *= …` this is false); the base model's `df` is the constant 1;
     the base model's sde drift (`LevyDrivenSDEModel.drift`) is the zero vector and `Constant.__call__` ignores time and state:
     the Euler recursion run with these translated coefficient functions gives `x0 + a·Y_T` (`src_constant_euler`).

How the proofs are organised (so that a reformulated but equivalent source still passes): the translated body is unfolded,
`np.searchsorted` is replaced by the model's `searchLeft`, the case split `pos = 0` / `pos = q + 1` is made on its value, the
Python list operations are normalised by general lemmas (`np.prod` of a comprehension over any `range(a, b)`, a `for` loop that
multiplies or divides an accumulator, indices `k`, `k + 1`, `1 + k`, `pos - 1`) into `prodTo q f`; the product is abstracted, its
factor function compared pointwise with the model's by `ring`, and the remaining scalar identity is closed by `ring_nf`.  Nothing
depends on the names of locals, the order of factors / operands, the direction of the `if`, or on `np.prod` versus a loop.
-/
import RpylibModel.Generated.SrcC16
import RpylibModel.Proofs.C16

namespace Rpylib.SrcTie.C16
open Rpylib.Src.C16 Rpylib.Py Rpylib.Sde

/-! ### Python list operations in terms of the model's index functions -/

theorem searchsorted_eq (l : List Rat) (t : Rat) : searchsorted l t = ((searchLeft l t : Nat) : Int) := by
  unfold searchsorted
  congr 1
  induction l with
  | nil => rfl
  | cons a r ih =>
    by_cases h : a < t
    · simp [List.takeWhile, searchLeft, h, ih]
    · simp [List.takeWhile, searchLeft, h]

theorem idx_nat (l : List Rat) (n : Nat) : idx l (n : Int) = nth l n := by
  have h : ¬ ((n : Int) < 0) := by omega
  simp only [idx, nth, h, if_false, Int.toNat_natCast]
  rfl

theorem idx_zero (l : List Rat) : idx l (0 : Int) = nth l 0 := idx_nat l 0

theorem idx_nat_succ (l : List Rat) (n : Nat) : idx l ((n : Int) + 1) = nth l (n + 1) := by
  have := idx_nat l (n + 1); simpa using this

theorem idx_nat_succ' (l : List Rat) (n : Nat) : idx l (1 + (n : Int)) = nth l (n + 1) := by
  rw [add_comm]; exact idx_nat_succ l n

theorem succ_cast_sub_one (n : Nat) : ((n + 1 : Nat) : Int) - 1 = (n : Int) := by
  push_cast; ring

theorem prodTo_congr (n : Nat) (f g : Nat → Rat) (h : ∀ i, i < n → f i = g i) : prodTo n f = prodTo n g := by
  induction n with
  | zero => rfl
  | succ m ih => rw [prodTo_succ, prodTo_succ, ih (fun i hi => h i (by omega)), h m (by omega)]

theorem range_succ_right (a : Int) (n : Nat) : range a (a + ((n + 1 : Nat) : Int)) = range a (a + (n : Int)) ++ [a + (n : Int)] := by
  simp only [range, add_sub_cancel_left, Int.toNat_natCast, List.range_succ, List.map_append, List.map_cons, List.map_nil]

theorem range_of_le (a b : Int) (h : a ≤ b) : range a b = range a (a + (((b - a).toNat : Nat) : Int)) := by
  rw [Int.toNat_of_nonneg (by omega)]; congr 1; ring

theorem range_of_ge (a b : Int) (h : b ≤ a) : range a b = [] := by
  have : (b - a).toNat = 0 := by omega
  simp [range, this]

theorem rprod_append_one (L : List Rat) (x : Rat) : rprod (L ++ [x]) = rprod L * x := by
  induction L with
  | nil => simp [rprod]
  | cons a r ih =>
    simp only [rprod, List.cons_append, List.foldr_cons] at ih ⊢
    rw [ih]; ring

/-- `np.prod([f(k) for k in range(a, b)])` -/
theorem rprod_map_range (f : Int → Rat) (a b : Int) :
    rprod (List.map f (range a b)) = prodTo (b - a).toNat (fun k => f (a + (k : Int))) := by
  by_cases h : a ≤ b
  · rw [range_of_le a b h]
    generalize (b - a).toNat = n
    induction n with
    | zero => simp [rprod, range]
    | succ m ih =>
      rw [range_succ_right, List.map_append, List.map_cons, List.map_nil, rprod_append_one, ih, prodTo_succ]
  · have h0 : (b - a).toNat = 0 := by omega
    rw [range_of_ge a b (by omega), h0]; simp [rprod]

/-- `for k in range(a, b): acc *= f(k)` -/
theorem foldl_mul_range (f : Int → Rat) (acc : Rat) (a b : Int) :
    List.foldl (fun (st : Rat) (k : Int) => st * f k) acc (range a b)
      = acc * prodTo (b - a).toNat (fun k => f (a + (k : Int))) := by
  by_cases h : a ≤ b
  · rw [range_of_le a b h]
    generalize (b - a).toNat = n
    induction n with
    | zero => simp [range]
    | succ m ih =>
      rw [range_succ_right, List.foldl_append, ih, prodTo_succ]
      simp only [List.foldl_cons, List.foldl_nil]
      ring
  · have h0 : (b - a).toNat = 0 := by omega
    rw [range_of_ge a b (by omega), h0]; simp

/-- `for k in range(a, b): acc = f(k) * acc` -/
theorem foldl_mul_range' (f : Int → Rat) (acc : Rat) (a b : Int) :
    List.foldl (fun (st : Rat) (k : Int) => f k * st) acc (range a b)
      = acc * prodTo (b - a).toNat (fun k => f (a + (k : Int))) := by
  have : (fun (st : Rat) (k : Int) => f k * st) = (fun (st : Rat) (k : Int) => st * f k) := by
    funext st k; ring
  rw [this, foldl_mul_range]

/-- `for k in range(a, b): acc /= f(k)` -/
theorem foldl_div_range (f : Int → Rat) (acc : Rat) (a b : Int) :
    List.foldl (fun (st : Rat) (k : Int) => st / f k) acc (range a b)
      = acc / prodTo (b - a).toNat (fun k => f (a + (k : Int))) := by
  by_cases h : a ≤ b
  · rw [range_of_le a b h]
    generalize (b - a).toNat = n
    induction n with
    | zero => simp [range]
    | succ m ih =>
      rw [range_succ_right, List.foldl_append, ih, prodTo_succ]
      simp only [List.foldl_cons, List.foldl_nil]
      rw [div_div]
  · have h0 : (b - a).toNat = 0 := by omega
    rw [range_of_ge a b (by omega), h0]; simp

theorem auxAt_zero (x T : Nat → Rat) (t : Rat) : auxAt x T 0 t = 1 + x 0 * t := by simp [auxAt]

/-- the lemmas that turn the Python list operations of a translated `df` body into the model's vocabulary -/
macro "src_df_lists" : tactic => `(tactic| (
  simp only [Nat.cast_zero, succ_cast_sub_one, sub_zero, zero_add, add_zero, Int.toNat_natCast, add_sub_cancel_left,
    add_sub_cancel_right, rprod_map_range, foldl_mul_range, foldl_mul_range', foldl_div_range, idx_zero, idx_nat, idx_nat_succ,
    idx_nat_succ', prodTo_zero, mul_one, one_mul, imin, imax]))

/-- the remaining identity between rational expressions: inverses are pushed to the factors (`(a b)⁻¹ = a⁻¹ b⁻¹` holds in ℚ
    without side conditions), then `ring_nf` -/
macro "src_df_close" : tactic => `(tactic| (
  (try simp only [one_div, div_eq_mul_inv, mul_inv, inv_inv]) <;> ring_nf))

/-- branch `pos = 0` -/
macro "src_df_zero_branch" : tactic => `(tactic| (
  (try src_df_lists) <;> (try simp only [auxAt_zero]) <;> (try split_ifs) <;> (try src_df_lists) <;> first
    | (exfalso; omega)
    | src_df_close))

/-- branch `pos = q + 1`: abstract the product of the accrual factors, compare the factor functions pointwise -/
macro "src_df_succ_branch" q:ident x0:ident tenors:ident : tactic => `(tactic| (
  (try src_df_lists) <;> (try split_ifs) <;> (try src_df_lists) <;> first
    | (exfalso; omega)
    | (generalize hP : prodTo $q _ = P
       have hG : prodTo $q (fun k => 1 + nth $x0 k * (nth $tenors (k + 1) - nth $tenors k)) = P :=
         (prodTo_congr _ _ _ (fun k _ => by ring)).trans hP
       rw [auxAt_succ, hG] <;> src_df_close)))

/-! ### inside the domain of the Python function the translated `df` is the model's `dfCurve`

The domain: `np.searchsorted(tenors, t) ≤ len(x0)`, i.e. `x0[pos - 1]` exists (times up to the last tenor).  The hypothesis is in
the context of the normalisation, so a source that clamps or special-cases `pos` beyond the curve still passes. -/

theorem libor_df_eq (t : Rat) (tenors x0 : List Rat) (hdom : searchLeft tenors t ≤ x0.length) :
    LevyLiborModel_df t tenors x0 = dfCurve x0 tenors t := by
  unfold dfCurve aux
  simp only [LevyLiborModel_df, searchsorted_eq]
  revert hdom
  rcases searchLeft tenors t with _ | q <;> intro hdom
  · src_df_zero_branch
  · src_df_succ_branch q x0 tenors

theorem forward_df_eq (t : Rat) (tenors x0 : List Rat) (hdom : searchLeft tenors t ≤ x0.length) :
    LevyForwardModel_df t tenors x0 = dfCurve x0 tenors t := by
  unfold dfCurve aux
  simp only [LevyForwardModel_df, searchsorted_eq]
  revert hdom
  rcases searchLeft tenors t with _ | q <;> intro hdom
  · src_df_zero_branch
  · src_df_succ_branch q x0 tenors

/-! ### facts about the model's curve that Proofs/C16.lean does not state -/

/-- `np.searchsorted(tenors, t) ≤ n` as soon as `t ≤ tenors[n]` (no sortedness needed) -/
theorem searchLeft_le_of_le (l : List Rat) (t : Rat) (n : Nat) (h : t ≤ nth l n) : searchLeft l t ≤ n := by
  by_contra hc
  have := searchLeft_lt l t n (by omega)
  linarith

theorem nth_le_nth_of_sorted (l : List Rat) (hs : SortedT l) (i j : Nat) (hij : i ≤ j) (hj : j < l.length) :
    nth l i ≤ nth l j := by
  induction j with
  | zero => have : i = 0 := by omega
            subst this; exact le_refl _
  | succ m ih =>
    rcases Nat.lt_or_ge i (m + 1) with h | h
    · exact le_trans (ih (by omega) (by omega)) (hs m hj)
    · have : i = m + 1 := by omega
      subst this; exact le_refl _

/-- on `(T_p, T_{p+1}]` the branch index is `p + 1` -/
theorem searchLeft_between (l : List Rat) (hs : SortedT l) (t : Rat) (p : Nat) (hp : p + 1 < l.length)
    (h1 : nth l p < t) (h2 : t ≤ nth l (p + 1)) : searchLeft l t = p + 1 := by
  have hle := searchLeft_le_of_le l t (p + 1) h2
  by_contra hne
  have hlt : searchLeft l t ≤ p := by omega
  have h3 := searchLeft_ge l t (by omega)
  have h4 := nth_le_nth_of_sorted l hs (searchLeft l t) p hlt (by omega)
  linarith

/-- just after a tenor the accumulated product is kept: `df(t) = df(T_p) / (1 + x_p (t − T_p))` on `(T_p, T_{p+1}]` -/
theorem dfCurve_after_tenor (x0 tenors : List Rat) (h : tenors.Pairwise (· < ·)) (p : Nat) (hp : p + 1 < tenors.length)
    (t : Rat) (h1 : nth tenors p < t) (h2 : t ≤ nth tenors (p + 1)) :
    dfCurve x0 tenors t = dfCurve x0 tenors (nth tenors p) / (1 + nth x0 p * (t - nth tenors p)) := by
  have hs : SortedT tenors := sortedT_of_pairwise tenors (h.imp le_of_lt)
  rw [df_at_tenor_is_product x0 tenors h p (by omega)]
  unfold dfCurve aux
  rw [searchLeft_between tenors hs t p hp h1 h2, auxAt_succ, div_div]

/-! ### (A) and (B), stated once for any function that computes the model's curve inside the domain, then for the two
translated sources.  `last := tenors[len(x0)]` is the last tenor when `len(tenors) = len(x0) + 1` (what the constructors check). -/

section generic
variable (df : Rat → List Rat → List Rat → Rat)
  (hdf : ∀ t tenors x0, searchLeft tenors t ≤ x0.length → df t tenors x0 = dfCurve x0 tenors t)
include hdf

theorem gen_eq_model (t : Rat) (tenors x0 : List Rat) (hx : 0 < x0.length) (hdom : t ≤ nth tenors x0.length) :
    dfCurve? x0 tenors t = some (df t tenors x0) := by
  have hle := searchLeft_le_of_le tenors t x0.length hdom
  unfold dfCurve?
  rw [if_pos ⟨hle, hx⟩, hdf _ _ _ hle]

theorem gen_zero (tenors x0 : List Rat) (hT : ∀ T ∈ tenors, 0 ≤ T) : df 0 tenors x0 = 1 := by
  rw [hdf _ _ _ (searchLeft_le_of_le tenors 0 x0.length (nth_nonneg tenors hT _))]; exact df_zero x0 tenors hT

theorem gen_pos (tenors x0 : List Rat) (hx : ∀ r ∈ x0, 0 ≤ r) (hT : ∀ T ∈ tenors, 0 ≤ T) (hs : tenors.Pairwise (· ≤ ·))
    (t : Rat) (ht : 0 ≤ t) (hdom : t ≤ nth tenors x0.length) : 0 < df t tenors x0 ∧ df t tenors x0 ≤ 1 := by
  rw [hdf _ _ _ (searchLeft_le_of_le tenors t x0.length hdom)]
  exact df_pos x0 tenors hx hT (sortedT_of_pairwise tenors hs) t ht

theorem gen_antitone (tenors x0 : List Rat) (hx : ∀ r ∈ x0, 0 ≤ r) (hT : ∀ T ∈ tenors, 0 ≤ T) (hs : tenors.Pairwise (· ≤ ·))
    (s t : Rat) (h0 : 0 ≤ s) (hst : s ≤ t) (hdom : t ≤ nth tenors x0.length) : df t tenors x0 ≤ df s tenors x0 := by
  rw [hdf _ _ _ (searchLeft_le_of_le tenors t x0.length hdom),
    hdf _ _ _ (searchLeft_le_of_le tenors s x0.length (le_trans hst hdom))]
  exact df_antitone x0 tenors hx hT (sortedT_of_pairwise tenors hs) s t h0 hst

theorem gen_lipschitz (tenors x0 : List Rat) (hx : ∀ r ∈ x0, 0 ≤ r) (hT : ∀ T ∈ tenors, 0 ≤ T) (hs : tenors.Pairwise (· ≤ ·))
    (R : Rat) (hR0 : 0 ≤ R) (hR : ∀ r ∈ x0, r ≤ R) (s t : Rat) (hs0 : 0 ≤ s) (ht0 : 0 ≤ t)
    (hsd : s ≤ nth tenors x0.length) (htd : t ≤ nth tenors x0.length) :
    |df s tenors x0 - df t tenors x0| ≤ R * |s - t| := by
  rw [hdf _ _ _ (searchLeft_le_of_le tenors s x0.length hsd), hdf _ _ _ (searchLeft_le_of_le tenors t x0.length htd)]
  exact df_lipschitz_abs x0 tenors hx hT (sortedT_of_pairwise tenors hs) R hR0 hR s t hs0 ht0

theorem gen_at_tenor (tenors x0 : List Rat) (hlen : tenors.length = x0.length + 1) (h : tenors.Pairwise (· < ·)) (p : Nat)
    (hp : p < tenors.length) :
    df (nth tenors p) tenors x0
      = 1 / ((1 + nth x0 0 * nth tenors 0) * prodTo p (fun k => 1 + nth x0 k * (nth tenors (k + 1) - nth tenors k))) := by
  rw [hdf _ _ _ (by rw [searchLeft_nth tenors h p hp]; omega)]; exact df_at_tenor_is_product x0 tenors h p hp

theorem gen_after_tenor (tenors x0 : List Rat) (hlen : tenors.length = x0.length + 1) (h : tenors.Pairwise (· < ·)) (p : Nat)
    (hp : p + 1 < tenors.length) (t : Rat) (h1 : nth tenors p < t) (h2 : t ≤ nth tenors (p + 1)) :
    df t tenors x0 = df (nth tenors p) tenors x0 / (1 + nth x0 p * (t - nth tenors p)) := by
  have hs : SortedT tenors := sortedT_of_pairwise tenors (h.imp le_of_lt)
  rw [hdf _ _ _ (by rw [searchLeft_between tenors hs t p hp h1 h2]; omega),
    hdf _ _ _ (by rw [searchLeft_nth tenors h p (by omega)]; omega)]
  exact dfCurve_after_tenor x0 tenors h p hp t h1 h2

end generic

/-! #### `LevyLiborModel.df` -/

/-- **(A)** for every time up to the last tenor (`tenors[len(x0)]`; beyond it the Python function raises IndexError) the
    translated `df` returns the model's value and the model says "defined" -/
theorem src_libor_df_eq_model (t : Rat) (tenors x0 : List Rat) (hx : 0 < x0.length) (hdom : t ≤ nth tenors x0.length) :
    dfCurve? x0 tenors t = some (LevyLiborModel_df t tenors x0) := gen_eq_model _ libor_df_eq t tenors x0 hx hdom

/-- **(B) df(0) = 1** (tenors ≥ 0) -/
theorem src_libor_df_zero (tenors x0 : List Rat) (hT : ∀ T ∈ tenors, 0 ≤ T) : LevyLiborModel_df 0 tenors x0 = 1 :=
  gen_zero _ libor_df_eq tenors x0 hT

/-- **(B) 0 < df ≤ 1** at every time in [0, last tenor]: non-negative rates, non-negative sorted tenors, any number of them -/
theorem src_libor_df_pos (tenors x0 : List Rat) (hx : ∀ r ∈ x0, 0 ≤ r) (hT : ∀ T ∈ tenors, 0 ≤ T) (hs : tenors.Pairwise (· ≤ ·))
    (t : Rat) (ht : 0 ≤ t) (hdom : t ≤ nth tenors x0.length) :
    0 < LevyLiborModel_df t tenors x0 ∧ LevyLiborModel_df t tenors x0 ≤ 1 := gen_pos _ libor_df_eq tenors x0 hx hT hs t ht hdom

/-- **(B) df is non-increasing in time** on [0, last tenor] -/
theorem src_libor_df_antitone (tenors x0 : List Rat) (hx : ∀ r ∈ x0, 0 ≤ r) (hT : ∀ T ∈ tenors, 0 ≤ T) (hs : tenors.Pairwise (· ≤ ·))
    (s t : Rat) (h0 : 0 ≤ s) (hst : s ≤ t) (hdom : t ≤ nth tenors x0.length) :
    LevyLiborModel_df t tenors x0 ≤ LevyLiborModel_df s tenors x0 := gen_antitone _ libor_df_eq tenors x0 hx hT hs s t h0 hst hdom

/-- **(B) df is continuous**: Lipschitz in time with any bound `R` of the rates as constant, through every tenor date -/
theorem src_libor_df_lipschitz (tenors x0 : List Rat) (hx : ∀ r ∈ x0, 0 ≤ r) (hT : ∀ T ∈ tenors, 0 ≤ T) (hs : tenors.Pairwise (· ≤ ·))
    (R : Rat) (hR0 : 0 ≤ R) (hR : ∀ r ∈ x0, r ≤ R) (s t : Rat) (hs0 : 0 ≤ s) (ht0 : 0 ≤ t)
    (hsd : s ≤ nth tenors x0.length) (htd : t ≤ nth tenors x0.length) :
    |LevyLiborModel_df s tenors x0 - LevyLiborModel_df t tenors x0| ≤ R * |s - t| :=
  gen_lipschitz _ libor_df_eq tenors x0 hx hT hs R hR0 hR s t hs0 ht0 hsd htd

/-- **(B) simple compounding over each accrual period**: at the `p`-th tenor (strictly increasing tenors) `df` is the
    reciprocal of `(1 + x_0 T_0) ∏_{k<p} (1 + x_k (T_{k+1} − T_k))` -/
theorem src_libor_df_at_tenor (tenors x0 : List Rat) (hlen : tenors.length = x0.length + 1) (h : tenors.Pairwise (· < ·))
    (p : Nat) (hp : p < tenors.length) :
    LevyLiborModel_df (nth tenors p) tenors x0
      = 1 / ((1 + nth x0 0 * nth tenors 0) * prodTo p (fun k => 1 + nth x0 k * (nth tenors (k + 1) - nth tenors k))) :=
  gen_at_tenor _ libor_df_eq tenors x0 hlen h p hp

/-- **(B) the value just after `T_p` keeps the product up to `p`** (the fix 'df compounding'): on `(T_p, T_{p+1}]`
    `df(t) = df(T_p) / (1 + x_p (t − T_p))` -/
theorem src_libor_df_after_tenor (tenors x0 : List Rat) (hlen : tenors.length = x0.length + 1) (h : tenors.Pairwise (· < ·))
    (p : Nat) (hp : p + 1 < tenors.length) (t : Rat) (h1 : nth tenors p < t) (h2 : t ≤ nth tenors (p + 1)) :
    LevyLiborModel_df t tenors x0 = LevyLiborModel_df (nth tenors p) tenors x0 / (1 + nth x0 p * (t - nth tenors p)) :=
  gen_after_tenor _ libor_df_eq tenors x0 hlen h p hp t h1 h2

/-! #### `LevyForwardModel.df` -/

theorem src_forward_df_eq_model (t : Rat) (tenors x0 : List Rat) (hx : 0 < x0.length) (hdom : t ≤ nth tenors x0.length) :
    dfCurve? x0 tenors t = some (LevyForwardModel_df t tenors x0) := gen_eq_model _ forward_df_eq t tenors x0 hx hdom

theorem src_forward_df_zero (tenors x0 : List Rat) (hT : ∀ T ∈ tenors, 0 ≤ T) : LevyForwardModel_df 0 tenors x0 = 1 :=
  gen_zero _ forward_df_eq tenors x0 hT

theorem src_forward_df_pos (tenors x0 : List Rat) (hx : ∀ r ∈ x0, 0 ≤ r) (hT : ∀ T ∈ tenors, 0 ≤ T) (hs : tenors.Pairwise (· ≤ ·))
    (t : Rat) (ht : 0 ≤ t) (hdom : t ≤ nth tenors x0.length) :
    0 < LevyForwardModel_df t tenors x0 ∧ LevyForwardModel_df t tenors x0 ≤ 1 := gen_pos _ forward_df_eq tenors x0 hx hT hs t ht hdom

theorem src_forward_df_antitone (tenors x0 : List Rat) (hx : ∀ r ∈ x0, 0 ≤ r) (hT : ∀ T ∈ tenors, 0 ≤ T) (hs : tenors.Pairwise (· ≤ ·))
    (s t : Rat) (h0 : 0 ≤ s) (hst : s ≤ t) (hdom : t ≤ nth tenors x0.length) :
    LevyForwardModel_df t tenors x0 ≤ LevyForwardModel_df s tenors x0 := gen_antitone _ forward_df_eq tenors x0 hx hT hs s t h0 hst hdom

theorem src_forward_df_lipschitz (tenors x0 : List Rat) (hx : ∀ r ∈ x0, 0 ≤ r) (hT : ∀ T ∈ tenors, 0 ≤ T) (hs : tenors.Pairwise (· ≤ ·))
    (R : Rat) (hR0 : 0 ≤ R) (hR : ∀ r ∈ x0, r ≤ R) (s t : Rat) (hs0 : 0 ≤ s) (ht0 : 0 ≤ t)
    (hsd : s ≤ nth tenors x0.length) (htd : t ≤ nth tenors x0.length) :
    |LevyForwardModel_df s tenors x0 - LevyForwardModel_df t tenors x0| ≤ R * |s - t| :=
  gen_lipschitz _ forward_df_eq tenors x0 hx hT hs R hR0 hR s t hs0 ht0 hsd htd

theorem src_forward_df_at_tenor (tenors x0 : List Rat) (hlen : tenors.length = x0.length + 1) (h : tenors.Pairwise (· < ·))
    (p : Nat) (hp : p < tenors.length) :
    LevyForwardModel_df (nth tenors p) tenors x0
      = 1 / ((1 + nth x0 0 * nth tenors 0) * prodTo p (fun k => 1 + nth x0 k * (nth tenors (k + 1) - nth tenors k))) :=
  gen_at_tenor _ forward_df_eq tenors x0 hlen h p hp

theorem src_forward_df_after_tenor (tenors x0 : List Rat) (hlen : tenors.length = x0.length + 1) (h : tenors.Pairwise (· < ·))
    (p : Nat) (hp : p + 1 < tenors.length) (t : Rat) (h1 : nth tenors p < t) (h2 : t ≤ nth tenors (p + 1)) :
    LevyForwardModel_df t tenors x0 = LevyForwardModel_df (nth tenors p) tenors x0 / (1 + nth x0 p * (t - nth tenors p)) :=
  gen_after_tenor _ forward_df_eq tenors x0 hlen h p hp t h1 h2

/-! #### `LevyDrivenSDEModel.df` (every model that does not override it) -/

/-- **(B)** the base model's discount factor is the constant 1: equal to 1 at time 0, positive, constant in time (hence
    continuous and non-increasing) -/
theorem src_base_df_one (s t : Rat) :
    LevyDrivenSDEModel_df 0 = 1 ∧ 0 < LevyDrivenSDEModel_df t ∧ LevyDrivenSDEModel_df s = LevyDrivenSDEModel_df t := by
  simp only [LevyDrivenSDEModel_df]
  norm_num

/-! ### the Euler scheme: the two coefficient functions of the scheme that are pure list code

`MarkovChainSDE.simulate_one_path` / `CouplingSDE.simulate_one_path_with_coupling` themselves are NumPy array programs (`@`,
`np.atleast_2d`, `.T`, in-place `+=`, slice stores): outside PyLite; their model is the hand-written `euler` / `eulerPair`
(Model/Sde.lean, tied behaviourally).  What is translated: the sde drift of the base model (`LevyDrivenSDEModel.drift`, what
`MarkovChainSDE.sde_drift` returns for every model that does not override it; the state read as the list of its entries) and
the constant coefficient `Constant.__call__` (the stored matrix as a list of rows). -/

theorem replicate_zero_getD (n k : Nat) : (List.replicate n (0 : Rat))[k]?.getD 0 = 0 := by
  rw [List.getElem?_replicate]; split <;> rfl

/-- **(B)** the base model's sde drift is the zero vector of the dimension of the state, whatever the time and the state -/
theorem src_base_drift_zero (t : Rat) (x : List Rat) :
    (LevyDrivenSDEModel_drift t x).length = x.length ∧ ∀ k, (LevyDrivenSDEModel_drift t x).getD k 0 = 0 := by
  constructor
  · simp [LevyDrivenSDEModel_drift, zeros]
  · intro k
    simp only [LevyDrivenSDEModel_drift, zeros, List.getD_eq_getElem?_getD]
    cases h : x[k]? <;> simp [h, replicate_zero_getD]

/-- **(A)** it is the model's `zeroB` -/
theorem src_base_drift_eq_model (t : Rat) (x : List Rat) (k : Nat) :
    vecOf (LevyDrivenSDEModel_drift t x) k = zeroB t (vecOf x) k := by
  unfold vecOf zeroB
  exact (src_base_drift_zero t x).2 k

/-- **(B)** `Constant.__call__` does not depend on the time or on the state -/
theorem src_constant_call_const (t t' : Rat) (x x' : List Rat) (M : List (List Rat)) :
    Constant_call t x M = Constant_call t' x' M := by
  simp only [Constant_call]

/-- **(A)** it is the model's `constA` of the stored matrix -/
theorem src_constant_call_eq_model (t : Rat) (x : List Rat) (M : List (List Rat)) :
    matOf (Constant_call t x M) = constA (matOf M) t (vecOf x) := by
  simp only [Constant_call, constA]

/-- **(B) with constant `a` the scheme gives `x0 + a·Y_T`**: the Euler recursion (hand-written `euler`) run with the TRANSLATED
    coefficient functions — sde drift = translated `LevyDrivenSDEModel.drift`, `a` = translated `Constant.__call__` with any stored
    matrix `M` — on any driver path, any number of steps, any dimensions: `X_i = x0 + M·(Y_{t_i} − Y_{t_0})`,
    `Y_t = mu·t + W_t + L_t` -/
theorem src_constant_euler (m d : Nat) (M : List (List Rat)) (mu : Vec) (P : DriverPath) (x0 : Vec) (i k : Nat) :
    euler ⟨d, fun t z => vecOf (LevyDrivenSDEModel_drift t (toList m z)),
              fun t z => matOf (Constant_call t (toList m z) M), mu⟩ P x0 i k
      = x0 k + mv d (matOf M) (fun j => mu j * (P.t i - P.t 0) + (P.W i j - P.W 0 j) + (P.L i j - P.L 0 j)) k := by
  have hb : (fun (t : Rat) (z : Vec) => vecOf (LevyDrivenSDEModel_drift t (toList m z))) = zeroB := by
    funext t z k; rw [src_base_drift_eq_model]; rfl
  have ha : (fun (t : Rat) (z : Vec) => matOf (Constant_call t (toList m z) M)) = constA (matOf M) := by
    funext t z; rw [src_constant_call_eq_model]; rfl
  rw [hb, ha]
  exact euler_constant d (matOf M) mu P x0 i k

/-- non-vacuity / value check: two steps of a 2-state, 1-driver scheme with the translated coefficients -/
example : LevyDrivenSDEModel_drift (1/2) [3, -1] = [0, 0] ∧ Constant_call (1/2) [3, -1] [[2], [5]] = [[2], [5]] := by
  constructor <;> simp [LevyDrivenSDEModel_drift, Constant_call, zeros]

/-! ### non-vacuity: a curve with unequal accrual periods (1/2, 3/2, 1/4, 3/4) and a zero rate satisfies every hypothesis -/

example : (∀ r ∈ ([1/50, 0, 1/20] : List Rat), 0 ≤ r) ∧ (∀ T ∈ ([1/2, 2, 9/4, 3] : List Rat), 0 ≤ T)
    ∧ ([1/2, 2, 9/4, 3] : List Rat).Pairwise (· < ·) ∧ ([1/2, 2, 9/4, 3] : List Rat).Pairwise (· ≤ ·)
    ∧ (∀ r ∈ ([1/50, 0, 1/20] : List Rat), r ≤ 1/20)
    ∧ 0 < ([1/50, 0, 1/20] : List Rat).length ∧ ([1/2, 2, 9/4, 3] : List Rat).length = ([1/50, 0, 1/20] : List Rat).length + 1
    ∧ (5/2 : Rat) ≤ nth [1/2, 2, 9/4, 3] ([1/50, 0, 1/20] : List Rat).length
    ∧ nth [1/2, 2, 9/4, 3] 2 < (5/2 : Rat) ∧ (5/2 : Rat) ≤ nth [1/2, 2, 9/4, 3] (2 + 1) := by
  refine ⟨?_, ?_, ?_, ?_, ?_, ?_, ?_, ?_, ?_, ?_⟩ <;> simp [nth] <;> norm_num

/-- the translated source on that curve, in the last accrual period: value checked against `LevyLiborModel(...).df(2.5)` of
    the real implementation (0.9493937527517585) -/
example : LevyLiborModel_df (5/2) [1/2, 2, 9/4, 3] [1/50, 0, 1/20] = 800000 / 842643 := by
  have h : searchLeft [1/2, 2, 9/4, 3] (5/2 : Rat) = 3 := by norm_num [searchLeft]
  rw [libor_df_eq _ _ _ (by rw [h]; simp)]
  unfold dfCurve aux
  rw [h, auxAt_succ]
  norm_num [nth, prodTo]

example : LevyForwardModel_df (1/4) [1/2, 2, 9/4, 3] [1/50, 0, 1/20] = 200 / 201 := by
  have h : searchLeft [1/2, 2, 9/4, 3] (1/4 : Rat) = 0 := by norm_num [searchLeft]
  rw [forward_df_eq _ _ _ (by rw [h]; simp)]
  unfold dfCurve aux
  rw [h]
  norm_num [nth, auxAt]

end Rpylib.SrcTie.C16
