/-
C03 — source-derived tie for the coupling probability.  `RpylibModel/Generated/SrcC03.lean` is rewritten on every run from
the text of `CouplingSimulation.probability_to_right_jump` (rpylib/process/coupling/couplingmarkovchain.py) in /repo's
current working tree; the grid is seen through its public operations (`grid[position]`, `left_point`, `right_point`, `middle`,
`origin_coordinate`) and the mass function, all function parameters.

Obligations on the translated source:
 * it is the ratio of the mass of the right half of the fine state's own cell to the mass of the whole cell, with the cell
   boundaries the chain's rates use (`middle` of the state and its clamped neighbours) — equal to the hand-written model's
   `pRight`, so `telescoping_1d` and the other theorems of Proofs/C03.lean about `pRight` are theorems about the source;
 * for an additive, non-negative mass it is a probability, and (mass of the cell) × probability / × (1 − probability) are
   exactly the masses of the right / left half of the cell: the fine rate is split between the two adjacent coarse cells with
   nothing lost — the local identity behind the telescoping.
-/
import RpylibModel.Generated.SrcC03
import RpylibModel.Model.Coupling
import Mathlib.Tactic.Linarith
import Mathlib.Tactic.FieldSimp
import Mathlib.Tactic.Ring
import Mathlib.Algebra.Order.Field.Rat

namespace Rpylib.SrcTie.C03
open Rpylib.Src.C03 Rpylib.Grid Rpylib.Cells Rpylib.Coupling

/-- the translated source, read on a list axis the way the model reads it: `grid[p] = ax[p]`, neighbours clamped at the
    ends, equals the model's `pRight` at position `origin + increment` (for positions inside the axis) -/
theorem src_pRight_eq_model (mid : Rat → Rat → Rat) (ax : List Rat) (m : Rat → Rat → Rat) (o : Nat) (inc : Int)
    (hpos : 0 ≤ (o : Int) + inc) :
    CouplingSimulation_probability_to_right_jump m inc (o : Int) mid
        (fun p => leftPoint ax p.toNat) (fun p => rightPointN ax.length ax p.toNat) (fun p => pt ax p.toNat)
      = pRight mid ax m (posOf o inc) := by
  simp only [CouplingSimulation_probability_to_right_jump, pRight, valRight, valLeft, cellLo, cellHi, cellHiN, posOf]

/-- local splitting identity on the translated source: with `L = mass(left half)`, `R = mass(right half)`, `L + R ≠ 0`,
    (L + R)·p = R and (L + R)·(1 − p) = L -/
theorem src_pRight_splits_cell (m : Rat → Rat → Rat) (inc o : Int) (mid : Rat → Rat → Rat) (lp rp at_ : Int → Rat)
    (h : m (mid (lp (o + inc)) (at_ (o + inc))) (at_ (o + inc)) + m (at_ (o + inc)) (mid (at_ (o + inc)) (rp (o + inc))) ≠ 0) :
    let p := CouplingSimulation_probability_to_right_jump m inc o mid lp rp at_
    let L := m (mid (lp (o + inc)) (at_ (o + inc))) (at_ (o + inc))
    let R := m (at_ (o + inc)) (mid (at_ (o + inc)) (rp (o + inc)))
    (L + R) * p = R ∧ (L + R) * (1 - p) = L := by
  simp only [CouplingSimulation_probability_to_right_jump]
  constructor
  · field_simp
  · field_simp
    ring

/-- it is a probability when the two half-cell masses are non-negative and not both zero -/
theorem src_pRight_is_probability (m : Rat → Rat → Rat) (inc o : Int) (mid : Rat → Rat → Rat) (lp rp at_ : Int → Rat)
    (hL : 0 ≤ m (mid (lp (o + inc)) (at_ (o + inc))) (at_ (o + inc)))
    (hR : 0 ≤ m (at_ (o + inc)) (mid (at_ (o + inc)) (rp (o + inc))))
    (h : 0 < m (mid (lp (o + inc)) (at_ (o + inc))) (at_ (o + inc)) + m (at_ (o + inc)) (mid (at_ (o + inc)) (rp (o + inc)))) :
    0 ≤ CouplingSimulation_probability_to_right_jump m inc o mid lp rp at_ ∧
      CouplingSimulation_probability_to_right_jump m inc o mid lp rp at_ ≤ 1 := by
  simp only [CouplingSimulation_probability_to_right_jump]
  constructor
  · exact div_nonneg hR (le_of_lt h)
  · rw [div_le_iff₀ h]; linarith

/-- non-vacuity: a state at 1/2 between 0 and 1, arithmetic midpoints, mass = length of the interval -/
example : CouplingSimulation_probability_to_right_jump (fun a b => b - a) 1 0 (fun a b => (a + b) / 2)
    (fun p => ((p - 1 : Int) : Rat) / 2) (fun p => ((p + 1 : Int) : Rat) / 2) (fun p => (p : Rat) / 2) = 1 / 2 := by
  simp [CouplingSimulation_probability_to_right_jump]; norm_num

end Rpylib.SrcTie.C03
