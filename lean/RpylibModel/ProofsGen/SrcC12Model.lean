/-
C12 — source-derived tie, alignment part.  The fast paths `_mass_2d`, `_mass_3d` translated from
rpylib/model/levycopulamodel.py in /repo's current working tree (RpylibModel/Generated/SrcC12.lean, rewritten on every run)
are EQUAL to the hand-written model `mass2d`, `mass3d` of Model/CopulaMass.lean for EVERY rectangle — also for the boxes
that contain the origin, where the property says nothing and the model mirrors the code's accidental value (`aux =`
overwriting instead of adding, the total-mass term dropped: finding C12-origin-box-fast-vs-general); and the value the
translated `sign` / `interval_I` give to a rectangle whose upper end point is exactly 0 (finding C12-upper-end-point-zero) is
stated.  This demands more than
the property: when it stops checking while ProofsGen/SrcC12.lean still does (e.g. after a repair of the origin boxes), the run
records "alignment lost" and explores with the boosted budget — the behavioural correspondence decides.
-/
import RpylibModel.ProofsGen.SrcC12
import Mathlib.Tactic.NormNum
import Mathlib.Tactic.Linarith

set_option linter.unusedSimpArgs false

namespace Rpylib.SrcTie.C12
open Rpylib.Src.C12 Rpylib.Py Rpylib.CopulaMass

variable (mti : List Int → List Rat → Rat) (mti1 : Int → Rat → Rat)

/-- `_mass_2d` = model `mass2d` on every rectangle, boxes containing the origin included -/
theorem src_mass2d_eq_model_all (i1 i2 : Nat) (a1 a2 b1 b2 : Rat) :
    LevyCopulaModel_mass_2d [a1, a2] [b1, b2] [(i1 : Int), (i2 : Int)] false mti mti1 =
      mass2d (tailOf mti mti1) 0 [i1, i2] [a1, a2] [b1, b2] := by
  by_cases h : (a1 < 0 ∧ 0 < b1) ∧ (a2 < 0 ∧ 0 < b2)
  · obtain ⟨⟨h1, h2⟩, ⟨h3, h4⟩⟩ := h
    simp [LevyCopulaModel_mass_2d, LevyCopulaModel_mass_1d, mass2d, mass1d, straddle, tailOf, idx0, idx1, h1, h2, h3, h4, src_volume_1d, src_volume_2d]
    try ring1
  · exact src_mass2d_eq_model mti mti1 i1 i2 a1 a2 b1 b2 h

/-- `_mass_3d` = model `mass3d` on every rectangle, boxes containing the origin included -/
theorem src_mass3d_eq_model_all (i1 i2 i3 : Nat) (a1 a2 a3 b1 b2 b3 : Rat) :
    LevyCopulaModel_mass_3d [a1, a2, a3] [b1, b2, b3] [(i1 : Int), (i2 : Int), (i3 : Int)] false mti mti1 =
      mass3d (tailOf mti mti1) 0 [i1, i2, i3] [a1, a2, a3] [b1, b2, b3] := by
  by_cases h : (a1 < 0 ∧ 0 < b1) ∧ (a2 < 0 ∧ 0 < b2) ∧ (a3 < 0 ∧ 0 < b3)
  · obtain ⟨⟨h1, h2⟩, ⟨h3, h4⟩, ⟨h5, h6⟩⟩ := h
    simp [LevyCopulaModel_mass_3d, LevyCopulaModel_mass_2d, LevyCopulaModel_mass_1d, mass3d, mass2d, mass1d, cross,
      straddle, tailOf, idx0, idx1, idx2, h1, h2, h3, h4, h5, h6, src_volume_1d, src_volume_2d, src_volume_3d]
    try ring1
  · exact src_mass3d_eq_model mti mti1 i1 i2 i3 a1 a2 a3 b1 b2 b3 h

/-- the defect of the origin boxes, read off the translated source (d = 2): the fast path differs from the general
    recursion by the total-mass term and the marginal term it overwrites -/
theorem src_mass2d_origin_box_defect (N P : Rat) (H : VanishAtInf (tailOf mti mti1) N P) (i1 i2 : Nat) (a1 a2 b1 b2 : Rat)
    (s1 : Str a1 b1) (s2 : Str a2 b2) :
    massNd (tailOf mti mti1) 0 N P [i1, i2] [a1, a2] [b1, b2] =
      LevyCopulaModel_mass_2d [a1, a2] [b1, b2] [(i1 : Int), (i2 : Int)] false mti mti1 + tailOf mti mti1 [] []
        + LevyCopulaModel_mass_1d a2 b2 i2 mti1 := by
  rw [src_mass2d_eq_model_all, src_mass1d_eq_model mti]
  exact fast2d_origin_box_defect _ 0 N P H i1 i2 a1 a2 b1 b2 ((straddle_iff_Str _ _).mpr s1) ((straddle_iff_Str _ _).mpr s2)

/-- `sign` and `interval_I` on the whole line, 0 included: `sign(0) = +1`, `I(0) = (0, +inf)` (the model's convention) -/
theorem src_sign_float (x : Rat) : sign_float x = if x < 0 then -1 else 1 := by
  unfold sign_float; split_ifs <;> first | rfl | (exfalso; linarith) | norm_num

theorem src_interval_I (x pinf ninf : Rat) :
    interval_I x pinf ninf = if x < 0 then (ninf, x) else (x, pinf) := by
  unfold interval_I; split_ifs <;> first | rfl | (exfalso; linarith)

/-- the defect of an upper end point exactly 0 (finding C12-upper-end-point-zero), read off the translated `sign` and
    `interval_I`: the "mass" of `(a, 0]`, `a < 0`, is `−ν((−inf, a]) − ν((0, +inf))` — not `ν((a, 0])`, and ≤ 0 for every
    non-negative measure -/
theorem src_mass1d_upper_end_zero_defect (nu : Int → Rat → Rat → Rat) (pinf ninf : Rat) (i : Int) (a : Rat) (ha : a < 0) :
    LevyCopulaModel_mass_1d a 0 i (tailOfMeasure nu pinf ninf) = -(nu i ninf a) - nu i 0 pinf := by
  simp only [LevyCopulaModel_mass_1d, tailOfMeasure, src_sign_float, src_interval_I, ha, if_true, lt_irrefl, if_false]
  ring

end Rpylib.SrcTie.C12
