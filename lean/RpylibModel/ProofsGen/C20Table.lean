/-
C20 — behaviour-derived tables (Generated/C20.lean is rewritten by harness/props/c20.py before every build from what the
running implementation holds): the `default_calibration` table (model type, calibrated parameter, interval, as exact
rationals of the floats) and, per `Parameters` class, the attributes that `initialisation()` rewrites (discovered by
diffing `__dict__` before / after).  The obligations below are re-checked by `lake build` against what the code is now.
-/
import RpylibModel.Generated.C20
import RpylibModel.Proofs.C20

namespace Rpylib.Params
open Rpylib.Generated.C20

/-- every row: known model type, the calibrated parameter is a constructor argument of that family in M, the interval is
    non-degenerate and inside the constraint set of the parameter's setter -/
theorem default_table_rows_ok : defaultCalibration.all rowOk = true := by decide +kernel

/-- the four calibratable families each have a row -/
theorem default_table_covers :
    ["HEM", "MERTON", "CGMY", "VG"].all (fun n => (defaultCalibration.map (fun r => r.1)).contains n) = true := by
  decide +kernel

/-- hence: every value of every default interval is accepted by the setter it will be assigned through -/
theorem default_interval_admissible (row : String × String × Rat × Rat) (h : row ∈ defaultCalibration) :
    ∃ f, famOfName row.1 = some f ∧ attrOfName row.2.1 ∈ prims f ∧ row.2.2.1 < row.2.2.2 ∧
      ∀ x, row.2.2.1 ≤ x → x ≤ row.2.2.2 → (cons f (attrOfName row.2.1)).ok x = true :=
  rowOk_sound row (List.all_eq_true.mp default_table_rows_ok row h)

/-- the attributes `initialisation()` rewrites on the implementation are exactly M's cached attributes, class by class -/
theorem derived_attrs_match : derivedAttrs.all derivedOk = true := by decide +kernel

theorem derived_attrs_cover :
    ["BlackScholesParameters", "MertonParameters", "HEMParameters", "VGParameters", "CGMYParameters"].all
      (fun n => (derivedAttrs.map (fun r => r.1)).contains n) = true := by
  decide +kernel

/-- the constructor signatures of the running classes are M's primaries, in order -/
theorem ctor_args_match : ctorArgs.all ctorOk = true := by decide +kernel

/-- every measured setter accepts / rejects the probe values exactly as M's constraint table says -/
theorem acceptance_match : acceptance.all acceptOk = true := by decide +kernel

end Rpylib.Params
