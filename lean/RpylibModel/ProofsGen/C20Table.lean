/-
C20 — behaviour-derived tables (Generated/C20.lean is rewritten by harness/props/c20.py before every build from what the
running implementation holds): the `default_calibration` table (model type, calibrated parameter, interval, as exact
rationals of the floats) and, per `Parameters` class, the attributes that `initialisation()` rewrites (discovered by
diffing `__dict__` before / after).  The obligations below are re-checked by `lake build` against what the code is now.
-/
import RpylibModel.Generated.C20
import RpylibModel.Proofs.C20

namespace Rpylib.Params
open Rpylib.Generated.C20

/-- every row: known model type, the calibrated parameter is a constructor argument of that family in M, the interval is
    non-degenerate and inside the constraint set of the parameter's setter -/
theorem default_table_rows_ok : defaultCalibration.all rowOk = true := by decide +kernel

/-- the four calibratable families each have a row -/
theorem default_table_covers :
    ["HEM", "MERTON", "CGMY", "VG"].all (fun n => (defaultCalibration.map (fun r => r.1)).contains n) = true := by
  decide +kernel

/-- hence: every value of every default interval is accepted by the setter it will be assigned through -/
theorem default_interval_admissible (row : String × String × Rat × Rat) (h : row ∈ defaultCalibration) :
    ∃ f, famOfName row.1 = some f ∧ attrOfName row.2.1 ∈ prims f ∧ row.2.2.1 < row.2.2.2 ∧
      ∀ x, row.2.2.1 ≤ x → x ≤ row.2.2.2 → (cons f (attrOfName row.2.1)).ok x = true :=
  rowOk_sound row (List.all_eq_true.mp default_table_rows_ok row h)

/-- the attributes `initialisation()` rewrites on the implementation are exactly M's cached attributes, class by class -/
theorem derived_attrs_match : derivedAttrs.all derivedOk = true := by decide +kernel

theorem derived_attrs_cover :
    ["BlackScholesParameters", "MertonParameters", "HEMParameters", "VGParameters", "CGMYParameters"].all
      (fun n => (derivedAttrs.map (fun r => r.1)).contains n) = true := by
  decide +kernel

/-- the constructor signatures of the running classes are M's primaries, in order -/
theorem ctor_args_match : ctorArgs.all ctorOk = true := by decide +kernel

/-- every measured setter accepts / rejects the probe values exactly as M's constraint table says -/
theorem acceptance_match : acceptance.all acceptOk = true := by decide +kernel

/-- **objective_is_repricing_function**: for every calibratable family, every COS pricing call made inside the calibration
    objective of the running code used ONE configuration (number of terms, cut-off, spot, r, d, strike, maturity, payoff) and
    it is the configuration of a user's default `COSPricer(model)` for the ATM call; the Black–Scholes target was evaluated at
    the requested (spot, r, d, strike = spot, maturity, sigma).  Fails at build time when the objective prices with another
    number of terms, another discounting or another forward than the repricing. -/
theorem objective_is_repricing_function : calibrationConfigs.all cfgRowOk = true := by decide +kernel

theorem objective_rows_cover :
    ["HEM", "MERTON", "CGMY", "VG"].all (fun n => (calibrationConfigs.map (fun r => r.1)).contains n) = true := by
  decide +kernel

/-- unpacked: the configurations of a measured row are well formed, the objective's is the user's, the target is the requested one -/
theorem objective_row_sound (row : String × List (List Rat) × List Rat × List (List Rat) × List Rat)
    (h : row ∈ calibrationConfigs) :
    ∃ (cfgUser : PriceCfg) (req : TargetCfg), PriceCfg.ofList row.2.2.1 = some cfgUser ∧ TargetCfg.ofList row.2.2.2.2 = some req ∧
      (∀ c ∈ row.2.1, PriceCfg.ofList c = some cfgUser) ∧ (∀ t ∈ row.2.2.2.1, TargetCfg.ofList t = some req) := by
  have hr := List.all_eq_true.mp objective_is_repricing_function row h
  simp only [cfgRowOk, Bool.and_eq_true, List.all_eq_true, Option.isSome_iff_exists, beq_iff_eq] at hr
  obtain ⟨⟨⟨⟨⟨⟨_, _⟩, h3⟩, ⟨u, hu⟩⟩, _⟩, h6⟩, ⟨q, hq⟩⟩ := hr
  exact ⟨u, q, hu, hq, fun c hc => by rw [h3 c hc]; exact hu, fun t ht => by rw [h6 t ht]; exact hq⟩

/-- hence, for the measured code: whatever the pricing function and the closed form are as functions of their
    configuration, a value returned by the calibration (objective configuration `cfgObj` and target `tgt` taken from a
    measured row) reprices the REQUESTED target under the USER's default pricer within the root finder's tolerance -/
theorem measured_calibration_reprices (row : String × List (List Rat) × List Rat × List (List Rat) × List Rat)
    (h : row ∈ calibrationConfigs) (c : List Rat) (hc : c ∈ row.2.1) (t : List Rat) (ht : t ∈ row.2.2.2.1)
    (irr : Irr) (rf : RootFinder) (tol : Rat) (hrf : rf.Contract tol) (f : Fam)
    (priceWith : PriceCfg → Dict → Rat) (bsPrice : TargetCfg → Rat) (d : Dict) (a : Attr) (lo hi x : Rat) :
    ∃ (cfgObj cfgUser : PriceCfg) (tgt req : TargetCfg),
      PriceCfg.ofList c = some cfgObj ∧ PriceCfg.ofList row.2.2.1 = some cfgUser ∧
      TargetCfg.ofList t = some tgt ∧ TargetCfg.ofList row.2.2.2.2 = some req ∧
      (calibrateCfg irr rf f priceWith bsPrice cfgObj tgt d a lo hi = some x →
        lo ≤ x ∧ x ≤ hi ∧ ∃ d2, rebuild irr f d a x = some d2 ∧ rabs (priceWith cfgUser d2 - bsPrice req) ≤ tol) := by
  obtain ⟨u, q, hu, hq, h1, h2⟩ := objective_row_sound row h
  exact ⟨u, u, q, q, h1 c hc, hu, h2 t ht, hq, fun hx =>
    calibrate_reprices_target irr rf tol hrf f priceWith bsPrice u u q q d a lo hi x rfl rfl hx⟩

end Rpylib.Params
