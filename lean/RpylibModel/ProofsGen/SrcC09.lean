/-
C09 — source-derived tie for the HEM closed forms.  `RpylibModel/Generated/SrcC09.lean` is rewritten on every run by
harness/srctie.py from the text of `_HEMLevyMeasure.integrate / integrate_against_x / integrate_against_xx`
(rpylib/model/levymodel/mixed/hem.py) in /repo's current working tree (translator: harness/py2lean.py).  `np.exp` is a function
parameter `exp : Rat → Rat`, the tests `a == -np.inf`, `b == np.inf` are Bool parameters, the depth-1 recursion
`self.integrate(a, 0.0) + self.integrate(0.0, b)` carries a fuel argument (the wrappers start with fuel 2).

Obligation: for every function `exp` the translated source computes `Σ c · exp e` over exactly the list of terms `(c, e)` that
the hand-written model returns (`Rpylib.Integrals.hemTerms`, Model/Integrals.lean) — the list whose real instance
(`evalTerms`, `exp := Real.exp`) Proofs/C09.lean proves equal to the integral of `x^k · density`.  As `exp` is arbitrary, equal
values force equal ARGUMENTS of `exp`: `eta2 * b`, `(-eta1) * a`, `-(a * eta1)` … are shown to be the same rationals on both sides.

The proofs unfold the translated definitions and finish with normalising tactics (`split_ifs`, `linarith`, `ring_nf` inside the
arguments of `exp`, `ring1`, `field_simp`), so that a harmless rewrite of the Python text (operands of a product swapped,
`-eta1 * b` ↔ `-(eta1 * b)`, a renamed local, `if` branches reordered with negated conditions) does not break them.
-/
import RpylibModel.Generated.SrcC09
import RpylibModel.Model.Integrals
import RpylibModel.Proofs.C09
import Mathlib.Tactic.Ring
import Mathlib.Tactic.Linarith
import Mathlib.Tactic.FieldSimp
import Mathlib.Algebra.Order.Field.Rat

set_option linter.unusedTactic false
set_option linter.unreachableTactic false
set_option linter.unusedSimpArgs false
set_option linter.unnecessarySeqFocus false
set_option linter.unusedVariables false

namespace Rpylib.SrcTie.C09
open Rpylib Rpylib.Integrals Rpylib.Src.C09

/-! ### 1. value of a list of terms under an arbitrary interpretation of `exp` -/

/-- `Σ c · f e` over the terms `(c, e)` -/
def evalTermsWith (f : Rat → Rat) : Terms → Rat
  | [] => 0
  | t :: ts => t.1 * f t.2 + evalTermsWith f ts

@[simp] theorem evalTermsWith_nil (f : Rat → Rat) : evalTermsWith f [] = 0 := rfl

@[simp] theorem evalTermsWith_cons (f : Rat → Rat) (t : Rat × Rat) (ts : Terms) :
    evalTermsWith f (t :: ts) = t.1 * f t.2 + evalTermsWith f ts := rfl

@[simp] theorem evalTermsWith_append (f : Rat → Rat) (s t : Terms) :
    evalTermsWith f (s ++ t) = evalTermsWith f s + evalTermsWith f t := by
  induction s with
  | nil => simp
  | cons h s ih => simp only [List.cons_append, evalTermsWith_cons, ih]; ring

/-- the same value as a sum over the list -/
theorem evalTermsWith_eq_sum (f : Rat → Rat) (ts : Terms) :
    evalTermsWith f ts = (ts.map (fun t => t.1 * f t.2)).sum := by
  induction ts with
  | nil => rfl
  | cons h s ih => simp only [evalTermsWith_cons, List.map_cons, List.sum_cons, ih]

/-! ### 2. the model's lists, case by case (statements about the hand-written model only) -/

theorem hemNegTerm_zero (w eta2 u : Rat) : hemNegTerm 0 w eta2 u = (w, eta2 * u) := rfl
theorem hemNegTerm_one (w eta2 u : Rat) : hemNegTerm 1 w eta2 u = (w * (u - 1 / eta2), eta2 * u) := rfl
theorem hemNegTerm_two (w eta2 u : Rat) :
    hemNegTerm 2 w eta2 u = (w * ((u * eta2) * (u * eta2 - 2) + 2) / eta2 ^ 2, u * eta2) := rfl
theorem hemPosTerm_zero (w eta1 u : Rat) : hemPosTerm 0 w eta1 u = (w, -eta1 * u) := rfl
theorem hemPosTerm_one (w eta1 u : Rat) : hemPosTerm 1 w eta1 u = (w * (u + 1 / eta1), -eta1 * u) := rfl
theorem hemPosTerm_two (w eta1 u : Rat) :
    hemPosTerm 2 w eta1 u = (w * ((u * eta1) * (u * eta1 + 2) + 2) / eta1 ^ 2, -(u * eta1)) := rfl

/-- `b < a`: the model returns `none` (Python raises ValueError) -/
theorem src_hem_a_gt_b (k : Nat) (lam p eta1 eta2 a b : Rat) (h : b < a) :
    hemTerms k lam p eta1 eta2 (.fin a) (.fin b) = none := by
  simp [hemTerms, ExtRat.lt, h]

/-- conversely a list is returned only for `a ≤ b` -/
theorem le_of_hemTerms_some {k : Nat} {lam p eta1 eta2 a b : Rat} {ts : Terms}
    (h : hemTerms k lam p eta1 eta2 (.fin a) (.fin b) = some ts) : a ≤ b := by
  by_contra hlt
  rw [src_hem_a_gt_b k lam p eta1 eta2 a b (not_le.mp hlt)] at h
  cases h

theorem hemTerms_neg (k : Nat) (lam p eta1 eta2 : Rat) {a b : Rat} (hab : a ≤ b) (hb : b ≤ 0) :
    hemTerms k lam p eta1 eta2 (.fin a) (.fin b)
      = some [hemNegTerm k (lam * (1 - p)) eta2 b, negTerm (hemNegTerm k (lam * (1 - p)) eta2 a)] := by
  simp [hemTerms, hemNeg, ExtRat.lt, ExtRat.le, not_lt.mpr hab, not_lt.mpr hb]

theorem hemTerms_pos (k : Nat) (lam p eta1 eta2 : Rat) {a b : Rat} (hab : a ≤ b) (ha : 0 ≤ a) (hb : 0 < b) :
    hemTerms k lam p eta1 eta2 (.fin a) (.fin b)
      = some [hemPosTerm k (lam * p) eta1 a, negTerm (hemPosTerm k (lam * p) eta1 b)] := by
  simp [hemTerms, hemPos, ExtRat.lt, ExtRat.le, not_lt.mpr hab, not_lt.mpr ha, hb]

theorem hemTerms_mid (k : Nat) (lam p eta1 eta2 : Rat) {a b : Rat} (ha : a < 0) (hb : 0 < b) :
    hemTerms k lam p eta1 eta2 (.fin a) (.fin b)
      = some [hemNegTerm k (lam * (1 - p)) eta2 0, negTerm (hemNegTerm k (lam * (1 - p)) eta2 a),
              hemPosTerm k (lam * p) eta1 0, negTerm (hemPosTerm k (lam * p) eta1 b)] := by
  have hab : ¬ b < a := not_lt.mpr (by linarith)
  simp [hemTerms, hemNeg, hemPos, ExtRat.lt, ExtRat.le, hab, ha, hb]

theorem hemTerms_negInf (k : Nat) (lam p eta1 eta2 : Rat) {b : Rat} (hb : b ≤ 0) :
    hemTerms k lam p eta1 eta2 .negInf (.fin b) = some [hemNegTerm k (lam * (1 - p)) eta2 b] := by
  simp [hemTerms, hemNeg, ExtRat.lt, ExtRat.le, not_lt.mpr hb]

theorem hemTerms_posInf (k : Nat) (lam p eta1 eta2 : Rat) {a : Rat} (ha : 0 ≤ a) :
    hemTerms k lam p eta1 eta2 (.fin a) .posInf = some [hemPosTerm k (lam * p) eta1 a] := by
  simp [hemTerms, hemPos, ExtRat.lt, ExtRat.le, not_lt.mpr ha]

theorem hemTerms_negInf_mid (k : Nat) (lam p eta1 eta2 : Rat) {b : Rat} (hb : 0 < b) :
    hemTerms k lam p eta1 eta2 .negInf (.fin b)
      = some [hemNegTerm k (lam * (1 - p)) eta2 0, hemPosTerm k (lam * p) eta1 0, negTerm (hemPosTerm k (lam * p) eta1 b)] := by
  simp [hemTerms, hemNeg, hemPos, ExtRat.lt, ExtRat.le, hb]

theorem hemTerms_posInf_mid (k : Nat) (lam p eta1 eta2 : Rat) {a : Rat} (ha : a < 0) :
    hemTerms k lam p eta1 eta2 (.fin a) .posInf
      = some [hemNegTerm k (lam * (1 - p)) eta2 0, negTerm (hemNegTerm k (lam * (1 - p)) eta2 a), hemPosTerm k (lam * p) eta1 0] := by
  simp [hemTerms, hemNeg, hemPos, ExtRat.lt, ExtRat.le, ha]

theorem hemTerms_bothInf (k : Nat) (lam p eta1 eta2 : Rat) :
    hemTerms k lam p eta1 eta2 .negInf .posInf
      = some [hemNegTerm k (lam * (1 - p)) eta2 0, hemPosTerm k (lam * p) eta1 0] := by
  simp [hemTerms, hemNeg, hemPos, ExtRat.lt, ExtRat.le]

/-- the three sign cases of finite end points `a ≤ b`, with the list the model returns in each -/
theorem hemTerms_fin_cases (k : Nat) (lam p eta1 eta2 : Rat) {a b : Rat} (hab : a ≤ b) :
    (b ≤ 0 ∧ hemTerms k lam p eta1 eta2 (.fin a) (.fin b)
        = some [hemNegTerm k (lam * (1 - p)) eta2 b, negTerm (hemNegTerm k (lam * (1 - p)) eta2 a)])
    ∨ (0 ≤ a ∧ 0 < b ∧ hemTerms k lam p eta1 eta2 (.fin a) (.fin b)
        = some [hemPosTerm k (lam * p) eta1 a, negTerm (hemPosTerm k (lam * p) eta1 b)])
    ∨ (a < 0 ∧ 0 < b ∧ hemTerms k lam p eta1 eta2 (.fin a) (.fin b)
        = some [hemNegTerm k (lam * (1 - p)) eta2 0, negTerm (hemNegTerm k (lam * (1 - p)) eta2 a),
                hemPosTerm k (lam * p) eta1 0, negTerm (hemPosTerm k (lam * p) eta1 b)]) := by
  rcases le_or_gt b 0 with hb | hb
  · exact Or.inl ⟨hb, hemTerms_neg k lam p eta1 eta2 hab hb⟩
  · rcases le_or_gt 0 a with ha | ha
    · exact Or.inr (Or.inl ⟨ha, hb, hemTerms_pos k lam p eta1 eta2 hab ha hb⟩)
    · exact Or.inr (Or.inr ⟨ha, hb, hemTerms_mid k lam p eta1 eta2 ha hb⟩)

/-! ### 3. translated source = `Σ c · exp e` over the model's list

`src_branch` closes one branch left by `split_ifs`: either the branch guards contradict the case hypotheses (`linarith`), or the
goal is an identity between the source's expression and the evaluated list; `ring_nf` normalises the ARGUMENTS of `exp` on both
sides (that is where `eta2 * b = b * eta2`, `(-eta1) * a = -(a * eta1)` … are proved), after which the applications of `exp`
are equal atoms for `ring`. -/

local macro "src_branch" : tactic => `(tactic|
  first
  | contradiction
  | (exfalso; linarith)
  | (simp only [evalTermsWith_cons, evalTermsWith_nil, hemNegTerm_zero, hemNegTerm_one, hemNegTerm_two,
        hemPosTerm_zero, hemPosTerm_one, hemPosTerm_two, negTerm]
     first
     | ring1
     | (ring_nf; done)
     | (field_simp; ring_nf; done)))

/-- mass (k = 0), finite end points: all three sign cases (the straddling one through the fuel recursion: fuel 2 suffices) -/
theorem src_hem_mass_eq_terms (a b lam p eta1 eta2 : Rat) (exp : Rat → Rat) (ts : Terms)
    (h : hemTerms 0 lam p eta1 eta2 (.fin a) (.fin b) = some ts) :
    HEMLevyMeasure_integrate a b lam p eta1 eta2 exp = evalTermsWith exp ts := by
  have hab := le_of_hemTerms_some h
  rcases hemTerms_fin_cases 0 lam p eta1 eta2 hab with ⟨hb, e⟩ | ⟨ha, hb, e⟩ | ⟨ha, hb, e⟩ <;>
  · rw [e] at h
    cases h
    simp only [HEMLevyMeasure_integrate, HEMLevyMeasure_integrate_fuel]
    (try split_ifs) <;> src_branch

/-- first moment (k = 1), finite end points, all three sign cases.  `eta1 ≠ 0`, `eta2 ≠ 0` (the divisors of the closed form; true
of every HEM parameter set) are not needed by the present text, where both sides contain the same `1 / eta`; they allow
rewrites of the Python that are only equal for a non-zero divisor, e.g. `(b * eta2 - 1) / eta2` for `b - 1 / eta2` -/
theorem src_hem_x_eq_terms (a b lam p eta1 eta2 : Rat) (exp : Rat → Rat) (ts : Terms) (h1 : eta1 ≠ 0) (h2 : eta2 ≠ 0)
    (h : hemTerms 1 lam p eta1 eta2 (.fin a) (.fin b) = some ts) :
    HEMLevyMeasure_integrate_against_x a b lam p eta1 eta2 false false exp = evalTermsWith exp ts := by
  have hab := le_of_hemTerms_some h
  rcases hemTerms_fin_cases 1 lam p eta1 eta2 hab with ⟨hb, e⟩ | ⟨ha, hb, e⟩ | ⟨ha, hb, e⟩ <;>
  · rw [e] at h
    cases h
    simp only [HEMLevyMeasure_integrate_against_x, HEMLevyMeasure_integrate_against_x_fuel, Bool.false_eq_true, if_false]
    (try split_ifs) <;> src_branch

/-- second moment (k = 2), finite end points, all three sign cases -/
theorem src_hem_xx_eq_terms (a b lam p eta1 eta2 : Rat) (exp : Rat → Rat) (ts : Terms) (h1 : eta1 ≠ 0) (h2 : eta2 ≠ 0)
    (h : hemTerms 2 lam p eta1 eta2 (.fin a) (.fin b) = some ts) :
    HEMLevyMeasure_integrate_against_xx a b lam p eta1 eta2 false false exp = evalTermsWith exp ts := by
  have hab := le_of_hemTerms_some h
  rcases hemTerms_fin_cases 2 lam p eta1 eta2 hab with ⟨hb, e⟩ | ⟨ha, hb, e⟩ | ⟨ha, hb, e⟩ <;>
  · rw [e] at h
    cases h
    simp only [HEMLevyMeasure_integrate_against_xx, HEMLevyMeasure_integrate_against_xx_fuel, Bool.false_eq_true, if_false]
    (try split_ifs) <;> src_branch

/-! ### 4. infinite end points

The Bool parameter stands for the test `a == -np.inf` (`b == np.inf`); the `Rat`-typed end point it replaces is then any value
that passes the guards the source tests first (`a ≤ b`, and `b ≤ 0` resp. `0 ≤ a`, `0 < b`).  The mass (k = 0) has no
infinite-end special case in the Python (it relies on `np.exp(-inf) = 0` in floats), so nothing is expressible for it here. -/

/-- first moment on `(-inf, b]`, `b ≤ 0` -/
theorem src_hem_x_neg_inf (a b lam p eta1 eta2 : Rat) (exp : Rat → Rat) (ts : Terms) (h2 : eta2 ≠ 0) (hab : a ≤ b) (hb : b ≤ 0)
    (h : hemTerms 1 lam p eta1 eta2 .negInf (.fin b) = some ts) :
    HEMLevyMeasure_integrate_against_x a b lam p eta1 eta2 true false exp = evalTermsWith exp ts := by
  rw [hemTerms_negInf 1 lam p eta1 eta2 hb] at h
  cases h
  simp only [HEMLevyMeasure_integrate_against_x, HEMLevyMeasure_integrate_against_x_fuel, Bool.false_eq_true, if_false, if_true]
  (try split_ifs) <;> src_branch

/-- second moment on `(-inf, b]`, `b ≤ 0` -/
theorem src_hem_xx_neg_inf (a b lam p eta1 eta2 : Rat) (exp : Rat → Rat) (ts : Terms) (h2 : eta2 ≠ 0) (hab : a ≤ b) (hb : b ≤ 0)
    (h : hemTerms 2 lam p eta1 eta2 .negInf (.fin b) = some ts) :
    HEMLevyMeasure_integrate_against_xx a b lam p eta1 eta2 true false exp = evalTermsWith exp ts := by
  rw [hemTerms_negInf 2 lam p eta1 eta2 hb] at h
  cases h
  simp only [HEMLevyMeasure_integrate_against_xx, HEMLevyMeasure_integrate_against_xx_fuel, Bool.false_eq_true, if_false, if_true]
  (try split_ifs) <;> src_branch

/-- first moment on `[a, +inf)`, `a ≥ 0` (`b` any value with `a ≤ b`, `0 < b`: the source tests `b <= 0` before `a >= 0`) -/
theorem src_hem_x_pos_inf (a b lam p eta1 eta2 : Rat) (exp : Rat → Rat) (ts : Terms) (h1 : eta1 ≠ 0) (hab : a ≤ b) (ha : 0 ≤ a) (hb : 0 < b)
    (h : hemTerms 1 lam p eta1 eta2 (.fin a) .posInf = some ts) :
    HEMLevyMeasure_integrate_against_x a b lam p eta1 eta2 false true exp = evalTermsWith exp ts := by
  rw [hemTerms_posInf 1 lam p eta1 eta2 ha] at h
  cases h
  simp only [HEMLevyMeasure_integrate_against_x, HEMLevyMeasure_integrate_against_x_fuel, Bool.false_eq_true, if_false, if_true]
  (try split_ifs) <;> src_branch

/-- second moment on `[a, +inf)`, `a ≥ 0` -/
theorem src_hem_xx_pos_inf (a b lam p eta1 eta2 : Rat) (exp : Rat → Rat) (ts : Terms) (h1 : eta1 ≠ 0) (hab : a ≤ b) (ha : 0 ≤ a) (hb : 0 < b)
    (h : hemTerms 2 lam p eta1 eta2 (.fin a) .posInf = some ts) :
    HEMLevyMeasure_integrate_against_xx a b lam p eta1 eta2 false true exp = evalTermsWith exp ts := by
  rw [hemTerms_posInf 2 lam p eta1 eta2 ha] at h
  cases h
  simp only [HEMLevyMeasure_integrate_against_xx, HEMLevyMeasure_integrate_against_xx_fuel, Bool.false_eq_true, if_false, if_true]
  (try split_ifs) <;> src_branch

/-! straddling intervals with infinite end points (through the fuel recursion, which passes the flag of the infinite side on) -/

/-- first moment on `(-inf, b]`, `b > 0` -/
theorem src_hem_x_neg_inf_mid (a b lam p eta1 eta2 : Rat) (exp : Rat → Rat) (ts : Terms) (h1 : eta1 ≠ 0) (h2 : eta2 ≠ 0)
    (ha : a < 0) (hb : 0 < b)
    (h : hemTerms 1 lam p eta1 eta2 .negInf (.fin b) = some ts) :
    HEMLevyMeasure_integrate_against_x a b lam p eta1 eta2 true false exp = evalTermsWith exp ts := by
  rw [hemTerms_negInf_mid 1 lam p eta1 eta2 hb] at h
  cases h
  simp only [HEMLevyMeasure_integrate_against_x, HEMLevyMeasure_integrate_against_x_fuel, Bool.false_eq_true, if_false, if_true]
  (try split_ifs) <;> src_branch

/-- second moment on `(-inf, b]`, `b > 0` -/
theorem src_hem_xx_neg_inf_mid (a b lam p eta1 eta2 : Rat) (exp : Rat → Rat) (ts : Terms) (h1 : eta1 ≠ 0) (h2 : eta2 ≠ 0)
    (ha : a < 0) (hb : 0 < b)
    (h : hemTerms 2 lam p eta1 eta2 .negInf (.fin b) = some ts) :
    HEMLevyMeasure_integrate_against_xx a b lam p eta1 eta2 true false exp = evalTermsWith exp ts := by
  rw [hemTerms_negInf_mid 2 lam p eta1 eta2 hb] at h
  cases h
  simp only [HEMLevyMeasure_integrate_against_xx, HEMLevyMeasure_integrate_against_xx_fuel, Bool.false_eq_true, if_false, if_true]
  (try split_ifs) <;> src_branch

/-- first moment on `[a, +inf)`, `a < 0` -/
theorem src_hem_x_pos_inf_mid (a b lam p eta1 eta2 : Rat) (exp : Rat → Rat) (ts : Terms) (h1 : eta1 ≠ 0) (h2 : eta2 ≠ 0)
    (ha : a < 0) (hb : 0 < b)
    (h : hemTerms 1 lam p eta1 eta2 (.fin a) .posInf = some ts) :
    HEMLevyMeasure_integrate_against_x a b lam p eta1 eta2 false true exp = evalTermsWith exp ts := by
  rw [hemTerms_posInf_mid 1 lam p eta1 eta2 ha] at h
  cases h
  simp only [HEMLevyMeasure_integrate_against_x, HEMLevyMeasure_integrate_against_x_fuel, Bool.false_eq_true, if_false, if_true]
  (try split_ifs) <;> src_branch

/-- second moment on `[a, +inf)`, `a < 0` -/
theorem src_hem_xx_pos_inf_mid (a b lam p eta1 eta2 : Rat) (exp : Rat → Rat) (ts : Terms) (h1 : eta1 ≠ 0) (h2 : eta2 ≠ 0)
    (ha : a < 0) (hb : 0 < b)
    (h : hemTerms 2 lam p eta1 eta2 (.fin a) .posInf = some ts) :
    HEMLevyMeasure_integrate_against_xx a b lam p eta1 eta2 false true exp = evalTermsWith exp ts := by
  rw [hemTerms_posInf_mid 2 lam p eta1 eta2 ha] at h
  cases h
  simp only [HEMLevyMeasure_integrate_against_xx, HEMLevyMeasure_integrate_against_xx_fuel, Bool.false_eq_true, if_false, if_true]
  (try split_ifs) <;> src_branch

/-- first moment on the whole line -/
theorem src_hem_x_both_inf (a b lam p eta1 eta2 : Rat) (exp : Rat → Rat) (ts : Terms) (h1 : eta1 ≠ 0) (h2 : eta2 ≠ 0)
    (ha : a < 0) (hb : 0 < b)
    (h : hemTerms 1 lam p eta1 eta2 .negInf .posInf = some ts) :
    HEMLevyMeasure_integrate_against_x a b lam p eta1 eta2 true true exp = evalTermsWith exp ts := by
  rw [hemTerms_bothInf 1 lam p eta1 eta2] at h
  cases h
  simp only [HEMLevyMeasure_integrate_against_x, HEMLevyMeasure_integrate_against_x_fuel, Bool.false_eq_true, if_false, if_true]
  (try split_ifs) <;> src_branch

/-- second moment on the whole line -/
theorem src_hem_xx_both_inf (a b lam p eta1 eta2 : Rat) (exp : Rat → Rat) (ts : Terms) (h1 : eta1 ≠ 0) (h2 : eta2 ≠ 0)
    (ha : a < 0) (hb : 0 < b)
    (h : hemTerms 2 lam p eta1 eta2 .negInf .posInf = some ts) :
    HEMLevyMeasure_integrate_against_xx a b lam p eta1 eta2 true true exp = evalTermsWith exp ts := by
  rw [hemTerms_bothInf 2 lam p eta1 eta2] at h
  cases h
  simp only [HEMLevyMeasure_integrate_against_xx, HEMLevyMeasure_integrate_against_xx_fuel, Bool.false_eq_true, if_false, if_true]
  (try split_ifs) <;> src_branch

/-! ### 5. tie to the analysis

`Rpylib.Integrals.evalTerms ts` (Proofs/Lemmas/C09Terms.lean) is `Σ (c : ℝ) · Real.exp (e : ℝ)` over the same list, and
`hem_correct` (Proofs/C09.lean) proves it equal to `∫ x in a..b, x ^ k * hemDensity …`.  So the translated source computes, for
every interpretation of `exp`, the linear combination `Σ c · exp e` whose real instance is the integral. -/

/-- the cast of `evalTermsWith f` is `evalTerms` with `Real.exp` replaced by (the cast of) `f` -/
theorem evalTermsWith_cast (f : Rat → Rat) (ts : Terms) :
    ((evalTermsWith f ts : ℚ) : ℝ) = (ts.map (fun t => ((t.1 : ℚ) : ℝ) * ((f t.2 : ℚ) : ℝ))).sum := by
  induction ts with
  | nil => simp
  | cons h s ih => simp only [evalTermsWith_cons, List.map_cons, List.sum_cons, ← ih]; push_cast; rfl

/-- `evalTerms` is the same sum with `Real.exp` -/
theorem evalTerms_eq_sum (ts : Terms) :
    evalTerms ts = (ts.map (fun t => ((t.1 : ℚ) : ℝ) * Real.exp ((t.2 : ℚ) : ℝ))).sum := rfl

/-- the translated source for the power `k` of x, finite end points -/
def srcHem (k : Nat) (a b lam p eta1 eta2 : Rat) (exp : Rat → Rat) : Rat :=
  match k with
  | 0 => HEMLevyMeasure_integrate a b lam p eta1 eta2 exp
  | 1 => HEMLevyMeasure_integrate_against_x a b lam p eta1 eta2 false false exp
  | _ => HEMLevyMeasure_integrate_against_xx a b lam p eta1 eta2 false false exp

/-- one list `ts` of terms: the translated source is `Σ c · exp e` over it for every `exp`, and its real instance
`Σ c · Real.exp e` is the integral of `x^k · density` over `[a, b]` -/
theorem src_hem_real_instance_is_integral (k : ℕ) (hk : k ≤ 2) (lam p eta1 eta2 a b : ℚ) (h1 : eta1 ≠ 0) (h2 : eta2 ≠ 0)
    (hab : a ≤ b) :
    ∃ ts, hemTerms k lam p eta1 eta2 (.fin a) (.fin b) = some ts
      ∧ (∀ exp : Rat → Rat, srcHem k a b lam p eta1 eta2 exp = evalTermsWith exp ts)
      ∧ evalTerms ts = ∫ x in (a : ℝ)..(b : ℝ), x ^ k * hemDensity lam p eta1 eta2 x := by
  obtain ⟨ts, hts, hint⟩ := hem_correct k hk lam p eta1 eta2 a b h1 h2 hab
  refine ⟨ts, hts, fun exp => ?_, hint⟩
  interval_cases k
  · exact src_hem_mass_eq_terms a b lam p eta1 eta2 exp ts hts
  · exact src_hem_x_eq_terms a b lam p eta1 eta2 exp ts h1 h2 hts
  · exact src_hem_xx_eq_terms a b lam p eta1 eta2 exp ts h1 h2 hts

/-! ### non-vacuity: the translated source on concrete numbers (`exp := fun _ => 1`, and an `exp` that separates arguments) -/

example : HEMLevyMeasure_integrate (-1) 2 3 (1/4) 2 5 (fun _ => 1) = 0 := by
  simp only [HEMLevyMeasure_integrate, HEMLevyMeasure_integrate_fuel]; norm_num
example : HEMLevyMeasure_integrate_against_x (-1) 2 3 (1/4) 2 5 false false (fun _ => 1) = 3/4 := by
  simp only [HEMLevyMeasure_integrate_against_x, HEMLevyMeasure_integrate_against_x_fuel]; norm_num
example : HEMLevyMeasure_integrate_against_xx (-1) 2 3 (1/4) 2 5 false false (fun _ => 1) = -153/20 := by
  simp only [HEMLevyMeasure_integrate_against_xx, HEMLevyMeasure_integrate_against_xx_fuel]; norm_num
example : HEMLevyMeasure_integrate (-1) 2 3 (1/4) 2 5 (fun x => x) = 57/4 := by
  simp only [HEMLevyMeasure_integrate, HEMLevyMeasure_integrate_fuel]; norm_num
example : HEMLevyMeasure_integrate_against_x (-7) 2 3 (1/4) 2 5 true false (fun x => x) = 15/2 := by
  simp only [HEMLevyMeasure_integrate_against_x, HEMLevyMeasure_integrate_against_x_fuel]; norm_num
example : HEMLevyMeasure_integrate_against_xx (-1) 2 3 (1/4) 2 5 true true (fun x => x + 1) = 111/200 := by
  simp only [HEMLevyMeasure_integrate_against_xx, HEMLevyMeasure_integrate_against_xx_fuel]; norm_num
example : hemTerms 0 3 (1/4) 2 5 (.fin (-1)) (.fin 2) = some [(9/4, 0), (-9/4, -5), (3/4, 0), (-3/4, -4)] := by
  rw [hemTerms_mid 0 3 (1/4) 2 5 (by norm_num) (by norm_num)]
  simp only [hemNegTerm_zero, hemPosTerm_zero, negTerm]; norm_num
/-- the theorem instantiated: source value = value of the model's list -/
example : HEMLevyMeasure_integrate (-1) 2 3 (1/4) 2 5 (fun x => x)
    = evalTermsWith (fun x => x) [(9/4, 0), (-9/4, -5), (3/4, 0), (-3/4, -4)] := by
  refine src_hem_mass_eq_terms (-1) 2 3 (1/4) 2 5 _ _ ?_
  rw [hemTerms_mid 0 3 (1/4) 2 5 (by norm_num) (by norm_num)]
  simp only [hemNegTerm_zero, hemPosTerm_zero, negTerm]; norm_num

end Rpylib.SrcTie.C09
