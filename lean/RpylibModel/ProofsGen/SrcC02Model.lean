/-
C02 — alignment of the translated samplers with the hand-written model (demands more than the property: the exact cut point
of the adapted bisection).  Losing it is recorded, never a violation.
-/
import RpylibModel.ProofsGen.SrcC02
import RpylibModel.Model.Samplers
import Mathlib.Tactic.Linarith
import Mathlib.Tactic.Ring
import Mathlib.Algebra.Order.Field.Rat

set_option linter.unusedTactic false
set_option linter.unreachableTactic false
set_option linter.unusedVariables false

namespace Rpylib.SrcTie.C02
open Rpylib.Src.C02 Rpylib.Py

/-! ## one-dimensional adapted bisection = `Adapted.draw` -/

/-- for additive range probabilities the model's `rangeMass` of the single-cell masses is the range probability -/
theorem rangeMass_eq (cp : Rat → Rat → Rat) (axis : List Rat) (lo hi : Nat) (hadd : Additive cp axis lo hi) :
    ∀ (d l : Nat), lo ≤ l → l + d ≤ hi →
      Adapted.rangeMass (fun i => rangeP cp axis (i : Int) (i : Int)) l (l + d) = rangeP cp axis (l : Int) ((l + d : Nat) : Int) := by
  intro d
  induction d with
  | zero =>
    intro l _ _
    simp [Adapted.rangeMass]
  | succ d ih =>
    intro l h1 h2
    have e : l + (d + 1) + 1 - l = (l + d + 1 - l) + 1 := by omega
    have := ih l h1 (by omega)
    unfold Adapted.rangeMass at this ⊢
    rw [e, List.range_succ, List.map_append, List.sum_append, this]
    simp only [List.map_cons, List.map_nil, List.sum_cons, List.sum_nil, add_zero]
    have e2 : l + (l + d + 1 - l) = l + (d + 1) := by omega
    rw [e2, hadd (l : Int) ((l + d : Nat) : Int) ((l + (d + 1) : Nat) : Int) (by omega) (by omega) (by omega) (by omega)]
    congr 2 <;> (push_cast; ring)

theorem bisect_sim (cp : Rat → Rat → Rat) (axis : List Rat) (lo hi : Nat) (hadd : Additive cp axis lo hi)
    {cond : Int × Int × Rat → Bool} {body : Int × Int × Rat → Int × Int × Rat}
    (hcond : ∀ c l h, cond (l, h, c) = true ↔ l ≠ h)
    (hbody : ∀ c (l h : Nat), l < h → body ((l : Int), (h : Int), c) =
      if rangeP cp axis l (((l + h) / 2 : Nat) : Int) < c
      then ((((l + h) / 2 + 1 : Nat) : Int), (h : Int), c - rangeP cp axis l (((l + h) / 2 : Nat) : Int))
      else ((l : Int), (((l + h) / 2 : Nat) : Int), c)) :
    ∀ (fuel l h : Nat) (c : Rat), lo ≤ l → l ≤ h → h ≤ hi → h - l ≤ fuel →
      ∃ s', whileLoop cond body fuel ((l : Int), (h : Int), c) = some s' ∧
        s'.1 = ((Adapted.bisect (fun i => rangeP cp axis (i : Int) (i : Int)) fuel l h c : Nat) : Int) := by
  intro fuel
  induction fuel with
  | zero =>
    intro l h c _ h2 _ hf
    have hlh : l = h := by omega
    subst hlh
    have hc : cond ((l : Int), (l : Int), c) = false := by
      cases hcc : cond ((l : Int), (l : Int), c) with
      | false => rfl
      | true => exact absurd rfl ((hcond c l l).mp hcc)
    exact ⟨_, by simp only [whileLoop, hc]; rfl, rfl⟩
  | succ n ih =>
    intro l h c h1 h2 h3 hf
    by_cases hne : l = h
    · subst hne
      have hc : cond ((l : Int), (l : Int), c) = false := by
        cases hcc : cond ((l : Int), (l : Int), c) with
        | false => rfl
        | true => exact absurd rfl ((hcond c l l).mp hcc)
      exact ⟨_, by simp only [whileLoop, hc]; rfl, by simp [Adapted.bisect]⟩
    · have hc : cond ((l : Int), (h : Int), c) = true := (hcond c l h).mpr (by exact_mod_cast hne)
      have hlt : l < h := lt_of_le_of_ne h2 hne
      have hm : Adapted.rangeMass (fun i => rangeP cp axis (i : Int) (i : Int)) l ((l + h) / 2) =
          rangeP cp axis l (((l + h) / 2 : Nat) : Int) := by
        have := rangeMass_eq cp axis lo hi hadd ((l + h) / 2 - l) l h1 (by omega)
        rw [show l + ((l + h) / 2 - l) = (l + h) / 2 by omega] at this
        exact this
      simp only [whileLoop, hc, if_true, hbody c l h hlt, Adapted.bisect, if_neg hne, hm]
      by_cases hp : rangeP cp axis l (((l + h) / 2 : Nat) : Int) < c
      · rw [if_pos hp, if_pos (show c > _ from hp), show min h ((l + h) / 2 + 1) = (l + h) / 2 + 1 by omega]
        exact ih _ _ _ (by omega) (by omega) h3 (by omega)
      · rw [if_neg hp, if_neg (show ¬ c > _ from hp)]
        exact ih _ _ _ h1 (by omega) (by omega) (by omega)

/-- the same for a loop met in a goal (`generalize hw : whileLoop _ _ _ _ = r`), the initial indices given as integers -/
theorem bisect_sim' (cp : Rat → Rat → Rat) (axis : List Rat) {cond : Int × Int × Rat → Bool}
    {body : Int × Int × Rat → Int × Int × Rat} {fuel : Nat} {c : Rat} {li hi' : Int} {r : Option (Int × Int × Rat)}
    (hw : whileLoop cond body fuel (li, hi', c) = r) (lo hi l h : Nat) (hadd : Additive cp axis lo hi)
    (hl : li = (l : Int)) (hh : hi' = (h : Int))
    (hcond : ∀ c l h, cond (l, h, c) = true ↔ l ≠ h)
    (hbody : ∀ c (l h : Nat), l < h → body ((l : Int), (h : Int), c) =
      if rangeP cp axis l (((l + h) / 2 : Nat) : Int) < c
      then ((((l + h) / 2 + 1 : Nat) : Int), (h : Int), c - rangeP cp axis l (((l + h) / 2 : Nat) : Int))
      else ((l : Int), (((l + h) / 2 : Nat) : Int), c))
    (h1 : lo ≤ l) (h2 : l ≤ h) (h3 : h ≤ hi) (hf : h - l ≤ fuel) :
    ∃ s', r = some s' ∧ s'.1 = ((Adapted.bisect (fun i => rangeP cp axis (i : Int) (i : Int)) fuel l h c : Nat) : Int) := by
  subst hl hh
  obtain ⟨s', e, hs⟩ := bisect_sim cp axis lo hi hadd hcond hbody fuel l h c h1 h2 h3 hf
  exact ⟨s', by rw [← hw, e], hs⟩

-- the generated loop satisfies the hypotheses of `bisect_sim` (exact cut point)
set_option hygiene false in
macro "adapted_loop_exact" lo:term "," hi:term "," hadd:term : tactic => `(tactic|
  (generalize hw : whileLoop _ _ _ _ = r
   obtain ⟨s', e, hs'⟩ := bisect_sim' cp axis hw $lo $hi $lo $hi $hadd (by omega) (by omega)
     (by intro c l h; simp only [decide_eq_true_eq])
     (by
       intro c l h hlh
       simp only [Int.fdiv_eq_ediv_of_nonneg _ (show (0 : Int) ≤ 2 by norm_num)]
       generalize hm : (_ + _) / (2 : Int) = m
       have hmN : m = (((l + h) / 2 : Nat) : Int) := by omega
       subst hmN
       have hmin1 : imin (h : Int) ((((l + h) / 2 : Nat) : Int) + 1) = (((l + h) / 2 + 1 : Nat) : Int) := by
         unfold imin; split_ifs <;> omega
       have hmin2 : imin ((((l + h) / 2 : Nat) : Int) + 1) (h : Int) = (((l + h) / 2 + 1 : Nat) : Int) := by
         unfold imin; split_ifs <;> omega
       generalize hp : cp _ _ = pv
       have hpv : pv = rangeP cp axis l (((l + h) / 2 : Nat) : Int) := by rw [← hp]; unfold rangeP; congr 1 <;> ring1
       subst hpv
       split_ifs with h1 h2 <;> first | (exfalso; linarith) | (simp only [hmin1, hmin2]; try rfl))
     (le_refl _) (by omega) (le_refl _) (by omega)
   subst e))

/-- (A) with the sides the constructor stores and additive range probabilities on each side, the translated sampler is
    the model's `Adapted.draw` on the single-cell masses `w i = P[i .. i]`, shifted by the origin -/
theorem src_adapted1d_eq_model (u : Rat) (axis : List Rat) (pLeft : Rat) (o : Nat) (cp : Rat → Rat → Rat)
    (ho : 0 < o) (hon : o + 1 ≤ axis.length - 1)
    (haddL : Additive cp axis ((0 : Nat) : Int) ((o - 1 : Nat) : Int))
    (haddR : Additive cp axis ((o + 1 : Nat) : Int) ((axis.length - 1 : Nat) : Int)) :
    BinarySearchTreeAdapted1D_sample_with_u u axis (0, (o : Int) - 1) ((o : Int) + 1, (axis.length : Int) - 1) pLeft o cp =
      ((Adapted.draw (fun i => rangeP cp axis (i : Int) (i : Int)) axis.length o pLeft u : Nat) : Int) - o := by
  simp only [BinarySearchTreeAdapted1D_sample_with_u, Adapted.draw]
  split_ifs with hside
  · adapted_loop_exact (o + 1), (axis.length - 1), haddR
    simp only []; rw [hs']
  · adapted_loop_exact 0, (o - 1), haddL
    simp only []; rw [hs']

end Rpylib.SrcTie.C02
