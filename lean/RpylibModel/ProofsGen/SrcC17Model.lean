/-
C17 — source-derived tie, alignment part.  The definitions translated from rpylib/product/payoff.py in /repo's current working
tree (RpylibModel/Generated/SrcC17.lean, rewritten on every run) are EQUAL to the hand-written model of Model/Payoff.lean, so
every theorem of Proofs/C17.lean about the model is a theorem about the translated source.  This file demands more than the
property does (e.g. the value exactly at the strike); when it stops checking while ProofsGen/SrcC17.lean still does, the run
records "alignment lost" and explores with the boosted budget — the behavioural correspondence decides.
-/
import RpylibModel.Generated.SrcC17
import RpylibModel.Model.Payoff
import Mathlib.Tactic.Linarith
import Mathlib.Algebra.Order.Field.Rat

namespace Rpylib.SrcTie.C17
open Rpylib.Src.C17 Rpylib.Py


theorem src_fixedcoupon_eq_model (u c : Rat) : FixedCoupon_evaluate u c = c := rfl

theorem src_forward_eq_model (u K : Rat) : Forward_evaluate u K = Rpylib.Payoff.forward u K := rfl

/-- `Vanilla.__init__` sets `_call_put` to 1 (call) or -1 (put) -/
theorem src_vanilla_eq_model (isCall : Bool) (u K : Rat) :
    Vanilla_evaluate u K (if isCall then 1 else -1) = Rpylib.Payoff.vanilla isCall u K := by
  cases isCall <;> simp [Vanilla_evaluate, Rpylib.Payoff.vanilla, rmax, Rpylib.Payoff.rmax]

theorem src_callspread_eq_model (u K1 K2 : Rat) :
    CallSpread_evaluate u K1 K2 = Rpylib.Payoff.callSpread u K1 K2 := by
  simp [CallSpread_evaluate, Rpylib.Payoff.callSpread, rmax, Rpylib.Payoff.rmax]

theorem src_digital_eq_model (isCall : Bool) (u K : Rat) :
    Digital_evaluate u K isCall = Rpylib.Payoff.digital isCall u K := by
  cases isCall <;> simp [Digital_evaluate, Rpylib.Payoff.digital]

end Rpylib.SrcTie.C17
