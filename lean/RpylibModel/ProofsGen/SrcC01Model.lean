/-
C01 — source-derived tie, ALIGNMENT part (losing it is recorded as "alignment lost", never a violation): statements that demand
more than the property — the general loop of `compute_intensity_of_jumps` (translated with `dimension_model() != 1`) equals
the hand-written model's `intensityNd` *term by term in itertools' order*; a rewrite that visits the 3^d − 1 blocks in another
order keeps the property and loses this equality.  What follows from the equality through the model's n-d theorems
(`sum_rates_eq_intensity_nd`, `rates_nonneg_nd`, every dimension) is stated here too:
  * `src_intensity_nd_eq_model`, `src_chain_intensity_nd_eq_model`: (A) the translated loop = `intensityNd`;
  * `src_nd_intensity_eq_sum_rates`: the intensity the copula chain reports = Σ over all states of the product grid of the box
    masses of their cells;
  * `src_prob_nd_sum_one`: the inversion sampler's probabilities of the non-origin states sum to 1.
The same loop specialised to d = 1 is tied in `SrcC01.lean` with order-insensitive proofs.
-/
import RpylibModel.ProofsGen.SrcC01

set_option linter.unusedVariables false
set_option linter.unusedSectionVars false
set_option linter.unusedSimpArgs false
set_option linter.unnecessarySeqFocus false
set_option linter.unreachableTactic false
set_option linter.unusedTactic false

namespace Rpylib.SrcTie.C01
open Rpylib.Src.C01 Rpylib.Py Rpylib.Grid Rpylib.Cells Finset

/-- the list `intervals` of `compute_intensity_of_jumps`: per axis the centre, left and right interval, as 2-element lists -/
theorem intervals_eq (axes : List (List Rat)) (HL HR : List Rat → Rat) (F : Int × (Rat × Rat) → List (List Rat))
    (hF : ∀ k hl hr, F (k, (hl, hr)) = [[hl, hr], [idx (idx axes k) 0, hl], [hr, idx (idx axes k) (-1)]]) :
    (enumerate (List.zip (axes.map HL) (axes.map HR))).map F
      = (axes.map (fun ax => [(HL ax, HR ax), (pt ax 0, HL ax), (HR ax, pt ax (ax.length - 1))])).map (List.map ivl) := by
  apply List.ext_getElem
  · simp [enumerate_length]
  · intro i h1 h2
    have hi : i < axes.length := by simpa using h2
    simp only [List.getElem_map, enumerate_getElem, List.getElem_zip, hF, idx_nat_gen axes i hi, idx_neg_one]
    rw [show (0 : Int) = ((0 : Nat) : Int) from rfl, idx_nat]
    rfl

theorem foldl_add_eq_sum' {α : Type} (f : α → Rat) (step : Rat → α → Rat) (hstep : ∀ acc x, step acc x = acc + f x)
    (l : List α) (a : Rat) : l.foldl step a = a + (l.map f).sum := by
  have : step = fun acc x => acc + f x := by funext acc x; exact hstep acc x
  rw [this]; exact foldl_add_eq_sum f l a

/-- (A, alignment) the general loop of `compute_intensity_of_jumps` is the model's `intensityNd`: the sum of the box masses of
    the `3^d − 1` blocks, in itertools' order, for every dimension; `h_left / h_right` are the tuples of the ends of the
    origin's cell on each axis, `model.mass(a, b)` is the mass of the box with lower corner `a` and upper corner `b` -/
theorem src_intensity_nd_eq_model (mid : Rat → Rat → Rat) (axes : List (List Rat)) (o : Nat) (m : Box → Rat)
    (os : List Int) (g0 : List Rat) (middle : List Rat → List Rat → List Rat) (lp rp : List Int → List Rat)
    (hL : middle (lp os) g0 = axes.map (fun ax => hLeft mid ax o))
    (hR : middle g0 (rp os) = axes.map (fun ax => hRight mid ax.length ax o)) :
    compute_intensity_of_jumps_nd os g0 axes (fun a b => m (List.zip a b)) middle lp rp = intensityNd mid axes o m := by
  simp only [compute_intensity_of_jumps_nd]
  rw [hL, hR, intervals_eq axes _ _ _ (by intros; rfl), py_cartesian_eq, cartesian_map_elems, ← List.map_drop,
    foldl_add_eq_sum' (fun x => m (List.zip (idx (transpose x) 0) (idx (transpose x) 1))) _ (by intros; rfl),
    List.map_map]
  unfold intensityNd blocks parts
  simp only [Int.cast_zero, zero_add]
  congr 1
  apply List.map_congr_left
  intro box _
  simp only [Function.comp]
  rw [(transpose_ivl box).1, (transpose_ivl box).2, zip_map_fst_snd]

/-- the intensity of the copula chain as built: translated n-d grid operations, `grid.origin_coordinate = [o] * d`,
    `grid.origin = (0.0,) * d` (spatial.py:45-47) -/
def chainIntensityNd (axes : List (List Rat)) (o : Nat) (m : Box → Rat) : Rat :=
  compute_intensity_of_jumps_nd (axes.map (fun _ => (o : Int))) (axes.map (fun _ => (0 : Rat))) axes
    (fun a b => m (List.zip a b)) CTMCGrid_middle_nd (fun c => CTMCGrid_left_point_nd c axes)
    (fun c => CTMCGrid_right_point_nd c axes)

/-- (A, alignment) … with the translated n-d grid operations: the model's `intensityNd` for the arithmetic mean -/
theorem src_chain_intensity_nd_eq_model (axes : List (List Rat)) (o : Nat) (m : Box → Rat) :
    chainIntensityNd axes o m = intensityNd amid axes o m := by
  unfold chainIntensityNd
  apply src_intensity_nd_eq_model amid axes o m
  · rw [src_left_point_nd_eq axes _ (by simp), src_middle_nd_eq]
    apply List.ext_getElem
    · simp
    · intro i h1 h2
      simp [src_left_point_eq_model, src_middle_eq_model, hLeft]
  · rw [src_right_point_nd_eq axes _ (by simp), src_middle_nd_eq]
    apply List.ext_getElem
    · simp
    · intro i h1 h2
      simp [src_right_point_eq_model, src_middle_eq_model, hRight, rightPoint, rightPointN]

theorem sum_filter_ne {α : Type} [DecidableEq α] (F : α → Rat) (a : α) (hF : F a = 0) (l : List α) :
    ((l.filter (fun x => decide (x ≠ a))).map F).sum = (l.map F).sum := by
  induction l with
  | nil => rfl
  | cons x t ih =>
    rw [List.filter_cons]
    by_cases h : x = a
    · have : decide (x ≠ a) = false := by simp [h]
      rw [this]; simp only [Bool.false_eq_true, if_false, List.map_cons, List.sum_cons, ih, h, hF, zero_add]
    · have : decide (x ≠ a) = true := by simp [h]
      rw [this]; simp only [if_true, List.map_cons, List.sum_cons, ih]

section nd
variable (axes : List (List Rat)) (o : Nat) (hax : ∀ ax ∈ axes, AxisOK ax o) (m : Box → Rat) (hM : IsBoxMassN m)
include hax hM

/-- **n-d: the reported intensity is the sum, over all states of the product grid, of the masses of their cells**
    (every dimension, axes of any lengths) -/
theorem src_nd_intensity_eq_sum_rates : chainIntensityNd axes o m = (qTensor amid axes o m).sum := by
  rw [src_chain_intensity_nd_eq_model]
  exact (sum_rates_eq_intensity_nd amid amid_between amid_idem axes o hax m hM).symm

/-- **n-d: the inversion sampler's probabilities of the non-origin states sum to one** -/
theorem src_prob_nd_sum_one (hpos : 0 < chainIntensityNd axes o m) :
    (((states axes).filter (fun ns => decide (ns ≠ axes.map (fun _ => o)))).map (fun ns =>
      probability_to_jump_to_state_nd (ns.map (fun (n : Nat) => (n : Int))) (chainIntensityNd axes o m)
        (fun a b => m (List.zip a b)) CTMCGrid_middle_nd (fun c => CTMCGrid_left_point_nd c axes)
        (fun c => CTMCGrid_right_point_nd c axes) (fun c => Grid_getitem_nd c axes))).sum = 1 := by
  set I := chainIntensityNd axes o m with hI
  have hI0 : I ≠ 0 := ne_of_gt hpos
  have h1 : ∀ ns ∈ (states axes).filter (fun ns => decide (ns ≠ axes.map (fun _ => o))),
      probability_to_jump_to_state_nd (ns.map (fun (n : Nat) => (n : Int))) I
        (fun a b => m (List.zip a b)) CTMCGrid_middle_nd (fun c => CTMCGrid_left_point_nd c axes)
        (fun c => CTMCGrid_right_point_nd c axes) (fun c => Grid_getitem_nd c axes) = rateNd amid axes o m ns / I := by
    intro ns hns
    obtain ⟨hs, hne⟩ := List.mem_filter.mp hns
    have hne' : ns ≠ axes.map (fun _ => o) := by simpa using hne
    have := (src_prob_nd_is_cell_mass axes o hax m hM ns hs hne' I hI0).2
    rw [eq_div_iff hI0, this]; unfold rateNd; rw [if_neg hne']
  rw [List.map_congr_left h1]
  have h2 : ((List.filter (fun ns => decide (ns ≠ axes.map (fun _ => o))) (states axes)).map
      (fun ns => rateNd amid axes o m ns / I)).sum
      = ((List.filter (fun ns => decide (ns ≠ axes.map (fun _ => o))) (states axes)).map (rateNd amid axes o m)).sum / I := by
    generalize List.filter _ (states axes) = l
    induction l with
    | nil => simp
    | cons x t ih => simp only [List.map_cons, List.sum_cons, ih]; ring
  rw [h2, sum_filter_ne (rateNd amid axes o m) _ (by unfold rateNd; simp)]
  have : ((states axes).map (rateNd amid axes o m)).sum = I := by
    rw [hI, src_nd_intensity_eq_sum_rates axes o hax m hM]; rfl
  rw [this]; exact div_self hI0

end nd

example : chainIntensityNd [[-4, -2, -1, 0, 1, 3, 7], [-3, -1, -1/2, 0, 1/4, 2]] 3
    (box2 (fun a c y z => (c - a) * ((z - y) * 2))) = 437 / 4 := by decide +kernel

end Rpylib.SrcTie.C01
