/-
C06 — alignment of the translated source with the hand-written model (RpylibModel/Model/Alloc.lean).  This demands more than
the property (the exact value of every `N_l`, the verdict of the bias test exactly at the threshold), so it has its own status:
losing it is recorded ("alignment lost"), never a violation.
-/
import RpylibModel.ProofsGen.SrcC06
import RpylibModel.Model.Alloc

set_option linter.unusedSimpArgs false
set_option linter.unusedTactic false
set_option linter.unreachableTactic false
set_option linter.unusedVariables false

namespace Rpylib.SrcTie.C06
open Rpylib.Src.C06 Rpylib.Py Rpylib.Alloc

/-- the bias test of the source is the model's `criteria` with `√θ = sqrt THETA`, `q = 2^α` (every vector with ≥ 3 entries) -/
theorem src_criteria_eq_model (alpha rmse : ℚ) (pre : List ℚ) (m3 m2 m1 : ℚ) (sqrt pow2 : ℚ → ℚ)
    (hq : 1 < pow2 alpha) (h2 : pow2 (2 * alpha) = pow2 alpha ^ 2) :
    criteria_giles alpha (pre ++ [m3, m2, m1]) rmse sqrt pow2 = criteria (sqrt THETA) (pow2 alpha) m1 m2 m3 rmse := by
  have hq1 : 0 < pow2 alpha - 1 := by linarith
  have h2' : pow2 (alpha * 2) = pow2 alpha ^ 2 := by rw [mul_comm]; exact h2
  simp only [criteria_giles, criteria, idx_neg1, idx_neg2, idx_neg3, rmax_eq_max]
  try simp only [h2, h2']
  first
    | (simp only [max_assoc, max_comm, max_left_comm, pow_two, mul_comm]; done)
    | (simp only [div_le_iff₀ hq1, max_assoc, max_comm, max_left_comm, pow_two, mul_comm, mul_left_comm]; done)

/-- the test as an iff (what `src_criteria_sound` states in one direction) -/
theorem src_criteria_iff (alpha rmse : ℚ) (pre : List ℚ) (m3 m2 m1 : ℚ) (sqrt pow2 : ℚ → ℚ)
    (hq : 1 < pow2 alpha) (h2 : pow2 (2 * alpha) = pow2 alpha ^ 2) :
    criteria_giles alpha (pre ++ [m3, m2, m1]) rmse sqrt pow2 = true
      ↔ max m1 (max (m2 / pow2 alpha) (m3 / pow2 alpha ^ 2)) / (pow2 alpha - 1) ≤ sqrt THETA * rmse := by
  rw [src_criteria_eq_model alpha rmse pre m3 m2 m1 sqrt pow2 hq h2]
  simp only [criteria, decide_eq_true_eq, pow_two]

theorem listSum_eq_sum (L : List ℚ) : listSum L = L.sum := by
  induction L with
  | nil => rfl
  | cons x xs ih => simp [listSum, List.foldr] at ih ⊢; rw [ih]

/-- the allocation of the source is the model's `giles` (root form: V_l = v_l², C_l = c_l², non-zero costs, exact roots) -/
theorem src_alloc_eq_model (rmse : ℚ) (v c : List ℚ) (sqrt : ℚ → ℚ) (hlen : c.length = v.length)
    (hc : ∀ l (h : l < v.length), c[l]'(hlen ▸ h) ≠ 0)
    (hA : ∀ l (h : l < v.length), sqrt (v[l] ^ 2 / (c[l]'(hlen ▸ h)) ^ 2) = v[l] / c[l]'(hlen ▸ h))
    (hB : ∀ l (h : l < v.length), sqrt (v[l] ^ 2 * (c[l]'(hlen ▸ h)) ^ 2) = v[l] * c[l]'(hlen ▸ h)) :
    compute_mc_paths_giles rmse (v.map (· ^ 2)) (c.map (· ^ 2)) sqrt = giles THETA rmse v c := by
  have hS : List.map sqrt (List.zipWith (fun x y => x * y) (v.map (· ^ 2)) (c.map (· ^ 2))) = List.zipWith rootB v c := by
    apply List.ext_getElem
    · simp [hlen]
    · intro l h1 _
      have hl : l < v.length := by simpa [hlen] using h1
      simp only [List.getElem_map, List.getElem_zipWith, rootB]
      exact hB l hl
  have hS' : List.map sqrt (List.zipWith (fun x y => x * y) (c.map (· ^ 2)) (v.map (· ^ 2))) = List.zipWith rootB v c := by
    rw [← hS]; congr 1
    apply List.ext_getElem
    · simp [hlen]
    · intro l _ _
      simp only [List.getElem_map, List.getElem_zipWith]
      exact mul_comm _ _
  apply List.ext_getElem
  · simp [compute_mc_paths_giles, giles, allocFromRoots, hlen]
  · intro l h1 _
    have hl : l < v.length := by simpa [compute_mc_paths_giles, hlen] using h1
    have hcl := hc l hl
    simp only [compute_mc_paths_giles, giles, allocFromRoots, List.getElem_map, List.getElem_zipWith, truncInt_rceil,
      if_neg (pow_ne_zero 2 hcl), hS, hS', listSum_eq_sum, hA l hl, rootA, if_neg hcl]
    congr 1
    first | rfl | ring1

/-- non-vacuity: v = (1/2, 1/4), c = (1, 2) with `sqrtDemo` (√(1/4) = 1/2, √(1/64) = 1/8) -/
example : giles THETA (1/16) [1/2, 1/4] [1, 2] = [171, 43] := by decide +kernel

end Rpylib.SrcTie.C06
