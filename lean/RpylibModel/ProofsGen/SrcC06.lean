/-
C06 — source-derived tie for the Giles sample allocation and the bias test.
`RpylibModel/Generated/SrcC06.lean` is rewritten on every run by harness/srctie.py (plug-in harness/srcspec/C06.py) from the text
of rpylib/montecarlo/multilevel/criteria.py in /repo's current working tree: the module constant `THETA`,
`compute_mc_paths_giles` (numpy vectors as lists, elementwise), `criteria_giles`, `criteria_run_to_maximum_level`.

Abstract parameters of the translated definitions (universally quantified below; what is assumed about them is stated in each
theorem and is the trusted base of this tie):
  `sqrt : ℚ → ℚ`   stands for `np.sqrt`; assumed: `0 ≤ sqrt x`, and at the points the code evaluates it a *root certificate*
                   `V ≤ sqrt (V / C) * sqrt (V * C)` (exact roots satisfy it with equality, roots rounded upwards too), resp.
                   `sqrt THETA * sqrt THETA = THETA`;
  `pow2 : ℚ → ℚ`   stands for `x ↦ 2 ** x`; assumed: `1 < pow2 alpha` (alpha > 0) and `pow2 (2 * alpha) = pow2 alpha ^ 2`.
Floats are read as the exact rationals they denote (the convention of the whole model).

Obligations (B), all on the translated source, for every list length:
  allocation  : the estimator variance Σ V_l / N_l is at most (1 − THETA)·rmse², every level with positive variance gets a
                sample, for all non-negative variances and strictly positive costs (`src_alloc_budget`);
  bias test   : `criteria_giles` returns true only if the extrapolated remaining bias
                max(m_L, m_{L-1}/2^α, m_{L-2}/4^α)/(2^α − 1) is at most √THETA·rmse (`src_criteria_sound`), hence its square at
                most THETA·rmse² (`src_criteria_bias_sq`); monotone in rmse and in the last mean;
  budget split: squared bias tolerance + variance share ≤ rmse² (`src_budget_split`) — both read the same `THETA`, 0 < THETA < 1;
  `criteria_run_to_maximum_level` never stops a run.
Alignment with the hand-written model (exact `N_l`, the test as an iff): ProofsGen/SrcC06Model.lean.
-/
import RpylibModel.Generated.SrcC06
import Mathlib.Tactic.Linarith
import Mathlib.Tactic.Ring
import Mathlib.Tactic.FieldSimp
import Mathlib.Tactic.Positivity
import Mathlib.Algebra.Order.Field.Rat
import Mathlib.Algebra.BigOperators.Group.Finset.Basic
import Mathlib.Algebra.BigOperators.Ring.Finset
import Mathlib.Algebra.Order.BigOperators.Group.Finset
import Mathlib.Data.Rat.Floor

set_option linter.unusedSimpArgs false
set_option linter.unusedTactic false
set_option linter.unreachableTactic false
set_option linter.unusedVariables false

namespace Rpylib.SrcTie.C06
open Rpylib.Src.C06 Rpylib.Py

/-! ### the Python built-ins used by the translation -/

theorem rmax_eq_max (a b : ℚ) : rmax a b = max a b := by
  unfold rmax; split_ifs with h
  · exact (max_eq_right h.le).symm
  · exact (max_eq_left (not_lt.mp h)).symm

/-- `ml[-1]`, `ml[-2]`, `ml[-3]` of a vector with at least three entries -/
theorem idx_neg1 (pre : List ℚ) (m3 m2 m1 : ℚ) : idx (pre ++ [m3, m2, m1]) (-1) = m1 := by simp [idx]
theorem idx_neg2 (pre : List ℚ) (m3 m2 m1 : ℚ) : idx (pre ++ [m3, m2, m1]) (-2) = m2 := by simp [idx]
theorem idx_neg3 (pre : List ℚ) (m3 m2 m1 : ℚ) : idx (pre ++ [m3, m2, m1]) (-3) = m3 := by simp [idx]

/-- `np.ceil(x).astype(int)` is the integer ceiling -/
theorem truncInt_rceil (x : ℚ) : truncInt (rceil x) = x.ceil := by
  unfold truncInt rceil
  split_ifs with h
  · exact Rat.floor_intCast x.ceil
  · rw [← Int.cast_neg, Rat.floor_intCast]; exact neg_neg _

theorem le_truncInt_rceil (x : ℚ) : x ≤ ((truncInt (rceil x) : ℤ) : ℚ) := by
  rw [truncInt_rceil]; exact Rat.le_ceil

theorem getD_lt {α : Type} (xs : List α) (d : α) (l : ℕ) (h : l < xs.length) : xs.getD l d = xs[l] := by
  simp [List.getD_eq_getElem?_getD, h]

theorem list_sum_eq_range (L : List ℚ) : L.sum = ∑ j ∈ Finset.range L.length, L.getD j 0 := by
  induction L with
  | nil => simp
  | cons x xs ih => simp [Finset.sum_range_succ', ih, add_comm]

/-! ### the constant shared by the allocation and the bias test -/

/-- the share of rmse² given to the squared bias is a proper share -/
theorem src_theta_share : 0 < THETA ∧ THETA < 1 := by
  unfold THETA; constructor <;> norm_num

/-! ### allocation -/

/-- the budget argument, in index form, with root certificates `V ≤ a·b` (Cauchy–Schwarz-free: each term is bounded by
    `b_l·B/S`) -/
theorem budget_of_roots (n : ℕ) (a b V N : ℕ → ℚ) (B : ℚ) (hB : 0 < B)
    (ha : ∀ l < n, 0 ≤ a l) (hb : ∀ l < n, 0 ≤ b l) (hab : ∀ l < n, V l ≤ a l * b l)
    (hN : ∀ l < n, a l * (∑ j ∈ Finset.range n, b j) / B ≤ N l) :
    ∑ l ∈ Finset.range n, (if 0 < V l then V l / N l else 0) ≤ B := by
  set S := ∑ j ∈ Finset.range n, b j with hS
  have hS0 : 0 ≤ S := Finset.sum_nonneg (fun j hj => hb j (Finset.mem_range.mp hj))
  have key : ∀ l ∈ Finset.range n, (if 0 < V l then V l / N l else 0) ≤ b l * (B / S) := by
    intro l hl
    have hln := Finset.mem_range.mp hl
    split_ifs with hV
    · have hpos : 0 < a l * b l := lt_of_lt_of_le hV (hab l hln)
      have hal : 0 < a l := by
        rcases (ha l hln).lt_or_eq with h | h
        · exact h
        · rw [← h] at hpos; simp at hpos
      have hbl : 0 < b l := by
        rcases (hb l hln).lt_or_eq with h | h
        · exact h
        · rw [← h] at hpos; simp at hpos
      have hSpos : 0 < S := lt_of_lt_of_le hbl (Finset.single_le_sum (fun j hj => hb j (Finset.mem_range.mp hj)) hl)
      have hx : 0 < a l * S / B := by positivity
      calc V l / N l ≤ V l / (a l * S / B) := div_le_div_of_nonneg_left hV.le hx (hN l hln)
        _ ≤ (a l * b l) / (a l * S / B) := div_le_div_of_nonneg_right (hab l hln) hx.le
        _ = b l * (B / S) := by field_simp
    · have := hb l hln
      have : 0 ≤ B / S := div_nonneg hB.le hS0
      positivity
  calc ∑ l ∈ Finset.range n, (if 0 < V l then V l / N l else 0)
      ≤ ∑ l ∈ Finset.range n, b l * (B / S) := Finset.sum_le_sum key
    _ = S * (B / S) := by rw [← Finset.sum_mul]
    _ ≤ B := by
        rcases hS0.lt_or_eq with h | h
        · rw [mul_div_cancel₀ _ h.ne']
        · rw [← h]; simp [hB.le]

section alloc
variable (rmse : ℚ) (vl cl : List ℚ) (sqrt : ℚ → ℚ)

theorem src_alloc_length (hlen : cl.length = vl.length) :
    (compute_mc_paths_giles rmse vl cl sqrt).length = vl.length := by
  simp [compute_mc_paths_giles, hlen]

/-- every `N_l` is at least `√(V_l/C_l) · Σ_j √(V_j C_j) / ((1 − THETA)·rmse²)` (levels with a non-zero cost) -/
theorem src_alloc_ge (hlen : cl.length = vl.length) (l : ℕ) (hl : l < vl.length) (hc : cl[l]'(hlen ▸ hl) ≠ 0) :
    sqrt (vl[l] / cl[l]'(hlen ▸ hl)) * (∑ j ∈ Finset.range vl.length, sqrt (vl.getD j 0 * cl.getD j 0)) / ((1 - THETA) * rmse ^ 2)
      ≤ (((compute_mc_paths_giles rmse vl cl sqrt)[l]'(by rw [src_alloc_length rmse vl cl sqrt hlen]; exact hl) : ℤ) : ℚ) := by
  -- Σ_j √(V_j C_j) as the code forms it
  have hsum : ∀ L : List ℚ, L.length = vl.length → (∀ j (h : j < vl.length), L.getD j 0 = sqrt (vl.getD j 0 * cl.getD j 0)) →
      L.sum = ∑ j ∈ Finset.range vl.length, sqrt (vl.getD j 0 * cl.getD j 0) := by
    intro L hL hj
    rw [list_sum_eq_range, hL]
    exact Finset.sum_congr rfl (fun j hjr => hj j (Finset.mem_range.mp hjr))
  have hS1 := hsum (List.map sqrt (List.zipWith (fun x y => x * y) vl cl)) (by simp [hlen])
    (by intro j h; simp [List.getD_eq_getElem?_getD, h, hlen])
  have hS2 := hsum (List.map sqrt (List.zipWith (fun x y => x * y) cl vl)) (by simp [hlen])
    (by intro j h; simp [List.getD_eq_getElem?_getD, h, hlen]; rw [mul_comm])
  simp only [compute_mc_paths_giles, List.getElem_map, List.getElem_zipWith, if_neg hc]
  refine le_trans (le_of_eq ?_) (le_truncInt_rceil _)
  try simp only [hS1, hS2]
  first | done | rfl | ring1

/-- **the allocation as coded meets the variance budget** — for every number of levels, all variances (the non-negative ones
    are the meaningful ones; `hcert` is void for the others), all strictly positive costs, every rmse ≠ 0: with
    `N = compute_mc_paths_giles(rmse, V, C)` the estimator variance `Σ_{V_l>0} V_l/N_l` is at most the variance share
    `(1 − THETA)·rmse²`, and every level with positive variance gets at least one sample.
    (Zero costs are excluded: known finding C06-zero-cost-level, `Rpylib.Alloc.zero_cost_counterexample`.) -/
theorem src_alloc_budget (hlen : cl.length = vl.length) (hr : rmse ≠ 0)
    (hC : ∀ l < vl.length, 0 < cl.getD l 0) (hs0 : ∀ x, 0 ≤ sqrt x)
    (hcert : ∀ l < vl.length, vl.getD l 0 ≤ sqrt (vl.getD l 0 / cl.getD l 0) * sqrt (vl.getD l 0 * cl.getD l 0)) :
    (∑ l ∈ Finset.range vl.length, (if 0 < vl.getD l 0
        then vl.getD l 0 / (((compute_mc_paths_giles rmse vl cl sqrt).getD l 0 : ℤ) : ℚ) else 0)) ≤ (1 - THETA) * rmse ^ 2
    ∧ ∀ l < vl.length, 0 < vl.getD l 0 → 1 ≤ (compute_mc_paths_giles rmse vl cl sqrt).getD l 0 := by
  have hB : 0 < (1 - THETA) * rmse ^ 2 := by
    have := src_theta_share.2
    have : 0 < 1 - THETA := by linarith
    positivity
  have hNl := src_alloc_length rmse vl cl sqrt hlen
  -- the lower bound of `src_alloc_ge` in index form
  have hN : ∀ l < vl.length, sqrt (vl.getD l 0 / cl.getD l 0) * (∑ j ∈ Finset.range vl.length, sqrt (vl.getD j 0 * cl.getD j 0))
      / ((1 - THETA) * rmse ^ 2) ≤ (((compute_mc_paths_giles rmse vl cl sqrt).getD l 0 : ℤ) : ℚ) := by
    intro l hl
    have hcl : l < cl.length := hlen ▸ hl
    have hc := hC l hl
    rw [getD_lt _ _ _ hcl] at hc
    have := src_alloc_ge rmse vl cl sqrt hlen l hl hc.ne'
    rw [getD_lt _ _ _ hl, getD_lt _ _ _ hcl, getD_lt _ _ _ (by rw [hNl]; exact hl)]
    exact this
  refine ⟨?_, ?_⟩
  · exact budget_of_roots vl.length (fun l => sqrt (vl.getD l 0 / cl.getD l 0)) (fun l => sqrt (vl.getD l 0 * cl.getD l 0))
      (fun l => vl.getD l 0) (fun l => (((compute_mc_paths_giles rmse vl cl sqrt).getD l 0 : ℤ) : ℚ)) _ hB
      (fun l _ => hs0 _) (fun l _ => hs0 _) hcert hN
  · intro l hl hVl
    have hpos : 0 < sqrt (vl.getD l 0 / cl.getD l 0) * sqrt (vl.getD l 0 * cl.getD l 0) := lt_of_lt_of_le hVl (hcert l hl)
    have ha : 0 < sqrt (vl.getD l 0 / cl.getD l 0) := by
      rcases (hs0 (vl.getD l 0 / cl.getD l 0)).lt_or_eq with h | h
      · exact h
      · rw [← h] at hpos; simp at hpos
    have hb : 0 < sqrt (vl.getD l 0 * cl.getD l 0) := by
      rcases (hs0 (vl.getD l 0 * cl.getD l 0)).lt_or_eq with h | h
      · exact h
      · rw [← h] at hpos; simp at hpos
    have hS : 0 < ∑ j ∈ Finset.range vl.length, sqrt (vl.getD j 0 * cl.getD j 0) :=
      lt_of_lt_of_le hb (Finset.single_le_sum (f := fun j => sqrt (vl.getD j 0 * cl.getD j 0)) (fun j _ => hs0 _)
        (Finset.mem_range.mpr hl))
    have hx : 0 < sqrt (vl.getD l 0 / cl.getD l 0) * (∑ j ∈ Finset.range vl.length, sqrt (vl.getD j 0 * cl.getD j 0))
        / ((1 - THETA) * rmse ^ 2) := by positivity
    have : (0 : ℚ) < (((compute_mc_paths_giles rmse vl cl sqrt).getD l 0 : ℤ) : ℚ) := lt_of_lt_of_le hx (hN l hl)
    have : (0 : ℤ) < (compute_mc_paths_giles rmse vl cl sqrt).getD l 0 := by exact_mod_cast this
    omega

end alloc

/-- non-vacuity of the hypotheses of `src_alloc_budget`: V = (1/4, 1/16), C = (1, 4), rmse = 1/16 with the exact roots
    (√(1/4) = 1/2, √(1/64) = 1/8): the code gives N = (171, 43) and Σ V_l/N_l = 1/684 + 1/688 ≤ (3/4)/256 -/
def sqrtDemo (x : ℚ) : ℚ := if x = 1/4 then 1/2 else if x = 1/64 then 1/8 else 0

example : compute_mc_paths_giles (1/16) [1/4, 1/16] [1, 4] sqrtDemo = [171, 43]
    ∧ (∀ x, 0 ≤ sqrtDemo x)
    ∧ (∀ l < 2, ([1/4, 1/16] : List ℚ).getD l 0
        ≤ sqrtDemo (([1/4, 1/16] : List ℚ).getD l 0 / ([1, 4] : List ℚ).getD l 0)
          * sqrtDemo (([1/4, 1/16] : List ℚ).getD l 0 * ([1, 4] : List ℚ).getD l 0)) := by
  refine ⟨by decide +kernel, ?_, ?_⟩
  · intro x; unfold sqrtDemo; split_ifs <;> norm_num
  · intro l hl
    have : l = 0 ∨ l = 1 := by omega
    rcases this with rfl | rfl <;> norm_num [sqrtDemo]

/-! ### bias test -/

section criteria
variable (alpha rmse : ℚ) (pre : List ℚ) (m3 m2 m1 : ℚ) (sqrt pow2 : ℚ → ℚ)

/-- what a positive verdict gives, term by term (order and nesting of the `max` in the source do not matter) -/
theorem src_criteria_terms (hq : 1 < pow2 alpha) (h2 : pow2 (2 * alpha) = pow2 alpha ^ 2)
    (h : criteria_giles alpha (pre ++ [m3, m2, m1]) rmse sqrt pow2 = true) :
    m1 ≤ sqrt THETA * rmse * (pow2 alpha - 1) ∧ m2 / pow2 alpha ≤ sqrt THETA * rmse * (pow2 alpha - 1)
      ∧ m3 / pow2 alpha ^ 2 ≤ sqrt THETA * rmse * (pow2 alpha - 1) := by
  have hq1 : 0 < pow2 alpha - 1 := by linarith
  have h2' : pow2 (alpha * 2) = pow2 alpha ^ 2 := by rw [mul_comm]; exact h2
  simp only [criteria_giles, idx_neg1, idx_neg2, idx_neg3, rmax_eq_max, decide_eq_true_eq] at h
  try simp only [h2, h2'] at h
  try simp only [← pow_two] at h
  first
    | (have hR := (div_le_iff₀ hq1).mp h
       exact ⟨le_trans (le_trans (by simp) hR) (le_of_eq (by ring1)),
              le_trans (le_trans (by simp) hR) (le_of_eq (by ring1)),
              le_trans (le_trans (by simp) hR) (le_of_eq (by ring1))⟩)
    | exact ⟨le_trans (le_trans (by simp) h) (le_of_eq (by ring1)),
             le_trans (le_trans (by simp) h) (le_of_eq (by ring1)),
             le_trans (le_trans (by simp) h) (le_of_eq (by ring1))⟩

/-- **soundness of the bias test**: a positive verdict implies that the extrapolated remaining bias
    `max(m_L, m_{L-1}/2^α, m_{L-2}/4^α)/(2^α − 1)` is at most `√THETA · rmse` -/
theorem src_criteria_sound (hq : 1 < pow2 alpha) (h2 : pow2 (2 * alpha) = pow2 alpha ^ 2)
    (h : criteria_giles alpha (pre ++ [m3, m2, m1]) rmse sqrt pow2 = true) :
    max m1 (max (m2 / pow2 alpha) (m3 / pow2 alpha ^ 2)) / (pow2 alpha - 1) ≤ sqrt THETA * rmse := by
  have hq1 : 0 < pow2 alpha - 1 := by linarith
  obtain ⟨h1, h2, h3⟩ := src_criteria_terms alpha rmse pre m3 m2 m1 sqrt pow2 hq h2 h
  exact (div_le_iff₀ hq1).mpr (max_le h1 (max_le h2 h3))

/-- … hence the squared bias estimate is at most the bias share `THETA · rmse²` (means are absolute values: `0 ≤ m_L`) -/
theorem src_criteria_bias_sq (hq : 1 < pow2 alpha) (h2 : pow2 (2 * alpha) = pow2 alpha ^ 2)
    (hs : sqrt THETA * sqrt THETA = THETA) (hm : 0 ≤ m1)
    (h : criteria_giles alpha (pre ++ [m3, m2, m1]) rmse sqrt pow2 = true) :
    (max m1 (max (m2 / pow2 alpha) (m3 / pow2 alpha ^ 2)) / (pow2 alpha - 1)) ^ 2 ≤ THETA * rmse ^ 2 := by
  have hq1 : 0 < pow2 alpha - 1 := by linarith
  have hb := src_criteria_sound alpha rmse pre m3 m2 m1 sqrt pow2 hq h2 h
  have h0 : 0 ≤ max m1 (max (m2 / pow2 alpha) (m3 / pow2 alpha ^ 2)) / (pow2 alpha - 1) :=
    div_nonneg (le_trans hm (le_max_left _ _)) hq1.le
  calc _ ≤ (sqrt THETA * rmse) ^ 2 := pow_le_pow_left₀ h0 hb 2
    _ = (sqrt THETA * sqrt THETA) * rmse ^ 2 := by ring
    _ = THETA * rmse ^ 2 := by rw [hs]

/-- the test is monotone in rmse: what passes for a tolerance passes for every larger one -/
theorem src_criteria_mono_rmse (rmse' : ℚ) (hr : rmse ≤ rmse') (hs0 : 0 ≤ sqrt THETA) (hq : 1 < pow2 alpha) (ml : List ℚ)
    (h : criteria_giles alpha ml rmse sqrt pow2 = true) : criteria_giles alpha ml rmse' sqrt pow2 = true := by
  have hq1 : 0 ≤ pow2 alpha - 1 := by linarith
  simp only [criteria_giles, decide_eq_true_eq] at h ⊢
  have t1 := mul_le_mul_of_nonneg_left hr hs0
  have t2 := mul_le_mul_of_nonneg_right t1 hq1
  linarith

/-- … and in the last level mean: a smaller correction is accepted whenever a larger one is -/
theorem src_criteria_mono_ml (m1' : ℚ) (hm : m1' ≤ m1) (hq : 1 < pow2 alpha) (h2 : pow2 (2 * alpha) = pow2 alpha ^ 2)
    (h : criteria_giles alpha (pre ++ [m3, m2, m1]) rmse sqrt pow2 = true) :
    criteria_giles alpha (pre ++ [m3, m2, m1']) rmse sqrt pow2 = true := by
  have hq1 : 0 < pow2 alpha - 1 := by linarith
  have h2' : pow2 (alpha * 2) = pow2 alpha ^ 2 := by rw [mul_comm]; exact h2
  obtain ⟨h1, h2m, h3⟩ := src_criteria_terms alpha rmse pre m3 m2 m1 sqrt pow2 hq h2 h
  have h1' : m1' ≤ sqrt THETA * rmse * (pow2 alpha - 1) := le_trans hm h1
  simp only [criteria_giles, idx_neg1, idx_neg2, idx_neg3, rmax_eq_max, decide_eq_true_eq]
  try simp only [h2, h2']
  try simp only [← pow_two]
  have hR : max m1' (max (m2 / pow2 alpha) (m3 / pow2 alpha ^ 2)) ≤ sqrt THETA * rmse * (pow2 alpha - 1) :=
    max_le h1' (max_le h2m h3)
  first
    | (rw [div_le_iff₀ hq1]; simp only [max_le_iff, and_assoc]; exact ⟨by linarith, by linarith, by linarith⟩)
    | (simp only [max_le_iff, and_assoc]; exact ⟨by linarith, by linarith, by linarith⟩)

end criteria

/-- non-vacuity: α = 1 (2^α = 2, 4^α = 4), √THETA = 1/2; means (…, 1/10, 1/50, 1/100): accepted for rmse = 1/20, refused for 1/21 -/
def pow2Demo (x : ℚ) : ℚ := if x = 1 then 2 else if x = 2 then 4 else 0

example : criteria_giles 1 ([5] ++ [1/10, 1/50, 1/100]) (1/20) (fun _ => 1/2) pow2Demo = true
    ∧ criteria_giles 1 ([5] ++ [1/10, 1/50, 1/100]) (1/21) (fun _ => 1/2) pow2Demo = false
    ∧ 1 < pow2Demo 1 ∧ pow2Demo (2 * 1) = pow2Demo 1 ^ 2 ∧ ((fun _ => 1/2 : ℚ → ℚ) THETA) * ((fun _ => 1/2 : ℚ → ℚ) THETA) = THETA := by
  refine ⟨by decide +kernel, by decide +kernel, ?_, ?_, ?_⟩ <;> norm_num [pow2Demo, THETA]

/-! ### budget split and the run-to-maximum-level criterion -/

/-- **squared bias tolerance + variance share ≤ rmse²**: when the bias test (as coded) passes and the sample sizes are the ones
    the allocation (as coded) returns, squared bias estimate + estimator variance ≤ rmse². -/
theorem src_budget_split (alpha rmse : ℚ) (pre : List ℚ) (m3 m2 m1 : ℚ) (vl cl : List ℚ) (sqrt pow2 : ℚ → ℚ)
    (hq : 1 < pow2 alpha) (h2 : pow2 (2 * alpha) = pow2 alpha ^ 2) (hs : sqrt THETA * sqrt THETA = THETA) (hm : 0 ≤ m1)
    (hlen : cl.length = vl.length) (hr : rmse ≠ 0)
    (hC : ∀ l < vl.length, 0 < cl.getD l 0) (hs0 : ∀ x, 0 ≤ sqrt x)
    (hcert : ∀ l < vl.length, vl.getD l 0 ≤ sqrt (vl.getD l 0 / cl.getD l 0) * sqrt (vl.getD l 0 * cl.getD l 0))
    (h : criteria_giles alpha (pre ++ [m3, m2, m1]) rmse sqrt pow2 = true) :
    (max m1 (max (m2 / pow2 alpha) (m3 / pow2 alpha ^ 2)) / (pow2 alpha - 1)) ^ 2
      + (∑ l ∈ Finset.range vl.length, (if 0 < vl.getD l 0
          then vl.getD l 0 / (((compute_mc_paths_giles rmse vl cl sqrt).getD l 0 : ℤ) : ℚ) else 0)) ≤ rmse ^ 2 := by
  have hb := src_criteria_bias_sq alpha rmse pre m3 m2 m1 sqrt pow2 hq h2 hs hm h
  have hv := (src_alloc_budget rmse vl cl sqrt hlen hr hC hs0 hcert).1
  linarith

/-- `criteria_run_to_maximum_level` never reports convergence: the run goes on to the maximum level -/
theorem src_run_to_max_never_converges (alpha rmse : ℚ) (ml : List ℚ) : criteria_run_to_maximum_level alpha ml rmse = false := by
  simp only [criteria_run_to_maximum_level]

end Rpylib.SrcTie.C06
