/-
C04 — source-derived tie for the drift compensation.  `RpylibModel/Generated/SrcC04.lean` is rewritten on every run from the
text of /repo's current working tree:

  rpylib/process/markovchain/markovchain.py   vol_adjustment, compute_mu_h,
                                              MarkovChainProcess.__init__ (its last statements: equivalent_diffusion_coefficient),
                                              MarkovChainProcess.initialisation (its drift part: the final `_process_drift`)
  rpylib/model/levymodel/levymodel.py         TruncatedLevyMeasure._truncated_interval / integrate / integrate_against_x / _xx

Collaborators are parameters of the translated definitions, universally quantified below: `levy_measure.integrate`,
`integrate_against_x`, `integrate_against_xx` (functions ℚ → ℚ → ℚ), `grid.middle`, `np.sqrt`, `jump_of_finite_variation()` (a
Boolean), `model.drift()`, `levy_triplet.a`, `diffusion_coefficient()`, `grid.h`, `grid.axes[0]`, `grid.origin_coordinate.value`, and
`±np.inf` (two rationals that are only handed to `integrate_against_x`).

Obligations (property statements on the translated source; the loop is handled through an invariant — Lemmas/SrcC04Fold.lean —
that only asks each turn to do *semantically* the right thing, so that reformulations of the source keep them provable):

 * `src_mu_h_eq_sum`, `src_mu_h_explicit`: for every axis, origin index, mass function and cell-boundary function,
   `compute_mu_h` = Σ_{k ≠ origin} x_k · integrate(cell_k) with the cells of the chain's own rate vector (C01's cells);
 * `src_process_drift_compensates`: `_process_drift` + Σ_k x_k q_k = model drift + a + ∫_{|x|>v} x ν(dx), v = 0 / 1 for
   finite / infinite variation: the mean per unit time of the approximation is that of the process it replaces;
 * `src_truncated_interval_spec`, `src_truncated_integrate_spec`, `…_x_spec`, `…_xx_spec`: the truncated measure integrates over
   the intersection of the interval with `[l, r]` (degenerate when they do not meet);
 * `src_chain_mean_truncated`: the three together, on a well-formed axis: the rates may be computed with the untruncated
   measure (every cell lies inside the truncation) and the two tails are `[l, -v]`, `[v, r]`;
 * `src_vol_adjustment_spec`, `src_eqdiff_sq`: the squared equivalent diffusion coefficient is σ² + ∫ x² ν over the central
   interval `[max(-h/2,-1), min(h/2,1)]` for infinite variation and σ² for finite variation.
-/
import RpylibModel.Generated.SrcC04
import RpylibModel.Lemmas.SrcC04Fold
import RpylibModel.Proofs.C01
import Mathlib.Tactic.Linarith
import Mathlib.Tactic.Ring
import Mathlib.Tactic.LinearCombination
import Mathlib.Algebra.Order.Field.Rat
import Mathlib.Algebra.BigOperators.Intervals

set_option linter.unusedVariables false
set_option linter.unusedSimpArgs false
set_option linter.unusedTactic false
set_option linter.unreachableTactic false

namespace Rpylib.SrcTie.C04
open Rpylib.Src.C04 Rpylib.Grid Rpylib.Cells Finset

/-- normalise Python indexing / `min` / `max` on an axis to the model's `pt`, split every case, close by congruence + linear
    integer arithmetic -/
macro "py_cells" : tactic => `(tactic| (
  (try simp only [rate, cellLo, cellHi, cellHiN, leftPoint, rightPointN, Rpylib.Py.imin, Rpylib.Py.imax, ← pt.eq_1, idx_natCast,
    Int.cast_zero, ne_eq, Nat.cast_inj]) <;>
  (try split_ifs) <;>
  (try simp (disch := omega) only [idx_nonneg]) <;>
  grind))

/-! ### `compute_mu_h` -/

/-- **mu_h = Σ_k x_k · q_k** with `q` the chain's own rate vector: for every axis, every origin index that has a right
    neighbour, every mass function and every cell-boundary function, the loop of `compute_mu_h` hands to `integrate` exactly the
    cells `[cellLo k, cellHi k]` of the states k ≠ origin (its running left boundary never drifts away from them; after the
    origin it restarts at `middle(x_o, x_{o+1})`) and weights each mass by the state -/
theorem src_mu_h_eq_sum (mid m : ℚ → ℚ → ℚ) (ax : List ℚ) (o : ℕ) (ho : o + 1 < ax.length) :
    compute_mu_h ax (o : ℤ) m mid = ∑ k ∈ range ax.length, pt ax k * rate mid ax o m k := by
  simp only [compute_mu_h, foldl_enumerate, foldl_pyrange]
  first
  | refine muh_fold_fst mid m ax o _ _ ?_ ?_ ?_
    · py_cells
    · py_cells
    · intro k hk μ l hl
      subst hl
      refine ⟨?_, fun hk1 => ?_⟩ <;> py_cells
  | refine muh_fold_snd mid m ax o _ _ ?_ ?_ ?_
    · py_cells
    · py_cells
    · intro k hk l μ hl
      subst hl
      refine ⟨?_, fun hk1 => ?_⟩ <;> py_cells

/-- the same without any definition of the hand-written model: neighbours clamped at both ends of the axis -/
theorem src_mu_h_explicit (mid m : ℚ → ℚ → ℚ) (ax : List ℚ) (o : ℕ) (ho : o + 1 < ax.length) :
    compute_mu_h ax (o : ℤ) m mid = ∑ k ∈ range ax.length, if k = o then 0 else
      ax.getD k 0 * m (mid (ax.getD (k - 1) 0) (ax.getD k 0)) (mid (ax.getD k 0) (ax.getD (min (ax.length - 1) (k + 1)) 0)) := by
  rw [src_mu_h_eq_sum mid m ax o ho]
  apply sum_congr rfl
  intro k _
  simp only [rate, cellLo, cellHi, cellHiN, leftPoint, rightPointN, pt]
  split_ifs <;> simp

/-- non-vacuity and a value computed by hand: axis (-2, -1, 0, 1, 3), origin index 2, mass = length, arithmetic midpoints:
    cells [-2,-3/2], [-3/2,-1/2], [1/2,2], [2,3], mu_h = -2·1/2 - 1·1 + 1·3/2 + 3·1 = 5/2 -/
example : compute_mu_h [-2, -1, 0, 1, 3] 2 (fun a b => b - a) (fun a b => (a + b) / 2) = 5 / 2 := by
  decide +kernel

/-! ### the process drift -/

/-- **the compensation**: whatever the axis, the measure's integrals, the representation-dependent drift `a` and the model
    drift, the drift `initialisation` stores plus the mean of the chain's jumps Σ_k x_k q_k is
    `model drift + a + ∫_{x<-v} x ν + ∫_{x>v} x ν` with v = 0 for finite and v = 1 for infinite variation -/
theorem src_process_drift_compensates (pd0 a : ℚ) (fv : Bool) (drift ninf pinf : ℚ) (ax : List ℚ) (o : ℕ)
    (m1 m mid : ℚ → ℚ → ℚ) (ho : o + 1 < ax.length) :
    initialisation_process_drift pd0 a fv drift ninf pinf ax (o : ℤ) m1 m mid +
        ∑ k ∈ range ax.length, pt ax k * rate mid ax o m k =
      drift + a + (if fv = true then m1 ninf 0 + m1 0 pinf else m1 ninf (-1) + m1 1 pinf) := by
  simp only [initialisation_process_drift]
  rw [src_mu_h_eq_sum mid m ax o ho]
  cases fv <;>
    simp only [Bool.false_eq_true, Bool.true_eq_false, not_true_eq_false, not_false_eq_true, if_true, if_false, reduceIte,
      neg_zero, Bool.not_true, Bool.not_false, ne_eq] <;>
    ring1

/-! ### the truncated measure -/

/-- `_truncated_interval` is the intersection of `[a, b]` with `[l, r]`; when they do not meet it is the end point of
    `[l, r]` on the side of `[a, b]` (a degenerate interval) -/
theorem src_truncated_interval_spec (a b l r : ℚ) (hab : a ≤ b) (hlr : l ≤ r) :
    let I := TruncatedLevyMeasure_truncated_interval a b (l, r)
    (l ≤ I.1 ∧ I.1 ≤ I.2 ∧ I.2 ≤ r) ∧
    (a ≤ r → l ≤ b → I = (max a l, min b r)) ∧ (b ≤ l → I = (l, l)) ∧ (r ≤ a → I = (r, r)) := by
  simp only [TruncatedLevyMeasure_truncated_interval, Rpylib.Py.rmax, Rpylib.Py.rmin, max_def, min_def, Prod.mk.injEq]
  refine ⟨⟨?_, ?_, ?_⟩, fun _ _ => ⟨?_, ?_⟩, fun _ => ⟨?_, ?_⟩, fun _ => ⟨?_, ?_⟩⟩ <;> split_ifs <;> linarith

/-- closes `f x y = f x' y'` after every case split, the arguments being equal by linear arithmetic -/
macro "trunc_cases" : tactic => `(tactic| (
  (try simp only [Rpylib.Py.rmax, Rpylib.Py.rmin, max_def, min_def, gt_iff_lt]) <;>
  (try split_ifs) <;>
  first | rfl | (exfalso; linarith) | grind | (congr 1 <;> linarith) | (congr 2 <;> linarith)))

theorem src_truncated_integrate_spec (a b l r : ℚ) (m : ℚ → ℚ → ℚ) (hab : a ≤ b) (hlr : l ≤ r) :
    (a ≤ r → l ≤ b → TruncatedLevyMeasure_integrate a b (l, r) m = m (max a l) (min b r)) ∧
    (l ≤ a → b ≤ r → TruncatedLevyMeasure_integrate a b (l, r) m = m a b) ∧
    (b ≤ l → TruncatedLevyMeasure_integrate a b (l, r) m = m l l) ∧
    (r ≤ a → TruncatedLevyMeasure_integrate a b (l, r) m = m r r) := by
  simp only [TruncatedLevyMeasure_integrate, TruncatedLevyMeasure_truncated_interval]
  refine ⟨fun _ _ => ?_, fun _ _ => ?_, fun _ => ?_, fun _ => ?_⟩ <;> trunc_cases

theorem src_truncated_integrate_x_spec (a b l r : ℚ) (m1 : ℚ → ℚ → ℚ) (hab : a ≤ b) (hlr : l ≤ r) :
    (a ≤ r → l ≤ b → TruncatedLevyMeasure_integrate_against_x a b (l, r) m1 = m1 (max a l) (min b r)) ∧
    (l ≤ a → b ≤ r → TruncatedLevyMeasure_integrate_against_x a b (l, r) m1 = m1 a b) ∧
    (b ≤ l → TruncatedLevyMeasure_integrate_against_x a b (l, r) m1 = m1 l l) ∧
    (r ≤ a → TruncatedLevyMeasure_integrate_against_x a b (l, r) m1 = m1 r r) := by
  simp only [TruncatedLevyMeasure_integrate_against_x, TruncatedLevyMeasure_truncated_interval]
  refine ⟨fun _ _ => ?_, fun _ _ => ?_, fun _ => ?_, fun _ => ?_⟩ <;> trunc_cases

theorem src_truncated_integrate_xx_spec (a b l r : ℚ) (m2 : ℚ → ℚ → ℚ) (hab : a ≤ b) (hlr : l ≤ r) :
    (a ≤ r → l ≤ b → TruncatedLevyMeasure_integrate_against_xx a b (l, r) m2 = m2 (max a l) (min b r)) ∧
    (l ≤ a → b ≤ r → TruncatedLevyMeasure_integrate_against_xx a b (l, r) m2 = m2 a b) ∧
    (b ≤ l → TruncatedLevyMeasure_integrate_against_xx a b (l, r) m2 = m2 l l) ∧
    (r ≤ a → TruncatedLevyMeasure_integrate_against_xx a b (l, r) m2 = m2 r r) := by
  simp only [TruncatedLevyMeasure_integrate_against_xx, TruncatedLevyMeasure_truncated_interval]
  refine ⟨fun _ _ => ?_, fun _ _ => ?_, fun _ => ?_, fun _ => ?_⟩ <;> trunc_cases

example : TruncatedLevyMeasure_truncated_interval (-5) (1 / 2) (-2, 3) = (-2, 1 / 2) ∧
    TruncatedLevyMeasure_truncated_interval 4 7 (-2, 3) = (3, 3) ∧
    TruncatedLevyMeasure_integrate (-5) (1 / 2) (-2, 3) (fun a b => b - a) = 5 / 2 := by decide +kernel

/-! ### the chain as `MarkovChainProcess` builds it: truncated measure, its own cells, its drift -/

/-- **mean of the approximation = mean of the truncated process**, the three translated pieces together: on a well-formed
    axis (strictly increasing, 0 at an interior origin index) with boundaries between neighbours, the measure truncated to
    `[l, r] = [axis[0], axis[-1]]` as `TruncatedLevyMeasure` does it, `-∞`/`+∞` any numbers beyond `[l, r]` and `[-1, 1]`, and the
    grid reaching `±v`:  `_process_drift` + Σ_k x_k · ν(cell_k) = model drift + a + ∫_{[l,-v]} x ν + ∫_{[v,r]} x ν, the rates
    being those of the untruncated ν (every cell lies inside the truncation) -/
theorem src_chain_mean_truncated (mid : ℚ → ℚ → ℚ) (hm : Between mid) (hi : MidIdem mid) (ax : List ℚ) (o : ℕ)
    (hax : AxisOK ax o) (mu m1u : ℚ → ℚ → ℚ) (pd0 a : ℚ) (fv : Bool) (drift ninf pinf : ℚ)
    (hn : ninf ≤ pt ax 0 ∧ ninf ≤ -1) (hp : pt ax (ax.length - 1) ≤ pinf ∧ 1 ≤ pinf)
    (hv : fv = false → pt ax 0 ≤ -1 ∧ 1 ≤ pt ax (ax.length - 1)) :
    initialisation_process_drift pd0 a fv drift ninf pinf ax (o : ℤ)
        (fun x y => TruncatedLevyMeasure_integrate_against_x x y (pt ax 0, pt ax (ax.length - 1)) m1u)
        (fun x y => TruncatedLevyMeasure_integrate x y (pt ax 0, pt ax (ax.length - 1)) mu) mid +
        ∑ k ∈ range ax.length, pt ax k * rate mid ax o mu k =
      drift + a + (if fv = true then m1u (pt ax 0) 0 + m1u 0 (pt ax (ax.length - 1))
        else m1u (pt ax 0) (-1) + m1u 1 (pt ax (ax.length - 1))) := by
  have hon : o < ax.length := by have := hax.hi; omega
  -- the truncation bounds straddle 0
  have hl0 : pt ax 0 ≤ 0 := by
    have := (cell_inside_truncation mid hm hi ax o hax o hon).1
    have s := state_in_cell mid hm hi ax hax.inc o hon
    rw [hax.zero] at s; linarith [s.1]
  have hr0 : 0 ≤ pt ax (ax.length - 1) := by
    have := (cell_inside_truncation mid hm hi ax o hax o hon).2
    have s := state_in_cell mid hm hi ax hax.inc o hon
    rw [hax.zero] at s; linarith [s.2.1]
  have hlr : pt ax 0 ≤ pt ax (ax.length - 1) := le_trans hl0 hr0
  -- the rates of the truncated measure are those of the untruncated one
  have hrate : ∀ k ∈ range ax.length,
      pt ax k * rate mid ax o (fun x y => TruncatedLevyMeasure_integrate x y (pt ax 0, pt ax (ax.length - 1)) mu) k =
        pt ax k * rate mid ax o mu k := by
    intro k hk
    have hk' := mem_range.mp hk
    unfold rate
    by_cases hko : k = o
    · rw [if_pos hko, if_pos hko]
    · rw [if_neg hko, if_neg hko]
      obtain ⟨c1, c2⟩ := cell_inside_truncation mid hm hi ax o hax k hk'
      have s := state_in_cell mid hm hi ax hax.inc k hk'
      beta_reduce
      rw [(src_truncated_integrate_spec _ _ _ _ mu (le_trans s.1 s.2.1) hlr).2.1 c1 c2]
  rw [← sum_congr rfl hrate, src_process_drift_compensates _ _ _ _ _ _ ax o _ _ mid hax.hi]
  congr 1
  cases fv
  · obtain ⟨v1, v2⟩ := hv rfl
    simp only [Bool.false_eq_true, if_false]
    rw [(src_truncated_integrate_x_spec ninf (-1) _ _ m1u hn.2 hlr).1 (by linarith) v1,
      (src_truncated_integrate_x_spec 1 pinf _ _ m1u hp.2 hlr).1 v2 (by linarith),
      max_eq_right hn.1, min_eq_left (by linarith), max_eq_left (by linarith), min_eq_right hp.1]
  · simp only [if_true]
    rw [(src_truncated_integrate_x_spec ninf 0 _ _ m1u (by linarith [hn.2]) hlr).1 (by linarith) hl0,
      (src_truncated_integrate_x_spec 0 pinf _ _ m1u (by linarith [hp.2]) hlr).1 hr0 (by linarith),
      max_eq_right hn.1, min_eq_left hr0, max_eq_left hl0, min_eq_right hp.1]

/-- the hypotheses of `src_chain_mean_truncated` are satisfiable: axis (-2, -1, 0, 1, 3), origin index 2 -/
example : AxisOK [-2, -1, 0, 1, 3] 2 ∧ pt [-2, -1, 0, 1, 3] 0 ≤ -1 ∧ (1 : ℚ) ≤ pt [-2, -1, 0, 1, 3] (5 - 1) :=
  ⟨⟨by decide +kernel, by decide, by decide, by decide +kernel⟩, by decide +kernel, by decide +kernel⟩

/-! ### the equivalent diffusion coefficient -/

/-- `vol_adjustment`: nothing for finite variation; for infinite variation the square root of the second moment over the
    central interval `[max(-h/2, -1), min(h/2, 1)]` -/
theorem src_vol_adjustment_spec (h : ℚ) (fv : Bool) (m2 : ℚ → ℚ → ℚ) (sqrt : ℚ → ℚ) :
    (fv = true → vol_adjustment h fv m2 sqrt = 0) ∧
    (fv = false → vol_adjustment h fv m2 sqrt = sqrt (m2 (max (-h / 2) (-1)) (min (h / 2) 1))) := by
  simp only [vol_adjustment]
  refine ⟨fun e => ?_, fun e => ?_⟩ <;> subst e <;>
    simp only [Bool.false_eq_true, Bool.true_eq_false, not_true_eq_false, not_false_eq_true, if_true, if_false, reduceIte,
      Int.cast_zero, Bool.not_true, Bool.not_false, ne_eq] <;>
    trunc_cases

theorem sqrt_sq_of_eq (sqrt : ℚ → ℚ) (hs : ∀ x, 0 ≤ x → sqrt x * sqrt x = x) {A B : ℚ} (h : A = B) (hB : 0 ≤ B) :
    sqrt A ^ 2 = B := by
  rw [h, sq]; exact hs B hB

/-- **small jumps are replaced by a Brownian motion only for infinite variation**: for every function `sqrt` that is a square
    root on the non-negative rationals met, the squared `equivalent_diffusion_coefficient` is σ² for finite variation and
    σ² + ∫ x² ν over the central interval for infinite variation -/
theorem src_eqdiff_sq (e0 sigma : ℚ) (fv : Bool) (h : ℚ) (m2 : ℚ → ℚ → ℚ) (sqrt : ℚ → ℚ)
    (hs : ∀ x, 0 ≤ x → sqrt x * sqrt x = x) (hc : 0 ≤ m2 (max (-h / 2) (-1)) (min (h / 2) 1)) :
    (fv = true → init_equivalent_diffusion_coefficient e0 sigma fv h m2 sqrt ^ 2 = sigma ^ 2) ∧
    (fv = false → init_equivalent_diffusion_coefficient e0 sigma fv h m2 sqrt ^ 2 =
      sigma ^ 2 + m2 (max (-h / 2) (-1)) (min (h / 2) 1)) := by
  simp only [init_equivalent_diffusion_coefficient]
  refine ⟨fun e => ?_, fun e => ?_⟩
  · rw [(src_vol_adjustment_spec h fv m2 sqrt).1 e]
    exact sqrt_sq_of_eq sqrt hs (by ring1) (sq_nonneg sigma)
  · rw [(src_vol_adjustment_spec h fv m2 sqrt).2 e]
    have hy := hs _ hc
    exact sqrt_sq_of_eq sqrt hs (by linear_combination hy) (by positivity)

end Rpylib.SrcTie.C04
