/-
C19 — source-derived tie for the closed-form credit maps.  `RpylibModel/Generated/SrcC19.lean` is rewritten on every run from
the text of `CFLevyModel.survival_probability / cds_spread` (rpylib/numerical/closedform/cflevymodel.py) in /repo's current
working tree; the default intensity `_theta(level)` (a mass of the model's Lévy measure) and `np.exp` are function parameters.

Obligations on the translated source: survival probability and par spread are the stated functions of the default intensity,
the par spread is increasing in the intensity (hence in the threshold), the intensity is recovered from the par spread, and the
survival probability over consecutive periods multiplies.
-/
import RpylibModel.Generated.SrcC19
import Mathlib.Tactic.Linarith
import Mathlib.Tactic.Ring
import Mathlib.Tactic.FieldSimp
import Mathlib.Algebra.Order.Field.Rat

namespace Rpylib.SrcTie.C19
open Rpylib.Src.C19

theorem src_survival_is_exp_of_intensity (a t : Rat) (theta exp : Rat → Rat) :
    CFLevyModel_survival_probability a t theta exp = exp (-(t * theta a)) := by
  simp only [CFLevyModel_survival_probability]; congr 1; ring

theorem src_spread_is_lgd_times_intensity (a R : Rat) (theta : Rat → Rat) :
    CFLevyModel_cds_spread a R theta = (1 - R) * theta a := by
  simp only [CFLevyModel_cds_spread]

/-- the par spread is increasing in the default intensity, i.e. in the threshold when the intensity is -/
theorem src_spread_monotone (a b R : Rat) (theta : Rat → Rat) (hR : R ≤ 1) (h : theta a ≤ theta b) :
    CFLevyModel_cds_spread a R theta ≤ CFLevyModel_cds_spread b R theta := by
  simp only [CFLevyModel_cds_spread]
  exact mul_le_mul_of_nonneg_left h (by linarith)

/-- the intensity is recovered from the par spread (what `implied_cds_threshold` solves for) -/
theorem src_intensity_from_spread (a R : Rat) (theta : Rat → Rat) (hR : R ≠ 1) :
    CFLevyModel_cds_spread a R theta / (1 - R) = theta a := by
  simp only [CFLevyModel_cds_spread]
  have : (1 - R) ≠ 0 := sub_ne_zero.mpr (Ne.symm hR)
  field_simp

/-- survival over consecutive periods multiplies (exp multiplicative) and is 1 at time 0 (exp 0 = 1) -/
theorem src_survival_semigroup (a s t : Rat) (theta exp : Rat → Rat) (hexp : ∀ x y, exp (x + y) = exp x * exp y) :
    CFLevyModel_survival_probability a (s + t) theta exp
      = CFLevyModel_survival_probability a s theta exp * CFLevyModel_survival_probability a t theta exp := by
  simp only [CFLevyModel_survival_probability]
  rw [← hexp]; congr 1; ring

theorem src_survival_at_zero (a : Rat) (theta exp : Rat → Rat) (h0 : exp 0 = 1) :
    CFLevyModel_survival_probability a 0 theta exp = 1 := by
  simp only [CFLevyModel_survival_probability]
  rw [show (-(0 : Rat)) * theta a = 0 by ring, h0]

/-- survival is decreasing in the intensity when exp is increasing and t ≥ 0 -/
theorem src_survival_antitone (a b t : Rat) (theta exp : Rat → Rat) (hmono : ∀ x y, x ≤ y → exp x ≤ exp y) (ht : 0 ≤ t)
    (h : theta a ≤ theta b) :
    CFLevyModel_survival_probability b t theta exp ≤ CFLevyModel_survival_probability a t theta exp := by
  simp only [CFLevyModel_survival_probability]
  apply hmono
  nlinarith

example : CFLevyModel_cds_spread (-1) (2/5) (fun _ => 1/20) = 3/100 := by
  simp [CFLevyModel_cds_spread]; norm_num

end Rpylib.SrcTie.C19
