/-
C04 — alignment of the translated source (Generated/SrcC04.lean) with the hand-written model (Model/Drift.lean, Model/Cells.lean):
"translated source = model", for all inputs.  This demands more than the property (e.g. the value of `_truncated_interval`
for a > b, the exact form of the tails of `mu_tilde` on a grid that does not reach ±1): losing it is recorded, never a violation.

 * `src_truncated_interval_eq_model`   `_truncated_interval` = `Cells.truncIv`                     (all a, b, l, r)
 * `src_integrate_eq_model` (+ `_x`, `_xx`)  `TruncatedLevyMeasure.integrate*` = `Cells.truncate` (a ≤ b: otherwise Python raises)
 * `src_mu_h_eq_model`                 `compute_mu_h` = `Drift.muH` run on the walked axis
 * `src_vol_adjustment_sq_eq_model`, `src_eqdiff_sq_eq_model`   squared `vol_adjustment` / `equivalent_diffusion_coefficient` of
                                       the truncated measure = `Drift.volAdjSq` / `Drift.eqDiffSq`
 * `src_process_drift_eq_model`        the drift `initialisation` stores = `Chain.processDrift` of the chain the model builds
-/
import RpylibModel.ProofsGen.SrcC04
import RpylibModel.Proofs.C04

set_option linter.unusedVariables false
set_option linter.unusedSimpArgs false

namespace Rpylib.SrcTie.C04
open Rpylib.Src.C04 Rpylib.Grid Rpylib.Cells Rpylib.Drift Finset

theorem rmax_eq (a b : ℚ) : Rpylib.Py.rmax a b = max a b := by
  unfold Rpylib.Py.rmax; rw [max_def]; split_ifs <;> first | rfl | linarith

theorem rmin_eq (a b : ℚ) : Rpylib.Py.rmin a b = min a b := by
  unfold Rpylib.Py.rmin; rw [min_def]; split_ifs <;> first | rfl | linarith

theorem src_truncated_interval_eq_model (a b l r : ℚ) :
    TruncatedLevyMeasure_truncated_interval a b (l, r) = truncIv l r a b := by
  simp only [TruncatedLevyMeasure_truncated_interval, truncIv, rmax_eq, rmin_eq]

theorem src_integrate_eq_model (a b l r : ℚ) (m : ℚ → ℚ → ℚ) (hab : a ≤ b) :
    TruncatedLevyMeasure_integrate a b (l, r) m = truncate l r m a b := by
  simp only [TruncatedLevyMeasure_integrate, truncate, src_truncated_interval_eq_model, gt_iff_lt, if_neg (not_lt.mpr hab)]

theorem src_integrate_x_eq_model (a b l r : ℚ) (m1 : ℚ → ℚ → ℚ) (hab : a ≤ b) :
    TruncatedLevyMeasure_integrate_against_x a b (l, r) m1 = truncate l r m1 a b := by
  simp only [TruncatedLevyMeasure_integrate_against_x, truncate, src_truncated_interval_eq_model, gt_iff_lt,
    if_neg (not_lt.mpr hab)]

theorem src_integrate_xx_eq_model (a b l r : ℚ) (m2 : ℚ → ℚ → ℚ) (hab : a ≤ b) :
    TruncatedLevyMeasure_integrate_against_xx a b (l, r) m2 = truncate l r m2 a b := by
  simp only [TruncatedLevyMeasure_integrate_against_xx, truncate, src_truncated_interval_eq_model, gt_iff_lt,
    if_neg (not_lt.mpr hab)]

/-- the translated loop and the model's loop (`muHStep` with the neighbours read from the walked axis) compute the same number -/
theorem src_mu_h_eq_model (mid m : ℚ → ℚ → ℚ) (ax : List ℚ) (o : ℕ) (ho : o + 1 < ax.length) :
    compute_mu_h ax (o : ℤ) m mid = muH mid ax ax o m := by
  rw [src_mu_h_eq_sum mid m ax o ho, muH_eq_sum]

theorem centralIv_le (h : ℚ) (h0 : 0 ≤ h) : (centralIv h).1 ≤ (centralIv h).2 := by
  unfold centralIv
  have h1 : max (-h / 2) (-1) ≤ 0 := max_le (by linarith) (by norm_num)
  have h2 : (0 : ℚ) ≤ min (h / 2) 1 := le_min (by linarith) (by norm_num)
  exact le_trans h1 h2

/-- squared `vol_adjustment` of the measure truncated the way `TruncatedLevyMeasure` truncates it = the model's `volAdjSq` -/
theorem src_vol_adjustment_sq_eq_model (l r h : ℚ) (h0 : 0 ≤ h) (fv : Bool) (m2 : ℚ → ℚ → ℚ) (sqrt : ℚ → ℚ)
    (hs : ∀ x, 0 ≤ x → sqrt x * sqrt x = x) (hc : 0 ≤ truncate l r m2 (centralIv h).1 (centralIv h).2) :
    vol_adjustment h fv (fun x y => TruncatedLevyMeasure_integrate_against_xx x y (l, r) m2) sqrt ^ 2 =
      volAdjSq l r h fv m2 := by
  unfold volAdjSq
  cases fv
  · rw [(src_vol_adjustment_spec h false _ sqrt).2 rfl]
    simp only [Bool.false_eq_true, if_false]
    have e : TruncatedLevyMeasure_integrate_against_xx (max (-h / 2) (-1)) (min (h / 2) 1) (l, r) m2 =
        truncate l r m2 (centralIv h).1 (centralIv h).2 := src_integrate_xx_eq_model _ _ l r m2 (centralIv_le h h0)
    rw [e, sq]; exact hs _ hc
  · rw [(src_vol_adjustment_spec h true _ sqrt).1 rfl]; simp

theorem src_eqdiff_sq_eq_model (e0 sigma l r h : ℚ) (h0 : 0 ≤ h) (fv : Bool) (m2 : ℚ → ℚ → ℚ) (sqrt : ℚ → ℚ)
    (hs : ∀ x, 0 ≤ x → sqrt x * sqrt x = x) (hc : 0 ≤ truncate l r m2 (centralIv h).1 (centralIv h).2) :
    init_equivalent_diffusion_coefficient e0 sigma fv h
        (fun x y => TruncatedLevyMeasure_integrate_against_xx x y (l, r) m2) sqrt ^ 2 = eqDiffSq sigma l r h fv m2 := by
  have e : TruncatedLevyMeasure_integrate_against_xx (max (-h / 2) (-1)) (min (h / 2) 1) (l, r) m2 =
      truncate l r m2 (centralIv h).1 (centralIv h).2 := src_integrate_xx_eq_model _ _ l r m2 (centralIv_le h h0)
  have hc' : 0 ≤ (fun x y => TruncatedLevyMeasure_integrate_against_xx x y (l, r) m2) (max (-h / 2) (-1)) (min (h / 2) 1) := by
    beta_reduce; rw [e]; exact hc
  unfold eqDiffSq volAdjSq
  cases fv
  · have f := (src_eqdiff_sq e0 sigma false h (fun x y => TruncatedLevyMeasure_integrate_against_xx x y (l, r) m2) sqrt hs hc').2 rfl
    beta_reduce at f
    rw [f, e]; simp only [Bool.false_eq_true, if_false]
  · have t := (src_eqdiff_sq e0 sigma true h (fun x y => TruncatedLevyMeasure_integrate_against_xx x y (l, r) m2) sqrt hs hc').1 rfl
    rw [t]; simp only [if_true, add_zero]

/-- the drift stored by `initialisation` is the model's `Chain.processDrift`: the chain's own truncated measure for the rates
    and for the two tails, `-∞` / `+∞` any numbers beyond the truncation bounds and `[-1, 1]` -/
theorem src_process_drift_eq_model (c : Chain) (pd0 ninf pinf : ℚ) (ho : c.o + 1 < c.ax.length) (hlr : c.lo ≤ c.hi)
    (hn : ninf ≤ c.lo ∧ ninf ≤ -1) (hp : c.hi ≤ pinf ∧ 1 ≤ pinf) :
    initialisation_process_drift pd0 c.aTilde c.finiteVariation c.modelDrift ninf pinf c.ax (c.o : ℤ)
        (fun x y => TruncatedLevyMeasure_integrate_against_x x y (c.lo, c.hi) c.m1) (chainMass c.ax c.m) c.mid =
      c.processDrift := by
  have key := src_process_drift_compensates pd0 c.aTilde c.finiteVariation c.modelDrift ninf pinf c.ax c.o
    (fun x y => TruncatedLevyMeasure_integrate_against_x x y (c.lo, c.hi) c.m1) (chainMass c.ax c.m) c.mid ho
  have hm := chain_mean c
  unfold Chain.mean Chain.jumpMean at hm
  rw [sum_map_range] at hm
  have hT : c.muTilde = (if c.finiteVariation = true then
      (fun x y => TruncatedLevyMeasure_integrate_against_x x y (c.lo, c.hi) c.m1) ninf 0 +
        (fun x y => TruncatedLevyMeasure_integrate_against_x x y (c.lo, c.hi) c.m1) 0 pinf
      else (fun x y => TruncatedLevyMeasure_integrate_against_x x y (c.lo, c.hi) c.m1) ninf (-1) +
        (fun x y => TruncatedLevyMeasure_integrate_against_x x y (c.lo, c.hi) c.m1) 1 pinf) := by
    beta_reduce
    unfold Chain.muTilde muTilde truncLeftTail truncRightTail vOf
    cases c.finiteVariation
    · simp only [Bool.false_eq_true, if_false]
      rw [src_integrate_x_eq_model _ _ _ _ _ hn.2, src_integrate_x_eq_model _ _ _ _ _ hp.2]
      unfold truncate truncIv
      simp only
      rw [min_eq_left (le_trans hn.1 hlr), max_eq_right hn.1, max_eq_left (le_trans hlr hp.1), min_eq_right hp.1]
    · simp only [if_true, neg_zero]
      rw [src_integrate_x_eq_model _ _ _ _ _ (by linarith [hn.2]), src_integrate_x_eq_model _ _ _ _ _ (by linarith [hp.2])]
      unfold truncate truncIv
      simp only
      rw [min_eq_left (le_trans hn.1 hlr), max_eq_right hn.1, max_eq_left (le_trans hlr hp.1), min_eq_right hp.1]
  rw [← hT] at key
  linarith

/-- non-vacuity of the hypotheses of `src_process_drift_eq_model`: a five-point chain -/
def exChain : Chain where
  mid := amid
  ax := [-2, -1, 0, 1, 3]
  o := 2
  h := 1
  m := fun a b => b - a
  m1 := fun a b => (b ^ 2 - a ^ 2) / 2
  m2 := fun a b => (b ^ 3 - a ^ 3) / 3
  finiteVariation := false
  sigma := 0
  modelDrift := 0
  aTilde := 0

example : exChain.o + 1 < exChain.ax.length ∧ exChain.lo ≤ exChain.hi ∧ ((-10 : ℚ) ≤ exChain.lo ∧ (-10 : ℚ) ≤ -1) ∧
    (exChain.hi ≤ (10 : ℚ) ∧ (1 : ℚ) ≤ 10) := by
  decide +kernel

end Rpylib.SrcTie.C04
