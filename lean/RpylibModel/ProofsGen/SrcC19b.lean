/-
C19 — source-derived tie, second set.  `RpylibModel/Generated/SrcC19b.lean` is rewritten on every run by harness/srctie.py
(plug-in harness/srcspec/C19.py, translator harness/py2lean.py) from the text of

  rpylib/numerical/tools.py                      interval_I
  rpylib/numerical/closedform/cflevymodel.py     CFLevyModel._theta, the legs and the brentq residual of implied_cds_spread
  rpylib/numerical/closedform/cflevycopula.py    CFLevyCopulaModel._theta, survival_probability, first_to_default_par_spread,
                                                 the legs and the brentq residual of implied_cds_spread
  rpylib/product/payoff.py                       CDS.evaluate

in /repo's current working tree.  The theorems below are about THOSE definitions.

What the functions read from collaborators is a parameter of the translated definition and universally quantified here;
what is assumed about these parameters is an explicit hypothesis (`Collab`, `IsLowerMass`, the laws of `exp`), each with a
concrete instance (`example`s at the end):
  * `I = interval_I` maps a negative threshold `a` to the half-line `(ninf, a)` — proved for the translated `interval_I` itself;
  * `mm i ninf a` (`models[i].mass(-inf, a)`), `pt [i, j] [a, b]` (`margin_tail_integral`), `ti [a, b, c]`
    (`tail_integrals`) are the masses, under one finitely additive non-negative set function `μ` on the subsets of the union
    of the default sets, of `H i a`, `H i a ∩ H j b` and (with the sign (−)³ of the library's tail integrals) of the triple
    intersection;
  * `n_models = dim` (`dimension()` is `len(models)`).
Theorems: (A) the translated `_theta` is the hand-written model's `thetaCopula` / `theta1` on the domain of the property
(1 ≤ dim ≤ 3 negative levels), its guards reject what the model rejects, the legs / payoff are the model's `defaultLeg`,
`fixedLeg`, `cdsPayoff`; (B) on the translated definitions directly: θ is the mass of the union of the default half-spaces
(inclusion–exclusion) in d = 1, 2, 3, non-negative, increasing in each threshold; survival / first-to-default spread are the
stated functions of it; the par spread is the root of the residual handed to brentq with zero present value, spread ↔ present
value invert each other, the zero-rate legs have the closed form; the payoff of one path is the defaulted / survived formula
(the recorded finding C19-cds-payoff-zero-rate-nan concerns `r = 0`: the payoff statements that divide by `r` say so).

The only proofs that look inside the generated terms are `src_interval_*`, `src_theta1_eq`, `src_thetaN_d1/d2/d3`,
`src_thetaN_guard_*`, `src_survivalN_is_exp_of_intensity`, `src_ftd_spread_is_lgd_times_intensity`, `src_legs*_eq_model`,
`src_residual*_eq_model` and `src_cds_eq_model`: each normalises (`simp` evaluation of the loops on a concrete dimension,
`ring1` / `ring_nf` up to the argument of `exp`, case split on `t ≤ T`) instead of mirroring syntax — checked against
rewrites of the source (renamed locals, reordered guards, scalar accumulation instead of the matrix, legs in another order,
statement-form `if`, `min` with swapped arguments); everything else is derived from these.
-/
import RpylibModel.Generated.SrcC19b
import RpylibModel.Generated.SrcC19
import RpylibModel.ProofsGen.SrcC19
import RpylibModel.Proofs.C19
import Mathlib.Tactic.Linarith
import Mathlib.Tactic.Ring
import Mathlib.Tactic.FieldSimp
import Mathlib.Algebra.Order.Field.Rat

set_option linter.unusedVariables false
set_option linter.unusedSimpArgs false
set_option linter.unnecessarySimpa false
set_option linter.unusedTactic false
set_option linter.unreachableTactic false
set_option linter.unnecessarySeqFocus false

namespace Rpylib.SrcTie.C19b
open Rpylib.Src.C19b Rpylib.Credit

/-! ## `interval_I` (rpylib/numerical/tools.py) -/

/-- a negative threshold stands for the lower half-line `(-inf, a)` -/
theorem src_interval_neg (x ninf pinf : Rat) (hx : x < 0) : interval_I x ninf pinf = (ninf, x) := by
  simp [interval_I, hx]

/-- a non-negative one for the upper half-line `(x, +inf)` -/
theorem src_interval_nonneg (x ninf pinf : Rat) (hx : 0 ≤ x) : interval_I x ninf pinf = (x, pinf) := by
  have : ¬ x < 0 := not_lt.mpr hx
  simp [interval_I, this]

/-! ## `CFLevyModel._theta` (1-d): the mass of the lower half-line -/

/-- what the tie assumes about `interval_I` when it is a parameter (true of the translated `interval_I`: `src_interval_neg`) -/
def IsIntervalI (I : Rat → Rat × Rat) (ninf : Rat) : Prop := ∀ a, a < 0 → I a = (ninf, a)

theorem src_interval_isIntervalI (ninf pinf : Rat) : IsIntervalI (fun x => interval_I x ninf pinf) ninf :=
  fun a ha => src_interval_neg a ninf pinf ha

/-- θ(a) = ν(−∞, a) for a negative threshold -/
theorem src_theta1_eq (a ninf : Rat) (ha : a < 0) (mass : Rat → Rat → Rat) (I : Rat → Rat × Rat) (hI : IsIntervalI I ninf) :
    CFLevyModel_theta a mass I = mass ninf a := by
  simp [CFLevyModel_theta, hI a ha]

/-- (A) the translated 1-d θ is the model's `theta1` of the lower-tail mass -/
theorem src_theta1_eq_model (a ninf : Rat) (ha : a < 0) (mass : Rat → Rat → Rat) (I : Rat → Rat × Rat) (hI : IsIntervalI I ninf) :
    CFLevyModel_theta a mass I = theta1 (fun x => mass ninf x) a := by
  rw [src_theta1_eq a ninf ha mass I hI]; rfl

/-- with the translated `interval_I` plugged in for the collaborator -/
theorem src_theta1_with_src_interval (a ninf pinf : Rat) (ha : a < 0) (mass : Rat → Rat → Rat) :
    CFLevyModel_theta a mass (fun x => interval_I x ninf pinf) = mass ninf a :=
  src_theta1_eq a ninf ha mass _ (src_interval_isIntervalI ninf pinf)

/-- the lower-tail mass of a measure: additive over adjacent intervals that start at `ninf`, non-negative on intervals -/
structure IsLowerMass (mass : Rat → Rat → Rat) (ninf : Rat) : Prop where
  add : ∀ a b, a ≤ b → mass ninf b = mass ninf a + mass a b
  nonneg : ∀ a b, a ≤ b → 0 ≤ mass a b
  nonneg_low : ∀ a, 0 ≤ mass ninf a

/-- (B) θ is non-negative and increasing in the threshold -/
theorem src_theta1_nonneg (a ninf : Rat) (ha : a < 0) (mass : Rat → Rat → Rat) (I : Rat → Rat × Rat) (hI : IsIntervalI I ninf)
    (hm : IsLowerMass mass ninf) : 0 ≤ CFLevyModel_theta a mass I := by
  rw [src_theta1_eq a ninf ha mass I hI]; exact hm.nonneg_low a

theorem src_theta1_monotone (a b ninf : Rat) (hab : a ≤ b) (hb : b < 0) (mass : Rat → Rat → Rat) (I : Rat → Rat × Rat)
    (hI : IsIntervalI I ninf) (hm : IsLowerMass mass ninf) : CFLevyModel_theta a mass I ≤ CFLevyModel_theta b mass I := by
  rw [src_theta1_eq a ninf (lt_of_le_of_lt hab hb) mass I hI, src_theta1_eq b ninf hb mass I hI, hm.add a b hab]
  linarith [hm.nonneg a b hab]

/-- (B) cross-function, with the first tie: survival probability and par spread of the 1-d closed form, with the translated
    `_theta` in the place of the collaborator, are `exp(−t·ν(−∞,a))` and `(1−R)·ν(−∞,a)` -/
theorem src_survival1_of_mass (a t ninf : Rat) (ha : a < 0) (mass : Rat → Rat → Rat) (I : Rat → Rat × Rat) (hI : IsIntervalI I ninf)
    (exp : Rat → Rat) :
    Rpylib.Src.C19.CFLevyModel_survival_probability a t (fun x => CFLevyModel_theta x mass I) exp = exp (-(t * mass ninf a)) := by
  rw [Rpylib.SrcTie.C19.src_survival_is_exp_of_intensity, src_theta1_eq a ninf ha mass I hI]

theorem src_spread1_of_mass (a R ninf : Rat) (ha : a < 0) (mass : Rat → Rat → Rat) (I : Rat → Rat × Rat) (hI : IsIntervalI I ninf) :
    Rpylib.Src.C19.CFLevyModel_cds_spread a R (fun x => CFLevyModel_theta x mass I) = (1 - R) * mass ninf a := by
  rw [Rpylib.SrcTie.C19.src_spread_is_lgd_times_intensity, src_theta1_eq a ninf ha mass I hI]

/-- (B) the par spread of the 1-d closed form is increasing in the threshold -/
theorem src_spread1_monotone (a b R ninf : Rat) (hab : a ≤ b) (hb : b < 0) (hR : R ≤ 1) (mass : Rat → Rat → Rat)
    (I : Rat → Rat × Rat) (hI : IsIntervalI I ninf) (hm : IsLowerMass mass ninf) :
    Rpylib.Src.C19.CFLevyModel_cds_spread a R (fun x => CFLevyModel_theta x mass I)
      ≤ Rpylib.Src.C19.CFLevyModel_cds_spread b R (fun x => CFLevyModel_theta x mass I) :=
  Rpylib.SrcTie.C19.src_spread_monotone a b R _ hR (src_theta1_monotone a b ninf hab hb mass I hI hm)

/-! ## `CFLevyCopulaModel._theta`: the coded value in d = 1, 2, 3 and the guards -/

section copula
variable (mm : Int → Rat → Rat → Rat) (I : Rat → Rat × Rat) (pt : List Int → List Rat → Rat) (ti : List Rat → Rat)

/-- d = 1: the mass of the single default half-line -/
theorem src_thetaN_d1 (a : Rat) (h : a < 0) :
    CFLevyCopulaModel_theta [a] 1 mm I pt ti 1 = mm 0 (I a).1 (I a).2 := by
  have n : ¬ (0 ≤ a) := not_le.mpr h
  simp [CFLevyCopulaModel_theta, Rpylib.Py.range, Rpylib.Py.enumerate, Rpylib.Py.setAt, Rpylib.Py.idx, Rpylib.Py.zeros, n,
    List.range_succ] <;> ring1

/-- d = 2: the two marginal masses minus the pair tail integral -/
theorem src_thetaN_d2 (a1 a2 : Rat) (h1 : a1 < 0) (h2 : a2 < 0) :
    CFLevyCopulaModel_theta [a1, a2] 2 mm I pt ti 2
      = mm 0 (I a1).1 (I a1).2 + mm 1 (I a2).1 (I a2).2 - pt [0, 1] [a1, a2] := by
  have n1 : ¬ (0 ≤ a1) := not_le.mpr h1
  have n2 : ¬ (0 ≤ a2) := not_le.mpr h2
  simp [CFLevyCopulaModel_theta, Rpylib.Py.range, Rpylib.Py.enumerate, Rpylib.Py.setAt, Rpylib.Py.idx, Rpylib.Py.zeros, n1, n2,
    List.range_succ] <;> ring1

/-- d = 3: the three marginal masses minus the three pair tail integrals minus the (signed) triple tail integral -/
theorem src_thetaN_d3 (a1 a2 a3 : Rat) (h1 : a1 < 0) (h2 : a2 < 0) (h3 : a3 < 0) :
    CFLevyCopulaModel_theta [a1, a2, a3] 3 mm I pt ti 3
      = mm 0 (I a1).1 (I a1).2 + mm 1 (I a2).1 (I a2).2 + mm 2 (I a3).1 (I a3).2
        - pt [0, 1] [a1, a2] - pt [0, 2] [a1, a3] - pt [1, 2] [a2, a3] - ti [a1, a2, a3] := by
  have n1 : ¬ (0 ≤ a1) := not_le.mpr h1
  have n2 : ¬ (0 ≤ a2) := not_le.mpr h2
  have n3 : ¬ (0 ≤ a3) := not_le.mpr h3
  simp [CFLevyCopulaModel_theta, Rpylib.Py.range, Rpylib.Py.enumerate, Rpylib.Py.setAt, Rpylib.Py.idx, Rpylib.Py.zeros, n1, n2, n3,
    List.range_succ] <;> ring1

/-- guard: more than three names are rejected (`NotImplementedError`; error value −1) -/
theorem src_thetaN_guard_dim (as : List Rat) (dim n : Int) (h : 3 < dim) :
    CFLevyCopulaModel_theta as dim mm I pt ti n = -1 := by
  have h' : ¬ dim ≤ 3 := not_le.mpr h
  simp [CFLevyCopulaModel_theta, h, h'] <;> (intros; first | omega | (exfalso; omega))

/-- guard: one level per name (`ValueError`) -/
theorem src_thetaN_guard_len (as : List Rat) (dim n : Int) (h : dim ≠ (as.length : Int)) :
    CFLevyCopulaModel_theta as dim mm I pt ti n = -1 := by
  have h' : (as.length : Int) ≠ dim := Ne.symm h
  simp [CFLevyCopulaModel_theta, h, h'] <;> (intros; first | omega | (exfalso; omega))

/-- guard: a non-negative level is rejected (`ValueError`) -/
theorem src_thetaN_guard_level (as : List Rat) (dim n : Int) (h : ∃ a ∈ as, 0 ≤ a) :
    CFLevyCopulaModel_theta as dim mm I pt ti n = -1 := by
  have h' : ¬ ∀ a ∈ as, a < 0 := fun hall => by
    obtain ⟨a, ha, h0⟩ := h
    exact absurd (hall a ha) (not_lt.mpr h0)
  simp [CFLevyCopulaModel_theta, h, h'] <;> (intros; first | (exfalso; simp_all) | omega)

end copula

/-! ## (A) the translated `_theta` is the model's `thetaCopula` -/

/-- the model's view of the collaborators: `low i a = models[i].mass(ninf, a)`, `pair i j a b = margin_tail_integral([i, j], (a, b))`,
    `triple a b c = tail_integrals((a, b, c))` -/
def paramFamily (mm : Int → Rat → Rat → Rat) (ninf : Rat) (pt : List Int → List Rat → Rat) (ti : List Rat → Rat) : TailFamily where
  low := fun i a => mm (i : Int) ninf a
  pair := fun i j a b => pt [(i : Int), (j : Int)] [a, b]
  triple := fun a b c => ti [a, b, c]

/-- **(A)** on the domain of the property — one to three names, one negative level per name, `dimension() = len(models)` —
    the translated `_theta` returns exactly what the hand-written model `thetaCopula` returns -/
theorem src_thetaN_eq_model (mm : Int → Rat → Rat → Rat) (I : Rat → Rat × Rat) (pt : List Int → List Rat → Rat)
    (ti : List Rat → Rat) (ninf : Rat) (hI : IsIntervalI I ninf) (as : List Rat) (dim n : Int) (h1 : 1 ≤ dim) (h3 : dim ≤ 3)
    (hlen : (as.length : Int) = dim) (hn : n = dim) (hneg : ∀ a ∈ as, a < 0) :
    thetaCopula (paramFamily mm ninf pt ti) dim.toNat as = .ok (CFLevyCopulaModel_theta as dim mm I pt ti n) := by
  have hn' : dim = n := hn.symm
  subst hn'
  have hd : dim = 1 ∨ dim = 2 ∨ dim = 3 := by omega
  rcases hd with rfl | rfl | rfl
  · match as, hlen, hneg with
    | [a], _, hneg =>
      have ha : a < 0 := hneg a (by simp)
      rw [src_thetaN_d1 mm I pt ti a ha, hI a ha]
      exact thetaCopula_one _ a ha
  · match as, hlen, hneg with
    | [a1, a2], _, hneg =>
      have g1 : a1 < 0 := hneg a1 (by simp)
      have g2 : a2 < 0 := hneg a2 (by simp)
      rw [src_thetaN_d2 mm I pt ti a1 a2 g1 g2, hI a1 g1, hI a2 g2]
      exact thetaCopula_two _ a1 a2 g1 g2
  · match as, hlen, hneg with
    | [a1, a2, a3], _, hneg =>
      have g1 : a1 < 0 := hneg a1 (by simp)
      have g2 : a2 < 0 := hneg a2 (by simp)
      have g3 : a3 < 0 := hneg a3 (by simp)
      rw [src_thetaN_d3 mm I pt ti a1 a2 a3 g1 g2 g3, hI a1 g1, hI a2 g2, hI a3 g3]
      show thetaCopula (paramFamily mm ninf pt ti) 3 [a1, a2, a3] = _
      rw [thetaCopula_three _ a1 a2 a3 g1 g2 g3]
      simp only [theta3, paramFamily]
      norm_num

/-- (A) the guards: the translated `_theta` raises (error value −1) exactly where the model returns an error -/
theorem src_thetaN_guards_eq_model (mm : Int → Rat → Rat → Rat) (I : Rat → Rat × Rat) (pt : List Int → List Rat → Rat)
    (ti : List Rat → Rat) (F : TailFamily) (as : List Rat) (dim n : Int) (h0 : 0 ≤ dim)
    (hbad : 3 < dim ∨ dim ≠ (as.length : Int) ∨ ∃ a ∈ as, 0 ≤ a) :
    CFLevyCopulaModel_theta as dim mm I pt ti n = -1 ∧ ∃ e, thetaCopula F dim.toNat as = .error e := by
  have hg := thetaCopula_guards F dim.toNat as
  by_cases c1 : 3 < dim
  · exact ⟨src_thetaN_guard_dim mm I pt ti as dim n c1, _, hg.1 (by omega)⟩
  · by_cases c2 : dim ≠ (as.length : Int)
    · exact ⟨src_thetaN_guard_len mm I pt ti as dim n c2, _, hg.2.1 (by omega) (by omega)⟩
    · have c3 : ∃ a ∈ as, 0 ≤ a := by
        rcases hbad with h | h | h
        · exact absurd h c1
        · exact absurd h c2
        · exact h
      exact ⟨src_thetaN_guard_level mm I pt ti as dim n c3, _, hg.2.2 (by omega) (by omega) c3⟩

/-! ## (B) inclusion–exclusion, sign and monotonicity of the translated `_theta` -/

/-- what the tie assumes about the collaborators of `CFLevyCopulaModel._theta`, for a set function `μ` and the default sets
    `H i a` ("name i jumps below a"): the margins' lower-tail masses and the tail integrals of the Lévy copula model are
    the `μ`-masses of the default sets and of their intersections, with the sign convention of
    `levycopulamodel.py:292-325` at negative arguments (pair: (−)(−) = +, triple: (−)³ = −) -/
structure Collab {α : Type} (mm : Int → Rat → Rat → Rat) (I : Rat → Rat × Rat) (pt : List Int → List Rat → Rat)
    (ti : List Rat → Rat) (ninf : Rat) (μ : Set α → ℚ) (H : ℕ → ℚ → Set α) : Prop where
  interval : IsIntervalI I ninf
  low : ∀ (i : ℕ) a, mm (i : Int) ninf a = μ (H i a)
  pair : ∀ (i j : ℕ) a b, pt [(i : Int), (j : Int)] [a, b] = μ (H i a ∩ H j b)
  triple : ∀ a b c, ti [a, b, c] = -μ (H 0 a ∩ H 1 b ∩ H 2 c)

theorem Collab.isTailFamilyOf {α : Type} {mm : Int → Rat → Rat → Rat} {I : Rat → Rat × Rat} {pt : List Int → List Rat → Rat}
    {ti : List Rat → Rat} {ninf : Rat} {μ : Set α → ℚ} {H : ℕ → ℚ → Set α} (hc : Collab mm I pt ti ninf μ H) :
    IsTailFamilyOf (paramFamily mm ninf pt ti) μ H :=
  ⟨fun i a => hc.low i a, fun i j a b => hc.pair i j a b, fun a b c => hc.triple a b c⟩

section incl_excl
variable {α : Type} {mm : Int → Rat → Rat → Rat} {I : Rat → Rat × Rat} {pt : List Int → List Rat → Rat}
  {ti : List Rat → Rat} {ninf : Rat} {μ : Set α → ℚ} {H : ℕ → ℚ → Set α} (hc : Collab mm I pt ti ninf μ H)
include hc

/-- **(B) d = 1**: θ is the mass of the default set -/
theorem src_thetaN_incl_excl_d1 (a : Rat) (ha : a < 0) :
    CFLevyCopulaModel_theta [a] 1 mm I pt ti 1 = μ (H 0 a) := by
  rw [src_thetaN_d1 mm I pt ti a ha, hc.interval a ha]
  exact hc.low 0 a

/-- **(B) d = 2**: θ = μ(H₀) + μ(H₁) − μ(H₀ ∩ H₁) = μ(H₀ ∪ H₁) -/
theorem src_thetaN_incl_excl_d2 (a1 a2 : Rat) (h1 : a1 < 0) (h2 : a2 < 0) (hμ : AdditiveOn μ (H 0 a1 ∪ H 1 a2)) :
    CFLevyCopulaModel_theta [a1, a2] 2 mm I pt ti 2 = μ (H 0 a1 ∪ H 1 a2) := by
  rw [src_thetaN_d2 mm I pt ti a1 a2 h1 h2, hc.interval a1 h1, hc.interval a2 h2]
  have e0 := hc.low 0 a1
  have e1 := hc.low 1 a2
  have e01 := hc.pair 0 1 a1 a2
  simp only [Nat.cast_zero, Nat.cast_one] at e0 e1 e01
  rw [e0, e1, e01, hμ.union _ _ Set.subset_union_left Set.subset_union_right]

/-- **(B) d = 3**: θ = Σ μ(Hᵢ) − Σ μ(Hᵢ ∩ Hⱼ) + μ(H₀ ∩ H₁ ∩ H₂) = μ(H₀ ∪ H₁ ∪ H₂) -/
theorem src_thetaN_incl_excl_d3 (a1 a2 a3 : Rat) (h1 : a1 < 0) (h2 : a2 < 0) (h3 : a3 < 0)
    (hμ : AdditiveOn μ (H 0 a1 ∪ H 1 a2 ∪ H 2 a3)) :
    CFLevyCopulaModel_theta [a1, a2, a3] 3 mm I pt ti 3 = μ (H 0 a1 ∪ H 1 a2 ∪ H 2 a3) := by
  rw [src_thetaN_d3 mm I pt ti a1 a2 a3 h1 h2 h3, hc.interval a1 h1, hc.interval a2 h2, hc.interval a3 h3]
  have e0 := hc.low 0 a1
  have e1 := hc.low 1 a2
  have e2 := hc.low 2 a3
  have e01 := hc.pair 0 1 a1 a2
  have e02 := hc.pair 0 2 a1 a3
  have e12 := hc.pair 1 2 a2 a3
  simp only [Nat.cast_zero, Nat.cast_one, Nat.cast_ofNat] at e0 e1 e2 e01 e02 e12
  rw [e0, e1, e2, e01, e02, e12, hc.triple,
    hμ.union3 _ _ _ (Set.subset_union_left.trans Set.subset_union_left)
      (Set.subset_union_right.trans Set.subset_union_left) Set.subset_union_right]
  ring

/-- **(B)** θ ≥ 0 in d = 1, 2, 3 -/
theorem src_thetaN_nonneg :
    (∀ a, a < 0 → AdditiveOn μ (H 0 a) → 0 ≤ CFLevyCopulaModel_theta [a] 1 mm I pt ti 1) ∧
    (∀ a1 a2, a1 < 0 → a2 < 0 → AdditiveOn μ (H 0 a1 ∪ H 1 a2) → 0 ≤ CFLevyCopulaModel_theta [a1, a2] 2 mm I pt ti 2) ∧
    (∀ a1 a2 a3, a1 < 0 → a2 < 0 → a3 < 0 → AdditiveOn μ (H 0 a1 ∪ H 1 a2 ∪ H 2 a3) →
      0 ≤ CFLevyCopulaModel_theta [a1, a2, a3] 3 mm I pt ti 3) := by
  refine ⟨fun a ha hμ => ?_, fun a1 a2 h1 h2 hμ => ?_, fun a1 a2 a3 h1 h2 h3 hμ => ?_⟩
  · rw [src_thetaN_incl_excl_d1 hc a ha]; exact hμ.nonneg _ (le_refl _)
  · rw [src_thetaN_incl_excl_d2 hc a1 a2 h1 h2 hμ]; exact hμ.nonneg _ (le_refl _)
  · rw [src_thetaN_incl_excl_d3 hc a1 a2 a3 h1 h2 h3 hμ]; exact hμ.nonneg _ (le_refl _)

/-- **(B)** θ is increasing in each threshold (d = 1, 2, 3), for default sets that grow with their threshold -/
theorem src_thetaN_monotone (hH : ∀ i a a', a ≤ a' → H i a ⊆ H i a') :
    (∀ a a', a ≤ a' → a' < 0 → AdditiveOn μ (H 0 a') →
      CFLevyCopulaModel_theta [a] 1 mm I pt ti 1 ≤ CFLevyCopulaModel_theta [a'] 1 mm I pt ti 1) ∧
    (∀ a1 a2 a1' a2', a1 ≤ a1' → a2 ≤ a2' → a1' < 0 → a2' < 0 → AdditiveOn μ (H 0 a1' ∪ H 1 a2') →
      CFLevyCopulaModel_theta [a1, a2] 2 mm I pt ti 2 ≤ CFLevyCopulaModel_theta [a1', a2'] 2 mm I pt ti 2) ∧
    (∀ a1 a2 a3 a1' a2' a3', a1 ≤ a1' → a2 ≤ a2' → a3 ≤ a3' → a1' < 0 → a2' < 0 → a3' < 0 →
      AdditiveOn μ (H 0 a1' ∪ H 1 a2' ∪ H 2 a3') →
      CFLevyCopulaModel_theta [a1, a2, a3] 3 mm I pt ti 3 ≤ CFLevyCopulaModel_theta [a1', a2', a3'] 3 mm I pt ti 3) := by
  refine ⟨?_, ?_, ?_⟩
  · intro a a' h hn hμ
    rw [src_thetaN_incl_excl_d1 hc a (by linarith), src_thetaN_incl_excl_d1 hc a' hn]
    exact hμ.mono _ _ (hH 0 a a' h) (le_refl _)
  · intro a1 a2 a1' a2' h1 h2 n1 n2 hμ
    have hsub : H 0 a1 ∪ H 1 a2 ⊆ H 0 a1' ∪ H 1 a2' := Set.union_subset_union (hH 0 _ _ h1) (hH 1 _ _ h2)
    rw [src_thetaN_incl_excl_d2 hc a1 a2 (by linarith) (by linarith) (hμ.mono_set hsub),
      src_thetaN_incl_excl_d2 hc a1' a2' n1 n2 hμ]
    exact hμ.mono _ _ hsub (le_refl _)
  · intro a1 a2 a3 a1' a2' a3' h1 h2 h3 n1 n2 n3 hμ
    have hsub : H 0 a1 ∪ H 1 a2 ∪ H 2 a3 ⊆ H 0 a1' ∪ H 1 a2' ∪ H 2 a3' :=
      Set.union_subset_union (Set.union_subset_union (hH 0 _ _ h1) (hH 1 _ _ h2)) (hH 2 _ _ h3)
    rw [src_thetaN_incl_excl_d3 hc a1 a2 a3 (by linarith) (by linarith) (by linarith) (hμ.mono_set hsub),
      src_thetaN_incl_excl_d3 hc a1' a2' a3' n1 n2 n3 hμ]
    exact hμ.mono _ _ hsub (le_refl _)

end incl_excl

/-! ## survival probability and first-to-default par spread of the copula closed form -/

theorem src_survivalN_is_exp_of_intensity (as : List Rat) (t : Rat) (theta : List Rat → Rat) (exp : Rat → Rat) :
    CFLevyCopulaModel_survival_probability as t theta exp = exp (-(t * theta as)) := by
  simp only [CFLevyCopulaModel_survival_probability]; congr 1; ring

/-- (A) = the model's `survival` -/
theorem src_survivalN_eq_model (as : List Rat) (t : Rat) (theta : List Rat → Rat) (exp : Rat → Rat) :
    CFLevyCopulaModel_survival_probability as t theta exp = survival exp (theta as) t := by
  rw [src_survivalN_is_exp_of_intensity]; unfold survival; congr 1; ring

theorem src_ftd_spread_is_lgd_times_intensity (as : List Rat) (R : Rat) (theta : List Rat → Rat) :
    CFLevyCopulaModel_first_to_default_par_spread as R theta = (1 - R) * theta as := by
  simp only [CFLevyCopulaModel_first_to_default_par_spread] <;> ring1

/-- (A) = the model's `parSpread` -/
theorem src_ftd_spread_eq_model (as : List Rat) (R : Rat) (theta : List Rat → Rat) :
    CFLevyCopulaModel_first_to_default_par_spread as R theta = parSpread (theta as) R := by
  rw [src_ftd_spread_is_lgd_times_intensity]; rfl

/-- (B) the first-to-default par spread is increasing in the default intensity, hence in each threshold -/
theorem src_ftd_spread_monotone (as bs : List Rat) (R : Rat) (theta : List Rat → Rat) (hR : R ≤ 1) (h : theta as ≤ theta bs) :
    CFLevyCopulaModel_first_to_default_par_spread as R theta ≤ CFLevyCopulaModel_first_to_default_par_spread bs R theta := by
  rw [src_ftd_spread_is_lgd_times_intensity, src_ftd_spread_is_lgd_times_intensity]
  exact mul_le_mul_of_nonneg_left h (by linarith)

/-- (B) the intensity is recovered from the par spread -/
theorem src_intensity_from_ftd_spread (as : List Rat) (R : Rat) (theta : List Rat → Rat) (hR : R ≠ 1) :
    CFLevyCopulaModel_first_to_default_par_spread as R theta / (1 - R) = theta as := by
  rw [src_ftd_spread_is_lgd_times_intensity]
  have : (1 - R) ≠ 0 := sub_ne_zero.mpr (Ne.symm hR)
  field_simp

/-- (B) survival: 1 at time 0, in (0, 1] for θ, t ≥ 0, decreasing in t and in θ, multiplicative over consecutive periods —
    for every `exp` with the laws named -/
theorem src_survivalN_laws (as : List Rat) (theta : List Rat → Rat) (exp : Rat → Rat) (hmono : StrictMono exp) (h0 : exp 0 = 1)
    (hpos : ∀ x, 0 < exp x) (hadd : ∀ x y, exp (x + y) = exp x * exp y) (hθ : 0 ≤ theta as) :
    CFLevyCopulaModel_survival_probability as 0 theta exp = 1 ∧
    (∀ t, 0 < CFLevyCopulaModel_survival_probability as t theta exp) ∧
    (∀ t, 0 ≤ t → CFLevyCopulaModel_survival_probability as t theta exp ≤ 1) ∧
    (∀ s t, s ≤ t → CFLevyCopulaModel_survival_probability as t theta exp ≤ CFLevyCopulaModel_survival_probability as s theta exp) ∧
    (∀ s t, CFLevyCopulaModel_survival_probability as (s + t) theta exp
      = CFLevyCopulaModel_survival_probability as s theta exp * CFLevyCopulaModel_survival_probability as t theta exp) := by
  simp only [src_survivalN_is_exp_of_intensity]
  refine ⟨by simp [h0], fun t => hpos _, fun t ht => ?_, fun s t hst => ?_, fun s t => ?_⟩
  · rw [← h0]; apply hmono.monotone
    have := mul_nonneg ht hθ
    linarith
  · apply hmono.monotone
    have := mul_le_mul_of_nonneg_right hst hθ
    linarith
  · rw [← hadd]; congr 1; ring

/-- (B) a larger intensity (a higher threshold) gives a smaller survival probability -/
theorem src_survivalN_antitone (as bs : List Rat) (t : Rat) (theta : List Rat → Rat) (exp : Rat → Rat) (hmono : Monotone exp)
    (ht : 0 ≤ t) (h : theta as ≤ theta bs) :
    CFLevyCopulaModel_survival_probability bs t theta exp ≤ CFLevyCopulaModel_survival_probability as t theta exp := by
  simp only [src_survivalN_is_exp_of_intensity]
  apply hmono
  have := mul_le_mul_of_nonneg_left h ht
  linarith

/-- (B) cross-function: the copula closed form with the translated `_theta` as its intensity, d = 2: survival is
    `exp(−t·μ(H₀ ∪ H₁))`, the first-to-default par spread `(1−R)·μ(H₀ ∪ H₁)` -/
theorem src_ftd_of_union_d2 {α : Type} {mm : Int → Rat → Rat → Rat} {I : Rat → Rat × Rat} {pt : List Int → List Rat → Rat}
    {ti : List Rat → Rat} {ninf : Rat} {μ : Set α → ℚ} {H : ℕ → ℚ → Set α} (hc : Collab mm I pt ti ninf μ H)
    (a1 a2 t R : Rat) (h1 : a1 < 0) (h2 : a2 < 0) (hμ : AdditiveOn μ (H 0 a1 ∪ H 1 a2)) (exp : Rat → Rat) :
    CFLevyCopulaModel_survival_probability [a1, a2] t (fun as => CFLevyCopulaModel_theta as 2 mm I pt ti 2) exp
        = exp (-(t * μ (H 0 a1 ∪ H 1 a2))) ∧
    CFLevyCopulaModel_first_to_default_par_spread [a1, a2] R (fun as => CFLevyCopulaModel_theta as 2 mm I pt ti 2)
        = (1 - R) * μ (H 0 a1 ∪ H 1 a2) := by
  rw [src_survivalN_is_exp_of_intensity, src_ftd_spread_is_lgd_times_intensity, src_thetaN_incl_excl_d2 hc a1 a2 h1 h2 hμ]
  exact ⟨rfl, rfl⟩

theorem src_ftd_of_union_d3 {α : Type} {mm : Int → Rat → Rat → Rat} {I : Rat → Rat × Rat} {pt : List Int → List Rat → Rat}
    {ti : List Rat → Rat} {ninf : Rat} {μ : Set α → ℚ} {H : ℕ → ℚ → Set α} (hc : Collab mm I pt ti ninf μ H)
    (a1 a2 a3 t R : Rat) (h1 : a1 < 0) (h2 : a2 < 0) (h3 : a3 < 0) (hμ : AdditiveOn μ (H 0 a1 ∪ H 1 a2 ∪ H 2 a3))
    (exp : Rat → Rat) :
    CFLevyCopulaModel_survival_probability [a1, a2, a3] t (fun as => CFLevyCopulaModel_theta as 3 mm I pt ti 3) exp
        = exp (-(t * μ (H 0 a1 ∪ H 1 a2 ∪ H 2 a3))) ∧
    CFLevyCopulaModel_first_to_default_par_spread [a1, a2, a3] R (fun as => CFLevyCopulaModel_theta as 3 mm I pt ti 3)
        = (1 - R) * μ (H 0 a1 ∪ H 1 a2 ∪ H 2 a3) := by
  rw [src_survivalN_is_exp_of_intensity, src_ftd_spread_is_lgd_times_intensity,
    src_thetaN_incl_excl_d3 hc a1 a2 a3 h1 h2 h3 hμ]
  exact ⟨rfl, rfl⟩

/-! ## the legs of `implied_cds_spread` and the residual handed to brentq (both closed forms)

`CF…_implied_legs a R T pv …` is the pair `(default_leg, fixed_leg)` the function computes before it defines the nested
`fun(spread)`; `CF…_implied_residual a R T pv s …` is that closure applied to `s` (`pv` is only read by the closure). -/

/-- (A) the translated legs are the model's `defaultLeg`, `fixedLeg` at `E = exp(−(r+θ)T)` — 1-d closed form -/
theorem src_legs1_eq_model (a R T pv r : Rat) (theta exp : Rat → Rat) :
    CFLevyModel_implied_legs a R T pv r theta exp
      = (defaultLeg (discount exp (theta a) r T) (theta a) r R, fixedLeg (discount exp (theta a) r T) (theta a) r) := by
  have hE : ∀ x : Rat, x = -(r + theta a) * T → exp x = exp (-(r + theta a) * T) := fun x hx => by rw [hx]
  simp only [CFLevyModel_implied_legs, defaultLeg, fixedLeg, discount] <;>
    (refine Prod.ext ?_ ?_ <;> simp only [] <;> first | rfl | ring1 | (rw [hE _ (by ring1)]; ring1) | ring_nf)

/-- (A) … copula closed form -/
theorem src_legsN_eq_model (as : List Rat) (R T pv r : Rat) (theta : List Rat → Rat) (exp : Rat → Rat) :
    CFLevyCopulaModel_implied_legs as R T pv r theta exp
      = (defaultLeg (discount exp (theta as) r T) (theta as) r R, fixedLeg (discount exp (theta as) r T) (theta as) r) := by
  have hE : ∀ x : Rat, x = -(r + theta as) * T → exp x = exp (-(r + theta as) * T) := fun x hx => by rw [hx]
  simp only [CFLevyCopulaModel_implied_legs, defaultLeg, fixedLeg, discount] <;>
    (refine Prod.ext ?_ ?_ <;> simp only [] <;> first | rfl | ring1 | (rw [hE _ (by ring1)]; ring1) | ring_nf)

/-- (A) the translated residual (legs + closure) is the model's `spreadResidual` -/
theorem src_residual1_eq_model (a R T pv s r : Rat) (theta exp : Rat → Rat) :
    CFLevyModel_implied_residual a R T pv s r theta exp = spreadResidual (discount exp (theta a) r T) (theta a) r R pv s := by
  have hE : ∀ x : Rat, x = -(r + theta a) * T → exp x = exp (-(r + theta a) * T) := fun x hx => by rw [hx]
  simp only [CFLevyModel_implied_residual, spreadResidual, presentValue, defaultLeg, fixedLeg, discount] <;>
    first | rfl | ring1 | (rw [hE _ (by ring1)]; ring1) | ring_nf

theorem src_residualN_eq_model (as : List Rat) (R T pv s r : Rat) (theta : List Rat → Rat) (exp : Rat → Rat) :
    CFLevyCopulaModel_implied_residual as R T pv s r theta exp
      = spreadResidual (discount exp (theta as) r T) (theta as) r R pv s := by
  have hE : ∀ x : Rat, x = -(r + theta as) * T → exp x = exp (-(r + theta as) * T) := fun x hx => by rw [hx]
  simp only [CFLevyCopulaModel_implied_residual, spreadResidual, presentValue, defaultLeg, fixedLeg, discount] <;>
    first | rfl | ring1 | (rw [hE _ (by ring1)]; ring1) | ring_nf

/-- (B) the residual is the present value of the contract at running spread `s` — the two translated legs — minus the
    target present value (for every `pv'`: the legs do not read `pv`) -/
theorem src_residual1_eq_legs (a R T pv pv' s r : Rat) (theta exp : Rat → Rat) :
    CFLevyModel_implied_residual a R T pv s r theta exp
      = (CFLevyModel_implied_legs a R T pv' r theta exp).1 - s * (CFLevyModel_implied_legs a R T pv' r theta exp).2 - pv := by
  rw [src_residual1_eq_model, src_legs1_eq_model]; rfl

theorem src_residualN_eq_legs (as : List Rat) (R T pv pv' s r : Rat) (theta : List Rat → Rat) (exp : Rat → Rat) :
    CFLevyCopulaModel_implied_residual as R T pv s r theta exp
      = (CFLevyCopulaModel_implied_legs as R T pv' r theta exp).1
        - s * (CFLevyCopulaModel_implied_legs as R T pv' r theta exp).2 - pv := by
  rw [src_residualN_eq_model, src_legsN_eq_model]; rfl

/-- (B) the implied spread: the residual vanishes exactly at `(default_leg − pv) / fixed_leg` (what brentq converges to) -/
theorem src_residual1_root_iff (a R T pv s r : Rat) (theta exp : Rat → Rat)
    (hfl : (CFLevyModel_implied_legs a R T pv r theta exp).2 ≠ 0) :
    CFLevyModel_implied_residual a R T pv s r theta exp = 0
      ↔ s = ((CFLevyModel_implied_legs a R T pv r theta exp).1 - pv) / (CFLevyModel_implied_legs a R T pv r theta exp).2 := by
  rw [src_residual1_eq_legs a R T pv pv s r theta exp, eq_div_iff hfl]
  constructor <;> intro h <;> linarith

theorem src_residualN_root_iff (as : List Rat) (R T pv s r : Rat) (theta : List Rat → Rat) (exp : Rat → Rat)
    (hfl : (CFLevyCopulaModel_implied_legs as R T pv r theta exp).2 ≠ 0) :
    CFLevyCopulaModel_implied_residual as R T pv s r theta exp = 0
      ↔ s = ((CFLevyCopulaModel_implied_legs as R T pv r theta exp).1 - pv)
          / (CFLevyCopulaModel_implied_legs as R T pv r theta exp).2 := by
  rw [src_residualN_eq_legs as R T pv pv s r theta exp, eq_div_iff hfl]
  constructor <;> intro h <;> linarith

/-- (B) spread → present value → spread: the residual of the present value of spread `s` (default leg − s · fixed leg)
    vanishes at `s` -/
theorem src_residual_roundtrip (a R T s r : Rat) (theta exp : Rat → Rat) (as : List Rat) (thetaN : List Rat → Rat) :
    CFLevyModel_implied_residual a R T
        ((CFLevyModel_implied_legs a R T 0 r theta exp).1 - s * (CFLevyModel_implied_legs a R T 0 r theta exp).2) s r theta exp = 0 ∧
    CFLevyCopulaModel_implied_residual as R T
        ((CFLevyCopulaModel_implied_legs as R T 0 r thetaN exp).1 - s * (CFLevyCopulaModel_implied_legs as R T 0 r thetaN exp).2)
        s r thetaN exp = 0 := by
  constructor
  · rw [src_residual1_eq_legs a R T _ 0 s r theta exp]; ring
  · rw [src_residualN_eq_legs as R T _ 0 s r thetaN exp]; ring

/-- (B) the residual is strictly decreasing in the spread when the fixed leg is positive: one root at most -/
theorem src_residual_strictAnti (a R T pv s s' r : Rat) (theta exp : Rat → Rat) (as : List Rat) (thetaN : List Rat → Rat)
    (hs : s < s') :
    (0 < (CFLevyModel_implied_legs a R T pv r theta exp).2 →
      CFLevyModel_implied_residual a R T pv s' r theta exp < CFLevyModel_implied_residual a R T pv s r theta exp) ∧
    (0 < (CFLevyCopulaModel_implied_legs as R T pv r thetaN exp).2 →
      CFLevyCopulaModel_implied_residual as R T pv s' r thetaN exp < CFLevyCopulaModel_implied_residual as R T pv s r thetaN exp) := by
  constructor <;> intro hfl
  · rw [src_residual1_eq_legs a R T pv pv s r theta exp, src_residual1_eq_legs a R T pv pv s' r theta exp]
    have := mul_lt_mul_of_pos_right hs hfl
    linarith
  · rw [src_residualN_eq_legs as R T pv pv s r thetaN exp, src_residualN_eq_legs as R T pv pv s' r thetaN exp]
    have := mul_lt_mul_of_pos_right hs hfl
    linarith

/-- **(B) the fair spread equates the two legs**: the residual of a zero present value vanishes at the par spread
    `cds_spread` of the first tie — `(1−R)θ` is the implied spread of pv = 0 (`r + θ ≠ 0`) -/
theorem src_par_spread_equates_legs1 (a R T r : Rat) (theta exp : Rat → Rat) (h : r + theta a ≠ 0) :
    CFLevyModel_implied_residual a R T 0 (Rpylib.Src.C19.CFLevyModel_cds_spread a R theta) r theta exp = 0 := by
  rw [src_residual1_eq_model, Rpylib.SrcTie.C19.src_spread_is_lgd_times_intensity]
  have := presentValue_parSpread (discount exp (theta a) r T) (theta a) r R h
  unfold spreadResidual; unfold parSpread at this; rw [this]; ring

theorem src_par_spread_equates_legsN (as : List Rat) (R T r : Rat) (theta : List Rat → Rat) (exp : Rat → Rat)
    (h : r + theta as ≠ 0) :
    CFLevyCopulaModel_implied_residual as R T 0 (CFLevyCopulaModel_first_to_default_par_spread as R theta) r theta exp = 0 := by
  rw [src_residualN_eq_model, src_ftd_spread_is_lgd_times_intensity]
  have := presentValue_parSpread (discount exp (theta as) r T) (theta as) r R h
  unfold spreadResidual; unfold parSpread at this; rw [this]; ring

/-- (B) the fixed leg is positive for a strictly increasing `exp` with `exp 0 = 1`, `r + θ > 0`, `T > 0` (so the hypothesis
    `fixed_leg ≠ 0` / `0 < fixed_leg` of the statements above is met), and the default leg is `(1−R)·θ` times it -/
theorem src_legs_fixed_pos (a R T pv r : Rat) (theta exp : Rat → Rat) (hmono : StrictMono exp) (h0 : exp 0 = 1)
    (hr : 0 < r + theta a) (hT : 0 < T) :
    0 < (CFLevyModel_implied_legs a R T pv r theta exp).2 ∧
    (CFLevyModel_implied_legs a R T pv r theta exp).1 = (1 - R) * theta a * (CFLevyModel_implied_legs a R T pv r theta exp).2 := by
  rw [src_legs1_eq_model]
  refine ⟨fixedLeg_pos exp hmono h0 (theta a) r T hr hT, ?_⟩
  simp only [defaultLeg, fixedLeg]
  have : r + theta a ≠ 0 := ne_of_gt hr
  field_simp

theorem src_legsN_fixed_pos (as : List Rat) (R T pv r : Rat) (theta : List Rat → Rat) (exp : Rat → Rat) (hmono : StrictMono exp)
    (h0 : exp 0 = 1) (hr : 0 < r + theta as) (hT : 0 < T) :
    0 < (CFLevyCopulaModel_implied_legs as R T pv r theta exp).2 ∧
    (CFLevyCopulaModel_implied_legs as R T pv r theta exp).1
      = (1 - R) * theta as * (CFLevyCopulaModel_implied_legs as R T pv r theta exp).2 := by
  rw [src_legsN_eq_model]
  refine ⟨fixedLeg_pos exp hmono h0 (theta as) r T hr hT, ?_⟩
  simp only [defaultLeg, fixedLeg]
  have : r + theta as ≠ 0 := ne_of_gt hr
  field_simp

/-- (B) zero rates: the legs have the closed form `(1−R)(1−S)` and `(1−S)/θ` with `S = exp(−θT)` the survival probability -/
theorem src_legs_zero_rate (a R T pv : Rat) (theta exp : Rat → Rat) (hθ : theta a ≠ 0) :
    CFLevyModel_implied_legs a R T pv 0 theta exp
      = ((1 - R) * (1 - Rpylib.Src.C19.CFLevyModel_survival_probability a T theta exp),
         (1 - Rpylib.Src.C19.CFLevyModel_survival_probability a T theta exp) / theta a) := by
  rw [src_legs1_eq_model, Rpylib.SrcTie.C19.src_survival_is_exp_of_intensity]
  have e : discount exp (theta a) 0 T = exp (-(T * theta a)) := by unfold discount; congr 1; ring
  rw [e]
  refine Prod.ext ?_ ?_ <;> simp only [defaultLeg, fixedLeg, zero_add]
  field_simp

theorem src_legsN_zero_rate (as : List Rat) (R T pv : Rat) (theta : List Rat → Rat) (exp : Rat → Rat) (hθ : theta as ≠ 0) :
    CFLevyCopulaModel_implied_legs as R T pv 0 theta exp
      = ((1 - R) * (1 - CFLevyCopulaModel_survival_probability as T theta exp),
         (1 - CFLevyCopulaModel_survival_probability as T theta exp) / theta as) := by
  rw [src_legsN_eq_model, src_survivalN_is_exp_of_intensity]
  have e : discount exp (theta as) 0 T = exp (-(T * theta as)) := by unfold discount; congr 1; ring
  rw [e]
  refine Prod.ext ?_ ?_ <;> simp only [defaultLeg, fixedLeg, zero_add]
  field_simp

/-! ## `CDS.evaluate`: the payoff of one path -/

/-- (A) the translated payoff is the model's `cdsPayoff` of a finite default time (every `r`, also `r = 0`, where both sides
    are Lean's `x / 0 = 0`: Python gives nan there — known finding C19-cds-payoff-zero-rate-nan) -/
theorem src_cds_eq_model (t T R s r dfT : Rat) (df : Rat → Rat) :
    CDS_evaluate t T R s r dfT df = cdsPayoff R s r T dfT (some t) (df t) (df (min T t)) := by
  have hmin : ∀ x y : Rat, Rpylib.Py.rmin x y = min x y := fun x y => by
    unfold Rpylib.Py.rmin
    rcases lt_or_ge y x with h | h
    · rw [if_pos h, min_eq_right (le_of_lt h)]
    · rw [if_neg (not_lt.mpr h), min_eq_left h]
  have hmax : ∀ x y : Rat, Rpylib.Py.rmax x y = max x y := fun x y => by
    unfold Rpylib.Py.rmax
    rcases lt_or_ge x y with h | h
    · rw [if_pos h, max_eq_right (le_of_lt h)]
    · rw [if_neg (not_lt.mpr h), max_eq_left h]
  rcases le_or_gt t T with h | h
  · have n : ¬ T < t := not_lt.mpr h
    simp only [CDS_evaluate, cdsPayoff, hmin, hmax, min_eq_right h, min_eq_left h, gt_iff_lt, ge_iff_le, n, h, if_true, if_false] <;>
      first | ring1 | (split_ifs <;> first | ring1 | linarith | (exfalso; linarith))
  · have n : ¬ t ≤ T := not_le.mpr h
    have n' : ¬ t < T := not_lt.mpr (le_of_lt h)
    simp only [CDS_evaluate, cdsPayoff, hmin, hmax, min_eq_left (le_of_lt h), min_eq_right (le_of_lt h), gt_iff_lt, ge_iff_le, n, n',
      h, le_of_lt h, if_true, if_false] <;>
      first | ring1 | (split_ifs <;> first | ring1 | linarith | (exfalso; linarith))

/-- (B) a default at `t ≤ T`: protection `(1−R)·df(t)` against the premium accrued until `t`, `s·(1−df(t))/r`, both carried
    to maturity (`/ df(T)`).  (The premium leg divides by `r`: for `r = 0` Python returns nan — known finding.) -/
theorem src_cds_defaulted (t T R s r dfT : Rat) (df : Rat → Rat) (ht : t ≤ T) :
    CDS_evaluate t T R s r dfT df = cdsDefaultedF R s r dfT (df t) := by
  rw [src_cds_eq_model, min_eq_right ht]
  exact cdsPayoff_defaulted R s r T dfT t (df t) (not_lt.mpr ht)

/-- (B) a default after maturity: no protection payment, the premium runs until `T`; `df_T = df(T)` is the constructor's
    invariant (`self._df_T = discounting(maturity)`) -/
theorem src_cds_survived (t T R s r dfT : Rat) (df : Rat → Rat) (ht : T < t) (hdfT : dfT = df T) :
    CDS_evaluate t T R s r dfT df = cdsSurvivedF s r dfT := by
  rw [src_cds_eq_model, min_eq_left (le_of_lt ht), ← hdfT]
  exact cdsPayoff_survived R s r T dfT (df t) (some t) (fun t' h => by cases h; exact ht)

/-- (B) the payoff does not depend on the default time once it is after maturity, and is decreasing in the spread -/
theorem src_cds_after_maturity_const (t t' T R s r dfT : Rat) (df : Rat → Rat) (ht : T < t) (ht' : T < t') :
    CDS_evaluate t T R s r dfT df = CDS_evaluate t' T R s r dfT df := by
  rw [src_cds_eq_model, src_cds_eq_model, min_eq_left (le_of_lt ht), min_eq_left (le_of_lt ht')]
  simp [cdsPayoff, ht, ht']

/-- (B) the payoff is affine in the spread: `evaluate(s) = evaluate(0) − s · (1 − df(min(T, t))) / r / df(T)` -/
theorem src_cds_affine_in_spread (t T R s r dfT : Rat) (df : Rat → Rat) :
    CDS_evaluate t T R s r dfT df = CDS_evaluate t T R 0 r dfT df - s * ((1 - df (min T t)) / r / dfT) := by
  rw [src_cds_eq_model, src_cds_eq_model]
  unfold cdsPayoff
  ring

/-- (B) bridge to the real legs (`cds_legs_are_expectations`, `expected_payoff_zero_at_par` of Proofs/C19.lean): the
    translated payoff cast to ℝ is the real formula at the cast arguments -/
theorem src_cds_defaulted_cast (t T R s r dfT : Rat) (df : Rat → Rat) (ht : t ≤ T) :
    ((CDS_evaluate t T R s r dfT df : ℚ) : ℝ) = cdsDefaultedF (R : ℝ) (s : ℝ) (r : ℝ) (dfT : ℝ) ((df t : ℚ) : ℝ) := by
  rw [src_cds_defaulted t T R s r dfT df ht]
  unfold cdsDefaultedF
  push_cast
  ring

theorem src_cds_survived_cast (t T R s r dfT : Rat) (df : Rat → Rat) (ht : T < t) (hdfT : dfT = df T) :
    ((CDS_evaluate t T R s r dfT df : ℚ) : ℝ) = cdsSurvivedF (s : ℝ) (r : ℝ) (dfT : ℝ) := by
  rw [src_cds_survived t T R s r dfT df ht hdfT]
  unfold cdsSurvivedF
  push_cast
  ring

/-! ## non-vacuity: concrete instances of every hypothesis -/

/-- `IsIntervalI`: the translated `interval_I` with −100 / 100 standing for −∞ / +∞ -/
example : IsIntervalI (fun x => interval_I x (-100) 100) (-100) := src_interval_isIntervalI (-100) 100

/-- `IsLowerMass`: the Dirac mass at −1 (`mass a b = 1` iff `a < −1 ≤ b`) with `ninf = −100` -/
def diracMass (a b : Rat) : Rat := if a < -1 ∧ -1 ≤ b then 1 else 0

theorem diracMass_isLowerMass : IsLowerMass diracMass (-100) where
  add := fun a b hab => by
    unfold diracMass
    split_ifs <;> simp_all <;> grind
  nonneg := fun a b _ => by unfold diracMass; split_ifs <;> norm_num
  nonneg_low := fun a => by unfold diracMass; split_ifs <;> norm_num

/-- … on which θ is not constant: θ(−2) = 0 < 1 = θ(−1/2) -/
example : CFLevyModel_theta (-2) diracMass (fun x => interval_I x (-100) 100) = 0 ∧
    CFLevyModel_theta (-1/2) diracMass (fun x => interval_I x (-100) 100) = 1 := by
  rw [src_theta1_with_src_interval _ _ _ (by norm_num), src_theta1_with_src_interval _ _ _ (by norm_num)]
  unfold diracMass; norm_num

/-- `Collab` for a Dirac mass on the jump space `ℕ → ℚ` at the point `x0 = (−1, −1, −1, …)` and the default half-spaces -/
noncomputable def exMu : Set (ℕ → ℚ) → ℚ := dirac (fun _ => (-1 : ℚ))

noncomputable def exMm (i : Int) (_ninf a : Rat) : Rat := exMu (halfSpace i.toNat a)
noncomputable def exPt (ix : List Int) (x : List Rat) : Rat :=
  exMu (halfSpace (ix.getD 0 0).toNat (x.getD 0 0) ∩ halfSpace (ix.getD 1 0).toNat (x.getD 1 0))
noncomputable def exTi (x : List Rat) : Rat :=
  -exMu (halfSpace 0 (x.getD 0 0) ∩ halfSpace 1 (x.getD 1 0) ∩ halfSpace 2 (x.getD 2 0))

theorem exCollab : Collab exMm (fun x => interval_I x (-100) 100) exPt exTi (-100) exMu halfSpace where
  interval := src_interval_isIntervalI (-100) 100
  low := fun i a => by simp [exMm]
  pair := fun i j a b => by simp [exPt]
  triple := fun a b c => by simp [exTi]

/-- a non-trivial instance: thresholds −1/2, −1/4 (the atom at −1 defaults both names): θ = 1 + 1 − 1 = 1 = μ(H₀ ∪ H₁) -/
example : CFLevyCopulaModel_theta [-1/2, -1/4] 2 exMm (fun x => interval_I x (-100) 100) exPt exTi 2
    = exMu (halfSpace 0 (-1/2) ∪ halfSpace 1 (-1/4)) :=
  src_thetaN_incl_excl_d2 exCollab (-1/2) (-1/4) (by norm_num) (by norm_num) (dirac_additiveOn _ _)

/-- the hypotheses of `src_thetaN_eq_model` on a concrete input -/
example : thetaCopula (paramFamily (fun i a b => (i + 2) * (b - a)) (-100) (fun _ x => x.sum) (fun x => x.sum)) 3 [-1/2, -1/4, -3/4]
    = .ok (CFLevyCopulaModel_theta [-1/2, -1/4, -3/4] 3 (fun i a b => (i + 2) * (b - a)) (fun x => interval_I x (-100) 100)
        (fun _ x => x.sum) (fun x => x.sum) 3) :=
  src_thetaN_eq_model _ _ _ _ (-100) (src_interval_isIntervalI (-100) 100) [-1/2, -1/4, -3/4] 3 3 (by norm_num) (by norm_num)
    (by norm_num) rfl (by intro a ha; simp at ha; rcases ha with rfl | rfl | rfl <;> norm_num)

/-- the laws of `exp` used above hold for a rational function (`qexp` of Proofs/C19.lean has all but additivity; the semigroup
    law is only used under that explicit hypothesis) -/
example : StrictMono qexp ∧ qexp 0 = 1 ∧ (∀ x, 0 < qexp x) := ⟨qexp_laws.1, qexp_laws.2.1, qexp_laws.2.2.1⟩

/-- the payoff on numbers: T = 1, R = 2/5, s = 1/100, r = 1/20, df(t) = 1 − t/10: a default at 1/2 pays 28/45, none −1/45
    (the values the real `CDS.evaluate` returns) -/
example : CDS_evaluate (1/2) 1 (2/5) (1/100) (1/20) (9/10) (fun t => 1 - t / 10) = 28/45 := by
  rw [src_cds_defaulted _ _ _ _ _ _ _ (by norm_num)]; unfold cdsDefaultedF; norm_num

example : CDS_evaluate (3/2) 1 (2/5) (1/100) (1/20) (9/10) (fun t => 1 - t / 10) = -1/45 := by
  rw [src_cds_survived _ _ _ _ _ _ _ (by norm_num) (by norm_num)]; unfold cdsSurvivedF; norm_num

end Rpylib.SrcTie.C19b
