/-
C10 — source-derived tie, alignment part: the translated drift conversions equal the hand-written model of Model/Triplet.lean
(`canonicalDrift`, `zeroDrift`, `centerDrift`, `tildeDrift`), so the theorems of Proofs/C10.lean and Proofs/C04.lean about `setRep`
and `walk` are theorems about the translated source.
-/
import RpylibModel.Generated.SrcC10
import RpylibModel.Model.Triplet
import Mathlib.Tactic.Ring
import Mathlib.Algebra.Order.Field.Rat

namespace Rpylib.SrcTie.C10
open Rpylib.Src.C10 Rpylib.Triplet

private def flags (r : Rpylib.Triplet.Rep) : Bool × Bool × Bool × Bool :=
  (decide (r = .center), decide (r = .oneone), decide (r = .tilde), decide (r = .zero))

theorem src_canonical_eq_model (m : Meas) (left right : Rat) (h : m.tails = left + right) (t : Trip) :
    LevyTriplet_canonical_drift t.a m.fv m.mid left right (decide (t.rep = .center)) (decide (t.rep = .oneone))
      (decide (t.rep = .tilde)) (decide (t.rep = .zero)) = canonicalDrift m t := by
  obtain ⟨a, r⟩ := t
  cases r <;> cases hf : m.fv <;> simp [LevyTriplet_canonical_drift, canonicalDrift, h, hf]

theorem src_zero_eq_model (m : Meas) (left right : Rat) (h : m.tails = left + right) (t : Trip) :
    LevyTriplet_zero_drift t.a m.fv m.mid left right (decide (t.rep = .center)) (decide (t.rep = .oneone))
      (decide (t.rep = .tilde)) (decide (t.rep = .zero)) = zeroDrift m t := by
  unfold LevyTriplet_zero_drift zeroDrift
  simp only [src_canonical_eq_model m left right h t]

theorem src_center_eq_model (m : Meas) (left right : Rat) (h : m.tails = left + right) (t : Trip) :
    LevyTriplet_center_drift t.a m.fv m.mid left right (decide (t.rep = .center)) (decide (t.rep = .oneone))
      (decide (t.rep = .tilde)) (decide (t.rep = .zero)) = centerDrift m t := by
  unfold LevyTriplet_center_drift centerDrift
  simp only [src_canonical_eq_model m left right h t, h]

theorem src_tilde_eq_model (m : Meas) (left right : Rat) (h : m.tails = left + right) (t : Trip) :
    LevyTriplet_tilde_drift t.a m.fv m.mid left right (decide (t.rep = .center)) (decide (t.rep = .oneone))
      (decide (t.rep = .tilde)) (decide (t.rep = .zero)) = tildeDrift m t := by
  unfold LevyTriplet_tilde_drift tildeDrift
  simp only [src_canonical_eq_model m left right h t]
  cases m.fv <;> simp

end Rpylib.SrcTie.C10
