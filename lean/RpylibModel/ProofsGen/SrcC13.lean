/-
C13 — source-derived tie for the grid code (DESIGN.md §9).  `RpylibModel/Generated/SrcC13.lean` is rewritten on every run from
the text of rpylib/grid/spatial.py (`CTMCGrid.refine`, `middle`, `left_point`, `right_point`,
`CTMCUniformGrid.__init__` / `create_from_fixed_nb_of_points`, the two axis assemblies of `CTMCCredit.__init__`) and rpylib/grid/grid.py (`Coordinate1D/ND.__imul__`) in /repo's current
working tree.  `refine` is translated whole: its attribute stores (`self.axes[k] = ..`, `self.h /= 2`,
`self.origin_coordinate *= 2`) are the components of the value of the definition; `self.middle` is a function parameter
(overridden by the probability-step grid), quantified in the theorems and instantiated with the translated `CTMCGrid.middle`.

Obligations on the translated source, for all axes (any number, any lengths), all h, all origin indices, all `mid`:
 * `src_refine_axes`            the two nested loops compute, on every axis, the model's `refine mid` (fold invariants in
                                Lemmas/SrcC13Lists.lean: whatever the loop items are, only the list of (position, value)
                                insertions matters);
 * `src_refine_axis_spec`       2n−1 points, old state i at index 2i, `mid x_i x_{i+1}` at index 2i+1, truncation bounds
                                unchanged, strictly increasing when the old axis is and `mid` lies strictly between;
   `src_refine_strictly_inside` exactly one new state strictly inside each old gap;
 * `src_refine_h`, `src_refine_origin`, `src_refine_dim`, `src_refine_origin_is_imul`, `src_coordinate_imul`
 * `src_refine_inserts_cell_boundary`   the inserted state is `middle(x_i, right_point(i)) = middle(left_point(i+1), x_{i+1})`,
                                the boundary the rates use (`src_left_point_spec`, `src_right_point_spec`, `src_points_nd_spec`);
 * `src_refine_wellFormed`, `src_refine_wellFormed_own_middle`, `src_refine_shared_storage`;
 * `src_refineN_spec`           any number of refinements (the translated `refine` iterated): old states at 2^k·i, h/2^k,
                                origin 2^k·o, bounds unchanged, 2^k(n−1)+1 points, strictly increasing, well formed;
 * `src_middle_float_between`, `src_middle_float_atOrigin`, `src_middle_tuple_spec`;
 * `src_fixed_eq_model`, `src_fixed_wellFormed`, `src_fixed_then_refine_wellFormed`  the fixed-size uniform constructor;
 * `src_uniform_eq_model`, `src_uniform_wellFormed`   `CTMCUniformGrid.__init__` once the root search has returned (l, r): for
                                at least two points on each side (the one-point sides are the known finding
                                C13-uniform-one-point-side) the grid is well formed and ends at l and r;
 * `src_credit_axis_1d_wellFormed`, `src_credit_axis_nd_wellFormed`, `src_credit_axis_nd_sym_wellFormed`   the credit axes:
                                strictly increasing for l < a < -h < 0 < h < r (and the mirrored block below r), 0 at index
                                4 with neighbours ∓h, the threshold a is exactly the cell boundary of the 2nd / 3rd state.
Alignment with the hand-written model beyond what the property demands: ProofsGen/SrcC13Model.lean.
-/
import RpylibModel.Generated.SrcC13
import RpylibModel.Lemmas.SrcC13Lists
import RpylibModel.Proofs.C13
import Mathlib.Tactic.Linarith
import Mathlib.Tactic.Ring
import Mathlib.Algebra.Order.Field.Rat

set_option linter.unusedTactic false
set_option linter.unreachableTactic false
set_option linter.unusedSimpArgs false

namespace Rpylib.SrcTie.C13
open Rpylib.Src.C13 Rpylib.Py Rpylib.Grid

/-! ### the cell boundary `CTMCGrid.middle` -/

theorem src_middle_float_between : Between CTMCGrid_middle_float := by
  intro a b hab
  unfold CTMCGrid_middle_float
  constructor <;> linarith

theorem src_middle_float_atOrigin : MidAtOrigin CTMCGrid_middle_float := by
  intro h
  unfold CTMCGrid_middle_float
  constructor <;> ring1

theorem src_middle_tuple_spec (xs ys : List Rat) :
    (CTMCGrid_middle_tuple xs ys).length = min xs.length ys.length ∧
    ∀ (i : Nat) (a b : Rat), xs[i]? = some a → ys[i]? = some b →
      (CTMCGrid_middle_tuple xs ys)[i]? = some (CTMCGrid_middle_float a b) := by
  refine ⟨by simp [CTMCGrid_middle_tuple], ?_⟩
  intro i a b ha hb
  simp only [CTMCGrid_middle_tuple, CTMCGrid_middle_float, List.getElem?_map, (List.getElem?_zip_eq_some (z := (a, b))).mpr ⟨ha, hb⟩,
    Option.map_some, Option.some.injEq] <;> first | rfl | ring1

/-! ### one refinement -/

theorem src_refine_axes (axes : List (List Rat)) (h : Rat) (o : Int) (mid : Rat → Rat → Rat) :
    (CTMCGrid_refine axes h o mid).1 = axes.map (Rpylib.Grid.refine mid) := by
  simp only [CTMCGrid_refine]
  refine (foldl_setAt_enumerate _ axes).trans ?_
  refine Eq.trans ?_ (map_enumerate_snd axes (Rpylib.Grid.refine mid))
  apply List.map_congr_left
  intro x _
  refine foldl_insertAt_eq_refine mid x.2 _ _ _ ?_
  apply List.ext_getElem
  · simp [enumerate_length, insertions_length, sliceFrom_one, pyRange_length, sliceTo_neg_one]
    all_goals omega
  · intro i h1 h2
    have hlen := insertions_length mid 0 x.2
    have hi : i + 1 < x.2.length := by omega
    have hi0 : i < x.2.length := by omega
    simp only [List.getElem_map, enumerate_getElem, List.getElem_zip, insertions_getElem, sliceFrom_one, List.getElem_drop,
      pyRange_getElem, sliceTo_neg_one, List.getElem_take]
    refine Prod.ext ?_ ?_
    · simp only []; first | omega | (push_cast; ring1)
    · simp [List.getD_eq_getElem?_getD, hi, hi0, Nat.add_comm, idx_natCast, idx_natCast_succ, idx_zero_add_natCast, default_rat]

theorem src_refine_h (axes : List (List Rat)) (h : Rat) (o : Int) (mid : Rat → Rat → Rat) :
    (CTMCGrid_refine axes h o mid).2.1 = h / 2 := by
  unfold CTMCGrid_refine
  first | rfl | (dsimp only; ring1)

theorem src_refine_origin (axes : List (List Rat)) (h : Rat) (o : Int) (mid : Rat → Rat → Rat) :
    (CTMCGrid_refine axes h o mid).2.2 = 2 * o := by
  unfold CTMCGrid_refine
  first | rfl | (dsimp only; first | omega | ring1)

theorem src_refine_dim (axes : List (List Rat)) (h : Rat) (o : Int) (mid : Rat → Rat → Rat) :
    (CTMCGrid_refine axes h o mid).1.length = axes.length := by
  rw [src_refine_axes]; simp

/-- what one refinement does to every axis -/
theorem src_refine_axis_spec (axes : List (List Rat)) (h : Rat) (o : Int) (mid : Rat → Rat → Rat) (k : Nat) (ax : List Rat)
    (hax : axes[k]? = some ax) :
    ∃ ax', (CTMCGrid_refine axes h o mid).1[k]? = some ax' ∧
      ax'.length = 2 * ax.length - 1 ∧
      (∀ i : Nat, ax'[2 * i]? = ax[i]?) ∧
      (∀ (i : Nat) (a b : Rat), ax[i]? = some a → ax[i + 1]? = some b → ax'[2 * i + 1]? = some (mid a b)) ∧
      truncation ax' = truncation ax ∧
      (Between mid → StrictInc ax → StrictInc ax') := by
  refine ⟨Rpylib.Grid.refine mid ax, ?_, refine_length mid ax, refine_even_old mid ax, refine_odd_is_mid mid ax,
    refine_truncation mid ax, fun hm hs => refine_strictInc mid hm ax hs⟩
  rw [src_refine_axes, List.getElem?_map, hax]; rfl

/-- exactly one new state strictly inside each old gap -/
theorem src_refine_strictly_inside (axes : List (List Rat)) (h : Rat) (o : Int) (mid : Rat → Rat → Rat) (hm : Between mid)
    (k : Nat) (ax : List Rat) (hax : axes[k]? = some ax) (i : Nat) (a b : Rat) (ha : ax[i]? = some a)
    (hb : ax[i + 1]? = some b) (hab : a < b) :
    ∃ ax' m, (CTMCGrid_refine axes h o mid).1[k]? = some ax' ∧ ax'[2 * i]? = some a ∧ ax'[2 * i + 1]? = some m ∧
      ax'[2 * i + 2]? = some b ∧ a < m ∧ m < b := by
  obtain ⟨ax', h1, _, h3, h4, _, _⟩ := src_refine_axis_spec axes h o mid k ax hax
  exact ⟨ax', mid a b, h1, by rw [h3, ha], h4 i a b ha hb, by rw [show 2 * i + 2 = 2 * (i + 1) by ring, h3, hb],
    (hm a b hab).1, (hm a b hab).2⟩

/-- the refined grid as a model record (origin indices are natural numbers) -/
def asGrid (s : List (List Rat) × Rat × Int) : Grid := ⟨s.1, s.2.1, s.2.2.toNat⟩

theorem src_refine_asGrid (g : Grid) (mid : Rat → Rat → Rat) :
    asGrid (CTMCGrid_refine g.axes g.h (g.origin : Int) mid) = g.refine mid := by
  simp only [asGrid, Grid.refine, src_refine_axes, src_refine_h, src_refine_origin]
  congr 1
  omega

/-- refinement keeps a well-formed grid well formed (0 at the doubled origin index, neighbours ∓h/2, strictly increasing) -/
theorem src_refine_wellFormed (g : Grid) (mid : Rat → Rat → Rat) (hm : Between mid) (ho : MidAtOrigin mid)
    (hg : WellFormed g) : WellFormed (asGrid (CTMCGrid_refine g.axes g.h (g.origin : Int) mid)) := by
  rw [src_refine_asGrid]; exact Rpylib.Grid.Grid.refine_wellFormed mid hm ho g hg

/-- the same with the grid's own `middle` as translated from the source: no hypothesis left -/
theorem src_refine_wellFormed_own_middle (g : Grid) (hg : WellFormed g) :
    WellFormed (asGrid (CTMCGrid_refine g.axes g.h (g.origin : Int) CTMCGrid_middle_float)) :=
  src_refine_wellFormed g _ src_middle_float_between src_middle_float_atOrigin hg

/-- shared-axis storage `[axis] * d` refines to d equal refined axes -/
theorem src_refine_shared_storage (ax : List Rat) (d : Nat) (h : Rat) (o : Int) (mid : Rat → Rat → Rat) :
    (CTMCGrid_refine (List.replicate d ax) h o mid).1 = List.replicate d (Rpylib.Grid.refine mid ax) := by
  rw [src_refine_axes]; simp

/-! ### any number of refinements -/

/-- `refine()` called k times on the translated source -/
def srcRefineN (mid : Rat → Rat → Rat) : Nat → List (List Rat) × Rat × Int → List (List Rat) × Rat × Int
  | 0, s => s
  | k + 1, s => srcRefineN mid k (CTMCGrid_refine s.1 s.2.1 s.2.2 mid)

theorem src_refineN_asGrid (mid : Rat → Rat → Rat) (k : Nat) (g : Grid) :
    asGrid (srcRefineN mid k (g.axes, g.h, (g.origin : Int))) = Rpylib.Grid.Grid.refineN mid k g := by
  induction k generalizing g with
  | zero => simp [srcRefineN, asGrid, Rpylib.Grid.Grid.refineN]
  | succ k ih =>
    have h1 := src_refine_asGrid g mid
    have h2 : CTMCGrid_refine g.axes g.h (g.origin : Int) mid
        = ((g.refine mid).axes, (g.refine mid).h, (((g.refine mid).origin : Nat) : Int)) := by
      refine Prod.ext ?_ (Prod.ext ?_ ?_)
      · simp [src_refine_axes, Rpylib.Grid.Grid.refine]
      · simp [src_refine_h, Rpylib.Grid.Grid.refine]
      · simp only [src_refine_origin, Rpylib.Grid.Grid.refine]; push_cast; ring
    simp only [srcRefineN, Rpylib.Grid.Grid.refineN]
    rw [h2]; exact ih (g.refine mid)

/-- k refinements: every old state at `2^k` times its old index, h / 2^k, origin index `2^k · o`, truncation bounds
    unchanged, `2^k (n-1) + 1` points, strictly increasing, well formed -/
theorem src_refineN_spec (mid : Rat → Rat → Rat) (hm : Between mid) (ho : MidAtOrigin mid) (k : Nat) (g : Grid)
    (hg : WellFormed g) :
    let r := asGrid (srcRefineN mid k (g.axes, g.h, (g.origin : Int)))
    WellFormed r ∧ r.h = g.h / 2 ^ k ∧ r.origin = 2 ^ k * g.origin ∧ r.axes.length = g.axes.length ∧
    ∀ (j : Nat) (ax : List Rat), g.axes[j]? = some ax → ∃ ax', r.axes[j]? = some ax' ∧
      (∀ i : Nat, ax'[2 ^ k * i]? = ax[i]?) ∧ truncation ax' = truncation ax ∧
      (ax ≠ [] → ax'.length = 2 ^ k * (ax.length - 1) + 1) ∧ StrictInc ax' := by
  intro r
  have hr : r = Rpylib.Grid.Grid.refineN mid k g := src_refineN_asGrid mid k g
  rw [hr]
  refine ⟨Rpylib.Grid.Grid.refineN_wellFormed mid hm ho k g hg, Rpylib.Grid.Grid.refineN_h mid k g, Rpylib.Grid.Grid.refineN_origin mid k g,
    by rw [Rpylib.Grid.Grid.refineN_axes]; simp, ?_⟩
  intro j ax hax
  refine ⟨Rpylib.Grid.refineN mid k ax, by rw [Rpylib.Grid.Grid.refineN_axes, List.getElem?_map, hax]; rfl,
    refineN_old mid k ax, refineN_truncation mid k ax, fun hne => refineN_length mid k ax hne, ?_⟩
  exact refineN_strictInc mid hm k ax (hg.2.2 ax (List.mem_of_getElem? hax)).1

/-! ### the neighbours `left_point` / `right_point` and the cell boundary refinement inserts -/

/-- inside the axis, `left_point(c)` is the state at `c - 1` (the state itself at the first index) -/
theorem src_left_point_spec (ax : List Rat) (rest : List (List Rat)) (c : Nat) :
    CTMCGrid_left_point (c : Int) (ax :: rest) = ax.getD (c - 1) 0 ∧
    CTMCGrid_left_point_1d (ax :: rest) (c : Int) = ax.getD (c - 1) 0 := by
  constructor
  · unfold CTMCGrid_left_point
    rw [idx_zero, List.getD_cons_zero]
    refine idx_eq_getD _ _ _ ?_
    unfold imax; split_ifs <;> omega
  · unfold CTMCGrid_left_point_1d
    rw [idx_zero, List.getD_cons_zero]
    refine idx_eq_getD _ _ _ ?_
    unfold imax; split_ifs <;> omega

/-- inside the axis, `right_point(c)` is the state at `c + 1` (the state itself at the last index) -/
theorem src_right_point_spec (ax : List Rat) (rest : List (List Rat)) (c : Nat) (hc : c < ax.length) :
    CTMCGrid_right_point (c : Int) (ax :: rest) = ax.getD (min (ax.length - 1) (c + 1)) 0 ∧
    CTMCGrid_right_point_1d (ax :: rest) (c : Int) = ax.getD (min (ax.length - 1) (c + 1)) 0 := by
  constructor
  · unfold CTMCGrid_right_point
    simp only [idx_zero, List.getD_cons_zero]
    refine idx_eq_getD _ _ _ ?_
    unfold imin; split_ifs <;> omega
  · unfold CTMCGrid_right_point_1d
    simp only [idx_zero, List.getD_cons_zero]
    refine idx_eq_getD _ _ _ ?_
    unfold imin; split_ifs <;> omega

/-- n-d coordinates: component k is the 1-d neighbour on axis k -/
theorem src_points_nd_spec (axes : List (List Rat)) (cs : List Int) (k : Nat) (c : Int) (ax : List Rat)
    (hc : cs[k]? = some c) (hax : axes[k]? = some ax) :
    (CTMCGrid_left_point_nd cs axes)[k]? = some (CTMCGrid_left_point c [ax]) ∧
    (CTMCGrid_right_point_nd cs axes)[k]? = some (CTMCGrid_right_point c [ax]) := by
  have hidx : idx axes (k : Int) = ax := idx_of_getElem? axes _ k ax rfl hax
  constructor
  · simp only [CTMCGrid_left_point_nd, CTMCGrid_left_point, List.getElem?_map, enumerate_getElem?, hc, Option.map_some,
      hidx, idx_zero, List.getD_cons_zero] <;>
    first | rfl | (congr 2; simp only [imax, imin]; split_ifs <;> omega) | (congr 2; omega)
  · simp only [CTMCGrid_right_point_nd, CTMCGrid_right_point, List.getElem?_map, enumerate_getElem?, hc, Option.map_some,
      hidx, idx_zero, List.getD_cons_zero] <;>
    first | rfl | (congr 2; simp only [imax, imin]; split_ifs <;> omega) | (congr 2; omega)

/-- the state refinement inserts into the gap (x_i, x_{i+1}) is the boundary between the cells of x_i and x_{i+1}, computed
    the way the rates compute it: `middle(x_i, right_point(i))` = `middle(left_point(i+1), x_{i+1})` -/
theorem src_refine_inserts_cell_boundary (ax : List Rat) (h : Rat) (o : Int) (mid : Rat → Rat → Rat) (i : Nat) (a b : Rat)
    (ha : ax[i]? = some a) (hb : ax[i + 1]? = some b) :
    ∃ ax', (CTMCGrid_refine [ax] h o mid).1[0]? = some ax' ∧
      ax'[2 * i + 1]? = some (mid a (CTMCGrid_right_point (i : Int) [ax])) ∧
      ax'[2 * i + 1]? = some (mid (CTMCGrid_left_point ((i + 1 : Nat) : Int) [ax]) b) := by
  obtain ⟨ax', h1, _, _, h4, _, _⟩ := src_refine_axis_spec [ax] h o mid 0 ax rfl
  have hi : i + 1 < ax.length := by
    by_contra hc; rw [List.getElem?_eq_none (by omega)] at hb; cases hb
  have hr : CTMCGrid_right_point (i : Int) [ax] = b := by
    rw [(src_right_point_spec ax [] i (by omega)).1, Nat.min_eq_right (by omega), List.getD_eq_getElem?_getD, hb]; rfl
  have hl : CTMCGrid_left_point ((i + 1 : Nat) : Int) [ax] = a := by
    rw [(src_left_point_spec ax [] (i + 1)).1, Nat.add_sub_cancel, List.getD_eq_getElem?_getD, ha]; rfl
  exact ⟨ax', h1, by rw [hr]; exact h4 i a b ha hb, by rw [hl]; exact h4 i a b ha hb⟩

/-! ### the origin coordinate object: in-place multiplication -/

theorem src_coordinate_imul (v m : Int) (vs : List Int) :
    Coordinate1D_imul m v = m * v ∧ CoordinateND_imul m vs = vs.map (fun x => m * x) ∧
    (CoordinateND_imul m vs).length = vs.length := by
  refine ⟨?_, ?_, ?_⟩
  · unfold Coordinate1D_imul; first | rfl | (dsimp only; ring1)
  · unfold CoordinateND_imul
    first | rfl | (dsimp only; apply List.map_congr_left; intro x _; first | rfl | ring1)
  · unfold CoordinateND_imul; simp

/-- what `refine` does to the origin index is `origin_coordinate *= 2` of the coordinate object -/
theorem src_refine_origin_is_imul (axes : List (List Rat)) (h : Rat) (o : Int) (mid : Rat → Rat → Rat) :
    (CTMCGrid_refine axes h o mid).2.2 = Coordinate1D_imul 2 o := by
  rw [src_refine_origin, (src_coordinate_imul o 2 []).1]

/-! ### `CTMCUniformGrid.create_from_fixed_nb_of_points` -/

theorem src_fixed_eq_model (h : Rat) (nb dim : Nat) :
    CTMCUniformGrid_fixed h (nb : Int) (dim : Int) = (h, ((nb / 2 : Nat) : Int), List.replicate dim (uniformFixedAxis h nb)) := by
  have hm : Int.fdiv (nb : Int) 2 = ((nb / 2 : Nat) : Int) := by
    rw [Int.fdiv_eq_ediv_of_nonneg _ (by omega)]; omega
  unfold CTMCUniformGrid_fixed
  dsimp only
  -- the right half axis, whatever the comprehension looks like: k·h for k = 1 .. nb // 2
  generalize hR : List.map _ (Rpylib.Py.range _ _) = R
  have hRm : R = (List.range (nb / 2)).map (fun i => ((i + 1 : Nat) : Rat) * h) := by
    rw [← hR]
    apply List.ext_getElem
    · simp only [List.length_map, pyRange_length, List.length_range, hm]; omega
    · intro i h1 h2
      simp only [List.getElem_map, pyRange_getElem, List.getElem_range]
      push_cast; ring1
  rw [hRm]
  refine Prod.ext rfl (Prod.ext ?_ ?_)
  · simp
  · simp only [uniformFixedAxis, Int.toNat_natCast]
    congr 1
    rw [mirror_range_eq]
    congr 2
    all_goals first
      | rfl
      | (apply List.map_congr_left; intro i hi
         have hi' : i < nb / 2 := List.mem_range.mp hi
         have e : ((nb / 2 - 1 - i + 1 : Nat) : Rat) = ((nb / 2 - i : Nat) : Rat) := by congr 1; omega
         have e' : ((nb / 2 - i : Nat) : Rat) = ((nb / 2 - 1 - i : Nat) : Rat) + 1 := by rw [← e]; push_cast; ring1
         first | (rw [e]; done) | (rw [e]; ring1) | (rw [e']; ring1) | (push_cast; rw [e']; ring1) | (simp only [e']; ring1))
      | (apply List.map_congr_left; intro i _; push_cast; ring1)

/-- for every h > 0, nb_of_points ≥ 2 and dimension the constructed grid is well formed: `dimension` axes, each strictly
    increasing, 0 at the origin index with neighbours ∓h; h is the argument -/
theorem src_fixed_wellFormed (h : Rat) (hh : 0 < h) (nb dim : Nat) (hnb : 2 ≤ nb) :
    let r := CTMCUniformGrid_fixed h (nb : Int) (dim : Int)
    r.1 = h ∧ 0 ≤ r.2.1 ∧ r.2.2.length = dim ∧ WellFormed ⟨r.2.2, r.1, r.2.1.toNat⟩ := by
  intro r
  have hr : r = (h, ((nb / 2 : Nat) : Int), List.replicate dim (uniformFixedAxis h nb)) := src_fixed_eq_model h nb dim
  rw [hr]
  refine ⟨rfl, Int.natCast_nonneg _, by simp, ?_⟩
  have := (uniformFixed_wellFormed h hh nb dim hnb).1
  show WellFormed ⟨_, h, ((nb / 2 : Nat) : Int).toNat⟩
  rw [Int.toNat_natCast]; exact this

/-- construction followed by any number of refinements with the grid's own `middle`: everything from the translated source -/
theorem src_fixed_then_refine_wellFormed (h : Rat) (hh : 0 < h) (nb dim : Nat) (hnb : 2 ≤ nb) (k : Nat) :
    let r := CTMCUniformGrid_fixed h (nb : Int) (dim : Int)
    let s := asGrid (srcRefineN CTMCGrid_middle_float k (r.2.2, r.1, r.2.1))
    WellFormed s ∧ s.h = h / 2 ^ k ∧ s.origin = 2 ^ k * (nb / 2) ∧ s.axes.length = dim := by
  intro r s
  have hr : r = (h, ((nb / 2 : Nat) : Int), List.replicate dim (uniformFixedAxis h nb)) := src_fixed_eq_model h nb dim
  have hg := (uniformFixed_wellFormed h hh nb dim hnb).1
  have := src_refineN_spec CTMCGrid_middle_float src_middle_float_between src_middle_float_atOrigin k
    (uniformFixed h nb dim) hg
  have hs : s = asGrid (srcRefineN CTMCGrid_middle_float k
      ((uniformFixed h nb dim).axes, (uniformFixed h nb dim).h, ((uniformFixed h nb dim).origin : Int))) := by
    simp only [s, hr, uniformFixed]
  rw [hs]
  obtain ⟨h1, h2, h3, h4, _⟩ := this
  exact ⟨h1, by simpa [uniformFixed] using h2, by simpa [uniformFixed] using h3, by simpa [uniformFixed] using h4⟩

/-! ### `CTMCUniformGrid.__init__` after the root search (the bounds `(l, r)` are the parameter `lr`, `model.dimension_model()` is `dim`) -/

/-- the root-searched uniform constructor once `compute_truncation` has returned `(l, r)` -/
theorem src_uniform_eq_model (l r h tp : Rat) (dim : Nat)
    (hsum : uniformCountL l h + uniformCountR r h ≤ 100000000) :
    CTMCUniformGrid_init h tp (l, r) (dim : Int) =
      (h, (((uniformCountL l h).toNat : Nat) : Int),
        List.replicate dim (uniformAxisN l r h (uniformCountL l h).toNat (uniformCountR r h).toNat)) := by
  have hs : ¬ ((((uniformCountL l h + uniformCountR r h : Int)) : Rat) > 100000000) := by
    have : (((uniformCountL l h + uniformCountR r h : Int)) : Rat) ≤ ((100000000 : Int) : Rat) := by exact_mod_cast hsum
    push_cast at this ⊢; linarith
  unfold CTMCUniformGrid_init
  simp only [truncInt_eq_pyInt, pyRabs_eq, pyLinspace_eq]
  split_ifs with hg
  · exfalso
    have hsumR : ((uniformCountL l h : Int) : Rat) + ((uniformCountR r h : Int) : Rat) ≤ 100000000 := by exact_mod_cast hsum
    unfold uniformCountL uniformCountR at hsum hsumR
    first | exact absurd hg hs | omega | (push_cast at hg; linarith)
  · simp only [uniformAxisN, uniformCountL, uniformCountR, linspace_length, Int.toNat_natCast]

/-- **regular case of `CTMCUniformGrid.__init__`, on the translated source**: for every pair of bounds `(l, r)` the root
    search may return with `l < 0`, every h and every dimension such that both sides get at least two points and the
    constructor does not raise (at most 1e8 points): `dim` axes, each strictly increasing, 0 at the origin index
    `int(|l|/h)` with neighbours ∓h, first point `l`, last point `r` (the truncation bounds the grid reports). -/
theorem src_uniform_wellFormed (l r h tp : Rat) (dim : Nat) (hl : l < 0)
    (hL : 2 ≤ Rpylib.Py.truncInt (Rpylib.Py.rabs l / h)) (hR : 2 ≤ Rpylib.Py.truncInt (r / h))
    (hsum : Rpylib.Py.truncInt (Rpylib.Py.rabs l / h) + Rpylib.Py.truncInt (r / h) ≤ 100000000) :
    let s := CTMCUniformGrid_init h tp (l, r) (dim : Int)
    WellFormed ⟨s.2.2, s.1, s.2.1.toNat⟩ ∧ s.1 = h ∧ s.2.1 = Rpylib.Py.truncInt (Rpylib.Py.rabs l / h) ∧ s.2.2.length = dim ∧
    ∀ ax ∈ s.2.2, truncation ax = some (l, r) := by
  intro s
  rw [truncInt_eq_pyInt, pyRabs_eq] at hL
  rw [truncInt_eq_pyInt] at hR
  rw [truncInt_eq_pyInt, truncInt_eq_pyInt, pyRabs_eq] at hsum
  have hL' : 2 ≤ uniformCountL l h := hL
  have hR' : 2 ≤ uniformCountR r h := hR
  have hsum' : uniformCountL l h + uniformCountR r h ≤ 100000000 := hsum
  have hs : s = (h, (((uniformCountL l h).toNat : Nat) : Int),
      List.replicate dim (uniformAxisN l r h (uniformCountL l h).toNat (uniformCountR r h).toNat)) :=
    src_uniform_eq_model l r h tp dim hsum'
  have hh : 0 < h := (uniformCountL_ge_two l h hl hL').1
  have hctor : uniformCtor l r h dim = some ⟨List.replicate dim (uniformAxisN l r h (uniformCountL l h).toNat
      (uniformCountR r h).toNat), h, (uniformCountL l h).toNat⟩ := by
    unfold uniformCtor
    rw [if_neg (ne_of_gt hh), if_neg (by omega), if_neg (by omega)]
  obtain ⟨hw, _, _, hlen, htr⟩ := uniformCtor_wellFormed_partial l r h dim _ hctor hl hL' hR'
  rw [hs]
  refine ⟨?_, rfl, ?_, by simp, ?_⟩
  · show WellFormed ⟨_, h, (((uniformCountL l h).toNat : Nat) : Int).toNat⟩
    rw [Int.toNat_natCast]; exact hw
  · rw [truncInt_eq_pyInt, pyRabs_eq]
    show (((uniformCountL l h).toNat : Nat) : Int) = uniformCountL l h
    omega
  · intro ax hax; exact (htr ax hax).1

/-- non-vacuity: l = -3, r = 5/2, h = 1/2 (6 and 5 points) -/
example : CTMCUniformGrid_init (1/2) (99/100) (-3, 5/2) 2 =
    (1/2, 6, [[-3, -5/2, -2, -3/2, -1, -1/2, 0, 1/2, 1, 3/2, 2, 5/2], [-3, -5/2, -2, -3/2, -1, -1/2, 0, 1/2, 1, 3/2, 2, 5/2]]) := by
  decide +kernel
example : (2 : Int) ≤ Rpylib.Py.truncInt (Rpylib.Py.rabs (-3) / (1/2)) ∧ (2 : Int) ≤ Rpylib.Py.truncInt ((5/2 : Rat) / (1/2)) := by
  decide +kernel


/-! ### the credit axes (`CTMCCredit.__init__`, the two places where an axis is assembled) -/

/-- what C13 asks of a credit axis: strictly increasing, 0 at index 4 with neighbours ∓h, first / last point the truncation
    bounds, and the threshold `a` is exactly the boundary (the grid's own `middle`) between the 2nd and the 3rd state -/
def CreditAxisOK (ax : List Rat) (l a h r : Rat) : Prop :=
  StrictInc ax ∧ ax[4]? = some 0 ∧ ax[3]? = some (-h) ∧ ax[5]? = some h ∧ truncation ax = some (l, r) ∧
  ∃ p q, ax[1]? = some p ∧ ax[2]? = some q ∧ p < a ∧ a < q ∧ CTMCGrid_middle_float p q = a

theorem src_credit_axis_1d_wellFormed (l a h r : Rat) (hla : l < a) (hah : a < -h) (hh : 0 < h) (hr : h < r) :
    CreditAxisOK (CTMCCredit_axis_1d l a h r) l a h r ∧ (CTMCCredit_axis_1d l a h r).length = 7 := by
  unfold CTMCCredit_axis_1d CreditAxisOK
  simp only [Rpylib.Py.rmin, Rpylib.Py.rabs]
  split_ifs <;> first
    | (exfalso; linarith)
    | (refine ⟨⟨?_, by simp, by simp, by simp, by simp [truncation], _, _, rfl, rfl, ?_, ?_, ?_⟩, by simp⟩
       · simp only [StrictInc, and_true]; refine ⟨?_, ?_, ?_, ?_, ?_, ?_⟩ <;> linarith
       · linarith
       · linarith
       · unfold CTMCGrid_middle_float; ring1)

theorem src_credit_axis_nd_wellFormed (l a h r : Rat) (hla : l < a) (hah : a < -h) (hh : 0 < h) (hr : h < r) :
    CreditAxisOK (CTMCCredit_axis_nd l a h r false) l a h r ∧ (CTMCCredit_axis_nd l a h r false).length = 7 := by
  unfold CTMCCredit_axis_nd CreditAxisOK
  simp only [Rpylib.Py.rmin, Rpylib.Py.rabs, Bool.false_eq_true, if_false]
  split_ifs <;> first
    | (exfalso; linarith)
    | (refine ⟨⟨?_, by simp, by simp, by simp, by simp [truncation], _, _, rfl, rfl, ?_, ?_, ?_⟩, by simp⟩
       · simp only [StrictInc, and_true]; refine ⟨?_, ?_, ?_, ?_, ?_, ?_⟩ <;> linarith
       · linarith
       · linarith
       · unfold CTMCGrid_middle_float; ring1)

/-- the symmetric 9-point axis: additionally the mirrored block must fit below `r` (hypothesis `hfit`, on the translated axis
    itself); then `-a` is the boundary between the 7th and the 8th state -/
theorem src_credit_axis_nd_sym_wellFormed (l a h r : Rat) (hla : l < a) (hah : a < -h) (hh : 0 < h)
    (hfit : ∀ q, (CTMCCredit_axis_nd l a h r true)[7]? = some q → q < r) :
    CreditAxisOK (CTMCCredit_axis_nd l a h r true) l a h r ∧ (CTMCCredit_axis_nd l a h r true).length = 9 ∧
    ∃ p q, (CTMCCredit_axis_nd l a h r true)[6]? = some p ∧ (CTMCCredit_axis_nd l a h r true)[7]? = some q ∧
      CTMCGrid_middle_float p q = -a := by
  have hfit' := hfit
  revert hfit'
  unfold CTMCCredit_axis_nd CreditAxisOK
  simp only [Rpylib.Py.rmin, Rpylib.Py.rabs, if_true]
  split_ifs <;> intro hfit' <;> first
    | (exfalso; linarith)
    | (have hq := hfit' _ rfl
       refine ⟨⟨?_, by simp, by simp, by simp, by simp [truncation], _, _, rfl, rfl, ?_, ?_, ?_⟩, by simp, _, _, rfl, rfl, ?_⟩
       · simp only [StrictInc, and_true]; refine ⟨?_, ?_, ?_, ?_, ?_, ?_, ?_, ?_⟩ <;> linarith
       · linarith
       · linarith
       · unfold CTMCGrid_middle_float; ring1
       · unfold CTMCGrid_middle_float; ring1)

example : CTMCCredit_axis_nd (-4) (-2) 1 3 true = [-4, -5/2, -3/2, -1, 0, 1, 3/2, 5/2, 3] := by decide +kernel
example : ∀ q, (CTMCCredit_axis_nd (-4) (-2) 1 3 true)[7]? = some q → q < 3 := by
  intro q hq
  have : (CTMCCredit_axis_nd (-4) (-2) 1 3 true)[7]? = some (5/2) := by decide +kernel
  rw [this] at hq; cases hq; norm_num
example : CTMCCredit_axis_1d (-4) (-2) 1 3 = [-4, -5/2, -3/2, -1, 0, 1, 3] := by decide +kernel

/-! ### non-vacuity of the hypotheses -/

example : WellFormed ⟨[[-3, -1, 0, 1, 4]], 1, 2⟩ := by
  refine ⟨by norm_num, by norm_num, ?_⟩
  intro ax hax; simp at hax; subst hax
  refine ⟨by simp [StrictInc], by simp, by simp, by simp⟩

example : (CTMCGrid_refine [[-3, -1, 0, 1, 4], [0, 1]] 1 2 CTMCGrid_middle_float)
    = ([[-3, -2, -1, -1/2, 0, 1/2, 1, 5/2, 4], [0, 1/2, 1]], 1/2, 4) := by decide +kernel

example : CTMCUniformGrid_fixed (1/2) 5 2 = (1/2, 2, [[-1, -1/2, 0, 1/2, 1], [-1, -1/2, 0, 1/2, 1]]) := by decide +kernel

example : ∃ mid, Between mid ∧ MidAtOrigin mid := ⟨_, src_middle_float_between, src_middle_float_atOrigin⟩

end Rpylib.SrcTie.C13
