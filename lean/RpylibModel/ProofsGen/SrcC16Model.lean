/-
C16 — source-derived tie, alignment part.  The definitions translated from `LevyLiborModel.df`, `LevyForwardModel.df` and
`LevyDrivenSDEModel.df` in /repo's current working tree (RpylibModel/Generated/SrcC16.lean, rewritten on every run) are EQUAL to
the hand-written model of Model/Sde.lean at EVERY argument — also beyond the last tenor and for curves whose lists have
unrelated lengths, where the Python function raises IndexError and both sides read the default value 0 — and the two rate models
compute the same curve.  This demands more than the property does (C16 speaks about times up to the last tenor); when this file
stops checking while ProofsGen/SrcC16.lean still does, the run records "alignment lost" and explores with the boosted budget —
the behavioural correspondence decides.
-/
import RpylibModel.ProofsGen.SrcC16

namespace Rpylib.SrcTie.C16
open Rpylib.Src.C16 Rpylib.Py Rpylib.Sde

theorem src_libor_df_eq_dfCurve (t : Rat) (tenors x0 : List Rat) : LevyLiborModel_df t tenors x0 = dfCurve x0 tenors t := by
  unfold dfCurve aux
  simp only [LevyLiborModel_df, searchsorted_eq]
  rcases searchLeft tenors t with _ | q
  · src_df_zero_branch
  · src_df_succ_branch q x0 tenors

theorem src_forward_df_eq_dfCurve (t : Rat) (tenors x0 : List Rat) : LevyForwardModel_df t tenors x0 = dfCurve x0 tenors t := by
  unfold dfCurve aux
  simp only [LevyForwardModel_df, searchsorted_eq]
  rcases searchLeft tenors t with _ | q
  · src_df_zero_branch
  · src_df_succ_branch q x0 tenors

/-- the two rate models share one discount curve -/
theorem src_libor_forward_same_curve (t : Rat) (tenors x0 : List Rat) :
    LevyLiborModel_df t tenors x0 = LevyForwardModel_df t tenors x0 := by
  rw [src_libor_df_eq_dfCurve, src_forward_df_eq_dfCurve]

/-- the base model's `df` is the model's constant (Drivers/C16: `base` curve) -/
theorem src_base_df_eq_one (t : Rat) : LevyDrivenSDEModel_df t = 1 := by
  simp only [LevyDrivenSDEModel_df]

end Rpylib.SrcTie.C16
