/-
C01 — source-derived tie for the rate assignment of the 1-d chain.  `RpylibModel/Generated/SrcC01.lean` is rewritten on every
run from the text of /repo's current working tree:

  rpylib/distribution/samplingfactory.py   create_q_vector, compute_intensity_of_jumps (specialised to `dimension_model() == 1`), the closure `probability_to_jump_to_state` of
                                            create_sampling_inversion_method (1-d reading)
  rpylib/grid/spatial.py                   CTMCGrid.left_point, CTMCGrid.right_point (the `int` implementations the 1-d chain
                                            dispatches to), CTMCGrid.middle registered for `float`; their `CoordinateND` /
                                            tuple implementations (n-d);  rpylib/grid/grid.py  Grid.__getitem__ (CoordinateND)
  rpylib/model/levymodel/levymodel.py      TruncatedLevyMeasure._truncated_interval, TruncatedLevyMeasure.integrate

Collaborators that are objects (the grid, the Lévy measure, the model) are seen through their public operations, each a
universally quantified parameter of the translated definition (`middle`, `left_point`, `right_point`, `int_lm`, `mass`,
`grid_at`, the axis as a list, the origin's position as an integer).

(B) property statements on the translated definitions
  * `src_q_vector_nf`, `src_q_length`, `src_q_origin`, `src_q_entry`: the vector has one entry per state, 0 at the origin, and at
    every other state k the mass `int_lm [middle(left_point k, x_k), middle(x_k, right_point k)]` of that state's cell;
  * `src_q_nonneg_abstract`, `src_q_sum_abstract`: for EVERY grid whose cells (seen through its operations) tile (`CellsOK`) and every
    additive, non-negative interval mass: all rates are ≥ 0 and their sum is the mass of the support minus the origin's cell;
  * `src_grid_*`: the translated `left_point / right_point / middle` give clamped neighbours, cells that tile the axis from its
    first to its last point with no gap and no overlap, every state inside its own cell; `src_cellsOK`: they satisfy `CellsOK`;
  * `src_truncated_*`: the truncated measure clips to the intersection with `[l, r]`, is again an additive non-negative mass,
    coincides with the original inside and vanishes outside;
  * `src_chain_*`: the chain as built (rates from the measure truncated to `(axis[0], axis[-1])`, the translated grid
    operations): each rate is the mass of the cell under the ORIGINAL measure, rates ≥ 0, sum = mass of
    `[axis[0], axis[-1]]` minus the origin's cell;
  * `src_intensity_1d_nf`, `src_intensity_eq_sum_rates_abstract`, `src_chain_intensity_eq_sum_rates`, `src_chain_intensity_value`:
    `compute_intensity_of_jumps` (1-d case) adds the masses of `[axis[0], h_left]` and `[h_right, axis[-1]]`, and that IS the sum
    of the rates `create_q_vector` returns — the property's conclusion with both sides translated from the source;
  * `src_prob_*`: the inversion sampler's per-state probability times the intensity is the mass of the state's cell; the
    probabilities of the non-origin states sum to 1 when the intensity is the sum of the rates.
  * n-d (the copula chain, every dimension, axes of any lengths): `src_left_point_nd_eq`, `src_right_point_nd_eq`,
    `src_getitem_nd_eq`, `src_middle_nd_eq`: the `CoordinateND` implementations act coordinate by coordinate as the 1-d operation
    on that coordinate's OWN axis (the right neighbour is clamped with the length of its own axis); `src_cell_nd`: the cell of a
    state is the product of the 1-d cells; `src_prob_nd_times_intensity`, `src_prob_nd_is_cell_mass`: probability × intensity is
    the box mass of the state's cell, which is ≥ 0.
(A) source = model (`RpylibModel/Model/Cells.lean`, `Model/Grid.lean`): `src_*_eq_model`.
The order-sensitive equality of the general loop of `compute_intensity_of_jumps` with the model's `intensityNd` (and what follows
from it in n-d) is in the alignment file `SrcC01Model.lean`.
-/
import RpylibModel.Generated.SrcC01
import RpylibModel.Proofs.Lemmas.SrcC01Lists
import RpylibModel.Proofs.Lemmas.SrcC01Nd
import RpylibModel.Proofs.C01
import Mathlib.Tactic.Linarith
import Mathlib.Tactic.Ring
import Mathlib.Tactic.FieldSimp
import Mathlib.Algebra.Order.Field.Rat
import Mathlib.Algebra.BigOperators.Intervals

set_option linter.unusedVariables false
set_option linter.unusedSectionVars false
set_option linter.unusedSimpArgs false
set_option linter.unnecessarySeqFocus false
set_option linter.unreachableTactic false
set_option linter.unusedTactic false

namespace Rpylib.SrcTie.C01
open Rpylib.Src.C01 Rpylib.Py Rpylib.Grid Rpylib.Cells Finset

/-! ## `create_q_vector` -/

/-- lower / upper end of the cell of state `k`, through the grid's operations: `grid.middle(grid.left_point(k), x_k)`,
    `grid.middle(x_k, grid.right_point(k))` -/
def loB (ax : List Rat) (mid : Rat → Rat → Rat) (lp : Int → Rat) (k : Nat) : Rat := mid (lp k) (pt ax k)
def hiB (ax : List Rat) (mid : Rat → Rat → Rat) (rp : Int → Rat) (k : Nat) : Rat := mid (pt ax k) (rp k)

/-- what `create_q_vector` must return, entry by entry -/
def qSpec (o : Int) (ax : List Rat) (m mid : Rat → Rat → Rat) (lp rp : Int → Rat) : List Rat :=
  (List.range ax.length).map (fun (k : Nat) => if (k : Int) = o then 0 else m (loB ax mid lp k) (hiB ax mid rp k))

/-- closes the side goals "this is what one pass of the loop does" whatever way the source spells the test -/
macro "src_step" : tactic =>
  `(tactic| (intros; first | rfl | ((try simp only []); split_ifs <;> first | rfl | (exfalso; omega) | (simp_all; done))))

/-- the entries agree whatever way the source spells the test -/
macro "src_entries" : tactic =>
  `(tactic| (unfold qSpec loB hiB; apply List.map_congr_left; intro k _; (try simp only [idx_nat]);
             first | done | rfl | (split_ifs <;> first | rfl | (exfalso; omega) | (simp_all; done))))

/-- **normal form**: the translated loop computes exactly `qSpec` (any list as axis, any integer as origin) -/
theorem src_q_vector_nf (o : Int) (ax : List Rat) (m mid : Rat → Rat → Rat) (lp rp : Int → Rat) :
    create_q_vector o ax m mid lp rp = qSpec o ax m mid lp rp := by
  simp only [create_q_vector]
  first
  | -- `for k, x in enumerate(axis): if k != origin: q[k] = …`
    (refine (foldl_enumerate_fill ax (fun k _ => k ≠ o) (fun k x => m (mid (lp k) x) (mid x (rp k))) _ ?_).trans ?_
     · src_step
     · src_entries)
  | -- every entry is written: `q[k] = 0 if k == origin else …`
    (refine (foldl_enumerate_fill ax (fun _ _ => True)
      (fun k x => if k = o then 0 else m (mid (lp k) x) (mid x (rp k))) _ ?_).trans ?_
     · src_step
     · src_entries)
  | -- `for k in range(len(axis))` with `x = axis[k]`
    (refine (foldl_range_fill ax.length (fun k => k ≠ o)
      (fun k => m (mid (lp k) (idx ax k)) (mid (idx ax k) (rp k))) _ ?_).trans ?_
     · src_step
     · src_entries)
  | (refine (foldl_range_fill ax.length (fun _ => True)
      (fun k => if k = o then 0 else m (mid (lp k) (idx ax k)) (mid (idx ax k) (rp k))) _ ?_).trans ?_
     · src_step
     · src_entries)
  | -- a comprehension over `enumerate(axis)`
    (rw [map_enumerate]
     first | done | src_entries)

/-- one rate per state -/
theorem src_q_length (o : Int) (ax : List Rat) (m mid : Rat → Rat → Rat) (lp rp : Int → Rat) :
    (create_q_vector o ax m mid lp rp).length = ax.length := by
  rw [src_q_vector_nf]; simp [qSpec]

/-- the origin is not a jump target -/
theorem src_q_origin (o : Nat) (ax : List Rat) (m mid : Rat → Rat → Rat) (lp rp : Int → Rat) :
    (create_q_vector o ax m mid lp rp).getD o 0 = 0 := by
  rw [src_q_vector_nf]
  by_cases h : o < ax.length
  · unfold qSpec; rw [getD_map_range _ _ _ h]; simp
  · rw [List.getD_eq_getElem?_getD, List.getElem?_eq_none (by simp [qSpec]; omega)]; rfl

/-- **the rate of a non-origin state is the mass of its cell** -/
theorem src_q_entry (o : Int) (ax : List Rat) (m mid : Rat → Rat → Rat) (lp rp : Int → Rat) (k : Nat)
    (hk : k < ax.length) (hko : (k : Int) ≠ o) :
    (create_q_vector o ax m mid lp rp).getD k 0
      = m (mid (lp k) (pt ax k)) (mid (pt ax k) (rp k)) := by
  rw [src_q_vector_nf]; unfold qSpec; rw [getD_map_range _ _ _ hk, if_neg hko]; rfl

/-- a grid, seen through its operations, whose cells tile: consecutive cells share their boundary, every cell is an
    interval, the origin's cell separates the negative cells from the positive ones -/
structure CellsOK (ax : List Rat) (o : Nat) (mid : Rat → Rat → Rat) (lp rp : Int → Rat) : Prop where
  lo : 0 < o
  hi : o + 1 < ax.length
  tile : ∀ k, k + 1 < ax.length → hiB ax mid rp k = loB ax mid lp (k + 1)
  ord : ∀ k, k < ax.length → loB ax mid lp k ≤ hiB ax mid rp k
  neg : loB ax mid lp o < 0
  pos : 0 < hiB ax mid rp o

section abstract_cells
variable (ax : List Rat) (o : Nat) (mid : Rat → Rat → Rat) (lp rp : Int → Rat) (hc : CellsOK ax o mid lp rp)
include hc

/-- the boundary sequence -/
def bndB (ax : List Rat) (mid : Rat → Rat → Rat) (lp rp : Int → Rat) (k : Nat) : Rat :=
  if k < ax.length then loB ax mid lp k else hiB ax mid rp (ax.length - 1)

theorem loB_eq_bndB (k : Nat) (hk : k < ax.length) : loB ax mid lp k = bndB ax mid lp rp k := by
  unfold bndB; rw [if_pos hk]

theorem hiB_eq_bndB (k : Nat) (hk : k < ax.length) : hiB ax mid rp k = bndB ax mid lp rp (k + 1) := by
  unfold bndB
  by_cases h : k + 1 < ax.length
  · rw [if_pos h]; exact hc.tile k h
  · rw [if_neg h]; congr 1; omega

theorem bndB_step (k : Nat) (hk : k < ax.length) : bndB ax mid lp rp k ≤ bndB ax mid lp rp (k + 1) := by
  rw [← loB_eq_bndB ax o mid lp rp hc k hk, ← hiB_eq_bndB ax o mid lp rp hc k hk]; exact hc.ord k hk

theorem bndB_mono (i : Nat) : ∀ j, i ≤ j → j ≤ ax.length → bndB ax mid lp rp i ≤ bndB ax mid lp rp j := by
  intro j
  induction j with
  | zero => intro h _; have : i = 0 := by omega
            subst this; exact le_refl _
  | succ j ih =>
    intro hij hj
    rcases Nat.lt_or_ge i (j + 1) with h1 | h1
    · exact le_trans (ih (by omega) (by omega)) (bndB_step ax o mid lp rp hc j (by omega))
    · have : i = j + 1 := by omega
      subst this; exact le_refl _

theorem bndB_neg (k : Nat) (hk : k ≤ o) : bndB ax mid lp rp k < 0 := by
  have h1 := bndB_mono ax o mid lp rp hc k o hk (by have := hc.hi; omega)
  have h2 := hc.neg
  rw [loB_eq_bndB ax o mid lp rp hc o (by have := hc.hi; omega)] at h2
  linarith

theorem bndB_pos (k : Nat) (hk : o < k) (hkn : k ≤ ax.length) : 0 < bndB ax mid lp rp k := by
  have h1 := bndB_mono ax o mid lp rp hc (o + 1) k hk hkn
  have h2 := hc.pos
  rw [hiB_eq_bndB ax o mid lp rp hc o (by have := hc.hi; omega)] at h2
  linarith

/-- every cell but the origin's lies strictly on one side of 0 -/
theorem cellB_away (k : Nat) (hk : k < ax.length) (hko : k ≠ o) : Away (loB ax mid lp k) (hiB ax mid rp k) := by
  rcases Nat.lt_or_ge k o with h | h
  · left; rw [hiB_eq_bndB ax o mid lp rp hc k hk]; exact bndB_neg ax o mid lp rp hc (k + 1) (by omega)
  · right; rw [loB_eq_bndB ax o mid lp rp hc k hk]; exact bndB_pos ax o mid lp rp hc k (by omega) (by omega)

/-- **all rates are non-negative** (any grid whose cells tile, any additive non-negative interval mass) -/
theorem src_q_nonneg_abstract (m : Rat → Rat → Rat) (hM : IsMass m) (k : Nat) :
    0 ≤ (create_q_vector o ax m mid lp rp).getD k 0 := by
  by_cases hk : k < ax.length
  · by_cases hko : k = o
    · subst hko; rw [src_q_origin]
    · rw [src_q_entry o ax m mid lp rp k hk (by omega)]
      exact hM.nonneg _ _ (hc.ord k hk) (cellB_away ax o mid lp rp hc k hk hko)
  · rw [List.getD_eq_getElem?_getD, List.getElem?_eq_none (by rw [src_q_length]; omega)]; rfl

/-- **the rates sum to the mass of the support minus the origin's cell**: `[lo 0, lo o] ∪ [hi o, hi (n-1)]` -/
theorem src_q_sum_abstract (m : Rat → Rat → Rat) (hM : IsMass m) :
    (create_q_vector o ax m mid lp rp).sum
      = m (loB ax mid lp 0) (loB ax mid lp o) + m (hiB ax mid rp o) (hiB ax mid rp (ax.length - 1)) := by
  have hlo := hc.lo
  have hhi := hc.hi
  have hon : o < ax.length := by omega
  rw [src_q_vector_nf]; unfold qSpec
  rw [sum_map_range]
  set f := bndB ax mid lp rp with hf
  have hcell : ∀ k, k < ax.length → k ≠ o →
      (if (k : Int) = (o : Int) then 0 else m (loB ax mid lp k) (hiB ax mid rp k)) = m (f k) (f (k + 1)) := by
    intro k hk hko
    rw [if_neg (by omega), loB_eq_bndB ax o mid lp rp hc k hk, hiB_eq_bndB ax o mid lp rp hc k hk]
  have hmono := bndB_mono ax o mid lp rp hc
  rw [sum_range_split _ o _ hon]
  have e0 : (if ((o : Nat) : Int) = (o : Int) then (0 : Rat) else m (loB ax mid lp o) (hiB ax mid rp o)) = 0 := by simp
  have eL : ∑ k ∈ Ico 0 o, (if (k : Int) = (o : Int) then 0 else m (loB ax mid lp k) (hiB ax mid rp k)) = m (f 0) (f o) := by
    rw [sum_congr rfl (fun k hk => hcell k (by have := (mem_Ico.mp hk).2; omega) (by have := (mem_Ico.mp hk).2; omega))]
    apply tele m f 0 o hlo
    intro k hk1 hk2
    exact hM.add _ _ _ (hmono 0 k (by omega) (by omega)) (hmono k (k + 1) (by omega) (by omega))
      (Or.inl (bndB_neg ax o mid lp rp hc (k + 1) (by omega)))
  have eR : ∑ k ∈ Ico (o + 1) ax.length, (if (k : Int) = (o : Int) then 0 else m (loB ax mid lp k) (hiB ax mid rp k))
      = m (f (o + 1)) (f ax.length) := by
    rw [sum_congr rfl (fun k hk => hcell k (mem_Ico.mp hk).2 (by have := (mem_Ico.mp hk).1; omega))]
    apply tele m f (o + 1) ax.length hhi
    intro k hk1 hk2
    exact hM.add _ _ _ (hmono (o + 1) k (by omega) (by omega)) (hmono k (k + 1) (by omega) (by omega))
      (Or.inr (bndB_pos ax o mid lp rp hc (o + 1) (by omega) (by omega)))
  rw [e0, eL, eR, loB_eq_bndB ax o mid lp rp hc 0 (by omega), loB_eq_bndB ax o mid lp rp hc o hon,
    hiB_eq_bndB ax o mid lp rp hc o hon, hiB_eq_bndB ax o mid lp rp hc (ax.length - 1) (by omega)]
  have : ax.length - 1 + 1 = ax.length := by omega
  rw [this]; ring

end abstract_cells

/-! ## the grid's operations: `CTMCGrid.left_point`, `right_point`, `middle` -/

/-- (A) `left_point` is the model's clamped left neighbour -/
theorem src_left_point_eq_model (ax : List Rat) (k : Nat) : CTMCGrid_left_point (k : Int) ax = leftPoint ax k := by
  simp only [CTMCGrid_left_point, imax_eq]
  rw [idx_of_nonneg _ _ (by omega)]
  unfold leftPoint pt
  congr 1; omega

/-- (A) `right_point` is the model's clamped right neighbour -/
theorem src_right_point_eq_model (ax : List Rat) (k : Nat) : CTMCGrid_right_point (k : Int) ax = rightPoint ax k := by
  simp only [CTMCGrid_right_point, imin_eq]
  rcases Nat.eq_zero_or_pos ax.length with h0 | h0
  · have : ax = [] := List.eq_nil_of_length_eq_zero h0
    subst this; simp [idx, rightPoint]; rfl
  · rw [idx_of_nonneg _ _ (by omega)]
    unfold rightPoint pt
    congr 1; omega

/-- (A) `middle` on floats is the arithmetic mean -/
theorem src_middle_eq_model (a b : Rat) : CTMCGrid_middle_float a b = amid a b := by
  simp only [CTMCGrid_middle_float, amid] <;> ring1

/-- the cell boundary lies strictly inside the gap, and `middle(a, a) = a` -/
theorem src_middle_between : Between CTMCGrid_middle_float := by
  intro a b hab
  rw [src_middle_eq_model]; exact amid_between a b hab

theorem src_middle_idem : MidIdem CTMCGrid_middle_float := by
  intro a
  rw [src_middle_eq_model]; exact amid_idem a

/-- clamped neighbours: `left_point k = x_{k-1}` (`x_0` for the first state), `right_point k = x_{k+1}` (`x_{n-1}` for the last) -/
theorem src_grid_neighbours (ax : List Rat) (k : Nat) (hk : k < ax.length) :
    CTMCGrid_left_point (k : Int) ax = pt ax (k - 1) ∧
    (k + 1 < ax.length → CTMCGrid_right_point (k : Int) ax = pt ax (k + 1)) ∧
    (k + 1 = ax.length → CTMCGrid_right_point (k : Int) ax = pt ax k) := by
  rw [src_left_point_eq_model, src_right_point_eq_model]
  refine ⟨rfl, fun h => ?_, fun h => ?_⟩
  · exact rightPointN_eq _ ax k h
  · exact rightPointN_last _ ax k h

/-- the cells of the translated grid operations are the model's cells -/
theorem src_loB_eq (ax : List Rat) (k : Nat) :
    loB ax CTMCGrid_middle_float (fun p => CTMCGrid_left_point p ax) k = cellLo amid ax k := by
  simp only [loB, cellLo, src_left_point_eq_model, src_middle_eq_model]

theorem src_hiB_eq (ax : List Rat) (k : Nat) :
    hiB ax CTMCGrid_middle_float (fun p => CTMCGrid_right_point p ax) k = cellHi amid ax k := by
  simp only [hiB, cellHi, cellHiN, src_right_point_eq_model, src_middle_eq_model]; rfl

/-- **consecutive cells share their boundary** (no gap, no overlap) -/
theorem src_grid_cells_tile (ax : List Rat) (k : Nat) (hk : k + 1 < ax.length) :
    CTMCGrid_middle_float (pt ax k) (CTMCGrid_right_point (k : Int) ax)
      = CTMCGrid_middle_float (CTMCGrid_left_point ((k + 1 : Nat) : Int) ax) (pt ax (k + 1)) := by
  obtain ⟨_, h2, _⟩ := src_grid_neighbours ax k (by omega)
  obtain ⟨h3, _, _⟩ := src_grid_neighbours ax (k + 1) hk
  rw [h2 hk, h3]; rfl

/-- **the first cell starts at the first point, the last cell ends at the last point** -/
theorem src_grid_cells_ends (ax : List Rat) (hn : 0 < ax.length) :
    CTMCGrid_middle_float (CTMCGrid_left_point (0 : Nat) ax) (pt ax 0) = pt ax 0 ∧
    CTMCGrid_middle_float (pt ax (ax.length - 1)) (CTMCGrid_right_point ((ax.length - 1 : Nat) : Int) ax)
      = pt ax (ax.length - 1) := by
  obtain ⟨h1, _, _⟩ := src_grid_neighbours ax 0 hn
  obtain ⟨_, _, h3⟩ := src_grid_neighbours ax (ax.length - 1) (by omega)
  rw [h1, h3 (by omega)]
  exact ⟨src_middle_idem _, src_middle_idem _⟩

/-- **every state lies inside its own cell**, strictly on every side on which it has a neighbour -/
theorem src_grid_state_in_cell (ax : List Rat) (hs : StrictInc ax) (k : Nat) (hk : k < ax.length) :
    CTMCGrid_middle_float (CTMCGrid_left_point (k : Int) ax) (pt ax k) ≤ pt ax k ∧
    pt ax k ≤ CTMCGrid_middle_float (pt ax k) (CTMCGrid_right_point (k : Int) ax) ∧
    (0 < k → CTMCGrid_middle_float (CTMCGrid_left_point (k : Int) ax) (pt ax k) < pt ax k) ∧
    (k + 1 < ax.length → pt ax k < CTMCGrid_middle_float (pt ax k) (CTMCGrid_right_point (k : Int) ax)) := by
  have h := state_in_cell amid amid_between amid_idem ax hs k hk
  have e1 := src_loB_eq ax k
  have e2 := src_hiB_eq ax k
  unfold loB at e1; unfold hiB at e2
  simp only [] at e1 e2
  rw [e1, e2]; exact h

/-- the translated grid operations on a well-formed axis satisfy `CellsOK` -/
theorem src_cellsOK (ax : List Rat) (o : Nat) (hax : AxisOK ax o) :
    CellsOK ax o CTMCGrid_middle_float (fun p => CTMCGrid_left_point p ax) (fun p => CTMCGrid_right_point p ax) := by
  have hon : o < ax.length := by have := hax.hi; omega
  refine ⟨hax.lo, hax.hi, ?_, ?_, ?_, ?_⟩
  · intro k hk; rw [src_hiB_eq, src_loB_eq]; exact cells_tile amid ax k hk
  · intro k hk; rw [src_hiB_eq, src_loB_eq]
    exact le_trans (cellLo_le_pt amid amid_between amid_idem ax hax.inc k hk)
      (pt_le_cellHi amid amid_between amid_idem ax hax.inc k hk)
  · rw [src_loB_eq]
    have := cellLo_lt_pt amid amid_between amid_idem ax hax.inc o hon hax.lo
    rw [hax.zero] at this; exact this
  · rw [src_hiB_eq]
    have := pt_lt_cellHi amid amid_between amid_idem ax hax.inc o hax.hi
    rw [hax.zero] at this; exact this

/-- (A) `create_q_vector` on the model's grid operations is the model's `qVector` (every axis, every origin) -/
theorem src_q_vector_eq_model (mid : Rat → Rat → Rat) (ax : List Rat) (o : Nat) (m : Rat → Rat → Rat) :
    create_q_vector (o : Int) ax m mid (fun p => leftPoint ax p.toNat) (fun p => rightPoint ax p.toNat)
      = qVector mid ax o m := by
  rw [src_q_vector_nf]; unfold qSpec qVector
  apply List.map_congr_left
  intro k _
  unfold rate loB hiB cellLo cellHi cellHiN
  by_cases h : k = o
  · simp [h]
  · rw [if_neg (by omega), if_neg h]; simp only [Int.toNat_natCast]; rfl

/-- (A) with the translated grid operations: the model's `qVector` for the arithmetic mean -/
theorem src_q_vector_grid_eq_model (ax : List Rat) (o : Nat) (m : Rat → Rat → Rat) :
    create_q_vector (o : Int) ax m CTMCGrid_middle_float (fun p => CTMCGrid_left_point p ax)
        (fun p => CTMCGrid_right_point p ax) = qVector amid ax o m := by
  rw [src_q_vector_nf]; unfold qSpec qVector
  apply List.map_congr_left
  intro k _
  rw [src_loB_eq, src_hiB_eq]; unfold rate
  by_cases h : k = o
  · simp [h]
  · rw [if_neg (by omega), if_neg h]

/-! ## the truncated measure: `TruncatedLevyMeasure._truncated_interval`, `integrate` -/

/-- (A) the clipped interval is the model's `truncIv` -/
theorem src_truncated_interval_eq_model (l r a b : Rat) :
    TruncatedLevyMeasure_truncated_interval a b (l, r) = truncIv l r a b := by
  simp only [TruncatedLevyMeasure_truncated_interval, truncIv, rmax, rmin, max_def, min_def]
  refine Prod.ext ?_ ?_ <;> (try simp only []) <;> split_ifs <;> linarith

/-- (A) on ordered arguments `integrate` is the model's `truncate` -/
theorem src_truncated_integrate_eq_model (l r : Rat) (m : Rat → Rat → Rat) (a b : Rat) (hab : a ≤ b) :
    TruncatedLevyMeasure_integrate a b (l, r) m = truncate l r m a b := by
  simp only [TruncatedLevyMeasure_integrate, truncate, src_truncated_interval_eq_model]
  split_ifs <;> first | rfl | (exfalso; linarith)

/-- **the clipped interval is the intersection with `[l, r]`** (collapsed to an end of `[l, r]` when they are disjoint) -/
theorem src_truncated_interval_spec (l r a b : Rat) (hlr : l ≤ r) (hab : a ≤ b) :
    let I := TruncatedLevyMeasure_truncated_interval a b (l, r)
    l ≤ I.1 ∧ I.1 ≤ I.2 ∧ I.2 ≤ r ∧ (a ≤ r → I.1 = max a l) ∧ (l ≤ b → I.2 = min b r) ∧
      (r ≤ a → I = (r, r)) ∧ (b ≤ l → I = (l, l)) := by
  rw [src_truncated_interval_eq_model]
  simp only [truncIv]
  refine ⟨le_max_right _ _, ?_, min_le_right _ _, ?_, ?_, ?_, ?_⟩
  · apply le_min
    · exact max_le (le_trans (min_le_left _ _) (le_trans hab (le_max_left _ _))) (le_max_right _ _)
    · exact max_le (min_le_right _ _) hlr
  · intro h; rw [min_eq_left h]
  · intro h; rw [max_eq_left h]
  · intro h
    rw [min_eq_right h, max_eq_left hlr, min_eq_right (le_trans (le_trans h hab) (le_max_left _ _))]
  · intro h
    rw [max_eq_right (le_trans (min_le_left _ _) (le_trans hab h)), max_eq_right h, min_eq_left hlr]

/-- **inside `[l, r]` the truncated measure is the original one** -/
theorem src_truncated_integrate_inside (l r : Rat) (m : Rat → Rat → Rat) (a b : Rat) (hab : a ≤ b) (hla : l ≤ a)
    (hbr : b ≤ r) : TruncatedLevyMeasure_integrate a b (l, r) m = m a b := by
  rw [src_truncated_integrate_eq_model l r m a b hab]; exact truncate_inside l r m a b hab hla hbr

/-- **it vanishes outside `[l, r]`** -/
theorem src_truncated_integrate_outside (l r : Rat) (hlr : l ≤ r) (hl : l ≠ 0) (hr : r ≠ 0) (m : Rat → Rat → Rat)
    (hM : IsMass m) (a b : Rat) (hab : a ≤ b) (hout : b ≤ l ∨ r ≤ a) :
    TruncatedLevyMeasure_integrate a b (l, r) m = 0 := by
  rw [src_truncated_integrate_eq_model l r m a b hab]; exact truncate_outside l r hlr hl hr m hM a b hab hout

/-- **on an interval that meets `[l, r]` it is the mass of the intersection** -/
theorem src_truncated_integrate_clip (l r : Rat) (m : Rat → Rat → Rat) (a b : Rat) (hab : a ≤ b) (hal : a ≤ r)
    (hlb : l ≤ b) : TruncatedLevyMeasure_integrate a b (l, r) m = m (max a l) (min b r) := by
  rw [src_truncated_integrate_eq_model l r m a b hab]; exact truncate_clip l r m a b hal hlb

/-- **the truncated measure is again additive and non-negative** -/
theorem src_truncated_integrate_isMass (l r : Rat) (hlr : l ≤ r) (hl : l ≠ 0) (hr : r ≠ 0) (m : Rat → Rat → Rat)
    (hM : IsMass m) : IsMass (fun a b => TruncatedLevyMeasure_integrate a b (l, r) m) := by
  have hT := truncate_isMass l r hlr hl hr m hM
  constructor
  · intro a b c hab hbc haw
    rw [src_truncated_integrate_eq_model l r m a c (le_trans hab hbc), src_truncated_integrate_eq_model l r m a b hab,
      src_truncated_integrate_eq_model l r m b c hbc]
    exact hT.add a b c hab hbc haw
  · intro a b hab haw
    rw [src_truncated_integrate_eq_model l r m a b hab]
    exact hT.nonneg a b hab haw

/-! ## the 1-d chain as built: translated grid operations, measure truncated to `(axis[0], axis[-1])` -/

section chain
variable (ax : List Rat) (o : Nat) (hax : AxisOK ax o) (m : Rat → Rat → Rat)
include hax

/-- the rate vector of the chain: `create_q_vector(model_tilde.levy_triplet.nu, grid)` where `nu` was truncated to
    `grid.truncations[0] = (axis[0], axis[-1])` (markovchain.py:97-98, spatial.py:48) -/
def chainQ (ax : List Rat) (o : Nat) (m : Rat → Rat → Rat) : List Rat :=
  create_q_vector (o : Int) ax (fun a b => TruncatedLevyMeasure_integrate a b (idx ax 0, idx ax (-1)) m)
    CTMCGrid_middle_float (fun p => CTMCGrid_left_point p ax) (fun p => CTMCGrid_right_point p ax)

/-- **each rate of the chain is the mass of the state's cell under the original measure**: the truncation to the grid's
    bounds cuts no cell -/
theorem src_chain_rate_is_cell_mass (k : Nat) (hk : k < ax.length) (hko : k ≠ o) :
    (chainQ ax o m).getD k 0
      = m (CTMCGrid_middle_float (CTMCGrid_left_point (k : Int) ax) (pt ax k))
          (CTMCGrid_middle_float (pt ax k) (CTMCGrid_right_point (k : Int) ax)) := by
  unfold chainQ
  rw [src_q_entry _ _ _ _ _ _ k hk (by omega)]
  have e1 := src_loB_eq ax k
  have e2 := src_hiB_eq ax k
  unfold loB at e1; unfold hiB at e2
  simp only [] at e1 e2 ⊢
  rw [e1, e2]
  obtain ⟨h1, h2⟩ := cell_inside_truncation amid amid_between amid_idem ax o hax k hk
  have h3 : cellLo amid ax k ≤ cellHi amid ax k :=
    le_trans (cellLo_le_pt amid amid_between amid_idem ax hax.inc k hk) (pt_le_cellHi amid amid_between amid_idem ax hax.inc k hk)
  rw [idx_neg_one, show (0 : Int) = ((0 : Nat) : Int) from rfl, idx_nat]
  exact src_truncated_integrate_inside _ _ m _ _ h3 h1 h2

/-- the chain's truncated measure is an additive non-negative mass -/
theorem src_chain_measure_isMass (hM : IsMass m) :
    IsMass (fun a b => TruncatedLevyMeasure_integrate a b (idx ax 0, idx ax (-1)) m) := by
  have h0 := strictInc_lt ax hax.inc 0 o hax.lo (by have := hax.hi; omega)
  have h1 := strictInc_lt ax hax.inc o (ax.length - 1) (by have := hax.hi; omega) (by have := hax.hi; omega)
  rw [hax.zero] at h0 h1
  rw [idx_neg_one, show (0 : Int) = ((0 : Nat) : Int) from rfl, idx_nat]
  exact src_truncated_integrate_isMass _ _ (by linarith) (ne_of_lt h0) (ne_of_gt h1) m hM

/-- **all rates of the chain are non-negative** -/
theorem src_chain_rates_nonneg (hM : IsMass m) (k : Nat) : 0 ≤ (chainQ ax o m).getD k 0 :=
  src_q_nonneg_abstract ax o _ _ _ (src_cellsOK ax o hax) _ (src_chain_measure_isMass ax o hax m hM) k

/-- **the rates of the chain sum to the mass of `[axis[0], axis[-1]]` minus the origin's cell**, under the original measure -/
theorem src_chain_sum (hM : IsMass m) :
    (chainQ ax o m).sum = m (pt ax 0) (CTMCGrid_middle_float (CTMCGrid_left_point (o : Int) ax) 0)
      + m (CTMCGrid_middle_float 0 (CTMCGrid_right_point (o : Int) ax)) (pt ax (ax.length - 1)) := by
  have hon : o < ax.length := by have := hax.hi; omega
  have hn : 0 < ax.length := by omega
  unfold chainQ
  rw [src_q_sum_abstract ax o _ _ _ (src_cellsOK ax o hax) _ (src_chain_measure_isMass ax o hax m hM)]
  rw [src_loB_eq, src_loB_eq, src_hiB_eq, src_hiB_eq]
  have hb0 := bnd_zero amid amid_between amid_idem ax hax.inc hn
  have hbl := bnd_last amid amid_between amid_idem ax hax.inc hn
  have c0 : cellLo amid ax 0 = pt ax 0 := by rw [cellLo_eq_bnd amid _ ax 0 hn]; exact hb0
  have cl : cellHi amid ax (ax.length - 1) = pt ax (ax.length - 1) := (cells_ends amid amid_idem ax hn).2
  have ho := origin_cell amid ax o hax.zero
  have i1 := cell_inside_truncation amid amid_between amid_idem ax o hax o hon
  have i2 := state_in_cell amid amid_between amid_idem ax hax.inc o hon
  have ends : pt ax 0 ≤ pt ax (ax.length - 1) := strictInc_le ax hax.inc 0 _ (by omega) (by omega)
  rw [hax.zero] at i2
  rw [idx_neg_one, show (0 : Int) = ((0 : Nat) : Int) from rfl, idx_nat, c0, cl]
  rw [src_truncated_integrate_inside _ _ m _ _ i1.1 (le_refl _) (by linarith [i2.1, i2.2.1, i1.2]),
    src_truncated_integrate_inside _ _ m _ _ i1.2 (by linarith [i2.1, i2.2.1, i1.1]) (le_refl _)]
  have e1 : cellLo amid ax o = CTMCGrid_middle_float (CTMCGrid_left_point (o : Int) ax) 0 := by
    rw [← src_loB_eq]; unfold loB; rw [hax.zero]
  have e2 : cellHi amid ax o = CTMCGrid_middle_float 0 (CTMCGrid_right_point (o : Int) ax) := by
    rw [← src_hiB_eq]; unfold hiB; rw [hax.zero]
  rw [e1, e2]

end chain

/-! ## the inversion sampler's per-state probability -/

/-- **probability × intensity = mass of the state's cell** (when that mass is non-negative, as it is for every cell of
    a tiling grid) -/
theorem src_prob_times_intensity (k : Int) (I : Rat) (m mid : Rat → Rat → Rat) (lp rp at_ : Int → Rat) (hI : I ≠ 0)
    (hm : 0 ≤ m (mid (lp k) (at_ k)) (mid (at_ k) (rp k))) :
    probability_to_jump_to_state k I m mid lp rp at_ * I = m (mid (lp k) (at_ k)) (mid (at_ k) (rp k)) := by
  simp only [probability_to_jump_to_state, rmax]
  split_ifs <;> first | (exfalso; linarith) | (field_simp; done) | (simp; linarith)

/-- it is non-negative for a positive intensity, whatever the mass function -/
theorem src_prob_nonneg (k : Int) (I : Rat) (m mid : Rat → Rat → Rat) (lp rp at_ : Int → Rat) (hI : 0 < I) :
    0 ≤ probability_to_jump_to_state k I m mid lp rp at_ := by
  simp only [probability_to_jump_to_state, rmax]
  split_ifs <;> (apply div_nonneg <;> linarith)

/-- (A) the model's `jumpProb` -/
theorem src_prob_eq_model (mid : Rat → Rat → Rat) (ax : List Rat) (o : Nat) (m : Rat → Rat → Rat) (k : Nat) :
    probability_to_jump_to_state (k : Int) (intensity1d mid ax o m) m mid (fun p => leftPoint ax p.toNat)
        (fun p => rightPoint ax p.toNat) (fun p => pt ax p.toNat) = jumpProb mid ax o m k := by
  simp only [probability_to_jump_to_state, jumpProb, cellLo, cellHi, cellHiN, rightPoint, rightPointN, Int.toNat_natCast]
  congr 1
  simp only [rmax, max_def]
  split_ifs <;> linarith

/-- **the probabilities of the non-origin states sum to one** when the intensity handed to the sampler is the sum of the
    rates (any grid whose cells tile, any additive non-negative mass) -/
theorem src_prob_sum_one (ax : List Rat) (o : Nat) (mid : Rat → Rat → Rat) (lp rp : Int → Rat)
    (hc : CellsOK ax o mid lp rp) (m : Rat → Rat → Rat) (hM : IsMass m)
    (hpos : 0 < (create_q_vector o ax m mid lp rp).sum) :
    ∑ k ∈ (Finset.range ax.length).erase o,
      probability_to_jump_to_state (k : Int) (create_q_vector o ax m mid lp rp).sum m mid lp rp (fun p => pt ax p.toNat) = 1 := by
  set I := (create_q_vector o ax m mid lp rp).sum with hI
  have hon : o < ax.length := by have := hc.hi; omega
  have h1 : ∀ k ∈ (Finset.range ax.length).erase o,
      probability_to_jump_to_state (k : Int) I m mid lp rp (fun p => pt ax p.toNat)
        = (create_q_vector o ax m mid lp rp).getD k 0 / I := by
    intro k hk
    obtain ⟨hko, hkn⟩ := mem_erase.mp hk
    have hk' := mem_range.mp hkn
    have h2 := src_prob_times_intensity (k : Int) I m mid lp rp (fun p => pt ax p.toNat) (ne_of_gt hpos) (by
      simp only [Int.toNat_natCast]
      exact hM.nonneg _ _ (hc.ord k hk') (cellB_away ax o mid lp rp hc k hk' hko))
    simp only [Int.toNat_natCast] at h2
    rw [src_q_entry o ax m mid lp rp k hk' (by omega), ← h2]
    field_simp
  rw [sum_congr rfl h1, ← sum_div, sum_erase (Finset.range ax.length) (f := fun k => (create_q_vector (o : Int) ax m mid lp rp).getD k 0) (src_q_origin o ax m mid lp rp)]
  have : ∑ k ∈ Finset.range ax.length, (create_q_vector o ax m mid lp rp).getD k 0 = I := by
    rw [hI, src_q_vector_nf]; unfold qSpec
    rw [sum_map_range]
    apply sum_congr rfl
    intro k hk
    rw [getD_map_range _ _ _ (mem_range.mp hk)]
  rw [this]
  exact div_self (ne_of_gt hpos)

/-! ## the intensity the process reports: `compute_intensity_of_jumps`, 1-d -/

/-- **normal form**: the loop over the `3^1 - 1 = 2` blocks adds the mass of `[axis[0], h_left]` and of `[h_right, axis[-1]]`
    (`h_left / h_right` = the ends of the origin's cell); the masses are asked for with 1-tuples, as the code does -/
theorem src_intensity_1d_nf (o : Int) (g0 : Rat) (axes : List (List Rat)) (mass : List Rat → List Rat → Rat)
    (mid : Rat → Rat → Rat) (lp rp : Int → Rat) :
    compute_intensity_of_jumps_1d o g0 axes mass mid lp rp
      = mass [idx (idx axes 0) 0] [mid (lp o) g0] + mass [mid g0 (rp o)] [idx (idx axes 0) (-1)] := by
  simp [compute_intensity_of_jumps_1d, Rpylib.Py.cartesian, transpose, enumerate, Rpylib.Py.range, List.range,
    List.range.loop, idx_zero_cons, idx_one_cons]
  try ring1

/-- **the reported intensity is the sum of the rates** — the property's conclusion, on the translated source of both sides:
    any grid whose cells tile and cover `[axis[0], axis[-1]]`, any additive non-negative interval mass; `mass` on 1-tuples
    is the interval mass (`LevyModel.mass`, levymodel.py:426-432) -/
theorem src_intensity_eq_sum_rates_abstract (ax : List Rat) (o : Nat) (mid : Rat → Rat → Rat) (lp rp : Int → Rat)
    (hc : CellsOK ax o mid lp rp) (hfirst : loB ax mid lp 0 = pt ax 0)
    (hlast : hiB ax mid rp (ax.length - 1) = pt ax (ax.length - 1))
    (m : Rat → Rat → Rat) (hM : IsMass m) (mass : List Rat → List Rat → Rat)
    (hmass : ∀ a b, mass a b = m (idx a 0) (idx b 0)) :
    compute_intensity_of_jumps_1d o (pt ax o) [ax] mass mid lp rp = (create_q_vector o ax m mid lp rp).sum := by
  rw [src_intensity_1d_nf, src_q_sum_abstract ax o mid lp rp hc m hM, hmass, hmass, hfirst, hlast]
  simp only [idx_zero_cons, idx_neg_one]
  rw [show (0 : Int) = ((0 : Nat) : Int) from rfl, idx_nat]
  rfl

/-- (A) the model's `intensity1d` -/
theorem src_intensity_1d_eq_model (mid : Rat → Rat → Rat) (ax : List Rat) (o : Nat) (m : Rat → Rat → Rat) :
    compute_intensity_of_jumps_1d (o : Int) 0 [ax] (fun a b => m (idx a 0) (idx b 0)) mid
        (fun p => leftPoint ax p.toNat) (fun p => rightPoint ax p.toNat) = intensity1d mid ax o m := by
  rw [src_intensity_1d_nf]
  simp only [idx_zero_cons, idx_neg_one, intensity1d, parts, hLeft, hRight, List.drop_succ_cons, List.drop_zero,
    List.map_cons, List.map_nil, List.sum_cons, List.sum_nil, Int.toNat_natCast]
  rw [show (0 : Int) = ((0 : Nat) : Int) from rfl, idx_nat]
  simp only [add_zero]
  rfl

section chain2
variable (ax : List Rat) (o : Nat) (hax : AxisOK ax o) (m : Rat → Rat → Rat)
include hax

/-- the intensity of the chain as built: the truncated measure, asked through `model.mass` with 1-tuples -/
def chainIntensity (ax : List Rat) (o : Nat) (m : Rat → Rat → Rat) : Rat :=
  compute_intensity_of_jumps_1d (o : Int) 0 [ax]
    (fun a b => TruncatedLevyMeasure_integrate (idx a 0) (idx b 0) (idx ax 0, idx ax (-1)) m)
    CTMCGrid_middle_float (fun p => CTMCGrid_left_point p ax) (fun p => CTMCGrid_right_point p ax)

/-- **the intensity the chain reports is the sum of its rates** (all pieces translated from the source) -/
theorem src_chain_intensity_eq_sum_rates (hM : IsMass m) : chainIntensity ax o m = (chainQ ax o m).sum := by
  have hn : 0 < ax.length := by have := hax.hi; omega
  unfold chainIntensity chainQ
  have h := src_intensity_eq_sum_rates_abstract ax o _ _ _ (src_cellsOK ax o hax)
    (by rw [src_loB_eq]; exact (cells_ends amid amid_idem ax hn).1)
    (by rw [src_hiB_eq]; exact (cells_ends amid amid_idem ax hn).2)
    _ (src_chain_measure_isMass ax o hax m hM)
    (fun a b => TruncatedLevyMeasure_integrate (idx a 0) (idx b 0) (idx ax 0, idx ax (-1)) m) (fun a b => rfl)
  rw [hax.zero] at h
  exact h

/-- **and it is the mass, under the original measure, of `[axis[0], axis[-1]]` minus the origin's cell** -/
theorem src_chain_intensity_value (hM : IsMass m) :
    chainIntensity ax o m = m (pt ax 0) (CTMCGrid_middle_float (CTMCGrid_left_point (o : Int) ax) 0)
      + m (CTMCGrid_middle_float 0 (CTMCGrid_right_point (o : Int) ax)) (pt ax (ax.length - 1)) := by
  rw [src_chain_intensity_eq_sum_rates ax o hax m hM, src_chain_sum ax o hax m hM]

end chain2

/-! ## n-d (the copula chain): the grid's operations on `CoordinateND` positions, coordinate by coordinate -/

/-- closes "the n-d body is the 1-d operation on the k-th axis" whatever way the source spells it -/
macro "src_coord" : tactic =>
  `(tactic| (intros; simp only [CTMCGrid_left_point, CTMCGrid_right_point, CTMCGrid_middle_float, imax, imin] <;>
      first | rfl | ring1 | (split_ifs <;> first | rfl | (congr 1; omega) | (exfalso; omega))))

/-- **every coordinate of the n-d left neighbour is the 1-d clamped left neighbour on that coordinate's own axis** -/
theorem src_left_point_nd_eq (axes : List (List Rat)) (cs : List Int) (h : cs.length ≤ axes.length) :
    CTMCGrid_left_point_nd cs axes = List.zipWith (fun ax c => CTMCGrid_left_point c ax) axes cs := by
  simp only [CTMCGrid_left_point_nd]
  refine map_enumerate_axes axes cs _ _ ?_ h
  src_coord

/-- **every coordinate of the n-d right neighbour is the 1-d clamped right neighbour, clamped with the length of that
    coordinate's own axis** (the axes of a grid may have different lengths) -/
theorem src_right_point_nd_eq (axes : List (List Rat)) (cs : List Int) (h : cs.length ≤ axes.length) :
    CTMCGrid_right_point_nd cs axes = List.zipWith (fun ax c => CTMCGrid_right_point c ax) axes cs := by
  simp only [CTMCGrid_right_point_nd]
  refine map_enumerate_axes axes cs _ _ ?_ h
  src_coord

/-- the point of a position: coordinatewise `axes[k][c]` -/
theorem src_getitem_nd_eq (axes : List (List Rat)) (cs : List Int) (h : cs.length ≤ axes.length) :
    Grid_getitem_nd cs axes = List.zipWith (fun ax c => idx ax c) axes cs := by
  simp only [Grid_getitem_nd]
  refine map_enumerate_axes axes cs _ _ ?_ h
  intros; rfl

/-- `middle` on tuples is the coordinatewise `middle` on floats -/
theorem src_middle_nd_eq (xi xip : List Rat) :
    CTMCGrid_middle_nd xi xip = List.zipWith CTMCGrid_middle_float xi xip := by
  simp only [CTMCGrid_middle_nd, List.zip_eq_zipWith, List.map_zipWith]
  first | done | rfl | (congr 1 <;> (funext a b; src_coord))

/-- **the n-d cell of a state is the product of the 1-d cells of its coordinates** (the model's `cellBox`) -/
theorem src_cell_nd (axes : List (List Rat)) (ns : List Nat) (h : ns.length ≤ axes.length) :
    List.zip
      (CTMCGrid_middle_nd (CTMCGrid_left_point_nd (ns.map (fun (n : Nat) => (n : Int))) axes) (Grid_getitem_nd (ns.map (fun (n : Nat) => (n : Int))) axes))
      (CTMCGrid_middle_nd (Grid_getitem_nd (ns.map (fun (n : Nat) => (n : Int))) axes) (CTMCGrid_right_point_nd (ns.map (fun (n : Nat) => (n : Int))) axes))
      = cellBox amid axes ns := by
  have hl : (ns.map (fun (n : Nat) => (n : Int))).length ≤ axes.length := by simpa using h
  rw [src_left_point_nd_eq axes _ hl, src_right_point_nd_eq axes _ hl, src_getitem_nd_eq axes _ hl, src_middle_nd_eq,
    src_middle_nd_eq, zipWith_zipWith_same, zipWith_zipWith_same, zip_zipWith_same, List.zipWith_map_right]
  unfold cellBox
  rw [List.zip_eq_zipWith, List.map_zipWith]
  congr 1
  funext ax n
  have e1 := src_loB_eq ax n
  have e2 := src_hiB_eq ax n
  simp only [loB, hiB] at e1 e2
  simp only [idx_nat, e1, e2]

/-- **probability × intensity = mass of the state's cell** (n-d reading of the same closure) -/
theorem src_prob_nd_times_intensity (cs : List Int) (I : Rat) (mass : List Rat → List Rat → Rat)
    (middle : List Rat → List Rat → List Rat) (lp rp at_ : List Int → List Rat) (hI : I ≠ 0)
    (hm : 0 ≤ mass (middle (lp cs) (at_ cs)) (middle (at_ cs) (rp cs))) :
    probability_to_jump_to_state_nd cs I mass middle lp rp at_ * I = mass (middle (lp cs) (at_ cs)) (middle (at_ cs) (rp cs)) := by
  simp only [probability_to_jump_to_state_nd, rmax]
  split_ifs <;> first | (exfalso; linarith) | (field_simp; done) | (simp; linarith)

/-- (A) with the translated n-d grid operations and the box mass asked through `model.mass(a, b)`: probability × intensity is
    the model's `rateNd` of the state (every dimension, axes of any lengths) -/
theorem src_prob_nd_eq_model (axes : List (List Rat)) (o : Nat) (m : Box → Rat) (ns : List Nat)
    (h : ns.length ≤ axes.length) (hne : ns ≠ axes.map (fun _ => o)) (I : Rat) (hI : I ≠ 0)
    (hnn : 0 ≤ m (cellBox amid axes ns)) :
    probability_to_jump_to_state_nd (ns.map (fun (n : Nat) => (n : Int))) I (fun a b => m (List.zip a b)) CTMCGrid_middle_nd
        (fun c => CTMCGrid_left_point_nd c axes) (fun c => CTMCGrid_right_point_nd c axes) (fun c => Grid_getitem_nd c axes) * I
      = rateNd amid axes o m ns := by
  have hc := src_cell_nd axes ns h
  rw [src_prob_nd_times_intensity _ _ _ _ _ _ _ hI (by beta_reduce; rw [hc]; exact hnn)]
  beta_reduce
  rw [hc]; unfold rateNd; rw [if_neg hne]

/-- **all n-d rates are non-negative, and probability × intensity is the mass of the state's cell**: well-formed axes (of any
    lengths), any box mass that is additive and non-negative away from the origin, every state of the grid, every dimension -/
theorem src_prob_nd_is_cell_mass (axes : List (List Rat)) (o : Nat) (hax : ∀ ax ∈ axes, AxisOK ax o) (m : Box → Rat)
    (hM : IsBoxMassN m) (ns : List Nat) (hs : ns ∈ states axes) (hne : ns ≠ axes.map (fun _ => o)) (I : Rat) (hI : I ≠ 0) :
    0 ≤ m (cellBox amid axes ns) ∧
    probability_to_jump_to_state_nd (ns.map (fun (n : Nat) => (n : Int))) I (fun a b => m (List.zip a b)) CTMCGrid_middle_nd
        (fun c => CTMCGrid_left_point_nd c axes) (fun c => CTMCGrid_right_point_nd c axes) (fun c => Grid_getitem_nd c axes) * I
      = m (cellBox amid axes ns) := by
  have hlen : ns.length ≤ axes.length := by
    have := ((mem_states axes ns).mp hs).length_eq; omega
  have hnn : 0 ≤ m (cellBox amid axes ns) := by
    have := rates_nonneg_nd amid amid_between amid_idem axes o hax m hM ns hs
    unfold rateNd at this; rw [if_neg hne] at this; exact this
  refine ⟨hnn, ?_⟩
  rw [src_prob_nd_eq_model axes o m ns hlen hne I hI hnn]; unfold rateNd; rw [if_neg hne]

/-! ## non-vacuity: concrete instances of the hypotheses -/

/-- a 7-point axis with unequal steps, origin at position 3 (`example_axisOK` of Proofs/C01.lean) gives `CellsOK` for the
    translated grid operations; Lebesgue measure and the infinite-activity `invSq` are `IsMass` -/
example : CellsOK [-4, -2, -1, 0, 1, 3, 7] 3 CTMCGrid_middle_float
    (fun p => CTMCGrid_left_point p [-4, -2, -1, 0, 1, 3, 7]) (fun p => CTMCGrid_right_point p [-4, -2, -1, 0, 1, 3, 7]) :=
  src_cellsOK _ _ example_axisOK

example : create_q_vector 3 [-4, -2, -1, 0, 1, 3, 7] (fun a b => b - a) CTMCGrid_middle_float
    (fun p => CTMCGrid_left_point p [-4, -2, -1, 0, 1, 3, 7]) (fun p => CTMCGrid_right_point p [-4, -2, -1, 0, 1, 3, 7])
    = [1, 3/2, 1, 0, 3/2, 3, 2] := by decide +kernel

example : chainQ [-4, -2, -1, 0, 1, 3, 7] 3 invSq = [1/12, 1/3, 4/3, 0, 3/2, 3/10, 2/35] := by decide +kernel

example : (chainQ [-4, -2, -1, 0, 1, 3, 7] 3 invSq).sum = invSq (-4) (-1/2) + invSq (1/2) 7 := by decide +kernel

example : TruncatedLevyMeasure_truncated_interval (-5) 2 (-4, 7) = (-4, 2) ∧
    TruncatedLevyMeasure_truncated_interval 8 9 (-4, 7) = (7, 7) := by decide +kernel

example : probability_to_jump_to_state 5 (7/2) (fun a b => b - a) CTMCGrid_middle_float
    (fun p => CTMCGrid_left_point p [-4, -2, -1, 0, 1, 3, 7]) (fun p => CTMCGrid_right_point p [-4, -2, -1, 0, 1, 3, 7])
    (fun p => idx [-4, -2, -1, 0, 1, 3, 7] p) = 6 / 7 := by decide +kernel

example : CTMCGrid_right_point_nd [6, 5] [[-4, -2, -1, 0, 1, 3, 7], [-3, -1, -1/2, 0, 1/4, 2]] = [7, 2] ∧
    CTMCGrid_left_point_nd [0, 5] [[-4, -2, -1, 0, 1, 3, 7], [-3, -1, -1/2, 0, 1/4, 2]] = [-4, 1/4] := by decide +kernel

example : chainIntensity [-4, -2, -1, 0, 1, 3, 7] 3 invSq = 101 / 28 := by decide +kernel

end Rpylib.SrcTie.C01
