/-
C18 — source-derived tie for the Black–Scholes closed form.  `RpylibModel/Generated/SrcC18.lean` is rewritten on every run
from the text of `CFBlackScholes.forward / _call_put / call / put / butterfly` (rpylib/numerical/closedform/cfblackscholes.py)
in /repo's current working tree; `np.exp`, `np.log`, `np.sqrt` and `norm.cdf` are function parameters (any functions), the
model's attributes r, d, spot, sigma are parameters.

Obligations on the translated source: put–call parity, call − put = df·(fwd − K), in BOTH branches (regular and degenerate), for
every function `cdf` with cdf(x) + cdf(−x) = 1; the closed-form `forward` is that same quantity when exp is multiplicative; the
butterfly is its call combination.
-/
import RpylibModel.Generated.SrcC18
import Mathlib.Tactic.Linarith
import Mathlib.Tactic.Ring
import Mathlib.Tactic.LinearCombination
import Mathlib.Algebra.Order.Field.Rat

namespace Rpylib.SrcTie.C18
open Rpylib.Src.C18 Rpylib.Py

/-- call − put = df · (forward − strike), regular and degenerate branch alike -/
theorem src_bs_parity (K T r d S sigma : Rat) (exp log sqrt cdf : Rat → Rat) (hcdf : ∀ x, cdf x + cdf (-x) = 1) :
    CFBlackScholes_call K T r d S sigma exp log sqrt cdf - CFBlackScholes_put K T r d S sigma exp log sqrt cdf
      = exp (-r * T) * (S * exp ((r - d) * T) - K) := by
  have hneg : ∀ x, cdf (-x) = 1 - cdf x := fun x => by linarith [hcdf x]
  simp only [CFBlackScholes_call, CFBlackScholes_put, CFBlackScholes_call_put, rmax]
  split_ifs <;> push_cast at * <;> simp only [mul_neg, mul_one, neg_mul, one_mul, hneg] at * <;>
    first
      | ring1
      | (exfalso; linarith)
      | (have hX : S * exp ((r - d) * T) - K = 0 := by linarith
         rw [hX]; ring1)

/-- the `forward` method is the same quantity when exp turns sums into products -/
theorem src_bs_forward_is_parity_rhs (K T r d S : Rat) (exp : Rat → Rat) (hexp : ∀ x y, exp (x + y) = exp x * exp y) :
    CFBlackScholes_forward K T r d S exp = exp (-r * T) * (S * exp ((r - d) * T) - K) := by
  simp only [CFBlackScholes_forward]
  have h : exp (-d * T) = exp (-r * T) * exp ((r - d) * T) := by rw [← hexp]; congr 1; ring
  rw [h]; ring

/-- call − put = forward (the statement of the property for the closed form) -/
theorem src_bs_call_minus_put_eq_forward (K T r d S sigma : Rat) (exp log sqrt cdf : Rat → Rat)
    (hcdf : ∀ x, cdf x + cdf (-x) = 1) (hexp : ∀ x y, exp (x + y) = exp x * exp y) :
    CFBlackScholes_call K T r d S sigma exp log sqrt cdf - CFBlackScholes_put K T r d S sigma exp log sqrt cdf
      = CFBlackScholes_forward K T r d S exp := by
  rw [src_bs_parity _ _ _ _ _ _ _ _ _ _ hcdf, src_bs_forward_is_parity_rhs _ _ _ _ _ _ hexp]

theorem src_bs_butterfly_eq_calls (K1 K2 K3 T r d S sigma : Rat) (exp log sqrt cdf : Rat → Rat) :
    CFBlackScholes_butterfly K1 K2 K3 T r d S sigma exp log sqrt cdf
      = CFBlackScholes_call K1 T r d S sigma exp log sqrt cdf - 2 * CFBlackScholes_call K2 T r d S sigma exp log sqrt cdf
        + CFBlackScholes_call K3 T r d S sigma exp log sqrt cdf := by
  simp only [CFBlackScholes_butterfly]

/-- degenerate branch: the call is the discounted intrinsic value -/
theorem src_bs_degenerate_call (K T r d S sigma : Rat) (exp log sqrt cdf : Rat → Rat)
    (h : sigma < 1 / 100000000 ∨ S < 1 / 100000000 ∨ T < 1 / 100000000) :
    CFBlackScholes_call K T r d S sigma exp log sqrt cdf = exp (-r * T) * rmax 0 (S * exp ((r - d) * T) - K) := by
  simp only [CFBlackScholes_call, CFBlackScholes_call_put]
  rw [if_pos (by simpa using h)]
  push_cast; simp only [one_mul]

/-- non-vacuity: cdf = 1/2 (it satisfies the hypothesis), exp = 1 -/
example : CFBlackScholes_call 100 1 0 0 103 (1/5) (fun _ => 1) (fun _ => 0) (fun _ => 1) (fun _ => 1/2)
    - CFBlackScholes_put 100 1 0 0 103 (1/5) (fun _ => 1) (fun _ => 0) (fun _ => 1) (fun _ => 1/2) = 3 := by
  rw [src_bs_parity _ _ _ _ _ _ _ _ _ _ (by intro x; norm_num)]; norm_num

end Rpylib.SrcTie.C18
