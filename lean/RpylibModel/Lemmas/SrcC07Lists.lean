/-
C07, source-derived tie — list lemmas that connect the numpy statistics of `RpylibModel/Basic/PyPrelude.lean` (`mean`, `cov`,
`var`, `covMatrix`, `meanAxis0`, `varAxis0`, `dot`, `matVec`, `vecMat`, `transpose`, slices) — as they occur in the translated
estimators, `RpylibModel/Generated/SrcC07.lean` — to the index-function form `sumTo n f` of the hand-written model
(`RpylibModel/Model/Stats.lean`).  Nothing here mentions a generated definition.

Conventions: a 2-d array is the list of its rows; `Rect m d` says that every row has `d` entries; `col m c` is column `c`;
`ent m i j` the entry (0 outside the array).
-/
import RpylibModel.Basic.PyPrelude
import RpylibModel.Proofs.Lemmas.C07Basic
import RpylibModel.Proofs.Lemmas.C07Vec
import Mathlib.Tactic.Linarith
import Mathlib.Tactic.Ring
import Mathlib.Tactic.FieldSimp
import Mathlib.Algebra.Order.Field.Rat

set_option linter.unusedSimpArgs false
set_option linter.unusedVariables false

namespace Rpylib.SrcTie.C07
open Rpylib.Stats

/-! ### sums of lists as `sumTo` -/

theorem sumTo_shift (n : Nat) (f : Nat → Rat) : sumTo (n + 1) f = f 0 + sumTo n (fun i => f (i + 1)) := by
  induction n with
  | zero => simp [sumTo_succ, sumTo_zero]
  | succ n ih => rw [sumTo_succ, ih, sumTo_succ]; ring

/-- a list whose `i`-th entry is `f i` sums to `Σ_{i<n} f i` -/
theorem sum_eq_sumTo (l : List Rat) (n : Nat) (f : Nat → Rat) (hl : l.length = n) (h : ∀ i, i < n → l.getD i 0 = f i) :
    l.sum = sumTo n f := by
  induction l generalizing n f with
  | nil => subst hl; simp [sumTo_zero]
  | cons x t ih =>
    subst hl
    rw [List.length_cons, sumTo_shift, List.sum_cons]
    have h0 := h 0 (by simp)
    simp only [List.getD_cons_zero] at h0
    rw [h0, ih t.length (fun i => f (i + 1)) rfl]
    intro i hi
    have := h (i + 1) (by simp; omega)
    simpa using this

theorem sum_getD (l : List Rat) : l.sum = sumTo l.length (fun i => l.getD i 0) :=
  sum_eq_sumTo l l.length _ rfl (fun _ _ => rfl)

/-- entry `i` of a 1-d array, 0 outside -/
abbrev at1 (l : List Rat) : Nat → Rat := fun i => l.getD i 0

/-! ### `np.mean`, `np.cov`, `np.var` of 1-d arrays are the model's `mean`, `covB`, `varU` -/

theorem pyMean_eq (l : List Rat) : Rpylib.Py.mean l = mean l.length (at1 l) := by
  unfold Rpylib.Py.mean mean
  rw [sum_getD l]

theorem pyCov_sum (a b : List Rat) (n : Nat) (ha : a.length = n) (hb : b.length = n) (ddof : Int) :
    Rpylib.Py.cov a b ddof
      = sumTo n (fun i => (at1 a i - mean n (at1 a)) * (at1 b i - mean n (at1 b))) / (((n : Int) - ddof : Int) : Rat) := by
  unfold Rpylib.Py.cov
  rw [pyMean_eq, pyMean_eq, ha, hb]
  congr 1
  apply sum_eq_sumTo
  · simp [ha, hb]
  · intro i hi
    have h1 : i < a.length := by omega
    have h2 : i < b.length := by omega
    simp [at1, List.getD_eq_getElem?_getD, List.getElem?_zipWith, h1, h2]

/-- `np.cov(.., bias=True)` entry = the model's biased covariance -/
theorem pyCov_zero (a b : List Rat) (n : Nat) (ha : a.length = n) (hb : b.length = n) :
    Rpylib.Py.cov a b 0 = covB n (at1 a) (at1 b) := by
  rw [pyCov_sum a b n ha hb 0, covB_def]; simp

/-- `np.var(.., ddof=1)` = the model's unbiased variance -/
theorem pyVar_one (a : List Rat) : Rpylib.Py.var a 1 = varU a.length (at1 a) := by
  unfold Rpylib.Py.var
  rw [pyCov_sum a a a.length rfl rfl 1, varU_def]; push_cast; rfl

theorem pyVar_zero (a : List Rat) : Rpylib.Py.var a 0 = varB a.length (at1 a) := by
  unfold Rpylib.Py.var varB; exact pyCov_zero a a a.length rfl rfl

/-! ### rectangular 2-d arrays -/

/-- every row has `d` entries -/
def Rect (m : List (List Rat)) (d : Nat) : Prop := ∀ r ∈ m, r.length = d

/-- entry (i, j), 0 outside the array -/
def ent (m : List (List Rat)) (i j : Nat) : Rat := (m.getD i []).getD j 0

/-- column `c` -/
def col (m : List (List Rat)) (c : Nat) : List Rat := m.map (fun r => r.getD c 0)

theorem col_length (m : List (List Rat)) (c : Nat) : (col m c).length = m.length := by simp [col]

theorem col_at (m : List (List Rat)) (c i : Nat) : at1 (col m c) i = ent m i c := by
  unfold at1 col ent
  by_cases hi : i < m.length
  · simp [List.getD_eq_getElem?_getD, hi]
  · simp [List.getD_eq_getElem?_getD, hi, List.getElem?_eq_none (Nat.le_of_not_lt hi)]

theorem foldl_min_rect (rest : List (List Rat)) (d : Nat) (h : ∀ r ∈ rest, r.length = d) :
    (rest.map List.length).foldl min d = d := by
  induction rest with
  | nil => rfl
  | cons r t ih =>
    simp only [List.map_cons, List.foldl_cons]
    rw [h r (by simp), Nat.min_self]
    exact ih (fun r hr => h r (by simp [hr]))

/-- `m.T` of a rectangular array with at least one row: the list of its columns -/
theorem transpose_rect (m : List (List Rat)) (d : Nat) (hm : m ≠ []) (h : Rect m d) :
    Rpylib.Py.transpose m = (List.range d).map (col m) := by
  cases m with
  | nil => exact absurd rfl hm
  | cons r t =>
    show (List.range ((t.map List.length).foldl min r.length)).map
        (fun i => (r :: t).map (fun ys => ys.getD i default)) = _
    rw [h r (by simp), foldl_min_rect t d (fun r' hr' => h r' (by simp [hr']))]
    rfl

theorem transpose_length (m : List (List Rat)) (d : Nat) (hm : m ≠ []) (h : Rect m d) :
    (Rpylib.Py.transpose m).length = d := by
  rw [transpose_rect m d hm h]; simp

theorem rect_transpose (m : List (List Rat)) (d : Nat) (hm : m ≠ []) (h : Rect m d) :
    Rect (Rpylib.Py.transpose m) m.length := by
  rw [transpose_rect m d hm h]
  intro r hr
  simp only [List.mem_map, List.mem_range] at hr
  obtain ⟨c, _, rfl⟩ := hr
  exact col_length m c

theorem ent_transpose (m : List (List Rat)) (d : Nat) (hm : m ≠ []) (h : Rect m d) (i j : Nat) (hi : i < d) :
    ent (Rpylib.Py.transpose m) i j = ent m j i := by
  rw [transpose_rect m d hm h]
  unfold ent
  simp only [List.getD_eq_getElem?_getD, List.getElem?_map, List.getElem?_range hi, Option.map_some, Option.getD_some]
  have := col_at m i j
  simpa [at1, List.getD_eq_getElem?_getD, ent] using this

/-- a list of lists is determined by its length and its entries, given the row lengths -/
theorem mat_ext (a b : List (List Rat)) (d : Nat) (hl : a.length = b.length) (ha : Rect a d) (hb : Rect b d)
    (h : ∀ i j, i < a.length → j < d → ent a i j = ent b i j) : a = b := by
  apply List.ext_getElem hl
  intro i h1 h2
  have ra : (a[i]).length = d := ha _ (List.getElem_mem h1)
  have rb : (b[i]).length = d := hb _ (List.getElem_mem h2)
  apply List.ext_getElem (by rw [ra, rb])
  intro j h3 h4
  have := h i j h1 (by omega)
  simp only [ent, List.getD_eq_getElem?_getD, List.getElem?_eq_getElem h1, List.getElem?_eq_getElem h2, Option.getD_some,
    List.getElem?_eq_getElem h3, List.getElem?_eq_getElem h4] at this
  exact this

/-- transposing twice gives the array back (rectangular, at least one row and one column) -/
theorem transpose_transpose (m : List (List Rat)) (d : Nat) (hm : m ≠ []) (hd : 0 < d) (h : Rect m d) :
    Rpylib.Py.transpose (Rpylib.Py.transpose m) = m := by
  have hT : Rpylib.Py.transpose m ≠ [] := by
    intro h0
    have := transpose_length m d hm h
    rw [h0] at this; simp at this; omega
  have hR := rect_transpose m d hm h
  apply mat_ext _ _ d
  · rw [transpose_length _ _ hT hR]
  · have := rect_transpose _ _ hT hR
    rwa [transpose_length m d hm h] at this
  · exact h
  · intro i j hi hj
    rw [transpose_length _ _ hT hR] at hi
    rw [ent_transpose _ _ hT hR i j hi, ent_transpose m d hm h j i hj]

/-! ### `axis=0` reductions -/

theorem at1_col_fun (m : List (List Rat)) (c : Nat) : at1 (col m c) = fun i => ent m i c := by
  funext i; exact col_at m c i

theorem meanAxis0_length (m : List (List Rat)) (d : Nat) (hm : m ≠ []) (h : Rect m d) :
    (Rpylib.Py.meanAxis0 m).length = d := by
  unfold Rpylib.Py.meanAxis0; rw [List.length_map, transpose_length m d hm h]

/-- `np.mean(m, axis=0)[c]` is the mean of column `c` -/
theorem meanAxis0_getD (m : List (List Rat)) (d : Nat) (hm : m ≠ []) (h : Rect m d) (c : Nat) (hc : c < d) :
    (Rpylib.Py.meanAxis0 m).getD c 0 = mean m.length (fun i => ent m i c) := by
  unfold Rpylib.Py.meanAxis0
  rw [transpose_rect m d hm h]
  simp only [List.getD_eq_getElem?_getD, List.getElem?_map, List.getElem?_range hc, Option.map_some, Option.getD_some]
  rw [pyMean_eq, col_length, at1_col_fun]

theorem varAxis0_length (m : List (List Rat)) (d : Nat) (hm : m ≠ []) (h : Rect m d) (ddof : Int) :
    (Rpylib.Py.varAxis0 m ddof).length = d := by
  unfold Rpylib.Py.varAxis0; rw [List.length_map, transpose_length m d hm h]

theorem varAxis0_getD (m : List (List Rat)) (d : Nat) (hm : m ≠ []) (h : Rect m d) (c : Nat) (hc : c < d) (ddof : Int) :
    (Rpylib.Py.varAxis0 m ddof).getD c 0 = Rpylib.Py.var (col m c) ddof := by
  unfold Rpylib.Py.varAxis0
  rw [transpose_rect m d hm h]
  simp only [List.getD_eq_getElem?_getD, List.getElem?_map, List.getElem?_range hc, Option.map_some, Option.getD_some]

/-- `np.var(m, axis=0, ddof=1)[c]` is the unbiased sample variance of column `c` -/
theorem varAxis0_one_getD (m : List (List Rat)) (d : Nat) (hm : m ≠ []) (h : Rect m d) (c : Nat) (hc : c < d) :
    (Rpylib.Py.varAxis0 m 1).getD c 0 = varU m.length (fun i => ent m i c) := by
  rw [varAxis0_getD m d hm h c hc, pyVar_one, col_length, at1_col_fun]

/-! ### products -/

theorem dot_nil_left (b : List Rat) : Rpylib.Py.dot [] b = 0 := by simp [Rpylib.Py.dot]
theorem dot_nil_right (a : List Rat) : Rpylib.Py.dot a [] = 0 := by simp [Rpylib.Py.dot]
theorem dot_cons (x y : Rat) (a b : List Rat) : Rpylib.Py.dot (x :: a) (y :: b) = x * y + Rpylib.Py.dot a b := by
  simp [Rpylib.Py.dot]

/-- `np.dot(a, b)` of 1-d arrays: Σ_j a_j b_j over the entries of `b` (entries of `a` beyond its end count as 0; numpy raises
    for unequal lengths) -/
theorem dot_eq_sumTo_right (a b : List Rat) : Rpylib.Py.dot a b = sumTo b.length (fun j => at1 a j * at1 b j) := by
  induction b generalizing a with
  | nil => simp [dot_nil_right, sumTo_zero]
  | cons y t ih =>
    cases a with
    | nil =>
      rw [dot_nil_left]
      have : (fun j => at1 ([] : List Rat) j * at1 (y :: t) j) = fun _ => 0 := by funext j; simp [at1]
      rw [this, sumTo_const]; ring
    | cons x s =>
      rw [dot_cons, List.length_cons, sumTo_shift, ih s]
      simp [at1]

theorem dot_comm (a b : List Rat) : Rpylib.Py.dot a b = Rpylib.Py.dot b a := by
  induction a generalizing b with
  | nil => rw [dot_nil_left, dot_nil_right]
  | cons x s ih =>
    cases b with
    | nil => rw [dot_nil_left, dot_nil_right]
    | cons y t => rw [dot_cons, dot_cons, ih t]; ring

theorem dot_eq_sumTo_left (a b : List Rat) : Rpylib.Py.dot a b = sumTo a.length (fun j => at1 a j * at1 b j) := by
  rw [dot_comm, dot_eq_sumTo_right]
  apply sumTo_congr; intro j _; ring

/-- `np.dot(v, m.T)` = `m @ v` for a rectangular `m` with at least one row and one column -/
theorem vecMat_transpose (v : List Rat) (m : List (List Rat)) (d : Nat) (hm : m ≠ []) (hd : 0 < d) (h : Rect m d) :
    Rpylib.Py.vecMat v (Rpylib.Py.transpose m) = m.map (fun r => Rpylib.Py.dot v r) := by
  unfold Rpylib.Py.vecMat
  rw [transpose_transpose m d hm hd h]

theorem matVec_eq (v : List Rat) (m : List (List Rat)) : Rpylib.Py.matVec m v = m.map (fun r => Rpylib.Py.dot v r) := by
  unfold Rpylib.Py.matVec
  apply List.map_congr_left; intro r _; exact dot_comm r v

/-! ### slices of the covariance matrix: `covariance[0:-1, 0:-1]`, `covariance[0:-1, -1]` -/

theorem sliceTo_neg_one {α : Type} (l : List α) : Rpylib.Py.sliceTo l (-1) = l.dropLast := by
  have h1 : ((-1 : Int) < 0) := by decide
  simp only [Rpylib.Py.sliceTo, h1, if_true, List.dropLast_eq_take]
  congr 1

theorem idx_neg_one_append (l : List Rat) (a : Rat) : Rpylib.Py.idx (l ++ [a]) (-1) = a := by
  have h1 : ((-1 : Int) < 0) := by decide
  simp only [Rpylib.Py.idx, h1, if_true]
  have : (l ++ [a]).length - (-(-1 : Int)).toNat = l.length := by simp
  rw [this]; simp

theorem sliceTo_nat {α : Type} (l : List α) (n : Nat) : Rpylib.Py.sliceTo l (n : Int) = l.take n := by
  have h1 : ¬ ((n : Int) < 0) := by omega
  simp only [Rpylib.Py.sliceTo, h1, if_false, Int.toNat_natCast]

/-- the covariance matrix of the variables `cols ++ [y]` without its last row: every remaining row is
    (covariances with the `cols`) ++ [covariance with `y`] -/
theorem covMatrix_append_dropLast (cols : List (List Rat)) (y : List Rat) (ddof : Int) :
    (Rpylib.Py.covMatrix (cols ++ [y]) ddof).dropLast
      = cols.map (fun r => cols.map (fun s => Rpylib.Py.cov r s ddof) ++ [Rpylib.Py.cov r y ddof]) := by
  unfold Rpylib.Py.covMatrix
  simp [List.map_append, List.dropLast_concat]

/-- Σ_X = `covariance[0:-1, 0:-1]`: the covariance matrix of the controls -/
theorem sigma_x_eq (cols : List (List Rat)) (y : List Rat) (ddof : Int) :
    (Rpylib.Py.sliceTo (Rpylib.Py.covMatrix (cols ++ [y]) ddof) (-1)).map (fun r => Rpylib.Py.sliceTo r (-1))
      = Rpylib.Py.covMatrix cols ddof := by
  rw [sliceTo_neg_one, covMatrix_append_dropLast, List.map_map]
  unfold Rpylib.Py.covMatrix
  apply List.map_congr_left; intro r _
  simp [sliceTo_neg_one, List.dropLast_concat]

/-- Σ_XY = `covariance[0:-1, -1]`: the covariances of the controls with the payoff -/
theorem sigma_xy_eq (cols : List (List Rat)) (y : List Rat) (ddof : Int) :
    (Rpylib.Py.sliceTo (Rpylib.Py.covMatrix (cols ++ [y]) ddof) (-1)).map (fun r => Rpylib.Py.idx r (-1))
      = cols.map (fun r => Rpylib.Py.cov r y ddof) := by
  rw [sliceTo_neg_one, covMatrix_append_dropLast, List.map_map]
  apply List.map_congr_left; intro r _
  simp only [Function.comp, idx_neg_one_append]

/-! ### the adjusted sample `Y − b·(X − prices)` -/

/-- the textbook control-variate adjustment with coefficient vector `b`: entry `i` is `y_i − Σ_j b_j (x_ij − p_j)` — the model's
    `adjustK` on the index functions of the arrays -/
def adjusted (b : List Rat) (x : List (List Rat)) (y p : List Rat) : List Rat :=
  (List.range x.length).map (adjustK p.length (at1 b) (at1 p) (fun j i => ent x i j) (at1 y))

theorem adjusted_length (b : List Rat) (x : List (List Rat)) (y p : List Rat) : (adjusted b x y p).length = x.length := by
  simp [adjusted]

theorem adjusted_at (b : List Rat) (x : List (List Rat)) (y p : List Rat) (i : Nat) (hi : i < x.length) :
    at1 (adjusted b x y p) i = adjustK p.length (at1 b) (at1 p) (fun j i => ent x i j) (at1 y) i := by
  simp [at1, adjusted, List.getD_eq_getElem?_getD, List.getElem?_map, List.getElem?_range hi]

/-- `X − prices` (every row minus the prices), then `· b`: entry `i` is Σ_j b_j (x_ij − p_j) -/
theorem dot_row_sub (b r p : List Rat) (hr : r.length = p.length) :
    Rpylib.Py.dot b (List.zipWith (fun (x_ y_ : Rat) => x_ - y_) r p) = sumTo p.length (fun j => at1 b j * (at1 r j - at1 p j)) := by
  rw [dot_eq_sumTo_right]
  simp only [List.length_zipWith, hr, Nat.min_self]
  apply sumTo_congr; intro j hj
  have h1 : j < r.length := by omega
  simp [at1, List.getD_eq_getElem?_getD, List.getElem?_zipWith, h1, hj]

theorem rect_sub (x : List (List Rat)) (p : List Rat) (h : Rect x p.length) :
    Rect (x.map (fun r => List.zipWith (fun (x_ y_ : Rat) => x_ - y_) r p)) p.length := by
  intro r hr
  simp only [List.mem_map] at hr
  obtain ⟨r0, h0, rfl⟩ := hr
  simp [h r0 h0]

/-- `y - (X - prices) @ b` is the adjusted sample -/
theorem sub_rows_dot_eq (b : List Rat) (x : List (List Rat)) (y p : List Rat) (h : Rect x p.length) (hy : y.length = x.length) :
    List.zipWith (fun (x_ y_ : Rat) => x_ - y_) y
        ((x.map (fun r => List.zipWith (fun (x_ y_ : Rat) => x_ - y_) r p)).map (fun r => Rpylib.Py.dot b r))
      = adjusted b x y p := by
  apply List.ext_getElem
  · simp [adjusted, hy]
  · intro i h1 h2
    have hi : i < x.length := by simpa [adjusted] using h2
    have hiy : i < y.length := by omega
    simp only [adjusted, List.getElem_zipWith, List.getElem_map, List.getElem_range]
    rw [dot_row_sub b _ p (h _ (List.getElem_mem hi))]
    unfold adjustK
    congr 1
    · simp [at1, List.getD_eq_getElem?_getD, List.getElem?_eq_getElem hiy]
    · apply sumTo_congr; intro j _
      simp [at1, ent, List.getD_eq_getElem?_getD, List.getElem?_eq_getElem hi]

/-- `y - np.dot(b, (X - prices).T)` is the adjusted sample (at least one path and one control) -/
theorem sub_vecMat_eq (b : List Rat) (x : List (List Rat)) (y p : List Rat) (hx : x ≠ []) (hk : 0 < p.length)
    (h : Rect x p.length) (hy : y.length = x.length) :
    List.zipWith (fun (x_ y_ : Rat) => x_ - y_) y
        (Rpylib.Py.vecMat b (Rpylib.Py.transpose (x.map (fun r => List.zipWith (fun (x_ y_ : Rat) => x_ - y_) r p))))
      = adjusted b x y p := by
  rw [vecMat_transpose b _ p.length (by simpa using hx) hk (rect_sub x p h)]
  exact sub_rows_dot_eq b x y p h hy

/-- with all coefficients 0 the adjusted sample is the raw one -/
theorem adjusted_zero (b : List Rat) (x : List (List Rat)) (y p : List Rat) (hb : ∀ j, at1 b j = 0) (hy : y.length = x.length) :
    adjusted b x y p = y := by
  apply List.ext_getElem
  · simp [adjusted, hy]
  · intro i h1 h2
    simp only [adjusted, List.getElem_map, List.getElem_range]
    unfold adjustK
    have : (fun j => at1 b j * (ent x i j - at1 p j)) = fun _ => 0 := by funext j; rw [hb j]; ring
    rw [this, sumTo_const]
    simp [at1, List.getD_eq_getElem?_getD, List.getElem?_eq_getElem h2]

theorem at1_zeros (n : Int) (j : Nat) : at1 (Rpylib.Py.zeros n) j = 0 := by
  unfold at1 Rpylib.Py.zeros
  by_cases hj : j < n.toNat
  · simp [List.getD_eq_getElem?_getD, List.getElem?_replicate, hj]
  · simp [List.getD_eq_getElem?_getD, List.getElem?_replicate, hj]

/-! ### statistics of a finite sample only look at its entries -/

theorem mean_congr (n : Nat) (f g : Nat → Rat) (h : ∀ i, i < n → f i = g i) : mean n f = mean n g := by
  unfold mean; rw [sumTo_congr n f g h]

theorem covB_congr (n : Nat) (f f' g g' : Nat → Rat) (hf : ∀ i, i < n → f i = f' i) (hg : ∀ i, i < n → g i = g' i) :
    covB n f g = covB n f' g' := by
  simp only [covB_def]
  rw [mean_congr n f f' hf, mean_congr n g g' hg]
  congr 1
  apply sumTo_congr; intro i hi; rw [hf i hi, hg i hi]

theorem varB_congr (n : Nat) (f f' : Nat → Rat) (hf : ∀ i, i < n → f i = f' i) : varB n f = varB n f' :=
  covB_congr n f f' f f' hf hf

theorem varU_congr (n : Nat) (f f' : Nat → Rat) (hf : ∀ i, i < n → f i = f' i) : varU n f = varU n f' := by
  simp only [varU_def]
  rw [mean_congr n f f' hf]
  congr 1
  apply sumTo_congr; intro i hi; rw [hf i hi]

theorem getD_map_lt (f : Rat → Rat) (l : List Rat) (c : Nat) (hc : c < l.length) : (l.map f).getD c 0 = f (l.getD c 0) := by
  simp [List.getD_eq_getElem?_getD, List.getElem?_map, List.getElem?_eq_getElem hc]

/-! ### the store loop -/

theorem setAt_nat {α : Type} (l : List α) (i : Nat) (x : α) : Rpylib.Py.setAt l (i : Int) x = l.set i x := by
  have h1 : ¬ ((i : Int) < 0) := by omega
  simp only [Rpylib.Py.setAt, h1, if_false, Int.toNat_natCast]

/-- storing `v i` at index `i` for i = 0 .. t-1 overwrites exactly the first `t` entries -/
theorem foldl_set_range {α : Type} (v : Nat → α) (a0 : List α) (t : Nat) (ht : t ≤ a0.length) :
    (List.range t).foldl (fun a i => a.set i (v i)) a0 = (List.range t).map v ++ a0.drop t := by
  induction t with
  | zero => simp
  | succ t ih =>
    rw [List.range_succ, List.foldl_append, ih (by omega)]
    simp only [List.foldl_cons, List.foldl_nil, List.map_append, List.map_cons, List.map_nil]
    have hlen : ((List.range t).map v).length = t := by simp
    rw [List.set_append_right _ _ (by rw [hlen]), hlen, Nat.sub_self]
    have hd : a0.drop t = a0[t]'(by omega) :: a0.drop (t + 1) := by
      rw [List.drop_eq_getElem_cons (by omega)]
    rw [hd, List.set_cons_zero, List.append_assoc, List.singleton_append]

/-! ### the regression kernel: Σ_X, Σ_XY, normal equations, mean and variance of the adjusted sample -/

/-- Σ_X: covariance matrix of the controls (the columns of the array `x`: paths × controls) with numpy's divisor n − ddof
    (`bias=True`: ddof = 0; the regression coefficients do not depend on it) -/
def sigmaX (x : List (List Rat)) (ddof : Int) : List (List Rat) := Rpylib.Py.covMatrix (Rpylib.Py.transpose x) ddof
/-- Σ_XY: covariances of the controls with the payoff sample `y` -/
def sigmaXY (x : List (List Rat)) (y : List Rat) (ddof : Int) : List Rat :=
  (Rpylib.Py.transpose x).map (fun c => Rpylib.Py.cov c y ddof)

/-- the divisor only rescales a covariance: `cov_ddof = cov_0 · n / (n − ddof)` -/
theorem pyCov_ddof (a b : List Rat) (n : Nat) (ha : a.length = n) (hb : b.length = n) (hn : 0 < n) (ddof : Int) :
    Rpylib.Py.cov a b ddof = Rpylib.Py.cov a b 0 * ((n : Rat) / (((n : Int) - ddof : Int) : Rat)) := by
  have hn' : (n : Rat) ≠ 0 := by exact_mod_cast hn.ne'
  rw [pyCov_sum a b n ha hb ddof, pyCov_sum a b n ha hb 0]
  simp only [Int.sub_zero, Int.cast_natCast]
  field_simp

theorem sub_matVec_eq (b : List Rat) (x : List (List Rat)) (y p : List Rat) (h : Rect x p.length) (hy : y.length = x.length) :
    List.zipWith (fun (x_ y_ : Rat) => x_ - y_) y
        (Rpylib.Py.matVec (x.map (fun r => List.zipWith (fun (x_ y_ : Rat) => x_ - y_) r p)) b)
      = adjusted b x y p := by
  rw [matVec_eq]; exact sub_rows_dot_eq b x y p h hy

/-- mean of the adjusted sample: `mean Y − Σ_j b_j (mean X_j − p_j)`, for every coefficient vector -/
theorem mean_adjusted (b : List Rat) (x : List (List Rat)) (y p : List Rat) (hx : x ≠ []) (hy : y.length = x.length) :
    Rpylib.Py.mean (adjusted b x y p)
      = Rpylib.Py.mean y - sumTo p.length (fun j => at1 b j * (Rpylib.Py.mean (col x j) - at1 p j)) := by
  have hn : 0 < x.length := List.length_pos_iff.mpr hx
  rw [pyMean_eq, adjusted_length, mean_congr _ _ _ (fun i hi => adjusted_at b x y p i hi), adjustK_mean _ _ hn, pyMean_eq y, hy]
  congr 1
  apply sumTo_congr; intro j _
  rw [pyMean_eq, col_length, at1_col_fun]

/-- the normal equations `Σ_X b = Σ_XY` (any divisor n − ddof ≠ 0) in the index form of the model -/
theorem normalEq_model (x : List (List Rat)) (y b : List Rat) (k : Nat) (ddof : Int) (hx : x ≠ []) (hr : Rect x k)
    (hy : y.length = x.length) (hdd : (x.length : Int) ≠ ddof) (h : Rpylib.Py.matVec (sigmaX x ddof) b = sigmaXY x y ddof) :
    ∀ j, j < k → sumTo k (fun l => covB x.length (fun i => ent x i j) (fun i => ent x i l) * at1 b l)
        = covB x.length (fun i => ent x i j) (at1 y) := by
  intro j hj
  have hn : 0 < x.length := List.length_pos_iff.mpr hx
  have hn' : (x.length : Rat) ≠ 0 := by exact_mod_cast hn.ne'
  have hd' : (((x.length : Int) - ddof : Int) : Rat) ≠ 0 := by
    have : (x.length : Int) - ddof ≠ 0 := sub_ne_zero.mpr hdd
    exact_mod_cast this
  have hT := transpose_rect x k hx hr
  have h1 := congrArg (fun v => List.getD v j 0) h
  simp only [sigmaX, sigmaXY, hT, Rpylib.Py.matVec, Rpylib.Py.covMatrix, List.getD_eq_getElem?_getD, List.getElem?_map,
    List.getElem?_range hj, Option.map_some, Option.getD_some, List.map_map, Function.comp_apply] at h1
  rw [pyCov_ddof (col x j) y x.length (col_length x j) hy hn ddof, pyCov_zero (col x j) y x.length (col_length x j) hy,
    at1_col_fun, dot_eq_sumTo_left] at h1
  simp only [List.length_map, List.length_range] at h1
  have h2 : sumTo k (fun l => at1 (List.map ((fun s => Rpylib.Py.cov (col x j) s ddof) ∘ col x) (List.range k)) l * at1 b l)
      = ((x.length : Rat) / (((x.length : Int) - ddof : Int) : Rat))
          * sumTo k (fun l => covB x.length (fun i => ent x i j) (fun i => ent x i l) * at1 b l) := by
    rw [← sumTo_mul]
    apply sumTo_congr; intro l hl
    simp only [at1, List.getD_eq_getElem?_getD, List.getElem?_map, List.getElem?_range hl, Option.map_some, Option.getD_some,
      Function.comp_apply]
    rw [pyCov_ddof (col x j) (col x l) x.length (col_length x j) (col_length x l) hn ddof,
      pyCov_zero (col x j) (col x l) x.length (col_length x j) (col_length x l), at1_col_fun, at1_col_fun]
    ring
  rw [h2] at h1
  have hf : ((x.length : Rat) / (((x.length : Int) - ddof : Int) : Rat)) ≠ 0 := div_ne_zero hn' hd'
  have h3 : ((x.length : Rat) / (((x.length : Int) - ddof : Int) : Rat))
      * (sumTo k (fun l => covB x.length (fun i => ent x i j) (fun i => ent x i l) * at1 b l)
          - covB x.length (fun i => ent x i j) (at1 y)) = 0 := by
    rw [mul_sub, h1]; ring
  rcases mul_eq_zero.mp h3 with h4 | h4
  · exact absurd h4 hf
  · linarith

/-- **variance reduction**: coefficients solving the normal equations never increase the (biased) sample variance -/
theorem var_adjusted_le (b : List Rat) (x : List (List Rat)) (y p : List Rat) (ddof : Int) (hx : x ≠ []) (hr : Rect x p.length)
    (hy : y.length = x.length) (hdd : (x.length : Int) ≠ ddof) (h : Rpylib.Py.matVec (sigmaX x ddof) b = sigmaXY x y ddof) :
    Rpylib.Py.var (adjusted b x y p) 0 ≤ Rpylib.Py.var y 0 := by
  have hn : 0 < x.length := List.length_pos_iff.mpr hx
  rw [pyVar_zero, pyVar_zero, adjusted_length, hy, varB_congr _ _ _ (fun i hi => adjusted_at b x y p i hi)]
  exact (cv_var_le_raw_normal_equations x.length p.length hn (at1 b) (at1 p) (fun j i => ent x i j) (at1 y)
    (normalEq_model x y b p.length ddof hx hr hy hdd h)).2

/-- unbiased = biased × n/(n−1): an inequality between biased variances of two samples of the same size n ≥ 2 carries over -/
theorem var_one_le_of_var_zero_le (a b : List Rat) (hl : a.length = b.length) (h2 : 2 ≤ b.length)
    (h : Rpylib.Py.var a 0 ≤ Rpylib.Py.var b 0) : Rpylib.Py.var a 1 ≤ Rpylib.Py.var b 1 := by
  rw [pyVar_one, pyVar_one, varU_eq _ (by omega), varU_eq _ (by omega), hl]
  rw [pyVar_zero, pyVar_zero, hl] at h
  have h1 : (0 : Rat) < (b.length : Rat) - 1 := by
    have : (2 : Rat) ≤ b.length := by exact_mod_cast h2
    linarith
  have h0 : (0 : Rat) ≤ (b.length : Rat) := by positivity
  exact mul_le_mul_of_nonneg_right h (div_nonneg h0 h1.le)

/-- one control: the variance of `Y − β (X − p)` as a function of β is `var Y − 2 β cov + β² var X` -/
theorem var_adjusted_one (β : Rat) (x : List (List Rat)) (y p : List Rat) (hx : x ≠ []) (hp : p.length = 1)
    (hy : y.length = x.length) :
    Rpylib.Py.var (adjusted [β] x y p) 0
      = Rpylib.Py.var y 0 - 2 * β * Rpylib.Py.cov (col x 0) y 0 + β * β * Rpylib.Py.var (col x 0) 0 := by
  have hn : 0 < x.length := List.length_pos_iff.mpr hx
  rw [pyVar_zero, pyVar_zero, pyVar_zero, adjusted_length, hy, col_length,
    pyCov_zero (col x 0) y x.length (col_length x 0) hy, at1_col_fun]
  rw [varB_congr x.length (at1 (adjusted [β] x y p)) (adjust β (at1 p 0) (fun i => ent x i 0) (at1 y)), adjust_var _ hn]
  intro i hi
  rw [adjusted_at [β] x y p i hi, hp]
  unfold adjustK adjust
  rw [sumTo_succ, sumTo_zero]; simp [at1]

/-! ### one control -/

/-- a constant sample has zero covariance with everything -/
theorem covB_eq_zero_of_varB_eq_zero (n : Nat) (hn : 0 < n) (f g : Nat → Rat) (h : varB n f = 0) : covB n f g = 0 := by
  have hn' : (n : Rat) ≠ 0 := by exact_mod_cast hn.ne'
  unfold varB at h
  simp only [covB_def] at h ⊢
  have hs : sumTo n (fun i => (f i - mean n f) * (f i - mean n f)) = 0 := by
    rcases div_eq_zero_iff.mp h with h1 | h1
    · exact h1
    · exact absurd h1 hn'
  have hz : ∀ i, i < n → f i - mean n f = 0 := by
    intro i hi
    have := sumTo_eq_zero_of_nonneg n _ (fun i => mul_self_nonneg (f i - mean n f)) hs i hi
    exact mul_self_eq_zero.mp this
  rw [sumTo_congr n _ (fun _ => 0) (fun i hi => by rw [hz i hi]; ring), sumTo_const]; simp

theorem pyCov_eq_zero_of_pyVar_eq_zero (a b : List Rat) (ha : a ≠ []) (hb : b.length = a.length)
    (h : Rpylib.Py.var a 0 = 0) : Rpylib.Py.cov a b 0 = 0 := by
  rw [pyVar_zero] at h
  rw [pyCov_zero a b a.length rfl hb]
  exact covB_eq_zero_of_varB_eq_zero _ (List.length_pos_iff.mpr ha) _ _ h

theorem pyVar_zero_nonneg (a : List Rat) : 0 ≤ Rpylib.Py.var a 0 := by rw [pyVar_zero]; exact varB_nonneg _ _

theorem sigmaX_one (x : List (List Rat)) (ddof : Int) (hx : x ≠ []) (hr : Rect x 1) :
    sigmaX x ddof = [[Rpylib.Py.var (col x 0) ddof]] := by
  unfold sigmaX
  rw [transpose_rect x 1 hx hr]
  simp [Rpylib.Py.covMatrix, Rpylib.Py.var]

theorem sigmaXY_one (x : List (List Rat)) (y : List Rat) (ddof : Int) (hx : x ≠ []) (hr : Rect x 1) :
    sigmaXY x y ddof = [Rpylib.Py.cov (col x 0) y ddof] := by
  unfold sigmaXY
  rw [transpose_rect x 1 hx hr]
  simp

/-- one control: `(1 / var_ddof) · cov_ddof` satisfies the first-order condition `b · var = cov` whatever the divisor n − ddof ≠ 0 -/
theorem foc_one (a y : List Rat) (ddof : Int) (ha : a ≠ []) (hy : y.length = a.length) (hdd : (a.length : Int) ≠ ddof) :
    (1 / Rpylib.Py.var a ddof * Rpylib.Py.cov a y ddof) * Rpylib.Py.var a 0 = Rpylib.Py.cov a y 0 := by
  have hn : 0 < a.length := List.length_pos_iff.mpr ha
  have hn' : (a.length : Rat) ≠ 0 := by exact_mod_cast hn.ne'
  have hd' : (((a.length : Int) - ddof : Int) : Rat) ≠ 0 := by
    have : (a.length : Int) - ddof ≠ 0 := sub_ne_zero.mpr hdd
    exact_mod_cast this
  have hv : Rpylib.Py.var a ddof = Rpylib.Py.var a 0 * ((a.length : Rat) / (((a.length : Int) - ddof : Int) : Rat)) := by
    unfold Rpylib.Py.var; exact pyCov_ddof a a a.length rfl rfl hn ddof
  rw [hv, pyCov_ddof a y a.length rfl hy hn ddof]
  by_cases h0 : Rpylib.Py.var a 0 = 0
  · rw [pyCov_eq_zero_of_pyVar_eq_zero a y ha hy h0, h0]; ring
  · field_simp

theorem adjusted_congr (b b' : List Rat) (x : List (List Rat)) (y p : List Rat) (h : ∀ j, at1 b j = at1 b' j) :
    adjusted b x y p = adjusted b' x y p := by
  have : at1 b = at1 b' := funext h
  unfold adjusted; rw [this]

/-! ### 3-d arrays (paths × controls × components) and the column-store loop of `compute_coefficients` -/

def RectG {α : Type} (m : List (List α)) (d : Nat) : Prop := ∀ r ∈ m, r.length = d

theorem foldl_min_rectG {α : Type} (rest : List (List α)) (d : Nat) (h : ∀ r ∈ rest, r.length = d) :
    (rest.map List.length).foldl min d = d := by
  induction rest with
  | nil => rfl
  | cons r t ih =>
    simp only [List.map_cons, List.foldl_cons]
    rw [h r (by simp), Nat.min_self]
    exact ih (fun r hr => h r (by simp [hr]))

theorem transposeG_rect {α : Type} [Inhabited α] (m : List (List α)) (d : Nat) (hm : m ≠ []) (h : RectG m d) :
    Rpylib.Py.transpose m = (List.range d).map (fun c => m.map (fun r => r.getD c default)) := by
  cases m with
  | nil => exact absurd rfl hm
  | cons r t =>
    show (List.range ((t.map List.length).foldl min r.length)).map
        (fun i => (r :: t).map (fun ys => ys.getD i default)) = _
    rw [h r (by simp), foldl_min_rectG t d (fun r' hr' => h r' (by simp [hr']))]

/-- `X[:, :, c]`: the (paths × controls) array of payoff component `c` -/
def slab (X : List (List (List Rat))) (c : Nat) : List (List Rat) := X.map (fun Xi => col Xi c)

theorem slab_length (X : List (List (List Rat))) (c : Nat) : (slab X c).length = X.length := by simp [slab]

theorem slab_rect (X : List (List (List Rat))) (k c : Nat) (h : ∀ Xi ∈ X, Xi.length = k) : Rect (slab X c) k := by
  intro r hr
  simp only [slab, List.mem_map] at hr
  obtain ⟨Xi, hXi, rfl⟩ := hr
  rw [col_length, h Xi hXi]

/-- `X.T` of a 3-d array (all axes reversed): item `c` is the transpose of `X[:, :, c]` -/
theorem transpose3 (X : List (List (List Rat))) (d : Nat) (hX : X ≠ []) (hXs : ∀ Xi ∈ X, Xi ≠ [] ∧ Rect Xi d) :
    List.map (fun (m : List (List Rat)) => Rpylib.Py.transpose m)
        (Rpylib.Py.transpose (List.map (fun (m : List (List Rat)) => Rpylib.Py.transpose m) X))
      = (List.range d).map (fun c => Rpylib.Py.transpose (slab X c)) := by
  have h1 : List.map (fun (m : List (List Rat)) => Rpylib.Py.transpose m) X = X.map (fun Xi => (List.range d).map (col Xi)) := by
    apply List.map_congr_left; intro Xi hXi
    exact transpose_rect Xi d (hXs Xi hXi).1 (hXs Xi hXi).2
  have hR : RectG (X.map (fun Xi => (List.range d).map (col Xi))) d := by
    intro r hr
    simp only [List.mem_map] at hr
    obtain ⟨Xi, _, rfl⟩ := hr
    simp
  rw [h1, transposeG_rect _ d (by simpa using hX) hR, List.map_map]
  apply List.map_congr_left; intro c hc
  have hc' : c < d := List.mem_range.mp hc
  simp only [Function.comp_apply, slab, List.map_map]
  congr 1
  apply List.map_congr_left; intro Xi _
  simp [List.getD_eq_getElem?_getD, List.getElem?_map, List.getElem?_range hc']

theorem pyRange_zero (n : Nat) : Rpylib.Py.range 0 (n : Int) = (List.range n).map (fun (k : Nat) => (k : Int)) := by
  unfold Rpylib.Py.range
  simp

theorem enumerate_map_range {α : Type} (f : Nat → α) (d : Nat) :
    Rpylib.Py.enumerate ((List.range d).map f) = (List.range d).map (fun (c : Nat) => ((c : Int), f c)) := by
  unfold Rpylib.Py.enumerate
  rw [List.length_map, List.length_range, pyRange_zero, List.zip_map']

theorem foldl_range_congr {σ : Type} (G G' : σ → Nat → σ) (t : Nat) (m : σ) (h : ∀ acc c, c < t → G acc c = G' acc c) :
    (List.range t).foldl G m = (List.range t).foldl G' m := by
  induction t with
  | zero => rfl
  | succ t ih =>
    rw [List.range_succ, List.foldl_append, List.foldl_append, ih (fun acc c hc => h acc c (by omega))]
    simp only [List.foldl_cons, List.foldl_nil]
    exact h _ t (by omega)

/-- a rectangular array is the table of its entries -/
theorem mat_eq_table (m : List (List Rat)) (d : Nat) (hr : Rect m d) :
    m = (List.range m.length).map (fun i => (List.range d).map (fun c => ent m i c)) := by
  apply mat_ext _ _ d (by simp) hr
  · intro r hr'
    simp only [List.mem_map, List.mem_range] at hr'
    obtain ⟨i, _, rfl⟩ := hr'
    simp
  · intro i j hi hj
    simp [ent, List.getD_eq_getElem?_getD, List.getElem?_map, List.getElem?_range hi, List.getElem?_range hj]

/-- `m[:, t] = v` on a table -/
theorem setCol_table (g : Nat → Nat → Rat) (n d t : Nat) (ht : t < d) (v : List Rat) (hv : v.length = n) :
    Rpylib.Py.setCol ((List.range n).map (fun i => (List.range d).map (fun c => g i c))) (t : Int) v
      = (List.range n).map (fun i => (List.range d).map (fun c => if c = t then at1 v i else g i c)) := by
  unfold Rpylib.Py.setCol
  apply List.ext_getElem
  · simp [hv]
  · intro i h1 h2
    have hi : i < n := by simpa using h2
    simp only [List.getElem_zipWith, List.getElem_map, List.getElem_range, setAt_nat]
    apply List.ext_getElem
    · simp
    · intro j h3 h4
      have hj : j < d := by simpa using h4
      have hiv : i < v.length := by omega
      simp only [List.getElem_set, List.getElem_map, List.getElem_range]
      by_cases hjt : j = t
      · subst hjt; simp [at1, List.getD_eq_getElem?_getD, List.getElem?_eq_getElem hiv]
      · have : ¬ t = j := fun h => hjt h.symm
        simp [hjt, this]

/-- **the column-store loop**: storing `w c` into column `c` for c = 0 .. d-1 of an array of shape n × d yields the table of
    the `w c`, whatever the array contained -/
theorem foldl_setCol_range (w : Nat → List Rat) (m : List (List Rat)) (d : Nat) (hr : Rect m d)
    (hw : ∀ c, c < d → (w c).length = m.length) :
    (List.range d).foldl (fun acc (c : Nat) => Rpylib.Py.setCol acc (c : Int) (w c)) m
      = (List.range m.length).map (fun i => (List.range d).map (fun c => at1 (w c) i)) := by
  have key : ∀ t, t ≤ d → (List.range t).foldl (fun acc (c : Nat) => Rpylib.Py.setCol acc (c : Int) (w c)) m
      = (List.range m.length).map (fun i => (List.range d).map (fun c => if c < t then at1 (w c) i else ent m i c)) := by
    intro t
    induction t with
    | zero => intro _; simpa using mat_eq_table m d hr
    | succ t ih =>
      intro ht
      rw [List.range_succ, List.foldl_append, ih (by omega)]
      simp only [List.foldl_cons, List.foldl_nil]
      rw [setCol_table _ m.length d t (by omega) (w t) (hw t (by omega))]
      apply List.map_congr_left; intro i _
      apply List.map_congr_left; intro c _
      by_cases hct : c = t
      · subst hct; simp
      · by_cases hlt : c < t
        · have : c < t + 1 := by omega
          simp [hct, hlt, this]
        · have : ¬ c < t + 1 := by omega
          simp [hct, hlt, this]
  rw [key d (Nat.le_refl d)]
  apply List.map_congr_left; intro i _
  apply List.map_congr_left; intro c hc
  simp [List.mem_range.mp hc]

theorem emptyLike2_length (site : Int) (m : List (List Rat)) : (Rpylib.Py.emptyLike2 site m).length = m.length := by
  simp [Rpylib.Py.emptyLike2, Rpylib.Py.enumerate, Rpylib.Py.range]

theorem emptyLike2_rect (site : Int) (m : List (List Rat)) (d : Nat) (h : Rect m d) : Rect (Rpylib.Py.emptyLike2 site m) d := by
  intro r hr
  simp only [Rpylib.Py.emptyLike2, List.mem_map] at hr
  obtain ⟨p, hp, rfl⟩ := hr
  have hp2 : p.2 ∈ m := by
    unfold Rpylib.Py.enumerate at hp
    exact (List.of_mem_zip hp).2
  simp [Rpylib.Py.enumerate, Rpylib.Py.range, h p.2 hp2]

theorem idx_nat (l : List Rat) (c : Nat) : Rpylib.Py.idx l (c : Int) = l.getD c 0 := by
  have h1 : ¬ ((c : Int) < 0) := by omega
  simp only [Rpylib.Py.idx, h1, if_false, Int.toNat_natCast]
  rfl

/-- column c of a table -/
theorem col_table (g : Nat → Nat → Rat) (n d c : Nat) (hc : c < d) :
    col ((List.range n).map (fun i => (List.range d).map (fun c => g i c))) c = (List.range n).map (fun i => g i c) := by
  unfold col
  rw [List.map_map]
  apply List.map_congr_left; intro i _
  simp [List.getD_eq_getElem?_getD, List.getElem?_map, List.getElem?_range hc]

theorem list_eq_map_at1 (l : List Rat) : l = (List.range l.length).map (at1 l) := by
  apply List.ext_getElem (by simp)
  intro i h1 h2
  simp [at1, List.getD_eq_getElem?_getD, List.getElem?_eq_getElem h1]

end Rpylib.SrcTie.C07
