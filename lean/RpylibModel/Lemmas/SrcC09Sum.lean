/-
C09, second source-derived tie — lemmas that do not depend on the generated file: Python's `factorial`, sums over
`range(n + 1)` in the shapes a translated `_helper_sum_fact_xk` can take (numpy vectors: `zipWith` of two `map`s over
`np.arange`; a generator expression: `map` over `range`; an accumulating `for` loop: `foldl`), and the model's polynomial
`expPartial n y = Σ_{k ≤ n} y^k / k!` (Model/Integrals.lean).
-/
import RpylibModel.Basic.PyPrelude
import RpylibModel.Model.Integrals
import Mathlib.Tactic.Ring
import Mathlib.Tactic.Linarith
import Mathlib.Tactic.FieldSimp
import Mathlib.Tactic.Positivity
import Mathlib.Algebra.Order.Field.Rat

namespace Rpylib.SrcTie.C09b
open Rpylib Rpylib.Integrals

/-! ### factorial -/

theorem factNat_eq_fact (n : ℕ) : Rpylib.Py.factNat n = fact n := by
  induction n with
  | zero => rfl
  | succ n ih => simp only [Rpylib.Py.factNat, fact, ih]

/-- `math.factorial(n)` on the naturals is the model's `fact` -/
theorem factorial_natCast (n : ℕ) : Rpylib.Py.factorial (n : ℤ) = (fact n : ℤ) := by
  have h : ¬ ((n : ℤ) < 0) := by omega
  simp only [Rpylib.Py.factorial, h, if_false, Int.toNat_natCast, factNat_eq_fact]

theorem factorial_natCast_succ (n : ℕ) : Rpylib.Py.factorial ((n : ℤ) + 1) = (fact (n + 1) : ℤ) := by
  have := factorial_natCast (n + 1)
  simpa using this

theorem fact_pos (n : ℕ) : 0 < fact n := by
  induction n with
  | zero => decide
  | succ n ih => simp only [fact]; positivity

theorem fact_ne_zero_rat (n : ℕ) : (fact n : ℚ) ≠ 0 := by
  have := fact_pos n
  positivity

theorem fact_succ_rat (n : ℕ) : (fact (n + 1) : ℚ) = ((n : ℚ) + 1) * (fact n : ℚ) := by
  simp only [fact]; push_cast; ring

/-! ### `range(0, n + 1)` -/

theorem pyRange_zero_succ (n : ℕ) :
    Rpylib.Py.range 0 ((n : ℤ) + 1) = (List.range (n + 1)).map (fun k : ℕ => (k : ℤ)) := by
  have h : ((n : ℤ) + 1 - 0).toNat = n + 1 := by omega
  simp only [Rpylib.Py.range, h, zero_add]

/-- sum of `f` over `range(n + 1)`, one step -/
theorem sum_map_pyRange_succ (f : ℤ → ℚ) (n : ℕ) :
    ((Rpylib.Py.range 0 ((n : ℤ) + 1 + 1)).map f).sum = ((Rpylib.Py.range 0 ((n : ℤ) + 1)).map f).sum + f ((n : ℤ) + 1) := by
  have h1 : ((n : ℤ) + 1 + 1) = (((n + 1 : ℕ) : ℤ) + 1) := by push_cast; ring
  rw [h1, pyRange_zero_succ, pyRange_zero_succ, List.range_succ (n := n + 1)]
  simp only [List.map_append, List.map_cons, List.map_nil, List.sum_append, List.sum_cons, List.sum_nil, add_zero]
  push_cast; rfl

theorem sum_map_pyRange_one (f : ℤ → ℚ) : ((Rpylib.Py.range 0 ((0 : ℤ) + 1)).map f).sum = f 0 := by
  have := pyRange_zero_succ 0
  simp only [Nat.cast_zero] at this
  rw [this]; simp

theorem mem_pyRange_zero_succ {n : ℕ} {k : ℤ} (h : k ∈ Rpylib.Py.range 0 ((n : ℤ) + 1)) : ∃ j : ℕ, j ≤ n ∧ k = (j : ℤ) := by
  rw [pyRange_zero_succ] at h
  obtain ⟨j, hj, rfl⟩ := List.mem_map.mp h
  exact ⟨j, Nat.lt_succ_iff.mp (List.mem_range.mp hj), rfl⟩

/-- the sum of `f` over `range(n + 1)` is the model's partial exponential series as soon as `f k = y^k / k!` for `k ≤ n` -/
theorem sum_map_pyRange_eq_expPartial (f : ℤ → ℚ) (y : ℚ) (n : ℕ)
    (hf : ∀ k : ℕ, k ≤ n → f (k : ℤ) = y ^ k / (fact k : ℚ)) :
    ((Rpylib.Py.range 0 ((n : ℤ) + 1)).map f).sum = expPartial n y := by
  induction n with
  | zero =>
    have := sum_map_pyRange_one f
    simp only [Nat.cast_zero] at this ⊢
    have h0 := hf 0 le_rfl
    simp only [Nat.cast_zero] at h0
    rw [this, h0]; simp [expPartial, fact]
  | succ n ih =>
    have h1 : (((n + 1 : ℕ) : ℤ) + 1) = ((n : ℤ) + 1 + 1) := by push_cast; ring
    rw [h1, sum_map_pyRange_succ, ih (fun k hk => hf k (Nat.le_succ_of_le hk))]
    have := hf (n + 1) le_rfl
    push_cast at this
    rw [this]; simp only [expPartial]

/-! ### shapes of the loop -/

/-- numpy: element-wise combination of two arrays computed from the same `np.arange` -/
theorem zipWith_map_map_same {α β γ δ : Type} (g : β → γ → δ) (f1 : α → β) (f2 : α → γ) (l : List α) :
    List.zipWith g (l.map f1) (l.map f2) = l.map (fun k => g (f1 k) (f2 k)) := by
  induction l with
  | nil => rfl
  | cons x t ih => simp only [List.map_cons, List.zipWith_cons_cons, ih]

/-- an accumulating loop `res = r0; for k in ..: res += f(k)` -/
theorem foldl_add_eq_sum {α : Type} (f : α → ℚ) (r0 : ℚ) (l : List α) :
    List.foldl (fun (st : ℚ) (k : α) => st + f k) r0 l = r0 + (l.map f).sum := by
  induction l generalizing r0 with
  | nil => simp
  | cons x t ih => simp only [List.foldl_cons, List.map_cons, List.sum_cons, ih]; ring

/-- two sums over the same list are equal when the summands are -/
theorem sum_map_congr_mem {α : Type} (l : List α) (f g : α → ℚ) (h : ∀ k ∈ l, f k = g k) : (l.map f).sum = (l.map g).sum := by
  induction l with
  | nil => rfl
  | cons x t ih =>
    simp only [List.map_cons, List.sum_cons]
    rw [h x (List.mem_cons_self ..), ih (fun k hk => h k (List.mem_cons_of_mem _ hk))]

theorem sum_map_mul_left {α : Type} (l : List α) (c : ℚ) (f : α → ℚ) : (l.map (fun k => c * f k)).sum = c * (l.map f).sum := by
  induction l with
  | nil => simp
  | cons x t ih => simp only [List.map_cons, List.sum_cons, ih]; ring

/-! ### the model's polynomial -/

theorem rabs_nonneg (x : ℚ) : 0 ≤ Integrals.rabs x := by
  unfold Integrals.rabs; split_ifs with h <;> linarith

theorem pyRabs_eq (x : ℚ) : Rpylib.Py.rabs x = Integrals.rabs x := rfl

theorem rabs_neg (x : ℚ) : Integrals.rabs (-x) = Integrals.rabs x := by
  unfold Integrals.rabs
  split_ifs <;> first | rfl | linarith

theorem rabs_of_nonneg {x : ℚ} (h : 0 ≤ x) : Integrals.rabs x = x := by
  unfold Integrals.rabs; split_ifs with h' <;> first | rfl | linarith

theorem rabs_of_nonpos {x : ℚ} (h : x ≤ 0) : Integrals.rabs x = -x := by
  unfold Integrals.rabs; split_ifs with h' <;> first | rfl | (have : x = 0 := by linarith); subst this; simp

theorem rabs_mul_of_pos (u : ℚ) {a : ℚ} (ha : 0 < a) : Integrals.rabs (u * a) = Integrals.rabs u * a := by
  unfold Integrals.rabs
  by_cases hu : u < 0
  · have : u * a < 0 := mul_neg_of_neg_of_pos hu ha
    simp only [hu, this, if_true]; ring
  · have : ¬ u * a < 0 := not_lt.mpr (mul_nonneg (not_lt.mp hu) ha.le)
    simp only [hu, this, if_false]

theorem expPartial_nonneg (n : ℕ) {y : ℚ} (hy : 0 ≤ y) : 1 ≤ expPartial n y := by
  induction n with
  | zero => simp [expPartial]
  | succ n ih =>
    simp only [expPartial]
    have : 0 ≤ y ^ (n + 1) / (fact (n + 1) : ℚ) := by
      have := fact_pos (n + 1); positivity
    linarith

/-- `n! Σ_{k ≤ n} y^k/k!`, one step: `H_{n+1}(y) = (n + 1) H_n(y) + y^{n+1}` -/
theorem helperSum_succ (n : ℕ) (x : ℚ) :
    helperSum (n + 1) x = ((n : ℚ) + 1) * helperSum n x + Integrals.rabs x ^ (n + 1) := by
  simp only [helperSum, expPartial, fact_succ_rat]
  have h := fact_ne_zero_rat n
  field_simp

theorem helperSum_zero (x : ℚ) : helperSum 0 x = 1 := by simp [helperSum, expPartial, fact]

theorem helperSum_pos (n : ℕ) (x : ℚ) : 1 ≤ helperSum n x := by
  simp only [helperSum]
  have h1 := expPartial_nonneg n (rabs_nonneg x)
  have h2 : (1 : ℚ) ≤ (fact n : ℚ) := by exact_mod_cast fact_pos n
  nlinarith

/-! ### value of a list of terms under an arbitrary interpretation of the special function (the same definition as in the
first tie, ProofsGen/SrcC09.lean; repeated here so that the second tie does not depend on the first one's obligations) -/

/-- `Σ c · f e` over the terms `(c, e)` -/
def evalTermsWith (f : ℚ → ℚ) : Terms → ℚ
  | [] => 0
  | t :: ts => t.1 * f t.2 + evalTermsWith f ts

@[simp] theorem evalTermsWith_nil (f : ℚ → ℚ) : evalTermsWith f [] = 0 := rfl

@[simp] theorem evalTermsWith_cons (f : ℚ → ℚ) (t : ℚ × ℚ) (ts : Terms) :
    evalTermsWith f (t :: ts) = t.1 * f t.2 + evalTermsWith f ts := rfl

@[simp] theorem evalTermsWith_append (f : ℚ → ℚ) (s t : Terms) :
    evalTermsWith f (s ++ t) = evalTermsWith f s + evalTermsWith f t := by
  induction s with
  | nil => simp
  | cons h s ih => simp only [List.cons_append, evalTermsWith_cons, ih]; ring

theorem evalTermsWith_scale (f : ℚ → ℚ) (k : ℚ) (t : Terms) : evalTermsWith f (scaleTerms k t) = k * evalTermsWith f t := by
  induction t with
  | nil => simp [scaleTerms]
  | cons h s ih =>
    simp only [scaleTerms, List.map_cons, evalTermsWith_cons] at ih ⊢
    rw [ih]; ring

end Rpylib.SrcTie.C09b
