/-
C14, second source-derived tie — the divisor summatory function of the hand-written model (`aN`, `sumDiv`,
Model/PairingHyperbolic.lean, over `Nat` with a truncated subtraction) read in `Int`, and the sum over a Python `range`.
Statements about the model and the Python prelude only (no generated definition is mentioned).
-/
import RpylibModel.Proofs.Lemmas.C14Hyperbola
import RpylibModel.Lemmas.SrcC14Lists

namespace Rpylib.SrcTie.C14b
open Rpylib.Pairing Rpylib.Py

theorem pyRange_succ (a : Int) (m : Nat) : range a (a + (m : Int) + 1) = range a (a + (m : Int)) ++ [a + (m : Int)] := by
  have e1 : (a + (m : Int) + 1 - a).toNat = m + 1 := by omega
  have e2 : (a + (m : Int) - a).toNat = m := by omega
  simp only [range, e1, e2, List.range_succ, List.map_append, List.map_cons, List.map_nil]

theorem sum_fdiv_range' (n : Nat) (F : Int → Int) (hF : ∀ k : Int, F k = Int.fdiv (n : Int) k) :
    ∀ m : Nat, List.sum ((range 1 (1 + (m : Int))).map F) = ((sumDiv n m : Nat) : Int) := by
  intro m
  induction m with
  | zero => simp [range, sumDiv]
  | succ m ih =>
    have e : (1 : Int) + ((m + 1 : Nat) : Int) = 1 + (m : Int) + 1 := by push_cast; ring
    have e2 : (1 : Int) + (m : Int) = ((m + 1 : Nat) : Int) := by push_cast; ring
    rw [e, pyRange_succ, List.map_append, List.sum_append, ih, List.map_cons, List.map_nil, List.sum_cons, List.sum_nil,
      hF, e2, Int.fdiv_eq_ediv_of_nonneg _ (Int.natCast_nonneg _), add_zero, sumDiv]
    push_cast
    rfl

/-- `sum(n // k for k in range(1, m + 1))` is the model's `sumDiv n m` (any spelling `F` of the summand) -/
theorem sum_fdiv_range (n : Nat) (F : Int → Int) (hF : ∀ k : Int, F k = Int.fdiv (n : Int) k) (m : Nat) :
    List.sum ((range 1 ((m : Int) + 1)).map F) = ((sumDiv n m : Nat) : Int) := by
  rw [add_comm]; exact sum_fdiv_range' n F hF m

/-- the truncated subtraction of `aN` is exact (Dirichlet's hyperbola identity): `a_n` as coded, in `Int` -/
theorem aN_cast (n : Nat) :
    ((aN n : Nat) : Int) = 2 * ((sumDiv n (Nat.sqrt n) : Nat) : Int) - ((Nat.sqrt n : Nat) : Int) ^ 2 := by
  have h := hyperbola n
  rw [← sumDiv_eq_sum n (Nat.sqrt n)] at h
  unfold aN
  have hle : Nat.sqrt n ^ 2 ≤ 2 * sumDiv n (Nat.sqrt n) := by omega
  rw [Nat.cast_sub hle]
  push_cast
  rfl

end Rpylib.SrcTie.C14b
