/-
C14, second source-derived tie — the Rosenberg–Strong recursion of the hand-written model (`rsPairR`, `rsProjR`,
Model/Pairing.lean, over `Nat` with truncated subtraction) read in `Int`: every truncated subtraction of the model is exact, so
the model's step is the integer expression the Python code evaluates.  Statements about the model only (no generated
definition is mentioned).
-/
import RpylibModel.Proofs.Lemmas.C14RS
import RpylibModel.Lemmas.SrcC14Lists

namespace Rpylib.SrcTie.C14b
open Rpylib.Pairing Rpylib.Py

theorem maxL_snoc (l : List Nat) (a : Nat) : maxL (l ++ [a]) = max (maxL l) a := by
  induction l with
  | nil => simp [maxL]
  | cons x t ih => simp only [List.cons_append, maxL, ih]; omega

theorem maxL_reverse (l : List Nat) : maxL l.reverse = maxL l := by
  induction l with
  | nil => rfl
  | cons x t ih => rw [List.reverse_cons, maxL_snoc, ih, maxL]; omega

/-- `max(x)` of the code (on the tuple read in `Int`) is the model's `maxL` -/
theorem lmax_cast : ∀ l : List Nat, lmax (l.map (fun (n : Nat) => (n : Int))) = ((maxL l : Nat) : Int)
  | [] => rfl
  | [x] => by simp [lmax, maxL]
  | x :: y :: t => by
    have ih := lmax_cast (y :: t)
    simp only [List.map_cons] at ih ⊢
    simp only [lmax, ih, maxL]
    push_cast
    rfl

/-- one step of `RosenbergStrong.pairing` in `Int`: `y + m^d + (m - x[-1]) * ((m+1)^(d-1) - m^(d-1))` -/
theorem rsPairR_cons_cast (xd : Nat) (l : List Nat) (hl : l ≠ []) :
    ((rsPairR (xd :: l) : Nat) : Int)
      = ((rsPairR l : Nat) : Int) + ((maxL (xd :: l) : Nat) : Int) ^ (l.length + 1)
        + (((maxL (xd :: l) : Nat) : Int) - (xd : Int))
          * ((((maxL (xd :: l) : Nat) : Int) + 1) ^ l.length - ((maxL (xd :: l) : Nat) : Int) ^ l.length) := by
  rw [rsPairR_cons xd l hl]
  have h1 : xd ≤ maxL (xd :: l) := by rw [maxL_cons]; omega
  have h2 : maxL (xd :: l) ^ l.length ≤ (maxL (xd :: l) + 1) ^ l.length := Nat.pow_le_pow_left (by omega) _
  generalize maxL (xd :: l) = m at *
  push_cast [Nat.cast_sub h1, Nat.cast_sub h2]
  ring

/-- one step of `RosenbergStrong.projection` in `Int` (`A = m^(d-1)`, `B = (m+1)^(d-1)`, `m` the d-th root of `z`): the last
coordinate `m - max(0, z - m*A - A) // (B - A)` and the index handed to the recursive call -/
theorem rs_core_cast (m A B z : Nat) (hAB : A < B) (h1 : m * A ≤ z) (h2 : z < (m + 1) * B) :
    (((m - (z - m * A - A) / (B - A) : Nat)) : Int)
        = (m : Int) - Int.fdiv (imax 0 ((z : Int) - m * A - A)) ((B : Int) - A)
    ∧ ((z - m * A - (m - (m - (z - m * A - A) / (B - A))) * (B - A) : Nat) : Int)
        = (z : Int) - m * A
          - ((m : Int) - ((m : Int) - Int.fdiv (imax 0 ((z : Int) - m * A - A)) ((B : Int) - A))) * ((B : Int) - A) := by
  obtain ⟨hq, hsum, _, _⟩ := rs_core_proj m A B z hAB h1 h2
  have hdiv : Int.fdiv (imax 0 ((z : Int) - m * A - A)) ((B : Int) - A) = (((z - m * A - A) / (B - A) : Nat) : Int) := by
    have e1 : imax 0 ((z : Int) - m * A - A) = ((z - m * A - A : Nat) : Int) := by
      rw [imax_eq_max]
      have : ((m * A : Nat) : Int) = (m : Int) * A := by push_cast; rfl
      rw [← this]
      generalize m * A = mA at *
      omega
    have e2 : (B : Int) - A = ((B - A : Nat) : Int) := by omega
    rw [e1, e2, Int.fdiv_eq_ediv_of_nonneg _ (Int.natCast_nonneg _)]
    rfl
  rw [hdiv]
  generalize (z - m * A - A) / (B - A) = q at *
  have hle : q * (B - A) ≤ z - m * A := by
    by_contra hc
    generalize q * (B - A) = t at *
    generalize m * A = mA at *
    omega
  constructor
  · omega
  · rw [Nat.sub_sub_self hq]
    have e3 : ((z - m * A - q * (B - A) : Nat) : Int) = (z : Int) - (m : Int) * A - (q : Int) * ((B : Int) - A) := by
      have a1 : ((m * A : Nat) : Int) = (m : Int) * A := by push_cast; rfl
      have a2 : ((q * (B - A) : Nat) : Int) = (q : Int) * ((B : Int) - A) := by
        rw [Nat.cast_mul, Nat.cast_sub (Nat.le_of_lt hAB)]
      rw [← a1, ← a2]
      generalize q * (B - A) = t at *
      generalize m * A = mA at *
      omega
    rw [e3]
    ring

end Rpylib.SrcTie.C14b
