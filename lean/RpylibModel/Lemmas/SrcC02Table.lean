/-
Source-derived tie for C02, table method: the two loops of `create_table` (table.py) as list programs and their relation
with the slot layout `Table.slotsOf` / residuals `Table.theta` of the hand-written model.  Nothing here mentions the
generated definitions: the loop bodies enter through hypotheses that the obligations file discharges by normalisation.
-/
import RpylibModel.Lemmas.SrcC02Basic
import RpylibModel.Lemmas.SrcC02Alias
import RpylibModel.Proofs.Lemmas.C02Table

namespace Rpylib.SrcTie.C02
open Rpylib.Py Rpylib.Table

theorem enumerate_concat (l : List Rat) (a : Rat) : enumerate (l ++ [a]) = enumerate l ++ [((l.length : Int), a)] := by
  unfold enumerate
  rw [List.length_append, List.length_singleton]
  have : range 0 ((l.length + 1 : Nat) : Int) = range 0 (l.length : Int) ++ [(l.length : Int)] := by
    rw [range_zero_nat, range_zero_nat, List.range_succ, List.map_append]; rfl
  rw [this, List.zip_append (by rw [range_zero_nat]; simp)]
  rfl

/-- `k = int(256 p)`, `theta = 256 p − k` for `p ≥ 0` -/
theorem floor_eq_mOf (pf : Nat → Rat) (i : Nat) (h : 0 ≤ pf i) : ((256 : Rat) * pf i).floor = (mOf pf i : Int) := by
  unfold mOf
  exact (Int.toNat_of_nonneg (Rat.le_floor_iff.mpr (by push_cast; linarith))).symm

/-- the first loop: `ks[i] = int(256 p_i)`, `thetas[i] = 256 p_i − ks[i]` -/
theorem residuals_core (p : List Rat) (hp : ∀ x ∈ p, 0 ≤ x)
    {F : List Int × List Rat → Int × Rat → List Int × List Rat}
    (hF : ∀ ks th (i : Nat) (x : Rat), 0 ≤ x →
      F (ks, th) ((i : Int), x) = (ks.set i ((256 : Rat) * x).floor, th.set i ((256 : Rat) * x - (((256 : Rat) * x).floor : Int))))
    {ks0 : List Int} {th0 : List Rat} (hk0 : ks0.length = p.length) (ht0 : th0.length = p.length)
    {res : List Int × List Rat} (hf : List.foldl F (ks0, th0) (enumerate p) = res) :
    res.1.length = p.length ∧ res.2.length = p.length ∧
      ∀ i, i < p.length → res.1.getD i 0 = (mOf (qfun p) i : Int) ∧ res.2.getD i 0 = theta (qfun p) i := by
  subst hf
  have key : ∀ l : List Rat, (∃ rest, p = l ++ rest) →
      (List.foldl F (ks0, th0) (enumerate l)).1.length = p.length ∧ (List.foldl F (ks0, th0) (enumerate l)).2.length = p.length ∧
      ∀ i, i < l.length → (List.foldl F (ks0, th0) (enumerate l)).1.getD i 0 = (mOf (qfun p) i : Int) ∧
        (List.foldl F (ks0, th0) (enumerate l)).2.getD i 0 = theta (qfun p) i := by
    intro l
    induction l using List.reverseRecOn with
    | nil => intro _; exact ⟨hk0, ht0, fun i hi => absurd hi (Nat.not_lt_zero _)⟩
    | append_singleton l a ih =>
      rintro ⟨rest, hrest⟩
      obtain ⟨a1, a2, a3⟩ := ih ⟨a :: rest, by rw [hrest]; simp⟩
      rw [enumerate_concat, List.foldl_append]
      generalize List.foldl F (ks0, th0) (enumerate l) = st at a1 a2 a3
      obtain ⟨ks, th⟩ := st
      simp only at a1 a2 a3
      have ha : a = qfun p l.length := by
        simp [qfun, hrest, List.getD_eq_getElem?_getD]
      have ha0 : 0 ≤ a := hp a (by rw [hrest]; simp)
      have hlt : l.length < p.length := by rw [hrest]; simp
      simp only [List.foldl_cons, List.foldl_nil, hF ks th l.length a ha0, List.length_set, List.length_append,
        List.length_singleton]
      refine ⟨a1, a2, ?_⟩
      intro i hi
      by_cases hil : i = l.length
      · subst hil
        simp only [List.getD_eq_getElem?_getD, List.getElem?_set_self (by omega : l.length < ks.length),
          List.getElem?_set_self (by omega : l.length < th.length), Option.getD_some]
        rw [ha]
        refine ⟨floor_eq_mOf (qfun p) l.length (by rw [← ha]; exact ha0), ?_⟩
        rw [theta_eq, floor_eq_mOf (qfun p) l.length (by rw [← ha]; exact ha0)]
        push_cast; ring
      · have := a3 i (by omega)
        simp only [List.getD_eq_getElem?_getD, List.getElem?_set_ne (Ne.symm hil)] at this ⊢
        exact this
  exact key p ⟨[], by simp⟩

theorem flatten_replicate_singleton (m : Nat) (a : Int) : List.flatten (List.replicate m [a]) = List.replicate m a := by
  induction m with
  | zero => rfl
  | succ m ih => simp [List.replicate_succ, ih]

/-- the second loop: `k_i` copies of `i`, for `i = 0 .. n-1` -/
theorem slots_core (n : Nat) (pf : Nat → Rat) {G : List Int → Int → List Int}
    (hG : ∀ J (i : Nat), i < n → G J (i : Int) = J ++ List.replicate (mOf pf i) (i : Int)) {J : List Int}
    (hf : List.foldl G [] (range 0 (n : Int)) = J) : J = body n pf := by
  subst hf
  rw [range_zero_nat]
  have key : ∀ m, m ≤ n → List.foldl G [] ((List.range m).map (fun (k : Nat) => (k : Int))) = body m pf := by
    intro m
    induction m with
    | zero => intro _; rfl
    | succ m ih =>
      intro hm
      rw [List.range_succ, List.map_append, List.foldl_append, ih (by omega), body_succ]
      simp only [List.map_cons, List.map_nil, List.foldl_cons, List.foldl_nil]
      exact hG _ m (by omega)
  exact key n (le_refl _)

/-- the padding with `-1` -/
theorem padding_eq (n : Nat) (pf : Nat → Rat) (z : Int) (hz : z = 256 - ((body n pf).length : Int)) :
    body n pf ++ List.flatten (List.replicate (Int.toNat (iabs z)) [(-1 : Int)]) = slotsOf n pf := by
  rw [slotsOf_eq, flatten_replicate_singleton]
  congr 2
  subst hz
  unfold iabs
  split_ifs <;> omega

theorem sum_thetas (p : List Rat) (th : List Rat) (hl : th.length = p.length)
    (h : ∀ i, i < p.length → th.getD i 0 = theta (qfun p) i) : th.sum = thetaSum p.length (qfun p) := by
  rw [list_sum_eq_range th, hl]
  unfold thetaSum
  rw [Rpylib.Alias.list_range_sum]
  apply Finset.sum_congr rfl
  intro i hi
  exact h i (Finset.mem_range.mp hi)

end Rpylib.SrcTie.C02
