/-
C17, source-derived tie (second set, `RpylibModel/Generated/SrcC17b.lean`) — list lemmas that evaluate the loops and the
numpy reductions of the translated path-dependent payoffs / underlyings.  Nothing here depends on a generated file: the
lemmas speak about the Python built-ins of `RpylibModel/Basic/PyPrelude.lean` and about small specification functions
(`wsum`, `firstSat`, `whereIdx`, `Mono`) in which the obligations of `ProofsGen/SrcC17b.lean` are phrased.

  * `foldl_flag_iff`      a fold that can only raise a Boolean flag (with or without a "loop was left" state variable)
                          computes "some item satisfies p";
  * `foldl_enum_wsum`     the loop of `Asian.value`: `res += val_k (t_k − last_t); last_t = t_k` over `enumerate(times)` is the
                          weighted sum `wsum`; `wsum_const`, `wsum_bounds`, `wsum_congr`, `wsum_eq_sum`;
  * `argwhere_eq`, `minFold_whereIdx`, `firstSat_*`, `diff_*`   `np.argwhere(np.diff(x) < a)`, `np.min`, `.size`.
-/
import RpylibModel.Basic.PyPrelude
import Mathlib.Tactic.Linarith
import Mathlib.Tactic.Ring
import Mathlib.Tactic.Tauto
import Mathlib.Data.List.Perm.Subperm
import Mathlib.Data.List.Range
import Mathlib.Data.List.Nodup
import Mathlib.Algebra.Order.Field.Rat

namespace Rpylib.SrcTie.C17b
open Rpylib.Py

/-! ### `enumerate`, `x[i]`, `x[:k+1]` -/

theorem range_zero_succ (n : Nat) :
    Rpylib.Py.range 0 ((n + 1 : Nat) : Int) = 0 :: (Rpylib.Py.range 0 (n : Int)).map (· + 1) := by
  simp only [Rpylib.Py.range, Int.sub_zero, Int.toNat_natCast, List.range_succ_eq_map, List.map_cons, List.map_map]
  congr 1

theorem enumerate_nil {α : Type} : enumerate ([] : List α) = [] := by
  simp [enumerate, Rpylib.Py.range]

theorem enumerate_cons {α : Type} (x : α) (xs : List α) :
    enumerate (x :: xs) = (0, x) :: (enumerate xs).map (fun p => (p.1 + 1, p.2)) := by
  unfold enumerate
  rw [List.length_cons, range_zero_succ]
  simp only [List.zip_cons_cons, List.zip_map_left]
  congr 1

theorem default_rat : (default : Rat) = 0 := rfl

/-- `xs[n]` for a natural `n` -/
theorem idx_natCast (xs : List Rat) (n : Nat) : idx xs (n : Int) = xs.getD n 0 := by
  have h : ¬ ((n : Int) < 0) := by omega
  simp only [idx, h, if_false, Int.toNat_natCast, default_rat]

theorem idx_natCast_succ (xs : List Rat) (n : Nat) : idx xs ((n : Int) + 1) = xs.getD (n + 1) 0 := by
  have := idx_natCast xs (n + 1); push_cast at this; exact this

/-- `xs[-1]` -/
theorem idx_neg_one (xs : List Rat) : idx xs (-1) = xs.getD (xs.length - 1) 0 := by
  have h : ((-1 : Int) < 0) := by decide
  simp only [idx, h, if_true, default_rat]
  congr 1

theorem idx_neg_one_eq_getLastD (xs : List Rat) : idx xs (-1) = xs.getLastD 0 := by
  rw [idx_neg_one]
  induction xs with
  | nil => rfl
  | cons x t ih =>
    cases t with
    | nil => rfl
    | cons y r =>
      have : (x :: y :: r).length - 1 = (y :: r).length - 1 + 1 := by simp
      rw [this, List.getD_cons_succ, ih]; rfl

theorem idx_neg_one_map (f : Rat → Rat) (xs : List Rat) (h : xs ≠ []) : idx (xs.map f) (-1) = f (idx xs (-1)) := by
  rw [idx_neg_one, idx_neg_one, List.length_map]
  have hl : xs.length - 1 < xs.length := by
    have := List.length_pos_iff.mpr h; omega
  rw [List.getD_eq_getElem?_getD, List.getD_eq_getElem?_getD, List.getElem?_map, List.getElem?_eq_getElem hl]
  simp

/-- `x[: k+1][-1] = x[k]` for `k` in range: the spot at time `t_k` read off the path prefix -/
theorem idx_sliceTo_last (path : List Rat) (k : Nat) (hk : k < path.length) :
    idx (sliceTo path ((k : Int) + 1)) (-1) = path.getD k 0 := by
  have h : ¬ ((k : Int) + 1 < 0) := by omega
  have e : ((k : Int) + 1).toNat = k + 1 := by omega
  rw [idx_neg_one]
  simp only [sliceTo, h, if_false, e, List.length_take]
  have : min (k + 1) path.length - 1 = k := by omega
  rw [this, List.getD_eq_getElem?_getD, List.getD_eq_getElem?_getD, List.getElem?_take]
  simp

theorem sliceTo_map (f : Rat → Rat) (xs : List Rat) (b : Int) : sliceTo (xs.map f) b = (sliceTo xs b).map f := by
  unfold sliceTo; split_ifs <;> simp [List.map_take]

theorem sliceTo_ne_nil (xs : List Rat) (k : Nat) (h : xs ≠ []) : sliceTo xs ((k : Int) + 1) ≠ [] := by
  have h' : ¬ ((k : Int) + 1 < 0) := by omega
  have e : ((k : Int) + 1).toNat = k + 1 := by omega
  simp only [sliceTo, h', if_false, e]
  cases xs with
  | nil => exact absurd rfl h
  | cons x t => simp

/-! ### a fold that can only raise a flag -/

/-- `flag` of the state after the fold is "the flag was up at the start, or some item satisfies `p`", for every state type:
a bare Boolean (`if p x: flag = True`), or a pair (flag, left) when the loop `break`s at the first hit (invariant: left → flag) -/
theorem foldl_flag_iff {σ α : Type} (flag : σ → Bool) (inv : σ → Prop) (p : α → Prop) (F : σ → α → σ)
    (hinv : ∀ s x, inv s → inv (F s x))
    (hstep : ∀ s x, inv s → (flag (F s x) = true ↔ flag s = true ∨ p x)) :
    ∀ (l : List α) (s : σ), inv s → (flag (l.foldl F s) = true ↔ flag s = true ∨ ∃ x ∈ l, p x) := by
  intro l
  induction l with
  | nil => intro s _; simp
  | cons x t ih =>
    intro s hs
    rw [List.foldl_cons, ih (F s x) (hinv s x hs), hstep s x hs]
    simp only [List.mem_cons, exists_eq_or_imp]
    tauto

/-- the same for a bare Boolean state (`if p x: flag = True`, no `break`) -/
theorem foldl_bool_iff {α : Type} (p : α → Prop) (F : Bool → α → Bool)
    (hstep : ∀ s x, (F s x = true ↔ s = true ∨ p x)) (l : List α) (s : Bool) :
    (l.foldl F s = true ↔ s = true ∨ ∃ x ∈ l, p x) :=
  foldl_flag_iff (fun b => b) (fun _ => True) p F (fun _ _ _ => trivial) (fun s x _ => hstep s x) l s trivial

/-! ### the time-weighted sum of `Asian.value` -/

/-- `Σ_k val_k (t_k − t_{k−1})` over the dates `ts`, the first difference taken from `prev`, the first index being `j` -/
def wsum (val : Int → Rat) : Int → Rat → List Rat → Rat
  | _, _, [] => 0
  | k, prev, t :: ts => val k * (t - prev) + wsum val (k + 1) t ts

/-- `prev ≤ t_0 ≤ t_1 ≤ …` -/
def Mono : Rat → List Rat → Prop
  | _, [] => True
  | p, t :: ts => p ≤ t ∧ Mono t ts

/-- the loop `for k, t in enumerate(ts): res, last_t = res + val_k (t − last_t), t` for every shape of the loop state
(`lt` / `rs` read `last_t` / `res` off the state) -/
theorem foldl_enum_wsum {σ : Type} (lt rs : σ → Rat) (val : Int → Rat) :
    ∀ (ts : List Rat) (F : σ → Int × Rat → σ) (j : Int)
      (_ : ∀ s k t, lt (F s (k, t)) = t ∧ rs (F s (k, t)) = rs s + val (j + k) * (t - lt s)) (s : σ),
      lt (List.foldl F s (enumerate ts)) = ts.getLastD (lt s) ∧
      rs (List.foldl F s (enumerate ts)) = rs s + wsum val j (lt s) ts := by
  intro ts
  induction ts with
  | nil => intro F j _ s; simp [enumerate_nil, wsum]
  | cons x t ih =>
    intro F j hF s
    rw [enumerate_cons, List.foldl_cons, List.foldl_map]
    have hF' : ∀ s k t, lt (F s (k + 1, t)) = t ∧ rs (F s (k + 1, t)) = rs s + val (j + 1 + k) * (t - lt s) := by
      intro s k t
      have e : j + 1 + k = j + (k + 1) := by omega
      rw [e]; exact hF s (k + 1) t
    obtain ⟨h1, h2⟩ := ih (fun s p => F s (p.1 + 1, p.2)) (j + 1) hF' (F s (0, x))
    obtain ⟨g1, g2⟩ := hF s 0 x
    refine ⟨?_, ?_⟩
    · rw [h1, g1, List.getLastD_cons]
    · rw [h2, g1, g2]; simp only [wsum, add_zero]; ring

theorem wsum_congr (val val' : Int → Rat) : ∀ (ts : List Rat) (j : Int) (prev : Rat),
    (∀ n : Nat, n < ts.length → val (j + n) = val' (j + n)) → wsum val j prev ts = wsum val' j prev ts := by
  intro ts
  induction ts with
  | nil => intro j prev _; rfl
  | cons t r ih =>
    intro j prev h
    simp only [wsum]
    have h0 := h 0 (by simp); simp only [Nat.cast_zero, add_zero] at h0
    rw [h0, ih (j + 1) t]
    intro n hn
    have := h (n + 1) (by simp; omega)
    have e : j + ((n + 1 : Nat) : Int) = j + 1 + (n : Int) := by push_cast; ring
    rw [e] at this; exact this

/-- a constant integrand: the sum telescopes -/
theorem wsum_const (val : Int → Rat) (c : Rat) : ∀ (ts : List Rat) (j : Int) (prev : Rat),
    (∀ n : Nat, n < ts.length → val (j + n) = c) → wsum val j prev ts = c * (ts.getLastD prev - prev) := by
  intro ts
  induction ts with
  | nil => intro j prev _; simp [wsum]
  | cons t r ih =>
    intro j prev h
    simp only [wsum, List.getLastD_cons]
    have h0 := h 0 (by simp); simp only [Nat.cast_zero, add_zero] at h0
    rw [h0, ih (j + 1) t]
    · ring
    · intro n hn
      have := h (n + 1) (by simp; omega)
      have e : j + ((n + 1 : Nat) : Int) = j + 1 + (n : Int) := by push_cast; ring
      rw [e] at this; exact this

theorem mono_le_getLastD : ∀ (ts : List Rat) (prev : Rat), Mono prev ts → prev ≤ ts.getLastD prev := by
  intro ts
  induction ts with
  | nil => intro prev _; simp
  | cons t r ih =>
    intro prev h
    rw [List.getLastD_cons]
    exact le_trans h.1 (ih t h.2)

/-- non-decreasing dates, integrand between `lo` and `hi`: the sum lies between `lo (t_n − prev)` and `hi (t_n − prev)` -/
theorem wsum_bounds (val : Int → Rat) (lo hi : Rat) : ∀ (ts : List Rat) (j : Int) (prev : Rat), Mono prev ts →
    (∀ n : Nat, n < ts.length → lo ≤ val (j + n) ∧ val (j + n) ≤ hi) →
    lo * (ts.getLastD prev - prev) ≤ wsum val j prev ts ∧ wsum val j prev ts ≤ hi * (ts.getLastD prev - prev) := by
  intro ts
  induction ts with
  | nil => intro j prev _ _; simp [wsum]
  | cons t r ih =>
    intro j prev hm h
    simp only [wsum, List.getLastD_cons]
    have h0 := h 0 (by simp); simp only [Nat.cast_zero, add_zero] at h0
    have hr : ∀ n : Nat, n < r.length → lo ≤ val (j + 1 + n) ∧ val (j + 1 + n) ≤ hi := by
      intro n hn
      have := h (n + 1) (by simp; omega)
      have e : j + ((n + 1 : Nat) : Int) = j + 1 + (n : Int) := by push_cast; ring
      rw [e] at this; exact this
    obtain ⟨i1, i2⟩ := ih (j + 1) t hm.2 hr
    have hd : 0 ≤ t - prev := by linarith [hm.1]
    have a1 := mul_le_mul_of_nonneg_right h0.1 hd
    have a2 := mul_le_mul_of_nonneg_right h0.2 hd
    constructor <;> nlinarith

/-- the sum written with positions: `Σ_{i < n} val (j+i) (t_i − t_{i−1})`, `t_{−1} = prev` -/
theorem wsum_eq_sum (val : Int → Rat) : ∀ (ts : List Rat) (j : Int) (prev : Rat),
    wsum val j prev ts
      = ((List.range ts.length).map (fun (i : Nat) => val (j + (i : Int)) * (ts.getD i 0 - (if i = 0 then prev else ts.getD (i - 1) 0)))).sum := by
  intro ts
  induction ts with
  | nil => intro j prev; simp [wsum]
  | cons t r ih =>
    intro j prev
    simp only [wsum, List.length_cons, List.range_succ_eq_map, List.map_cons, List.sum_cons, List.map_map]
    rw [ih (j + 1) t]
    simp only [Nat.cast_zero, add_zero, List.getD_cons_zero, if_true]
    congr 2
    apply List.map_congr_left
    intro i _
    simp only [Function.comp, List.getD_cons_succ, Nat.succ_ne_zero, if_false, Nat.succ_sub_one]
    have e : j + ((i + 1 : Nat) : Int) = j + 1 + (i : Int) := by push_cast; ring
    rw [e]
    by_cases hi : i = 0
    · subst hi; simp
    · simp only [hi, if_false]
      have : i = (i - 1) + 1 := by omega
      rw [this, List.getD_cons_succ]; simp

/-! ### `np.argwhere(x <op> a)`, `.size`, `np.min`, `np.diff` -/

/-- position of the first entry satisfying `P` -/
def firstSat (P : Rat → Prop) [DecidablePred P] : List Rat → Option Nat
  | [] => none
  | v :: vs => if P v then some 0 else (firstSat P vs).map (· + 1)

/-- the positions of the entries satisfying `P`, in increasing order -/
def whereIdx (P : Rat → Prop) [DecidablePred P] : List Rat → List Int
  | [] => []
  | v :: vs => (if P v then [0] else []) ++ (whereIdx P vs).map (· + 1)

/-- `np.argwhere(xs <op> a)` as translated (`pb` is the mask test on an (index, value) item) -/
theorem argwhere_eq (P : Rat → Prop) [DecidablePred P] (pb : Int × Rat → Bool) (h : ∀ q, pb q = decide (P q.2)) :
    ∀ xs : List Rat, List.map Prod.fst (List.filter pb (enumerate xs)) = whereIdx P xs := by
  intro xs
  induction xs with
  | nil => simp [enumerate_nil, whereIdx]
  | cons v vs ih =>
    rw [enumerate_cons, List.filter_cons, List.filter_map, whereIdx, ← ih]
    have hc : (pb ∘ fun p : Int × Rat => (p.1 + 1, p.2)) = pb := by
      funext q; simp only [Function.comp, h]
    rw [hc, h]
    by_cases hv : P v <;> simp [hv, List.map_map, Function.comp]

theorem whereIdx_nonneg (P : Rat → Prop) [DecidablePred P] : ∀ xs : List Rat, ∀ i ∈ whereIdx P xs, (0 : Int) ≤ i := by
  intro xs
  induction xs with
  | nil => intro i hi; simp [whereIdx] at hi
  | cons v vs ih =>
    intro i hi
    simp only [whereIdx, List.mem_append, List.mem_map] at hi
    rcases hi with hi | ⟨k, hk, rfl⟩
    · split_ifs at hi <;> simp at hi; omega
    · have := ih k hk; omega

theorem whereIdx_head (P : Rat → Prop) [DecidablePred P] : ∀ xs : List Rat,
    (whereIdx P xs).head? = (firstSat P xs).map (fun (k : Nat) => (k : Int)) := by
  intro xs
  induction xs with
  | nil => rfl
  | cons v vs ih =>
    simp only [whereIdx, firstSat]
    by_cases hv : P v
    · simp [hv]
    · simp only [hv, if_false, List.nil_append, List.head?_map, ih, Option.map_map]
      congr 1

theorem whereIdx_head_le (P : Rat → Prop) [DecidablePred P] : ∀ xs : List Rat, ∀ m, (whereIdx P xs).head? = some m →
    ∀ i ∈ whereIdx P xs, m ≤ i := by
  intro xs
  induction xs with
  | nil => intro m hm; simp [whereIdx] at hm
  | cons v vs ih =>
    intro m hm i hi
    simp only [whereIdx] at hm hi
    by_cases hv : P v
    · simp only [hv, if_true, List.cons_append, List.nil_append, List.head?_cons, Option.some.injEq] at hm
      subst hm
      simp only [hv, if_true, List.cons_append, List.nil_append, List.mem_cons, List.mem_map] at hi
      rcases hi with rfl | ⟨k, hk, rfl⟩
      · exact le_refl _
      · have := whereIdx_nonneg P vs k hk; omega
    · simp only [hv, if_false, List.nil_append, List.head?_map, Option.map_eq_some_iff] at hm
      simp only [hv, if_false, List.nil_append, List.mem_map] at hi
      obtain ⟨m', hm', rfl⟩ := hm
      obtain ⟨k, hk, rfl⟩ := hi
      have := ih m' hm' k hk; omega

/-- `min(h, …)` folded over entries that are all `≥ h` is `h` -/
theorem foldl_imin_eq (h : Int) : ∀ t : List Int, (∀ i ∈ t, h ≤ i) → List.foldl imin h t = h := by
  intro t
  induction t with
  | nil => intro _; rfl
  | cons x r ih =>
    intro hx
    have h1 : imin h x = h := by
      have := hx x (by simp)
      unfold imin; split_ifs <;> omega
    rw [List.foldl_cons, h1]
    exact ih (fun i hi => hx i (by simp [hi]))

/-- `np.min(np.argwhere(..))` and `.size > 0`, in terms of the first position -/
theorem minFold_whereIdx (P : Rat → Prop) [DecidablePred P] (xs : List Rat) :
    match firstSat P xs with
    | none => whereIdx P xs = []
    | some k => 0 < (whereIdx P xs).length ∧
        List.foldl imin (List.headD (whereIdx P xs) 0) (List.tail (whereIdx P xs)) = (k : Int) ∧
        List.headD (whereIdx P xs) 0 = (k : Int) := by
  have hh := whereIdx_head P xs
  cases hf : firstSat P xs with
  | none =>
    rw [hf] at hh
    simpa using hh
  | some k =>
    rw [hf] at hh
    simp only [Option.map_some] at hh
    have hle := whereIdx_head_le P xs _ hh
    cases hI : whereIdx P xs with
    | nil => rw [hI] at hh; simp at hh
    | cons a r =>
      rw [hI] at hh hle
      simp only [List.head?_cons, Option.some.injEq] at hh
      subst hh
      refine ⟨by simp, ?_, by simp⟩
      simp only [List.headD_cons, List.tail_cons]
      exact foldl_imin_eq _ r (fun i hi => hle i (by simp [hi]))

theorem firstSat_some (P : Rat → Prop) [DecidablePred P] : ∀ (xs : List Rat) (k : Nat),
    firstSat P xs = some k ↔ k < xs.length ∧ P (xs.getD k 0) ∧ ∀ i, i < k → ¬ P (xs.getD i 0) := by
  intro xs
  induction xs with
  | nil => intro k; simp [firstSat]
  | cons v vs ih =>
    intro k
    simp only [firstSat]
    by_cases hv : P v
    · simp only [hv, if_true, Option.some.injEq]
      constructor
      · intro h; subst h; exact ⟨by simp, by simpa using hv, fun i hi => absurd hi (by omega)⟩
      · rintro ⟨_, _, h3⟩
        by_contra hk
        have hk' : 0 < k := by omega
        exact h3 0 hk' (by simpa using hv)
    · simp only [hv, if_false, Option.map_eq_some_iff]
      constructor
      · rintro ⟨k', hk', rfl⟩
        obtain ⟨h1, h2, h3⟩ := (ih k').mp hk'
        refine ⟨by simp; omega, by simpa using h2, fun i hi => ?_⟩
        cases i with
        | zero => simpa using hv
        | succ i' => simpa using h3 i' (by omega)
      · rintro ⟨h1, h2, h3⟩
        cases k with
        | zero => exact absurd (by simpa using h2) hv
        | succ k' =>
          refine ⟨k', (ih k').mpr ⟨by simpa using h1, by simpa using h2, fun i hi => ?_⟩, rfl⟩
          have := h3 (i + 1) (by omega); simpa using this

theorem firstSat_none (P : Rat → Prop) [DecidablePred P] : ∀ (xs : List Rat),
    firstSat P xs = none ↔ ∀ i, i < xs.length → ¬ P (xs.getD i 0) := by
  intro xs
  induction xs with
  | nil => simp [firstSat]
  | cons v vs ih =>
    simp only [firstSat]
    by_cases hv : P v
    · simp only [hv, if_true, reduceCtorEq, false_iff, not_forall]
      exact ⟨0, by simp, by simpa using hv⟩
    · simp only [hv, if_false, Option.map_eq_none_iff, ih]
      constructor
      · intro h i hi
        cases i with
        | zero => simpa using hv
        | succ i' => simpa using h i' (by simpa using hi)
      · intro h i hi
        have := h (i + 1) (by simpa using hi); simpa using this

theorem diffFrom_length (p : Rat) (xs : List Rat) : (diffFrom p xs).length = xs.length := by
  induction xs generalizing p with
  | nil => rfl
  | cons x t ih => simp [diffFrom, ih]

theorem diff_length (xs : List Rat) : (diff xs).length = xs.length - 1 := by
  cases xs with
  | nil => rfl
  | cons x t => simp [diff, diffFrom_length]

theorem diffFrom_getD (p : Rat) (xs : List Rat) (k : Nat) (hk : k < xs.length) :
    (diffFrom p xs).getD k 0 = xs.getD k 0 - (if k = 0 then p else xs.getD (k - 1) 0) := by
  induction xs generalizing p k with
  | nil => simp at hk
  | cons x t ih =>
    cases k with
    | zero => simp [diffFrom]
    | succ k' =>
      simp only [diffFrom, List.getD_cons_succ, Nat.succ_ne_zero, if_false, Nat.succ_sub_one]
      rw [ih x k' (by simpa using hk)]
      cases k' with
      | zero => simp
      | succ k'' => simp

/-- `np.diff(x)[k] = x[k+1] − x[k]` -/
theorem diff_getD (xs : List Rat) (k : Nat) (hk : k + 1 < xs.length) :
    (diff xs).getD k 0 = xs.getD (k + 1) 0 - xs.getD k 0 := by
  cases xs with
  | nil => simp at hk
  | cons x t =>
    simp only [diff, List.getD_cons_succ]
    rw [diffFrom_getD x t k (by simpa using hk)]
    cases k with
    | zero => simp
    | succ k' => simp

/-! ### corollaries in the form used by `rw` (the loop body `F` and the start state are read off the goal) -/

theorem foldl_enum_wsum_rs {σ : Type} (lt rs : σ → Rat) (val : Int → Rat) (ts : List Rat) (F : σ → Int × Rat → σ) (s : σ)
    (hF : ∀ s k t, lt (F s (k, t)) = t ∧ rs (F s (k, t)) = rs s + val k * (t - lt s)) :
    rs (List.foldl F s (enumerate ts)) = rs s + wsum val 0 (lt s) ts :=
  (foldl_enum_wsum lt rs val ts F 0 (by simpa using hF) s).2

theorem foldl_enum_wsum_lt {σ : Type} (lt rs : σ → Rat) (val : Int → Rat) (ts : List Rat) (F : σ → Int × Rat → σ) (s : σ)
    (hF : ∀ s k t, lt (F s (k, t)) = t ∧ rs (F s (k, t)) = rs s + val k * (t - lt s)) :
    lt (List.foldl F s (enumerate ts)) = ts.getLastD (lt s) :=
  (foldl_enum_wsum lt rs val ts F 0 (by simpa using hF) s).1

/-- the same loop written over positions: `for k in range(len(ts)): t = ts[k]; res += val_k (t − last_t); last_t = t` -/
theorem foldl_range_wsum_aux {σ : Type} (lt rs : σ → Rat) (val : Int → Rat) :
    ∀ (ts : List Rat) (G : σ → Int → σ) (j : Int)
      (_ : ∀ s (n : Nat), n < ts.length → lt (G s (j + n)) = ts.getD n 0
            ∧ rs (G s (j + n)) = rs s + val (j + n) * (ts.getD n 0 - lt s)) (s : σ),
      lt (List.foldl G s ((List.range ts.length).map (fun (n : Nat) => j + (n : Int)))) = ts.getLastD (lt s) ∧
      rs (List.foldl G s ((List.range ts.length).map (fun (n : Nat) => j + (n : Int)))) = rs s + wsum val j (lt s) ts := by
  intro ts
  induction ts with
  | nil => intro G j _ s; simp [wsum]
  | cons x t ih =>
    intro G j hG s
    rw [List.length_cons, List.range_succ_eq_map, List.map_cons, List.map_map, List.foldl_cons]
    have hG' : ∀ s (n : Nat), n < t.length → lt (G s (j + 1 + n)) = t.getD n 0
        ∧ rs (G s (j + 1 + n)) = rs s + val (j + 1 + n) * (t.getD n 0 - lt s) := by
      intro s n hn
      have := hG s (n + 1) (by simp; omega)
      have e : j + ((n + 1 : Nat) : Int) = j + 1 + (n : Int) := by push_cast; ring
      rw [e] at this; simpa using this
    have hm : (fun (n : Nat) => j + (n : Int)) ∘ Nat.succ = fun (n : Nat) => j + 1 + (n : Int) := by
      funext n; simp only [Function.comp, Nat.succ_eq_add_one]; push_cast; ring
    rw [hm]
    obtain ⟨h1, h2⟩ := ih G (j + 1) hG' (G s (j + ((0 : Nat) : Int)))
    obtain ⟨g1, g2⟩ := hG s 0 (by simp)
    simp only [List.getD_cons_zero] at g1 g2
    refine ⟨?_, ?_⟩
    · rw [h1, g1, List.getLastD_cons]
    · rw [h2, g1, g2]; simp only [wsum, Nat.cast_zero, add_zero]; ring

theorem foldl_range_wsum_rs {σ : Type} (lt rs : σ → Rat) (val : Int → Rat) (ts : List Rat) (G : σ → Int → σ) (s : σ)
    (hG : ∀ s (n : Nat), n < ts.length → lt (G s n) = ts.getD n 0 ∧ rs (G s n) = rs s + val n * (ts.getD n 0 - lt s)) :
    rs (List.foldl G s (Rpylib.Py.range 0 ((ts.length : Nat) : Int))) = rs s + wsum val 0 (lt s) ts := by
  have := (foldl_range_wsum_aux lt rs val ts G 0 (by simpa using hG) s).2
  simpa [Rpylib.Py.range] using this

theorem foldl_range_wsum_lt {σ : Type} (lt rs : σ → Rat) (val : Int → Rat) (ts : List Rat) (G : σ → Int → σ) (s : σ)
    (hG : ∀ s (n : Nat), n < ts.length → lt (G s n) = ts.getD n 0 ∧ rs (G s n) = rs s + val n * (ts.getD n 0 - lt s)) :
    lt (List.foldl G s (Rpylib.Py.range 0 ((ts.length : Nat) : Int))) = ts.getLastD (lt s) := by
  have := (foldl_range_wsum_aux lt rs val ts G 0 (by simpa using hG) s).1
  simpa [Rpylib.Py.range] using this

/-! ### rows of a 2-d path, `exp` / `log` applied entry-wise -/

theorem idx_map_rows (g : Rat → Rat) (rows : List (List Rat)) (j : Int) :
    idx (rows.map (List.map g)) j = (idx rows j).map g := by
  have key : ∀ n : Nat, (rows.map (List.map g)).getD n default = (rows.getD n default).map g := by
    intro n
    rw [List.getD_eq_getElem?_getD, List.getD_eq_getElem?_getD, List.getElem?_map]
    cases rows[n]? <;> rfl
  unfold idx
  simp only [List.length_map]
  split_ifs <;> exact key _

theorem map_last_map_rows (g : Rat → Rat) (rows : List (List Rat)) (h : ∀ r ∈ rows, r ≠ []) :
    List.map (fun r : List Rat => idx r (-1)) (rows.map (List.map g)) = (List.map (fun r : List Rat => idx r (-1)) rows).map g := by
  rw [List.map_map, List.map_map]
  apply List.map_congr_left
  intro r hr
  simp only [Function.comp]
  exact idx_neg_one_map g r (h r hr)

/-- `exp(x) / s = exp(x − log s)` entry-wise, for an `exp` / `log` pair with this property on the initial spots -/
theorem zipWith_div_exp (exp log : Rat → Rat) : ∀ (T spots : List Rat), (∀ s ∈ spots, ∀ y, exp (y - log s) = exp y / s) →
    List.zipWith (fun x y : Rat => x / y) (T.map exp) spots
      = (List.zipWith (fun x y : Rat => x - y) T (spots.map log)).map exp := by
  intro T
  induction T with
  | nil => intro spots _; simp
  | cons t r ih =>
    intro spots h
    cases spots with
    | nil => simp
    | cons s ss =>
      simp only [List.map_cons, List.zipWith_cons_cons]
      rw [h s (by simp) t, ih ss (fun s' hs' => h s' (by simp [hs']))]

/-! ### a loop that overwrites entry `k` of a vector: `for k, x in enumerate(items): if c(x): out[k] = v(x)` -/

/-- entry `j`, `j+1`, … of `acc` replaced by `h x_0 acc[j]`, `h x_1 acc[j+1]`, … -/
def applyAt {β : Type} (h : β → Rat → Rat) : Nat → List β → List Rat → List Rat
  | _, [], acc => acc
  | j, x :: xs, acc => applyAt h (j + 1) xs (acc.set j (h x (acc.getD j 0)))

theorem set_getD_self (acc : List Rat) (n : Nat) : acc.set n (acc.getD n 0) = acc := by
  induction acc generalizing n with
  | nil => rfl
  | cons a t ih =>
    cases n with
    | zero => rfl
    | succ n' => simp only [List.set_cons_succ, List.getD_cons_succ, ih]

theorem foldl_setAt_enum {β : Type} (h : β → Rat → Rat) : ∀ (items : List β) (F : List Rat → Int × β → List Rat) (j : Nat)
    (_ : ∀ (acc : List Rat) (k : Int) (x : β), 0 ≤ k → F acc (k, x) = acc.set (j + k.toNat) (h x (acc.getD (j + k.toNat) 0)))
    (init : List Rat), List.foldl F init (enumerate items) = applyAt h j items init := by
  intro items
  induction items with
  | nil => intro F j _ init; simp [enumerate_nil, applyAt]
  | cons x t ih =>
    intro F j hF init
    rw [enumerate_cons, List.foldl_cons, List.foldl_map, applyAt]
    have h0 := hF init 0 x (le_refl _)
    simp only [Int.toNat_zero, add_zero] at h0
    rw [h0]
    apply ih (fun acc p => F acc (p.1 + 1, p.2)) (j + 1)
    intro acc k y hk
    have := hF acc (k + 1) y (by omega)
    have e : j + (k + 1).toNat = j + 1 + k.toNat := by omega
    rw [e] at this; exact this

theorem applyAt_length {β : Type} (h : β → Rat → Rat) : ∀ (xs : List β) (j : Nat) (acc : List Rat),
    (applyAt h j xs acc).length = acc.length := by
  intro xs
  induction xs with
  | nil => intro j acc; rfl
  | cons x t ih => intro j acc; rw [applyAt, ih]; simp

theorem applyAt_getD {β : Type} (h : β → Rat → Rat) (d : β) : ∀ (xs : List β) (j : Nat) (acc : List Rat) (n : Nat),
    (applyAt h j xs acc).getD n 0
      = if j ≤ n ∧ n < j + xs.length ∧ n < acc.length then h (xs.getD (n - j) d) (acc.getD n 0) else acc.getD n 0 := by
  intro xs
  induction xs with
  | nil => intro j acc n; simp [applyAt]; intro h1 h2; omega
  | cons x t ih =>
    intro j acc n
    rw [applyAt, ih]
    simp only [List.length_set, List.length_cons]
    by_cases hn : n = j
    · subst hn
      have h1 : ¬ (n + 1 ≤ n ∧ n < n + 1 + t.length ∧ n < acc.length) := by omega
      simp only [h1, if_false]
      by_cases hl : n < acc.length
      · have h2 : n ≤ n ∧ n < n + (t.length + 1) ∧ n < acc.length := ⟨le_refl _, by omega, hl⟩
        simp only [h2, and_self, if_true, Nat.sub_self, List.getD_cons_zero]
        rw [List.getD_eq_getElem?_getD, List.getElem?_set_self hl]; simp
      · have h2 : ¬ (n ≤ n ∧ n < n + (t.length + 1) ∧ n < acc.length) := by omega
        simp only [h2, if_false]
        rw [List.set_eq_of_length_le (by omega)]
    · have hne : j ≠ n := fun e => hn e.symm
      have hg : (acc.set j (h x (acc.getD j 0))).getD n 0 = acc.getD n 0 := by
        simp [List.getD_eq_getElem?_getD, List.getElem?_set_ne hne]
      rw [hg]
      by_cases hc : j + 1 ≤ n ∧ n < j + 1 + t.length ∧ n < acc.length
      · have hc' : j ≤ n ∧ n < j + (t.length + 1) ∧ n < acc.length := by omega
        simp only [hc, hc', and_self, if_true]
        have e : n - j = (n - (j + 1)) + 1 := by omega
        rw [e, List.getD_cons_succ]
      · have hc' : ¬ (j ≤ n ∧ n < j + (t.length + 1) ∧ n < acc.length) := by omega
        simp only [hc, hc', if_false]

/-! ### `np.amax(xs[np.argpartition(xs, k)[:k+1]])`: the (k+1)-th smallest entry, non-decreasing in `k` -/

/-- `np.max / np.amax` of a list as translated (`0` for an empty list) -/
def maxFold (l : List Rat) : Rat := List.foldl rmax (List.headD l 0) (List.tail l)

theorem foldl_rmax_spec : ∀ (t : List Rat) (h : Rat),
    (List.foldl rmax h t = h ∨ List.foldl rmax h t ∈ t) ∧ h ≤ List.foldl rmax h t ∧ ∀ x ∈ t, x ≤ List.foldl rmax h t := by
  intro t
  induction t with
  | nil => intro h; simp
  | cons a r ih =>
    intro h
    obtain ⟨h1, h2, h3⟩ := ih (rmax h a)
    have hm : h ≤ rmax h a ∧ a ≤ rmax h a ∧ (rmax h a = h ∨ rmax h a = a) := by
      unfold rmax; split_ifs with hc
      · exact ⟨le_of_lt hc, le_refl _, Or.inr rfl⟩
      · exact ⟨le_refl _, not_lt.mp hc, Or.inl rfl⟩
    rw [List.foldl_cons]
    refine ⟨?_, le_trans hm.1 h2, ?_⟩
    · rcases h1 with h1 | h1
      · rcases hm.2.2 with e | e
        · left; rw [h1, e]
        · right; rw [h1, e]; simp
      · right; simp [h1]
    · intro x hx
      simp only [List.mem_cons] at hx
      rcases hx with rfl | hx
      · exact le_trans hm.2.1 h2
      · exact h3 x hx

theorem maxFold_mem (l : List Rat) (hl : l ≠ []) : maxFold l ∈ l := by
  cases l with
  | nil => exact absurd rfl hl
  | cons a r =>
    simp only [maxFold, List.headD_cons, List.tail_cons]
    rcases (foldl_rmax_spec r a).1 with h | h
    · rw [h]; simp
    · simp [h]

theorem le_maxFold (l : List Rat) (x : Rat) (hx : x ∈ l) : x ≤ maxFold l := by
  cases l with
  | nil => simp at hx
  | cons a r =>
    simp only [maxFold, List.headD_cons, List.tail_cons]
    simp only [List.mem_cons] at hx
    rcases hx with rfl | hx
    · exact (foldl_rmax_spec r x).2.1
    · exact (foldl_rmax_spec r a).2.2 x hx

/-- what `np.argpartition(D, k)` returns: a permutation of the positions whose first `k+1` entries point to values that are
`≤` all the others (which of the valid answers numpy picks is not specified) -/
def IsArgPartition (D : List Rat) (k : Nat) (I : List Int) : Prop :=
  I.Perm (Rpylib.Py.range 0 (D.length : Int)) ∧ ∀ a ∈ I.take (k + 1), ∀ b ∈ I.drop (k + 1), idx D a ≤ idx D b

theorem pyRange_nodup (n : Nat) : (Rpylib.Py.range 0 (n : Int)).Nodup := by
  simp only [Rpylib.Py.range, Int.sub_zero, Int.toNat_natCast]
  apply List.Nodup.map _ List.nodup_range
  intro a b hab; simpa using hab

theorem pyRange_length (n : Nat) : (Rpylib.Py.range 0 (n : Int)).length = n := by
  simp [Rpylib.Py.range]

/-- the largest of the `k+1` smallest entries is non-decreasing in `k` -/
theorem kth_max_mono (D : List Rat) (I I' : List Int) (k k' : Nat) (hkk : k ≤ k') (hk' : k' < D.length)
    (h : IsArgPartition D k I) (h' : IsArgPartition D k' I') :
    maxFold ((I.take (k + 1)).map (idx D)) ≤ maxFold ((I'.take (k' + 1)).map (idx D)) := by
  obtain ⟨hp, hpart⟩ := h
  obtain ⟨hp', _⟩ := h'
  have hlen : I.length = D.length := by rw [hp.length_eq, pyRange_length]
  have hlen' : I'.length = D.length := by rw [hp'.length_eq, pyRange_length]
  have hnd : I.Nodup := (hp.nodup_iff).mpr (pyRange_nodup _)
  have hnd' : I'.Nodup := (hp'.nodup_iff).mpr (pyRange_nodup _)
  have hS : (I.take (k + 1)).map (idx D) ≠ [] := by
    intro e
    have h0 : ((I.take (k + 1)).map (idx D)).length = 0 := by rw [e]; rfl
    rw [List.length_map, List.length_take] at h0
    omega
  obtain ⟨j, hjS, hjm⟩ := List.mem_map.mp (maxFold_mem _ hS)
  by_contra hcon
  have hlt : maxFold ((I'.take (k' + 1)).map (idx D)) < idx D j := by rw [hjm]; exact not_le.mp hcon
  -- every position among the k'+1 smallest has a value < D[j], so it is among the k+1 smallest and is not j
  have hsub : I'.take (k' + 1) ⊆ (I.take (k + 1)).erase j := by
    intro b hb
    have hb_lt : idx D b < idx D j := lt_of_le_of_lt (le_maxFold _ _ (List.mem_map_of_mem hb)) hlt
    have hne : b ≠ j := by rintro rfl; exact lt_irrefl _ hb_lt
    rw [List.mem_erase_of_ne hne]
    have hbI : b ∈ I := (hp.mem_iff).mpr ((hp'.mem_iff).mp ((List.take_sublist _ _).subset hb))
    rw [← List.take_append_drop (k + 1) I, List.mem_append] at hbI
    rcases hbI with hbI | hbI
    · exact hbI
    · exact absurd (hpart j hjS b hbI) (not_le.mpr hb_lt)
  have hl1 := (List.subperm_of_subset (List.Nodup.sublist (List.take_sublist _ _) hnd') hsub).length_le
  rw [List.length_erase_of_mem hjS] at hl1
  simp only [List.length_take] at hl1
  omega

theorem sliceTo_natCast_succ {α : Type} (xs : List α) (k : Nat) : sliceTo xs ((k : Int) + 1) = xs.take (k + 1) := by
  have h : ¬ ((k : Int) + 1 < 0) := by omega
  have e : ((k : Int) + 1).toNat = k + 1 := by omega
  simp only [sliceTo, h, if_false, e]

/-- forms used with `rw`: the index / bound expression is matched first, its value is a side goal (so `k + 1` and `1 + k` both do) -/
theorem idx_eq_getD_succ (xs : List Rat) (b : Int) (m : Nat) (h : b = (m : Int) + 1) : idx xs b = xs.getD (m + 1) 0 := by
  subst h; exact idx_natCast_succ xs m

theorem sliceTo_eq_take_succ {α : Type} (xs : List α) (b : Int) (k : Nat) (h : b = (k : Int) + 1) :
    sliceTo xs b = xs.take (k + 1) := by
  subst h; exact sliceTo_natCast_succ xs k

end Rpylib.SrcTie.C17b
