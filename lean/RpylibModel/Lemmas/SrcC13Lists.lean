/-
C13 source tie — lemmas about the Python list built-ins of Basic/PyPrelude.lean and about the two loop shapes of
`CTMCGrid.refine`, independent of the generated file (so that a run on a changed source does not rebuild them):

  * `foldl_insertAt_eq_refine`: a loop that walks over items and inserts `val item` at position `pos item` into the running
    axis computes the model's `refine mid` of the axis, provided the (position, value) list of the items is
    `insertions mid 0 axis` = [(1, mid x0 x1), (3, mid x1 x2), ...] — whatever the items are (pairs from `zip`, indices, ...);
  * `foldl_setAt_enumerate`: `for k, a in enumerate(xs): xs[k] = g(k, a)` computes `map g (enumerate xs)`.
-/
import RpylibModel.Basic.PyPrelude
import RpylibModel.Model.Grid
import RpylibModel.Model.GridCtor
import Mathlib.Algebra.Order.Field.Rat
import Mathlib.Tactic.Ring
import Mathlib.Tactic.Linarith

namespace Rpylib.SrcTie.C13
open Rpylib.Py Rpylib.Grid

/-! ### the built-ins -/

theorem idx_natCast {α : Type} [Inhabited α] (xs : List α) (n : Nat) : idx xs (n : Int) = xs.getD n default := by
  have h : ¬ ((n : Int) < 0) := by omega
  simp [idx, h]

theorem idx_of_nonneg {α : Type} [Inhabited α] (xs : List α) (i : Int) (h : 0 ≤ i) :
    idx xs i = xs.getD i.toNat default := by
  have h' : ¬ (i < 0) := by omega
  simp [idx, h']

theorem idx_zero {α : Type} [Inhabited α] (xs : List α) : idx xs 0 = xs.getD 0 default := by
  simp [idx]

theorem range_zero_eq (n : Nat) : Rpylib.Py.range 0 (n : Int) = (List.range n).map (fun (k : Nat) => (k : Int)) := by
  simp [Rpylib.Py.range]

theorem enumerate_length {α : Type} (xs : List α) : (enumerate xs).length = xs.length := by
  simp [enumerate, Rpylib.Py.range]

theorem enumerate_getElem {α : Type} (xs : List α) (i : Nat) (h : i < (enumerate xs).length) :
    (enumerate xs)[i] = ((i : Int), xs[i]'(by rw [enumerate_length] at h; exact h)) := by
  simp [enumerate, Rpylib.Py.range]

theorem enumerate_nil {α : Type} : enumerate ([] : List α) = [] := by
  simp [enumerate, Rpylib.Py.range]

theorem map_enumerate_snd {α β : Type} (xs : List α) (g : α → β) :
    (enumerate xs).map (fun x => g x.2) = xs.map g := by
  apply List.ext_getElem
  · simp [enumerate_length]
  · intro i h1 h2
    simp [enumerate_getElem]

theorem sliceFrom_one {α : Type} (xs : List α) : sliceFrom xs 1 = xs.drop 1 := by
  simp [sliceFrom]

/-! ### `for k, a in enumerate(xs): xs[k] = g(k, a)` -/

/-- `enumerate` with a start index, by recursion -/
def enumFrom {α : Type} : Nat → List α → List (Int × α)
  | _, [] => []
  | d, a :: t => ((d : Int), a) :: enumFrom (d + 1) t

theorem enumFrom_eq {α : Type} (d : Nat) (xs : List α) :
    enumFrom d xs = ((List.range xs.length).map (fun (k : Nat) => ((d + k : Nat) : Int))).zip xs := by
  induction xs generalizing d with
  | nil => simp [enumFrom]
  | cons a t ih =>
    rw [enumFrom, ih, List.length_cons, List.range_succ_eq_map, List.map_cons, List.zip_cons_cons, List.map_map]
    congr 2
    apply List.map_congr_left
    intro k _
    simp only [Function.comp, Nat.succ_eq_add_one]
    congr 1; omega

theorem enumerate_eq_enumFrom {α : Type} (xs : List α) : enumerate xs = enumFrom 0 xs := by
  rw [enumFrom_eq]; simp [enumerate, Rpylib.Py.range]

theorem foldl_setAt_enumFrom {α : Type} (g : Int × α → α) (rest : List α) : ∀ pre : List α,
    List.foldl (fun st x => setAt st x.1 (g x)) (pre ++ rest) (enumFrom pre.length rest) =
      pre ++ (enumFrom pre.length rest).map g := by
  induction rest with
  | nil => intro pre; simp [enumFrom]
  | cons a rest ih =>
    intro pre
    have hneg : ¬ ((pre.length : Int) < 0) := by omega
    have hset : setAt (pre ++ a :: rest) (pre.length : Int) (g ((pre.length : Int), a)) = (pre ++ [g ((pre.length : Int), a)]) ++ rest := by
      simp [setAt, hneg]
    simp only [enumFrom, List.foldl_cons, hset, List.map_cons]
    have := ih (pre ++ [g ((pre.length : Int), a)])
    simp only [List.length_append, List.length_cons, List.length_nil, Nat.zero_add] at this
    rw [this]; simp

theorem foldl_setAt_enumerate {α : Type} (g : Int × α → α) (xs : List α) :
    List.foldl (fun st x => setAt st x.1 (g x)) xs (enumerate xs) = (enumerate xs).map g := by
  rw [enumerate_eq_enumFrom]
  simpa using foldl_setAt_enumFrom g xs []

/-! ### `for item in items: axis = np.insert(axis, pos(item), val(item))` -/

/-- the insertions `refine` makes, as (position in the running axis, value), the first pair of the list starting at `d` -/
def insertions (mid : Rat → Rat → Rat) : Nat → List Rat → List (Int × Rat)
  | d, a :: b :: t => (((d + 1 : Nat) : Int), mid a b) :: insertions mid (d + 2) (b :: t)
  | _, _ => []

theorem insertions_length (mid : Rat → Rat → Rat) (d : Nat) (l : List Rat) : (insertions mid d l).length = l.length - 1 := by
  induction l generalizing d with
  | nil => simp [insertions]
  | cons a t ih =>
    cases t with
    | nil => simp [insertions]
    | cons b t => simp only [insertions, List.length_cons, ih]; simp

theorem insertions_getElem (mid : Rat → Rat → Rat) (d : Nat) (l : List Rat) (j : Nat) (h : j < (insertions mid d l).length) :
    (insertions mid d l)[j] = (((d + 2 * j + 1 : Nat) : Int), mid (l.getD j 0) (l.getD (j + 1) 0)) := by
  induction l generalizing d j with
  | nil => simp [insertions] at h
  | cons a t ih =>
    cases t with
    | nil => simp [insertions] at h
    | cons b t =>
      cases j with
      | zero => simp [insertions]
      | succ j =>
        simp only [insertions, List.getElem_cons_succ]
        rw [ih (d + 2) j (by simpa [insertions] using h)]
        have : d + 2 + 2 * j + 1 = d + 2 * (j + 1) + 1 := by ring
        rw [this]; simp

theorem foldl_insertAt_insertions (mid : Rat → Rat → Rat) (l : List Rat) :
    ∀ done : List Rat, List.foldl (fun st (p : Int × Rat) => insertAt st p.1 p.2) (done ++ l) (insertions mid done.length l)
      = done ++ refine mid l := by
  induction l with
  | nil => intro done; simp [insertions, refine]
  | cons a t ih =>
    cases t with
    | nil => intro done; simp [insertions, refine]
    | cons b t =>
      intro done
      have hins : insertAt (done ++ a :: b :: t) (((done.length + 1 : Nat)) : Int) (mid a b)
          = (done ++ [a, mid a b]) ++ (b :: t) := by
        simp only [insertAt, Int.toNat_natCast]
        have h1 : List.take (done.length + 1) (done ++ a :: b :: t) = done ++ [a] := by
          rw [List.take_append, List.take_of_length_le (by omega)]; simp
        have h2 : List.drop (done.length + 1) (done ++ a :: b :: t) = b :: t := by
          rw [List.drop_append]; simp
        rw [h1, h2]; simp
      simp only [insertions, List.foldl_cons, hins]
      have := ih (done ++ [a, mid a b])
      simp only [List.length_append, List.length_cons, List.length_nil] at this
      rw [this]; simp [refine]

/-- the loop of `CTMCGrid.refine` over one axis, for any kind of loop items -/
theorem foldl_insertAt_eq_refine {β : Type} (mid : Rat → Rat → Rat) (xs : List Rat) (its : List β) (pos : β → Int) (val : β → Rat)
    (h : its.map (fun x => (pos x, val x)) = insertions mid 0 xs) :
    List.foldl (fun st x => insertAt st (pos x) (val x)) xs its = refine mid xs := by
  have h1 : List.foldl (fun st x => insertAt st (pos x) (val x)) xs its
      = List.foldl (fun st (p : Int × Rat) => insertAt st p.1 p.2) xs (its.map (fun x => (pos x, val x))) := by
    rw [List.foldl_map]
  rw [h1, h]
  simpa using foldl_insertAt_insertions mid xs []

/-! ### indexing, `range`, mirrored axes -/

theorem idx_eq_getD {α : Type} [Inhabited α] (xs : List α) (i : Int) (n : Nat) (h : i = (n : Int)) :
    idx xs i = xs.getD n default := by
  subst h; exact idx_natCast xs n

theorem idx_of_getElem? {α : Type} [Inhabited α] (xs : List α) (i : Int) (n : Nat) (a : α) (h : i = (n : Int))
    (ha : xs[n]? = some a) : idx xs i = a := by
  rw [idx_eq_getD xs i n h, List.getD_eq_getElem?_getD, ha]; rfl

theorem enumerate_getElem? {α : Type} (xs : List α) (i : Nat) :
    (enumerate xs)[i]? = xs[i]?.map (fun a => ((i : Int), a)) := by
  by_cases h : i < xs.length
  · have h' : i < (enumerate xs).length := by rw [enumerate_length]; exact h
    rw [List.getElem?_eq_getElem h', enumerate_getElem, List.getElem?_eq_getElem h]; rfl
  · rw [List.getElem?_eq_none (by rw [enumerate_length]; omega), List.getElem?_eq_none (by omega)]; rfl

theorem pyRange_eq (a b : Int) : Rpylib.Py.range a b = (List.range (b - a).toNat).map (fun (k : Nat) => a + (k : Int)) := rfl

theorem mirror_range_eq (m : Nat) (f : Nat → Rat) :
    (((List.range m).map f).reverse.map (fun x => -x)) = (List.range m).map (fun i => - f (m - 1 - i)) := by
  apply List.ext_getElem
  · simp
  · intro i h1 h2
    have hi : i < m := by simpa using h2
    simp [List.getElem_reverse]

/-! ### other shapes of the same loop: `range(len(axis) - 1)` with indexing, `enumerate(axis[:-1])` -/

theorem pyRange_length (a b : Int) : (Rpylib.Py.range a b).length = (b - a).toNat := by
  simp [Rpylib.Py.range]

theorem pyRange_getElem (a b : Int) (i : Nat) (h : i < (Rpylib.Py.range a b).length) :
    (Rpylib.Py.range a b)[i] = a + (i : Int) := by
  simp [Rpylib.Py.range]

theorem idx_natCast_add {α : Type} [Inhabited α] (xs : List α) (n m : Nat) :
    idx xs ((n : Int) + (m : Int)) = xs.getD (n + m) default := by
  rw [← Int.natCast_add]; exact idx_natCast xs (n + m)

theorem idx_natCast_succ {α : Type} [Inhabited α] (xs : List α) (n : Nat) :
    idx xs ((n : Int) + 1) = xs.getD (n + 1) default := idx_natCast_add xs n 1

theorem idx_zero_add_natCast {α : Type} [Inhabited α] (xs : List α) (n : Nat) :
    idx xs (0 + (n : Int)) = xs.getD n default := by
  rw [Int.zero_add]; exact idx_natCast xs n

theorem sliceTo_neg_one {α : Type} (xs : List α) : sliceTo xs (-1) = xs.take (xs.length - 1) := by
  simp [sliceTo]

theorem default_rat : (default : Rat) = 0 := rfl

/-! ### the prelude's `int(x)`, `abs`, `np.linspace` are the hand model's (Model/GridCtor.lean) -/

theorem truncInt_eq_pyInt (q : Rat) : Rpylib.Py.truncInt q = pyInt q := by
  unfold Rpylib.Py.truncInt pyInt
  by_cases h : q < 0
  · rw [if_pos h, if_neg (by linarith)]
  · rw [if_neg h, if_pos (by linarith)]

theorem pyRabs_eq (q : Rat) : Rpylib.Py.rabs q = Rpylib.Grid.rabs q := rfl

theorem pyLinspace_eq (a b : Rat) (n : Int) : Rpylib.Py.linspace a b n = Rpylib.Grid.linspace a b n.toNat := by
  unfold Rpylib.Py.linspace
  cases n.toNat with
  | zero => rfl
  | succ m => cases m <;> rfl

end Rpylib.SrcTie.C13
