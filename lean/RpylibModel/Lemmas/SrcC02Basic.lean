/-
Source-derived tie for C02: facts about the Python built-ins of `RpylibModel/Basic/PyPrelude.lean` used by the translated
sampler functions (`while` loops with fuel, deques as lists, indexing with Python integers, `int(x)` of a float).
-/
import RpylibModel.Basic.PyPrelude
import Mathlib.Tactic.Linarith
import Mathlib.Tactic.Ring
import Mathlib.Algebra.Order.Field.Rat
import Mathlib.Algebra.Order.Floor.Defs

namespace Rpylib.SrcTie.C02
open Rpylib.Py

/-- **rule for `while` loops**: an invariant `I` preserved by the body while the condition holds and a measure `μ` that
    decreases: with a fuel ≥ the measure the loop ends because its condition is false (never because of the fuel), and the
    invariant holds at the exit. -/
theorem whileLoop_spec {σ : Type} (cond : σ → Bool) (body : σ → σ) (I : σ → Prop) (μ : σ → Nat)
    (hstep : ∀ s, I s → cond s = true → I (body s) ∧ μ (body s) < μ s) :
    ∀ (fuel : Nat) (s : σ), I s → μ s ≤ fuel →
      ∃ s', whileLoop cond body fuel s = some s' ∧ I s' ∧ cond s' = false := by
  intro fuel
  induction fuel with
  | zero =>
    intro s hI hμ
    cases hc : cond s with
    | false => exact ⟨s, by simp [whileLoop, hc], hI, hc⟩
    | true => have := (hstep s hI hc).2; omega
  | succ n ih =>
    intro s hI hμ
    cases hc : cond s with
    | false => exact ⟨s, by simp [whileLoop, hc], hI, hc⟩
    | true =>
      obtain ⟨h1, h2⟩ := hstep s hI hc
      obtain ⟨s', e, hI', hc'⟩ := ih (body s) h1 (by omega)
      exact ⟨s', by simp [whileLoop, hc, e], hI', hc'⟩

/-- the same rule, for a loop met in a goal: `generalize hw : whileLoop _ _ _ _ = r` first -/
theorem whileLoop_cases {σ : Type} {cond : σ → Bool} {body : σ → σ} {fuel : Nat} {s : σ} {r : Option σ}
    (hw : whileLoop cond body fuel s = r) (I : σ → Prop) (μ : σ → Nat)
    (hstep : ∀ s, I s → cond s = true → I (body s) ∧ μ (body s) < μ s) (hI : I s) (hμ : μ s ≤ fuel) :
    ∃ s', r = some s' ∧ I s' ∧ cond s' = false := by
  obtain ⟨s', e, h1, h2⟩ := whileLoop_spec cond body I μ hstep fuel s hI hμ
  exact ⟨s', by rw [← hw, e], h1, h2⟩

/-! ### indexing with Python integers -/

theorem idx_ofNat {α : Type} [Inhabited α] (xs : List α) (i : Nat) : idx xs (i : Int) = xs.getD i default := by
  unfold idx; simp

theorem idx_of_nonneg {α : Type} [Inhabited α] (xs : List α) {i : Int} (h : 0 ≤ i) : idx xs i = xs.getD i.toNat default := by
  unfold idx; rw [if_neg (by omega)]

theorem setAt_of_nonneg {α : Type} (xs : List α) {i : Int} (h : 0 ≤ i) (v : α) : setAt xs i v = xs.set i.toNat v := by
  unfold setAt; rw [if_neg (by omega)]

theorem idx_rat (xs : List Rat) {i : Int} (h : 0 ≤ i) : idx xs i = xs.getD i.toNat 0 := idx_of_nonneg xs h
theorem idx_int (xs : List Int) {i : Int} (h : 0 ≤ i) : idx xs i = xs.getD i.toNat 0 := idx_of_nonneg xs h

theorem idx_nat_rat (xs : List Rat) (i : Nat) : idx xs (i : Int) = xs.getD i 0 := idx_ofNat xs i
theorem idx_nat_int (xs : List Int) (i : Nat) : idx xs (i : Int) = xs.getD i 0 := idx_ofNat xs i

theorem idx_last_concat {α : Type} [Inhabited α] (xs : List α) (a : α) : idx (xs ++ [a]) (-1) = a := by
  unfold idx; simp

theorem popAt_last_concat {α : Type} (xs : List α) (a : α) : popAt (xs ++ [a]) (-1) = xs := by
  unfold popAt; simp [List.eraseIdx_append_of_length_le]

theorem range_zero_nat (n : Nat) : range 0 (n : Int) = (List.range n).map (fun (k : Nat) => (k : Int)) := by
  unfold range; simp

theorem truncInt_of_nonneg {x : Rat} (h : 0 ≤ x) : truncInt x = x.floor := by
  unfold truncInt; rw [if_pos h]

end Rpylib.SrcTie.C02
