/-
Lemmas for the source-derived tie of C04 (ProofsGen/SrcC04.lean).  Nothing here mentions a generated definition: this file
is compiled once and is not rebuilt when /repo's source changes.

 * the Python list built-ins of PyPrelude on an axis (`idx`, `enumerate`, `range`) in terms of the model's `pt`;
 * `muh_fold_*`: a fold over the positions of an axis whose step *semantically* does what one turn of `compute_mu_h`'s loop
   has to do (given the correct running left boundary: add x_k · rate_k, leave the correct left boundary for k + 1) computes
   Σ_k x_k · rate_k.  The obligation in ProofsGen shows that the step translated from the source satisfies that
   specification, whatever its syntax.
-/
import RpylibModel.Basic.PyPrelude
import RpylibModel.Model.Drift
import RpylibModel.Proofs.C01
import Mathlib.Tactic.Linarith
import Mathlib.Tactic.Ring
import Mathlib.Algebra.Order.Field.Rat
import Mathlib.Algebra.BigOperators.Intervals

set_option linter.dupNamespace false
set_option linter.unusedVariables false

namespace Rpylib.SrcTie.C04
open Rpylib.Grid Rpylib.Cells Rpylib.Drift Finset

/-! ### PyPrelude on an axis -/

theorem default_rat : (default : ℚ) = 0 := rfl

theorem idx_natCast (ax : List ℚ) (k : ℕ) : Rpylib.Py.idx ax (k : ℤ) = pt ax k := by
  unfold Rpylib.Py.idx pt
  rw [if_neg (by omega), Int.toNat_natCast]; rfl

/-- `axis[i]` for an integer expression `i` that denotes the natural number `j` -/
theorem idx_of_eq (ax : List ℚ) {i : ℤ} {j : ℕ} (h : i = (j : ℤ)) : Rpylib.Py.idx ax i = pt ax j := by
  rw [h, idx_natCast]

theorem idx_nonneg (ax : List ℚ) (i : ℤ) (h : 0 ≤ i) : Rpylib.Py.idx ax i = pt ax i.toNat := by
  apply idx_of_eq; omega

theorem pyrange_zero (n : ℕ) : Rpylib.Py.range 0 (n : ℤ) = (List.range n).map (fun k : ℕ => (k : ℤ)) := by
  unfold Rpylib.Py.range
  simp

theorem enumerate_eq (ax : List ℚ) :
    Rpylib.Py.enumerate ax = (List.range ax.length).map (fun k : ℕ => ((k : ℤ), pt ax k)) := by
  unfold Rpylib.Py.enumerate
  rw [pyrange_zero]
  apply List.ext_getElem
  · simp
  · intro i h1 h2
    simp at h1
    simp [pt, List.getElem?_eq_getElem h1]

theorem foldl_enumerate {σ : Type} (f : σ → ℤ × ℚ → σ) (init : σ) (ax : List ℚ) :
    List.foldl f init (Rpylib.Py.enumerate ax) =
      List.foldl (fun s (k : ℕ) => f s ((k : ℤ), pt ax k)) init (List.range ax.length) := by
  rw [enumerate_eq, List.foldl_map]

theorem foldl_pyrange {σ : Type} (f : σ → ℤ → σ) (init : σ) (n : ℕ) :
    List.foldl f init (Rpylib.Py.range 0 (n : ℤ)) = List.foldl (fun s (k : ℕ) => f s (k : ℤ)) init (List.range n) := by
  rw [pyrange_zero, List.foldl_map]

/-- invariants of a fold over the positions 0, …, n - 1 -/
theorem foldl_range_inv {σ : Type} (P : ℕ → σ → Prop) (g : σ → ℕ → σ) (init : σ) (n : ℕ) (h0 : P 0 init)
    (hs : ∀ k, k < n → ∀ s, P k s → P (k + 1) (g s k)) : P n ((List.range n).foldl g init) := by
  induction n with
  | zero => simpa using h0
  | succ n ih =>
    rw [List.range_succ, List.foldl_append]
    exact hs n (by omega) _ (ih (fun k hk s hP => hs k (by omega) s hP))

/-! ### the loop of `compute_mu_h`, specified by what one turn has to achieve -/

/-- state = (mu_h, mid_point_left) -/
theorem muh_fold_fst (mid m : ℚ → ℚ → ℚ) (ax : List ℚ) (o : ℕ) (g : ℚ × ℚ → ℕ → ℚ × ℚ) (init : ℚ × ℚ)
    (h1 : init.1 = 0) (h2 : init.2 = cellLo mid ax 0)
    (hstep : ∀ k, k < ax.length → ∀ μ l, l = cellLo mid ax k →
      (g (μ, l) k).1 = μ + pt ax k * rate mid ax o m k ∧
        (k + 1 < ax.length → (g (μ, l) k).2 = cellLo mid ax (k + 1))) :
    ((List.range ax.length).foldl g init).1 = ∑ k ∈ range ax.length, pt ax k * rate mid ax o m k := by
  have := foldl_range_inv
    (fun p (s : ℚ × ℚ) => s.1 = ∑ k ∈ range p, pt ax k * rate mid ax o m k ∧ (p < ax.length → s.2 = cellLo mid ax p))
    g init ax.length ⟨by simp [h1], fun _ => h2⟩
    (by
      rintro k hk ⟨μ, l⟩ ⟨i1, i2⟩
      obtain ⟨s1, s2⟩ := hstep k hk μ l (i2 hk)
      refine ⟨?_, s2⟩
      rw [s1, sum_range_succ]; simp only at i1; rw [i1])
  exact this.1

/-- state = (mid_point_left, mu_h) -/
theorem muh_fold_snd (mid m : ℚ → ℚ → ℚ) (ax : List ℚ) (o : ℕ) (g : ℚ × ℚ → ℕ → ℚ × ℚ) (init : ℚ × ℚ)
    (h1 : init.2 = 0) (h2 : init.1 = cellLo mid ax 0)
    (hstep : ∀ k, k < ax.length → ∀ l μ, l = cellLo mid ax k →
      (g (l, μ) k).2 = μ + pt ax k * rate mid ax o m k ∧
        (k + 1 < ax.length → (g (l, μ) k).1 = cellLo mid ax (k + 1))) :
    ((List.range ax.length).foldl g init).2 = ∑ k ∈ range ax.length, pt ax k * rate mid ax o m k := by
  have := foldl_range_inv
    (fun p (s : ℚ × ℚ) => s.2 = ∑ k ∈ range p, pt ax k * rate mid ax o m k ∧ (p < ax.length → s.1 = cellLo mid ax p))
    g init ax.length ⟨by simp [h1], fun _ => h2⟩
    (by
      rintro k hk ⟨l, μ⟩ ⟨i1, i2⟩
      obtain ⟨s1, s2⟩ := hstep k hk l μ (i2 hk)
      refine ⟨?_, s2⟩
      rw [s1, sum_range_succ]; simp only at i1; rw [i1])
  exact this.1

end Rpylib.SrcTie.C04
