/-
C10 source tie, variance gamma: the algebra behind "the cumulants are the moments of the Lévy measure" — independent of the generated
definitions.  The density is c e^{−λ₊ x}/x (x > 0), c e^{−λ₋ |x|}/|x| (x < 0) with c = 1/ν, λ₊ = (S − θ)/σ², λ₋ = (S + θ)/σ²,
S² = θ² + 2σ²/ν; its n-th moment (n ≥ 1) is c (n−1)! (1/λ₊ⁿ + (−1)ⁿ/λ₋ⁿ).
-/
import Mathlib.Tactic.Ring
import Mathlib.Tactic.FieldSimp
import Mathlib.Tactic.Linarith
import Mathlib.Tactic.LinearCombination
import Mathlib.Algebra.Order.Field.Rat

namespace Rpylib.SrcTie.C10b.Vg

/-- with u = σ²λ₊, v = σ²λ₋ (so that u v = 2σ²/ν, v − u = 2θ): first, second and fourth moment -/
theorem moments_uv (nu s2 theta u v : ℚ) (hnu : nu ≠ 0) (hu : u ≠ 0) (hv : v ≠ 0) (hs2 : s2 = nu * u * v / 2)
    (hth : theta = (v - u) / 2) :
    (1 / nu) * (1 / (u / s2) - 1 / (v / s2)) = theta ∧
    (1 / nu) * (1 / (u / s2) ^ 2 + 1 / (v / s2) ^ 2) = s2 + nu * theta ^ 2 ∧
    6 * (1 / nu) * (1 / (u / s2) ^ 4 + 1 / (v / s2) ^ 4) = 3 * (s2 ^ 2 * nu + 2 * theta ^ 4 * nu ^ 3 + 4 * s2 * theta ^ 2 * nu ^ 2) := by
  subst hs2 hth
  refine ⟨?_, ?_, ?_⟩ <;> field_simp <;> ring

/-- the same in the parameters: S any number with S² = θ² + 2σ²/ν (the value `np.sqrt` returns) -/
theorem moments (sigma nu theta S : ℚ) (hsig : sigma ≠ 0) (hnu : nu ≠ 0) (hS : S * S = theta ^ 2 + 2 * sigma ^ 2 / nu) :
    (S - theta) / sigma ^ 2 ≠ 0 ∧ (S + theta) / sigma ^ 2 ≠ 0 ∧
    (1 / nu) * (1 / ((S - theta) / sigma ^ 2) - 1 / ((S + theta) / sigma ^ 2)) = theta ∧
    (1 / nu) * (1 / ((S - theta) / sigma ^ 2) ^ 2 + 1 / ((S + theta) / sigma ^ 2) ^ 2) = sigma ^ 2 + nu * theta ^ 2 ∧
    6 * (1 / nu) * (1 / ((S - theta) / sigma ^ 2) ^ 4 + 1 / ((S + theta) / sigma ^ 2) ^ 4)
      = 3 * ((sigma ^ 2) ^ 2 * nu + 2 * theta ^ 4 * nu ^ 3 + 4 * sigma ^ 2 * theta ^ 2 * nu ^ 2) := by
  have hs2 : sigma ^ 2 ≠ 0 := pow_ne_zero 2 hsig
  have huv : (S - theta) * (S + theta) = 2 * sigma ^ 2 / nu := by linear_combination hS
  have hK : (2 : ℚ) * sigma ^ 2 / nu ≠ 0 := div_ne_zero (mul_ne_zero two_ne_zero hs2) hnu
  have hu : S - theta ≠ 0 := fun h => hK (by rw [← huv, h, zero_mul])
  have hv : S + theta ≠ 0 := fun h => hK (by rw [← huv, h, mul_zero])
  have h1 : sigma ^ 2 = nu * (S - theta) * (S + theta) / 2 := by
    have : nu * ((S - theta) * (S + theta)) = 2 * sigma ^ 2 := by rw [huv]; field_simp
    linarith
  have h2 : theta = ((S + theta) - (S - theta)) / 2 := by ring
  obtain ⟨m1, m2, m4⟩ := moments_uv nu (sigma ^ 2) theta (S - theta) (S + theta) hnu hu hv h1 h2
  exact ⟨div_ne_zero hu hs2, div_ne_zero hv hs2, m1, m2, m4⟩

/-- non-vacuity: σ = 1, ν = 2, θ = 0 give S² = 1 -/
example : (1 : ℚ) * 1 = 0 ^ 2 + 2 * 1 ^ 2 / 2 := by norm_num

end Rpylib.SrcTie.C10b.Vg
