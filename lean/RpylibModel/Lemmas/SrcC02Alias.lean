/-
Source-derived tie for C02, alias construction: the loops of `create_alias` (alias.py) seen as list programs
(deques = lists with the top at the end, tables = lists) and their relation with the Walker/Vose invariant of
`RpylibModel/Proofs/Lemmas/C02AliasBuild.lean`.  Nothing here mentions the generated definitions: the loop bodies enter
through hypotheses (`hcond`, `hbody`) that the obligations file discharges for the translated source by normalisation.
-/
import RpylibModel.Lemmas.SrcC02Basic
import RpylibModel.Proofs.Lemmas.C02AliasBuild
import Mathlib.Algebra.BigOperators.Field

namespace Rpylib.SrcTie.C02
open Rpylib.Py Rpylib.Alias

/-- a deque of Python integers used as a stack (top = last element) as the model's stack (top = head) -/
def stackOf (l : List Int) : List Nat := l.reverse.map Int.toNat
/-- a table of floats / integers as an index function -/
def qfun (q : List Rat) : Nat → Rat := fun i => q.getD i 0
def jfun (j : List Int) : Nat → Nat := fun i => (j.getD i 0).toNat
/-- the tables `(J, q)` returned by `create_alias` as the model's tables -/
def tablesOf (q : List Rat) (J : List Int) : Tables := ⟨q.length, qfun q, jfun J⟩

theorem stackOf_nil : stackOf [] = [] := rfl
theorem stackOf_concat (l : List Int) (x : Int) : stackOf (l ++ [x]) = x.toNat :: stackOf l := by
  simp [stackOf]
theorem mem_stackOf {l : List Int} {x : Int} (hx : x ∈ l) : x.toNat ∈ stackOf l := by
  simp only [stackOf, List.mem_map, List.mem_reverse]; exact ⟨x, hx, rfl⟩
theorem stackOf_length (l : List Int) : (stackOf l).length = l.length := by simp [stackOf]

theorem qfun_set (q : List Rat) (i : Nat) (v : Rat) (hi : i < q.length) : qfun (q.set i v) = upd (qfun q) i v := by
  funext k
  simp only [qfun, upd, List.getD_eq_getElem?_getD, List.getElem?_set]
  by_cases h : k = i
  · subst h; simp [hi]
  · rw [if_neg (Ne.symm h), if_neg h]

theorem jfun_set (j : List Int) (i : Nat) (v : Int) (hi : i < j.length) : jfun (j.set i v) = upd (jfun j) i v.toNat := by
  funext k
  simp only [jfun, upd, List.getD_eq_getElem?_getD, List.getElem?_set]
  by_cases h : k = i
  · subst h; simp [hi]
  · rw [if_neg (Ne.symm h), if_neg h]

/-! ### the classification loop -/

theorem classify_core (K : Nat) (qf : Nat → Rat) {F : List Int × List Int → Int → List Int × List Int}
    (hF : ∀ s g (n : Nat), n < K → (qf n < 1 → F (s, g) n = (s ++ [(n : Int)], g)) ∧
      (1 ≤ qf n → F (s, g) n = (s, g ++ [(n : Int)]))) {cl : List Int × List Int}
    (hf : List.foldl F ([], []) (range 0 K) = cl) :
    stackOf cl.1 = (classify qf K).1 ∧ stackOf cl.2 = (classify qf K).2 ∧ (∀ x ∈ cl.1, 0 ≤ x) ∧ (∀ x ∈ cl.2, 0 ≤ x) := by
  subst hf
  rw [range_zero_nat]
  have key : ∀ n, n ≤ K →
      stackOf (List.foldl F ([], []) ((List.range n).map (fun (k : Nat) => (k : Int)))).1 = (classify qf n).1 ∧
      stackOf (List.foldl F ([], []) ((List.range n).map (fun (k : Nat) => (k : Int)))).2 = (classify qf n).2 ∧
      (∀ x ∈ (List.foldl F ([], []) ((List.range n).map (fun (k : Nat) => (k : Int)))).1, 0 ≤ x) ∧
      (∀ x ∈ (List.foldl F ([], []) ((List.range n).map (fun (k : Nat) => (k : Int)))).2, 0 ≤ x) := by
    intro n
    induction n with
    | zero => intro _; simp [classify, stackOf]
    | succ n ih =>
      intro hn
      obtain ⟨a, b, c, d⟩ := ih (by omega)
      rw [List.range_succ, List.map_append, List.foldl_append]
      generalize List.foldl F ([], []) ((List.range n).map (fun (k : Nat) => (k : Int))) = st at a b c d
      obtain ⟨s, g⟩ := st
      simp only at a b c d
      obtain ⟨f1, f2⟩ := hF s g n (by omega)
      simp only [List.map_cons, List.map_nil, List.foldl_cons, List.foldl_nil]
      by_cases hq : qf n < 1
      · rw [f1 hq]
        simp only [classify, a, b, hq, if_true, stackOf_concat, Int.toNat_natCast]
        refine ⟨trivial, trivial, ?_, d⟩
        intro x hx
        rcases List.mem_append.mp hx with h | h
        · exact c x h
        · simp at h; omega
      · rw [f2 (not_lt.mp hq)]
        simp only [classify, a, b, hq, if_false, stackOf_concat, Int.toNat_natCast]
        refine ⟨trivial, trivial, c, ?_⟩
        intro x hx
        rcases List.mem_append.mp hx with h | h
        · exact d x h
        · simp at h; omega
  exact key K (le_refl _)

/-! ### the state at the start of the main loop -/

/-- what the main loop maintains, on the list state `(greater, j, q, smaller)` -/
structure MainInv (K : Nat) (pf : Nat → Rat) (g j : List Int) (q : List Rat) (s : List Int) : Prop where
  inv : Inv K pf ⟨qfun q, jfun j, stackOf s, stackOf g⟩
  lq : q.length = K
  lj : j.length = K
  nnS : ∀ x ∈ s, 0 ≤ x
  nnG : ∀ x ∈ g, 0 ≤ x
  rj : ∀ x ∈ j, 0 ≤ x ∧ x < K
  len : s.length + g.length ≤ K


theorem list_sum_eq_range (p : List Rat) : p.sum = ∑ i ∈ Finset.range p.length, qfun p i := by
  induction p using List.reverseRecOn with
  | nil => simp
  | append_singleton l a ih =>
    rw [List.sum_append, List.length_append, List.length_singleton, Finset.sum_range_succ, ih]
    congr 1
    · apply Finset.sum_congr rfl
      intro i hi
      have : i < l.length := Finset.mem_range.mp hi
      simp [qfun, List.getD_eq_getElem?_getD, List.getElem?_append_left this]
    · simp [qfun, List.getD_eq_getElem?_getD]

theorem qfun_nonneg (p : List Rat) (hp : ∀ x ∈ p, 0 ≤ x) (i : Nat) : 0 ≤ qfun p i := by
  simp only [qfun, List.getD_eq_getElem?_getD]
  cases h : p[i]? with
  | none => simp
  | some v => simp only [Option.getD_some]; exact hp v (List.mem_of_getElem? h)

/-- the invariant holds when the main loop starts: the scaled vector, a zero alias table, the classified stacks -/
theorem init_core (p : List Rat) (hp : ∀ x ∈ p, 0 ≤ x) (hsum : p.sum = 1) {g s J : List Int} {Q : List Rat}
    (hQ : Q.length = p.length ∧ ∀ i, qfun Q i = qfun p i * (p.length : Rat))
    (hJ : J.length = p.length ∧ ∀ x ∈ J, x = 0)
    (hs : stackOf s = (classify (fun l => qfun p l * (p.length : Rat)) p.length).1)
    (hg : stackOf g = (classify (fun l => qfun p l * (p.length : Rat)) p.length).2)
    (nnS : ∀ x ∈ s, 0 ≤ x) (nnG : ∀ x ∈ g, 0 ≤ x) :
    MainInv p.length (qfun p) g J Q s := by
  have hK : 0 < p.length := by
    rcases Nat.eq_zero_or_pos p.length with h | h
    · rw [List.length_eq_zero_iff.mp h] at hsum; simp at hsum
    · exact h
  have hinit := init_inv p.length (qfun p) (fun l _ => qfun_nonneg p hp l) (by rw [← list_sum_eq_range]; exact hsum)
  have eQ : qfun Q = fun l => qfun p l * (p.length : Rat) := funext hQ.2
  have eJ : jfun J = fun _ => 0 := by
    funext i
    simp only [jfun, List.getD_eq_getElem?_getD]
    cases h : J[i]? with
    | none => simp
    | some v => simp only [Option.getD_some]; rw [hJ.2 v (List.mem_of_getElem? h)]; rfl
  refine ⟨by rw [eQ, eJ, hs, hg]; exact hinit, hQ.1, hJ.1, nnS, nnG, ?_, ?_⟩
  · intro x hx; rw [hJ.2 x hx]; exact ⟨le_refl _, by exact_mod_cast hK⟩
  · have := (classify_spec (fun l => qfun p l * (p.length : Rat)) p.length).2.2.2.2.2.2.2
    rw [← hs, ← hg, stackOf_length, stackOf_length] at this
    omega

/-! ### the main loop -/

theorem main_core (K : Nat) (pf : Nat → Rat) {cond : List Rat × List Int × List Int × List Int → Bool}
    {body : List Rat × List Int × List Int × List Int → List Rat × List Int × List Int × List Int}
    {r : Option (List Rat × List Int × List Int × List Int)} {g0 j0 : List Int} {q0 : List Rat} {s0 : List Int}
    (hw : whileLoop cond body K (q0, j0, s0, g0) = r)
    (hcond : ∀ q j s g, cond (q, j, s, g) = true ↔ (s ≠ [] ∧ g ≠ []))
    (hbody : ∀ gs (great : Int) j q ss (small : Int), 0 ≤ great → 0 ≤ small → great.toNat < q.length →
      small.toNat < q.length → great ≠ small → ∃ q' : List Rat, q'.length = q.length ∧
      qfun q' = upd (qfun q) great.toNat (qfun q great.toNat + qfun q small.toNat - 1) ∧
      (qfun q' great.toNat < 1 →
        body (q, j, ss ++ [small], gs ++ [great]) = (q', j.set small.toNat great, ss ++ [great], gs)) ∧
      (1 ≤ qfun q' great.toNat →
        body (q, j, ss ++ [small], gs ++ [great]) = (q', j.set small.toNat great, ss, gs ++ [great])))
    (h0 : MainInv K pf g0 j0 q0 s0) :
    ∃ q j s g, r = some (q, j, s, g) ∧ MainInv K pf g j q s ∧ (s = [] ∨ g = []) := by
  obtain ⟨⟨q, j, s, g⟩, rfl, hI, hc⟩ := whileLoop_cases hw
    (fun st : List Rat × List Int × List Int × List Int => MainInv K pf st.2.2.2 st.2.1 st.1 st.2.2.1)
    (fun st => st.2.2.1.length + st.2.2.2.length)
    (by
      rintro ⟨q, j, s, g⟩ hI hc
      have hI : MainInv K pf g j q s := hI
      obtain ⟨hs, hg⟩ := (hcond q j s g).mp hc
      obtain ⟨ss, small, rfl⟩ := (List.eq_nil_or_concat' s).resolve_left hs
      obtain ⟨gs, great, rfl⟩ := (List.eq_nil_or_concat' g).resolve_left hg
      have hinv := hI.inv
      simp only [stackOf_concat] at hinv
      have hsm0 : 0 ≤ small := hI.nnS small (by simp)
      have hgr0 : 0 ≤ great := hI.nnG great (by simp)
      have hsK : small.toNat < K := hinv.ltS _ (by simp)
      have hgK : great.toNat < K := hinv.ltG _ (by simp)
      have hne : great ≠ small := by
        intro e
        exact hinv.disj small.toNat (by simp) (by simp [e])
      obtain ⟨q', hq'l, hq', b1, b2⟩ := hbody gs great j q ss small hgr0 hsm0 (by rw [hI.lq]; exact hgK) (by rw [hI.lq]; exact hsK) hne
      have hv : qfun q' great.toNat = qfun q great.toNat + qfun q small.toNat - 1 := by rw [hq', upd_same]
      obtain ⟨s1, s2⟩ := step_inv hinv
      have hj' : ∀ x ∈ j.set small.toNat great, 0 ≤ x ∧ x < K := by
        intro x hx
        rcases List.mem_or_eq_of_mem_set hx with h | h
        · exact hI.rj x h
        · subst h; exact ⟨hgr0, by omega⟩
      have hlen := hI.len
      simp only [List.length_append, List.length_cons, List.length_nil] at hlen
      by_cases hlt : qfun q' great.toNat < 1
      · rw [b1 hlt]
        refine ⟨⟨?_, by rw [hq'l, hI.lq], by simp [hI.lj], ?_, ?_, hj', ?_⟩, ?_⟩
        · show Inv K pf ⟨qfun q', jfun (j.set small.toNat great), stackOf (ss ++ [great]), stackOf gs⟩
          rw [hq', jfun_set j _ _ (by rw [hI.lj]; exact hsK), stackOf_concat]
          exact s1 (by rw [← hv]; exact hlt)
        · intro x hx
          rcases List.mem_append.mp hx with h | h
          · exact hI.nnS x (by simp [h])
          · simp at h; omega
        · intro x hx; exact hI.nnG x (by simp [hx])
        · show (ss ++ [great]).length + gs.length ≤ K
          simp only [List.length_append, List.length_cons, List.length_nil]; omega
        · show (ss ++ [great]).length + gs.length < (ss ++ [small]).length + (gs ++ [great]).length
          simp only [List.length_append, List.length_cons, List.length_nil]; omega
      · rw [b2 (not_lt.mp hlt)]
        refine ⟨⟨?_, by rw [hq'l, hI.lq], by simp [hI.lj], ?_, hI.nnG, hj', ?_⟩, ?_⟩
        · show Inv K pf ⟨qfun q', jfun (j.set small.toNat great), stackOf ss, stackOf (gs ++ [great])⟩
          rw [hq', jfun_set j _ _ (by rw [hI.lj]; exact hsK), stackOf_concat]
          exact s2 (by rw [← hv]; exact hlt)
        · intro x hx; exact hI.nnS x (by simp [hx])
        · show ss.length + (gs ++ [great]).length ≤ K
          simp only [List.length_append, List.length_cons, List.length_nil]; omega
        · show ss.length + (gs ++ [great]).length < (ss ++ [small]).length + (gs ++ [great]).length
          simp only [List.length_append, List.length_cons, List.length_nil]; omega)
    h0 (by show s0.length + g0.length ≤ K; exact h0.len)
  refine ⟨q, j, s, g, rfl, hI, ?_⟩
  by_contra hne
  have : s ≠ [] ∧ g ≠ [] := ⟨fun e => hne (Or.inl e), fun e => hne (Or.inr e)⟩
  rw [(hcond q j s g).mpr this] at hc
  cases hc

/-! ### the two clean-up loops -/

/-- `while stack: x = stack.pop(); q[x] = 1.0` on any state layout `mk stack q` -/
theorem cleanup_core {σ : Type} (mk : List Int → List Rat → σ) (len : σ → Nat) (hlenmk : ∀ st q, len (mk st q) = st.length)
    (K : Nat) {cond : σ → Bool} {body : σ → σ} {r : Option σ} {st0 : List Int} {q0 : List Rat}
    (hw : whileLoop cond body K (mk st0 q0) = r)
    (hcond : ∀ st q, cond (mk st q) = true ↔ st ≠ [])
    (hbody : ∀ st (x : Int) q, 0 ≤ x → x.toNat < q.length → body (mk (st ++ [x]) q) = mk st (q.set x.toNat 1))
    (hlen : st0.length ≤ K) (hnn : ∀ x ∈ st0, 0 ≤ x ∧ x.toNat < q0.length) :
    ∃ q, r = some (mk [] q) ∧ q.length = q0.length ∧ qfun q = setOnes (qfun q0) (stackOf st0) := by
  obtain ⟨s', rfl, ⟨st, q, rfl, h1, h2, h3⟩, hc⟩ := whileLoop_cases hw
    (fun s : σ => ∃ st q, s = mk st q ∧ q.length = q0.length ∧ (∀ x ∈ st, 0 ≤ x ∧ x.toNat < q0.length) ∧
      setOnes (qfun q) (stackOf st) = setOnes (qfun q0) (stackOf st0))
    len
    (by
      rintro s ⟨st, q, rfl, h1, h2, h3⟩ hc
      have hne := (hcond st q).mp hc
      obtain ⟨st', x, rfl⟩ := (List.eq_nil_or_concat' st).resolve_left hne
      obtain ⟨hx0, hxK⟩ := h2 x (by simp)
      rw [hbody st' x q hx0 (by rw [h1]; exact hxK)]
      refine ⟨⟨st', q.set x.toNat 1, rfl, by simp [h1], fun y hy => h2 y (by simp [hy]), ?_⟩, ?_⟩
      · rw [← h3, stackOf_concat, qfun_set q _ _ (by rw [h1]; exact hxK)]; rfl
      · rw [hlenmk, hlenmk]; simp)
    ⟨st0, q0, rfl, rfl, hnn, rfl⟩ (by rw [hlenmk]; exact hlen)
  have hst : st = [] := by
    by_contra hne
    rw [(hcond st q).mpr hne] at hc; cases hc
  subst hst
  exact ⟨q, rfl, h1, by rw [← h3]; rfl⟩

/-! ### the law of the tables returned -/

theorem final_core (K : Nat) (hK : 0 < K) (pf : Nat → Rat) {g j : List Int} {q : List Rat} {s : List Int}
    (hI : MainInv K pf g j q s) (hend : s = [] ∨ g = []) {q1 q2 : List Rat}
    (h1 : q1.length = q.length ∧ qfun q1 = setOnes (qfun q) (stackOf g))
    (h2 : q2.length = q1.length ∧ qfun q2 = setOnes (qfun q1) (stackOf s)) :
    j.length = K ∧ q2.length = K ∧ (∀ x ∈ j, 0 ≤ x ∧ x < K) ∧ (∀ x ∈ q2, 0 ≤ x ∧ x ≤ 1) ∧
      ∀ k, k < K → lawOfTables (tablesOf q2 j) k = pf k := by
  have hl2 : q2.length = K := by rw [h2.1, h1.1, hI.lq]
  have hend' : stackOf s = [] ∨ stackOf g = [] := by
    rcases hend with h | h
    · left; rw [h]; rfl
    · right; rw [h]; rfl
  refine ⟨hI.lj, hl2, hI.rj, ?_, ?_⟩
  · -- every entry is 1 (set by a clean-up loop) or an entry of a finished column, in [0, 1)
    intro x hx
    obtain ⟨i, hi, rfl⟩ := List.getElem_of_mem hx
    have e : q2[i] = qfun q2 i := by simp [qfun, List.getD_eq_getElem?_getD, hi]
    rw [e, h2.2, h1.2, setOnes_apply, setOnes_apply]
    split_ifs with a b
    · norm_num
    · norm_num
    · have := hI.inv.b i (by omega) a b
      exact ⟨this.1, this.2.le⟩
  · intro k hk
    have := final_law_of_inv hK hI.inv hend' k hk
    simp only [tablesOf, hl2, h2.2, h1.2]
    exact this

/-! ### a vector given pointwise -/

/-- a list that is `0` at `o` and `q_k / lam` elsewhere sums to `(Σ q − q_o) / lam` -/
theorem sum_of_pointwise (q r : List Rat) (lam : Rat) (o : Nat) (ho : o < q.length) (hl : r.length = q.length)
    (h0 : qfun r o = 0) (hk : ∀ k, k ≠ o → qfun r k = qfun q k / lam) : r.sum = (q.sum - qfun q o) / lam := by
  rw [list_sum_eq_range r, list_sum_eq_range q, hl]
  have : ∀ i ∈ Finset.range q.length, qfun r i = qfun q i / lam - (if i = o then qfun q o / lam else 0) := by
    intro i _
    by_cases h : i = o
    · subst h; rw [h0, if_pos rfl]; ring
    · rw [hk i h, if_neg h]; ring
  rw [Finset.sum_congr rfl this, Finset.sum_sub_distrib, Finset.sum_ite_eq' (Finset.range q.length) o,
    if_pos (Finset.mem_range.mpr ho), ← Finset.sum_div, sub_div]

end Rpylib.SrcTie.C02
