/-
C14, second source-derived tie — facts about the Python built-ins of `RpylibModel/Basic/PyPrelude.lean` in the shapes in which
they occur in the translated enumeration code (`RpylibModel/Generated/SrcC14b.lean`): `while` loops (`whileLoop` with fuel),
`xs[-1]`, `xs[:-1]`, `xs[0]`, `xs[1:]` of a tuple used as a vector, `max(xs)`, `range`.  Nothing here mentions a generated
definition, so this file is compiled once and is not affected by an edit of /repo.
-/
import RpylibModel.Basic.PyPrelude
import Mathlib.Tactic.Linarith
import Mathlib.Tactic.Ring

namespace Rpylib.SrcTie.C14b
open Rpylib.Py

/-! ### `while` loops -/

/-- a loop with an invariant `Inv` and a variant `μ` that fits in the fuel ends (never runs out of fuel), in a state that
satisfies the invariant and falsifies the loop condition -/
theorem whileLoop_spec {σ : Type} {cond : σ → Bool} {body : σ → σ} (Inv : σ → Prop) (μ : σ → Nat)
    (hstep : ∀ s, Inv s → cond s = true → Inv (body s) ∧ μ (body s) < μ s) :
    ∀ (fuel : Nat) (s : σ), Inv s → μ s ≤ fuel → ∃ s', whileLoop cond body fuel s = some s' ∧ Inv s' ∧ cond s' = false := by
  intro fuel
  induction fuel with
  | zero =>
    intro s hI hμ
    cases hc : cond s with
    | false => exact ⟨s, by simp [whileLoop, hc], hI, hc⟩
    | true => have := (hstep s hI hc).2; omega
  | succ n ih =>
    intro s hI hμ
    cases hc : cond s with
    | false => exact ⟨s, by simp [whileLoop, hc], hI, hc⟩
    | true =>
      obtain ⟨h1, h2⟩ := hstep s hI hc
      obtain ⟨s', e, hI', hc'⟩ := ih (body s) h1 (by omega)
      exact ⟨s', by simp [whileLoop, hc, e], hI', hc'⟩

/-- the same for a loop result that has been named (`generalize h : whileLoop _ _ _ _ = w`) -/
theorem whileLoop_elim {σ : Type} {cond : σ → Bool} {body : σ → σ} {fuel : Nat} {s : σ} {w : Option σ}
    (hw : whileLoop cond body fuel s = w) (Inv : σ → Prop) (μ : σ → Nat) (h0 : Inv s) (hf : μ s ≤ fuel)
    (hstep : ∀ s, Inv s → cond s = true → Inv (body s) ∧ μ (body s) < μ s) :
    ∃ s', w = some s' ∧ Inv s' ∧ cond s' = false := by
  obtain ⟨s', e, h1, h2⟩ := whileLoop_spec Inv μ hstep fuel s h0 hf
  exact ⟨s', by rw [← hw, e], h1, h2⟩

/-! ### tuples used as vectors -/

theorem idx_neg_one_snoc {α : Type} [Inhabited α] (l : List α) (a : α) : idx (l ++ [a]) (-1) = a := by
  have h1 : ((-1 : Int) < 0) := by decide
  have h2 : (l ++ [a]).length - (-(-1 : Int)).toNat = l.length := by simp
  simp only [idx, h1, if_true, h2]
  simp

theorem sliceTo_neg_one_snoc {α : Type} (l : List α) (a : α) : sliceTo (l ++ [a]) (-1) = l := by
  have h1 : ((-1 : Int) < 0) := by decide
  have h2 : (l ++ [a]).length - (-(-1 : Int)).toNat = l.length := by simp
  simp only [sliceTo, h1, if_true, h2]
  simp

theorem idx_zero_cons {α : Type} [Inhabited α] (a : α) (l : List α) : idx (a :: l) 0 = a := by
  simp [idx]

theorem idx_one_cons {α : Type} [Inhabited α] (a b : α) (l : List α) : idx (a :: b :: l) 1 = b := by
  simp [idx]

theorem sliceFrom_one_cons {α : Type} (a : α) (l : List α) : sliceFrom (a :: l) 1 = l := by
  simp [sliceFrom]

/-- a list of length at least one is `init ++ [last]` -/
theorem exists_snoc {α : Type} (l : List α) (h : l ≠ []) : ∃ i a, l = i ++ [a] :=
  ⟨l.dropLast, l.getLast h, (List.dropLast_concat_getLast h).symm⟩

/-- induction from the right end of a list -/
theorem snoc_induction {α : Type} {P : List α → Prop} (hnil : P []) (hsnoc : ∀ l a, P l → P (l ++ [a])) (l : List α) : P l := by
  have h : ∀ r : List α, P r.reverse := by
    intro r
    induction r with
    | nil => exact hnil
    | cons a t ih => rw [List.reverse_cons]; exact hsnoc _ _ ih
  simpa using h l.reverse

/-! ### `max(xs)` -/

/-- the maximum of a list of integers, 0 for the empty list -/
def lmax : List Int → Int
  | [] => 0
  | [x] => x
  | x :: t => max x (lmax t)

theorem imax_eq_max (a b : Int) : imax a b = max a b := by
  simp only [imax]; split_ifs <;> omega

theorem foldl_imax_eq (t : List Int) : ∀ x : Int, List.foldl imax x t = max x (List.foldl imax (t.headD x) t.tail) := by
  induction t with
  | nil => intro x; simp
  | cons y t ih =>
    intro x
    simp only [List.foldl_cons, List.headD_cons, List.tail_cons]
    rw [ih (imax x y)]
    cases t with
    | nil => simp [imax_eq_max]
    | cons z t' =>
      simp only [List.headD_cons, List.tail_cons]
      rw [ih y]
      simp only [List.headD_cons, List.tail_cons, imax_eq_max]
      omega

/-- `max(xs)` as translated (`foldl imax` from the first element over the rest) is the maximum -/
theorem pyMax_eq_lmax (l : List Int) : List.foldl imax (l.headD 0) l.tail = lmax l := by
  induction l with
  | nil => rfl
  | cons x t ih =>
    simp only [List.headD_cons, List.tail_cons]
    cases t with
    | nil => rfl
    | cons y t' =>
      rw [foldl_imax_eq]
      simp only [List.headD_cons, List.tail_cons] at ih ⊢
      rw [ih]
      rfl

theorem le_lmax : ∀ (l : List Int) (x : Int), x ∈ l → x ≤ lmax l
  | [], _, h => by simp at h
  | [y], x, h => by simp at h; simp [lmax, h]
  | y :: z :: t, x, h => by
    have ih := le_lmax (z :: t) x
    simp only [List.mem_cons] at h ih
    simp only [lmax]
    rcases h with h | h
    · omega
    · have := ih (by simpa using h); omega

theorem lmax_mem : ∀ (l : List Int), l ≠ [] → lmax l ∈ l
  | [], h => absurd rfl h
  | [y], _ => by simp [lmax]
  | y :: z :: t, _ => by
    have ih := lmax_mem (z :: t) (by simp)
    simp only [lmax]
    rcases le_total y (lmax (z :: t)) with h | h
    · rw [max_eq_right h]; exact List.mem_cons_of_mem _ ih
    · rw [max_eq_left h]; exact List.mem_cons_self

/-! ### `range`, loops that append, loops that keep a running maximum -/

theorem mem_pyRange (a b k : Int) : k ∈ range a b ↔ a ≤ k ∧ k < b := by
  simp only [range, List.mem_map, List.mem_range]
  constructor
  · rintro ⟨n, hn, rfl⟩; omega
  · intro ⟨h1, h2⟩; exact ⟨(k - a).toNat, by omega, by omega⟩

/-- a loop whose body appends one value to each of two lists builds the two `map`s -/
theorem foldl_two_appends {α β γ : Type} {F : List β × List γ → α → List β × List γ} {f : α → β} {g : α → γ}
    (hF : ∀ st x, F st x = (st.1 ++ [f x], st.2 ++ [g x])) : ∀ (l : List α) (a : List β) (b : List γ),
    List.foldl F (a, b) l = (a ++ l.map f, b ++ l.map g) := by
  intro l
  induction l with
  | nil => intro a b; simp
  | cons x t ih => intro a b; simp only [List.foldl_cons, hF, ih, List.map_cons, List.append_assoc, List.singleton_append]

/-- a loop that never lowers the measure `μ` of its state and lifts it above every `good` value of the current item ends
above the `good` values of all items -/
theorem foldl_mono_inv {σ α : Type} (G : σ → α → σ) (μ : σ → Int) (good : α → Int → Prop)
    (hG : ∀ st x, μ st ≤ μ (G st x) ∧ ∀ t, good x t → t ≤ μ (G st x)) :
    ∀ (l : List α) (st : σ), μ st ≤ μ (List.foldl G st l) ∧ ∀ x ∈ l, ∀ t, good x t → t ≤ μ (List.foldl G st l) := by
  intro l
  induction l with
  | nil => intro st; exact ⟨le_refl _, fun x hx => by simp at hx⟩
  | cons y t ih =>
    intro st
    obtain ⟨h1, h2⟩ := hG st y
    obtain ⟨i1, i2⟩ := ih (G st y)
    simp only [List.foldl_cons]
    refine ⟨le_trans h1 i1, fun x hx u hu => ?_⟩
    rcases List.mem_cons.mp hx with rfl | hx
    · exact le_trans (h2 u hu) i1
    · exact i2 x hx u hu

/-- `x for x, y in zip(values, flags) if not y` contains the value of every item whose flag is false -/
theorem mem_unflagged {α : Type} (l : List α) (g : α → Int) (f : α → Bool) (x : α) (hx : x ∈ l) (hf : f x = false) :
    g x ∈ List.map (fun (p : Int × Bool) => p.1)
      (List.filter (fun (p : Int × Bool) => decide (¬ (p.2 = true))) (List.zip (l.map g) (l.map f))) := by
  induction l with
  | nil => simp at hx
  | cons y t ih =>
    simp only [List.map_cons, List.zip_cons_cons, List.filter_cons]
    rcases List.mem_cons.mp hx with rfl | hx
    · simp [hf]
    · split_ifs
      · exact List.mem_cons_of_mem _ (ih hx)
      · exact ih hx

end Rpylib.SrcTie.C14b
