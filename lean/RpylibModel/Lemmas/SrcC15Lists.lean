/-
C15, source-derived tie — list lemmas that connect the Python built-ins of `RpylibModel/Basic/PyPrelude.lean` (as they occur
in the translated path builders, `RpylibModel/Generated/SrcC15.lean`) to the list functions of the hand-written model
(`RpylibModel/Model/Path.lean`) and that evaluate the loops (`List.foldl` over `enumerate`) of the translated code.
-/
import RpylibModel.Basic.PyPrelude
import RpylibModel.Model.Path
import RpylibModel.Proofs.Lemmas.C15Lists
import Mathlib.Tactic.Linarith
import Mathlib.Tactic.Ring
import Mathlib.Algebra.Order.Field.Rat

namespace Rpylib.SrcTie.C15
open Rpylib.Path

/-! ### `np.cumsum`, `sum`, `np.diff`, `x[-1]` -/

theorem pyCumsumFrom_eq (acc : Rat) (l : List Rat) : Rpylib.Py.cumsumFrom acc l = cumsumFrom acc l := by
  induction l generalizing acc with
  | nil => rfl
  | cons x t ih => simp only [Rpylib.Py.cumsumFrom, cumsumFrom, ih]

theorem pyCumsum_eq (l : List Rat) : Rpylib.Py.cumsum l = cumsum l := pyCumsumFrom_eq 0 l

theorem listSum_eq (l : List Rat) : l.sum = sumL l := by
  induction l with
  | nil => rfl
  | cons x t ih => simp only [List.sum_cons, sumL, ih]

theorem pyDiffFrom_eq (p : Rat) (l : List Rat) : Rpylib.Py.diffFrom p l = diffsFrom p l := by
  induction l generalizing p with
  | nil => rfl
  | cons x t ih => simp only [Rpylib.Py.diffFrom, diffsFrom, ih]

theorem pyDiff_cons (x : Rat) (l : List Rat) : Rpylib.Py.diff (x :: l) = diffsFrom x l := by
  simp only [Rpylib.Py.diff, pyDiffFrom_eq]

/-- `xs[-1]` of a non-empty list is its last element -/
theorem idx_neg_one (d : Rat) (l : List Rat) (h : l ≠ []) : Rpylib.Py.idx l (-1) = lastD d l := by
  have h1 : ((-1 : Int) < 0) := by decide
  simp only [Rpylib.Py.idx, h1, if_true]
  rw [lastD_eq_getLast?]
  obtain ⟨a, ha⟩ : ∃ a, l.getLast? = some a := by
    cases hl : l.getLast? with
    | none => exact absurd (List.getLast?_eq_none_iff.mp hl) h
    | some a => exact ⟨a, rfl⟩
  rw [ha, Option.getD_some]
  have : l.length - (-(-1 : Int)).toNat = l.length - 1 := by simp
  rw [this, List.getD_eq_getElem?_getD, ← List.getLast?_eq_getElem?, ha, Option.getD_some]

/-- `xs[len(xs) - 1]` of a non-empty list is its last element -/
theorem idx_length_sub_one (d : Rat) (l : List Rat) (h : l ≠ []) : Rpylib.Py.idx l ((l.length : Int) - 1) = lastD d l := by
  have hl : 0 < l.length := List.length_pos_iff.mpr h
  have h1 : ¬ (((l.length : Int) - 1) < 0) := by omega
  have h2 : ((l.length : Int) - 1).toNat = l.length - 1 := by omega
  simp only [Rpylib.Py.idx, h1, if_false, h2]
  rw [lastD_eq_getLast?]
  obtain ⟨a, ha⟩ : ∃ a, l.getLast? = some a := by
    cases hl' : l.getLast? with
    | none => exact absurd (List.getLast?_eq_none_iff.mp hl') h
    | some a => exact ⟨a, rfl⟩
  rw [ha, Option.getD_some, List.getD_eq_getElem?_getD, ← List.getLast?_eq_getElem?, ha, Option.getD_some]

/-! ### `enumerate` -/

/-- `enumerate(xs, start)` as a recursion -/
def enumI {α : Type} : Nat → List α → List (Int × α)
  | _, [] => []
  | s, x :: r => ((s : Int), x) :: enumI (s + 1) r

theorem range'_zip_eq_enumI {α : Type} (xs : List α) (s : Nat) :
    ((List.range' s xs.length).map (fun (k : Nat) => (0 : Int) + (k : Int))).zip xs = enumI s xs := by
  induction xs generalizing s with
  | nil => simp [enumI]
  | cons x r ih =>
    simp only [List.length_cons, List.range'_succ, List.map_cons, List.zip_cons_cons, enumI, ih]
    simp

theorem enumerate_eq {α : Type} (xs : List α) : Rpylib.Py.enumerate xs = enumI 0 xs := by
  have : ((xs.length : Int) - 0).toNat = xs.length := by simp
  simp only [Rpylib.Py.enumerate, Rpylib.Py.range, this, List.range_eq_range']
  exact range'_zip_eq_enumI xs 0

@[simp] theorem enumI_length {α : Type} (s : Nat) (xs : List α) : (enumI s xs).length = xs.length := by
  induction xs generalizing s with
  | nil => rfl
  | cons x r ih => simp [enumI, ih]

theorem enumI_map_snd {α : Type} (s : Nat) (xs : List α) : (enumI s xs).map (fun p => p.2) = xs := by
  induction xs generalizing s with
  | nil => rfl
  | cons x r ih => simp [enumI, ih]

/-! ### stores `xs[k] = v` -/

theorem setAt_append_length (pre rest : List Rat) (y z : Rat) :
    Rpylib.Py.setAt (pre ++ y :: rest) (pre.length : Int) z = pre ++ z :: rest := by
  have h : ¬ ((pre.length : Int) < 0) := by omega
  simp only [Rpylib.Py.setAt, h, if_false, Int.toNat_natCast]
  clear h
  induction pre with
  | nil => rfl
  | cons a t ih => simp only [List.cons_append, List.length_cons, List.set_cons_succ, ih]

/-- a loop `for k, x in enumerate(xs): if p(x): vals[k] = v(x)` on an array of zeros -/
theorem foldl_cond_setAt {α : Type} (step : List Rat → Int × α → List Rat) (p : α → Prop) [DecidablePred p] (v : α → Rat)
    (hstep : ∀ vals k x, step vals (k, x) = if p x then Rpylib.Py.setAt vals k (v x) else vals)
    (xs : List α) (pre : List Rat) :
    List.foldl step (pre ++ List.replicate xs.length 0) (enumI pre.length xs)
      = pre ++ xs.map (fun x => if p x then v x else 0) := by
  induction xs generalizing pre with
  | nil => simp [enumI]
  | cons x r ih =>
    simp only [List.length_cons, List.replicate_succ, enumI, List.foldl_cons, hstep, List.map_cons]
    have key : (if p x then Rpylib.Py.setAt (pre ++ 0 :: List.replicate r.length 0) (pre.length : Int) (v x)
        else pre ++ 0 :: List.replicate r.length 0) = (pre ++ [if p x then v x else 0]) ++ List.replicate r.length 0 := by
      split
      · rw [setAt_append_length]; simp
      · simp
    rw [key]
    have := ih (pre ++ [if p x then v x else 0])
    simp only [List.length_append, List.length_cons, List.length_nil, Nat.zero_add] at this
    rw [this]; simp

/-- a loop `for k, d in enumerate(ds): cur += c(k, d); vals[k] = cur` (the position is known twice: once from the Python
    `enumerate`, once from the translator's own enumeration) -/
theorem foldl_running_setAt (step : Rat × List Rat → Int × (Int × Int) → Rat × List Rat) (c : Int → Int → Int → Rat)
    (hstep : ∀ cur vals ix k d, step (cur, vals) (ix, (k, d)) = (cur + c ix k d, Rpylib.Py.setAt vals k (cur + c ix k d)))
    (ds : List Int) (pre junk : List Rat) (hj : junk.length = ds.length) (cur : Rat) :
    (List.foldl step (cur, pre ++ junk) (enumI pre.length (enumI pre.length ds))).2
      = pre ++ cumsumFrom cur ((enumI pre.length ds).map (fun q => c q.1 q.1 q.2)) := by
  induction ds generalizing pre junk cur with
  | nil =>
    have : junk = [] := List.length_eq_zero_iff.mp hj
    simp [enumI, cumsumFrom, this]
  | cons d r ih =>
    match junk, hj with
    | y :: rest, hj =>
      simp only [enumI, List.foldl_cons, hstep, List.map_cons, cumsumFrom, setAt_append_length]
      have h2 : rest.length = r.length := by simpa using hj
      have := ih (pre ++ [cur + c (pre.length : Int) (pre.length : Int) d]) rest h2 (cur + c (pre.length : Int) (pre.length : Int) d)
      simp only [List.length_append, List.length_cons, List.length_nil, Nat.zero_add, List.append_assoc,
        List.singleton_append] at this
      rw [this]

/-! ### the loop over the product intervals -/

/-- consecutive (later, earlier) pairs: `zip(times[1:], times)` -/
def pairs : List Rat → List (Rat × Rat)
  | a :: b :: r => (b, a) :: pairs (b :: r)
  | _ => []

theorem zip_sliceFrom_one (ts : List Rat) : List.zip (Rpylib.Py.sliceFrom ts 1) ts = pairs ts := by
  have h : ¬ ((1 : Int) < 0) := by decide
  simp only [Rpylib.Py.sliceFrom, h, if_false]
  show List.zip (ts.drop 1) ts = pairs ts
  induction ts with
  | nil => rfl
  | cons a t ih =>
    cases t with
    | nil => rfl
    | cons b r => simp only [List.drop_succ_cons, List.drop_zero, List.zip_cons_cons, pairs] at ih ⊢; rw [← ih]

/-- concatenation over the product intervals `k = s, s+1, …` of a block built from (position, later date, earlier date) -/
def blocks (F : Nat → Rat → Rat → List Rat) : Nat → List Rat → List Rat
  | s, a :: b :: r => F s b a ++ blocks F (s + 1) (b :: r)
  | _, _ => []

/-- a loop over `enumerate(zip(times[1:], times))` that appends one block to each of two arrays -/
theorem foldl_pairs_append (step : List Rat × List Rat → Int × (Int × (Rat × Rat)) → List Rat × List Rat)
    (f g : Int → Int → Rat → Rat → List Rat)
    (hstep : ∀ a b ix k tp tm, step (a, b) (ix, (k, (tp, tm))) = (a ++ f ix k tp tm, b ++ g ix k tp tm))
    (ts : List Rat) (s : Nat) (a b : List Rat) :
    List.foldl step (a, b) (enumI s (enumI s (pairs ts)))
      = (a ++ blocks (fun k tp tm => f k k tp tm) s ts, b ++ blocks (fun k tp tm => g k k tp tm) s ts) := by
  induction ts generalizing s a b with
  | nil => simp [pairs, enumI, blocks]
  | cons x t ih =>
    cases t with
    | nil => simp [pairs, enumI, blocks]
    | cons y r =>
      simp only [pairs, enumI, List.foldl_cons, hstep, blocks]
      rw [ih]; simp

/-! ### sums read through indices -/

theorem sumL_take_range (L : List Rat) (k : Nat) (hk : k ≤ L.length) :
    sumL (L.take k) = sumL ((List.range k).map (fun j => L.getD j 0)) := by
  induction k with
  | zero => simp [sumL]
  | succ k ih =>
    have hk' : k < L.length := by omega
    rw [List.take_add_one, List.range_succ, List.map_append, sumL_append, sumL_append, ih (by omega)]
    simp [List.getElem?_eq_getElem hk', sumL, List.getD_eq_getElem?_getD]

theorem getD_zipWith_mul (a b : List Rat) (j : Nat) :
    (List.zipWith (fun (x y : Rat) => x * y) a b).getD j 0 = a.getD j 0 * b.getD j 0 := by
  simp only [List.getD_eq_getElem?_getD, List.getElem?_zipWith]
  cases a[j]? <;> cases b[j]? <;> simp

theorem getD_map_mul_right (a : List Rat) (c : Rat) (j : Nat) :
    (a.map (fun x => x * c)).getD j 0 = a.getD j 0 * c := by
  simp only [List.getD_eq_getElem?_getD, List.getElem?_map]
  cases a[j]? <;> simp

theorem getD_map_mul_left (a : List Rat) (c : Rat) (j : Nat) :
    (a.map (fun x => c * x)).getD j 0 = c * a.getD j 0 := by
  simp only [List.getD_eq_getElem?_getD, List.getElem?_map]
  cases a[j]? <;> simp

theorem sumL_map_congr {ι : Type} (l : List ι) (f g : ι → Rat) (h : ∀ j ∈ l, f j = g j) :
    sumL (l.map f) = sumL (l.map g) := by
  rw [List.map_congr_left h]

/-- entry `i` of `np.cumsum(L)` is the sum of the entries `0..i` of `L` -/
theorem cumsum_getElem?_range (L : List Rat) (i : Nat) (hi : i < L.length) :
    (cumsum L)[i]? = some (sumL ((List.range (i + 1)).map (fun j => L.getD j 0))) := by
  rw [cumsum, cumsumFrom_getElem?, if_pos hi, sumL_take_range L (i + 1) (by omega)]; simp

/-! ### facts about `blocks` -/

theorem blocks_length_congr (F G : Nat → Rat → Rat → List Rat) (h : ∀ k tp tm, (F k tp tm).length = (G k tp tm).length)
    (s : Nat) (ts : List Rat) : (blocks F s ts).length = (blocks G s ts).length := by
  induction ts generalizing s with
  | nil => simp [blocks]
  | cons a t ih =>
    cases t with
    | nil => simp [blocks]
    | cons b r => simp only [blocks, List.length_append, h, ih]

/-- for strictly increasing dates and blocks that are strictly increasing inside their own interval, the concatenation
    is strictly increasing and stays strictly between the first and the last date -/
theorem blocks_facts (F : Nat → Rat → Rat → List Rat)
    (hF : ∀ k tp tm, tm < tp → (F k tp tm).Pairwise (· < ·) ∧ ∀ x ∈ F k tp tm, tm < x ∧ x < tp)
    (r : List Rat) : ∀ (a : Rat) (s : Nat), (a :: r).Pairwise (· < ·) →
      a ≤ lastD a r ∧ (blocks F s (a :: r)).Pairwise (· < ·) ∧ ∀ x ∈ blocks F s (a :: r), a < x ∧ x < lastD a r := by
  induction r with
  | nil => intro a s _; simp [blocks, lastD]
  | cons b r ih =>
    intro a s h
    rw [List.pairwise_cons] at h
    obtain ⟨hab, hbr⟩ := h
    have hlt : a < b := hab b (by simp)
    obtain ⟨hle, hpw, hin⟩ := ih b (s + 1) hbr
    obtain ⟨h1, h2⟩ := hF s b a hlt
    simp only [blocks, lastD]
    refine ⟨by linarith, ?_, ?_⟩
    · rw [List.pairwise_append]
      refine ⟨h1, hpw, ?_⟩
      intro x hx y hy
      have := (h2 x hx).2
      have := (hin y hy).1
      linarith
    · intro x hx
      rw [List.mem_append] at hx
      rcases hx with hx | hx
      · have := h2 x hx; constructor <;> linarith
      · have := hin x hx; constructor <;> linarith

theorem length_flatMap_enumI_of_singletons {α : Type} (f : Int × α → List Rat) (s : Nat) (l : List α)
    (h : ∀ q, (f q).length = 1) : ((enumI s l).flatMap f).length = l.length := by
  induction l generalizing s with
  | nil => rfl
  | cons x r ih => simp [enumI, h, ih]; omega

/-! ### the same loop written over positions: `for k in range(len(times) - 1): tm, tp = times[k], times[k + 1]` -/

theorem idx_natCast (ts : List Rat) (k : Nat) : Rpylib.Py.idx ts (k : Int) = ts.getD k default := by
  have h : ¬ ((k : Int) < 0) := by omega
  simp only [Rpylib.Py.idx, h, if_false, Int.toNat_natCast]

theorem idx_natCast_succ (ts : List Rat) (k : Nat) : Rpylib.Py.idx ts ((k : Int) + 1) = ts.getD (k + 1) default := by
  have := idx_natCast ts (k + 1)
  simpa using this

theorem pyRange_zero (n : Nat) : Rpylib.Py.range 0 (n : Int) = (List.range' 0 n).map (fun (k : Nat) => (0 : Int) + (k : Int)) := by
  simp [Rpylib.Py.range, List.range_eq_range']

/-- a loop over `range(n)` that appends one block to each of two arrays -/
theorem foldl_range_append (step : List Rat × List Rat → Int × Int → List Rat × List Rat) (f g : Int → Int → List Rat)
    (hstep : ∀ a b ix k, step (a, b) (ix, k) = (a ++ f ix k, b ++ g ix k)) (n : Nat) :
    ∀ (s : Nat) (a b : List Rat),
    List.foldl step (a, b) (enumI s ((List.range' s n).map (fun (k : Nat) => (0 : Int) + (k : Int))))
      = (a ++ (List.range' s n).flatMap (fun (k : Nat) => f (k : Int) (k : Int)),
         b ++ (List.range' s n).flatMap (fun (k : Nat) => g (k : Int) (k : Int))) := by
  induction n with
  | zero => intro s a b; simp [enumI]
  | succ n ih =>
    intro s a b
    simp only [List.range'_succ, List.map_cons, enumI, List.foldl_cons, hstep, List.flatMap_cons]
    rw [ih]; simp

/-- `blocks` read through positions -/
theorem blocks_eq_flatMap_range (F : Nat → Rat → Rat → List Rat) (ts : List Rat) : ∀ (s : Nat),
    blocks F s ts = (List.range (ts.length - 1)).flatMap (fun j => F (s + j) (ts.getD (j + 1) default) (ts.getD j default)) := by
  induction ts with
  | nil => intro s; simp [blocks]
  | cons a t ih =>
    intro s
    cases t with
    | nil => simp [blocks]
    | cons b r =>
      have := ih (s + 1)
      simp only [List.length_cons, Nat.add_sub_cancel] at this ⊢
      rw [blocks, this, List.range_succ_eq_map, List.flatMap_cons, List.flatMap_map]
      simp only [Nat.add_zero, List.getD_cons_zero, List.getD_cons_succ, Nat.zero_add]
      congr 1
      simp only [List.flatMap_def]
      congr 1
      apply List.map_congr_left
      intro j _
      simp [Nat.add_assoc, Nat.add_comm 1 j]

theorem pyRange_len_sub_one (n : Nat) :
    Rpylib.Py.range 0 ((n : Int) - 1) = (List.range' 0 (n - 1)).map (fun (k : Nat) => (0 : Int) + (k : Int)) := by
  have : ((n : Int) - 1 - 0).toNat = n - 1 := by omega
  simp [Rpylib.Py.range, this, List.range_eq_range']

end Rpylib.SrcTie.C15
