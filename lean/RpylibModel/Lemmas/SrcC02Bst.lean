/-
Source-derived tie for C02, binary-search-tree construction: the loop of `create_binary_search_tree` (an in-order walk of the
implicit heap with an explicit stack) as an abstract machine, and its relation with the recursive walk `Bst.walk` of the
hand-written model.  Nothing here mentions the generated definitions.
-/
import RpylibModel.Lemmas.SrcC02Basic
import RpylibModel.Proofs.Lemmas.C02BstBuild
import Mathlib.Logic.Function.Iterate

namespace Rpylib.SrcTie.C02
open Rpylib.Py Rpylib.Bst

/-- machine state: table, running sum, node, stack of pending internal nodes (top = head) -/
abbrev MS := List Rat × Rat × Nat × List Nat

/-- one iteration of the loop body (binarysearchtree.py:51-58) -/
def mstep (K : Nat) : MS → MS
  | (B, c, ptr, S) =>
    if ptr ≤ K then (B, c, 2 * ptr, ptr :: S)
    else match S with
      | t :: S' => (B.set (t - 1) (c + B.getD (ptr - 1) 0), c + B.getD (ptr - 1) 0, 2 * t + 1, S')
      | [] => (B, c, ptr, S)

/-- the exit test `ptr > k and not len(stack)` -/
def mexit (K : Nat) : MS → Bool
  | (_, _, ptr, S) => decide (K < ptr ∧ S = [])

/-- the assignments `bst[node - 1] = value`, in order -/
def assign (B : List Rat) (tl : List (Nat × Rat)) : List Rat := tl.foldl (fun B e => B.set (e.1 - 1) e.2) B

theorem assign_append (B : List Rat) (t1 t2 : List (Nat × Rat)) : assign B (t1 ++ t2) = assign (assign B t1) t2 := by
  simp [assign, List.foldl_append]

theorem assign_length (B : List Rat) (tl : List (Nat × Rat)) : (assign B tl).length = B.length := by
  induction tl generalizing B with
  | nil => rfl
  | cons e tl ih => simp only [assign, List.foldl_cons] at ih ⊢; rw [ih]; simp

/-- entries that are not assigned keep their value -/
theorem assign_other (tl : List (Nat × Rat)) : ∀ (B : List Rat) (j : Nat), (∀ e ∈ tl, e.1 - 1 ≠ j) →
    (assign B tl).getD j 0 = B.getD j 0 := by
  induction tl with
  | nil => intro B j _; rfl
  | cons e tl ih =>
    intro B j h
    simp only [assign, List.foldl_cons] at ih ⊢
    rw [ih _ j (fun e' he' => h e' (by simp [he']))]
    have : e.1 - 1 ≠ j := h e (by simp)
    simp [List.getD_eq_getElem?_getD, List.getElem?_set_ne this]

/-- an entry assigned once (keys pairwise distinct, inside the table) holds its value -/
theorem assign_get (tl : List (Nat × Rat)) : ∀ (B : List Rat), List.Pairwise (fun a b : Nat × Rat => a.1 ≠ b.1) tl →
    (∀ e ∈ tl, 1 ≤ e.1 ∧ e.1 ≤ B.length) → ∀ e ∈ tl, (assign B tl).getD (e.1 - 1) 0 = e.2 := by
  induction tl with
  | nil => intro B _ _ e he; simp at he
  | cons x tl ih =>
    intro B hpw hk e he
    rw [List.pairwise_cons] at hpw
    simp only [assign, List.foldl_cons]
    rcases List.mem_cons.mp he with rfl | he'
    · have := assign_other tl (B.set (e.1 - 1) e.2) (e.1 - 1) (by
        intro e' he' heq
        have h1 := hpw.1 e' he'
        have h2 := (hk e' (by simp [he'])).1
        have h3 := (hk e (by simp)).1
        omega)
      simp only [assign] at this
      rw [this]
      have hlt : e.1 - 1 < B.length := by have := hk e (by simp); omega
      simp [List.getD_eq_getElem?_getD, hlt]
    · have := ih (B.set (x.1 - 1) x.2) hpw.2 (by
        intro e' he'; have := hk e' (by simp [he']); simpa using this) e he'
      simpa [assign] using this

/-- the leaves of the heap array hold the probability vector -/
def LeavesOK (K : Nat) (p : Nat → Rat) (B : List Rat) : Prop := B.length = 2 * K + 1 ∧ ∀ i, i ≤ K → B.getD (K + i) 0 = p i

theorem walk_keys_range (K : Nat) (p : Nat → Rat) : ∀ (fuel ptr : Nat) (acc : Rat), 1 ≤ ptr →
    ∀ e ∈ (walk K p fuel ptr acc).1, 1 ≤ e.1 ∧ e.1 ≤ K := by
  intro fuel
  induction fuel with
  | zero => intro ptr acc _ e he; simp [walk] at he
  | succ fuel ih =>
    intro ptr acc h1 e he
    by_cases hp : ptr ≤ K
    · rw [walk_le K p fuel ptr acc hp] at he
      simp only [List.mem_append, List.mem_cons] at he
      rcases he with he | rfl | he
      · exact ih _ _ (by omega) e he
      · exact ⟨h1, hp⟩
      · exact ih _ _ (by omega) e he
    · rw [walk_gt K p fuel ptr acc hp] at he; simp at he

theorem leavesOK_assign {K : Nat} {p : Nat → Rat} {B : List Rat} (h : LeavesOK K p B) (tl : List (Nat × Rat))
    (hk : ∀ e ∈ tl, 1 ≤ e.1 ∧ e.1 ≤ K) : LeavesOK K p (assign B tl) := by
  refine ⟨by rw [assign_length]; exact h.1, fun i hi => ?_⟩
  rw [assign_other tl B (K + i) (fun e he => by have := hk e he; omega)]
  exact h.2 i hi

def NoExit (K : Nat) (n : Nat) (s : MS) : Prop := ∀ i, i < n → mexit K ((mstep K)^[i] s) = false

theorem noExit_compose {K n1 n2 : Nat} {s : MS} (h1 : NoExit K n1 s) (h2 : NoExit K n2 ((mstep K)^[n1] s)) :
    NoExit K (n1 + n2) s := by
  intro i hi
  by_cases h : i < n1
  · exact h1 i h
  · have := h2 (i - n1) (by omega)
    rw [← Function.iterate_add_apply, show i - n1 + n1 = i by omega] at this
    exact this

theorem iter3 {α : Type} (g : α → α) (n1 n2 : Nat) (s : α) : g^[n2 + (n1 + 1)] s = g^[n2] (g^[n1] (g s)) := by
  rw [Function.iterate_add_apply, Function.iterate_add_apply, Function.iterate_one]

/-- **a subtree below a pending parent `t`**: after `2·#internal + 1` iterations the subtree rooted at `ptr` is finished: its
    internal nodes hold the values of the recursive walk, the parent `t` holds the running sum, the machine stands at the
    parent's right child, and the exit test was false all the way (the stack still held `t`) -/
theorem sub_run (K : Nat) (p : Nat → Rat) : ∀ (f ptr : Nat), Ok K f ptr → ∀ (B : List Rat) (c : Rat) (t : Nat) (S : List Nat),
    LeavesOK K p B →
    (mstep K)^[2 * (walk K p f ptr c).1.length + 1] (B, c, ptr, t :: S) =
      (assign B ((walk K p f ptr c).1 ++ [(t, (walk K p f ptr c).2)]), (walk K p f ptr c).2, 2 * t + 1, S) ∧
    NoExit K (2 * (walk K p f ptr c).1.length + 1) (B, c, ptr, t :: S) := by
  intro f
  induction f with
  | zero => intro ptr h; exact h.zero.elim
  | succ f ih =>
    intro ptr hok B c t S hB
    by_cases hp : ptr ≤ K
    · -- internal node: push, left subtree (parent `ptr`), right subtree (parent `t`)
      obtain ⟨l1, l2⟩ := ih (2 * ptr) (hok.left hp) B c ptr (t :: S) hB
      set tl1 := (walk K p f (2 * ptr) c).1 with htl1
      set a1 := (walk K p f (2 * ptr) c).2 with ha1
      have hB1 : LeavesOK K p (assign B (tl1 ++ [(ptr, a1)])) := leavesOK_assign hB _ (by
        intro e he
        rcases List.mem_append.mp he with h | h
        · exact walk_keys_range K p f (2 * ptr) c (by have := hok.1; omega) e h
        · simp at h; subst h; exact ⟨hok.1, hp⟩)
      obtain ⟨r1, r2⟩ := ih (2 * ptr + 1) (hok.right hp) (assign B (tl1 ++ [(ptr, a1)])) a1 t S hB1
      set tl2 := (walk K p f (2 * ptr + 1) a1).1 with htl2
      set a2 := (walk K p f (2 * ptr + 1) a1).2 with ha2
      have hw : walk K p (f + 1) ptr c = (tl1 ++ (ptr, a1) :: tl2, a2) := walk_le K p f ptr c hp
      have hfirst : mstep K (B, c, ptr, t :: S) = (B, c, 2 * ptr, ptr :: t :: S) := by simp [mstep, hp]
      have hcount : 2 * (tl1 ++ (ptr, a1) :: tl2).length + 1 = (2 * tl2.length + 1) + ((2 * tl1.length + 1) + 1) := by
        simp only [List.length_append, List.length_cons]; omega
      rw [hw]
      simp only []
      rw [hcount]
      constructor
      · rw [iter3, hfirst, l1, r1, ← assign_append]
        congr 2
        simp
      · have e1 : (2 * tl2.length + 1) + ((2 * tl1.length + 1) + 1) = 1 + ((2 * tl1.length + 1) + (2 * tl2.length + 1)) := by omega
        rw [e1]
        apply noExit_compose
        · intro i hi
          have : i = 0 := by omega
          subst this
          simp [mexit]
        · rw [Function.iterate_one, hfirst]
          apply noExit_compose l2
          rw [l1]; exact r2
    · -- leaf: one iteration
      have hw : walk K p (f + 1) ptr c = ([], c + p (ptr - K - 1)) := walk_gt K p f ptr c hp
      have hleaf : B.getD (ptr - 1) 0 = p (ptr - K - 1) := by
        have := hB.2 (ptr - K - 1) (by have := hok.2.1; omega)
        rw [show K + (ptr - K - 1) = ptr - 1 by omega] at this
        exact this
      rw [hw]
      simp only [List.length_nil, Nat.mul_zero, Nat.zero_add, Function.iterate_one, List.nil_append]
      constructor
      · simp only [mstep, if_neg hp, hleaf, assign, List.foldl_cons, List.foldl_nil]
      · intro i hi
        have : i = 0 := by omega
        subst this
        simp [mexit]

/-- **the right spine with an empty stack**: from node `ptr` with nothing pending the machine finishes every internal node
    of the subtree of `ptr` and stops on the last leaf with the exit test true for the first time -/
theorem spine_run (K : Nat) (p : Nat → Rat) : ∀ (f ptr : Nat), Ok K f ptr → ∀ (B : List Rat) (c : Rat), LeavesOK K p B →
    ∃ c' ptr', (mstep K)^[2 * (walk K p f ptr c).1.length] (B, c, ptr, []) = (assign B (walk K p f ptr c).1, c', ptr', []) ∧
      K < ptr' ∧ NoExit K (2 * (walk K p f ptr c).1.length) (B, c, ptr, []) := by
  intro f
  induction f with
  | zero => intro ptr h; exact h.zero.elim
  | succ f ih =>
    intro ptr hok B c hB
    by_cases hp : ptr ≤ K
    · obtain ⟨l1, l2⟩ := sub_run K p f (2 * ptr) (hok.left hp) B c ptr [] hB
      set tl1 := (walk K p f (2 * ptr) c).1 with htl1
      set a1 := (walk K p f (2 * ptr) c).2 with ha1
      have hB1 : LeavesOK K p (assign B (tl1 ++ [(ptr, a1)])) := leavesOK_assign hB _ (by
        intro e he
        rcases List.mem_append.mp he with h | h
        · exact walk_keys_range K p f (2 * ptr) c (by have := hok.1; omega) e h
        · simp at h; subst h; exact ⟨hok.1, hp⟩)
      obtain ⟨c', ptr', r1, r2, r3⟩ := ih (2 * ptr + 1) (hok.right hp) (assign B (tl1 ++ [(ptr, a1)])) a1 hB1
      set tl2 := (walk K p f (2 * ptr + 1) a1).1 with htl2
      have hw : walk K p (f + 1) ptr c = (tl1 ++ (ptr, a1) :: tl2, (walk K p f (2 * ptr + 1) a1).2) := walk_le K p f ptr c hp
      have hfirst : mstep K (B, c, ptr, []) = (B, c, 2 * ptr, [ptr]) := by simp [mstep, hp]
      have hcount : 2 * (tl1 ++ (ptr, a1) :: tl2).length = (2 * tl2.length) + ((2 * tl1.length + 1) + 1) := by
        simp only [List.length_append, List.length_cons]; omega
      rw [hw]
      simp only []
      rw [hcount]
      refine ⟨c', ptr', ?_, r2, ?_⟩
      · rw [iter3, hfirst, l1, r1, ← assign_append]
        congr 2
        simp
      · have e1 : (2 * tl2.length) + ((2 * tl1.length + 1) + 1) = 1 + ((2 * tl1.length + 1) + (2 * tl2.length)) := by omega
        rw [e1]
        apply noExit_compose
        · intro i hi
          have : i = 0 := by omega
          subst this
          simp [mexit, hp]
        · rw [Function.iterate_one, hfirst]
          apply noExit_compose l2
          rw [l1]; exact r3
    · have hw : walk K p (f + 1) ptr c = ([], c + p (ptr - K - 1)) := walk_gt K p f ptr c hp
      rw [hw]
      exact ⟨c, ptr, rfl, by omega, fun i hi => absurd hi (Nat.not_lt_zero _)⟩

/-! ### `while` loops and iteration -/

/-- a loop whose condition holds along the first `n` iterates runs them -/
theorem whileLoop_run {σ : Type} (cond : σ → Bool) (g : σ → σ) : ∀ (n fuel : Nat) (s : σ),
    (∀ i, i < n → cond (g^[i] s) = true) → n ≤ fuel → whileLoop cond g fuel s = whileLoop cond g (fuel - n) (g^[n] s) := by
  intro n
  induction n with
  | zero => intro fuel s _ _; rfl
  | succ n ih =>
    intro fuel s h hle
    obtain ⟨fuel', rfl⟩ : ∃ f', fuel = f' + 1 := ⟨fuel - 1, by omega⟩
    have h0 : cond s = true := h 0 (by omega)
    rw [whileLoop, if_pos h0, ih fuel' (g s) (fun i hi => by
      have := h (i + 1) (by omega)
      rwa [Function.iterate_succ_apply] at this) (by omega)]
    rw [Function.iterate_succ_apply, show fuel' + 1 - (n + 1) = fuel' - n by omega]

theorem whileLoop_stop {σ : Type} (cond : σ → Bool) (g : σ → σ) (fuel : Nat) (s : σ) (h : cond s = false) :
    whileLoop cond g fuel s = some s := by
  cases fuel <;> simp [whileLoop, h]

/-- a loop on concrete states seen through an abstraction `α` -/
theorem whileLoop_map {σ τ : Type} (α : σ → τ) (W : σ → Prop) {cond : σ → Bool} {body : σ → σ} {cond' : τ → Bool} {g : τ → τ}
    (hc : ∀ s, W s → cond s = cond' (α s))
    (hb : ∀ s, W s → cond s = true → W (body s) ∧ α (body s) = g (α s)) :
    ∀ (fuel : Nat) (s : σ), W s → (whileLoop cond body fuel s).map α = whileLoop cond' g fuel (α s) := by
  intro fuel
  induction fuel with
  | zero =>
    intro s hW
    simp only [whileLoop, ← hc s hW]
    split_ifs <;> rfl
  | succ n ih =>
    intro s hW
    simp only [whileLoop, ← hc s hW]
    split_ifs with h
    · obtain ⟨h1, h2⟩ := hb s hW h
      rw [ih _ h1, h2]
    · rfl

/-- at most `K` pairwise distinct keys in `[1, K]` -/
theorem keys_length_le (K : Nat) (tl : List (Nat × Rat)) (hpw : List.Pairwise (fun a b : Nat × Rat => a.1 ≠ b.1) tl)
    (hk : ∀ e ∈ tl, 1 ≤ e.1 ∧ e.1 ≤ K) : tl.length ≤ K := by
  have hnd : (tl.map (·.1)).Nodup := by
    rw [List.Nodup, List.pairwise_map]; exact hpw
  have hsub : (tl.map (·.1)).toFinset ⊆ Finset.Icc 1 K := by
    intro x hx
    simp only [List.mem_toFinset, List.mem_map] at hx
    obtain ⟨e, he, rfl⟩ := hx
    exact Finset.mem_Icc.mpr (hk e he)
  have := Finset.card_le_card hsub
  rw [List.toFinset_card_of_nodup hnd, List.length_map, Nat.card_Icc] at this
  omega

/-- **the whole construction on the abstract machine**: `st = body(st0); while not exit(st): st = body(st)` with fuel
    `2·(K+1)` ends, and the final table is the initial one with the assignments of the recursive walk -/
theorem machine_run (K : Nat) (hK : 1 ≤ K) (p : Nat → Rat) (B : List Rat) (hB : LeavesOK K p B) :
    ∃ c ptr, whileLoop (fun s => !mexit K s) (mstep K) (2 * (K + 1)) (mstep K (B, 0, 1, [])) =
      some (assign B (walk K p (K + 1) 1 0).1, c, ptr, []) := by
  obtain ⟨c', ptr', h1, h2, h3⟩ := spine_run K p (K + 1) 1 (Ok.root K) B 0 hB
  set tl := (walk K p (K + 1) 1 0).1 with htl
  have hlen : tl.length ≤ K := keys_length_le K tl (walk_pairwise K p (K + 1) 1 0 (le_refl _))
    (walk_keys_range K p (K + 1) 1 0 (le_refl _))
  have hpos : 1 ≤ tl.length := by
    have hw := walk_le K p K 1 0 hK
    rw [htl, hw]; simp only [List.length_append, List.length_cons]; omega
  obtain ⟨n, hn⟩ : ∃ n, 2 * tl.length = n + 1 := ⟨2 * tl.length - 1, by omega⟩
  rw [hn] at h1 h3
  rw [Function.iterate_succ_apply] at h1
  refine ⟨c', ptr', ?_⟩
  rw [whileLoop_run _ _ n _ _ (fun i hi => by
    have := h3 (i + 1) (by omega)
    rw [Function.iterate_succ_apply] at this
    simp [this]) (by omega), h1]
  exact whileLoop_stop _ _ _ _ (by simp [mexit, h2])

/-! ### the loop on Python values (integers, deque with the top at the end) -/

/-- concrete loop state `(bst, ptr, stack, cum_probability)` (order of first binding in the function) -/
abbrev CS := List Rat × Int × List Int × Rat

def absCS : CS → MS
  | (B, ptr, st, c) => (B, c, ptr.toNat, st.reverse.map Int.toNat)

theorem bst_build_core (K : Nat) (hK : 1 ≤ K) (p : Nat → Rat) (B : List Rat) (hB : LeavesOK K p B)
    {cond : CS → Bool} {body : CS → CS} {r : Option CS}
    (hw : whileLoop cond body (2 * (K + 1)) (body (B, 1, [], 0)) = r)
    (hcond : ∀ B c (ptr : Int) st, cond (B, ptr, st, c) = true ↔ ¬ ((K : Int) < ptr ∧ st = []))
    (hint : ∀ B c (ptr : Int) st, 1 ≤ ptr → ptr ≤ K → body (B, ptr, st, c) = (B, 2 * ptr, st ++ [ptr], c))
    (hleaf : ∀ B c (ptr : Int) st (t : Int), (K : Int) < ptr → 1 ≤ t →
      body (B, ptr, st ++ [t], c) =
        (B.set (t.toNat - 1) (c + B.getD (ptr.toNat - 1) 0), 2 * t + 1, st, c + B.getD (ptr.toNat - 1) 0)) :
    ∃ s', r = some s' ∧ s'.1 = assign B (walk K p (K + 1) 1 0).1 := by
  let W : CS → Prop := fun s => 1 ≤ s.2.1 ∧ ∀ x ∈ s.2.2.1, (1 : Int) ≤ x
  have hc : ∀ s, W s → cond s = (fun m => !mexit K m) (absCS s) := by
    rintro ⟨B, ptr, st, c⟩ ⟨h1, _⟩
    have h1 : 1 ≤ ptr := h1
    have e : mexit K (absCS (B, ptr, st, c)) = decide ((K : Int) < ptr ∧ st = []) := by
      simp only [absCS, mexit]
      congr 1
      apply propext
      constructor
      · rintro ⟨a, b⟩
        exact ⟨by omega, by simpa using b⟩
      · rintro ⟨a, b⟩
        exact ⟨by omega, by simp [b]⟩
    simp only [e]
    cases hcc : cond (B, ptr, st, c) with
    | true => have := (hcond B c ptr st).mp hcc; simp [this]
    | false =>
      have : ¬ ¬ ((K : Int) < ptr ∧ st = []) := fun hn => by
        have := (hcond B c ptr st).mpr hn
        rw [hcc] at this; cases this
      simp [not_not.mp this]
  have hb : ∀ s, W s → cond s = true → W (body s) ∧ absCS (body s) = mstep K (absCS s) := by
    rintro ⟨B, ptr, st, c⟩ ⟨h1, h2⟩ hcs
    have h1 : 1 ≤ ptr := h1
    have h2 : ∀ x ∈ st, (1 : Int) ≤ x := h2
    by_cases hp : ptr ≤ K
    · rw [hint B c ptr st h1 hp]
      refine ⟨⟨by show 1 ≤ 2 * ptr; omega, ?_⟩, ?_⟩
      · intro x hx
        rcases List.mem_append.mp hx with h | h
        · exact h2 x h
        · simp at h; omega
      · have hpn : ptr.toNat ≤ K := by omega
        have e2 : (2 * ptr).toNat = 2 * ptr.toNat := by omega
        show (B, c, (2 * ptr).toNat, (st ++ [ptr]).reverse.map Int.toNat) = mstep K (B, c, ptr.toNat, st.reverse.map Int.toNat)
        rw [e2]
        simp [mstep, hpn]
    · have hne : st ≠ [] := by
        intro e
        exact (hcond B c ptr st).mp hcs ⟨by omega, e⟩
      obtain ⟨st', t, rfl⟩ := (List.eq_nil_or_concat' st).resolve_left hne
      have ht : 1 ≤ t := h2 t (by simp)
      rw [hleaf B c ptr st' t (by omega) ht]
      refine ⟨⟨by show 1 ≤ 2 * t + 1; omega, fun x hx => h2 x (by simp [hx])⟩, ?_⟩
      have hpn : ¬ ptr.toNat ≤ K := by omega
      have e2 : (2 * t + 1).toNat = 2 * t.toNat + 1 := by omega
      show (B.set (t.toNat - 1) (c + B.getD (ptr.toNat - 1) 0), c + B.getD (ptr.toNat - 1) 0, (2 * t + 1).toNat,
          st'.reverse.map Int.toNat) = mstep K (B, c, ptr.toNat, (st' ++ [t]).reverse.map Int.toNat)
      rw [e2]
      simp [mstep, hpn]
  have hW0 : W (B, 1, [], 0) := ⟨le_refl _, fun x hx => by simp at hx⟩
  have hc0 : cond (B, 1, [], 0) = true := (hcond B 0 1 []).mpr (fun h => by have := h.1; omega)
  obtain ⟨hW1, ha1⟩ := hb _ hW0 hc0
  have hmap := whileLoop_map absCS W (cond' := fun m => !mexit K m) (g := mstep K) hc hb (2 * (K + 1)) _ hW1
  rw [hw, ha1] at hmap
  obtain ⟨c', ptr', hm⟩ := machine_run K hK p B hB
  have e0 : absCS (B, 1, [], 0) = (B, 0, 1, []) := rfl
  rw [e0, hm] at hmap
  cases r with
  | none => simp at hmap
  | some s' =>
    obtain ⟨B', p'', st'', c''⟩ := s'
    simp only [Option.map_some, Option.some.injEq, absCS, Prod.mk.injEq] at hmap
    exact ⟨_, rfl, hmap.1⟩

end Rpylib.SrcTie.C02
