/-
Python built-ins used by the source-derived definitions (lean/RpylibModel/Generated/Src*.lean, written by
harness/py2lean.py from /repo's current source).  Mathlib-free.

  `//`, `%`  are `Int.fdiv`, `Int.fmod` (floor division; result of `%` has the sign of the divisor) — used directly.
  `isqrt`    `math.isqrt` on the naturals; Python raises ValueError for a negative argument, here the value is `isqrt 0 = 0`
             (every theorem that uses it is stated on non-negative arguments).
  `max/min`  Python's `max(a, b)` returns `a` unless `b > a`; `np.maximum` agrees on numbers (NaN is outside the model).
-/
namespace Rpylib.Py

def isqrt (z : Int) : Int := (Nat.sqrt z.toNat : Int)

def imax (a b : Int) : Int := if a < b then b else a
def imin (a b : Int) : Int := if b < a then b else a
def iabs (a : Int) : Int := if a < 0 then -a else a

def rmax (a b : Rat) : Rat := if a < b then b else a
def rmin (a b : Rat) : Rat := if b < a then b else a
def rabs (a : Rat) : Rat := if a < 0 then -a else a

end Rpylib.Py
