/-
Python built-ins used by the source-derived definitions (lean/RpylibModel/Generated/Src*.lean, written by
harness/py2lean.py from /repo's current source).  Mathlib-free.

  `//`, `%`  are `Int.fdiv`, `Int.fmod` (floor division; result of `%` has the sign of the divisor) — used directly.
  `isqrt`    `math.isqrt` on the naturals; Python raises ValueError for a negative argument, here the value is `isqrt 0 = 0`
             (every theorem that uses it is stated on non-negative arguments).
  `max/min`  Python's `max(a, b)` returns `a` unless `b > a`; `np.maximum` agrees on numbers (NaN is outside the model).
-/
namespace Rpylib.Py

def isqrt (z : Int) : Int := (Nat.sqrt z.toNat : Int)

def imax (a b : Int) : Int := if a < b then b else a
def imin (a b : Int) : Int := if b < a then b else a
def iabs (a : Int) : Int := if a < 0 then -a else a

def rmax (a b : Rat) : Rat := if a < b then b else a
def rmin (a b : Rat) : Rat := if b < a then b else a
def rabs (a : Rat) : Rat := if a < 0 then -a else a

/-! Lists (PyLite 2): Python lists, tuples used as vectors, 1-d numpy arrays and generators are all `List α`.
  `idx`          `xs[i]` with Python's negative indices; out of range Python raises IndexError, here the type's default value
                 (theorems are stated on indices in range).
  `range a b`    `range(a, b)`;  `enumerate`;  `product xs n` = `itertools.product(xs, repeat=n)` in itertools' order (first
                 coordinate slowest);  `rprod / iprod` = `math.prod / np.prod`;  sums are `List.sum`.
  `setAt`        the list after `xs[i] = v`;  `insertAt` = `np.insert(xs, i, v)` for 0 ≤ i ≤ len;  `popAt` = list after `xs.pop(i)`.
  `searchsorted` `np.searchsorted(xs, t)` (side='left') for an increasing `xs`: the number of leading elements `< t`.
  `cumsum`, `zeros`. -/

def idx {α : Type} [Inhabited α] (xs : List α) (i : Int) : α :=
  if i < 0 then xs.getD (xs.length - (-i).toNat) default else xs.getD i.toNat default

def range (a b : Int) : List Int := (List.range (b - a).toNat).map (fun (k : Nat) => a + (k : Int))

def enumerate {α : Type} (xs : List α) : List (Int × α) := (range 0 (xs.length : Int)).zip xs

def product {α : Type} (xs : List α) : Nat → List (List α)
  | 0 => [[]]
  | n + 1 => xs.flatMap (fun x => (product xs n).map (fun p => x :: p))

def rprod (xs : List Rat) : Rat := xs.foldr (· * ·) 1
def iprod (xs : List Int) : Int := xs.foldr (· * ·) 1

def setAt {α : Type} (xs : List α) (i : Int) (v : α) : List α :=
  if i < 0 then xs.set (xs.length - (-i).toNat) v else xs.set i.toNat v

def insertAt {α : Type} (xs : List α) (i : Int) (v : α) : List α := xs.take i.toNat ++ v :: xs.drop i.toNat

def popAt {α : Type} (xs : List α) (i : Int) : List α :=
  if i < 0 then xs.eraseIdx (xs.length - (-i).toNat) else xs.eraseIdx i.toNat

def sliceFrom {α : Type} (xs : List α) (a : Int) : List α :=
  if a < 0 then xs.drop (xs.length - (-a).toNat) else xs.drop a.toNat

def sliceTo {α : Type} (xs : List α) (b : Int) : List α :=
  if b < 0 then xs.take (xs.length - (-b).toNat) else xs.take b.toNat

def searchsorted (xs : List Rat) (t : Rat) : Int := ((xs.takeWhile (fun x => decide (x < t))).length : Int)

def cumsumFrom (acc : Rat) : List Rat → List Rat
  | [] => []
  | x :: xs => (acc + x) :: cumsumFrom (acc + x) xs
def cumsum (xs : List Rat) : List Rat := cumsumFrom 0 xs

def zeros (n : Int) : List Rat := List.replicate n.toNat 0

def castList (xs : List Int) : List Rat := xs.map (fun (z : Int) => (z : Rat))

end Rpylib.Py
