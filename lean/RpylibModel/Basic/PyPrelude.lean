/-
Python built-ins used by the source-derived definitions (lean/RpylibModel/Generated/Src*.lean, written by
harness/py2lean.py from /repo's current source).  Mathlib-free.

  `//`, `%`  are `Int.fdiv`, `Int.fmod` (floor division; result of `%` has the sign of the divisor) — used directly.
  `isqrt`    `math.isqrt` on the naturals; Python raises ValueError for a negative argument, here the value is `isqrt 0 = 0`
             (every theorem that uses it is stated on non-negative arguments).
  `max/min`  Python's `max(a, b)` returns `a` unless `b > a`; `np.maximum` agrees on numbers (NaN is outside the model).
-/
namespace Rpylib.Py

def isqrt (z : Int) : Int := (Nat.sqrt z.toNat : Int)

def imax (a b : Int) : Int := if a < b then b else a
def imin (a b : Int) : Int := if b < a then b else a
def iabs (a : Int) : Int := if a < 0 then -a else a

def rmax (a b : Rat) : Rat := if a < b then b else a
def rmin (a b : Rat) : Rat := if b < a then b else a
def rabs (a : Rat) : Rat := if a < 0 then -a else a

/-! Lists (PyLite 2): Python lists, tuples used as vectors, 1-d numpy arrays and generators are all `List α`.
  `idx`          `xs[i]` with Python's negative indices; out of range Python raises IndexError, here the type's default value
                 (theorems are stated on indices in range).
  `range a b`    `range(a, b)`;  `enumerate`;  `product xs n` = `itertools.product(xs, repeat=n)` in itertools' order (first
                 coordinate slowest);  `rprod / iprod` = `math.prod / np.prod`;  sums are `List.sum`.
  `setAt`        the list after `xs[i] = v`;  `insertAt` = `np.insert(xs, i, v)` for 0 ≤ i ≤ len;  `popAt` = list after `xs.pop(i)`.
  `searchsorted` `np.searchsorted(xs, t)` (side='left') for an increasing `xs`: the number of leading elements `< t`.
  `cumsum`, `zeros`. -/

def idx {α : Type} [Inhabited α] (xs : List α) (i : Int) : α :=
  if i < 0 then xs.getD (xs.length - (-i).toNat) default else xs.getD i.toNat default

def range (a b : Int) : List Int := (List.range (b - a).toNat).map (fun (k : Nat) => a + (k : Int))

def enumerate {α : Type} (xs : List α) : List (Int × α) := (range 0 (xs.length : Int)).zip xs

def product {α : Type} (xs : List α) : Nat → List (List α)
  | 0 => [[]]
  | n + 1 => xs.flatMap (fun x => (product xs n).map (fun p => x :: p))

def rprod (xs : List Rat) : Rat := xs.foldr (· * ·) 1
def iprod (xs : List Int) : Int := xs.foldr (· * ·) 1

def setAt {α : Type} (xs : List α) (i : Int) (v : α) : List α :=
  if i < 0 then xs.set (xs.length - (-i).toNat) v else xs.set i.toNat v

def insertAt {α : Type} (xs : List α) (i : Int) (v : α) : List α := xs.take i.toNat ++ v :: xs.drop i.toNat

def popAt {α : Type} (xs : List α) (i : Int) : List α :=
  if i < 0 then xs.eraseIdx (xs.length - (-i).toNat) else xs.eraseIdx i.toNat

def sliceFrom {α : Type} (xs : List α) (a : Int) : List α :=
  if a < 0 then xs.drop (xs.length - (-a).toNat) else xs.drop a.toNat

def sliceTo {α : Type} (xs : List α) (b : Int) : List α :=
  if b < 0 then xs.take (xs.length - (-b).toNat) else xs.take b.toNat

def searchsorted (xs : List Rat) (t : Rat) : Int := ((xs.takeWhile (fun x => decide (x < t))).length : Int)

def cumsumFrom (acc : Rat) : List Rat → List Rat
  | [] => []
  | x :: xs => (acc + x) :: cumsumFrom (acc + x) xs
def cumsum (xs : List Rat) : List Rat := cumsumFrom 0 xs

def zeros (n : Int) : List Rat := List.replicate n.toNat 0

def castList (xs : List Int) : List Rat := xs.map (fun (z : Int) => (z : Rat))

/-- `np.diff(xs, prepend=prev)`: the successive differences, the first one taken from `prev` -/
def diffFrom (prev : Rat) : List Rat → List Rat
  | [] => []
  | x :: xs => (x - prev) :: diffFrom x xs
/-- `np.diff(xs)` (one entry fewer than `xs`; empty for an empty `xs`) -/
def diff : List Rat → List Rat
  | [] => []
  | x :: xs => diffFrom x xs

/-! PyLite 3: `int(x)` of a float (truncation toward zero), integer zeros, `while` loops.
  `whileLoop c b fuel s` runs `while c(s): s = b(s)` for at most `fuel` iterations: `none` when the fuel runs out while the
  condition still holds (the translated function then returns its declared error value; the theorems about it show that this
  does not happen on the stated domain), `some` final state otherwise.  Deques used as stacks are lists: `append` = `++ [v]`,
  `pop()` = last element (`idx xs (-1)`) and `popAt xs (-1)`. -/

def truncInt (x : Rat) : Int := if 0 ≤ x then x.floor else -((-x).floor)

def izeros (n : Int) : List Int := List.replicate n.toNat 0

def whileLoop {σ : Type} (cond : σ → Bool) (body : σ → σ) : Nat → σ → Option σ
  | 0, s => if cond s then none else some s
  | n + 1, s => if cond s then whileLoop cond body n (body s) else some s

/-- `np.ceil(x)` / `np.floor(x)`: the integer as a float (`math.ceil` / `math.floor` are `Rat.ceil` / `Rat.floor` directly);
    `u.astype(int)` of a float vector is `List.map truncInt` -/
def rceil (x : Rat) : Rat := ((x.ceil : Int) : Rat)
def rfloor (x : Rat) : Rat := ((x.floor : Int) : Rat)

/-- `itertools.product(*xss)` (a list of lists given with a star): all choices of one element per list, in itertools' order
    (first factor slowest); `product()` of no list is the single empty tuple -/
def cartesian {α : Type} : List (List α) → List (List α)
  | [] => [[]]
  | xs :: rest => xs.flatMap (fun x => (cartesian rest).map (fun t => x :: t))

/-- `zip(*xss)`: the i-th result collects the i-th elements of all the lists; as many results as the shortest list has
    elements; `zip()` of no list is empty -/
def transpose {α : Type} [Inhabited α] : List (List α) → List (List α)
  | [] => []
  | xs :: rest =>
    (List.range ((rest.map List.length).foldl min xs.length)).map (fun i => (xs :: rest).map (fun ys => ys.getD i default))

/-- `np.linspace(start, stop, num)` (endpoint=True, numpy/_core/function_base.py): `num = 0` gives `[]`, `num = 1` gives
    `[start]` (the `stop` argument is ignored), otherwise `start + k·(stop − start)/(num − 1)` for `k < num − 1` followed by
    `stop` itself (`y[-1] = stop`).  numpy raises ValueError for a negative `num`; here the value is `[]` (`Int.toNat`). -/
def linspace (start stop : Rat) (num : Int) : List Rat :=
  match num.toNat with
  | 0 => []
  | 1 => [start]
  | n + 2 => (List.range (n + 1)).map (fun (k : Nat) => start + (k : Rat) * ((stop - start) / ((n + 1 : Nat) : Rat))) ++ [stop]

/-- (C12) `xs.index(v)`: the position of the first occurrence of `v` (Python raises ValueError when there is none; here the
    value is `len(xs)`: theorems are stated for a `v` that occurs) -/
def indexOf {α : Type} [BEq α] (xs : List α) (v : α) : Int := ((xs.idxOf v : Nat) : Int)

/-- (C15) the content of a fresh `np.empty` array: an unspecified number per (call site, position).  `opaque`: the kernel never
    unfolds it and nothing can be proved about its values, so a theorem about a definition that mentions it holds whatever
    the memory contained (a store `xs[k] = v` into every position, as the translated loops do, makes it disappear). -/
opaque uninit (site pos : Int) : Rat

/-- (C09) `math.factorial(n)` (Python ints are unbounded) and, read as a float, `scipy.special.factorial(n)`; for a negative
    argument `math.factorial` raises ValueError and scipy returns 0: here the value is 0 -/
def factNat : Nat → Nat
  | 0 => 1
  | n + 1 => (n + 1) * factNat n
def factorial (n : Int) : Int := if n < 0 then 0 else (factNat n.toNat : Int)

/-- (C09) the type of an `np.arange(..)` result.  numpy's FIXED-WIDTH integers are not modelled (int64 arithmetic wraps around,
    `Int` does not): the translator gives such an array this type of its own and accepts it only where numpy produces floats
    from it without integer arithmetic (`np.power(<float>, ks)`, `<float> ** ks`, `scipy.special.factorial(ks)`); every other
    use is Untranslatable. -/
abbrev I64Array := List Int

/-! (C07) numpy statistics and products.  A 2-d array is the list of its rows (`List (List Rat)`; rectangular: a hypothesis of
  the theorems), a 3-d array a list of those.
  `mean`       `np.mean(xs)`: sum / number of entries (numpy gives nan for an empty array; here 0: `x / 0 = 0`).
  `cov a b d`  the entry of `np.cov`: Σ (a_i − mean a)(b_i − mean b) / (n − d), `d` = numpy's `ddof` (`bias=True`: 0, default: 1);
               numpy clips the divisor at 0 and warns when n ≤ d: outside the domain of the theorems.
  `var xs d`   `np.var(xs, ddof=d)` = `cov xs xs d`; `np.std` is `np.sqrt` of it (the translator applies the `sqrt` parameter).
  `covMatrix`  `np.cov` of variables given as rows;  `meanAxis0 / varAxis0`: `axis=0` reductions (one value per column);
  `dot`, `matVec` (`m @ v`, `np.dot(m, v)`), `vecMat` (`np.dot(v, m)`); numpy raises on a shape mismatch where `zipWith` truncates.
  `size2`      `m.size`;  `rminList / rmaxList`: `np.amin / np.amax` of all entries (numpy raises for an empty array; here 0);
  `setCol`     the array after `m[:, k] = v`;  `emptyLike2`: `np.empty_like(m)` — content: the opaque `uninit2`. -/

def mean (xs : List Rat) : Rat := xs.sum / ((xs.length : Nat) : Rat)
def cov (xs ys : List Rat) (ddof : Int) : Rat :=
  (List.zipWith (fun (x y : Rat) => (x - mean xs) * (y - mean ys)) xs ys).sum / ((((xs.length : Nat) : Int) - ddof : Int) : Rat)
def var (xs : List Rat) (ddof : Int) : Rat := cov xs xs ddof
def covMatrix (rows : List (List Rat)) (ddof : Int) : List (List Rat) :=
  rows.map (fun r => rows.map (fun s => cov r s ddof))
def meanAxis0 (m : List (List Rat)) : List Rat := (transpose m).map mean
def varAxis0 (m : List (List Rat)) (ddof : Int) : List Rat := (transpose m).map (fun c => var c ddof)
def dot (a b : List Rat) : Rat := (List.zipWith (fun (x y : Rat) => x * y) a b).sum
def matVec (m : List (List Rat)) (v : List Rat) : List Rat := m.map (fun r => dot r v)
def vecMat (v : List Rat) (m : List (List Rat)) : List Rat := (transpose m).map (fun c => dot v c)
def size2 (m : List (List Rat)) : Int := (((m.map List.length).sum : Nat) : Int)
def rminList : List Rat → Rat
  | [] => 0
  | x :: xs => xs.foldl rmin x
def rmaxList : List Rat → Rat
  | [] => 0
  | x :: xs => xs.foldl rmax x
def setCol (m : List (List Rat)) (k : Int) (v : List Rat) : List (List Rat) :=
  List.zipWith (fun (r : List Rat) (x : Rat) => setAt r k x) m v
opaque uninit2 (site row col : Int) : Rat
def emptyLike2 (site : Int) (m : List (List Rat)) : List (List Rat) :=
  (enumerate m).map (fun (p : Int × List Rat) => (enumerate p.2).map (fun (q : Int × Rat) => uninit2 site p.1 q.1))

end Rpylib.Py
