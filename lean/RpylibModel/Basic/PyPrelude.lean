/-
Python built-ins used by the source-derived definitions (lean/RpylibModel/Generated/Src*.lean, written by
harness/py2lean.py from /repo's current source).  Mathlib-free.

  `//`, `%`  are `Int.fdiv`, `Int.fmod` (floor division; result of `%` has the sign of the divisor) — used directly.
  `isqrt`    `math.isqrt` on the naturals; Python raises ValueError for a negative argument, here the value is `isqrt 0 = 0`
             (every theorem that uses it is stated on non-negative arguments).
  `max/min`  Python's `max(a, b)` returns `a` unless `b > a`; `np.maximum` agrees on numbers (NaN is outside the model).
-/
namespace Rpylib.Py

def isqrt (z : Int) : Int := (Nat.sqrt z.toNat : Int)

def imax (a b : Int) : Int := if a < b then b else a
def imin (a b : Int) : Int := if b < a then b else a
def iabs (a : Int) : Int := if a < 0 then -a else a

def rmax (a b : Rat) : Rat := if a < b then b else a
def rmin (a b : Rat) : Rat := if b < a then b else a
def rabs (a : Rat) : Rat := if a < 0 then -a else a

/-! Lists (PyLite 2): Python lists, tuples used as vectors, 1-d numpy arrays and generators are all `List α`.
  `idx`          `xs[i]` with Python's negative indices; out of range Python raises IndexError, here the type's default value
                 (theorems are stated on indices in range).
  `range a b`    `range(a, b)`;  `enumerate`;  `product xs n` = `itertools.product(xs, repeat=n)` in itertools' order (first
                 coordinate slowest);  `rprod / iprod` = `math.prod / np.prod`;  sums are `List.sum`.
  `setAt`        the list after `xs[i] = v`;  `insertAt` = `np.insert(xs, i, v)` for 0 ≤ i ≤ len;  `popAt` = list after `xs.pop(i)`.
  `searchsorted` `np.searchsorted(xs, t)` (side='left') for an increasing `xs`: the number of leading elements `< t`.
  `cumsum`, `zeros`. -/

def idx {α : Type} [Inhabited α] (xs : List α) (i : Int) : α :=
  if i < 0 then xs.getD (xs.length - (-i).toNat) default else xs.getD i.toNat default

def range (a b : Int) : List Int := (List.range (b - a).toNat).map (fun (k : Nat) => a + (k : Int))

def enumerate {α : Type} (xs : List α) : List (Int × α) := (range 0 (xs.length : Int)).zip xs

def product {α : Type} (xs : List α) : Nat → List (List α)
  | 0 => [[]]
  | n + 1 => xs.flatMap (fun x => (product xs n).map (fun p => x :: p))

def rprod (xs : List Rat) : Rat := xs.foldr (· * ·) 1
def iprod (xs : List Int) : Int := xs.foldr (· * ·) 1

def setAt {α : Type} (xs : List α) (i : Int) (v : α) : List α :=
  if i < 0 then xs.set (xs.length - (-i).toNat) v else xs.set i.toNat v

def insertAt {α : Type} (xs : List α) (i : Int) (v : α) : List α := xs.take i.toNat ++ v :: xs.drop i.toNat

def popAt {α : Type} (xs : List α) (i : Int) : List α :=
  if i < 0 then xs.eraseIdx (xs.length - (-i).toNat) else xs.eraseIdx i.toNat

def sliceFrom {α : Type} (xs : List α) (a : Int) : List α :=
  if a < 0 then xs.drop (xs.length - (-a).toNat) else xs.drop a.toNat

def sliceTo {α : Type} (xs : List α) (b : Int) : List α :=
  if b < 0 then xs.take (xs.length - (-b).toNat) else xs.take b.toNat

def searchsorted (xs : List Rat) (t : Rat) : Int := ((xs.takeWhile (fun x => decide (x < t))).length : Int)

def cumsumFrom (acc : Rat) : List Rat → List Rat
  | [] => []
  | x :: xs => (acc + x) :: cumsumFrom (acc + x) xs
def cumsum (xs : List Rat) : List Rat := cumsumFrom 0 xs

def zeros (n : Int) : List Rat := List.replicate n.toNat 0

def castList (xs : List Int) : List Rat := xs.map (fun (z : Int) => (z : Rat))

/-- `np.diff(xs, prepend=prev)`: the successive differences, the first one taken from `prev` -/
def diffFrom (prev : Rat) : List Rat → List Rat
  | [] => []
  | x :: xs => (x - prev) :: diffFrom x xs
/-- `np.diff(xs)` (one entry fewer than `xs`; empty for an empty `xs`) -/
def diff : List Rat → List Rat
  | [] => []
  | x :: xs => diffFrom x xs

/-! PyLite 3: `int(x)` of a float (truncation toward zero), integer zeros, `while` loops.
  `whileLoop c b fuel s` runs `while c(s): s = b(s)` for at most `fuel` iterations: `none` when the fuel runs out while the
  condition still holds (the translated function then returns its declared error value; the theorems about it show that this
  does not happen on the stated domain), `some` final state otherwise.  Deques used as stacks are lists: `append` = `++ [v]`,
  `pop()` = last element (`idx xs (-1)`) and `popAt xs (-1)`. -/

def truncInt (x : Rat) : Int := if 0 ≤ x then x.floor else -((-x).floor)

def izeros (n : Int) : List Int := List.replicate n.toNat 0

def whileLoop {σ : Type} (cond : σ → Bool) (body : σ → σ) : Nat → σ → Option σ
  | 0, s => if cond s then none else some s
  | n + 1, s => if cond s then whileLoop cond body n (body s) else some s

/-- `np.ceil(x)` / `np.floor(x)`: the integer as a float (`math.ceil` / `math.floor` are `Rat.ceil` / `Rat.floor` directly);
    `u.astype(int)` of a float vector is `List.map truncInt` -/
def rceil (x : Rat) : Rat := ((x.ceil : Int) : Rat)
def rfloor (x : Rat) : Rat := ((x.floor : Int) : Rat)

/-- `itertools.product(*xss)` (a list of lists given with a star): all choices of one element per list, in itertools' order
    (first factor slowest); `product()` of no list is the single empty tuple -/
def cartesian {α : Type} : List (List α) → List (List α)
  | [] => [[]]
  | xs :: rest => xs.flatMap (fun x => (cartesian rest).map (fun t => x :: t))

/-- `zip(*xss)`: the i-th result collects the i-th elements of all the lists; as many results as the shortest list has
    elements; `zip()` of no list is empty -/
def transpose {α : Type} [Inhabited α] : List (List α) → List (List α)
  | [] => []
  | xs :: rest =>
    (List.range ((rest.map List.length).foldl min xs.length)).map (fun i => (xs :: rest).map (fun ys => ys.getD i default))

/-- `np.linspace(start, stop, num)` (endpoint=True, numpy/_core/function_base.py): `num = 0` gives `[]`, `num = 1` gives
    `[start]` (the `stop` argument is ignored), otherwise `start + k·(stop − start)/(num − 1)` for `k < num − 1` followed by
    `stop` itself (`y[-1] = stop`).  numpy raises ValueError for a negative `num`; here the value is `[]` (`Int.toNat`). -/
def linspace (start stop : Rat) (num : Int) : List Rat :=
  match num.toNat with
  | 0 => []
  | 1 => [start]
  | n + 2 => (List.range (n + 1)).map (fun (k : Nat) => start + (k : Rat) * ((stop - start) / ((n + 1 : Nat) : Rat))) ++ [stop]

/-- (C12) `xs.index(v)`: the position of the first occurrence of `v` (Python raises ValueError when there is none; here the
    value is `len(xs)`: theorems are stated for a `v` that occurs) -/
def indexOf {α : Type} [BEq α] (xs : List α) (v : α) : Int := ((xs.idxOf v : Nat) : Int)

/-- (C15) the content of a fresh `np.empty` array: an unspecified number per (call site, position).  `opaque`: the kernel never
    unfolds it and nothing can be proved about its values, so a theorem about a definition that mentions it holds whatever
    the memory contained (a store `xs[k] = v` into every position, as the translated loops do, makes it disappear). -/
opaque uninit (site pos : Int) : Rat

end Rpylib.Py
