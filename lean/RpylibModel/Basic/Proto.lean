/-
Line protocol shared by every driver (Mathlib-free, executable).

Wire format (one request per line, one answer per line):
  * tokens separated by single spaces; lists are `[a,b,c]` without spaces; nested lists allowed one level
    deeper via `;` (`[a,b;c,d]`);
  * a rational is `p/q` or `p` (decimal, optional leading `-`); the Python side sends every IEEE double as
    the exact rational it denotes (`fractions.Fraction(x)`), so nothing is rounded on the wire;
  * `inf`, `-inf` are accepted where a driver says so (type `ExtRat`).
-/
namespace Rpylib

def parseNat? (s : String) : Option Nat := s.toNat?

def parseInt? (s : String) : Option Int := s.toInt?

def parseRat? (s : String) : Option Rat :=
  match s.splitOn "/" with
  | [p] => (parseInt? p).map (fun z => (z : Rat))
  | [p, q] => do
      let z ← parseInt? p
      let d ← parseNat? q
      if d = 0 then none else some ((z : Rat) / (d : Rat))
  | _ => none

def showRat (r : Rat) : String :=
  if r.den = 1 then toString r.num else toString r.num ++ "/" ++ toString r.den

/-- strip one pair of enclosing brackets -/
def stripBrackets (s : String) : Option String :=
  if s.startsWith "[" && s.endsWith "]" then some ((s.drop 1).dropEnd 1).toString else none

def parseListWith? {α} (f : String → Option α) (s : String) : Option (List α) := do
  let inner ← stripBrackets s
  if inner.isEmpty then some [] else (inner.splitOn ",").mapM f

def parseRatList? : String → Option (List Rat) := parseListWith? parseRat?
def parseIntList? : String → Option (List Int) := parseListWith? parseInt?
def parseNatList? : String → Option (List Nat) := parseListWith? parseNat?

/-- `[a,b;c,d]` -> [[a,b],[c,d]] -/
def parseListListWith? {α} (f : String → Option α) (s : String) : Option (List (List α)) := do
  let inner ← stripBrackets s
  if inner.isEmpty then some [] else
    (inner.splitOn ";").mapM (fun part => if part.isEmpty then some [] else (part.splitOn ",").mapM f)

def showList {α} (f : α → String) (l : List α) : String :=
  "[" ++ ",".intercalate (l.map f) ++ "]"

def showListList {α} (f : α → String) (l : List (List α)) : String :=
  "[" ++ ";".intercalate (l.map (fun r => ",".intercalate (r.map f))) ++ "]"

def showRatList : List Rat → String := showList showRat
def showIntList : List Int → String := showList toString
def showNatList : List Nat → String := showList toString

def showOpt {α} (f : α → String) : Option α → String
  | none => "none"
  | some a => f a

/-- Extended rationals for end points of integration intervals. -/
inductive ExtRat where
  | negInf | fin (r : Rat) | posInf
  deriving Repr, DecidableEq

def parseExtRat? (s : String) : Option ExtRat :=
  if s = "inf" then some .posInf else if s = "-inf" then some .negInf else (parseRat? s).map .fin

def showExtRat : ExtRat → String
  | .negInf => "-inf" | .posInf => "inf" | .fin r => showRat r

def tokens (line : String) : List String :=
  (line.trimAscii.toString.splitOn " ").filter (fun t => !t.isEmpty)

/-- stateless request/response loop -/
partial def loop (h : IO.FS.Stream) (out : IO.FS.Stream) (step : List String → String) : IO Unit := do
  let line ← h.getLine
  if line.isEmpty then return ()
  out.putStrLn (step (tokens line))
  out.flush
  loop h out step

/-- stateful request/response loop -/
partial def loopS {σ} (h : IO.FS.Stream) (out : IO.FS.Stream) (step : σ → List String → σ × String) (s : σ) : IO Unit := do
  let line ← h.getLine
  if line.isEmpty then return ()
  let (s', o) := step s (tokens line)
  out.putStrLn o
  out.flush
  loopS h out step s'

def runStateless (step : List String → String) : IO Unit := do
  loop (← IO.getStdin) (← IO.getStdout) step

def runStateful {σ} (step : σ → List String → σ × String) (init : σ) : IO Unit := do
  loopS (← IO.getStdin) (← IO.getStdout) step init

end Rpylib
