import RpylibModel.Basic.Proto
import RpylibModel.Model.Copula
open Rpylib Rpylib.Copula

/-- requests (`<cop>` is `clayton1 | indep | dep`; `<eta>` is ignored by indep/dep; vectors may hold `inf`/`-inf`):
  cop <cop> <eta> <us>                 -> F(us)                       (nan | inf | -inf | rational)
  vol <cop> <eta> <a> <b>              -> volume(F, a, b)
  margin <cop> <eta> <idx> <d> <u>     -> margin(F, idx, d)(u)
  cond <eta> <eps> <x>                 -> Clayton θ=1 conditional distribution (finite eps, x ≠ 0)
  mixed <eta> <us>                     -> Clayton θ=1 `x_first_derivative` (finite us)
-/
def parseExtList? (s : String) : Option (List (Ext Rat)) :=
  (parseListWith? parseExtRat? s).map (·.map ofExtRat)

def copula? (name : String) (eta : Rat) : Option (List (Ext Rat) → EVal) :=
  if name = "clayton1" then some (clayton1 eta)
  else if name = "indep" then some indep
  else if name = "dep" then some dep
  else none

def step (t : List String) : String :=
  match t with
  | ["cop", c, eta, us] =>
    match parseRat? eta, parseExtList? us with
    | some eta, some us =>
      match copula? c eta with
      | some f => (f us).toString
      | none => "bad-op"
    | _, _ => "bad-op"
  | ["vol", c, eta, a, b] =>
    match parseRat? eta, parseExtList? a, parseExtList? b with
    | some eta, some a, some b =>
      match copula? c eta with
      | some f => if a.length = b.length then (volume f a b).toString else "bad-op"
      | none => "bad-op"
    | _, _, _ => "bad-op"
  | ["margin", c, eta, idx, d, u] =>
    match parseRat? eta, parseNatList? idx, parseNat? d, parseExtList? u with
    | some eta, some idx, some d, some u =>
      match copula? c eta with
      | some f => if idx.length = u.length && idx.all (· < d) then (margin f idx d u).toString else "bad-op"
      | none => "bad-op"
    | _, _, _, _ => "bad-op"
  | ["cond", eta, e, x] =>
    match parseRat? eta, parseRat? e, parseRat? x with
    | some eta, some e, some x => if x = 0 then "bad-op" else showRat (condDist1 eta e x)
    | _, _, _ => "bad-op"
  | ["mixed", eta, us] =>
    match parseRat? eta, parseRatList? us with
    | some eta, some us => showRat (mixedDeriv1 eta us)
    | _, _ => "bad-op"
  | _ => "bad-op"

def main : IO Unit := runStateless step
