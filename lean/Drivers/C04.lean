import RpylibModel.Basic.Proto
import RpylibModel.Model.Grid
import RpylibModel.Model.Cells
import RpylibModel.Model.Drift
import RpylibModel.Model.DriftMatrix
open Rpylib Rpylib.Grid Rpylib.Cells Rpylib.Drift

/-! Line-protocol driver of property C04: executes the definitions of RpylibModel/Model/Drift.lean.

A mid table is a nested list of triples `a,b,middle(a,b)` (`[]` = arithmetic mean).  `<fv>` is 1 for finite variation.

  queries <axis> <o> <h> <midtbl> <fv>      -> `<mass intervals> <first-moment intervals> <second-moment interval>`: the
                                               (clipped) intervals at which the chain evaluates the *untruncated*
                                               integrate / integrate_against_x / integrate_against_xx
  chain <axis> <o> <h> <midtbl> <fv> <sigma> <modelDrift> <aTilde> <mass values> <m1 values> <m2 values> <cols>
                                            -> `<muH> <muTilde> <processDrift> <eqDiffSq> <jumpMean> <mean> <jumpSecondMoment>
                                                <Σ osc·q> <cells walked by compute_mu_h, a,b per non-origin position>
                                                <processDrift + Σ x_k col_k>` (`cols` = column sums of a copula chain's rates
                                               along this axis, `[]` = the chain's own rates)
  muhcells <ax0> <axis> <o> <midtbl>        -> the intervals `compute_mu_h` integrates over when `grid.axes[0]` = ax0 and the
                                               axis walked = axis (copula margin k >= 1 of a grid with unequal axes)
  muh2 <ax0> <axis> <o> <midtbl> <values>   -> mu_h for those intervals' masses
  varmat <adj> <sigmas>                     -> `<adj·adjᵀ + diag σ² (as coded)> <adj + diag σ² (spec)>`
  assemble <d> <fv> <outs> <sigmas> <x>     -> `<adj_matrix> <variance_matrix as coded> <adj + diag σ²> <coded symmetric 0/1>
                                                <x·coded·x>`: `outs` = the results of `vol_adjustment_ij(i, j)` in the order
                                               `for i in range(d) for j in range(i, d)` (ignored for finite variation)
-/

def parseTriples (s : String) : Option (List (Rat × Rat × Rat)) := do
  let rows ← parseListListWith? parseRat? s
  rows.mapM (fun r => match r with
    | [a, b, v] => some (a, b, v)
    | _ => none)

def midOf (tbl : List (Rat × Rat × Rat)) : Rat → Rat → Rat :=
  if tbl.isEmpty then amid else tableMid tbl

def showPairs (l : List (Rat × Rat)) : String := showListList showRat (l.map (fun p => [p.1, p.2]))

def tableOf (qs : List (Rat × Rat)) (vals : List Rat) : Rat → Rat → Rat :=
  tableMass ((qs.zip vals).map (fun p => (p.1.1, p.1.2, p.2)))

def step (t : List String) : String :=
  match t with
  | ["queries", ax, o, h, tbl, fv] =>
    match parseRatList? ax, parseNat? o, parseRat? h, parseTriples tbl, parseNat? fv with
    | some ax, some o, some h, some tbl, some fv =>
      let l := pt ax 0
      let r := pt ax (ax.length - 1)
      showPairs (massQueries (midOf tbl) ax o) ++ " " ++ showPairs (m1Queries l r (fv == 1)) ++ " " ++ showPairs (m2Queries l r h)
    | _, _, _, _, _ => "bad-op"
  | ["chain", ax, o, h, tbl, fv, sigma, md, at', mv, m1v, m2v, cols] =>
    match parseRatList? ax, parseNat? o, parseRat? h, parseTriples tbl, parseNat? fv, parseRat? sigma, parseRat? md,
        parseRat? at', parseRatList? mv, parseRatList? m1v, parseRatList? m2v, parseRatList? cols with
    | some ax, some o, some h, some tbl, some fv, some sigma, some md, some at', some mv, some m1v, some m2v, some cols =>
      let mid := midOf tbl
      let l := pt ax 0
      let r := pt ax (ax.length - 1)
      let fvb := fv == 1
      let qm := massQueries mid ax o
      let q1 := m1Queries l r fvb
      let q2 := m2Queries l r h
      if qm.length != mv.length || q1.length != m1v.length || q2.length != m2v.length then "bad-op" else
      let c : Chain := { mid := mid, ax := ax, o := o, h := h, m := tableOf qm mv, m1 := tableOf q1 m1v, m2 := tableOf q2 m2v,
                         finiteVariation := fvb, sigma := sigma, modelDrift := md, aTilde := at' }
      let q := fun k => rate mid ax o (chainMass ax c.m) k
      let oscSum := ((List.range ax.length).map (fun k => oscSq mid ax k * q k)).sum
      let walked := (muHCells mid ax ax o (chainMass ax c.m)).filterMap id
      let colMean := if cols.isEmpty then c.mean
        else c.processDrift + ((List.range ax.length).map (fun k => pt ax k * cols.getD k 0)).sum
      showRat c.muH ++ " " ++ showRat c.muTilde ++ " " ++ showRat c.processDrift ++ " " ++ showRat c.eqDiffSq ++ " " ++
        showRat c.jumpMean ++ " " ++ showRat c.mean ++ " " ++ showRat c.jumpSecondMoment ++ " " ++ showRat oscSum ++ " " ++
        showPairs walked ++ " " ++ showRat colMean
    | _, _, _, _, _, _, _, _, _, _, _, _ => "bad-op"
  | ["muhcells", ax0, ax, o, tbl] =>
    match parseRatList? ax0, parseRatList? ax, parseNat? o, parseTriples tbl with
    | some ax0, some ax, some o, some tbl =>
      showPairs ((muHCells (midOf tbl) ax0 ax o (fun _ _ => 0)).filterMap id)
    | _, _, _, _ => "bad-op"
  | ["muh2", ax0, ax, o, tbl, vals] =>
    match parseRatList? ax0, parseRatList? ax, parseNat? o, parseTriples tbl, parseRatList? vals with
    | some ax0, some ax, some o, some tbl, some vals =>
      let mid := midOf tbl
      let qs := (muHCells mid ax0 ax o (fun _ _ => 0)).filterMap id
      if qs.length != vals.length then "bad-op" else showRat (muH mid ax0 ax o (tableOf qs vals))
    | _, _, _, _, _ => "bad-op"
  | ["varmat", adj, sig] =>
    match parseListListWith? parseRat? adj, parseRatList? sig with
    | some adj, some sig =>
      showListList showRat (varianceMatrixCoded adj sig) ++ " " ++ showListList showRat (varianceMatrixSpec adj sig)
    | _, _ => "bad-op"
  | ["assemble", d, fv, outs, sig, x] =>
    match parseNat? d, parseNat? fv, parseRatList? outs, parseRatList? sig, parseRatList? x with
    | some d, some fv, some outs, some sig, some x =>
      if sig.length != d || x.length != d || (fv != 1 && outs.length != d * (d + 1) / 2) then "bad-op" else
      let adj := assembleAdj d (fv == 1) outs
      let coded := varianceMatrixOfOutputs d (fv == 1) outs sig
      showListList showRat adj ++ " " ++ showListList showRat coded ++ " " ++
        showListList showRat (varianceMatrixSpec adj sig) ++ " " ++ (if isSymmB d coded then "1" else "0") ++ " " ++
        showRat (quadForm d coded x)
    | _, _, _, _, _ => "bad-op"
  | _ => "bad-op"

def main : IO Unit := runStateless step
