import RpylibModel.Basic.Proto
import RpylibModel.Model.Rng
open Rpylib Rpylib.Rng

def showTok (t : Tok) : String :=
  (match t.src with | .ambient i => "a" ++ toString i | .seeded s => "s" ++ toString s) ++ ":" ++ toString t.pos

/-- pass encoding: `rows|n|predraw(0/1)|[fly0,fly1,…]` -/
def parsePass? (s : String) : Option Pass :=
  match s.splitOn "|" with
  | [r, n, pd, fl] => do
      let r ← parseNat? r
      let n ← parseNat? n
      let fl ← parseNatList? fl
      some ⟨r, n, fun i => fl.getD i 0, pd == "1"⟩
  | _ => none

/-- requests:
  engine <seed|-> <ambient> <pass;pass;…>      -> consumption tokens of the (fixed) single-process engines, in order
  reseed <seed> <pass;pass;…>                  -> the pre-fix multilevel engine (seed at every pass)
-/
def step (t : List String) : String :=
  match t with
  | ["engine", seed, amb, ps] =>
    match (if seed == "-" then some none else (parseNat? seed).map some), parseNat? amb, (ps.splitOn ";").mapM parsePass? with
    | some seed, some amb, some ps => showList showTok (engineToks seed amb ps)
    | _, _, _ => "bad-op"
  | ["reseed", seed, ps] =>
    match parseNat? seed, (ps.splitOn ";").mapM parsePass? with
    | some s, some ps => showList showTok (runToks (some s) (.seeded s) 0 ps)
    | _, _ => "bad-op"
  | _ => "bad-op"

def main : IO Unit := runStateless step
