import RpylibModel.Basic.Proto
import RpylibModel.Model.Pricers
open Rpylib Rpylib.Pricers

/-- requests (all numbers exact rationals):
  cos <df> <fwd> <K> <series>                 -> `<forward> <put> <call>`
  digital <df> <series>                       -> `<digital> <cdf>`
  butterfly <c1> <c2> <c3>                    -> `<butterfly>`
  fftput <call> <df> <fwd> <K>                -> `<put>`
  chi <u> <cd> <sd> <ed> <cc> <sc> <ec>       -> `<chi>`
  psi <0|1 (k = 0)> <u> <sd> <sc> <c> <d>     -> `<psi>`
  uput <a> <b> <chi> <psi>                    -> `<u_put> `
  vdig <a> <b> <psi>                          -> `<v_digital>`
  terms <df> <K> <[t0,t1,…]>                  -> `<put>`           (first term halved)
  bs <eps> <sigma> <spot> <T> <df> <fwd> <K> <lg> <sd> <Φ(d1)> <Φ(d2)> <Φ(-d1)> <Φ(-d2)> <dfDiv>
                                              -> `<deg 0|1> <call> <put> <digital> <forward> <d1> <d2> <digital's own d2>`
  series <df> <K> <[re_0,re_1,…]> <[v_0,v_1,…]> -> `<K*df*Σ' re_k v_k> <df*Σ' re_k v_k>`   (cosPut / cosDigital of the halved-first sum of the products)
-/
def step (t : List String) : String :=
  match t.head?, (t.drop 1).mapM parseRat? with
  | some "cos", some [df, fwd, K, s] =>
    showRat (cosForward df fwd K) ++ " " ++ showRat (cosPut df K s) ++ " " ++ showRat (cosCall df fwd K s)
  | some "digital", some [df, s] =>
    showRat (cosDigital df s) ++ " " ++ showRat (cosCdf (cosDigital df s))
  | some "butterfly", some [c1, c2, c3] => showRat (butterfly c1 c2 c3)
  | some "fftput", some [c, df, fwd, K] => showRat (fftPut c df fwd K)
  | some "chi", some [u, cd, sd, ed, cc, sc, ec] => showRat (chiOf u cd sd ed cc sc ec)
  | some "psi", some [z, u, sd, sc, c, d] => showRat (psiOf (z == 1) u sd sc c d)
  | some "uput", some [a, b, chi, psi] => showRat (uPut a b chi psi)
  | some "vdig", some [a, b, psi] => showRat (vDigital a b psi)
  | some "bs", some [eps, sigma, spot, T, df, fwd, K, lg, sd, p1, p2, q1, q2, dfDiv] =>
    let deg := bsDegenerate eps sigma spot T
    let d1 := bsD1 lg sd
    let d2 := bsD2 lg sd
    -- the abstract Φ of the model, instantiated by the four values the implementation's `norm.cdf` returned
    let Φ : Rat → Rat := fun x => if x = d1 * 1 then p1 else if x = d2 * 1 then p2 else if x = d1 * (-1) then q1 else q2
    let Φdig : Rat → Rat := fun _ => p2
    (if deg then "1" else "0") ++ " " ++ showRat (bsCall Φ deg df fwd K lg sd) ++ " " ++ showRat (bsPut Φ deg df fwd K lg sd)
      ++ " " ++ showRat (bsDigital Φdig deg df fwd K lg sd) ++ " " ++ showRat (bsForward spot dfDiv K df)
      ++ " " ++ showRat d1 ++ " " ++ showRat d2 ++ " " ++ showRat (bsDigitalArg lg sd)
  | _, _ =>
    match t with
    | ["series", df, K, rs, vs] =>
      match parseRat? df, parseRat? K, parseRatList? rs, parseRatList? vs with
      | some df, some K, some rs, some vs =>
        if rs.length ≠ vs.length then "bad-op" else
        let s := halfFirstSum (List.zipWith (· * ·) rs vs)
        showRat (cosPut df K s) ++ " " ++ showRat (cosDigital df s)
      | _, _, _, _ => "bad-op"
    | ["terms", df, K, ts] =>
      match parseRat? df, parseRat? K, parseRatList? ts with
      | some df, some K, some ts => showRat (cosPutOfTerms df K ts)
      | _, _, _ => "bad-op"
    | _ => "bad-op"

def main : IO Unit := runStateless step
