import RpylibModel.Basic.Proto
import RpylibModel.Model.Pairing
import RpylibModel.Model.PairingHyperbolic
import RpylibModel.Model.PairingBound
open Rpylib Rpylib.Pairing

def parseKind? : String → Option Kind
  | "cantor" => some .cantor
  | "rs2" => some .rs2
  | "rs" => some .rs
  | "szudzik" => some .szudzik
  | "pepis" => some .pepis
  | _ => none

def showOut (f : Nat → List Int) : Option Nat → String
  | none => "X"
  | some j => ",".intercalate ((f j).map toString)

/-- requests (all numbers are decimal integers):
  iroot <z> <n>                               -> m
  pair <kind> [x1,..,xd]                      -> z                 (kind: cantor rs2 rs szudzik pepis)
  pairmany <kind> [a,b;c,d;..]                -> [z,..]
  proj <kind> <z> <d>                         -> [x1,..,xd]
  projrange <kind> <d> <start> <count>        -> [a,b;c,d;..]
  toz <z> | ofz <n>                           -> projection_to_z / mapping_to_z
  zdpair <kind> <o> [ints]                    -> index (PairingToZd.pair, o = 1 iff zero omitted)
  zdproj <kind> <o> <d> <start> <count>       -> [a,b;c,d;..]      (PairingToZd.project)
  z1d <L> <R> <o> <count>                     -> [project(0),..]   pure function of the index
  z1dpair <L> <R> <o> [xs]                    -> [pair(x),..]
  z1drun <L> <R> <o> [i1,i2,..]               -> `[outputs] <switch> <kk>` the object as coded, this call history
  lazy [sizes]                                -> [t;t;..]
  sm1d <L> <R> <maxLogged> [xs]               -> `<out;out;..> <last> <max_frontier_indices>` (out = state or X; bound as coded since 94bedf1: maxEnum)
  smbox <kind> <o> [ns] <maxLogged> [xs]      -> same for a box grid with PairingToZd(kind, omit zero)
  smfrontier <kind> <o> [ns]                  -> `<max(frontier_states)> <max_inside_index>` of a box grid, d >= 2
  hypproj <start> <count>                     -> [x,y;..]          HyperbolicPairing.projection2d, a block of indices
  hypprojmany [z,..]                          -> [x,y,n;..]        projection2d and upper_bound_a_n(z) for each z
  hyppairmany [x,y;..]                        -> [z,..]            HyperbolicPairing.pairing2d
  hypprojd <d> <start> <count>                -> [x1,..,xd;..]     HyperbolicPairing().projection(z, d) (base-class fold)
  hyppairn [x1,..,xd;..]                      -> [z,..]            HyperbolicPairing().pairing(x)
  hypzdproj <d> <start> <count>               -> [v1,..,vd;..]     PairingToZd(HyperbolicPairing(), d).project
  an [n,..]                                   -> [a_n(n),..]       numbers.a_n
  factor <n>                                  -> [p,e;..]          sorted(factorint(n).items())
-/
def step (t : List String) : String :=
  match t with
  | ["iroot", z, n] =>
    match parseNat? z, parseNat? n with
    | some z, some n => toString (iroot z n)
    | _, _ => "bad-op"
  | ["pair", k, xs] =>
    match parseKind? k, parseNatList? xs with
    | some k, some xs => toString (k.pairN xs)
    | _, _ => "bad-op"
  | ["pairmany", k, xss] =>
    match parseKind? k, parseListListWith? parseNat? xss with
    | some k, some xss => showNatList (xss.map k.pairN)
    | _, _ => "bad-op"
  | ["proj", k, z, d] =>
    match parseKind? k, parseNat? z, parseNat? d with
    | some k, some z, some d => showNatList (k.projD z d)
    | _, _, _ => "bad-op"
  | ["projrange", k, d, a, c] =>
    match parseKind? k, parseNat? d, parseNat? a, parseNat? c with
    | some k, some d, some a, some c => showListList toString ((List.range c).map (fun i => k.projD (a + i) d))
    | _, _, _, _ => "bad-op"
  | ["toz", z] => match parseNat? z with | some z => toString (toZ z) | none => "bad-op"
  | ["ofz", n] => match parseInt? n with | some n => toString (ofZ n) | none => "bad-op"
  | ["zdpair", k, o, xs] =>
    match parseKind? k, parseNat? o, parseIntList? xs with
    | some k, some o, some xs => toString (zdPair k.pairN o xs)
    | _, _, _ => "bad-op"
  | ["zdproj", k, o, d, a, c] =>
    match parseKind? k, parseNat? o, parseNat? d, parseNat? a, parseNat? c with
    | some k, some o, some d, some a, some c =>
      showListList toString ((List.range c).map (fun i => zdProject k.projD o d (a + i)))
    | _, _, _, _, _ => "bad-op"
  | ["z1d", l, r, o, c] =>
    match parseNat? l, parseNat? r, parseNat? o, parseNat? c with
    | some l, some r, some o, some c => showIntList ((List.range c).map (z1dProject l r o))
    | _, _, _, _ => "bad-op"
  | ["z1dpair", l, r, o, xs] =>
    match parseNat? l, parseNat? r, parseNat? o, parseIntList? xs with
    | some l, some r, some o, some xs => showIntList (xs.map (z1dPair l r o))
    | _, _, _, _ => "bad-op"
  | ["z1drun", l, r, o, is] =>
    match parseNat? l, parseNat? r, parseNat? o, parseNatList? is with
    | some l, some r, some o, some is =>
      let (s, vs) := z1dRun l r o Z1dState.fresh is
      showIntList vs ++ " " ++ (if s.switch then "1" else "0") ++ " " ++ toString s.kk
    | _, _, _, _ => "bad-op"
  | ["lazy", sizes] =>
    match parseNatList? sizes with
    | some sizes => showListList toString (lazyProduct sizes)
    | none => "bad-op"
  | ["sm1d", l, r, ml, xs] =>
    match parseNat? l, parseNat? r, parseInt? ml, parseNatList? xs with
    | some l, some r, some ml, some xs =>
      let proj := fun i => [z1dProject l r 1 i]
      let mf := maxEnum (fun v => z1dPair l r 1 (v.headD 0)) l [l + r + 1]
      let (nxt, outs) := smRunList (fun i => inBox l [l + r + 1] (proj i)) (mf + 1).toNat ml 0 xs
      ";".intercalate (outs.map (showOut proj)) ++ " " ++ toString ((nxt : Int) - 1) ++ " " ++ toString mf
    | _, _, _, _ => "bad-op"
  | ["smbox", k, o, ns, ml, xs] =>
    match parseKind? k, parseNat? o, parseNatList? ns, parseInt? ml, parseNatList? xs with
    | some k, some o, some ns, some ml, some xs =>
      let proj := zdProject k.projD 1 ns.length
      let mf := maxEnum (zdPair k.pairN 1) o ns
      let (nxt, outs) := smRunList (fun i => inBox o ns (proj i)) (mf + 1).toNat ml 0 xs
      ";".intercalate (outs.map (showOut proj)) ++ " " ++ toString ((nxt : Int) - 1) ++ " " ++ toString mf
    | _, _, _, _, _ => "bad-op"
  | ["hypproj", a, c] =>
    match parseNat? a, parseNat? c with
    | some a, some c => showListList toString ((List.range c).map (fun i => [(hypProj (a + i)).1, (hypProj (a + i)).2]))
    | _, _ => "bad-op"
  | ["hypprojmany", zs] =>
    match parseNatList? zs with
    | some zs => showListList toString (zs.map (fun z => [(hypProj z).1, (hypProj z).2, upperBound z]))
    | none => "bad-op"
  | ["hyppairmany", xss] =>
    match parseListListWith? parseNat? xss with
    | some xss => showNatList (xss.map (fun t => match t with | [x, y] => hypPair x y | _ => 0))
    | none => "bad-op"
  | ["smfrontier", k, o, ns] =>
    match parseKind? k, parseNat? o, parseNatList? ns with
    | some k, some o, some ns => toString (maxFrontier (zdPair k.pairN 1) o ns) ++ " " ++ toString (maxInside (zdPair k.pairN 1) o ns)
    | _, _, _ => "bad-op"
  | ["hypprojd", d, a, c] =>
    match parseNat? d, parseNat? a, parseNat? c with
    | some d, some a, some c => showListList toString ((List.range c).map (fun i => hyperbolic.projD (a + i) d))
    | _, _, _ => "bad-op"
  | ["hyppairn", xss] =>
    match parseListListWith? parseNat? xss with
    | some xss => showNatList (xss.map hyperbolic.pairN)
    | none => "bad-op"
  | ["hypzdproj", d, a, c] =>
    match parseNat? d, parseNat? a, parseNat? c with
    | some d, some a, some c => showListList toString ((List.range c).map (fun i => zdProject hyperbolic.projD 1 d (a + i)))
    | _, _, _ => "bad-op"
  | ["an", ns] =>
    match parseNatList? ns with
    | some ns => showNatList (ns.map aN)
    | none => "bad-op"
  | ["factor", n] =>
    match parseNat? n with
    | some n => showListList toString ((factor n).map (fun pe => [pe.1, pe.2]))
    | none => "bad-op"
  | _ => "bad-op"

def main : IO Unit := runStateless step
