import RpylibModel.Basic.Proto
import RpylibModel.Model.Integrals
open Rpylib Rpylib.Integrals

def showTerms (t : Terms) : String := showListList showRat (t.map (fun p => [p.1, p.2]))

def showOptTerms : Option Terms → String
  | some t => showTerms t
  | none => "err"

/-- requests (end points `a`, `b`, `l`, `r` are rationals or `inf` / `-inf`):
  trunc <l> <r> <a> <b>                         -> `<aa> <bb>`                    (_truncated_interval)
  truncint <l> <r> <a> <b>                      -> `<aa> <bb>` or `err`           (a > b raises)
  helper <n> <y>                                -> rational                       (_helper_sum_fact_xk)
  helperold <n> <y>                             -> rational                       (pre-fix polynomial)
  xnexp <n> <alpha> <a> <b>                     -> terms `[c,e;c,e]` or `err`     (integral_xn_exp_minus_x = Σ c·exp e)
  xnexpold <n> <alpha> <a> <b>                  -> the same with the pre-fix polynomial
  vgxn <c> <lp> <lm> <n> <a> <b>                -> terms or `err`                 (VG integrate_against_xn, n ≥ 1)
  hem <k> <lam> <p> <eta1> <eta2> <a> <b>       -> terms or `err`                 (HEM integrate / _x / _xx)
  split <knots> <tp> <tn> <a> <b>               -> rational or `err`              (split-at-zero pattern on a table)
-/
def step (t : List String) : String :=
  match t with
  | ["trunc", l, r, a, b] =>
    match parseExtRat? l, parseExtRat? r, parseExtRat? a, parseExtRat? b with
    | some l, some r, some a, some b =>
      let p := truncatedIntervalE l r a b
      showExtRat p.1 ++ " " ++ showExtRat p.2
    | _, _, _, _ => "bad-op"
  | ["truncint", l, r, a, b] =>
    match parseExtRat? l, parseExtRat? r, parseExtRat? a, parseExtRat? b with
    | some l, some r, some a, some b =>
      if ExtRat.lt b a then "err" else
      let p := truncatedIntervalE l r a b
      showExtRat p.1 ++ " " ++ showExtRat p.2
    | _, _, _, _ => "bad-op"
  | ["helper", n, y] =>
    match parseNat? n, parseRat? y with
    | some n, some y => showRat (helperSum n y)
    | _, _ => "bad-op"
  | ["helperold", n, y] =>
    match parseNat? n, parseRat? y with
    | some n, some y => showRat (helperSumOld n y)
    | _, _ => "bad-op"
  | ["xnexp", n, al, a, b] =>
    match parseNat? n, parseRat? al, parseExtRat? a, parseExtRat? b with
    | some n, some al, some a, some b => showOptTerms (xnExpTerms n al a b)
    | _, _, _, _ => "bad-op"
  | ["xnexpold", n, al, a, b] =>
    match parseNat? n, parseRat? al, parseExtRat? a, parseExtRat? b with
    | some n, some al, some a, some b => showOptTerms (xnExpTermsOld n al a b)
    | _, _, _, _ => "bad-op"
  | ["vgxn", c, lp, lm, n, a, b] =>
    match parseRat? c, parseRat? lp, parseRat? lm, parseNat? n, parseExtRat? a, parseExtRat? b with
    | some c, some lp, some lm, some n, some a, some b => showOptTerms (vgXnTerms c lp lm n a b)
    | _, _, _, _, _, _ => "bad-op"
  | ["hem", k, lam, p, e1, e2, a, b] =>
    match parseNat? k, parseRat? lam, parseRat? p, parseRat? e1, parseRat? e2, parseExtRat? a, parseExtRat? b with
    | some k, some lam, some p, some e1, some e2, some a, some b => showOptTerms (hemTerms k lam p e1 e2 a b)
    | _, _, _, _, _, _, _ => "bad-op"
  | ["split", ks, tps, tns, a, b] =>
    match parseRatList? ks, parseRatList? tps, parseRatList? tns, parseExtRat? a, parseExtRat? b with
    | some ks, some tps, some tns, some a, some b =>
      match integrate (tableFamily ks tps tns) a b with
      | some v => showRat v
      | none => "err"
    | _, _, _, _, _ => "bad-op"
  | _ => "bad-op"

def main : IO Unit := runStateless step
