import RpylibModel.Basic.Proto
import RpylibModel.Model.Integrals
import RpylibModel.Model.IntegralsSpecial
open Rpylib Rpylib.Integrals

def showTerms (t : Terms) : String := showListList showRat (t.map (fun p => [p.1, p.2]))

def showOptTerms : Option Terms → String
  | some t => showTerms t
  | none => "err"

def joinWith (sep : String) (l : List String) : String := sep.intercalate l

/-- `c,u;c,u` with extended points -/
def showExtPairs (l : List (Rat × ExtRat)) : String :=
  "[" ++ joinWith ";" (l.map (fun p => showRat p.1 ++ "," ++ showExtRat p.2)) ++ "]"

def showMerton : Option MertonTerms → String
  | some t => showExtPairs t.erfT ++ " " ++ showTerms t.gaussT
  | none => "err"

def showAtom : CgmyAtom → String
  | .tailMass al u h => "tailMass," ++ showRat al ++ "," ++ showRat u ++ "," ++ showRat h
  | .tailX al u h => "tailX," ++ showRat al ++ "," ++ showRat u ++ "," ++ showRat h
  | .lowGam s r h => "lowGam," ++ showRat s ++ "," ++ showRat r ++ "," ++ showExtRat h
  | .pow s h => "pow," ++ showRat s ++ "," ++ showRat h

def showCgmy : Option CgmyTerms → String
  | some t => "[" ++ joinWith ";" (t.map (fun p => showRat p.1 ++ "," ++ showAtom p.2)) ++ "]"
  | none => "err"

/-- requests (end points `a`, `b`, `l`, `r` are rationals or `inf` / `-inf`):
  trunc <l> <r> <a> <b>                         -> `<aa> <bb>`                    (_truncated_interval)
  truncint <l> <r> <a> <b>                      -> `<aa> <bb>` or `err`           (a > b raises)
  helper <n> <y>                                -> rational                       (_helper_sum_fact_xk)
  helperold <n> <y>                             -> rational                       (pre-fix polynomial)
  xnexp <n> <alpha> <a> <b>                     -> terms `[c,e;c,e]` or `err`     (integral_xn_exp_minus_x = Σ c·exp e)
  xnexpold <n> <alpha> <a> <b>                  -> the same with the pre-fix polynomial
  vgxn <c> <lp> <lm> <n> <a> <b>                -> terms or `err`                 (VG integrate_against_xn, n ≥ 1)
  hem <k> <lam> <p> <eta1> <eta2> <a> <b>       -> terms or `err`                 (HEM integrate / _x / _xx)
  split <knots> <tp> <tn> <a> <b>               -> rational or `err`              (split-at-zero pattern on a table)
  merton <k> <lam> <mu> <sigma> <a> <b>         -> `[c,u;c,u] [c,u;c,u]` or `err`  (erf terms at extended points, Gaussian terms)
  vgmass <c> <lp> <lm> <a> <b>                  -> terms `[c,z;c,z]` (Σ c·E1(z)) or `err`
  cgmymass | cgmyx | cgmyxx <c> <g> <m> <y> <a> <b>  -> `[c,atom,args;…]` or `err`   (atoms: tailMass,α,u,h  tailX,α,u,h  lowGam,s,rate,h  pow,s,h)
-/
def step (t : List String) : String :=
  match t with
  | ["trunc", l, r, a, b] =>
    match parseExtRat? l, parseExtRat? r, parseExtRat? a, parseExtRat? b with
    | some l, some r, some a, some b =>
      let p := truncatedIntervalE l r a b
      showExtRat p.1 ++ " " ++ showExtRat p.2
    | _, _, _, _ => "bad-op"
  | ["truncint", l, r, a, b] =>
    match parseExtRat? l, parseExtRat? r, parseExtRat? a, parseExtRat? b with
    | some l, some r, some a, some b =>
      if ExtRat.lt b a then "err" else
      let p := truncatedIntervalE l r a b
      showExtRat p.1 ++ " " ++ showExtRat p.2
    | _, _, _, _ => "bad-op"
  | ["helper", n, y] =>
    match parseNat? n, parseRat? y with
    | some n, some y => showRat (helperSum n y)
    | _, _ => "bad-op"
  | ["helperold", n, y] =>
    match parseNat? n, parseRat? y with
    | some n, some y => showRat (helperSumOld n y)
    | _, _ => "bad-op"
  | ["xnexp", n, al, a, b] =>
    match parseNat? n, parseRat? al, parseExtRat? a, parseExtRat? b with
    | some n, some al, some a, some b => showOptTerms (xnExpTerms n al a b)
    | _, _, _, _ => "bad-op"
  | ["xnexpold", n, al, a, b] =>
    match parseNat? n, parseRat? al, parseExtRat? a, parseExtRat? b with
    | some n, some al, some a, some b => showOptTerms (xnExpTermsOld n al a b)
    | _, _, _, _ => "bad-op"
  | ["vgxn", c, lp, lm, n, a, b] =>
    match parseRat? c, parseRat? lp, parseRat? lm, parseNat? n, parseExtRat? a, parseExtRat? b with
    | some c, some lp, some lm, some n, some a, some b => showOptTerms (vgXnTerms c lp lm n a b)
    | _, _, _, _, _, _ => "bad-op"
  | ["hem", k, lam, p, e1, e2, a, b] =>
    match parseNat? k, parseRat? lam, parseRat? p, parseRat? e1, parseRat? e2, parseExtRat? a, parseExtRat? b with
    | some k, some lam, some p, some e1, some e2, some a, some b => showOptTerms (hemTerms k lam p e1 e2 a b)
    | _, _, _, _, _, _, _ => "bad-op"
  | ["split", ks, tps, tns, a, b] =>
    match parseRatList? ks, parseRatList? tps, parseRatList? tns, parseExtRat? a, parseExtRat? b with
    | some ks, some tps, some tns, some a, some b =>
      match integrate (tableFamily ks tps tns) a b with
      | some v => showRat v
      | none => "err"
    | _, _, _, _, _ => "bad-op"
  | ["merton", k, lam, mu, sg, a, b] =>
    match parseNat? k, parseRat? lam, parseRat? mu, parseRat? sg, parseExtRat? a, parseExtRat? b with
    | some k, some lam, some mu, some sg, some a, some b => showMerton (mertonTerms k lam mu sg a b)
    | _, _, _, _, _, _ => "bad-op"
  | ["vgmass", c, lp, lm, a, b] =>
    match parseRat? c, parseRat? lp, parseRat? lm, parseExtRat? a, parseExtRat? b with
    | some c, some lp, some lm, some a, some b => showOptTerms (vgMassTerms c lp lm a b)
    | _, _, _, _, _ => "bad-op"
  | [op, c, g, m, y, a, b] =>
    match parseRat? c, parseRat? g, parseRat? m, parseRat? y, parseExtRat? a, parseExtRat? b with
    | some c, some g, some m, some y, some a, some b =>
      if op = "cgmymass" then showCgmy (cgmyMassTerms c g m y a b)
      else if op = "cgmyx" then showCgmy (cgmyXTerms c g m y a b)
      else if op = "cgmyxx" then showCgmy (cgmyXXTerms c g m y a b)
      else "bad-op"
    | _, _, _, _, _, _ => "bad-op"
  | _ => "bad-op"

def main : IO Unit := runStateless step
