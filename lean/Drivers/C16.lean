import RpylibModel.Basic.Proto
import RpylibModel.Model.Sde
open Rpylib Rpylib.Sde

/-- requests (vectors `[a,b]`, matrices / paths `[r0c0,r0c1;r1c0,r1c1]`; a path has one row per time index and one
    column per driver coordinate):
  euler <d> <m> <C> <D> <e> <beta> <gamma> <mu> <x0> <times> <W> <L>
        -> `<X> <drift> <diffusion> <jump>`   (one row per time index, m columns) with the coefficient family
           a(t,x)[k][j] = (C[k][j] + D[k][j] x_k)(1 + e t),  b(t,x)[k] = beta x_k + gamma
  pair <d> <m> <C> <D> <e> <beta> <gamma> <mu0> <mu1> <x0> <times> <W0> <L0> <W1> <L1>
        -> `<X fine> <X coarse>`
  df <x0> <tenors> <ts>       -> list of model.df(t) (`err` where the call raises IndexError)
  dfold <x0> <tenors> <ts>    -> the curve before the fix
  shape <const|diag|scale> <m> <d> <stacked 0|1> <M> <x0> <x1> <u0> <u1>
        -> `<shape of a(t,z)> <its entries, row-major> <shape of a(t,z) @ v> <its entries>` (`err` for a NumPy exception):
           the coefficient object called on the column state (m,1) of x0 / on the stacked state (2,m,1) of (x0, x1), then
           multiplied with the (d,1) column of u0 / the (2,d,1) stack of (u0, u1); M = the constant matrix / sigma(t)
  shapel <m> <d> <stacked 0|1> <sigma> <tenors> <t> <x0> <x1> <u0> <u1>
        -> the same for `LiborSDEFunction`: sigma(t) is the model's `liborSigma sigma tenors t`
-/
/- Vectors of the model are closures; iterating `eulerStep` on closures would re-evaluate the whole history at every
   component access.  The driver therefore materialises the state after every step (`vecOf (toList m ·)`) and runs M's
   own `eulerStep`, `driftInc`, `diffInc`, `jumpInc`, `eulerStepPair` one step at a time — `euler (i+1) = eulerStep
   (euler i) i` and `driftPath (i+1) = driftPath i + driftInc (euler i) i` hold by definition. -/
def addL (a b : List Rat) : List Rat := List.zipWith (· + ·) a b

/-- rows X_0..X_n and the cumulative drift / diffusion / jump rows; the loop state is plain data (`List Rat`) -/
def runEuler (S : Sde) (P : DriverPath) (m : Nat) : Nat → Nat → List Rat → List Rat → List Rat → List Rat →
    List (List Rat) × List (List Rat) × List (List Rat) × List (List Rat)
  | 0, _, z, dr, di, ju => ([z], [dr], [di], [ju])
  | fuel + 1, i, z, dr, di, ju =>
    let zv := vecOf z
    let z' := toList m (eulerStep S P zv i)
    let dr' := addL dr (toList m (driftInc S P zv i))
    let di' := addL di (toList m (diffInc S P zv i))
    let ju' := addL ju (toList m (jumpInc S P zv i))
    let (a, b, c, d) := runEuler S P m fuel (i + 1) z' dr' di' ju'
    (z :: a, dr :: b, di :: c, ju :: d)

def runPair (S : SdePair) (P : DriverPair) (m : Nat) : Nat → Nat → List Rat → List Rat → List (List Rat) × List (List Rat)
  | 0, _, z0, z1 => ([z0], [z1])
  | fuel + 1, i, z0, z1 =>
    let w := eulerStepPair S P (fun c => if c = 0 then vecOf z0 else vecOf z1) i
    let w0 := toList m (w 0)
    let w1 := toList m (w 1)
    let (a, b) := runPair S P m fuel (i + 1) w0 w1
    (z0 :: a, z1 :: b)

/-- all multi-indices of a shape, row-major -/
def allIdx : List Nat → List (List Nat)
  | [] => [[]]
  | n :: r => (List.range n).flatMap (fun i => (allIdx r).map (fun t => i :: t))

def showArr : Option NArr → String
  | none => "err err"
  | some a => showNatList a.shape ++ " " ++ showRatList ((allIdx a.shape).map a.get)

def step (tk : List String) : String :=
  match tk with
  | ["shapel", m, d, st, M, tenors, t, x0, x1, u0, u1] =>
    match parseNat? m, parseNat? d, parseListListWith? parseRat? M, parseRatList? tenors, parseRat? t, parseRatList? x0,
          parseRatList? x1, parseRatList? u0, parseRatList? u1 with
    | some m, some d, some M, some tenors, some t, some x0, some x1, some u0, some u1 =>
      let z := if st == "1" then stack2 (colArr m (vecOf x0)) (colArr m (vecOf x1)) else colArr m (vecOf x0)
      let v := if st == "1" then stack2 (colArr d (vecOf u0)) (colArr d (vecOf u1)) else colArr d (vecOf u0)
      let a := scaleCall m d (liborSigma (matOf M) (vecOf tenors) t) z
      showArr a ++ " " ++ showArr (applyCoef a v)
    | _, _, _, _, _, _, _, _, _ => "bad-op"
  | ["shape", cls, m, d, st, M, x0, x1, u0, u1] =>
    match parseNat? m, parseNat? d, parseListListWith? parseRat? M, parseRatList? x0, parseRatList? x1,
          parseRatList? u0, parseRatList? u1 with
    | some m, some d, some M, some x0, some x1, some u0, some u1 =>
      let z := if st == "1" then stack2 (colArr m (vecOf x0)) (colArr m (vecOf x1)) else colArr m (vecOf x0)
      let v := if st == "1" then stack2 (colArr d (vecOf u0)) (colArr d (vecOf u1)) else colArr d (vecOf u0)
      let a := if cls == "const" then constCall m d (matOf M) z else if cls == "diag" then diagCall z
               else scaleCall m d (matOf M) z
      showArr a ++ " " ++ showArr (applyCoef a v)
    | _, _, _, _, _, _, _ => "bad-op"
  | ["euler", d, m, C, D, e, be, ga, mu, x0, ts, W, L] =>
    match parseNat? d, parseNat? m, parseListListWith? parseRat? C, parseListListWith? parseRat? D, parseRat? e,
          parseRat? be, parseRat? ga, parseRatList? mu, parseRatList? x0, parseRatList? ts,
          parseListListWith? parseRat? W, parseListListWith? parseRat? L with
    | some d, some m, some C, some D, some e, some be, some ga, some mu, some x0, some ts, some W, some L =>
      let S : Sde := ⟨d, affB be ga, affA (matOf C) (matOf D) e, vecOf mu⟩
      let P : DriverPath := ⟨vecOf ts, fun i => vecOf (W.getD i []), fun i => vecOf (L.getD i [])⟩
      let n := ts.length - 1
      let x := vecOf x0
      let z := List.replicate m (0 : Rat)
      let (a, b, c, d) := runEuler S P m n 0 (toList m x) z z z
      showListList showRat a ++ " " ++ showListList showRat b ++ " " ++ showListList showRat c ++ " " ++
        showListList showRat d
    | _, _, _, _, _, _, _, _, _, _, _, _ => "bad-op"
  | ["pair", d, m, C, D, e, be, ga, mu0, mu1, x0, ts, W0, L0, W1, L1] =>
    match parseNat? d, parseNat? m, parseListListWith? parseRat? C, parseListListWith? parseRat? D, parseRat? e,
          parseRat? be, parseRat? ga, parseRatList? mu0, parseRatList? mu1, parseRatList? x0, parseRatList? ts with
    | some d, some m, some C, some D, some e, some be, some ga, some mu0, some mu1, some x0, some ts =>
      match parseListListWith? parseRat? W0, parseListListWith? parseRat? L0,
            parseListListWith? parseRat? W1, parseListListWith? parseRat? L1 with
      | some W0, some L0, some W1, some L1 =>
        let S : SdePair := ⟨d, affB be ga, affA (matOf C) (matOf D) e, fun c => if c = 0 then vecOf mu0 else vecOf mu1⟩
        let P : DriverPair := ⟨vecOf ts,
          fun c i => if c = 0 then vecOf (W0.getD i []) else vecOf (W1.getD i []),
          fun c i => if c = 0 then vecOf (L0.getD i []) else vecOf (L1.getD i [])⟩
        let n := ts.length - 1
        let x := vecOf x0
        let xl := toList m x
        let (a, b) := runPair S P m n 0 xl xl
        showListList showRat a ++ " " ++ showListList showRat b
      | _, _, _, _ => "bad-op"
    | _, _, _, _, _, _, _, _, _, _, _ => "bad-op"
  | ["df", x0, tenors, ts] =>
    match parseRatList? x0, parseRatList? tenors, parseRatList? ts with
    | some x0, some tenors, some ts =>
      showList (fun t => match dfCurve? x0 tenors t with | some v => showRat v | none => "err") ts
    | _, _, _ => "bad-op"
  | ["dfold", x0, tenors, ts] =>
    match parseRatList? x0, parseRatList? tenors, parseRatList? ts with
    | some x0, some tenors, some ts => showRatList (ts.map (dfCurveOld x0 tenors))
    | _, _, _ => "bad-op"
  | _ => "bad-op"

def main : IO Unit := runStateless step
